import Infretis.Model.PermCache
/-!
Cache coherence of `REPEX_state.prob` / `_last_prob` (model: `Infretis.PermCache`).

Invariant `Coherent c`: the cache is empty or holds `inf_retis(abs(state), _locks)` of the CURRENT state and
locks, and never an error.  Every operation the sampler performs (everything except a bare `swap`) preserves
it, and every matrix handed out is `inf_retis` of the state at the moment of the use.
-/
namespace Infretis.PermCache
open Infretis.Perm

def Coherent (c : C) : Prop := ∀ r, c.cache = some r → r = compute c.s ∧ ∀ e, r ≠ Res.error e

def GoodUse (u : Use) : Prop := u.val = compute u.at_ ∧ ∀ e, u.val ≠ Res.error e

theorem coherent_of_none (c : C) (h : c.cache = none) : Coherent c := by
  intro r hr; rw [h] at hr; cases hr

theorem readProb_spec (c : C) (hc : Coherent c) (c' : C) (u : Use) (h : readProb c = .ok (c', u)) :
    Coherent c' ∧ GoodUse u ∧ c'.s = c.s ∧ u.at_ = c.s := by
  unfold readProb at h
  split at h
  · rename_i r hr
    injection h with h
    injection h with h1 h2
    subst h1; subst h2
    exact ⟨hc, hc r hr, rfl, rfl⟩
  · split at h
    · cases h
    · rename_i hne
      injection h with h
      injection h with h1 h2
      subst h1; subst h2
      refine ⟨?_, ⟨rfl, fun e he => hne e he⟩, rfl, rfl⟩
      intro r hr
      simp only [Option.some.injEq] at hr
      subst hr
      exact ⟨rfl, fun e he => hne e he⟩

theorem lock_spec (c : C) (e : Nat) (c' : C) (h : lock c e = .ok c') : c'.cache = none := by
  unfold lock at h
  split at h
  · injection h with h; subst h; rfl
  · cases h

theorem unlock_spec (c : C) (e : Nat) (c' : C) (h : unlock c e = .ok c') : c'.cache = none := by
  unfold unlock at h
  split at h
  · injection h with h; subst h; rfl
  · cases h

theorem swapLock_spec (c : C) (hc : Coherent c) (t e : Nat) (c' : C) (us : List Use)
    (h : swapLock c t e = .ok (c', us)) : Coherent c' ∧ ∀ u ∈ us, GoodUse u := by
  unfold swapLock at h
  split at h
  · cases h
  · rename_i c1 u hr
    split at h
    · cases h
    · rename_i c2 hl
      injection h with h
      injection h with h1 h2
      subst h1; subst h2
      refine ⟨coherent_of_none _ (lock_spec _ _ _ hl), ?_⟩
      intro u' hu'
      simp only [List.mem_singleton] at hu'
      subst hu'
      exact (readProb_spec c hc c1 _ hr).2.1

theorem fresh_read_spec (s : Repex.St) (c' : C) (u : Use)
    (h : readProb { s := s, cache := none } = .ok (c', u)) : Coherent c' ∧ GoodUse u :=
  let r := readProb_spec { s := s, cache := none } (coherent_of_none _ rfl) c' u h
  ⟨r.1, r.2.1⟩

theorem addTraj_spec (c : C) (ens : Int) (pn : Nat) (valid : List Rat) (c' : C) (us : List Use)
    (h : addTraj c ens pn valid = .ok (c', us)) : Coherent c' ∧ ∀ u ∈ us, GoodUse u := by
  unfold addTraj at h
  split at h
  · cases h
  · rename_i s' _
    split at h
    · cases h
    · rename_i c1 u hr
      injection h with h
      injection h with h1 h2
      subst h1; subst h2
      have := fresh_read_spec s' c1 u hr
      refine ⟨this.1, ?_⟩
      intro u' hu'
      simp only [List.mem_singleton] at hu'
      subst hu'
      exact this.2

theorem sortTrajstate_spec (fuel : Nat) (c : C) (c' : C) (us : List Use)
    (h : sortTrajstate fuel c = .ok (c', us)) : Coherent c' ∧ ∀ u ∈ us, GoodUse u := by
  unfold sortTrajstate at h
  split at h
  · cases h
  · rename_i s' _ _
    split at h
    · cases h
    · rename_i c1 u hr
      injection h with h
      injection h with h1 h2
      subst h1; subst h2
      have := fresh_read_spec s' c1 u hr
      refine ⟨this.1, ?_⟩
      intro u' hu'
      simp only [List.mem_singleton] at hu'
      subst hu'
      exact this.2

theorem printState_spec (c : C) (hc : Coherent c) (c' : C) (us : List Use)
    (h : printState c = .ok (c', us)) : Coherent c' ∧ ∀ u ∈ us, GoodUse u := by
  unfold printState at h
  split at h
  · rename_i r hr
    injection h with h
    injection h with h1 h2
    subst h1; subst h2
    refine ⟨hc, ?_⟩
    intro u' hu'
    simp only [List.mem_singleton] at hu'
    subst hu'
    exact hc r hr
  · split at h
    · cases h
    · rename_i c1 u hr
      injection h with h
      injection h with h1 h2
      subst h1; subst h2
      refine ⟨coherent_of_none _ rfl, ?_⟩
      intro u' hu'
      simp only [List.mem_singleton] at hu'
      subst hu'
      exact (readProb_spec c hc c1 _ hr).2.1

/-- every public operation preserves coherence and hands out only `inf_retis` of the current state -/
theorem step_spec (c : C) (hc : Coherent c) (op : Op) (hp : isPublic op = true) (c' : C) (us : List Use)
    (h : step c op = .ok (c', us)) : Coherent c' ∧ ∀ u ∈ us, GoodUse u := by
  cases op with
  | read =>
    simp only [step] at h
    split at h
    · cases h
    · rename_i c1 u hr
      injection h with h
      injection h with h1 h2
      subst h1; subst h2
      have := readProb_spec c hc c1 u hr
      refine ⟨this.1, ?_⟩
      intro u' hu'
      simp only [List.mem_singleton] at hu'
      subst hu'
      exact this.2.1
  | lock e =>
    simp only [step] at h
    split at h
    · cases h
    · rename_i c1 hl
      injection h with h
      injection h with h1 h2
      subst h1; subst h2
      exact ⟨coherent_of_none _ (lock_spec _ _ _ hl), by intro u hu; cases hu⟩
  | unlock e =>
    simp only [step] at h
    split at h
    · cases h
    · rename_i c1 hl
      injection h with h
      injection h with h1 h2
      subst h1; subst h2
      exact ⟨coherent_of_none _ (unlock_spec _ _ _ hl), by intro u hu; cases hu⟩
  | swapLock t e => exact swapLock_spec c hc t e c' us h
  | addTraj ens pn valid => exact addTraj_spec c ens pn valid c' us h
  | sort => exact sortTrajstate_spec _ c c' us h
  | printState => exact printState_spec c hc c' us h
  | rawSwap t e => cases hp
  | reissue t e =>
    simp only [step] at h
    split at h
    · cases h
    · rename_i c1 hl
      injection h with h
      injection h with h1 h2
      subst h1; subst h2
      exact ⟨coherent_of_none _ (lock_spec _ _ _ hl), by intro u hu; cases hu⟩

theorem run_spec (ops : List Op) : ∀ (c : C), Coherent c → (∀ op ∈ ops, isPublic op = true) →
    ∀ (c' : C) (us : List Use), run c ops = .ok (c', us) → Coherent c' ∧ ∀ u ∈ us, GoodUse u := by
  induction ops with
  | nil =>
    intro c hc _ c' us h
    simp only [run] at h
    injection h with h
    injection h with h1 h2
    subst h1; subst h2
    exact ⟨hc, by intro u hu; cases hu⟩
  | cons op ops ih =>
    intro c hc hp c' us h
    simp only [run] at h
    split at h
    · cases h
    · rename_i c1 us1 h1
      split at h
      · cases h
      · rename_i c2 us2 h2
        injection h with h
        injection h with ha hb
        subst ha; subst hb
        have s1 := step_spec c hc op (hp op (List.mem_cons_self ..)) c1 us1 h1
        have s2 := ih c1 s1.1 (fun o ho => hp o (List.mem_cons_of_mem _ ho)) c2 us2 h2
        refine ⟨s2.1, ?_⟩
        intro u hu
        rcases List.mem_append.mp hu with hu | hu
        · exact s1.2 u hu
        · exact s2.2 u hu

end Infretis.PermCache
