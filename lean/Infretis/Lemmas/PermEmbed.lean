import Infretis.Lemmas.PermPipe
/-!
# `probMatrix`: zero on busy rows and columns, `pSpec` of the idle block elsewhere (C02)
-/
namespace Infretis.Perm

/-- position of slot `i` inside the idle block: number of idle slots before it -/
def rank (locks : List Bool) (i : Nat) : Nat := ((locks.take i).filter (fun b => !b)).length

/-- number of idle slots -/
def nIdle (locks : List Bool) : Nat := (locks.filter (fun b => !b)).length

theorem keep_length {α : Type} (locks : List Bool) (xs : List α) (h : xs.length = locks.length) :
    (keep locks xs).length = nIdle locks := by
  induction locks generalizing xs with
  | nil => cases xs <;> simp [keep, nIdle]
  | cons l ls ih =>
    cases xs with
    | nil => simp at h
    | cons x xs =>
      simp only [List.length_cons, Nat.add_right_cancel_iff] at h
      cases l <;> simp [keep, nIdle, ih xs h]

theorem reinsert_getD_locked {α : Type} (z d : α) (locks : List Bool) (xs : List α) (i : Nat)
    (hlen : xs.length = nIdle locks) (h : locks[i]? = some true) :
    (reinsert z locks xs).getD i d = z := by
  induction locks generalizing xs i with
  | nil => simp at h
  | cons l ls ih =>
    cases l with
    | true =>
      have hl : xs.length = nIdle ls := by simpa [nIdle] using hlen
      cases i with
      | zero => simp [reinsert]
      | succ i =>
        simp only [List.getElem?_cons_succ] at h
        simpa [reinsert] using ih xs i hl h
    | false =>
      cases xs with
      | nil => simp [nIdle] at hlen
      | cons x xs =>
        have hl : xs.length = nIdle ls := by simpa [nIdle] using hlen
        cases i with
        | zero => simp at h
        | succ i =>
          simp only [List.getElem?_cons_succ] at h
          simpa [reinsert] using ih xs i hl h

theorem reinsert_getD_idle {α : Type} (z d : α) (locks : List Bool) (xs : List α) (i : Nat)
    (hlen : xs.length = nIdle locks) (h : locks[i]? = some false) :
    (reinsert z locks xs).getD i d = xs.getD (rank locks i) d := by
  induction locks generalizing xs i with
  | nil => simp at h
  | cons l ls ih =>
    cases l with
    | true =>
      have hl : xs.length = nIdle ls := by simpa [nIdle] using hlen
      cases i with
      | zero => simp at h
      | succ i =>
        simp only [List.getElem?_cons_succ] at h
        simpa [reinsert, rank] using ih xs i hl h
    | false =>
      cases xs with
      | nil => simp [nIdle] at hlen
      | cons x xs =>
        have hl : xs.length = nIdle ls := by simpa [nIdle] using hlen
        cases i with
        | zero => simp [reinsert, rank]
        | succ i =>
          simp only [List.getElem?_cons_succ] at h
          simpa [reinsert, rank] using ih xs i hl h

theorem idle_length (W : Mat) (locks : List Bool) (h : W.length = locks.length) :
    (idle W locks).length = nIdle locks := by
  simp [idle, keep_length locks W h]

theorem reinsert_length {α : Type} (z : α) (locks : List Bool) (xs : List α)
    (hlen : xs.length = nIdle locks) : (reinsert z locks xs).length = locks.length := by
  induction locks generalizing xs with
  | nil =>
    have : xs = [] := List.eq_nil_of_length_eq_zero (by simpa [nIdle] using hlen)
    subst this; rfl
  | cons l ls ih =>
    cases l with
    | true =>
      have hl : xs.length = nIdle ls := by simpa [nIdle] using hlen
      simp [reinsert, ih xs hl]
    | false =>
      cases xs with
      | nil => simp [nIdle] at hlen
      | cons x xs =>
        have hl : xs.length = nIdle ls := by simpa [nIdle] using hlen
        simp [reinsert, ih xs hl]

theorem specRow_reinsert_length (W : Mat) (locks : List Bool) (hW : W.length = locks.length)
    (r : Row) (hr : r ∈ specMat (idle W locks)) : r.length = nIdle locks := by
  simp only [specMat, List.mem_map, List.mem_range] at hr
  obtain ⟨a, _, rfl⟩ := hr
  simp [idle_length W locks hW]

/-- **zero on busy rows and columns** -/
theorem probMatrix_busy (W : Mat) (locks : List Bool) (hW : W.length = locks.length) (i j : Nat)
    (hb : locks[i]? = some true ∨ locks[j]? = some true) : entry (probMatrix W locks) i j = 0 := by
  unfold probMatrix embed entry
  have hl := idle_length W locks hW
  have hrows : ((specMat (idle W locks)).map (reinsert 0 locks)).length = nIdle locks := by
    simp [specMat, hl]
  by_cases hi : locks[i]? = some true
  · rw [reinsert_getD_locked _ _ _ _ _ hrows hi]
    simp [List.getD_eq_getElem?_getD, List.getElem?_replicate]
    split <;> rfl
  · have hj : locks[j]? = some true := hb.resolve_left hi
    cases hli : locks[i]? with
    | none =>
      -- beyond the last slot: no such row
      have hge : locks.length ≤ i := by
        rcases Nat.lt_or_ge i locks.length with h | h
        · simp [List.getElem?_eq_getElem h] at hli
        · exact h
      have := reinsert_length (List.replicate locks.length (0 : Rat)) locks _ hrows
      have hrow : (reinsert (List.replicate locks.length (0 : Rat)) locks
          ((specMat (idle W locks)).map (reinsert 0 locks))).getD i [] = [] := by
        rw [List.getD_eq_getElem?_getD, List.getElem?_eq_none (by omega)]
        rfl
      rw [hrow]
      rfl
    | some b =>
      cases b with
      | true => exact absurd hli hi
      | false =>
        rw [reinsert_getD_idle _ _ _ _ _ hrows hli]
        rw [List.getD_eq_getElem?_getD (l := List.map _ _), List.getElem?_map]
        cases hrow : (specMat (idle W locks))[rank locks i]? with
        | none => simp
        | some r =>
          simp only [Option.map_some, Option.getD_some]
          exact reinsert_getD_locked _ _ _ _ _
            (specRow_reinsert_length W locks hW r (List.mem_of_getElem? hrow)) hj

theorem rank_lt (locks : List Bool) (i : Nat) (h : locks[i]? = some false) :
    rank locks i < nIdle locks := by
  induction locks generalizing i with
  | nil => simp at h
  | cons l ls ih =>
    cases i with
    | zero =>
      simp only [List.getElem?_cons_zero, Option.some.injEq] at h
      subst h; simp [rank, nIdle]
    | succ i =>
      simp only [List.getElem?_cons_succ] at h
      have := ih i h
      cases l <;> simp [rank, nIdle] at this ⊢ <;> omega

/-- **the permanent ratio of the idle block on idle rows and columns** -/
theorem probMatrix_idle (W : Mat) (locks : List Bool) (hW : W.length = locks.length) (i j : Nat)
    (hi : locks[i]? = some false) (hj : locks[j]? = some false) :
    entry (probMatrix W locks) i j = pSpec (idle W locks) (rank locks i) (rank locks j) := by
  unfold probMatrix embed entry
  have hl := idle_length W locks hW
  have hrows : ((specMat (idle W locks)).map (reinsert 0 locks)).length = nIdle locks := by
    simp [specMat, hl]
  have hri := rank_lt locks i hi
  have hrj := rank_lt locks j hj
  rw [reinsert_getD_idle _ _ _ _ _ hrows hi]
  rw [List.getD_eq_getElem?_getD (l := List.map _ _), List.getElem?_map]
  have hrow : (specMat (idle W locks))[rank locks i]?
      = some ((List.range (idle W locks).length).map (fun b => pSpec (idle W locks) (rank locks i) b)) := by
    simp [specMat, List.getElem?_map, List.getElem?_range (hl ▸ hri)]
  rw [hrow]
  simp only [Option.map_some, Option.getD_some]
  rw [reinsert_getD_idle _ _ _ _ _ (by simp [hl]) hj]
  simp [List.getD_eq_getElem?_getD, List.getElem?_map, List.getElem?_range (hl ▸ hrj)]

end Infretis.Perm
