import Infretis.Lemmas.PermStair
import Infretis.Lemmas.PermBlock
import Infretis.Lemmas.PermProb
import Infretis.Lemmas.PermReach
/-!
# The equal-weights branch of `inf_retis` returns the permanent ratios (C02)

`sortedOut s` with `s.equal = true` calls `quick_prob` on the (reversed) minus block and on the
plus block.  On the sorted reachable family both calls give the permanent ratios of the whole
sorted matrix:

* `quick_prob` only looks at the zero pattern of its argument (`quickProb_congr`), and a leading
  all-zero column only produces a zero output column (`quickProb_zero_col`), so on the plus block
  it is `quick_prob` of the 0/1 staircase, i.e. the spec of the staircase (`PermStair`);
* the plus block is row-constant (the `equal` test), so its rows are multiples of the staircase
  rows and the spec does not change (`pSpec_scaleAll`);
* the sorted matrix is block triangular (`PermBlock`).
-/
namespace Infretis.Perm

theorem getD_eq_getElem_of_lt {α : Type} (l : List α) (d : α) {n : Nat} (hn : n < l.length) :
    l.getD n d = l[n] := by
  simp [List.getD_eq_getElem?_getD, hn]

/-! ## `quick_prob` only sees the zero pattern -/

theorem quickCols_succ (arr : Mat) (c : Nat) (t : List Rat) :
    quickCols arr (c + 1) t
      = (quickCol ((colOf arr c).map indicator) t).1
        :: quickCols arr c (quickCol ((colOf arr c).map indicator) t).2 := rfl

theorem quickCols_congr (arr arr' : Mat) (k : Nat)
    (h : ∀ c, c < k → (colOf arr c).map indicator = (colOf arr' c).map indicator) (t : List Rat) :
    quickCols arr k t = quickCols arr' k t := by
  induction k generalizing t with
  | zero => rfl
  | succ k ih =>
    rw [quickCols_succ, quickCols_succ, h k (by omega), ih (fun c hc => h c (by omega))]

theorem quickProb_congr (arr arr' : Mat) (hl : arr.length = arr'.length)
    (hn : ncols arr = ncols arr')
    (h : ∀ c, c < ncols arr → (colOf arr c).map indicator = (colOf arr' c).map indicator) :
    quickProb arr = quickProb arr' := by
  unfold quickProb
  rw [quickCols_congr arr arr' _ h, hl, hn]

/-! ## a leading zero column -/

theorem quickCol_length (col t : List Rat) (n : Nat) (hc : col.length = n) (ht : t.length = n) :
    (quickCol col t).2.length = n := by
  unfold quickCol
  simp only
  split <;> simp [hc, ht]

theorem zipWith_zero_mul (n : Nat) (t : List Rat) (ht : t.length = n) :
    List.zipWith (fun c x => c * x) (List.replicate n (0:Rat)) t = List.replicate n 0 := by
  induction n generalizing t with
  | zero => simp
  | succ n ih =>
    cases t with
    | nil => simp at ht
    | cons x xs =>
      simp only [List.length_cons, Nat.add_right_cancel_iff] at ht
      simp [List.replicate_succ, ih xs ht]

theorem indicator_zero : indicator 0 = 0 := by simp [indicator]

theorem quickCol_zero_fst (n : Nat) (t : List Rat) (ht : t.length = n) :
    (quickCol ((List.replicate n (0:Rat)).map indicator) t).1 = List.replicate n 0 := by
  unfold quickCol
  simp only [List.map_replicate, indicator_zero, zipWith_zero_mul n t ht]
  simp

theorem colOf_zero_col_zero (rows : Mat) :
    colOf (rows.map (fun r => (0:Rat) :: r)) 0 = List.replicate rows.length 0 := by
  induction rows with
  | nil => rfl
  | cons r rs ih =>
    simp only [colOf, List.map_cons, List.length_cons, List.replicate_succ, List.getD_cons_zero]
      at ih ⊢
    rw [ih]

theorem colOf_zero_col_succ (rows : Mat) (c : Nat) :
    colOf (rows.map (fun r => (0:Rat) :: r)) (c + 1) = colOf rows c := by
  simp [colOf]

theorem length_colOf (arr : Mat) (c : Nat) : (colOf arr c).length = arr.length := by
  simp [colOf]

theorem quickCols_zero_col (rows : Mat) (k : Nat) (t : List Rat) (ht : t.length = rows.length) :
    quickCols (rows.map (fun r => (0:Rat) :: r)) (k + 1) t
      = quickCols rows k t ++ [List.replicate rows.length 0] := by
  induction k generalizing t with
  | zero =>
    rw [quickCols_succ, colOf_zero_col_zero, quickCol_zero_fst _ _ ht]
    rfl
  | succ k ih =>
    rw [quickCols_succ, colOf_zero_col_succ, quickCols_succ rows k t, ih]
    · rfl
    · exact quickCol_length _ _ _ (by simp [length_colOf]) ht

theorem getD_replicate_zero (n c : Nat) : (List.replicate n (0:Rat)).getD c 0 = 0 := by
  simp only [List.getD_eq_getElem?_getD, List.getElem?_replicate]
  split <;> rfl

theorem quickProb_zero_col (rows : Mat) (hne : rows ≠ []) :
    quickProb (rows.map (fun r => (0:Rat) :: r)) = (quickProb rows).map (fun r => (0:Rat) :: r) := by
  have hn : ncols (rows.map (fun r => (0:Rat) :: r)) = ncols rows + 1 := by
    cases rows with
    | nil => exact absurd rfl hne
    | cons r rs => simp [ncols]
  unfold quickProb
  rw [hn, List.length_map, quickCols_zero_col rows _ _ (by simp)]
  simp only [List.reverse_append, List.reverse_cons, List.reverse_nil, List.nil_append,
    List.cons_append, List.map_cons, List.map_map]
  apply List.map_congr_left
  intro r _
  simp only [Function.comp, getD_replicate_zero]

theorem quickProb_pad (o : Nat) (rows : Mat) (hne : rows ≠ []) :
    quickProb (rows.map (fun r => List.replicate o (0:Rat) ++ r))
      = (quickProb rows).map (fun r => List.replicate o (0:Rat) ++ r) := by
  induction o with
  | zero => simp
  | succ o ih =>
    have e : rows.map (fun r => List.replicate (o + 1) (0:Rat) ++ r)
        = (rows.map (fun r => List.replicate o (0:Rat) ++ r)).map (fun r => (0:Rat) :: r) := by
      simp [List.replicate_succ]
    rw [e, quickProb_zero_col _ (by simpa using hne), ih]
    simp [List.replicate_succ]

/-! ## a single row (the minus block) -/

theorem quickCols_single_dead (row : Row) (k : Nat) :
    quickCols [row] k [0] = List.replicate k [0] := by
  induction k with
  | zero => rfl
  | succ k ih =>
    rw [quickCols_succ]
    have : quickCol ((colOf [row] k).map indicator) [0] = ([0], [0]) := by
      simp [quickCol, colOf]
    rw [this, ih]
    rfl

theorem quickProb_single (row : Row) (k : Nat) (hl : row.length = k + 1)
    (hw : row.getD k 0 ≠ 0) : quickProb [row] = [List.replicate k 0 ++ [1]] := by
  unfold quickProb
  have hn : ncols [row] = k + 1 := by simp [ncols, hl]
  rw [hn, quickCols_succ]
  have : quickCol ((colOf [row] k).map indicator) (List.replicate [row].length 1) = ([1], [0]) := by
    have hw' : row[k]?.getD 0 ≠ 0 := by simpa [List.getD_eq_getElem?_getD] using hw
    simp [quickCol, colOf, indicator, hw']
  rw [this, quickCols_single_dead]
  simp [List.getD_eq_getElem?_getD]

/-! ## the plus block -/

theorem pad_getD (o : Nat) (r : Row) (c : Nat) :
    (List.replicate o (0:Rat) ++ r).getD c 0 = if c < o then 0 else r.getD (c - o) 0 := by
  simp only [List.getD_eq_getElem?_getD, List.getElem?_append, List.length_replicate,
    List.getElem?_replicate]
  split <;> simp [*]

theorem indicator_plus (o n cnt : Nat) (r : Row) (h : IsPlusRow o (o + n) cnt r) (c : Nat)
    (hc : c < o + n) :
    indicator (r.getD c 0)
      = indicator ((List.replicate o (0:Rat) ++ stairRow n cnt).getD c 0) := by
  obtain ⟨_, hle, hz, hp, hz2⟩ := h
  rw [pad_getD]
  by_cases h1 : c < o
  · rw [if_pos h1, hz c h1]
  · rw [if_neg h1, stairRow_getD n cnt (c - o) (by omega)]
    by_cases h2 : c < o + cnt
    · have := hp c (by omega) h2
      have hne : r.getD c 0 ≠ 0 := ne_of_gt this
      rw [if_pos (by omega)]
      simp only [indicator, if_neg hne]
      simp
    · rw [if_neg (by omega), hz2 c (by omega) hc]

/-- Hall's condition in the form used by `PermStair` -/
theorem hall_Dnum (cnts : List Nat) (hall : ∀ k, k < cnts.length → k + 1 ≤ cnts.getD k 0) :
    ∀ c, c < cnts.length → 1 ≤ Dnum cnts c := by
  intro c hc
  have h1 : ((cnts.drop c).filter (fun k => decide (c < k))).length
      ≤ (cnts.filter (fun k => decide (c < k))).length :=
    ((List.drop_sublist c cnts).filter _).length_le
  have h2 : (cnts.drop c).filter (fun k => decide (c < k)) = cnts.drop c := by
    rw [List.filter_eq_self]
    intro x hx
    obtain ⟨i, hi, rfl⟩ := List.mem_iff_getElem.mp hx
    have hi' : i < cnts.length - c := by simpa using hi
    have := hall (c + i) (by omega)
    rw [getD_eq_getElem_of_lt _ _ (by omega)] at this
    simp only [List.getElem_drop, decide_eq_true_eq]
    omega
  rw [h2, List.length_drop] at h1
  unfold Dnum
  have h3 : ((cnts.length - c : Nat) : Rat)
      ≤ ((cnts.filter (fun k => decide (c < k))).length : Rat) := by exact_mod_cast h1
  rw [Nat.cast_sub (le_of_lt hc)] at h3
  linarith

/-- `quick_prob` on the plus block: the spec of the staircase, padded with the minus columns -/
theorem quickProb_plus (o : Nat) (B : Mat) (cnts : List Nat) (hlen : B.length = cnts.length)
    (hne : cnts ≠ [])
    (hrow : ∀ k, k < cnts.length → IsPlusRow o (o + cnts.length) (cnts.getD k 0) (B.getD k []))
    (hall : ∀ k, k < cnts.length → k + 1 ≤ cnts.getD k 0) :
    quickProb B
      = (specMat (stair cnts)).map (fun r => List.replicate o (0:Rat) ++ r) := by
  have hpos : 0 < cnts.length := List.length_pos_iff.mpr hne
  have hstne : stair cnts ≠ [] := by
    intro h; have := stair_length cnts; rw [h] at this; simp at this; omega
  rw [← quickProb_stair_eq_spec cnts (hall_Dnum cnts hall), ← quickProb_pad o _ hstne]
  have hnB : ncols B = o + cnts.length := by
    cases B with
    | nil => simp at hlen; omega
    | cons b bs => exact (hrow 0 hpos).1
  have hnS : ncols ((stair cnts).map (fun r => List.replicate o (0:Rat) ++ r))
      = o + cnts.length := by
    cases cnts with
    | nil => exact absurd rfl hne
    | cons k ks => simp [ncols, stair, stairRow]
  apply quickProb_congr
  · simp [stair_length, hlen]
  · rw [hnB, hnS]
  · intro c hc
    rw [hnB] at hc
    simp only [colOf, stair, List.map_map]
    apply List.ext_getElem
    · simp [hlen]
    · intro k h1 h2
      have hk : k < cnts.length := by simpa using h2
      have hkB : k < B.length := by omega
      simp only [List.getElem_map, Function.comp]
      have := indicator_plus o cnts.length (cnts.getD k 0) (B.getD k []) (hrow k hk) c hc
      rw [getD_eq_getElem_of_lt _ _ hk, getD_eq_getElem_of_lt _ _ hkB] at this
      exact this

/-! ## the spec of the row-constant plus block -/

theorem permC_scaleAll_eq_zero (f : Row → Rat) (A B : Mat) (hW : permC (A ++ B) = 0) :
    permC (A ++ scaleAll f B) = 0 := by
  induction B generalizing A with
  | nil => exact hW
  | cons r B ih =>
    have h1 := ih (A ++ [scaleRow (f r) r])
    simp only [List.append_assoc, List.cons_append, List.nil_append] at h1
    simp only [scaleAll, List.map_cons] at h1 ⊢
    apply h1
    rw [permC_scale_mid, hW, mul_zero]

/-- a row-constant positive staircase is the 0/1 staircase up to row scaling -/
theorem stair_eq_scaleAll (D : Mat) (cnts : List Nat) (hlen : D.length = cnts.length)
    (hrow : ∀ k, k < cnts.length → IsPlusRow 0 cnts.length (cnts.getD k 0) (D.getD k []))
    (hconst : ∀ k, k < cnts.length → ∀ c, c < cnts.getD k 0 →
      (D.getD k []).getD c 0 = (D.getD k []).getD 0 0)
    (hall : ∀ k, k < cnts.length → k + 1 ≤ cnts.getD k 0) :
    stair cnts = scaleAll (fun r => 1 / r.getD 0 0) D := by
  apply List.ext_getElem
  · simp [stair_length, scaleAll, hlen]
  · intro k h1 h2
    have hk : k < cnts.length := by simpa [stair_length] using h1
    have hkD : k < D.length := by omega
    obtain ⟨hl, hle, _, hp, hz⟩ := hrow k hk
    have hc := hconst k hk
    have hh := hall k hk
    rw [getD_eq_getElem_of_lt _ _ hkD] at hl hp hz hc
    rw [getD_eq_getElem_of_lt _ _ hk] at hle hp hz hc hh
    simp only [stair, scaleAll, List.getElem_map]
    apply List.ext_getElem
    · simp [stairRow, scaleRow, hl]
    · intro c h3 h4
      have hcn : c < cnts.length := by simpa [stairRow] using h3
      have e1 : (stairRow cnts.length cnts[k])[c] = if c < cnts[k] then 1 else 0 := by
        rw [← getD_eq_getElem_of_lt _ 0 h3]; exact stairRow_getD _ _ _ hcn
      have e2 : (scaleRow (1 / D[k].getD 0 0) D[k])[c] = 1 / D[k].getD 0 0 * D[k].getD c 0 := by
        rw [← getD_eq_getElem_of_lt _ 0 h4]; exact getD_scaleRow _ _ _
      rw [e1, e2]
      have hw : 0 < D[k].getD 0 0 := hp 0 (by omega) (by omega)
      by_cases hck : c < cnts[k]
      · rw [if_pos hck, hc c hck]
        field_simp
      · rw [if_neg hck, hz c (by omega) hcn, mul_zero]

theorem scale_ne_zero (D : Mat) (cnts : List Nat) (hlen : D.length = cnts.length)
    (hrow : ∀ k, k < cnts.length → IsPlusRow 0 cnts.length (cnts.getD k 0) (D.getD k []))
    (hall : ∀ k, k < cnts.length → k + 1 ≤ cnts.getD k 0) :
    ∀ r ∈ D, (fun r : Row => 1 / r.getD 0 0) r ≠ 0 := by
  intro r hr
  obtain ⟨k, hkD, rfl⟩ := List.mem_iff_getElem.mp hr
  have hk : k < cnts.length := by omega
  obtain ⟨_, _, _, hp, _⟩ := hrow k hk
  have hh := hall k hk
  rw [getD_eq_getElem_of_lt _ _ hkD] at hp
  have hw : 0 < D[k].getD 0 0 := hp 0 (by omega) (by omega)
  show 1 / D[k].getD 0 0 ≠ 0
  exact one_div_ne_zero (ne_of_gt hw)

theorem permC_stair_ne (cnts : List Nat) (hall : ∀ c, c < cnts.length → 1 ≤ Dnum cnts c) :
    permC (stair cnts) ≠ 0 := by
  rw [permC_stair]
  apply ne_of_gt
  apply List.prod_pos
  intro x hx
  obtain ⟨i, hi, rfl⟩ := List.mem_map.mp hx
  have := hall i (List.mem_range.mp hi)
  linarith

section wstair
variable (D : Mat) (cnts : List Nat) (hlen : D.length = cnts.length)
  (hrow : ∀ k, k < cnts.length → IsPlusRow 0 cnts.length (cnts.getD k 0) (D.getD k []))
  (hconst : ∀ k, k < cnts.length → ∀ c, c < cnts.getD k 0 →
    (D.getD k []).getD c 0 = (D.getD k []).getD 0 0)
  (hall : ∀ k, k < cnts.length → k + 1 ≤ cnts.getD k 0)
include hlen hrow hconst hall

theorem pSpec_wstair (i j : Nat) : pSpec D i j = pSpec (stair cnts) i j := by
  rw [stair_eq_scaleAll D cnts hlen hrow hconst hall]
  exact (pSpec_scaleAll _ [] D (scale_ne_zero D cnts hlen hrow hall) i j).symm

theorem permC_wstair_ne : permC D ≠ 0 := by
  intro h
  have := permC_scaleAll_eq_zero (fun r => 1 / r.getD 0 0) [] D h
  rw [List.nil_append, ← stair_eq_scaleAll D cnts hlen hrow hconst hall] at this
  exact permC_stair_ne cnts (hall_Dnum cnts hall) this

theorem specMat_wstair : specMat D = specMat (stair cnts) := by
  unfold specMat
  rw [stair_length, hlen]
  apply List.map_congr_left
  intro a _
  apply List.map_congr_left
  intro b _
  exact pSpec_wstair D cnts hlen hrow hconst hall a b

end wstair

/-! ## the block structure with one minus row -/

theorem specMat_minus_block (r0 : Row) (B : Mat) (hr0 : IsMinusRow (B.length + 1) r0)
    (hD : permC (B.map (List.drop 1)) ≠ 0) :
    specMat (r0 :: B)
      = (1 :: List.replicate B.length 0)
        :: (specMat (B.map (List.drop 1))).map (fun r => (0:Rat) :: r) := by
  obtain ⟨_, hw, hz0⟩ := hr0
  have hz : ∀ r ∈ [r0], ∀ c, 1 ≤ c → c < 1 + B.length → r.getD c 0 = 0 := by
    intro r hr c h1 h2
    rw [List.mem_singleton.mp hr]
    exact hz0 c h1 (by omega)
  have hp1 : permC [r0] = r0.getD 0 0 := by simp [permC, permN, sumPick]
  have hW : permC ([r0] ++ B) ≠ 0 := by
    rw [permC_block 1 B.length [r0] B rfl rfl hz, hp1]
    exact mul_ne_zero (ne_of_gt hw) hD
  have e00 : pSpec (r0 :: B) 0 0 = 1 := by
    have := pSpec_block_top 1 B.length [r0] B rfl rfl hz hW 0 0 (by omega) (by omega)
    change pSpec (r0 :: B) 0 0 = _ at this
    rw [this]
    unfold pSpec
    rw [hp1]
    have : minor [r0] 0 0 = [] := by simp [minor]
    rw [this]
    have : entry [r0] 0 0 = r0.getD 0 0 := by simp [entry]
    rw [this]
    have : permC [] = 1 := rfl
    rw [this]
    field_simp
  have e0j : ∀ j, j < B.length → pSpec (r0 :: B) 0 (j + 1) = 0 := by
    intro j hj
    exact pSpec_block_upper 1 B.length [r0] B rfl hz 0 (j + 1) (by omega) (by omega) (by omega)
  have ei0 : ∀ i, i < B.length → pSpec (r0 :: B) (i + 1) 0 = 0 := by
    intro i hi
    have := pSpec_block_lower 1 B.length [r0] B rfl rfl hz i 0 hi (by omega)
    rwa [Nat.add_comm 1 i] at this
  have eij : ∀ i j, i < B.length →
      pSpec (r0 :: B) (i + 1) (j + 1) = pSpec (B.map (List.drop 1)) i j := by
    intro i j hi
    have := pSpec_block_bottom 1 B.length [r0] B rfl rfl hz hW i j hi
    rwa [Nat.add_comm 1 i, Nat.add_comm 1 j] at this
  unfold specMat
  simp only [List.length_cons, List.length_map, List.range_succ_eq_map, List.map_cons,
    List.map_map]
  congr 1
  · rw [e00]
    congr 1
    have hrep : List.replicate B.length (0:Rat) = (List.range B.length).map (fun _ => 0) := by
      rw [List.map_const', List.length_range]
    rw [hrep]
    · apply List.map_congr_left
      intro j hj
      exact e0j j (List.mem_range.mp hj)
  · apply List.map_congr_left
    intro i hi
    have hi := List.mem_range.mp hi
    simp only [Function.comp]
    rw [ei0 i hi]
    congr 1
    apply List.map_congr_left
    intro j _
    exact eij i j hi

/-! ## the equal-weights branch -/

theorem rowConstAt_spec (ref : Nat) (rows : Mat) (h : rowConstAt ref rows = true) :
    ∀ r ∈ rows, ∀ x ∈ r, x = r.getD ref 0 ∨ x = 0 := by
  intro r hr x hx
  simp only [rowConstAt, List.all_eq_true, Bool.or_eq_true, beq_iff_eq] at h
  exact h r hr x hx

theorem map_drop_zero (S : Mat) : S.map (List.drop 0) = S := by
  induction S with
  | nil => rfl
  | cons a t ih => rw [List.map_cons, ih, List.drop_zero]

theorem getD_map_drop (o : Nat) (B : Mat) (k : Nat) :
    (B.map (List.drop o)).getD k [] = (B.getD k []).drop o := by
  simp only [List.getD_eq_getElem?_getD, List.getElem?_map]
  cases B[k]? <;> simp

theorem isPlusRow_drop (o n cnt : Nat) (r : Row) (h : IsPlusRow o (o + n) cnt r) :
    IsPlusRow 0 n cnt (r.drop o) := by
  obtain ⟨hl, hle, _, hp, hz⟩ := h
  refine ⟨by simp [hl], by omega, fun c hc => absurd hc (Nat.not_lt_zero c), ?_, ?_⟩
  · intro c _ hc
    rw [getD_drop]
    exact hp (o + c) (by omega) (by omega)
  · intro c h1 h2
    rw [getD_drop]
    exact hz (o + c) (by omega) (by omega)

theorem const_of_rowConst (o : Nat) (B : Mat) (cnts : List Nat) (hlen : B.length = cnts.length)
    (hrow : ∀ k, k < cnts.length → IsPlusRow o (o + cnts.length) (cnts.getD k 0) (B.getD k []))
    (hrc : rowConstAt o B = true) :
    ∀ k, k < cnts.length → ∀ c, c < cnts.getD k 0 →
      (B.getD k []).getD (o + c) 0 = (B.getD k []).getD o 0 := by
  intro k hk c hc
  have hkB : k < B.length := by omega
  obtain ⟨hl, hle, _, hp, _⟩ := hrow k hk
  rw [getD_eq_getElem_of_lt _ _ hkB] at hl hp ⊢
  have hcl : o + c < B[k].length := by omega
  have hx : B[k].getD (o + c) 0 ∈ B[k] := by
    rw [getD_eq_getElem_of_lt _ _ hcl]; exact List.getElem_mem hcl
  have hpos := hp (o + c) (by omega) (by omega)
  rcases rowConstAt_spec o B hrc B[k] (List.getElem_mem hkB) _ hx with h | h
  · exact h
  · rw [h] at hpos; exact absurd hpos (lt_irrefl 0)

/-- the plus block: `quick_prob` returns the spec of the block, padded with the minus columns -/
theorem plus_block (o : Nat) (B : Mat) (cnts : List Nat) (hlen : B.length = cnts.length)
    (hrow : ∀ k, k < cnts.length → IsPlusRow o (o + cnts.length) (cnts.getD k 0) (B.getD k []))
    (hall : ∀ k, k < cnts.length → k + 1 ≤ cnts.getD k 0)
    (hrc : cnts.length = 0 ∨ rowConstAt o B = true) :
    permC (B.map (List.drop o)) ≠ 0 ∧
    (if 0 < cnts.length then quickProb B else [])
      = (specMat (B.map (List.drop o))).map (fun r => List.replicate o (0:Rat) ++ r) := by
  by_cases hn : cnts = []
  · subst hn
    have : B = [] := List.eq_nil_of_length_eq_zero hlen
    subst this
    refine ⟨?_, rfl⟩
    show (1:Rat) ≠ 0
    exact one_ne_zero
  · have hpos : 0 < cnts.length := List.length_pos_iff.mpr hn
    have hrc' : rowConstAt o B = true := by
      rcases hrc with h | h
      · omega
      · exact h
    have hlenD : (B.map (List.drop o)).length = cnts.length := by simp [hlen]
    have hrowD : ∀ k, k < cnts.length →
        IsPlusRow 0 cnts.length (cnts.getD k 0) ((B.map (List.drop o)).getD k []) := by
      intro k hk
      rw [getD_map_drop]
      exact isPlusRow_drop o _ _ _ (hrow k hk)
    have hconstD : ∀ k, k < cnts.length → ∀ c, c < cnts.getD k 0 →
        ((B.map (List.drop o)).getD k []).getD c 0 = ((B.map (List.drop o)).getD k []).getD 0 0 := by
      intro k hk c hc
      rw [getD_map_drop, getD_drop, getD_drop]
      exact const_of_rowConst o B cnts hlen hrow hrc' k hk c hc
    refine ⟨permC_wstair_ne _ cnts hlenD hrowD hconstD hall, ?_⟩
    rw [if_pos hpos, quickProb_plus o B cnts hlen hn hrow hall,
      specMat_wstair _ cnts hlenD hrowD hconstD hall]

theorem minus_out (r0 : Row) (n : Nat) (hr0 : IsMinusRow (n + 1) r0) :
    (quickProb [r0.reverse]).map List.reverse = [1 :: List.replicate n 0] := by
  obtain ⟨hl, hw, _⟩ := hr0
  have hg : r0.reverse.getD n 0 = r0.getD 0 0 := by
    simp [List.getD_eq_getElem?_getD, hl]
  rw [quickProb_single r0.reverse n (by simp [hl]) (by rw [hg]; exact ne_of_gt hw)]
  simp

/-- **the equal-weights branch of `inf_retis`** returns the permanent ratios of the sorted
    matrix on the sorted reachable family -/
theorem sortedOut_equal (s : Sorted) (cnts : List Nat) (hS : SortedReach s.offset s.sorted cnts)
    (hm : s.m = s.sorted.length) (he : s.equal = true)
    (hrcM : rowConstAt (s.offset - 1) (s.sorted.take s.offset) = true)
    (hrcP : s.m ≤ s.offset ∨ rowConstAt s.offset (s.sorted.drop s.offset) = true) :
    sortedOut s = goodAcc s.sorted := by
  rcases s with ⟨o, m, idx, S, eq⟩
  simp only at hS hm he hrcM hrcP
  subst hm he
  have hlen := hS.hlen
  have hho := hS.ho
  have hall := hS.hall
  have hrows : (quickProb ((S.take o).map List.reverse)).map List.reverse
      ++ (if o < S.length then quickProb (S.drop o) else []) = specMat S := by
    obtain rfl | rfl : o = 0 ∨ o = 1 := by omega
    · -- no minus row
      have hlen' : S.length = cnts.length := by omega
      have hrow : ∀ k, k < cnts.length →
          IsPlusRow 0 (0 + cnts.length) (cnts.getD k 0) (S.getD k []) := by
        intro k hk
        have := hS.plus k hk
        rwa [Nat.zero_add, hlen] at this
      have hrc : cnts.length = 0 ∨ rowConstAt 0 S = true := by
        rcases hrcP with h | h
        · left; omega
        · right; simpa using h
      have hpb := (plus_block 0 S cnts hlen' hrow hall hrc).2
      simp only [map_drop_zero, List.map_id', List.replicate_zero, List.nil_append] at hpb
      have hq : quickProb ([] : Mat) = [] := rfl
      simp only [List.take_zero, List.map_nil, hq, List.nil_append, List.drop_zero, hlen']
      exact hpb
    · -- one minus row
      cases S with
      | nil =>
        have : (0:Nat) = 1 + cnts.length := hlen
        omega
      | cons r0 B =>
        have hlen' : B.length = cnts.length := by simp at hlen; omega
        have hr0 : IsMinusRow (B.length + 1) r0 := by simpa using hS.minus rfl
        have hrow : ∀ k, k < cnts.length →
            IsPlusRow 1 (1 + cnts.length) (cnts.getD k 0) (B.getD k []) := by
          intro k hk
          have := hS.plus k hk
          rw [Nat.add_comm 1 k, List.getD_cons_succ, hlen] at this
          exact this
        have hrc : cnts.length = 0 ∨ rowConstAt 1 B = true := by
          rcases hrcP with h | h
          · left
            have h' : B.length + 1 ≤ 1 := h
            omega
          · right; simpa using h
        obtain ⟨hD, hpb⟩ := plus_block 1 B cnts hlen' hrow hall hrc
        rw [specMat_minus_block r0 B hr0 hD]
        have hlt : (1 < (r0 :: B).length) = (0 < cnts.length) := by
          simp [hlen']
        simp only [List.take_succ_cons, List.take_zero, List.map_cons, List.map_nil,
          List.drop_succ_cons, List.drop_zero, hlt]
        rw [hpb, minus_out r0 B.length hr0]
        rfl
  simp only [sortedOut, goodAcc, if_true, hrows]

/-! ### non-vacuity -/

example : sortedOut ⟨1, 3, [0, 1, 2], [[2, 0, 0], [0, 3, 0], [0, 5, 5]], true⟩
    = goodAcc [[2, 0, 0], [0, 3, 0], [0, 5, 5]] := by
  apply sortedOut_equal _ [1, 2]
  · refine ⟨⟨by decide, by decide, ?_, ?_⟩, by decide, by decide⟩
    · intro _; refine ⟨rfl, by decide +kernel, by decide +kernel⟩
    · intro k hk
      have : k = 0 ∨ k = 1 := by simp at hk; omega
      rcases this with rfl | rfl
      · exact ⟨rfl, by decide, by decide +kernel, by decide +kernel, by decide +kernel⟩
      · exact ⟨rfl, by decide, by decide +kernel, by decide +kernel, by decide +kernel⟩
  · rfl
  · rfl
  · decide +kernel
  · right; decide +kernel

end Infretis.Perm
