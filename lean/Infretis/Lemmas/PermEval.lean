import Infretis.Model.PermEval
/-!
# Evaluating `infRetis` on concrete matrices inside proofs

`argsort` is `List.mergeSort` (well-founded recursion), which `decide` cannot unfold on lists longer than one.
`infRetis` is split here into the keys handed to the two `argsort` calls, the preparation given their results, and
the rest; all three are structurally recursive, so a concrete evaluation needs only the two `argsort` values
(proved by `simp` with the `mergeSort` equations).
-/
namespace Infretis.Perm

theorem prepare_eq_given (off : Nat) (W : Mat) (locks : List Bool) :
    prepare off W locks
      = prepareGiven off W locks (argsort (keysMinus off W locks)) (argsort (keysPlus off W locks)) := rfl

theorem infRetis_eq_finish (W : Mat) (locks : List Bool) (off : Nat) :
    infRetis W locks off = finishOf locks (prepare off W locks) := rfl

/-- `inf_retis` from the two `argsort` results -/
theorem infRetis_of_argsorts (W : Mat) (locks : List Bool) (off : Nat) (km kp : List Int) (a b : List Nat)
    (h1 : keysMinus off W locks = km) (h2 : keysPlus off W locks = kp)
    (h3 : argsort km = a) (h4 : argsort kp = b) :
    infRetis W locks off = finishOf locks (prepareGiven off W locks a b)
      ∧ prepare off W locks = prepareGiven off W locks a b := by
  rw [infRetis_eq_finish, prepare_eq_given, h1, h2, h3, h4]
  exact ⟨rfl, rfl⟩

end Infretis.Perm
