import Infretis.Lemmas.PermStair
import Infretis.Lemmas.PermProb
/-!
# Small facts used by the property file C02: `maxL`, Hall's condition on staircases
-/
namespace Infretis.Perm

theorem le_maxL (l : List Rat) (x : Rat) (hx : x ∈ l) : x ≤ maxL l := by
  induction l with
  | nil => simp at hx
  | cons a t ih =>
    cases t with
    | nil => simp at hx; simp [maxL, hx]
    | cons b t' =>
      simp only [maxL]
      rcases List.mem_cons.mp hx with h | h
      · subst h
        split
        · exact le_refl _
        · next hlt => exact not_lt.mp hlt
      · have := ih h
        split
        · next hlt => exact le_of_lt (lt_of_le_of_lt this hlt)
        · exact this

theorem maxL_ne_zero_of_pos (l : List Rat) (x : Rat) (hx : x ∈ l) (hpos : 0 < x) : maxL l ≠ 0 :=
  ne_of_gt (lt_of_lt_of_le hpos (le_maxL l x hx))

/-- Hall's condition at column 0 says that no row of the staircase is zero -/
theorem hall_cnt_pos (cnts : List Nat) (hne : cnts ≠ [])
    (hall : ∀ c, c < cnts.length → 1 ≤ Dnum cnts c) : ∀ k ∈ cnts, 1 ≤ k := by
  have h0 := hall 0 (List.length_pos_of_ne_nil hne)
  unfold Dnum at h0
  have hle : (cnts.filter (fun k => decide (0 < k))).length ≤ cnts.length := List.length_filter_le _ _
  have : ((cnts.filter (fun k => decide (0 < k))).length : Rat) ≥ (cnts.length : Rat) := by
    simp only [Nat.cast_zero, sub_zero] at h0
    linarith
  have hge : cnts.length ≤ (cnts.filter (fun k => decide (0 < k))).length := by exact_mod_cast this
  have heq := Nat.le_antisymm hle hge
  rw [List.length_filter_eq_length_iff] at heq
  intro k hk
  have := heq k hk
  have h' : 0 < k := by simpa using this
  omega

theorem permC_stair_ne_zero (cnts : List Nat)
    (hall : ∀ c, c < cnts.length → 1 ≤ Dnum cnts c) : permC (stair cnts) ≠ 0 := by
  rw [permC_stair]
  apply ne_of_gt
  apply List.prod_pos
  intro a ha
  simp only [List.mem_map, List.mem_range] at ha
  obtain ⟨c, hc, rfl⟩ := ha
  linarith [hall c hc]

theorem maxL_stair_ne_zero (cnts : List Nat) (hall : ∀ c, c < cnts.length → 1 ≤ Dnum cnts c) :
    ∀ r ∈ stair cnts, maxL r ≠ 0 := by
  intro r hr
  have hne : cnts ≠ [] := by intro h; simp [h, stair] at hr
  simp only [stair, List.mem_map] at hr
  obtain ⟨k, hk, rfl⟩ := hr
  have hk1 := hall_cnt_pos cnts hne hall k hk
  have hlen : 0 < cnts.length := List.length_pos_of_ne_nil hne
  apply maxL_ne_zero_of_pos _ 1 _ (by norm_num)
  simp only [stairRow, List.mem_map, List.mem_range]
  exact ⟨0, hlen, by simp; omega⟩

end Infretis.Perm
