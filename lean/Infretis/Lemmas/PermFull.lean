import Infretis.Lemmas.PermEmbed
/-!
# From the full weight matrix of `REPEX_state` to the reachable family on the idle block (C02)

The full matrix `W` is `n × n`, `n = 1 + p + 1`: slot/row `0` holds the path of `[0-]`,
slots `1..p` the plus paths, slot `n-1` is the ghost (always locked).  `locks` marks the busy
slots; a locked index removes row *and* column.  `FullReach` states the shape of `W` the sampler
can reach; `reach_idle_of_full` shows that the idle block (`idle W locks`, what `inf_retis`
works on) is in the family `Reach` the pipeline lemmas are proved for, with
`o = (prepare 1 W locks).offset` (`0` when slot 0 is busy, `1` otherwise) and the new count of a
plus row = number of idle columns among its `cnt` positive columns.
-/
namespace Infretis.Perm

/-! ## `rank`: elementary facts -/

theorem rank_zero (locks : List Bool) : rank locks 0 = 0 := by simp [rank]

theorem rank_cons_succ (l : Bool) (ls : List Bool) (i : Nat) :
    rank (l :: ls) (i + 1) = (if l then 0 else 1) + rank ls i := by
  cases l <;> simp [rank, Nat.add_comm]

theorem nIdle_cons (l : Bool) (ls : List Bool) :
    nIdle (l :: ls) = (if l then 0 else 1) + nIdle ls := by
  cases l <;> simp [nIdle, Nat.add_comm]

theorem rank_succ_le (locks : List Bool) (i : Nat) :
    rank locks i ≤ rank locks (i + 1) ∧ rank locks (i + 1) ≤ rank locks i + 1 := by
  induction locks generalizing i with
  | nil => simp [rank]
  | cons l ls ih =>
    cases i with
    | zero => cases l <;> simp [rank]
    | succ i =>
      have := ih i
      rw [rank_cons_succ, rank_cons_succ]
      omega

/-- `rank` is monotone -/
theorem rank_mono (locks : List Bool) {i j : Nat} (h : i ≤ j) : rank locks i ≤ rank locks j := by
  induction j with
  | zero =>
    have : i = 0 := by omega
    subst this; exact Nat.le_refl _
  | succ j ih =>
    rcases Nat.lt_or_ge i (j + 1) with h' | h'
    · exact Nat.le_trans (ih (by omega)) (rank_succ_le locks j).1
    · have : i = j + 1 := by omega
      subst this; exact Nat.le_refl _

theorem rank_le_nIdle (locks : List Bool) (i : Nat) : rank locks i ≤ nIdle locks := by
  induction locks generalizing i with
  | nil => simp [rank, nIdle]
  | cons l ls ih =>
    cases i with
    | zero => simp [rank]
    | succ i =>
      have := ih i
      rw [rank_cons_succ, nIdle_cons]
      omega

/-- an idle slot counts -/
theorem rank_succ_of_idle (locks : List Bool) (i : Nat) (h : locks[i]? = some false) :
    rank locks (i + 1) = rank locks i + 1 := by
  induction locks generalizing i with
  | nil => simp at h
  | cons l ls ih =>
    cases i with
    | zero =>
      simp only [List.getElem?_cons_zero, Option.some.injEq] at h
      subst h; simp [rank]
    | succ i =>
      simp only [List.getElem?_cons_succ] at h
      have := ih i h
      rw [rank_cons_succ, rank_cons_succ]
      omega

/-- `rank` is strictly monotone from an idle slot -/
theorem rank_lt_of_idle_lt (locks : List Bool) {i j : Nat} (hi : locks[i]? = some false)
    (h : i < j) : rank locks i < rank locks j := by
  have h1 := rank_succ_of_idle locks i hi
  have h2 := rank_mono locks (i := i + 1) (j := j) h
  omega

theorem idle_lt_length (locks : List Bool) (i : Nat) (h : locks[i]? = some false) :
    i < locks.length := by
  rcases Nat.lt_or_ge i locks.length with h' | h'
  · exact h'
  · rw [List.getElem?_eq_none h'] at h
    exact absurd h (by simp)

/-- every position of the idle block is the rank of an idle slot ("unrank") -/
theorem exists_idle_of_lt_nIdle (locks : List Bool) (i : Nat) (h : i < nIdle locks) :
    ∃ j, locks[j]? = some false ∧ rank locks j = i := by
  induction locks generalizing i with
  | nil => simp [nIdle] at h
  | cons l ls ih =>
    cases l with
    | true =>
      have h' : i < nIdle ls := by simpa [nIdle] using h
      obtain ⟨j, hj, hr⟩ := ih i h'
      exact ⟨j + 1, by simpa using hj, by rw [rank_cons_succ]; simpa using hr⟩
    | false =>
      cases i with
      | zero => exact ⟨0, by simp, rank_zero _⟩
      | succ i =>
        have h' : i < nIdle ls := by
          have := h; rw [nIdle_cons] at this; simp at this; omega
        obtain ⟨j, hj, hr⟩ := ih i h'
        refine ⟨j + 1, by simpa using hj, ?_⟩
        rw [rank_cons_succ]; simp; omega

/-! ## `keep` versus `getD` -/

/-- the entry of an idle slot `j` sits at position `rank locks j` after dropping the busy ones -/
theorem keep_getD_rank {α : Type} (locks : List Bool) (xs : List α) (j : Nat) (d : α)
    (hlen : xs.length = locks.length) (hj : locks[j]? = some false) :
    (keep locks xs).getD (rank locks j) d = xs.getD j d := by
  induction locks generalizing xs j with
  | nil => simp at hj
  | cons l ls ih =>
    cases xs with
    | nil => simp at hlen
    | cons x xs =>
      simp only [List.length_cons, Nat.add_right_cancel_iff] at hlen
      cases j with
      | zero =>
        simp only [List.getElem?_cons_zero, Option.some.injEq] at hj
        subst hj; simp [keep, rank]
      | succ j =>
        simp only [List.getElem?_cons_succ] at hj
        have := ih xs j hlen hj
        rw [rank_cons_succ]
        cases l with
        | true => simpa [keep] using this
        | false =>
          rw [Nat.add_comm]
          simpa [keep] using this

/-- row `rank locks s` of the idle block is row `s` of `W` without the busy columns -/
theorem idle_getD_rank (W : Mat) (locks : List Bool) (s : Nat) (hW : W.length = locks.length)
    (hs : locks[s]? = some false) :
    (idle W locks).getD (rank locks s) [] = keep locks (W.getD s []) := by
  have hlt : rank locks s < (keep locks W).length := by
    rw [keep_length locks W hW]; exact rank_lt locks s hs
  unfold idle
  rw [List.getD_eq_getElem?_getD, List.getElem?_map, List.getElem?_eq_getElem hlt]
  simp only [Option.map_some, Option.getD_some]
  have := keep_getD_rank locks W s [] hW hs
  rw [List.getD_eq_getElem?_getD, List.getElem?_eq_getElem hlt] at this
  simp only [Option.getD_some] at this
  rw [this]

/-! ## Rows keep their shape when busy columns are dropped -/

/-- a staircase row `0^o (+)^cnt 0^*` stays one: `0^(rank o) (+)^c' 0^*` with
    `c'` = number of idle columns among the `cnt` positive ones -/
theorem keep_isPlusRow (locks : List Bool) (r : Row) (o cnt : Nat)
    (h : IsPlusRow o locks.length cnt r) :
    IsPlusRow (rank locks o) (nIdle locks) (rank locks (o + cnt) - rank locks o) (keep locks r) := by
  obtain ⟨hlen, _, hz, hp, hz'⟩ := h
  have hmono : rank locks o ≤ rank locks (o + cnt) := rank_mono locks (Nat.le_add_right _ _)
  have hsum : rank locks o + (rank locks (o + cnt) - rank locks o) = rank locks (o + cnt) := by omega
  have hle := rank_le_nIdle locks (o + cnt)
  refine ⟨keep_length locks r hlen, by omega, ?_, ?_, ?_⟩
  · intro c' hc'
    obtain ⟨c, hc, rfl⟩ := exists_idle_of_lt_nIdle locks c' (by omega)
    rw [keep_getD_rank locks r c 0 hlen hc]
    apply hz
    rcases Nat.lt_or_ge c o with h' | h'
    · exact h'
    · have := rank_mono locks h'; omega
  · intro c' h1 h2
    obtain ⟨c, hc, rfl⟩ := exists_idle_of_lt_nIdle locks c' (by omega)
    rw [keep_getD_rank locks r c 0 hlen hc]
    apply hp
    · rcases Nat.lt_or_ge c o with h' | h'
      · have := rank_lt_of_idle_lt locks hc h'; omega
      · exact h'
    · rcases Nat.lt_or_ge c (o + cnt) with h' | h'
      · exact h'
      · have := rank_mono locks h'; omega
  · intro c' h1 h2
    obtain ⟨c, hc, rfl⟩ := exists_idle_of_lt_nIdle locks c' h2
    rw [keep_getD_rank locks r c 0 hlen hc]
    apply hz' _ _ (idle_lt_length locks c hc)
    rcases Nat.lt_or_ge c (o + cnt) with h' | h'
    · have := rank_lt_of_idle_lt locks hc h'; omega
    · exact h'

/-- the minus row `(w, 0, …, 0)` stays one when its own column is idle -/
theorem keep_isMinusRow (locks : List Bool) (r : Row) (h0 : locks[0]? = some false)
    (h : IsMinusRow locks.length r) : IsMinusRow (nIdle locks) (keep locks r) := by
  obtain ⟨hlen, hpos, hz⟩ := h
  refine ⟨keep_length locks r hlen, ?_, ?_⟩
  · have := keep_getD_rank locks r 0 0 hlen h0
    rw [rank_zero] at this
    rw [this]; exact hpos
  · intro c' h1 h2
    obtain ⟨c, hc, rfl⟩ := exists_idle_of_lt_nIdle locks c' h2
    rw [keep_getD_rank locks r c 0 hlen hc]
    apply hz _ _ (idle_lt_length locks c hc)
    rcases Nat.lt_or_ge c 1 with h' | h'
    · have : c = 0 := by omega
      subst this; rw [rank_zero] at h1; omega
    · exact h'

/-! ## The full reachable state -/

/-- The shape of the full weight matrix of `REPEX_state` (`n = 1 + p + 1` slots):
    the ghost slot `n-1` is busy; row 0 is the minus path; row `1+k` is a plus path with
    `cnts[k]` positive weights on columns `1..cnts[k]`, none of them on the ghost column. -/
structure FullReach (W : Mat) (locks : List Bool) (cnts : List Nat) : Prop where
  hn : W.length = locks.length
  hp : locks.length = cnts.length + 2
  ghost : locks[locks.length - 1]? = some true
  minus : IsMinusRow locks.length (W.getD 0 [])
  plus : ∀ k, k < cnts.length →
    IsPlusRow 1 locks.length (cnts.getD k 0) (W.getD (1 + k) []) ∧
      1 + cnts.getD k 0 ≤ locks.length - 1

/-- collect pointwise witnesses into a list -/
theorem exists_list_of_forall {P : Nat → Nat → Prop} (len : Nat)
    (h : ∀ k, k < len → ∃ c, P k c) :
    ∃ cs : List Nat, cs.length = len ∧ ∀ k, k < len → P k (cs.getD k 0) := by
  induction len with
  | zero => exact ⟨[], rfl, fun k hk => absurd hk (Nat.not_lt_zero k)⟩
  | succ len ih =>
    obtain ⟨cs, hl, hcs⟩ := ih (fun k hk => h k (Nat.lt_succ_of_lt hk))
    obtain ⟨c, hc⟩ := h len (Nat.lt_succ_self len)
    refine ⟨cs ++ [c], by simp [hl], ?_⟩
    intro k hk
    rcases Nat.lt_or_ge k len with h' | h'
    · have := hcs k h'
      rwa [List.getD_eq_getElem?_getD, List.getElem?_append_left (by omega),
        ← List.getD_eq_getElem?_getD]
    · have : k = len := by omega
      subst this
      simpa [List.getD_eq_getElem?_getD, ← hl] using hc

/-- `offset` of `prepare` for `off = 1` is the rank of slot 1: `0` if slot 0 is busy, else `1` -/
theorem prepare_offset_one (W : Mat) (locks : List Bool) (h : locks ≠ []) :
    (prepare 1 W locks).offset = rank locks 1 := by
  cases locks with
  | nil => exact absurd rfl h
  | cons l ls => cases l <;> simp [prepare, rank]

theorem prepare_offset_one_eq (W : Mat) (l : Bool) (ls : List Bool) :
    (prepare 1 W (l :: ls)).offset = if l = true then 0 else 1 := by
  cases l <;> simp [prepare]

/-- every plus slot `1+k` that is idle gives an idle-block row of the family, with the explicit
    new count -/
theorem idle_plus_row (W : Mat) (locks : List Bool) (cnts : List Nat) (hF : FullReach W locks cnts)
    (k : Nat) (hk : k < cnts.length) (hs : locks[1 + k]? = some false) :
    IsPlusRow (rank locks 1) (nIdle locks) (rank locks (1 + cnts.getD k 0) - rank locks 1)
      ((idle W locks).getD (rank locks (1 + k)) []) := by
  rw [idle_getD_rank W locks (1 + k) hF.hn hs]
  exact keep_isPlusRow locks _ 1 _ (hF.plus k hk).1

/-- **the idle block of a full reachable state is in the family `Reach`** -/
theorem reach_idle_of_full (off : Nat) (W : Mat) (locks : List Bool) (cnts : List Nat)
    (hoff : off = 1) (hF : FullReach W locks cnts) :
    ∃ cnts', Reach (prepare off W locks).offset (idle W locks) cnts' := by
  subst hoff
  have hne : locks ≠ [] := by
    intro h; have := hF.hp; rw [h] at this; simp at this
  rw [prepare_offset_one W locks hne]
  have hN : (idle W locks).length = nIdle locks := idle_length W locks hF.hn
  have ho1 : rank locks 1 ≤ 1 := by
    have := (rank_succ_le locks 0).2; rw [rank_zero] at this; exact this
  have hom : rank locks 1 ≤ nIdle locks := rank_le_nIdle locks 1
  -- slot 0 is idle iff the offset is 1
  have h0 : rank locks 1 = 1 → locks[0]? = some false := by
    cases locks with
    | nil => exact absurd rfl hne
    | cons l ls => cases l <;> simp [rank]
  have h0' : rank locks 1 = 0 → locks[0]? = some true := by
    cases locks with
    | nil => exact absurd rfl hne
    | cons l ls => cases l <;> simp [rank]
  -- pointwise: every row of the idle block after the minus row is a plus row
  have hpt : ∀ k, k < nIdle locks - rank locks 1 →
      ∃ c, IsPlusRow (rank locks 1) (nIdle locks) c ((idle W locks).getD (rank locks 1 + k) []) := by
    intro k hk
    obtain ⟨s, hs, hr⟩ := exists_idle_of_lt_nIdle locks (rank locks 1 + k) (by omega)
    have hslt := idle_lt_length locks s hs
    have hs0 : s ≠ 0 := by
      intro h; subst h
      rw [rank_zero] at hr
      have := h0' (by omega)
      rw [hs] at this; simp at this
    have hsg : s ≠ locks.length - 1 := by
      intro h; subst h
      have := hF.ghost
      rw [hs] at this; simp at this
    have hp := hF.hp
    obtain ⟨k0, rfl⟩ : ∃ k0, s = 1 + k0 := ⟨s - 1, by omega⟩
    have := idle_plus_row W locks cnts hF k0 (by omega) hs
    rw [hr] at this
    exact ⟨_, this⟩
  obtain ⟨cs, hcl, hcs⟩ := exists_list_of_forall _ hpt
  refine ⟨cs, ho1, by rw [hN, hcl]; omega, ?_, ?_⟩
  · intro ho
    have hs := h0 ho
    have := idle_getD_rank W locks 0 hF.hn hs
    rw [rank_zero] at this
    rw [this, hN]
    exact keep_isMinusRow locks _ hs hF.minus
  · intro k hk
    rw [hN]
    exact hcs k (by omega)

/-! ## Non-vacuity -/

theorem fullReach_example : FullReach
    [[1,0,0,0,0,0],[0,1,1,1,0,0],[0,1,1,0,0,0],[0,1,1,1,1,0],[0,1,1,1,1,0],[0,0,0,0,0,0]]
    [false,false,true,false,false,true] [3,2,4,4] := by
  refine ⟨rfl, rfl, rfl, ⟨rfl, by decide +kernel, ?_⟩, ?_⟩
  · intro c h1 h2
    have : c = 1 ∨ c = 2 ∨ c = 3 ∨ c = 4 ∨ c = 5 := by
      simp only [List.length_cons, List.length_nil] at h2; omega
    rcases this with rfl | rfl | rfl | rfl | rfl <;> decide +kernel
  · intro k hk
    have : k = 0 ∨ k = 1 ∨ k = 2 ∨ k = 3 := by
      simp only [List.length_cons, List.length_nil] at hk; omega
    rcases this with rfl | rfl | rfl | rfl <;>
    · refine ⟨⟨rfl, by decide, ?_, ?_, ?_⟩, by decide⟩
      · intro c hc
        have : c = 0 := by omega
        subst this; decide +kernel
      · intro c h1 h2
        simp only [List.getD_cons_zero, List.getD_cons_succ] at h2
        have : c = 1 ∨ c = 2 ∨ c = 3 ∨ c = 4 := by omega
        rcases this with rfl | rfl | rfl | rfl <;> first | decide +kernel | omega
      · intro c h1 h2
        simp only [List.length_cons, List.length_nil] at h2
        have : c = 0 ∨ c = 1 ∨ c = 2 ∨ c = 3 ∨ c = 4 ∨ c = 5 := by omega
        rcases this with rfl | rfl | rfl | rfl | rfl | rfl <;> first | decide +kernel | (simp at h1)

/-- the hypothesis of `reach_idle_of_full` is satisfiable, so is its conclusion -/
example : ∃ cnts', Reach
    (prepare 1 [[1,0,0,0,0,0],[0,1,1,1,0,0],[0,1,1,0,0,0],[0,1,1,1,1,0],[0,1,1,1,1,0],[0,0,0,0,0,0]]
      [false,false,true,false,false,true]).offset
    (idle [[1,0,0,0,0,0],[0,1,1,1,0,0],[0,1,1,0,0,0],[0,1,1,1,1,0],[0,1,1,1,1,0],[0,0,0,0,0,0]]
      [false,false,true,false,false,true]) cnts' :=
  reach_idle_of_full 1 _ _ _ rfl fullReach_example

/-- the idle block of the example, and its offset -/
example : idle [[1,0,0,0,0,0],[0,1,1,1,0,0],[0,1,1,0,0,0],[0,1,1,1,1,0],[0,1,1,1,1,0],[0,0,0,0,0,0]]
      [false,false,true,false,false,true] = [[1,0,0,0],[0,1,1,0],[0,1,1,1],[0,1,1,1]] ∧
    (prepare 1 [[1,0,0,0,0,0],[0,1,1,1,0,0],[0,1,1,0,0,0],[0,1,1,1,1,0],[0,1,1,1,1,0],[0,0,0,0,0,0]]
      [false,false,true,false,false,true]).offset = 1 := by
  decide +kernel

end Infretis.Perm
