import Infretis.Lemmas.Perm
import Mathlib.Data.Nat.Bitwise
import Mathlib.Data.Finset.Powerset
import Mathlib.Algebra.BigOperators.Ring.Finset
import Mathlib.Algebra.BigOperators.Group.Finset.Sigma
import Mathlib.Tactic.NormNum
/-!
# `fast_glynn_perm` computes the permanent (C02)

`glynn_eq_permC`: for every non-empty square matrix the Gray-code loop of `fast_glynn_perm`
(model `glynn`) never raises and returns the permanent `permC`.

* Stage 0: symbolic 1x1, 2x2, 3x3 instances.
* Stage 1: the loop walks the reflected Gray code; its total is the Glynn sum over
  all sign vectors with the last row fixed to `+1`.
* Stage 2: Glynn's identity, by induction over the columns with a parity set `E`.
-/
namespace Infretis.Perm

/-! ## Stage 0: labelled instances -/

theorem glynn_eq_permC_1 (a : Rat) : glynn [[a]] = .ok (permC [[a]]) := by
  simp [glynn, glynnLoop, glynnStep, colSums, ncols, colOf, prodL, pow2Index, cmpDir, permC,
    permN, sumPick, List.range, List.range.loop]

theorem glynn_eq_permC_2 (a b c d : Rat) :
    glynn [[a, b], [c, d]] = .ok (permC [[a, b], [c, d]]) := by
  simp [glynn, glynnLoop, glynnStep, colSums, ncols, colOf, prodL, pow2Index, cmpDir, permC,
    permN, sumPick, List.range, List.range.loop]
  ring

theorem glynn_eq_permC_3 (a b c d e f g h i : Rat) :
    glynn [[a, b, c], [d, e, f], [g, h, i]] = .ok (permC [[a, b, c], [d, e, f], [g, h, i]]) := by
  simp [glynn, glynnLoop, glynnStep, colSums, ncols, colOf, prodL, pow2Index, cmpDir, permC,
    permN, sumPick, List.range, List.range.loop]
  ring

/-! ## Stage 2: Glynn's identity (column induction with a parity set) -/

open Finset

/-- sign of row `i` for the set `T` of negated rows -/
def sgm (T : Finset ℕ) (i : ℕ) : ℚ := if i ∈ T then -1 else 1

/-- toggle membership of `k` -/
def tog (E : Finset ℕ) (k : ℕ) : Finset ℕ := if k ∈ E then E.erase k else insert k E

/-- generalised Glynn sum: rows `0..N`, row `N` fixed to `+1`, first `c` columns,
    sign product over the rows in `E` -/
def gS (a : ℕ → ℕ → ℚ) (N c : ℕ) (E : Finset ℕ) : ℚ :=
  ∑ T ∈ (range N).powerset, (∏ i ∈ E, sgm T i) * ∏ j ∈ range c, ∑ i ∈ range (N + 1), sgm T i * a i j

theorem sgm_mul_self (T : Finset ℕ) (i : ℕ) : sgm T i * sgm T i = 1 := by
  unfold sgm; split <;> norm_num

theorem prod_tog (T E : Finset ℕ) (k : ℕ) :
    (∏ i ∈ E, sgm T i) * sgm T k = ∏ i ∈ tog E k, sgm T i := by
  unfold tog
  split
  next h =>
    rw [← Finset.mul_prod_erase E _ h, mul_comm (sgm T k), mul_assoc, sgm_mul_self, mul_one]
  next h =>
    rw [Finset.prod_insert h, mul_comm]

theorem gS_succ (a : ℕ → ℕ → ℚ) (N c : ℕ) (E : Finset ℕ) :
    gS a N (c + 1) E = ∑ k ∈ range (N + 1), a k c * gS a N c (tog E k) := by
  unfold gS
  simp only [Finset.mul_sum]
  rw [Finset.sum_comm]
  refine Finset.sum_congr rfl (fun T _ => ?_)
  rw [Finset.prod_range_succ, Finset.mul_sum, Finset.mul_sum]
  refine Finset.sum_congr rfl (fun k _ => ?_)
  rw [← prod_tog]; ring

theorem prod_sgm_comm (T E : Finset ℕ) :
    ∏ i ∈ E, sgm T i = ∏ i ∈ T, (if i ∈ E then (-1 : ℚ) else 1) := by
  unfold sgm
  rw [Finset.prod_ite_mem, Finset.prod_ite_mem, Finset.inter_comm]

theorem gS_zero (a : ℕ → ℕ → ℚ) (N : ℕ) (E : Finset ℕ) :
    gS a N 0 E = ∏ i ∈ range N, ((if i ∈ E then (-1 : ℚ) else 1) + 1) := by
  unfold gS
  rw [Finset.prod_add]
  refine Finset.sum_congr rfl (fun T _ => ?_)
  simp [prod_sgm_comm]

theorem gS_zero_empty (a : ℕ → ℕ → ℚ) (N : ℕ) : gS a N 0 ∅ = 2 ^ N := by
  rw [gS_zero]; simp; norm_num

theorem gS_zero_ne (a : ℕ → ℕ → ℚ) (N : ℕ) (E : Finset ℕ) (i : ℕ) (hi : i ∈ E) (hN : i < N) :
    gS a N 0 E = 0 := by
  rw [gS_zero]
  apply Finset.prod_eq_zero (Finset.mem_range.2 hN)
  simp [hi]

theorem tog_subset {E : Finset ℕ} {N k : ℕ} (hE : E ⊆ range (N + 1)) (hk : k ∈ range (N + 1)) :
    tog E k ⊆ range (N + 1) := by
  unfold tog
  split
  · exact (Finset.erase_subset _ _).trans hE
  · exact Finset.insert_subset hk hE

theorem card_tog_erase (E : Finset ℕ) (N k : ℕ) :
    (E.erase N).card ≤ ((tog E k).erase N).card + 1 := by
  have h1 : (E.erase N).erase k ⊆ (tog E k).erase N := by
    intro x hx
    simp only [Finset.mem_erase] at hx
    unfold tog
    split <;> simp [Finset.mem_erase, Finset.mem_insert, hx]
  have h2 := Finset.card_le_card h1
  have h3 := Finset.pred_card_le_card_erase (s := E.erase N) (a := k)
  omega

theorem gS_vanish (a : ℕ → ℕ → ℚ) (N : ℕ) : ∀ (c : ℕ) (E : Finset ℕ), E ⊆ range (N + 1) →
    c < (E.erase N).card → gS a N c E = 0 := by
  intro c
  induction c with
  | zero =>
    intro E hE hc
    obtain ⟨i, hi⟩ := Finset.card_pos.1 hc
    rw [Finset.mem_erase] at hi
    have := Finset.mem_range.1 (hE hi.2)
    exact gS_zero_ne a N E i hi.2 (by omega)
  | succ c ih =>
    intro E hE hc
    rw [gS_succ]
    apply Finset.sum_eq_zero
    intro k hk
    rw [ih (tog E k) (tog_subset hE hk) (by have := card_tog_erase E N k; omega), mul_zero]

theorem sumPick_nodup (f : ℕ → List ℕ → ℚ) (l : List ℕ) (h : l.Nodup) :
    sumPick f l = ∑ k ∈ l.toFinset, f k (l.erase k) := by
  induction l generalizing f with
  | nil => simp [sumPick]
  | cons x xs ih =>
    rw [List.nodup_cons] at h
    simp only [sumPick, List.toFinset_cons]
    rw [Finset.sum_insert (by simpa using h.1), ih _ h.2]
    congr 1
    · simp
    · refine Finset.sum_congr rfl (fun k hk => ?_)
      have : x ≠ k := by
        rintro rfl; exact h.1 (List.mem_toFinset.1 hk)
      rw [List.erase_cons_tail (by simpa using this)]

/-- the rows of `M` with index in `E` (indices `≤ N`), in order -/
def rowsOf (M : Mat) (N : ℕ) (E : Finset ℕ) : Mat :=
  ((List.range (N + 1)).filter (· ∈ E)).map (fun i => M.getD i [])

theorem gS_perm (M : Mat) (N : ℕ) : ∀ (c : ℕ) (E : Finset ℕ), E ⊆ range (N + 1) →
    E.card = c → gS (entry M) N c E = 2 ^ N * permN c (rowsOf M N E) := by
  intro c
  induction c with
  | zero =>
    intro E hE hc
    rw [Finset.card_eq_zero] at hc
    subst hc
    rw [gS_zero_empty]; simp [permN]
  | succ c ih =>
    intro E hE hc
    rw [gS_succ, ← Finset.sum_subset hE]
    · simp only [permN, rowsOf]
      rw [sumPick_map, sumPick_nodup _ _ (List.nodup_range.filter _), Finset.mul_sum]
      have hfin : ((List.range (N + 1)).filter (· ∈ E)).toFinset = E := by
        ext x; simp only [List.mem_toFinset, List.mem_filter, List.mem_range, decide_eq_true_eq]
        constructor
        · exact fun h => h.2
        · exact fun h => ⟨Finset.mem_range.1 (hE h), h⟩
      rw [hfin]
      refine Finset.sum_congr rfl (fun k hk => ?_)
      have htog : tog E k = E.erase k := by unfold tog; rw [if_pos hk]
      rw [htog, ih (E.erase k) ((Finset.erase_subset _ _).trans hE)
        (by rw [Finset.card_erase_of_mem hk]; omega)]
      have : ((List.range (N + 1)).filter (· ∈ E)).erase k
          = (List.range (N + 1)).filter (· ∈ E.erase k) := by
        rw [(List.nodup_range.filter _).erase_eq_filter, List.filter_filter]
        apply List.filter_congr
        intro x _
        by_cases hxk : x = k <;> simp [Finset.mem_erase, hxk]
      rw [this]
      unfold rowsOf entry
      ring
    · intro k hk hkE
      have htog : tog E k = insert k E := by unfold tog; rw [if_neg hkE]
      rw [gS_vanish _ _ _ _ (tog_subset hE hk), mul_zero]
      rw [htog]
      have h1 : E.erase N ⊆ (insert k E).erase N := Finset.erase_subset_erase _ (Finset.subset_insert _ _)
      have h2 := Finset.card_le_card h1
      have h3 := Finset.pred_card_le_card_erase (s := E) (a := N)
      by_cases hkN : k = N
      · subst hkN
        rw [Finset.erase_insert hkE]; omega
      · have : k ∈ (insert k E).erase N := by simp [hkN]
        have h4 : insert k (E.erase N) ⊆ (insert k E).erase N := by
          intro x hx
          simp only [Finset.mem_insert, Finset.mem_erase] at hx ⊢
          rcases hx with rfl | hx
          · exact ⟨hkN, Or.inl rfl⟩
          · exact ⟨hx.1, Or.inr hx.2⟩
        have h5 := Finset.card_le_card h4
        rw [Finset.card_insert_of_notMem (by simp [hkE])] at h5
        omega


theorem rowsOf_full (M : Mat) (N : ℕ) (hM : M.length = N + 1) : rowsOf M N (range (N + 1)) = M := by
  unfold rowsOf
  have hf : (List.range (N + 1)).filter (· ∈ range (N + 1)) = List.range (N + 1) := by
    rw [List.filter_eq_self]; intro x hx; simpa using hx
  rw [hf]
  apply List.ext_getElem
  · simp [hM]
  · intro i h1 h2
    simp [List.getD, List.getElem?_eq_getElem h2]

/-- **Glynn's identity** (last row fixed to `+1`). -/
theorem glynn_identity (M : Mat) (N : ℕ) (hM : M.length = N + 1) :
    gS (entry M) N (N + 1) (range (N + 1)) = 2 ^ N * permC M := by
  rw [gS_perm M N (N + 1) _ (Finset.Subset.refl _) (by simp), rowsOf_full M N hM, permC, hM]

/-! ## Stage 1: the Gray-code loop computes the Glynn sum -/

/-- reflected Gray code -/
def gray (k : ℕ) : ℕ := k ^^^ (k / 2)

theorem xor4_mod_two (a b c d : ℕ) : ((a ^^^ b) ^^^ (c ^^^ d)) % 2 = (a + b + c + d) % 2 := by
  rw [Nat.xor_mod_two_eq, Nat.add_mod, Nat.xor_mod_two_eq, Nat.xor_mod_two_eq]; omega

theorem gray_step : ∀ k : ℕ, 1 ≤ k → ∃ t, gray (k - 1) ^^^ gray k = 2 ^ t ∧ 2 ^ t ∣ k := by
  intro k
  induction k using Nat.strong_induction_on with
  | _ k ih =>
    intro hk
    rcases Nat.even_or_odd' k with ⟨m, rfl | rfl⟩
    · -- k = 2m
      have hm : 1 ≤ m := by omega
      obtain ⟨t, ht, hd⟩ := ih m (by omega) hm
      refine ⟨t + 1, ?_, ?_⟩
      · have h2 : (gray (2 * m - 1) ^^^ gray (2 * m)) / 2 = gray (m - 1) ^^^ gray m := by
          unfold gray
          simp only [Nat.xor_div_two]
          have e1 : (2 * m - 1) / 2 = m - 1 := by omega
          have e2 : 2 * m / 2 = m := by omega
          rw [e1, e2]
        have h3 : (gray (2 * m - 1) ^^^ gray (2 * m)) % 2 = 0 := by
          unfold gray
          rw [xor4_mod_two]
          omega
        rw [ht] at h2
        rw [pow_succ]; omega
      · rw [pow_succ, mul_comm]; exact Nat.mul_dvd_mul_left 2 hd
    · refine ⟨0, ?_, by simp⟩
      have e0 : 2 * m + 1 - 1 = 2 * m := by omega
      rw [e0]
      have h2 : (gray (2 * m) ^^^ gray (2 * m + 1)) / 2 = 0 := by
        unfold gray
        simp only [Nat.xor_div_two]
        have e1 : (2 * m + 1) / 2 = m := by omega
        have e2 : 2 * m / 2 = m := by omega
        rw [e1, e2]; simp
      have h3 : (gray (2 * m) ^^^ gray (2 * m + 1)) % 2 = 1 := by
        unfold gray
        rw [xor4_mod_two]
        omega
      simp; omega

theorem pow2Index_pow {n t : ℕ} (h : t < n) : pow2Index n (2 ^ t) = some t := by
  unfold pow2Index
  rw [List.find?_eq_some_iff_append]
  refine ⟨by simp, List.range t, (List.range' (t + 1) (n - t - 1)), ?_, ?_⟩
  · rw [List.range_eq_range', List.range_eq_range']
    have : n = t + (1 + (n - t - 1)) := by omega
    conv_lhs => rw [this]
    rw [← List.range'_append_1, ← List.range'_append_1]
    simp
  · intro i hi
    have : i < t := List.mem_range.1 hi
    simp
    omega

theorem flip_testBit {g g' t : ℕ} (h : g ^^^ g' = 2 ^ t) (i : ℕ) :
    g'.testBit i = (g.testBit i ^^ decide (t = i)) := by
  have : g' = g ^^^ 2 ^ t := by rw [← h, ← Nat.xor_assoc, Nat.xor_self, Nat.zero_xor]
  rw [this, Nat.testBit_xor, Nat.testBit_two_pow]

theorem flip_cmpDir {g g' t : ℕ} (h : g ^^^ g' = 2 ^ t) :
    cmpDir g g' = if g.testBit t then 2 else -2 := by
  have hb := flip_testBit h
  have ht := hb t
  simp at ht
  unfold cmpDir
  cases hg : g.testBit t
  · have : g < g' := Nat.lt_of_testBit t hg (by rw [ht, hg]; rfl) (by
      intro j hj; rw [hb j]; simp [Nat.ne_of_lt hj])
    rw [if_neg (by omega), if_neg (by omega)]; simp
  · have : g' < g := Nat.lt_of_testBit t (by rw [ht, hg]; rfl) hg (by
      intro j hj; rw [hb j]; simp [Nat.ne_of_lt hj])
    rw [if_neg (by omega), if_pos (by omega)]; simp

/-- sign of row `i` when the Gray code is `g` (bit set = row negated) -/
def sgb (g i : ℕ) : ℚ := if g.testBit i then -1 else 1

def vecG (a : ℕ → ℕ → ℚ) (n g : ℕ) : List ℚ :=
  (List.range n).map (fun j => ∑ i ∈ range n, sgb g i * a i j)

def sgnG (n g : ℕ) : ℚ := ∏ i ∈ range n, sgb g i

/-- the loop state after `k` iterations -/
def stG (M : Mat) (n k : ℕ) (tot : ℚ) : GState :=
  { total := tot, rowComb := vecG (entry M) n (gray k), old := gray k, sign := sgnG n (gray k) }

theorem sgb_flip {g g' t : ℕ} (h : g ^^^ g' = 2 ^ t) (i : ℕ) :
    sgb g' i = sgb g i * (if i = t then -1 else 1) := by
  unfold sgb
  rw [flip_testBit h i]
  by_cases hit : i = t
  · subst hit; cases g.testBit i <;> simp
  · have : ¬ t = i := fun e => hit e.symm
    cases g.testBit i <;> simp [hit, this]

theorem sgnG_flip {n g g' t : ℕ} (h : g ^^^ g' = 2 ^ t) (ht : t < n) :
    sgnG n g' = - sgnG n g := by
  unfold sgnG
  simp only [sgb_flip h]
  rw [Finset.prod_mul_distrib, Finset.prod_ite_eq', if_pos (Finset.mem_range.2 ht)]
  ring

theorem sum_flip (a : ℕ → ℕ → ℚ) {n g g' t : ℕ} (h : g ^^^ g' = 2 ^ t) (ht : t < n) (j : ℕ) :
    ∑ i ∈ range n, sgb g' i * a i j
      = ∑ i ∈ range n, sgb g i * a i j + a t j * ((cmpDir g g' : ℤ) : ℚ) := by
  have e : ∀ i, sgb g' i * a i j = sgb g i * a i j + (if i = t then -2 * sgb g t * a t j else 0) := by
    intro i
    rw [sgb_flip h i]
    by_cases hit : i = t
    · subst hit; simp; ring
    · simp [hit]
  simp only [e]
  rw [Finset.sum_add_distrib, Finset.sum_ite_eq', if_pos (Finset.mem_range.2 ht), flip_cmpDir h]
  unfold sgb
  cases g.testBit t <;> simp <;> ring

theorem row_eq_map (M : Mat) (n : ℕ) (hsq : ∀ r ∈ M, r.length = n) (hn : M.length = n) {t : ℕ}
    (ht : t < n) : M.getD t [] = (List.range n).map (entry M t) := by
  have hl : (M.getD t []).length = n := by
    apply hsq
    rw [List.getD_eq_getElem _ _ (by omega)]
    exact List.getElem_mem _
  have he : entry M t = fun j => (M.getD t []).getD j 0 := rfl
  rw [he]
  generalize M.getD t [] = r at hl ⊢
  apply List.ext_getElem
  · simp [hl]
  · intro i h1 h2
    simp [List.getD, List.getElem?_eq_getElem h1]

theorem glynnStep_inv (M : Mat) (n : ℕ) (hsq : ∀ r ∈ M, r.length = n) (hn : M.length = n)
    (k : ℕ) (hk : k + 1 ≤ 2 ^ (n - 1)) (hn0 : 0 < n) (tot : ℚ) :
    glynnStep M n (k + 1) (stG M n k tot)
      = .ok (stG M n (k + 1) (tot + sgnG n (gray k) * prodL (vecG (entry M) n (gray k)))) := by
  obtain ⟨t, ht, hd⟩ := gray_step (k + 1) (by omega)
  rw [Nat.add_sub_cancel] at ht
  have htn : t < n := by
    have h1 : 2 ^ t ≤ 2 ^ (n - 1) := (Nat.le_of_dvd (by omega) hd).trans hk
    have := (Nat.pow_le_pow_iff_right (by norm_num : 1 < 2)).1 h1
    omega
  have hg : (k + 1) ^^^ ((k + 1) / 2) = gray (k + 1) := rfl
  unfold glynnStep
  simp only [stG, hg, ht, pow2Index_pow htn]
  have hdir : cmpDir (gray k) (gray (k + 1)) ≠ 0 := by
    rw [flip_cmpDir ht]; split <;> decide
  rw [if_neg hdir]
  congr 2
  · rw [row_eq_map M n hsq hn htn]
    unfold vecG
    rw [List.zipWith_map, List.zipWith_self]
    apply List.map_congr_left
    intro j _
    rw [sum_flip (entry M) ht htn j]
  · rw [sgnG_flip ht htn]

/-- the term the loop adds in the iteration that starts in Gray state `gray k` -/
def termG (M : Mat) (n k : ℕ) : ℚ := sgnG n (gray k) * prodL (vecG (entry M) n (gray k))

theorem glynnLoop_inv (M : Mat) (n : ℕ) (hsq : ∀ r ∈ M, r.length = n) (hn : M.length = n)
    (hn0 : 0 < n) : ∀ (fuel k : ℕ) (tot : ℚ), k + fuel ≤ 2 ^ (n - 1) →
    glynnLoop M n fuel (k + 1) (stG M n k tot)
      = .ok (stG M n (k + fuel) (tot + ∑ m ∈ range fuel, termG M n (k + m))) := by
  intro fuel
  induction fuel with
  | zero => intro k tot _; simp [glynnLoop]
  | succ fuel ih =>
    intro k tot hk
    unfold glynnLoop
    rw [glynnStep_inv M n hsq hn k (by omega) hn0 tot]
    simp only
    rw [ih (k + 1) _ (by omega)]
    rw [Finset.sum_range_succ']
    congr 2
    · omega
    · simp only [termG, Nat.add_zero]
      have : ∀ m, k + 1 + m = k + (m + 1) := by intro m; omega
      simp only [this]
      ring

theorem list_sum_map_getD {α : Type} (l : List α) (f : α → ℚ) (d : α) :
    (l.map f).sum = ∑ i ∈ range l.length, f (l.getD i d) := by
  induction l with
  | nil => simp
  | cons x xs ih =>
    simp only [List.map_cons, List.sum_cons, List.length_cons]
    rw [Finset.sum_range_succ', ih]
    simp [add_comm]

theorem stG_zero (M : Mat) (n : ℕ) (hsq : ∀ r ∈ M, r.length = n) (hn : M.length = n)
    (hn0 : 0 < n) :
    ({ total := 0, rowComb := colSums M, old := 0, sign := 1 } : GState) = stG M n 0 0 := by
  have hg : gray 0 = 0 := by decide
  have hs : ∀ i, sgb 0 i = 1 := by intro i; simp [sgb]
  unfold stG
  rw [hg]
  congr 1
  · unfold colSums vecG
    have hc : ncols M = n := by
      cases M with
      | nil => simp at hn; omega
      | cons r rs => exact hsq r (by simp)
    rw [hc]
    apply List.map_congr_left
    intro j _
    unfold colOf
    rw [list_sum_map_getD M _ [], hn]
    simp [hs, entry]
  · simp [sgnG, hs]

theorem gray_inj {a b : ℕ} (h : gray a = gray b) : a = b := by
  have h1 : (a ^^^ b) ^^^ ((a ^^^ b) / 2) = 0 := by
    have : (a ^^^ b) ^^^ ((a ^^^ b) / 2) = gray a ^^^ gray b := by
      unfold gray
      rw [Nat.xor_div_two]
      ac_rfl
    rw [this, h, Nat.xor_self]
  have h2 : a ^^^ b = (a ^^^ b) / 2 := Nat.xor_eq_zero_iff.1 h1
  have h3 : a ^^^ b = 0 := by omega
  exact Nat.xor_eq_zero_iff.1 h3

theorem gray_lt {N m : ℕ} (h : m < 2 ^ N) : gray m < 2 ^ N :=
  Nat.xor_lt_two_pow h (by omega)

/-- the set of negated rows (`< N`) encoded by `g` -/
def bitsF (N g : ℕ) : Finset ℕ := (range N).filter (fun i => g.testBit i)

theorem sgb_eq_sgm {N g i : ℕ} (hg : g < 2 ^ N) (hi : i < N + 1) : sgb g i = sgm (bitsF N g) i := by
  unfold sgb sgm bitsF
  by_cases hiN : i < N
  · simp [hiN]
  · have : i = N := by omega
    subst this
    simp [Nat.testBit_lt_two_pow hg]

theorem prodL_map_range (f : ℕ → ℚ) (n : ℕ) : prodL ((List.range n).map f) = ∏ j ∈ range n, f j := by
  have hp : ∀ l₁ l₂ : List ℚ, prodL (l₁ ++ l₂) = prodL l₁ * prodL l₂ := by
    intro l₁ l₂
    induction l₁ with
    | nil => simp [prodL]
    | cons x xs ih => simp [prodL, ih, mul_assoc]
  induction n with
  | zero => simp [prodL]
  | succ n ih =>
    rw [List.range_succ, List.map_append, hp, ih, Finset.prod_range_succ]
    simp [prodL]

theorem termG_eq (M : Mat) (N m : ℕ) (hm : m < 2 ^ N) :
    termG M (N + 1) m = (∏ i ∈ range (N + 1), sgm (bitsF N (gray m)) i) *
      ∏ j ∈ range (N + 1), ∑ i ∈ range (N + 1), sgm (bitsF N (gray m)) i * entry M i j := by
  have hg := gray_lt hm
  unfold termG sgnG vecG
  rw [prodL_map_range]
  congr 1
  · exact Finset.prod_congr rfl (fun i hi => sgb_eq_sgm hg (Finset.mem_range.1 hi))
  · refine Finset.prod_congr rfl (fun j _ => Finset.sum_congr rfl (fun i hi => ?_))
    rw [sgb_eq_sgm hg (Finset.mem_range.1 hi)]

theorem bitsF_injOn (N : ℕ) : Set.InjOn (fun m => bitsF N (gray m)) (range (2 ^ N) : Set ℕ) := by
  intro a ha b hb h
  simp only [Finset.coe_range, Set.mem_Iio] at ha hb
  apply gray_inj
  apply Nat.eq_of_testBit_eq
  intro i
  by_cases hi : i < N
  · have h1 : i ∈ bitsF N (gray a) ↔ i ∈ bitsF N (gray b) := by
      simp only [] at h; rw [h]
    simp only [bitsF, Finset.mem_filter, Finset.mem_range, hi, true_and] at h1
    cases h2 : (gray a).testBit i <;> cases h3 : (gray b).testBit i <;> simp_all
  · rw [Nat.testBit_lt_two_pow ((gray_lt ha).trans_le (Nat.pow_le_pow_right (by norm_num) (by omega))),
      Nat.testBit_lt_two_pow ((gray_lt hb).trans_le (Nat.pow_le_pow_right (by norm_num) (by omega)))]

theorem image_bitsF (N : ℕ) :
    (range (2 ^ N)).image (fun m => bitsF N (gray m)) = (range N).powerset := by
  apply Finset.eq_of_subset_of_card_le
  · intro T hT
    rw [Finset.mem_image] at hT
    obtain ⟨m, _, rfl⟩ := hT
    rw [Finset.mem_powerset]
    exact Finset.filter_subset _ _
  · rw [Finset.card_image_of_injOn (bitsF_injOn N)]
    simp

theorem sum_termG (M : Mat) (N : ℕ) :
    ∑ m ∈ range (2 ^ N), termG M (N + 1) (0 + m) = gS (entry M) N (N + 1) (range (N + 1)) := by
  unfold gS
  rw [← image_bitsF N, Finset.sum_image (bitsF_injOn N)]
  refine Finset.sum_congr rfl (fun m hm => ?_)
  rw [Nat.zero_add, termG_eq M N m (Finset.mem_range.1 hm)]

/-- Stage 1: the loop never errors and returns the Glynn sum divided by `2^(n-1)`. -/
theorem glynn_eq_gS (M : Mat) (N : ℕ) (hM : M.length = N + 1)
    (hsq : ∀ r ∈ M, r.length = M.length) :
    glynn M = .ok (gS (entry M) N (N + 1) (range (N + 1)) / 2 ^ N) := by
  rw [hM] at hsq
  unfold glynn
  simp only [hM, Nat.add_sub_cancel]
  rw [if_neg (by omega), stG_zero M (N + 1) hsq hM (by omega)]
  have := glynnLoop_inv M (N + 1) hsq hM (by omega) (2 ^ N) 0 0 (by simp)
  rw [Nat.zero_add] at this
  rw [this, sum_termG]
  simp [stG]

/-- **Main theorem**: `fast_glynn_perm` returns the permanent of every non-empty square matrix. -/
theorem glynn_eq_permC (M : Mat) (hn : 0 < M.length) (hsq : ∀ r ∈ M, r.length = M.length) :
    glynn M = .ok (permC M) := by
  obtain ⟨N, hN⟩ : ∃ N, M.length = N + 1 := ⟨M.length - 1, by omega⟩
  rw [glynn_eq_gS M N hN hsq, glynn_identity M N hN]
  congr 1
  have : (2 : ℚ) ^ N ≠ 0 := by positivity
  field_simp

end Infretis.Perm
