import Infretis.Lemmas.Perm
import Mathlib.Algebra.BigOperators.Group.List.Basic
import Mathlib.Algebra.BigOperators.Ring.List
/-!
# Laplace expansion of the list permanent along an arbitrary column and row (C02)
-/
namespace Infretis.Perm

/-- congruence with full information about the pick -/
theorem sumPick_congr' {α : Type} (f g : α → List α → Rat) (l : List α)
    (h : ∀ x xs, (x :: xs).Perm l → f x xs = g x xs) : sumPick f l = sumPick g l := by
  induction l generalizing f g with
  | nil => rfl
  | cons a t ih =>
    simp only [sumPick]
    rw [h a t (List.Perm.refl _)]
    congr 1
    apply ih
    intro y ys hy
    apply h
    exact (List.Perm.swap a y ys).trans (List.Perm.cons a hy)

/-- picking two elements in either order -/
theorem sumPick_swap {α : Type} (G : α → α → List α → Rat) (l : List α) :
    sumPick (fun x xs => sumPick (fun y ys => G x y ys) xs) l
      = sumPick (fun y ys => sumPick (fun x xs => G x y xs) ys) l := by
  induction l generalizing G with
  | nil => rfl
  | cons a t ih =>
    simp only [sumPick]
    rw [sumPick_add, sumPick_add, ih (fun x y zs => G x y (a :: zs))]
    ring

theorem sumPick_eq_sum_range {α : Type} (f : α → List α → Rat) (l : List α) (d : α) :
    sumPick f l = ((List.range l.length).map (fun i => f (l.getD i d) (l.eraseIdx i))).sum := by
  induction l generalizing f with
  | nil => rfl
  | cons a t ih =>
    simp only [sumPick, List.length_cons, List.range_succ_eq_map, List.map_cons, List.sum_cons,
      List.map_map]
    rw [ih]
    rfl

theorem getD_eraseIdx (l : List Rat) (j i : Nat) :
    (l.eraseIdx j).getD i 0 = if i < j then l.getD i 0 else l.getD (i + 1) 0 := by
  simp only [List.getD_eq_getElem?_getD, List.getElem?_eraseIdx]
  split <;> rfl

/-- `permN m` only reads the first `m` columns -/
theorem permN_map_congr (m : Nat) (g : Row → Row) (l : Mat)
    (h : ∀ r c, c < m → (g r).getD c 0 = r.getD c 0) : permN m (l.map g) = permN m l := by
  induction m generalizing l with
  | zero => rfl
  | succ m ih =>
    simp only [permN]
    rw [sumPick_map]
    apply sumPick_congr
    intro x xs
    rw [h x m (Nat.lt_succ_self m), ih xs (fun r c hc => h r c (Nat.lt_succ_of_lt hc))]

/-- erase column `j` in every row -/
def dropCol (j : Nat) (l : Mat) : Mat := l.map (fun r => r.eraseIdx j)

theorem minor_eq (W : Mat) (i j : Nat) : minor W i j = dropCol j (W.eraseIdx i) := rfl

/-- **Laplace expansion along an arbitrary column** `j ≤ k` (list form). -/
theorem permN_col (k j : Nat) (hj : j ≤ k) (l : Mat) :
    permN (k + 1) l = sumPick (fun r rest => r.getD j 0 * permN k (dropCol j rest)) l := by
  induction k generalizing l with
  | zero =>
    have : j = 0 := by omega
    subst this
    simp [permN]
  | succ k ih =>
    rcases Nat.eq_or_lt_of_le hj with h | h
    · subst h
      rw [permN]
      apply sumPick_congr
      intro x xs
      unfold dropCol
      rw [permN_map_congr]
      intro r c hc
      rw [getD_eraseIdx, if_pos hc]
    · have hjk : j ≤ k := by omega
      -- LHS: expand along the last column, then each cofactor along column j
      have hL : permN (k + 1 + 1) l
          = sumPick (fun r rest => sumPick (fun s rest2 =>
              r.getD (k + 1) 0 * s.getD j 0 * permN k (dropCol j rest2)) rest) l := by
        rw [permN]
        apply sumPick_congr
        intro r rest
        rw [ih hjk rest, ← sumPick_mul_left]
        apply sumPick_congr
        intro s rest2
        ring
      -- RHS: each cofactor expanded along its last column
      have hR : sumPick (fun s rest => s.getD j 0 * permN (k + 1) (dropCol j rest)) l
          = sumPick (fun s rest => sumPick (fun r rest2 =>
              r.getD (k + 1) 0 * s.getD j 0 * permN k (dropCol j rest2)) rest) l := by
        apply sumPick_congr
        intro s rest
        rw [permN]
        unfold dropCol
        rw [sumPick_map, ← sumPick_mul_left]
        apply sumPick_congr
        intro r rest2
        rw [getD_eraseIdx, if_neg (by omega)]
        ring
      rw [hL, hR, sumPick_swap]


theorem sumPick_sum_range {α : Type} (n : Nat) (F : Nat → α → List α → Rat) (l : List α) :
    sumPick (fun x xs => ((List.range n).map (fun j => F j x xs)).sum) l
      = ((List.range n).map (fun j => sumPick (F j) l)).sum := by
  induction n with
  | zero => simp [sumPick_zero]
  | succ n ih =>
    simp only [List.range_succ, List.map_append, List.sum_append, List.map_cons, List.map_nil,
      List.sum_cons, List.sum_nil, add_zero]
    rw [sumPick_add, ih]

/-- **Laplace expansion along the first row** (list form). -/
theorem permN_row (k : Nat) (r : Row) (rest : Mat) (hlen : rest.length = k) :
    permN (k + 1) (r :: rest)
      = ((List.range (k + 1)).map (fun j => r.getD j 0 * permN k (dropCol j rest))).sum := by
  induction k generalizing r rest with
  | zero =>
    have : rest = [] := List.eq_nil_of_length_eq_zero hlen
    subst this
    simp [permN, sumPick]
  | succ k ih =>
    rw [permN]
    simp only [sumPick]
    -- the picks from `rest`
    have h2 : sumPick (fun y ys => y.getD (k + 1) 0 * permN (k + 1) (r :: ys)) rest
        = ((List.range (k + 1)).map (fun j => r.getD j 0 * permN (k + 1) (dropCol j rest))).sum := by
      have e1 : sumPick (fun y ys => y.getD (k + 1) 0 * permN (k + 1) (r :: ys)) rest
          = sumPick (fun y ys => ((List.range (k + 1)).map (fun j =>
              r.getD j 0 * (y.getD (k + 1) 0 * permN k (dropCol j ys)))).sum) rest := by
        apply sumPick_congr'
        intro y ys hy
        have hl : ys.length = k := by
          have := hy.length_eq
          simp only [List.length_cons] at this
          omega
        rw [ih r ys hl, ← List.sum_map_mul_left]
        congr 1
        apply List.map_congr_left
        intro j _
        ring
      rw [e1, sumPick_sum_range]
      congr 1
      apply List.map_congr_left
      intro j hjm
      have hj : j < k + 1 := List.mem_range.mp hjm
      rw [sumPick_mul_left]
      congr 1
      rw [permN]
      unfold dropCol
      rw [sumPick_map]
      apply sumPick_congr
      intro y ys
      rw [getD_eraseIdx, if_neg (by omega)]
    rw [h2]
    rw [List.range_succ (n := k + 1), List.map_append, List.sum_append]
    simp only [List.map_cons, List.map_nil, List.sum_cons, List.sum_nil, add_zero]
    have h3 : permN (k + 1) (dropCol (k + 1) rest) = permN (k + 1) rest := by
      unfold dropCol
      apply permN_map_congr
      intro r c hc
      rw [getD_eraseIdx, if_pos hc]
    rw [h3]
    ring

end Infretis.Perm
