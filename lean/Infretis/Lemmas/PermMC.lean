import Infretis.Lemmas.PermMain
/-!
# The Monte-Carlo routine is only ever used for blocks of more than 12 rows (C02)
-/
namespace Infretis.Perm

theorem blockLoop_mc (sorted : Mat) (m : Nat) (bs : List (Nat × Nat × Int)) (acc : BlockAcc)
    (h : ∀ d ∈ acc.mc, 12 < d) : ∀ d ∈ (blockLoop sorted m bs acc).mc, 12 < d := by
  induction bs generalizing acc with
  | nil => simpa [blockLoop] using h
  | cons b bs ih =>
    obtain ⟨start, stop, dir⟩ := b
    simp only [blockLoop]
    split
    · exact ih _ h
    · exact ih _ h
    · split
      · exact ih _ h
      · exact ih _ h
      · exact h
    · next hb =>
      apply ih
      intro d hd
      simp only [List.mem_append, List.mem_singleton] at hd
      rcases hd with hd | hd
      · exact h d hd
      · subst hd; exact branchOf_random_length _ hb

theorem sortedOut_mc (s : Sorted) : ∀ d ∈ (sortedOut s).mc, 12 < d := by
  unfold sortedOut
  split
  · simp
  · split
    · simp
    · simp only
      exact blockLoop_mc _ _ _ _ (by simp)

/-- whatever the input: if `inf_retis` goes to the Monte-Carlo routine, every block it sends there
    has more than 12 rows (and is not row-constant) -/
theorem infRetis_mc_dims (W : Mat) (locks : List Bool) (off : Nat) (dims : List Nat)
    (h : infRetis W locks off = .monteCarlo dims) : ∀ d ∈ dims, 12 < d := by
  unfold infRetis at h
  simp only at h
  split at h
  · cases h
  · split at h
    · cases h
    · split at h
      · cases h
      · split at h
        · cases h
          exact sortedOut_mc _
        · split at h <;> cases h

end Infretis.Perm
