import Infretis.Lemmas.PermPipe
import Infretis.Lemmas.PermSorted
import Infretis.Lemmas.PermEqual
import Infretis.Lemmas.PermBlocks
/-!
# The pipeline theorem: `inf_retis` returns the embedded permanent ratios (C02)
-/
namespace Infretis.Perm

/-- a 1×1 sorted idle block always passes the equal-weights test -/
theorem equal_of_length_one (off : Nat) (W : Mat) (locks : List Bool) (cnts : List Nat)
    (hS : SortedReach (prepare off W locks).offset (prepare off W locks).sorted cnts)
    (h1 : (prepare off W locks).sorted.length = 1) : (prepare off W locks).equal = true := by
  have hm : (prepare off W locks).m = 1 := by
    rw [prepare_m, ← h1, prepare_sorted_eq, List.length_map]
    exact (prepare_sortIdx_perm off W locks).length_eq.symm ▸ (by simp)
  have hlen := hS.hlen
  obtain ⟨r, hr⟩ : ∃ r, (prepare off W locks).sorted = [r] := by
    match h : (prepare off W locks).sorted, h1 with
    | [r], _ => exact ⟨r, rfl⟩
  have hrl : r.length = 1 := by
    rcases Nat.eq_zero_or_pos (prepare off W locks).offset with ho | ho
    · have hk : 0 < cnts.length := by rw [h1, ho] at hlen; omega
      have := (hS.plus 0 hk).1
      rw [hr, ho] at this
      simpa using this
    · have ho1 : (prepare off W locks).offset = 1 := by have := hS.ho; omega
      have := (hS.minus ho1).1
      rw [hr] at this
      simpa using this
  obtain ⟨x, rfl⟩ : ∃ x, r = [x] := by
    match r, hrl with
    | [x], _ => exact ⟨x, rfl⟩
  have heq : (prepare off W locks).equal
      = (rowConstAt ((prepare off W locks).offset - 1)
            ((prepare off W locks).sorted.take (prepare off W locks).offset)
          && (if (prepare off W locks).m ≤ (prepare off W locks).offset then true
              else rowConstAt (prepare off W locks).offset
                ((prepare off W locks).sorted.drop (prepare off W locks).offset))) := rfl
  rw [heq, hr, hm]
  rcases Nat.eq_zero_or_pos (prepare off W locks).offset with ho | ho
  · rw [ho]; simp [rowConstAt]
  · have ho1 : (prepare off W locks).offset = 1 := by have := hS.ho; omega
    rw [ho1]; simp [rowConstAt]

/-- **The pipeline theorem.**  For every idle block of the reachable family with a perfect
    matching whose non-row-constant blocks have at most 12 rows, `inf_retis` returns exactly
    the permanent ratios on the idle block and zero on busy rows and columns. -/
theorem infRetis_eq_probMatrix (off : Nat) (W : Mat) (locks : List Bool) (cnts : List Nat)
    (hne : idle W locks ≠ [])
    (hR : Reach (prepare off W locks).offset (idle W locks) cnts)
    (hP : permC (idle W locks) ≠ 0)
    (hsmall : ∀ bs, findBlocks (prepare off W locks).sorted (prepare off W locks).offset = .list bs →
      ∀ b ∈ bs, branchOf (subBlock (prepare off W locks).sorted b.1 b.2.1 b.2.2) ≠ .random) :
    infRetis W locks off = .ok (probMatrix W locks) := by
  obtain ⟨cnts', hS⟩ := prepare_sortedReach off W locks cnts hR hP
  apply infRetis_of_sortedOut off W locks hne hP
  have hm : (prepare off W locks).m = (prepare off W locks).sorted.length := by
    rw [prepare_m, prepare_sorted_eq, List.length_map]
    exact (prepare_sortIdx_perm off W locks).length_eq.symm ▸ (by simp)
  have heq : (prepare off W locks).equal
      = (rowConstAt ((prepare off W locks).offset - 1)
            ((prepare off W locks).sorted.take (prepare off W locks).offset)
          && (if (prepare off W locks).m ≤ (prepare off W locks).offset then true
              else rowConstAt (prepare off W locks).offset
                ((prepare off W locks).sorted.drop (prepare off W locks).offset))) := rfl
  cases he : (prepare off W locks).equal with
  | true =>
    rw [heq, Bool.and_eq_true] at he
    apply sortedOut_equal _ cnts' hS hm (by rw [heq, Bool.and_eq_true]; exact he) he.1
    by_cases hle : (prepare off W locks).m ≤ (prepare off W locks).offset
    · exact Or.inl hle
    · right
      have := he.2
      rwa [if_neg hle] at this
  | false =>
    have h2 : 2 ≤ (prepare off W locks).sorted.length := by
      by_contra hlt
      have hpos : 0 < (prepare off W locks).sorted.length := by
        rw [← hm, prepare_m]; exact List.length_pos_of_ne_nil hne
      have h1 : (prepare off W locks).sorted.length = 1 := by omega
      have := equal_of_length_one off W locks cnts' hS h1
      rw [he] at this
      exact Bool.false_ne_true this
    exact sortedOut_blocks _ cnts' hS hm h2 he hsmall


theorem branchOf_random_length (sub : Mat) (h : branchOf sub = .random) : 12 < sub.length := by
  unfold branchOf at h
  split at h
  · cases h
  · split at h
    · cases h
    · split at h
      · cases h
      · omega

theorem subBlock_length_le (A : Mat) (start stop : Nat) (dir : Int) :
    (subBlock A start stop dir).length ≤ A.length := by
  simp only [subBlock, List.length_map, List.length_take, List.length_drop]
  omega

/-- the same without the Monte-Carlo proviso when at most 12 ensembles are idle -/
theorem infRetis_eq_probMatrix_small (off : Nat) (W : Mat) (locks : List Bool) (cnts : List Nat)
    (hne : idle W locks ≠ [])
    (hR : Reach (prepare off W locks).offset (idle W locks) cnts)
    (hP : permC (idle W locks) ≠ 0) (h12 : (idle W locks).length ≤ 12) :
    infRetis W locks off = .ok (probMatrix W locks) := by
  apply infRetis_eq_probMatrix off W locks cnts hne hR hP
  intro bs _ b _ hr
  have h1 := branchOf_random_length _ hr
  have h2 := subBlock_length_le (prepare off W locks).sorted b.1 b.2.1 b.2.2
  have h3 : (prepare off W locks).sorted.length = (idle W locks).length := by
    rw [prepare_sorted_eq, List.length_map]
    exact (prepare_sortIdx_perm off W locks).length_eq.trans (by simp)
  omega

end Infretis.Perm
