import Infretis.Lemmas.PermAnyOrder
import Infretis.Lemmas.PermFull
/-!
# The all-shooting state with `p` plus ensembles (C02, audit pass): a member of the family of every size

Used as the non-vacuity witness of the "any number of ensembles" theorems beyond 12 idle ensembles, where concrete
evaluation by `decide` is out of reach (`permC` is a Laplace expansion).
-/
namespace Infretis.Perm

/-- all-shooting state with `p` plus ensembles, every path valid everywhere: `[0-]` row, `p` rows `(0,1,…,1,0)`, ghost -/
def onesRow (p : Nat) : Row := 0 :: (List.replicate p 1 ++ [0])
def onesW (p : Nat) : Mat :=
  (1 :: List.replicate (p + 1) 0) :: (List.replicate p (onesRow p) ++ [List.replicate (p + 2) 0])
def onesLocks (p : Nat) : List Bool := List.replicate (p + 1) false ++ [true]

theorem keep_all_but_last {α : Type} (n : Nat) (xs : List α) (y : α) (h : xs.length = n) :
    keep (List.replicate n false ++ [true]) (xs ++ [y]) = xs := by
  induction n generalizing xs with
  | zero =>
    have : xs = [] := List.eq_nil_of_length_eq_zero h
    subst this; simp [keep]
  | succ n ih =>
    cases xs with
    | nil => simp at h
    | cons x xs =>
      simp only [List.replicate_succ, List.cons_append, keep, Bool.false_eq_true, if_false]
      rw [ih xs (by simpa using h)]

theorem idle_ones (p : Nat) :
    idle (onesW p) (onesLocks p) = (1 :: List.replicate p 0) :: List.replicate p (0 :: List.replicate p 1) := by
  have h1 : keep (onesLocks p) (onesW p) = (1 :: List.replicate (p + 1) 0) :: List.replicate p (onesRow p) := by
    have : onesW p = ((1 :: List.replicate (p + 1) 0) :: List.replicate p (onesRow p)) ++ [List.replicate (p + 2) 0] := by
      simp [onesW]
    rw [this]
    exact keep_all_but_last (p + 1) _ _ (by simp)
  unfold idle
  rw [h1]
  simp only [List.map_cons, List.map_replicate]
  congr 1
  · have : (1 : Rat) :: List.replicate (p + 1) 0 = (1 :: List.replicate p 0) ++ [0] := by
      simp [List.replicate_succ']
    rw [this]
    exact keep_all_but_last (p + 1) _ _ (by simp)
  · congr 1
    have : onesRow p = (0 :: List.replicate p 1) ++ [0] := by simp [onesRow]
    rw [this]
    exact keep_all_but_last (p + 1) _ _ (by simp)


theorem getD_replicate_rat_x (n c : Nat) (x : Rat) (h : c < n) : (List.replicate n x).getD c 0 = x := by
  simp [List.getD_eq_getElem?_getD, h]

theorem getD_replicate_zero_rat (n c : Nat) : (List.replicate n (0 : Rat)).getD c 0 = 0 := by
  simp only [List.getD_eq_getElem?_getD, List.getElem?_replicate]
  split <;> rfl

theorem onesRow_getD_mid (p c : Nat) (h1 : 1 ≤ c) (h2 : c < 1 + p) : (onesRow p).getD c 0 = 1 := by
  obtain ⟨c', rfl⟩ : ∃ c', c = c' + 1 := ⟨c - 1, by omega⟩
  have hc : c' < p := by omega
  simp [onesRow, List.getD_eq_getElem?_getD, List.getElem?_append_left, hc]

theorem onesRow_getD_last (p : Nat) : (onesRow p).getD (p + 1) 0 = 0 := by
  simp [onesRow, List.getD_eq_getElem?_getD]

theorem fullReach_ones (p : Nat) : FullReach (onesW p) (onesLocks p) (List.replicate p p) := by
  refine ⟨by simp [onesW, onesLocks], by simp [onesLocks], ?_, ⟨by simp [onesW, onesLocks], ?_, ?_⟩, ?_⟩
  · simp [onesLocks]
  · simp [onesW]
  · intro c h1 h2
    obtain ⟨c', rfl⟩ : ∃ c', c = c' + 1 := ⟨c - 1, by omega⟩
    simp only [onesW, List.getD_cons_zero, List.getD_cons_succ]
    exact getD_replicate_zero_rat _ _
  · intro k hk
    rw [List.length_replicate] at hk
    have hrow : (onesW p).getD (1 + k) [] = onesRow p := by
      simp [onesW, List.getD_eq_getElem?_getD, Nat.add_comm 1 k, List.getElem?_append_left, hk]
    have hcnt : (List.replicate p p).getD k 0 = p := by
      simp [List.getD_eq_getElem?_getD, hk]
    have hl : (onesLocks p).length = p + 2 := by simp [onesLocks]
    rw [hrow, hcnt, hl]
    refine ⟨⟨by simp [onesRow], by omega, ?_, ?_, ?_⟩, by omega⟩
    · intro c hc
      have : c = 0 := by omega
      subst this; rfl
    · intro c h1 h2
      rw [onesRow_getD_mid p c h1 h2]; decide
    · intro c h1 h2
      have : c = p + 1 := by omega
      subst this
      exact onesRow_getD_last p

theorem getD_replicate_one_nonneg (n c : Nat) : 0 ≤ (List.replicate n (1 : Rat)).getD c 0 := by
  simp only [List.getD_eq_getElem?_getD, List.getElem?_replicate]
  split <;> decide

theorem permC_ones_ne (p : Nat) : permC (idle (onesW p) (onesLocks p)) ≠ 0 := by
  rw [idle_ones]
  apply ne_of_gt
  apply Blk.permC_pos
  · intro r hr c
    rcases List.mem_cons.mp hr with rfl | hr
    · cases c with
      | zero => simp
      | succ c => simp only [List.getD_cons_succ]; rw [getD_replicate_zero_rat]
    · rw [List.eq_of_mem_replicate hr]
      cases c with
      | zero => simp
      | succ c => simp only [List.getD_cons_succ]; exact getD_replicate_one_nonneg _ _
  · intro i hi
    simp only [List.length_cons, List.length_replicate] at hi
    cases i with
    | zero => simp [entry]
    | succ i =>
      have hi' : i < p := by omega
      simp [entry, List.getD_eq_getElem?_getD, hi']

theorem rowConst_ones (p : Nat) : ∀ r ∈ onesW p, RowConst r := by
  have key : ∀ r ∈ onesW p, ∀ x ∈ r, x = 0 ∨ x = 1 := by
    intro r hr x hx
    simp only [onesW, List.mem_cons, List.mem_append, List.mem_replicate, List.not_mem_nil, or_false] at hr
    rcases hr with rfl | ⟨_, rfl⟩ | rfl
    · simp only [List.mem_cons, List.mem_replicate] at hx
      rcases hx with rfl | ⟨_, rfl⟩ <;> simp
    · simp only [onesRow, List.mem_cons, List.mem_append, List.mem_replicate, List.not_mem_nil, or_false] at hx
      rcases hx with rfl | ⟨_, rfl⟩ | rfl <;> simp
    · simp only [List.mem_replicate] at hx
      exact Or.inl hx.2
  intro r hr x hx y hy hx0 hy0
  rcases key r hr x hx with rfl | rfl
  · exact absurd rfl hx0
  · rcases key r hr y hy with rfl | rfl
    · exact absurd rfl hy0
    · rfl

end Infretis.Perm
