import Infretis.Lemmas.PermSort
/-!
# The glue of `inf_retis` around the per-branch computations (C02)

drop locked → sort → [branches] → un-sort → the two `allclose` asserts → re-insert zeros.
If the branches return the permanent ratios of the *sorted* idle block, `inf_retis` returns
`probMatrix W locks`.
-/
namespace Infretis.Perm

theorem map_getD_range {α : Type} (N : List α) (d : α) :
    (List.range N.length).map (fun i => N.getD i d) = N := by
  apply List.ext_getElem
  · simp
  · intro i h1 h2
    simp [List.getD_eq_getElem?_getD, List.getElem?_eq_getElem h2]

theorem specMat_length (M : Mat) : (specMat M).length = M.length := by simp [specMat]

theorem specMat_getD (M : Mat) (k : Nat) (hk : k < M.length) :
    (specMat M).getD k [] = (List.range M.length).map (fun b => pSpec M k b) := by
  simp [specMat, List.getD_eq_getElem?_getD, List.getElem?_map, List.getElem?_range hk]

theorem colOf_specMat (M : Mat) (j : Nat) (hj : j < M.length) :
    colOf (specMat M) j = (List.range M.length).map (fun i => pSpec M i j) := by
  simp only [colOf, specMat, List.map_map]
  apply List.map_congr_left
  intro i _
  simp [List.getD_eq_getElem?_getD, List.getElem?_map, List.getElem?_range hj]

/-- un-sorting the permanent ratios of the sorted block gives those of the idle block -/
theorem unsort_specMat (N : Mat) (idx : List Nat) (hp : idx.Perm (List.range N.length)) :
    (List.range N.length).map (fun i =>
        (specMat (idx.map (fun i => N.getD i []))).getD (idx.idxOf i) [])
      = specMat N := by
  have hlen : idx.length = N.length := by simpa using hp.length_eq
  have hsorted : (idx.map (fun i => N.getD i [])).Perm N := by
    have := hp.map (fun i => N.getD i [])
    rwa [map_getD_range] at this
  unfold specMat
  apply List.map_congr_left
  intro i hi
  have hiN : i < N.length := List.mem_range.mp hi
  have himem : i ∈ idx := hp.mem_iff.mpr hi
  have hk : idx.idxOf i < idx.length := List.idxOf_lt_length_of_mem himem
  have hget : idx[idx.idxOf i] = i := List.getElem_idxOf hk
  have hk' : idx.idxOf i < (idx.map (fun i => N.getD i [])).length := by simpa using hk
  have := specMat_getD (idx.map (fun i => N.getD i [])) (idx.idxOf i) hk'
  unfold specMat at this
  rw [this, List.length_map, hlen]
  apply List.map_congr_left
  intro b _
  apply spec_row_perm N _ hsorted _ _ _ hk' hiN
  simp [List.getD_eq_getElem?_getD, List.getElem?_map, List.getElem?_eq_getElem hk, hget]

theorem allOnes_of (xs : List Rat) (h : ∀ x ∈ xs, x = 1) : allOnes xs = true := by
  simp only [allOnes, List.all_eq_true, beq_iff_eq]
  exact h

/-- **Glue.** If the branch phase returns the permanent ratios of the sorted idle block, then
    `inf_retis` returns the embedded specification. -/
theorem infRetis_of_sortedOut (off : Nat) (W : Mat) (locks : List Bool)
    (hne : idle W locks ≠ []) (hP : permC (idle W locks) ≠ 0)
    (hout : sortedOut (prepare off W locks) = goodAcc (prepare off W locks).sorted) :
    infRetis W locks off = .ok (probMatrix W locks) := by
  have hm : (prepare off W locks).m = (idle W locks).length := rfl
  have hm0 : (prepare off W locks).m ≠ 0 := by
    rw [hm]; exact fun h => hne (List.eq_nil_of_length_eq_zero h)
  have hun := unsort_specMat (idle W locks) (prepare off W locks).sortIdx
    (prepare_sortIdx_perm off W locks)
  unfold infRetis
  simp only [hout, goodAcc, if_neg hm0]
  rw [prepare_sorted_eq, hm, hun]
  have h1 : allOnes ((specMat (idle W locks)).map List.sum) = true := by
    apply allOnes_of
    intro x hx
    simp only [specMat, List.map_map, List.mem_map, List.mem_range, Function.comp] at hx
    obtain ⟨i, hi, rfl⟩ := hx
    exact spec_row_sum _ i hi hP
  have h2 : allOnes ((List.range (idle W locks).length).map
      (fun j => (colOf (specMat (idle W locks)) j).sum)) = true := by
    apply allOnes_of
    intro x hx
    simp only [List.mem_map, List.mem_range] at hx
    obtain ⟨j, hj, rfl⟩ := hx
    rw [colOf_specMat _ j hj]
    exact spec_col_sum _ j hj hP
  simp [h1, h2, probMatrix]

end Infretis.Perm
