import Infretis.Lemmas.PermSpec
/-!
# `permanent_prob` returns the permanent ratios (C02)

given that the permanent routine it calls (`fast_glynn_perm`) returns the permanent of the
minors it is asked for.  The row rescaling and the division by the maximal row sum are exact:
all row sums of the un-normalised matrix equal the permanent of the rescaled matrix.
-/
namespace Infretis.Perm

theorem mapM_option_all {α β : Type} (l : List α) (p : α → Bool) (g : α → β)
    (h : ∀ x ∈ l, p x = false) :
    l.mapM (fun x => if p x then none else some (g x)) = some (l.map g) := by
  induction l with
  | nil => rfl
  | cons a t ih =>
    rw [List.mapM_cons, h a (List.mem_cons_self), ih (fun x hx => h x (List.mem_cons_of_mem _ hx))]
    rfl

theorem mapM_except_ok {α β : Type} (l : List α) (f : α → Except Err β) (g : α → β)
    (h : ∀ x ∈ l, f x = .ok (g x)) : l.mapM f = .ok (l.map g) := by
  induction l with
  | nil => rfl
  | cons a t ih =>
    rw [List.mapM_cons, h a (List.mem_cons_self), ih (fun x hx => h x (List.mem_cons_of_mem _ hx))]
    rfl

theorem maxL_const (l : List Rat) (p : Rat) (hl : l ≠ []) (h : ∀ x ∈ l, x = p) : maxL l = p := by
  induction l with
  | nil => exact absurd rfl hl
  | cons a t ih =>
    cases t with
    | nil => simp [maxL, h a]
    | cons b t' =>
      have hb := ih (by simp) (fun x hx => h x (List.mem_cons_of_mem _ hx))
      simp only [maxL] at hb ⊢
      rw [hb, h a (List.mem_cons_self)]
      simp

/-- scale every row `r` of `B` by `f r` -/
def scaleAll (f : Row → Rat) (B : Mat) : Mat := B.map (fun r => scaleRow (f r) r)

theorem pSpec_scaleAll (f : Row → Rat) (A B : Mat) (hf : ∀ r ∈ B, f r ≠ 0) (i j : Nat) :
    pSpec (A ++ scaleAll f B) i j = pSpec (A ++ B) i j := by
  induction B generalizing A with
  | nil => rfl
  | cons r B ih =>
    have h1 := ih (A ++ [scaleRow (f r) r]) (fun x hx => hf x (List.mem_cons_of_mem _ hx))
    simp only [List.append_assoc, List.cons_append, List.nil_append] at h1
    simp only [scaleAll, List.map_cons] at h1 ⊢
    rw [h1]
    exact spec_row_rescale A B r (f r) (hf r (List.mem_cons_self)) i j

theorem permC_scaleAll_ne (f : Row → Rat) (A B : Mat) (hf : ∀ r ∈ B, f r ≠ 0)
    (hW : permC (A ++ B) ≠ 0) : permC (A ++ scaleAll f B) ≠ 0 := by
  induction B generalizing A with
  | nil => exact hW
  | cons r B ih =>
    have h1 := ih (A ++ [scaleRow (f r) r]) (fun x hx => hf x (List.mem_cons_of_mem _ hx))
    simp only [List.append_assoc, List.cons_append, List.nil_append] at h1
    simp only [scaleAll, List.map_cons] at h1 ⊢
    apply h1
    rw [permC_scale_mid]
    exact mul_ne_zero (hf r (List.mem_cons_self)) hW

/-- the rescaled matrix of `permanent_prob` -/
def rescaled (arr : Mat) : Mat := scaleAll (fun r => 1 / maxL r) arr

theorem scaleRows_eq (arr : Mat) (hmax : ∀ r ∈ arr, maxL r ≠ 0) :
    scaleRows arr = some (rescaled arr) := by
  unfold scaleRows rescaled scaleAll
  have := mapM_option_all arr (fun r => decide (maxL r = 0))
    (fun r => r.map (fun x => x / maxL r)) (fun x hx => by simpa using hmax x hx)
  simp only [decide_eq_true_eq] at this
  rw [this]
  congr 1
  apply List.map_congr_left
  intro r _
  unfold scaleRow
  apply List.map_congr_left
  intro x _
  ring

/-- **`permanent_prob` = permanent ratios**, for every square block with non-zero permanent whose
    rows have a non-zero maximum, provided the permanent routine is right on the minors of the
    rescaled block. -/
theorem permanentProbWith_eq_spec (perm : Mat → Except Err Rat) (arr : Mat)
    (hn : arr ≠ []) (hmax : ∀ r ∈ arr, maxL r ≠ 0) (hW : permC arr ≠ 0)
    (hperm : ∀ i j, i < arr.length → j < arr.length →
      perm (minor (rescaled arr) i j) = .ok (permC (minor (rescaled arr) i j))) :
    permanentProbWith perm arr = .ok (specMat arr) := by
  have hf : ∀ r ∈ arr, (fun r => 1 / maxL r) r ≠ 0 := fun r hr => by
    simpa using hmax r hr
  have hS : permC (rescaled arr) ≠ 0 := by
    have := permC_scaleAll_ne (fun r => 1 / maxL r) [] arr hf (by simpa using hW)
    simpa [rescaled] using this
  have hlen : (rescaled arr).length = arr.length := by simp [rescaled, scaleAll]
  have hraw : permProbRaw perm (rescaled arr) = .ok ((List.range arr.length).map (fun i =>
      (List.range arr.length).map (fun j =>
        entry (rescaled arr) i j * permC (minor (rescaled arr) i j)))) := by
    unfold permProbRaw
    rw [hlen]
    apply mapM_except_ok
    intro i hi
    apply mapM_except_ok
    intro j hj
    split
    · next h0 => rw [h0]; simp
    · rw [hperm i j (List.mem_range.mp hi) (List.mem_range.mp hj)]
      simp [mul_comm]
  unfold permanentProbWith
  rw [scaleRows_eq arr hmax]
  simp only [hraw]
  generalize hR : ((List.range arr.length).map (fun i => (List.range arr.length).map (fun j =>
      entry (rescaled arr) i j * permC (minor (rescaled arr) i j)))) = R
  have hsum : ∀ x ∈ R.map List.sum, x = permC (rescaled arr) := by
    intro x hx
    rw [← hR] at hx
    simp only [List.map_map, List.mem_map, List.mem_range, Function.comp] at hx
    obtain ⟨i, hi, rfl⟩ := hx
    have := permC_row (rescaled arr) i (by omega)
    rw [hlen] at this
    exact this.symm
  have hne : R.map List.sum ≠ [] := by
    have : 0 < arr.length := List.length_pos_of_ne_nil hn
    rw [← hR]
    simp; omega
  rw [maxL_const _ _ hne hsum, if_neg hS]
  congr 1
  unfold specMat
  rw [← hR]
  simp only [List.map_map]
  apply List.map_congr_left
  intro i _
  simp only [Function.comp, List.map_map]
  apply List.map_congr_left
  intro j _
  have := pSpec_scaleAll (fun r => 1 / maxL r) [] arr hf i j
  simp only [List.nil_append] at this
  rw [← this]
  rfl

end Infretis.Perm
