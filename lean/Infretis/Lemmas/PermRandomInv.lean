import Infretis.Model.PermRandom
import Mathlib.Algebra.Order.Field.Rat
import Mathlib.Tactic.Ring
import Mathlib.Tactic.Linarith
import Mathlib.Data.List.Nodup
/-!
# Sure properties of the Monte-Carlo routine `random_prob` (model: `Infretis.PermRandom`)

For EVERY sequence of draws (`start ∈ {0,1}`, `r_nums ≥ 0`):
* every visited state is a permutation of the paths over the columns, so every row and every column of the
  returned matrix sums to exactly 1;
* if the diagonal of the block is non-zero (the identity start has non-zero weight), every visited state has
  non-zero weight, so the returned matrix is zero wherever the weight is zero.
-/
namespace Infretis.PermRandom
open Infretis.Perm

/-! ## `swapAt` -/

theorem swapAt_eq_of_lt (l : List Nat) (i j : Nat) (hi : i < l.length) (hj : j < l.length) :
    swapAt l i j = (l.set i l[j]).set j l[i] := by
  simp [swapAt, List.getElem?_eq_getElem hi, List.getElem?_eq_getElem hj]

theorem swapAt_length (l : List Nat) (i j : Nat) : (swapAt l i j).length = l.length := by
  unfold swapAt
  split <;> simp

theorem swapAt_perm (l : List Nat) (i j : Nat) : (swapAt l i j).Perm l := by
  unfold swapAt
  split
  · rename_i a b hi hj
    obtain ⟨hil, rfl⟩ := List.getElem?_eq_some_iff.mp hi
    obtain ⟨hjl, rfl⟩ := List.getElem?_eq_some_iff.mp hj
    rw [List.perm_iff_count]
    intro c
    by_cases hij : i = j
    · subst hij
      rw [List.set_set, List.set_getElem_self]
    · rw [List.count_set (by simpa using hjl), List.count_set hil, List.getElem_set_ne hij]
      have h1 : l[i] == c → 0 < l.count c := fun h =>
        List.count_pos_iff.mpr (by rw [← eq_of_beq h]; exact List.getElem_mem hil)
      have h2 : l[j] == c → 0 < l.count c := fun h =>
        List.count_pos_iff.mpr (by rw [← eq_of_beq h]; exact List.getElem_mem hjl)
      by_cases e1 : (l[i] == c) = true <;> by_cases e2 : (l[j] == c) = true <;>
        simp only [e1, e2, if_true, if_false, Bool.false_eq_true] <;> [have := h1 e1; have := h1 e1; have := h2 e2; skip] <;> omega
  · exact List.Perm.refl _

theorem swapAt_getD (l : List Nat) (i j c d : Nat) (hi : i < l.length) (hj : j < l.length) :
    (swapAt l i j).getD c d = if c = j then l.getD i d else if c = i then l.getD j d else l.getD c d := by
  rw [swapAt_eq_of_lt l i j hi hj]
  simp only [List.getD_eq_getElem?_getD, List.getElem?_set, List.length_set]
  by_cases h1 : c = j
  · subst h1
    simp [hi, hj]
  · by_cases h2 : c = i
    · subst h2
      have : ¬ j = c := fun h => h1 h.symm
      simp [hi, hj, this, h1]
    · have a1 : ¬ j = c := fun h => h1 h.symm
      have a2 : ¬ i = c := fun h => h2 h.symm
      simp [a1, a2, h1, h2]

/-! ## permutations: every visited state -/

theorem applySwaps_perm (k : Nat) (left : Bool) (ps : List (Nat × Bool)) :
    ∀ perm : List Nat, (applySwaps k left ps perm).Perm perm := by
  induction ps with
  | nil => intro perm; exact List.Perm.refl _
  | cons p ps ih =>
    intro perm
    obtain ⟨idx, ok⟩ := p
    simp only [applySwaps]
    cases ok with
    | true => exact (ih _).trans (swapAt_perm perm idx _)
    | false => exact ih perm

theorem mcIter_perm (arr : Mat) (k : Nat) (perm : List Nat) (d : Draw) : (mcIter arr k perm d).Perm perm :=
  applySwaps_perm k d.left _ perm

theorem visited_perm (arr : Mat) (k : Nat) (ds : List Draw) :
    ∀ perm : List Nat, ∀ p ∈ visited arr k ds perm, p.Perm perm := by
  induction ds with
  | nil =>
    intro perm p hp
    simp only [visited, List.mem_singleton] at hp
    subst hp; exact List.Perm.refl _
  | cons d ds ih =>
    intro perm p hp
    simp only [visited, List.mem_cons] at hp
    rcases hp with hp | hp
    · subst hp; exact List.Perm.refl _
    · exact (ih _ p hp).trans (mcIter_perm arr k perm d)

theorem visited_length (arr : Mat) (k : Nat) (ds : List Draw) :
    ∀ perm : List Nat, (visited arr k ds perm).length = ds.length + 1 := by
  induction ds with
  | nil => intro perm; rfl
  | cons d ds ih => intro perm; simp [visited, ih]

/-! ## counting -/

/-- a permutation of `0 … k-1` has exactly one column holding path `r` -/
theorem one_column (k : Nat) (p : List Nat) (hp : p.Perm (List.range k)) (r : Nat) (hr : r < k) :
    ((List.range k).filter (fun c => p.getD c k == r)).length = 1 := by
  have hlen : p.length = k := by simpa using hp.length_eq
  have hmap : p = (List.range k).map (fun c => p.getD c k) := by
    apply List.ext_getElem
    · simp [hlen]
    · intro i h1 h2
      simp [List.getD_eq_getElem?_getD, List.getElem?_eq_getElem h1]
  have hc : p.count r = 1 := by
    rw [hp.count_eq]
    exact List.count_eq_one_of_mem List.nodup_range (List.mem_range.mpr hr)
  rw [← hc]
  conv => rhs; rw [hmap]
  rw [List.count_eq_countP, List.countP_map, List.countP_eq_length_filter]
  rfl

/-- a state whose column `c` holds a path `< k` has exactly one path in that column -/
theorem one_row (k : Nat) (p : List Nat) (c : Nat) (h : p.getD c k < k) :
    ((List.range k).filter (fun r => p.getD c k == r)).length = 1 := by
  have : (List.range k).count (p.getD c k) = 1 :=
    List.count_eq_one_of_mem List.nodup_range (List.mem_range.mpr h)
  rw [← this, List.count_eq_countP, List.countP_eq_length_filter]
  congr 1
  apply List.filter_congr
  intro x _
  exact Bool.beq_comm

theorem sum_zero_map {β : Type} (l : List β) : (l.map (fun _ => (0 : Nat))).sum = 0 := by
  induction l with
  | nil => rfl
  | cons x l ih => simp [ih]

/-- double counting -/
theorem double_count {α β : Type} (P : α → β → Bool) (vs : List α) (l : List β) :
    (l.map (fun c => (vs.filter (fun p => P p c)).length)).sum
      = (vs.map (fun p => (l.filter (fun c => P p c)).length)).sum := by
  induction vs with
  | nil => simpa using sum_zero_map l
  | cons p vs ih =>
    have key : ∀ l : List β, (l.map (fun c => ((p :: vs).filter (fun p => P p c)).length)).sum
        = (l.filter (fun c => P p c)).length
          + (l.map (fun c => (vs.filter (fun p => P p c)).length)).sum := by
      intro l
      induction l with
      | nil => simp
      | cons c l ihl =>
        simp only [List.map_cons, List.sum_cons, ihl]
        by_cases h : P p c = true
        · simp only [List.filter_cons, h, if_true, List.length_cons]; omega
        · simp only [List.filter_cons, h, if_false]
          simp only [Bool.false_eq_true, if_false]; omega
    rw [key, ih]
    simp

theorem sum_visits_cols (vs : List (List Nat)) (k r : Nat) :
    ((List.range k).map (fun c => visits vs k r c)).sum
      = (vs.map (fun p => ((List.range k).filter (fun c => p.getD c k == r)).length)).sum :=
  double_count (fun (p : List Nat) (c : Nat) => p.getD c k == r) vs (List.range k)

theorem sum_visits_rows (vs : List (List Nat)) (k c : Nat) :
    ((List.range k).map (fun r => visits vs k r c)).sum
      = (vs.map (fun p => ((List.range k).filter (fun r => p.getD c k == r)).length)).sum :=
  double_count (fun (p : List Nat) (r : Nat) => p.getD c k == r) vs (List.range k)

theorem sum_const_one {α : Type} (l : List α) (f : α → Nat) (h : ∀ x ∈ l, f x = 1) :
    (l.map f).sum = l.length := by
  induction l with
  | nil => rfl
  | cons x l ih =>
    simp only [List.map_cons, List.sum_cons, List.length_cons]
    rw [h x (List.mem_cons_self ..), ih (fun y hy => h y (List.mem_cons_of_mem _ hy))]
    omega

theorem sum_cast_div (l : List Nat) (f : Nat → Nat) (d : Rat) :
    (l.map (fun c => ((f c : Nat) : Rat) / d)).sum = (((l.map f).sum : Nat) : Rat) / d := by
  induction l with
  | nil => simp
  | cons x l ih =>
    simp only [List.map_cons, List.sum_cons, ih, Nat.cast_add]
    ring

/-- entries of the returned matrix -/
theorem entry_randomProb (arr : Mat) (draws : List Draw) (r c : Nat) (hr : r < arr.length)
    (hc : c < arr.length) :
    entry (randomProb arr draws) r c
      = ((visits (visited arr arr.length draws (List.range arr.length)) arr.length r c : Nat) : Rat)
          / ((draws.length + 1 : Nat) : Rat) := by
  simp [entry, randomProb, List.getD_eq_getElem?_getD, hr, hc]

theorem row_randomProb (arr : Mat) (draws : List Draw) (r : Nat) (hr : r < arr.length) :
    (randomProb arr draws).getD r [] = (List.range arr.length).map (fun c =>
      ((visits (visited arr arr.length draws (List.range arr.length)) arr.length r c : Nat) : Rat)
          / ((draws.length + 1 : Nat) : Rat)) := by
  simp [randomProb, List.getD_eq_getElem?_getD, hr]

/-! ## the weight of the visited states stays non-zero -/

def Inv (arr : Mat) (k : Nat) (perm : List Nat) : Prop :=
  perm.length = k ∧ ∀ c, c < k → entry arr (perm.getD c 0) c ≠ 0

/-- the draws are what numpy can return: `start ∈ {0, 1}`, `r_nums ≥ 0` -/
def DrawOk (d : Draw) : Prop := d.s2 ≤ 1 ∧ ∀ r ∈ d.rs, 0 ≤ r

theorem partner_left (k idx : Nat) (hk : idx < k) :
    partner k true idx = if idx = 0 then k - 1 else idx - 1 := by
  simp only [partner, if_true]
  by_cases h : idx = 0
  · subst h
    simp only [if_true, Nat.zero_add]
    exact Nat.mod_eq_of_lt (by omega)
  · simp only [h, if_false]
    have : idx + k - 1 = (idx - 1) + k := by omega
    rw [this, Nat.add_mod_right]
    exact Nat.mod_eq_of_lt (by omega)

theorem quot_ne_zero (x y : Rat) (hy : y ≠ 0) (h : quot x y ≠ 0) : x ≠ 0 := by
  intro hx
  apply h
  simp [quot, hy, hx]

/-- an accepted proposal leads to a state of non-zero weight -/
theorem accept_nonzero (arr : Mat) (k : Nat) (left : Bool) (perm : List Nat) (idx : Nat) (r : Rat)
    (hinv : Inv arr k perm) (hidx : idx < k) (hp : partner k left idx < k) (hr : 0 ≤ r)
    (hacc : r < pairProb arr k left perm idx) :
    entry arr (perm.getD idx 0) (partner k left idx) ≠ 0
      ∧ entry arr (perm.getD (partner k left idx) 0) idx ≠ 0 := by
  have hpos : pairProb arr k left perm idx ≠ 0 := by
    intro h; rw [h] at hacc; exact absurd hacc (not_lt.mpr hr)
  have d1 := hinv.2 idx hidx
  have d2 := hinv.2 _ hp
  cases left with
  | true =>
    simp only [pairProb, if_true] at hpos
    have hq := mul_ne_zero_iff.mp hpos
    have e1 : (idx + k - 1) % k = partner k true idx := by simp [partner]
    have e2 : (partner k true idx + 1) % k = idx := by
      rw [partner_left k idx hidx]
      by_cases h : idx = 0
      · subst h
        simp only [if_true]
        have : k - 1 + 1 = k := by omega
        rw [this, Nat.mod_self]
      · simp only [h, if_false]
        have : idx - 1 + 1 = idx := by omega
        rw [this]; exact Nat.mod_eq_of_lt hidx
    constructor
    · have := quot_ne_zero _ _ d1 hq.1
      rwa [e1] at this
    · have := quot_ne_zero _ _ d2 hq.2
      rwa [e2] at this
  | false =>
    simp only [pairProb, Bool.false_eq_true, if_false] at hpos
    have hq := mul_ne_zero_iff.mp hpos
    have hp' : idx + 1 < k := by simpa [partner] using hp
    have e0 : partner k false idx = idx + 1 := by simp [partner]
    have e1 : (idx + 1) % k = idx + 1 := Nat.mod_eq_of_lt hp'
    have e2 : (idx + 1 + k - 1) % k = idx := by
      have : idx + 1 + k - 1 = idx + k := by omega
      rw [this, Nat.add_mod_right]; exact Nat.mod_eq_of_lt hidx
    rw [e0] at d2 hq ⊢
    constructor
    · have := quot_ne_zero _ _ d1 hq.1
      simpa [probRight, e1] using this
    · have := quot_ne_zero _ _ d2 hq.2
      rw [e2] at this
      exact this

theorem inv_swap (arr : Mat) (k : Nat) (perm : List Nat) (i j : Nat) (hinv : Inv arr k perm)
    (hi : i < k) (hj : j < k) (h1 : entry arr (perm.getD i 0) j ≠ 0) (h2 : entry arr (perm.getD j 0) i ≠ 0) :
    Inv arr k (swapAt perm i j) := by
  refine ⟨by rw [swapAt_length]; exact hinv.1, ?_⟩
  intro c hc
  rw [swapAt_getD perm i j c 0 (by rw [hinv.1]; exact hi) (by rw [hinv.1]; exact hj)]
  by_cases e1 : c = j
  · subst e1; simpa using h1
  · by_cases e2 : c = i
    · subst e2; simp only [e1, if_false, if_true]; exact h2
    · simp only [e1, e2, if_false]; exact hinv.2 c hc

/-- the pairs (idx, partner) of one iteration are pairwise disjoint: later pairs do not touch the two
    columns of an earlier one.  Stated as what the induction needs: a list of index pairs with their
    acceptance flags, each accepted pair non-zero w.r.t. the ORIGINAL state, later pairs disjoint. -/
theorem applySwaps_inv (arr : Mat) (k : Nat) (left : Bool) (perm0 : List Nat) (ps : List (Nat × Bool)) :
    ∀ perm : List Nat, Inv arr k perm →
      (∀ q ∈ ps, q.1 < k ∧ partner k left q.1 < k
        ∧ perm.getD q.1 0 = perm0.getD q.1 0
        ∧ perm.getD (partner k left q.1) 0 = perm0.getD (partner k left q.1) 0) →
      (∀ q ∈ ps, q.2 = true → entry arr (perm0.getD q.1 0) (partner k left q.1) ≠ 0
        ∧ entry arr (perm0.getD (partner k left q.1) 0) q.1 ≠ 0) →
      ps.Pairwise (fun a b => b.1 ≠ a.1 ∧ b.1 ≠ partner k left a.1
        ∧ partner k left b.1 ≠ a.1 ∧ partner k left b.1 ≠ partner k left a.1) →
      Inv arr k (applySwaps k left ps perm) := by
  induction ps with
  | nil => intro perm h _ _ _; exact h
  | cons q ps ih =>
    intro perm hinv hsame hacc hdis
    obtain ⟨idx, ok⟩ := q
    simp only [applySwaps]
    have hq := hsame (idx, ok) (List.mem_cons_self ..)
    simp only at hq
    obtain ⟨hi, hp, s1, s2⟩ := hq
    rw [List.pairwise_cons] at hdis
    cases ok with
    | false =>
      simp only [Bool.false_eq_true, if_false]
      exact ih perm hinv (fun q hq => hsame q (List.mem_cons_of_mem _ hq))
        (fun q hq => hacc q (List.mem_cons_of_mem _ hq)) hdis.2
    | true =>
      simp only [if_true]
      have ha := hacc (idx, true) (List.mem_cons_self ..) rfl
      simp only at ha
      have hinv' : Inv arr k (swapAt perm idx (partner k left idx)) :=
        inv_swap arr k perm idx _ hinv hi hp (by rw [s1]; exact ha.1) (by rw [s2]; exact ha.2)
      apply ih _ hinv' _ (fun q hq => hacc q (List.mem_cons_of_mem _ hq)) hdis.2
      intro q hq
      have hd := hdis.1 q hq
      simp only at hd
      obtain ⟨qi, qp, q1, q2⟩ := hsame q (List.mem_cons_of_mem _ hq)
      refine ⟨qi, qp, ?_, ?_⟩
      · rw [swapAt_getD perm idx _ _ 0 (by rw [hinv.1]; exact hi) (by rw [hinv.1]; exact hp)]
        simp only [hd.2.1, hd.1, if_false]; exact q1
      · rw [swapAt_getD perm idx _ _ 0 (by rw [hinv.1]; exact hi) (by rw [hinv.1]; exact hp)]
        simp only [hd.2.2.2, hd.2.2.1, if_false]; exact q2

/-! ## one iteration and the whole loop -/

theorem pairwise_zip_fst {α β : Type} (R : α → α → Prop) (l : List α) :
    ∀ m : List β, l.Pairwise R → (l.zip m).Pairwise (fun a b => R a.1 b.1) := by
  induction l with
  | nil => intro m _; simp
  | cons x xs ih =>
    intro m h
    cases m with
    | nil => simp
    | cons y ys =>
      rw [List.pairwise_cons] at h
      simp only [List.zip_cons_cons, List.pairwise_cons]
      exact ⟨fun q hq => h.1 q.1 (List.of_mem_zip hq).1, ih ys h.2⟩

theorem accepted_of_mem (g : Nat → Rat) (idxs : List Nat) :
    ∀ rs : List Rat, ∀ q ∈ idxs.zip (List.zipWith (fun r p => decide (r < p)) rs (idxs.map g)),
      q.2 = true → q.1 ∈ idxs ∧ ∃ r ∈ rs, r < g q.1 := by
  induction idxs with
  | nil => intro rs q hq; simp at hq
  | cons x xs ih =>
    intro rs q hq hq2
    cases rs with
    | nil => simp at hq
    | cons r rs =>
      simp only [List.map_cons, List.zipWith_cons_cons, List.zip_cons_cons, List.mem_cons] at hq
      rcases hq with hq | hq
      · subst hq
        simp only [decide_eq_true_eq] at hq2
        exact ⟨List.mem_cons_self .., r, List.mem_cons_self .., hq2⟩
      · obtain ⟨h1, r', hr', h2⟩ := ih rs q hq hq2
        exact ⟨List.mem_cons_of_mem _ h1, r', List.mem_cons_of_mem _ hr', h2⟩

theorem idx_bound (k j s : Nat) (hj : j < k / 2) (hs : s ≤ 1) (he : (k / 2) * 2 = k → s = 0) :
    2 * j + s + 2 ≤ k := by
  by_cases h : (k / 2) * 2 = k
  · have := he h; omega
  · omega

theorem mcIter_inv (arr : Mat) (k : Nat) (perm : List Nat) (d : Draw) (hinv : Inv arr k perm)
    (hd : DrawOk d) : Inv arr k (mcIter arr k perm d) := by
  unfold mcIter
  have hs : startOf k d ≤ 1 := by
    unfold startOf; split
    · omega
    · exact hd.1
  have he : (k / 2) * 2 = k → startOf k d = 0 := by
    intro h; simp [startOf, h]
  have hb : ∀ j, j < k / 2 → 2 * j + startOf k d + 2 ≤ k := fun j hj => idx_bound k j _ hj hs he
  have hmem : ∀ x ∈ (List.range (k / 2)).map (fun j => 2 * j + startOf k d), x + 2 ≤ k := by
    intro x hx
    obtain ⟨j, hj, rfl⟩ := List.mem_map.mp hx
    exact hb j (List.mem_range.mp hj)
  have hpart : ∀ x, x + 2 ≤ k → partner k d.left x < k := by
    intro x hx
    cases hl : d.left with
    | true => rw [partner_left k x (by omega)]; split <;> omega
    | false => simp [partner]; omega
  apply applySwaps_inv arr k d.left perm _ perm hinv
  · intro q hq
    have hx := hmem q.1 (List.of_mem_zip hq).1
    exact ⟨by omega, hpart _ hx, rfl, rfl⟩
  · intro q hq hq2
    obtain ⟨h1, r, hr, hacc⟩ := accepted_of_mem (pairProb arr k d.left perm) _ d.rs q hq hq2
    have hx := hmem q.1 h1
    exact accept_nonzero arr k d.left perm q.1 r hinv (by omega) (hpart _ hx) (hd.2 r hr) hacc
  · apply pairwise_zip_fst (fun a b : Nat => b ≠ a ∧ b ≠ partner k d.left a
        ∧ partner k d.left b ≠ a ∧ partner k d.left b ≠ partner k d.left a)
    rw [List.pairwise_map]
    apply List.Pairwise.imp_of_mem _ (List.pairwise_lt_range (n := k / 2))
    intro a b ha hb' hab
    have ba := hb a (List.mem_range.mp ha)
    have bb := hb b (List.mem_range.mp hb')
    cases hl : d.left with
    | true =>
      rw [partner_left k _ (by omega), partner_left k _ (by omega)]
      refine ⟨by omega, ?_, ?_, ?_⟩ <;> (repeat' split) <;> omega
    | false =>
      simp only [partner, Bool.false_eq_true, if_false]
      omega

theorem visited_inv (arr : Mat) (k : Nat) (ds : List Draw) :
    ∀ perm : List Nat, Inv arr k perm → (∀ d ∈ ds, DrawOk d) →
      ∀ p ∈ visited arr k ds perm, Inv arr k p := by
  induction ds with
  | nil =>
    intro perm h _ p hp
    simp only [visited, List.mem_singleton] at hp
    subst hp; exact h
  | cons d ds ih =>
    intro perm h hd p hp
    simp only [visited, List.mem_cons] at hp
    rcases hp with hp | hp
    · subst hp; exact h
    · exact ih _ (mcIter_inv arr k perm d h (hd d (List.mem_cons_self ..)))
        (fun d' hd' => hd d' (List.mem_cons_of_mem _ hd')) p hp

theorem inv_identity (arr : Mat) (hdiag : ∀ c, c < arr.length → entry arr c c ≠ 0) :
    Inv arr arr.length (List.range arr.length) := by
  refine ⟨by simp, ?_⟩
  intro c hc
  have : (List.range arr.length).getD c 0 = c := by
    simp [List.getD_eq_getElem?_getD, hc]
  rw [this]; exact hdiag c hc

/-- **zero where the weight is zero, surely** -/
theorem randomProb_zero (arr : Mat) (draws : List Draw)
    (hdiag : ∀ c, c < arr.length → entry arr c c ≠ 0) (hd : ∀ d ∈ draws, DrawOk d)
    (r c : Nat) (hr : r < arr.length) (hc : c < arr.length) (hz : entry arr r c = 0) :
    entry (randomProb arr draws) r c = 0 := by
  rw [entry_randomProb arr draws r c hr hc]
  have : visits (visited arr arr.length draws (List.range arr.length)) arr.length r c = 0 := by
    unfold visits
    rw [List.length_eq_zero_iff, List.filter_eq_nil_iff]
    intro p hp hpc
    have hi := visited_inv arr arr.length draws _ (inv_identity arr hdiag) hd p hp
    have hlen := hi.1
    have e1 : p.getD c arr.length = p.getD c 0 := by
      simp [List.getD_eq_getElem?_getD, List.getElem?_eq_getElem (show c < p.length by omega)]
    have := hi.2 c hc
    rw [← e1, eq_of_beq hpc] at this
    exact this hz
  rw [this]; simp

/-- **every row sums to exactly 1, for every draw sequence** -/
theorem randomProb_row_sum (arr : Mat) (draws : List Draw) (r : Nat) (hr : r < arr.length) :
    ((randomProb arr draws).getD r []).sum = 1 := by
  rw [row_randomProb arr draws r hr, sum_cast_div, sum_visits_cols]
  rw [sum_const_one _ _ (fun p hp => one_column arr.length p
    (visited_perm arr arr.length draws _ p hp) r hr), visited_length]
  have : ((draws.length + 1 : Nat) : Rat) ≠ 0 := by exact_mod_cast Nat.succ_ne_zero draws.length
  exact div_self this

/-- **every column sums to exactly 1, for every draw sequence** -/
theorem randomProb_col_sum (arr : Mat) (draws : List Draw) (c : Nat) (hc : c < arr.length) :
    ((List.range arr.length).map (fun r => entry (randomProb arr draws) r c)).sum = 1 := by
  have : (List.range arr.length).map (fun r => entry (randomProb arr draws) r c)
      = (List.range arr.length).map (fun r =>
          ((visits (visited arr arr.length draws (List.range arr.length)) arr.length r c : Nat) : Rat)
            / ((draws.length + 1 : Nat) : Rat)) := by
    apply List.map_congr_left
    intro r hr
    exact entry_randomProb arr draws r c (List.mem_range.mp hr) hc
  rw [this, sum_cast_div, sum_visits_rows]
  rw [sum_const_one _ _ (fun p hp => one_row arr.length p c (by
    have hperm := visited_perm arr arr.length draws _ p hp
    have hlen : p.length = arr.length := by simpa using hperm.length_eq
    have hm : p.getD c arr.length ∈ p := by
      simp [List.getD_eq_getElem?_getD, List.getElem?_eq_getElem (show c < p.length by omega)]
    exact List.mem_range.mp (hperm.mem_iff.mp hm))), visited_length]
  have : ((draws.length + 1 : Nat) : Rat) ≠ 0 := by exact_mod_cast Nat.succ_ne_zero draws.length
  exact div_self this

end Infretis.PermRandom
