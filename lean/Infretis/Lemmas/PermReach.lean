import Infretis.Lemmas.PermSpec
/-!
# The reachable family of weight matrices (C02) — definitions shared by the pipeline lemmas

The idle block `N` (locked rows and columns dropped) of a state the sampler can reach:
`o ≤ 1` minus rows `(w, 0, …, 0)` with `w > 0` first, then plus rows that vanish on the minus
column, are positive on the next `cnt` columns and zero after (staircase), in any order.
`SortedReach` is the same after `inf_retis`' two argsorts: counts non-decreasing, and Hall's
condition in its sorted form.
-/
namespace Infretis.Perm

/-- row of a plus path in the idle block: zero on the `o` minus columns, positive on the next
    `cnt` columns, zero after -/
def IsPlusRow (o m cnt : Nat) (r : Row) : Prop :=
  r.length = m ∧ o + cnt ≤ m ∧ (∀ c, c < o → r.getD c 0 = 0) ∧
  (∀ c, o ≤ c → c < o + cnt → 0 < r.getD c 0) ∧ (∀ c, o + cnt ≤ c → c < m → r.getD c 0 = 0)

/-- row of the path in the `[0-]` ensemble -/
def IsMinusRow (m : Nat) (r : Row) : Prop :=
  r.length = m ∧ 0 < r.getD 0 0 ∧ ∀ c, 1 ≤ c → c < m → r.getD c 0 = 0

/-- the reachable family on the idle block `N`: `o ≤ 1` minus rows, then plus rows with
    `cnts[k]` positive weights each, in any order -/
structure Reach (o : Nat) (N : Mat) (cnts : List Nat) : Prop where
  ho : o ≤ 1
  hlen : N.length = o + cnts.length
  minus : o = 1 → IsMinusRow N.length (N.getD 0 [])
  plus : ∀ k, k < cnts.length → IsPlusRow o N.length (cnts.getD k 0) (N.getD (o + k) [])

/-- the same with the plus rows sorted by their last non-zero column, and Hall's condition -/
structure SortedReach (o : Nat) (S : Mat) (cnts : List Nat) : Prop extends Reach o S cnts where
  sorted : cnts.Pairwise (fun a b => a ≤ b)
  hall : ∀ k, k < cnts.length → k + 1 ≤ cnts.getD k 0

/-- the value `sortedOut` must have: the permanent ratios of the sorted idle block -/
def goodAcc (S : Mat) : BlockAcc := { rows := specMat S, mc := [], nan := false, err := none }

end Infretis.Perm
