import Infretis.Lemmas.PermReach
/-!
# The two argsorts of `inf_retis` permute the rows of the idle block (C02)
-/
namespace Infretis.Perm

theorem argsort_perm (keys : List Int) : (argsort keys).Perm (List.range keys.length) := by
  unfold argsort
  have h := (List.mergeSort_perm (keys.zipIdx) (fun a b => decide (a.1 ≤ b.1))).map (fun p => p.2)
  have h2 : (keys.zipIdx).map (fun p => p.2) = List.range keys.length := by
    have := List.zipIdx_map_snd 0 keys
    rw [List.range_eq_range']
    exact this
  rw [h2] at h
  exact h

theorem prepare_m (off : Nat) (W : Mat) (locks : List Bool) :
    (prepare off W locks).m = (idle W locks).length := rfl

theorem prepare_sorted_eq (off : Nat) (W : Mat) (locks : List Bool) :
    (prepare off W locks).sorted
      = (prepare off W locks).sortIdx.map (fun i => (idle W locks).getD i []) := rfl

theorem sortIdx_perm_aux (o : Nat) (N : Mat) :
    (argsort ((N.take o).map (fun r => (firstPos r : Int)))
      ++ (argsort ((N.drop o).map (fun r => -(firstPos r.reverse : Int)))).map (fun i => i + o)).Perm
      (List.range N.length) := by
  have h1 := argsort_perm ((N.take o).map (fun r => (firstPos r : Int)))
  have h2 := (argsort_perm ((N.drop o).map (fun r => -(firstPos r.reverse : Int)))).map (fun i => i + o)
  simp only [List.length_map, List.length_take, List.length_drop] at h1 h2
  refine (h1.append h2).trans ?_
  rcases Nat.le_total o N.length with h | h
  · rw [Nat.min_eq_left h]
    have : N.length = o + (N.length - o) := by omega
    conv => rhs; rw [this, List.range_add]
    have e : (fun i => i + o) = (fun i => o + i) := by funext i; omega
    rw [e]
  · rw [Nat.min_eq_right h]
    have : N.length - o = 0 := by omega
    rw [this]
    simp

theorem prepare_sortIdx_perm (off : Nat) (W : Mat) (locks : List Bool) :
    (prepare off W locks).sortIdx.Perm (List.range (idle W locks).length) :=
  sortIdx_perm_aux _ _

end Infretis.Perm
