import Infretis.Lemmas.PermSort
import Infretis.Lemmas.PermBlock
/-!
# `inf_retis`' preparation phase brings a reachable idle block into sorted reachable form (C02)
-/
namespace Infretis.Perm

theorem argsort_sorted (keys : List Int) :
    (argsort keys).Pairwise (fun a b => keys.getD a 0 ≤ keys.getD b 0) := by
  unfold argsort
  rw [List.pairwise_map]
  have h := List.pairwise_mergeSort (le := fun (a b : Int × Nat) => decide (a.1 ≤ b.1))
    (fun a b c h1 h2 => by
      simp only [decide_eq_true_eq] at h1 h2 ⊢; omega)
    (fun a b => by
      simp only [Bool.or_eq_true, decide_eq_true_eq]; omega) (keys.zipIdx)
  refine List.Pairwise.imp_of_mem ?_ h
  intro a b ha hb hab
  have ha' := (List.mergeSort_perm _ _).mem_iff.mp ha
  have hb' := (List.mergeSort_perm _ _).mem_iff.mp hb
  rw [List.mem_zipIdx_iff_getElem?] at ha' hb'
  simp only [List.getD_eq_getElem?_getD, ha', hb', Option.getD_some]
  simpa using hab

theorem firstPos_reverse_plus (o m cnt : Nat) (r : Row) (h : IsPlusRow o m cnt r) (hc : 1 ≤ cnt) :
    firstPos r.reverse = m - (o + cnt) := by
  obtain ⟨hlen, hle, _, hpos, hzero⟩ := h
  unfold firstPos
  have : r.reverse.findIdx? (fun x => decide (0 < x)) = some (m - (o + cnt)) := by
    rw [List.findIdx?_eq_some_iff_getElem]
    refine ⟨by rw [List.length_reverse, hlen]; omega, ?_, ?_⟩
    · have := hpos (o + cnt - 1) (by omega) (by omega)
      simp only [List.getElem_reverse, hlen, decide_eq_true_eq]
      have hidx : m - 1 - (m - (o + cnt)) = o + cnt - 1 := by omega
      rw [List.getD_eq_getElem?_getD, List.getElem?_eq_getElem (by omega)] at this
      simp only [Option.getD_some] at this
      simpa [hidx] using this
    · intro j hj
      have := hzero (m - 1 - j) (by omega) (by omega)
      rw [List.getD_eq_getElem?_getD, List.getElem?_eq_getElem (by omega)] at this
      simp only [Option.getD_some] at this
      simp only [List.getElem_reverse, hlen, decide_eq_true_eq, this]
      exact lt_irrefl 0
  rw [this]; rfl

/-- a plus row without positive weight makes the permanent vanish -/
theorem permC_zero_of_zero_row (N : Mat) (i : Nat) (hi : i < N.length)
    (hz : ∀ j, j < N.length → entry N i j = 0) : permC N = 0 := by
  rw [permC_row N i hi]
  apply List.sum_eq_zero
  intro x hx
  simp only [List.mem_map, List.mem_range] at hx
  obtain ⟨j, hj, rfl⟩ := hx
  rw [hz j hj]; ring

theorem reach_cnt_pos (o : Nat) (N : Mat) (cnts : List Nat) (hR : Reach o N cnts)
    (hP : permC N ≠ 0) (k : Nat) (hk : k < cnts.length) : 1 ≤ cnts.getD k 0 := by
  by_contra hlt
  have h0 : cnts.getD k 0 = 0 := by omega
  obtain ⟨hlen, _, h1, _, h3⟩ := hR.plus k hk
  apply hP
  apply permC_zero_of_zero_row N (o + k) (by rw [hR.hlen]; omega)
  intro j hj
  unfold entry
  rcases Nat.lt_or_ge j o with hjo | hjo
  · exact h1 j hjo
  · exact h3 j (by omega) hj


theorem argsort_le_one (keys : List Int) (h : keys.length ≤ 1) :
    argsort keys = List.range keys.length := by
  match keys, h with
  | [], _ => simp [argsort]
  | [a], _ => simp [argsort, List.zipIdx]

/-- the sort key of plus row `i` -/
theorem plusKey_getD (o : Nat) (N : Mat) (cnts : List Nat) (hR : Reach o N cnts)
    (hP : permC N ≠ 0) (i : Nat) (hi : i < cnts.length) :
    ((N.drop o).map (fun r => -(firstPos r.reverse : Int))).getD i 0
      = -(((o + cnts.length) - (o + cnts.getD i 0) : Nat) : Int) := by
  have hlen := hR.hlen
  have hpl := hR.plus i hi
  rw [hlen] at hpl
  have hc := reach_cnt_pos o N cnts hR hP i hi
  have hfp := firstPos_reverse_plus o _ _ _ hpl hc
  have hi' : o + i < N.length := by omega
  simp only [List.getD_eq_getElem?_getD, List.getElem?_map, List.getElem?_drop,
    List.getElem?_eq_getElem hi', Option.map_some, Option.getD_some] at hfp ⊢
  rw [hfp]

set_option maxHeartbeats 400000 in
theorem sortedReach_of (o : Nat) (N : Mat) (cnts : List Nat) (hR : Reach o N cnts)
    (hP : permC N ≠ 0) :
    ∃ cnts', SortedReach o
      ((argsort ((N.take o).map (fun r => (firstPos r : Int)))
        ++ (argsort ((N.drop o).map (fun r => -(firstPos r.reverse : Int)))).map
            (fun i => i + o)).map (fun i => N.getD i [])) cnts' := by
  have hlen := hR.hlen
  have ho := hR.ho
  have hperm := sortIdx_perm_aux o N
  -- the minus part
  have hk1 : ((N.take o).map (fun r => (firstPos r : Int))).length = o := by
    simp only [List.length_map, List.length_take]; omega
  have h1 : argsort ((N.take o).map (fun r => (firstPos r : Int))) = List.range o := by
    rw [argsort_le_one _ (by omega), hk1]
  rw [h1] at hperm ⊢
  -- the plus part
  generalize hk2 : ((N.drop o).map (fun r => -(firstPos r.reverse : Int))) = k2 at hperm ⊢
  have hk2len : k2.length = cnts.length := by
    rw [← hk2]; simp only [List.length_map, List.length_drop]; omega
  have h2p : (argsort k2).Perm (List.range cnts.length) := by
    have := argsort_perm k2; rwa [hk2len] at this
  have h2s := argsort_sorted k2
  have hkey : ∀ i, i < cnts.length →
      k2.getD i 0 = -(((o + cnts.length) - (o + cnts.getD i 0) : Nat) : Int) := by
    intro i hi; rw [← hk2]; exact plusKey_getD o N cnts hR hP i hi
  generalize hidx : argsort k2 = idx2 at hperm h2p h2s ⊢
  have hidxlen : idx2.length = cnts.length := by simpa using h2p.length_eq
  have hmem : ∀ k (hk : k < idx2.length), idx2[k] < cnts.length := by
    intro k hk
    exact List.mem_range.mp (h2p.mem_iff.mp (List.getElem_mem hk))
  -- rows of the sorted matrix
  have hSlen : ((List.range o ++ idx2.map (fun i => i + o)).map (fun i => N.getD i [])).length
      = o + cnts.length := by
    simp [hidxlen]
  have hSplus : ∀ k (hk : k < idx2.length),
      ((List.range o ++ idx2.map (fun i => i + o)).map (fun i => N.getD i [])).getD (o + k) []
        = N.getD (o + idx2[k]) [] := by
    intro k hk
    rw [List.map_append, List.getD_eq_getElem?_getD,
      List.getElem?_append_right (by simp)]
    simp [hk, Nat.add_comm]
  have hcnt' : ∀ k (hk : k < idx2.length),
      (idx2.map (fun i => cnts.getD i 0)).getD k 0 = cnts.getD idx2[k] 0 := by
    intro k hk
    simp [List.getD_eq_getElem?_getD, hk]
  have hsorted : (idx2.map (fun i => cnts.getD i 0)).Pairwise (fun a b => a ≤ b) := by
    rw [List.pairwise_map]
    refine List.Pairwise.imp_of_mem ?_ h2s
    intro a b ha hb hab
    have ha' : a < cnts.length := List.mem_range.mp (h2p.mem_iff.mp ha)
    have hb' : b < cnts.length := List.mem_range.mp (h2p.mem_iff.mp hb)
    rw [hkey a ha', hkey b hb'] at hab
    have h1a := (hR.plus a ha').2.1
    have h1b := (hR.plus b hb').2.1
    rw [hlen] at h1a h1b
    omega
  have hS_perm : ((List.range o ++ idx2.map (fun i => i + o)).map (fun i => N.getD i [])).Perm N := by
    have := hperm.map (fun i => N.getD i [])
    have h3 : (List.range N.length).map (fun i => N.getD i []) = N := by
      apply List.ext_getElem
      · simp
      · intro i h1 h2
        simp [List.getD_eq_getElem?_getD, List.getElem?_eq_getElem h2]
    rwa [h3] at this
  refine ⟨idx2.map (fun i => cnts.getD i 0), ⟨⟨ho, ?_, ?_, ?_⟩, hsorted, ?_⟩⟩
  · simp [hidxlen]
  · intro ho1
    subst ho1
    have := hR.minus rfl
    rw [hSlen, ← hlen]
    simpa [List.getD_eq_getElem?_getD] using this
  · intro k hk
    rw [List.length_map] at hk
    rw [hSlen, hSplus k hk, hcnt' k hk, ← hlen]
    exact hR.plus _ (hmem k hk)
  · -- Hall, from the non-vanishing permanent
    intro k hk
    rw [List.length_map] at hk
    by_contra hlt
    rw [hcnt' k hk] at hlt
    apply hP
    rw [← permC_perm hS_perm]
    generalize hS : ((List.range o ++ idx2.map (fun i => i + o)).map (fun i => N.getD i [])) = S
      at hSlen hSplus
    unfold permC
    have hsplit : S = S.take (o + k + 1) ++ S.drop (o + k + 1) := (List.take_append_drop _ _).symm
    have hml : S.length = o + k + 1 + (cnts.length - k - 1) := by rw [hSlen]; omega
    rw [hml]
    conv => lhs; arg 2; rw [hsplit]
    apply permN_narrow_zero (o + k) (cnts.length - k - 1) _ _ (by rw [List.length_drop, hSlen]; omega)
    intro r hr c hc1 hc2
    obtain ⟨i, hi, rfl⟩ := List.mem_iff_getElem.mp hr
    rw [List.length_take] at hi
    rw [List.getElem_take]
    have hiS : i < S.length := by omega
    rcases Nat.lt_or_ge i o with hio | hio
    · -- the minus row
      have ho1 : o = 1 := by omega
      subst ho1
      have hi0 : i = 0 := by omega
      subst hi0
      have hmin := hR.minus rfl
      have hrow : S[0] = N.getD 0 [] := by
        subst hS
        simp [List.getD_eq_getElem?_getD]
      rw [hrow]
      exact hmin.2.2 c (by omega) (by omega)
    · obtain ⟨j, rfl⟩ : ∃ j, i = o + j := ⟨i - o, by omega⟩
      have hj : j < idx2.length := by omega
      have hjk : j ≤ k := by omega
      have hrow := hSplus j hj
      rw [List.getD_eq_getElem?_getD, List.getElem?_eq_getElem hiS] at hrow
      simp only [Option.getD_some] at hrow
      rw [hrow]
      have hpl := hR.plus _ (hmem j hj)
      have hle : cnts.getD idx2[j] 0 ≤ cnts.getD idx2[k] 0 := by
        rcases Nat.lt_or_ge j k with hjk' | hjk'
        · have := List.pairwise_iff_getElem.mp hsorted j k (by simpa using hj) (by simpa using hk) hjk'
          simpa using this
        · have : j = k := by omega
          subst this; exact le_refl _
      exact hpl.2.2.2.2 c (by omega) (by omega)

/-- **The preparation phase sorts a reachable idle block with non-zero permanent into the sorted
    reachable form** (counts non-decreasing, Hall's condition `k+1 ≤ cnt_k`). -/
theorem prepare_sortedReach (off : Nat) (W : Mat) (locks : List Bool) (cnts : List Nat)
    (hR : Reach (prepare off W locks).offset (idle W locks) cnts)
    (hP : permC (idle W locks) ≠ 0) :
    ∃ cnts', SortedReach (prepare off W locks).offset (prepare off W locks).sorted cnts' :=
  sortedReach_of _ _ cnts hR hP

end Infretis.Perm
