import Infretis.Lemmas.PermSort
import Infretis.Lemmas.PermBlock
/-!
# `inf_retis`' preparation phase brings a reachable idle block into sorted reachable form (C02)
-/
namespace Infretis.Perm

theorem argsort_sorted (keys : List Int) :
    (argsort keys).Pairwise (fun a b => keys.getD a 0 ≤ keys.getD b 0) := by
  unfold argsort
  rw [List.pairwise_map]
  have h := List.pairwise_mergeSort (le := fun (a b : Int × Nat) => decide (a.1 ≤ b.1))
    (fun a b c h1 h2 => by
      simp only [decide_eq_true_eq] at h1 h2 ⊢; omega)
    (fun a b => by
      simp only [Bool.or_eq_true, decide_eq_true_eq]; omega) (keys.zipIdx)
  refine List.Pairwise.imp_of_mem ?_ h
  intro a b ha hb hab
  have ha' := (List.mergeSort_perm _ _).mem_iff.mp ha
  have hb' := (List.mergeSort_perm _ _).mem_iff.mp hb
  rw [List.mem_zipIdx_iff_getElem?] at ha' hb'
  simp only [List.getD_eq_getElem?_getD, ha', hb', Option.getD_some]
  simpa using hab

theorem firstPos_reverse_plus (o m cnt : Nat) (r : Row) (h : IsPlusRow o m cnt r) (hc : 1 ≤ cnt) :
    firstPos r.reverse = m - (o + cnt) := by
  obtain ⟨hlen, hle, _, hpos, hzero⟩ := h
  unfold firstPos
  have : r.reverse.findIdx? (fun x => decide (0 < x)) = some (m - (o + cnt)) := by
    rw [List.findIdx?_eq_some_iff_getElem]
    refine ⟨by rw [List.length_reverse, hlen]; omega, ?_, ?_⟩
    · have := hpos (o + cnt - 1) (by omega) (by omega)
      simp only [List.getElem_reverse, hlen, decide_eq_true_eq]
      have hidx : m - 1 - (m - (o + cnt)) = o + cnt - 1 := by omega
      rw [List.getD_eq_getElem?_getD, List.getElem?_eq_getElem (by omega)] at this
      simp only [Option.getD_some] at this
      simpa [hidx] using this
    · intro j hj
      have := hzero (m - 1 - j) (by omega) (by omega)
      rw [List.getD_eq_getElem?_getD, List.getElem?_eq_getElem (by omega)] at this
      simp only [Option.getD_some] at this
      simp only [List.getElem_reverse, hlen, decide_eq_true_eq, this]
      exact lt_irrefl 0
  rw [this]; rfl

/-- a plus row without positive weight makes the permanent vanish -/
theorem permC_zero_of_zero_row (N : Mat) (i : Nat) (hi : i < N.length)
    (hz : ∀ j, j < N.length → entry N i j = 0) : permC N = 0 := by
  rw [permC_row N i hi]
  apply List.sum_eq_zero
  intro x hx
  simp only [List.mem_map, List.mem_range] at hx
  obtain ⟨j, hj, rfl⟩ := hx
  rw [hz j hj]; ring

theorem reach_cnt_pos (o : Nat) (N : Mat) (cnts : List Nat) (hR : Reach o N cnts)
    (hP : permC N ≠ 0) (k : Nat) (hk : k < cnts.length) : 1 ≤ cnts.getD k 0 := by
  by_contra hlt
  have h0 : cnts.getD k 0 = 0 := by omega
  obtain ⟨hlen, _, h1, _, h3⟩ := hR.plus k hk
  apply hP
  apply permC_zero_of_zero_row N (o + k) (by rw [hR.hlen]; omega)
  intro j hj
  unfold entry
  rcases Nat.lt_or_ge j o with hjo | hjo
  · exact h1 j hjo
  · exact h3 j (by omega) hj

end Infretis.Perm
