import Infretis.Lemmas.PermLaplace
/-!
# Laws of the permanent-ratio specification `pSpec` (C02)

column sums, row sums, zeros, row rescaling, row permutation.
-/
namespace Infretis.Perm

theorem perm_getD_cons_eraseIdx {α : Type} (l : List α) (i : Nat) (hi : i < l.length) (d : α) :
    l.Perm (l.getD i d :: l.eraseIdx i) := by
  induction l generalizing i with
  | nil => simp at hi
  | cons a t ih =>
    cases i with
    | zero => simp
    | succ i =>
      simp only [List.length_cons, Nat.add_lt_add_iff_right] at hi
      simp only [List.getD_cons_succ, List.eraseIdx_cons_succ]
      exact (List.Perm.cons a (ih i hi)).trans (List.Perm.swap _ _ _)

theorem length_minor (W : Mat) (i j : Nat) (hi : i < W.length) :
    (minor W i j).length = W.length - 1 := by
  simp [minor, List.length_eraseIdx, hi]

/-- **Laplace expansion of `permC` along column `j`.** -/
theorem permC_col (W : Mat) (j : Nat) (hj : j < W.length) :
    permC W = ((List.range W.length).map (fun i => entry W i j * permC (minor W i j))).sum := by
  obtain ⟨k, hk⟩ : ∃ k, W.length = k + 1 := ⟨W.length - 1, by omega⟩
  unfold permC
  rw [hk, permN_col k j (by omega) W, sumPick_eq_sum_range _ W [], hk]
  congr 1
  apply List.map_congr_left
  intro i hi
  have hi' : i < W.length := by rw [hk]; exact List.mem_range.mp hi
  rw [length_minor W i j hi', hk]
  rfl

/-- **Laplace expansion of `permC` along row `i`.** -/
theorem permC_row (W : Mat) (i : Nat) (hi : i < W.length) :
    permC W = ((List.range W.length).map (fun j => entry W i j * permC (minor W i j))).sum := by
  obtain ⟨k, hk⟩ : ∃ k, W.length = k + 1 := ⟨W.length - 1, by omega⟩
  have hp := perm_getD_cons_eraseIdx W i hi []
  have hl : (W.eraseIdx i).length = k := by rw [List.length_eraseIdx, if_pos hi]; omega
  unfold permC
  rw [hk, permN_perm _ hp, permN_row k _ _ hl]
  congr 1
  apply List.map_congr_left
  intro j _
  rw [length_minor W i j hi, hk]
  rfl

theorem sum_map_div (l : List Nat) (f : Nat → Rat) (p : Rat) :
    (l.map (fun i => f i / p)).sum = (l.map f).sum / p := by
  induction l with
  | nil => simp
  | cons a t ih => simp only [List.map_cons, List.sum_cons, ih]; ring

/-- each column of the spec sums to one -/
theorem spec_col_sum (W : Mat) (j : Nat) (hj : j < W.length) (hW : permC W ≠ 0) :
    ((List.range W.length).map (fun i => pSpec W i j)).sum = 1 := by
  unfold pSpec
  rw [sum_map_div, ← permC_col W j hj]
  exact div_self hW

/-- each row of the spec sums to one -/
theorem spec_row_sum (W : Mat) (i : Nat) (hi : i < W.length) (hW : permC W ≠ 0) :
    ((List.range W.length).map (fun j => pSpec W i j)).sum = 1 := by
  unfold pSpec
  rw [sum_map_div, ← permC_row W i hi]
  exact div_self hW

theorem spec_zero_of_zero (W : Mat) (i j : Nat) (h : entry W i j = 0) : pSpec W i j = 0 := by
  simp [pSpec, h]

/-! ### row permutation -/

theorem eraseIdx_perm_of_perm {α : Type} {l₁ l₂ : List α} (h : l₁.Perm l₂) (k i : Nat)
    (hk : k < l₁.length) (hi : i < l₂.length) (d : α) (he : l₁.getD k d = l₂.getD i d) :
    (l₁.eraseIdx k).Perm (l₂.eraseIdx i) := by
  have h1 := perm_getD_cons_eraseIdx l₁ k hk d
  have h2 := perm_getD_cons_eraseIdx l₂ i hi d
  rw [he] at h1
  exact List.Perm.cons_inv ((h1.symm.trans h).trans h2)

/-- **Equivariance under reordering the rows (live paths).** -/
theorem spec_row_perm (W W' : Mat) (h : W'.Perm W) (k i j : Nat) (hk : k < W'.length)
    (hi : i < W.length) (he : W'.getD k [] = W.getD i []) : pSpec W' k j = pSpec W i j := by
  unfold pSpec
  have h1 : entry W' k j = entry W i j := by unfold entry; rw [he]
  have h2 : permC (minor W' k j) = permC (minor W i j) := by
    apply permC_perm
    unfold minor
    exact (eraseIdx_perm_of_perm h k i hk hi [] he).map _
  rw [h1, h2, permC_perm h]

/-! ### row rescaling -/

def scaleRow (c : Rat) (r : Row) : Row := r.map (fun x => c * x)

theorem getD_scaleRow (c : Rat) (r : Row) (j : Nat) : (scaleRow c r).getD j 0 = c * r.getD j 0 := by
  simp only [scaleRow, List.getD_eq_getElem?_getD, List.getElem?_map]
  cases r[j]? <;> simp

theorem eraseIdx_scaleRow (c : Rat) (r : Row) (j : Nat) :
    (scaleRow c r).eraseIdx j = scaleRow c (r.eraseIdx j) := by
  simp [scaleRow, List.eraseIdx_map]

theorem permN_scale_head (k : Nat) (c : Rat) (r : Row) (rest : Mat) (hl : rest.length = k) :
    permN (k + 1) (scaleRow c r :: rest) = c * permN (k + 1) (r :: rest) := by
  rw [permN_row k _ _ hl, permN_row k _ _ hl, ← List.sum_map_mul_left]
  congr 1
  apply List.map_congr_left
  intro j _
  rw [getD_scaleRow]; ring

theorem permC_scale_mid (c : Rat) (A B : Mat) (r : Row) :
    permC (A ++ scaleRow c r :: B) = c * permC (A ++ r :: B) := by
  unfold permC
  have hl : (A ++ scaleRow c r :: B).length = (A ++ B).length + 1 := by simp; omega
  have hl' : (A ++ r :: B).length = (A ++ B).length + 1 := by simp; omega
  rw [hl, hl', permN_perm _ (List.perm_middle (a := scaleRow c r) (l₁ := A) (l₂ := B)),
    permN_perm _ (List.perm_middle (a := r) (l₁ := A) (l₂ := B)), permN_scale_head _ _ _ _ rfl]

theorem dropCol_append (j : Nat) (A B : Mat) : dropCol j (A ++ B) = dropCol j A ++ dropCol j B := by
  simp [dropCol]

theorem getD_append_mid {α : Type} (A B : List α) (x d : α) :
    (A ++ x :: B).getD A.length d = x := by
  simp [List.getD_eq_getElem?_getD, List.getElem?_append_right (Nat.le_refl _)]

theorem getD_append_after {α : Type} (A B : List α) (x d : α) (t : Nat) :
    (A ++ x :: B).getD (A.length + (t + 1)) d = B.getD t d := by
  simp [List.getD_eq_getElem?_getD, List.getElem?_append_right (Nat.le_add_right _ _)]

theorem eraseIdx_append_mid {α : Type} (A B : List α) (x : α) :
    (A ++ x :: B).eraseIdx A.length = A ++ B := by
  rw [List.eraseIdx_append_of_length_le (Nat.le_refl _)]; simp

/-- **Rescaling one path's weights leaves the spec unchanged.** -/
theorem spec_row_rescale (A B : Mat) (r : Row) (c : Rat) (hc : c ≠ 0) (i j : Nat) :
    pSpec (A ++ scaleRow c r :: B) i j = pSpec (A ++ r :: B) i j := by
  unfold pSpec
  rw [permC_scale_mid]
  rcases Nat.lt_trichotomy i A.length with hlt | heq | hgt
  · -- a row of A
    have e1 : entry (A ++ scaleRow c r :: B) i j = entry (A ++ r :: B) i j := by
      simp [entry, List.getD_eq_getElem?_getD, List.getElem?_append_left hlt]
    have e2 : permC (minor (A ++ scaleRow c r :: B) i j) = c * permC (minor (A ++ r :: B) i j) := by
      simp only [minor_eq, List.eraseIdx_append_of_lt_length hlt, dropCol_append]
      simp only [dropCol, List.map_cons, eraseIdx_scaleRow]
      exact permC_scale_mid _ _ _ _
    rw [e1, e2]
    field_simp
  · subst heq
    have e1 : entry (A ++ scaleRow c r :: B) A.length j = c * entry (A ++ r :: B) A.length j := by
      simp only [entry, getD_append_mid, getD_scaleRow]
    have e2 : minor (A ++ scaleRow c r :: B) A.length j = minor (A ++ r :: B) A.length j := by
      simp only [minor, eraseIdx_append_mid]
    rw [e1, e2]
    field_simp
  · obtain ⟨t, ht⟩ : ∃ t, i = A.length + (t + 1) := ⟨i - A.length - 1, by omega⟩
    subst ht
    have e1 : entry (A ++ scaleRow c r :: B) (A.length + (t + 1)) j
        = entry (A ++ r :: B) (A.length + (t + 1)) j := by
      simp only [entry, getD_append_after]
    have e2 : permC (minor (A ++ scaleRow c r :: B) (A.length + (t + 1)) j)
        = c * permC (minor (A ++ r :: B) (A.length + (t + 1)) j) := by
      simp only [minor_eq, List.eraseIdx_append_of_length_le (Nat.le_add_right _ _),
        Nat.add_sub_cancel_left, List.eraseIdx_cons_succ, dropCol_append]
      simp only [dropCol, List.map_cons, eraseIdx_scaleRow]
      exact permC_scale_mid _ _ _ _
    rw [e1, e2]
    field_simp

end Infretis.Perm
