import Infretis.Lemmas.Perm
import Mathlib.Algebra.Order.Field.Rat
import Mathlib.Algebra.BigOperators.Group.List.Basic
import Mathlib.Algebra.BigOperators.Ring.List
import Mathlib.Algebra.Order.BigOperators.GroupWithZero.List
import Mathlib.Tactic.Ring
import Mathlib.Tactic.FieldSimp
import Mathlib.Tactic.Linarith
/-!
# `quick_prob` on 0/1 staircase matrices equals the permanent-ratio specification (C02)
-/
namespace Infretis.Perm

/-- a row of width `n` with `cnt` leading ones -/
def stairRow (n cnt : Nat) : Row := (List.range n).map (fun c => if c < cnt then (1:Rat) else 0)

/-- the square staircase matrix whose row `i` has `cnts[i]` leading ones -/
def stair (cnts : List Nat) : Mat := cnts.map (stairRow cnts.length)

/-- number of rows with a one in column `c` minus the number of columns to the right of `c` -/
def Dnum (cnts : List Nat) (c : Nat) : Rat :=
  ((cnts.filter (fun k => c < k)).length : Rat) - ((cnts.length : Rat) - 1 - c)

/-- `#{k ∈ l | c < k}` as a sum of indicators -/
def cntGt (l : List Nat) (c : Nat) : Rat := (l.map (fun k => if c < k then (1:Rat) else 0)).sum

theorem filter_length_eq_cntGt (l : List Nat) (c : Nat) :
    ((l.filter (fun k => c < k)).length : Rat) = cntGt l c := by
  induction l with
  | nil => simp [cntGt]
  | cons x xs ih =>
    unfold cntGt at ih ⊢
    by_cases h : c < x
    · simp [h, ← ih]; ring
    · simp [h, ← ih]

theorem Dnum_eq (cnts : List Nat) (c : Nat) :
    Dnum cnts c = cntGt cnts c - ((cnts.length : Rat) - 1 - c) := by
  unfold Dnum; rw [filter_length_eq_cntGt]

theorem cntGt_cons (k : Nat) (ks : List Nat) (c : Nat) :
    cntGt (k :: ks) c = (if c < k then 1 else 0) + cntGt ks c := by
  simp [cntGt]

theorem cntGt_perm {l₁ l₂ : List Nat} (h : l₁.Perm l₂) (c : Nat) : cntGt l₁ c = cntGt l₂ c := by
  unfold cntGt; exact (h.map _).sum_eq

theorem sumPick_congr_perm {α : Type} (f g : α → List α → Rat) (l : List α)
    (h : ∀ x xs, (x :: xs).Perm l → f x xs = g x xs) : sumPick f l = sumPick g l := by
  induction l generalizing f g with
  | nil => rfl
  | cons x xs ih =>
    simp only [sumPick]
    rw [h x xs (List.Perm.refl _)]
    rw [ih (fun y ys => f y (x :: ys)) (fun y ys => g y (x :: ys))]
    intro y ys hp
    exact h y (x :: ys) ((List.Perm.swap x y ys).trans (hp.cons x))

theorem sumPick_const {α : Type} (g : α → Rat) (l : List α) :
    sumPick (fun x _ => g x) l = (l.map g).sum := by
  induction l with
  | nil => rfl
  | cons x xs ih => simp only [sumPick, List.map_cons, List.sum_cons]; rw [ih]

theorem stairRow_getD (n k c : Nat) (h : c < n) :
    (stairRow n k).getD c 0 = if c < k then 1 else 0 := by
  simp [stairRow, List.getD_eq_getElem?_getD, h]

/-- **(A)** permanent of a staircase: product of the Hall numbers. -/
theorem permN_stair (w m : Nat) (cnts : List Nat) (hlen : cnts.length = m) (hw : m ≤ w) :
    permN m (cnts.map (stairRow w)) = ((List.range m).map (Dnum cnts)).prod := by
  induction m generalizing cnts with
  | zero => simp [permN]
  | succ m ih =>
    simp only [permN]
    rw [sumPick_map]
    rw [sumPick_congr_perm _ (fun k _ => (if m < k then 1 else 0) *
        ((List.range m).map (Dnum cnts)).prod) cnts]
    · rw [sumPick_const, List.sum_map_mul_right, List.range_succ, List.map_append,
        List.prod_append]
      have : Dnum cnts m = cntGt cnts m := by
        rw [Dnum_eq, hlen]; push_cast; ring
      simp only [List.map_cons, List.map_nil, List.prod_cons, List.prod_nil, mul_one, this]
      unfold cntGt; ring
    · intro k ks hp
      have hl : ks.length = m := by
        have := hp.length_eq; simp only [List.length_cons] at this; omega
      rw [stairRow_getD w k m (by omega), ih ks hl (by omega)]
      by_cases hk : m < k
      · congr 2
        apply List.map_congr_left
        intro c hc
        have hc : c < m := List.mem_range.mp hc
        rw [Dnum_eq, Dnum_eq, ← cntGt_perm hp c, cntGt_cons, hl, hlen]
        have : c < k := by omega
        simp only [this, if_true]; push_cast; ring
      · simp [hk]

theorem prodL_eq_prod (l : List Rat) : prodL l = l.prod := by
  induction l with
  | nil => rfl
  | cons x xs ih => simp only [prodL, List.prod_cons, ih]

/-- (A) with the model's `prodL` -/
theorem permN_stair_prodL (w m : Nat) (cnts : List Nat) (hlen : cnts.length = m) (hw : m ≤ w) :
    permN m (cnts.map (stairRow w)) = prodL ((List.range m).map (Dnum cnts)) := by
  rw [prodL_eq_prod]; exact permN_stair w m cnts hlen hw

/-! ## (C) the loop of `quick_prob` on a staircase -/

/-- remaining probability `total_traj_prob[r]` of a row with `k` ones once the columns
    `n, …, m-1` have been processed: `∏_{n ≤ c < m} (1 - [c < k] / D c)` -/
def tRem (D : Nat → Rat) (m k n : Nat) : Rat :=
  ((List.range' n (m - n)).map (fun c => 1 - (if c < k then 1 else 0) / D c)).prod

theorem tRem_ge (D : Nat → Rat) (m k n : Nat) (h : m ≤ n) : tRem D m k n = 1 := by
  have : m - n = 0 := by omega
  simp [tRem, this]

theorem tRem_step (D : Nat → Rat) (m k n : Nat) (h : n < m) :
    tRem D m k n = (1 - (if n < k then 1 else 0) / D n) * tRem D m k (n + 1) := by
  have : m - n = (m - (n + 1)) + 1 := by omega
  simp only [tRem]
  rw [this, List.range'_succ, List.map_cons, List.prod_cons]

theorem tRem_of_le (D : Nat → Rat) (m k n : Nat) (h : k ≤ n) : tRem D m k n = 1 := by
  unfold tRem
  apply List.prod_eq_one
  intro x hx
  obtain ⟨c, hc, rfl⟩ := List.mem_map.mp hx
  have : ¬ c < k := by
    have := (List.mem_range'_1.mp hc).1; omega
  simp [this]

theorem tRem_nonneg (D : Nat → Rat) (m k n : Nat) (hD : ∀ c, n ≤ c → c < m → 1 ≤ D c) :
    0 ≤ tRem D m k n := by
  unfold tRem
  apply List.prod_nonneg
  intro x hx
  obtain ⟨c, hc, rfl⟩ := List.mem_map.mp hx
  have hc' := List.mem_range'_1.mp hc
  have h1 : 1 ≤ D c := hD c hc'.1 (by omega)
  have h0 : 0 < D c := by linarith
  by_cases hk : c < k
  · simp only [hk, if_true]
    rw [sub_nonneg, div_le_iff₀ h0, one_mul]; exact h1
  · simp [hk]

theorem sum_map_sub' {α : Type} (l : List α) (f g : α → Rat) :
    (l.map (fun k => f k - g k)).sum = (l.map f).sum - (l.map g).sum := by
  induction l with
  | nil => simp
  | cons x xs ih => simp only [List.map_cons, List.sum_cons, ih]; ring

/-- the normaliser of column `c` is the Hall number `Dnum cnts c` -/
theorem sum_tRem (cnts : List Nat)
    (hne : ∀ c, c < cnts.length → Dnum cnts c ≠ 0) (d c : Nat) (hc : c + d + 1 = cnts.length) :
    (cnts.map (fun k => (if c < k then 1 else 0) * tRem (Dnum cnts) cnts.length k (c + 1))).sum
      = Dnum cnts c := by
  induction d generalizing c with
  | zero =>
    have h1 : ∀ k, tRem (Dnum cnts) cnts.length k (c + 1) = 1 :=
      fun k => tRem_ge _ _ _ _ (by omega)
    simp only [h1, mul_one]
    rw [Dnum_eq, ← hc]; unfold cntGt; push_cast; ring
  | succ d ih =>
    have ih' := ih (c + 1) (by omega)
    have hD : Dnum cnts (c + 1) ≠ 0 := hne _ (by omega)
    have hpt : ∀ k, (if c < k then (1:Rat) else 0) * tRem (Dnum cnts) cnts.length k (c + 1)
        = (if c < k then 1 else 0) - (if c + 1 < k then 1 else 0)
          + (1 - 1 / Dnum cnts (c + 1)) *
            ((if c + 1 < k then 1 else 0) * tRem (Dnum cnts) cnts.length k (c + 1 + 1)) := by
      intro k
      by_cases h1 : c + 1 < k
      · have h0 : c < k := by omega
        rw [tRem_step _ _ _ _ (by omega)]
        simp only [h0, h1, if_true]; ring
      · by_cases h0 : c < k
        · rw [tRem_of_le _ _ _ _ (by omega)]
          simp [h0, h1]
        · simp [h0, h1]
    simp only [hpt]
    rw [List.sum_map_add, sum_map_sub', List.sum_map_mul_left, ih']
    have e : (1 - 1 / Dnum cnts (c + 1)) * Dnum cnts (c + 1) = Dnum cnts (c + 1) - 1 := by
      field_simp
    rw [e, Dnum_eq, Dnum_eq]
    unfold cntGt
    push_cast; ring

theorem quickCol_map {α : Type} (l : List α) (a b : α → Rat) (s : Rat)
    (hs : (l.map (fun k => a k * b k)).sum = s) (hs0 : s ≠ 0)
    (hcl : ∀ k ∈ l, 0 ≤ b k - a k * b k / s) :
    quickCol (l.map a) (l.map b)
      = (l.map (fun k => a k * b k / s), l.map (fun k => b k - a k * b k / s)) := by
  unfold quickCol
  have hz : List.zipWith (fun c x => c * x) (l.map a) (l.map b) = l.map (fun k => a k * b k) := by
    simp [List.zipWith_map, List.zipWith_self]
  simp only [hz, hs, if_neg hs0, List.map_map]
  refine Prod.ext rfl ?_
  simp only [List.zipWith_map, List.zipWith_self, Function.comp]
  apply List.map_congr_left
  intro k hk
  have := hcl k hk
  rw [if_neg (not_lt.mpr this)]

/-- column `c` of the output of `quick_prob` on a staircase -/
def qcol (cnts : List Nat) (c : Nat) : List Rat :=
  cnts.map (fun k => (if c < k then 1 else 0) * tRem (Dnum cnts) cnts.length k (c + 1)
    / Dnum cnts c)

theorem colOf_stair (cnts : List Nat) (c : Nat) (hc : c < cnts.length) :
    (colOf (stair cnts) c).map indicator = cnts.map (fun k => if c < k then (1:Rat) else 0) := by
  unfold colOf stair
  rw [List.map_map, List.map_map]
  apply List.map_congr_left
  intro k _
  simp only [Function.comp, stairRow_getD _ _ _ hc]
  by_cases h : c < k <;> simp [h, indicator]

/-- **(C)** loop invariant of `quick_prob` on a staircase satisfying Hall's condition -/
theorem quickCols_stair (cnts : List Nat) (hall : ∀ c, c < cnts.length → 1 ≤ Dnum cnts c)
    (n : Nat) (hn : n ≤ cnts.length) :
    quickCols (stair cnts) n (cnts.map (fun k => tRem (Dnum cnts) cnts.length k n))
      = ((List.range n).map (qcol cnts)).reverse := by
  induction n with
  | zero => simp [quickCols]
  | succ n ih =>
    have hn' : n < cnts.length := by omega
    have hD1 : 1 ≤ Dnum cnts n := hall n hn'
    have hD0 : 0 < Dnum cnts n := by linarith
    have hne : ∀ c, c < cnts.length → Dnum cnts c ≠ 0 := by
      intro c hc; have := hall c hc; intro h; rw [h] at this; linarith
    have hq := quickCol_map cnts (fun k => if n < k then (1:Rat) else 0)
      (fun k => tRem (Dnum cnts) cnts.length k (n + 1)) (Dnum cnts n)
      (sum_tRem cnts hne (cnts.length - n - 1) n (by omega)) (ne_of_gt hD0)
      (by
        intro k _
        have ht : 0 ≤ tRem (Dnum cnts) cnts.length k (n + 1) :=
          tRem_nonneg _ _ _ _ (fun c _ hc => hall c hc)
        by_cases hk : n < k
        · simp only [hk, if_true, one_mul]
          rw [sub_nonneg, div_le_iff₀ hD0]
          nlinarith
        · simp [hk, ht])
    simp only [quickCols]
    rw [colOf_stair cnts n hn', hq]
    simp only
    have ht : (cnts.map fun k => tRem (Dnum cnts) cnts.length k (n + 1)
          - (if n < k then (1:Rat) else 0) * tRem (Dnum cnts) cnts.length k (n + 1) / Dnum cnts n)
        = cnts.map (fun k => tRem (Dnum cnts) cnts.length k n) := by
      apply List.map_congr_left
      intro k _
      rw [tRem_step _ _ _ n hn']; ring
    rw [ht, ih (by omega), List.range_succ, List.map_append, List.reverse_append]
    rfl

theorem stair_length (cnts : List Nat) : (stair cnts).length = cnts.length := by simp [stair]

theorem ncols_stair (cnts : List Nat) (h : cnts ≠ []) : ncols (stair cnts) = cnts.length := by
  cases cnts with
  | nil => exact absurd rfl h
  | cons k ks => simp [ncols, stair, stairRow]

/-- closed form of `quick_prob` on a staircase satisfying Hall's condition -/
theorem quickProb_stair (cnts : List Nat) (hall : ∀ c, c < cnts.length → 1 ≤ Dnum cnts c) :
    quickProb (stair cnts) = (List.range cnts.length).map (fun r =>
      (List.range cnts.length).map (fun c => (qcol cnts c).getD r 0)) := by
  by_cases h : cnts = []
  · subst h; rfl
  · unfold quickProb
    simp only [stair_length, ncols_stair cnts h]
    have ht : List.replicate cnts.length (1:Rat)
        = cnts.map (fun k => tRem (Dnum cnts) cnts.length k cnts.length) := by
      simp only [tRem_ge _ _ _ _ (le_refl _)]
      exact List.map_const'.symm
    rw [ht, quickCols_stair cnts hall _ (le_refl _), List.reverse_reverse]
    simp only [List.map_map]
    rfl

/-! ## (B) the minor of a staircase is a staircase; the permanent ratio -/

theorem eraseIdx_map' {α β : Type} (f : α → β) (l : List α) (n : Nat) :
    (l.map f).eraseIdx n = (l.eraseIdx n).map f := by
  induction l generalizing n with
  | nil => rfl
  | cons x xs ih => cases n with
    | zero => rfl
    | succ n => simp only [List.map_cons, List.eraseIdx_cons_succ, ih]

theorem sum_map_eraseIdx {α : Type} (f : α → Rat) (l : List α) (r : Nat) (hr : r < l.length) :
    (l.map f).sum = f l[r] + ((l.eraseIdx r).map f).sum := by
  induction l generalizing r with
  | nil => simp at hr
  | cons x xs ih => cases r with
    | zero => simp
    | succ r =>
      simp only [List.length_cons, Nat.add_lt_add_iff_right] at hr
      simp only [List.map_cons, List.sum_cons, List.eraseIdx_cons_succ, List.getElem_cons_succ,
        ih r hr]
      ring

theorem map_succ_range' {β : Type} (H : Nat → β) (s n : Nat) :
    (List.range' s n).map (fun i => H (i + 1)) = (List.range' (s + 1) n).map H := by
  induction n generalizing s with
  | zero => rfl
  | succ n ih => simp only [List.range'_succ, List.map_cons, ih]

theorem prod_map_div (l : List Nat) (f g : Nat → Rat) :
    (l.map f).prod / (l.map g).prod = (l.map (fun i => f i / g i)).prod := by
  induction l with
  | nil => simp
  | cons x xs ih => simp only [List.map_cons, List.prod_cons, ← ih, mul_div_mul_comm]

/-- the count of a row after deleting column `c` -/
def shiftCnt (c k : Nat) : Nat := if c < k then k - 1 else k

/-- the counts of the minor of a staircase -/
def minorCnts (cnts : List Nat) (r c : Nat) : List Nat := (cnts.eraseIdx r).map (shiftCnt c)

theorem stairRow_eraseIdx (m k c : Nat) (hc : c < m) :
    (stairRow m k).eraseIdx c = stairRow (m - 1) (shiftCnt c k) := by
  apply List.ext_getElem?
  intro i
  rw [List.getElem?_eraseIdx]
  unfold stairRow shiftCnt
  simp only [List.getElem?_map]
  by_cases hi : i < m - 1
  · rw [List.getElem?_range hi]
    by_cases hic : i < c
    · rw [if_pos hic, List.getElem?_range (by omega)]
      simp only [Option.map_some]
      congr 1
      by_cases h1 : c < k
      · have h2 : i < k := by omega
        have h3 : i < k - 1 := by omega
        simp [h1, h2, h3]
      · simp [h1]
    · rw [if_neg hic, List.getElem?_range (by omega)]
      simp only [Option.map_some]
      congr 1
      by_cases h1 : c < k
      · by_cases h2 : i + 1 < k
        · have h3 : i < k - 1 := by omega
          simp [h1, h2, h3]
        · have h3 : ¬ i < k - 1 := by omega
          simp [h1, h2, h3]
      · have h2 : ¬ i + 1 < k := by omega
        have h3 : ¬ i < k := by omega
        simp [h1, h2, h3]
  · have e1 : (List.range (m - 1))[i]? = none := by simp; omega
    have e2 : (List.range m)[i + 1]? = none := by simp; omega
    have e3 : ¬ i < c := by omega
    simp [e1, e2, e3]

theorem minor_stair (cnts : List Nat) (r c : Nat) (hc : c < cnts.length) :
    minor (stair cnts) r c = (minorCnts cnts r c).map (stairRow (cnts.length - 1)) := by
  unfold minor stair minorCnts
  rw [eraseIdx_map', List.map_map, List.map_map]
  apply List.map_congr_left
  intro k _
  simp only [Function.comp, stairRow_eraseIdx _ _ _ hc]

theorem minorCnts_length (cnts : List Nat) (r c : Nat) (hr : r < cnts.length) :
    (minorCnts cnts r c).length + 1 = cnts.length := by
  simp only [minorCnts, List.length_map, List.length_eraseIdx_of_lt hr]; omega

theorem Dnum_minor_lt (cnts : List Nat) (r c c' : Nat) (hr : r < cnts.length)
    (hck : c < cnts[r]) (h : c' < c) :
    Dnum (minorCnts cnts r c) c' = Dnum cnts c' := by
  have hl := congrArg (Nat.cast : Nat → Rat) (minorCnts_length cnts r c hr)
  push_cast at hl
  rw [Dnum_eq, Dnum_eq]
  have h1 : cntGt (minorCnts cnts r c) c'
      = ((cnts.eraseIdx r).map (fun k => if c' < k then (1:Rat) else 0)).sum := by
    unfold cntGt minorCnts
    rw [List.map_map]
    congr 1
    apply List.map_congr_left
    intro k _
    simp only [Function.comp, shiftCnt]
    by_cases h1 : c < k
    · have h2 : c' < k - 1 := by omega
      have h3 : c' < k := by omega
      simp [h1, h2, h3]
    · simp [h1]
  have h2 : cntGt cnts c' = 1 + ((cnts.eraseIdx r).map (fun k => if c' < k then (1:Rat) else 0)).sum := by
    unfold cntGt
    rw [sum_map_eraseIdx _ cnts r hr]
    have : c' < cnts[r] := by omega
    simp [this]
  rw [h1, h2]; linarith

theorem Dnum_minor_ge (cnts : List Nat) (r c c' : Nat) (hr : r < cnts.length) (h : c ≤ c') :
    Dnum (minorCnts cnts r c) c'
      = Dnum cnts (c' + 1) - (if c' + 1 < cnts[r] then 1 else 0) := by
  have hl := congrArg (Nat.cast : Nat → Rat) (minorCnts_length cnts r c hr)
  push_cast at hl
  rw [Dnum_eq, Dnum_eq]
  have h1 : cntGt (minorCnts cnts r c) c'
      = ((cnts.eraseIdx r).map (fun k => if c' + 1 < k then (1:Rat) else 0)).sum := by
    unfold cntGt minorCnts
    rw [List.map_map]
    congr 1
    apply List.map_congr_left
    intro k _
    simp only [Function.comp, shiftCnt]
    by_cases h1 : c < k
    · by_cases h2 : c' + 1 < k
      · have h3 : c' < k - 1 := by omega
        simp [h1, h2, h3]
      · have h3 : ¬ c' < k - 1 := by omega
        simp [h1, h2, h3]
    · have h2 : ¬ c' + 1 < k := by omega
      have h3 : ¬ c' < k := by omega
      simp [h1, h2, h3]
  have h2 : cntGt cnts (c' + 1) = (if c' + 1 < cnts[r] then 1 else 0)
      + ((cnts.eraseIdx r).map (fun k => if c' + 1 < k then (1:Rat) else 0)).sum := by
    unfold cntGt
    rw [sum_map_eraseIdx _ cnts r hr]
  rw [h1, h2]; push_cast; linarith

theorem permC_stair (cnts : List Nat) :
    permC (stair cnts) = ((List.range cnts.length).map (Dnum cnts)).prod := by
  unfold permC
  rw [stair_length]
  exact permN_stair _ _ cnts rfl (le_refl _)

/-- permanent of the minor of a staircase at a position holding a one -/
theorem permC_minor_stair (cnts : List Nat) (r c : Nat) (hr : r < cnts.length)
    (hck : c < cnts[r]) (hc : c < cnts.length) :
    permC (minor (stair cnts) r c)
      = ((List.range c).map (Dnum cnts)).prod *
        ((List.range' (c + 1) (cnts.length - (c + 1))).map
          (fun i => Dnum cnts i - (if i < cnts[r] then 1 else 0))).prod := by
  have hl := minorCnts_length cnts r c hr
  unfold permC
  rw [minor_stair cnts r c hc]
  have hlen : ((minorCnts cnts r c).map (stairRow (cnts.length - 1))).length
      = cnts.length - 1 := by rw [List.length_map]; omega
  rw [hlen, permN_stair (cnts.length - 1) (cnts.length - 1) (minorCnts cnts r c) (by omega)
    (le_refl _)]
  have hsplit : List.range (cnts.length - 1)
      = List.range' 0 c ++ List.range' c (cnts.length - (c + 1)) := by
    rw [List.range_eq_range']
    have : cnts.length - 1 = c + (cnts.length - (c + 1)) := by omega
    rw [this, ← List.range'_append_1]; simp
  rw [hsplit, List.map_append, List.prod_append, List.range_eq_range']
  congr 1
  · congr 1
    apply List.map_congr_left
    intro c' hc'
    exact Dnum_minor_lt cnts r c c' hr hck (by have := List.mem_range'_1.mp hc'; omega)
  · rw [← map_succ_range']
    congr 1
    apply List.map_congr_left
    intro c' hc'
    exact Dnum_minor_ge cnts r c c' hr (List.mem_range'_1.mp hc').1

/-- **(B)** the permanent-ratio specification on a staircase satisfying Hall's condition -/
theorem pSpec_stair (cnts : List Nat) (hall : ∀ c, c < cnts.length → 1 ≤ Dnum cnts c)
    (r c : Nat) (hr : r < cnts.length) (hc : c < cnts.length) :
    pSpec (stair cnts) r c
      = (if c < cnts[r] then 1 else 0) * tRem (Dnum cnts) cnts.length cnts[r] (c + 1)
        / Dnum cnts c := by
  have hentry : entry (stair cnts) r c = if c < cnts[r] then 1 else 0 := by
    unfold entry stair
    have : (List.map (stairRow cnts.length) cnts).getD r [] = stairRow cnts.length cnts[r] := by
      simp [List.getD_eq_getElem?_getD, hr]
    rw [this]
    exact stairRow_getD _ _ _ hc
  unfold pSpec
  rw [hentry]
  by_cases hck : c < cnts[r]
  · simp only [hck, if_true, one_mul]
    rw [permC_minor_stair cnts r c hr hck hc, permC_stair]
    have hsplit : List.range cnts.length
        = List.range' 0 c ++ c :: List.range' (c + 1) (cnts.length - (c + 1)) := by
      rw [List.range_eq_range', ← List.range'_succ]
      have : cnts.length = c + (cnts.length - (c + 1) + 1) := by omega
      conv_lhs => rw [this]
      rw [← List.range'_append_1]; simp
    rw [hsplit, List.map_append, List.prod_append, List.map_cons, List.prod_cons,
      ← List.range_eq_range']
    have hA : 0 < ((List.range c).map (Dnum cnts)).prod := by
      apply List.prod_pos
      intro x hx
      obtain ⟨i, hi, rfl⟩ := List.mem_map.mp hx
      have := hall i (by have := List.mem_range.mp hi; omega); linarith
    have hPD : 0 < ((List.range' (c + 1) (cnts.length - (c + 1))).map (Dnum cnts)).prod := by
      apply List.prod_pos
      intro x hx
      obtain ⟨i, hi, rfl⟩ := List.mem_map.mp hx
      have := hall i (by have := List.mem_range'_1.mp hi; omega); linarith
    have hDc : 0 < Dnum cnts c := by have := hall c hc; linarith
    have hT : tRem (Dnum cnts) cnts.length cnts[r] (c + 1)
        = ((List.range' (c + 1) (cnts.length - (c + 1))).map
            (fun i => Dnum cnts i - (if i < cnts[r] then 1 else 0))).prod
          / ((List.range' (c + 1) (cnts.length - (c + 1))).map (Dnum cnts)).prod := by
      rw [prod_map_div]
      unfold tRem
      congr 1
      apply List.map_congr_left
      intro i hi
      have : 0 < Dnum cnts i := by
        have := hall i (by have := List.mem_range'_1.mp hi; omega); linarith
      field_simp
    rw [hT]
    field_simp
  · simp [hck]

/-! ## Main theorem -/

/-- entrywise: `quick_prob` on a Hall staircase is the permanent ratio -/
theorem qcol_eq_pSpec (cnts : List Nat) (hall : ∀ c, c < cnts.length → 1 ≤ Dnum cnts c)
    (r c : Nat) (hr : r < cnts.length) (hc : c < cnts.length) :
    (qcol cnts c).getD r 0 = pSpec (stair cnts) r c := by
  rw [pSpec_stair cnts hall r c hr hc]
  unfold qcol
  simp [List.getD_eq_getElem?_getD, hr]

/-- **`quick_prob` equals the permanent-ratio specification on every 0/1 staircase matrix
    that satisfies Hall's condition** (rows in any order). -/
theorem quickProb_stair_eq_spec (cnts : List Nat)
    (hall : ∀ c, c < cnts.length → 1 ≤ Dnum cnts c) :
    quickProb (stair cnts) = specMat (stair cnts) := by
  rw [quickProb_stair cnts hall]
  unfold specMat
  rw [stair_length]
  apply List.map_congr_left
  intro r hr
  apply List.map_congr_left
  intro c hc
  exact qcol_eq_pSpec cnts hall r c (List.mem_range.mp hr) (List.mem_range.mp hc)

/-- entrywise form of the main theorem -/
theorem quickProb_stair_entry (cnts : List Nat)
    (hall : ∀ c, c < cnts.length → 1 ≤ Dnum cnts c)
    (r c : Nat) (hr : r < cnts.length) (hc : c < cnts.length) :
    entry (quickProb (stair cnts)) r c = pSpec (stair cnts) r c := by
  rw [quickProb_stair_eq_spec cnts hall]
  unfold entry specMat
  simp [stair_length, List.getD_eq_getElem?_getD, hr, hc]

/-! ### non-vacuity -/

example : ∀ c, c < [1, 2, 4, 4].length → 1 ≤ Dnum [1, 2, 4, 4] c := by decide +kernel
example : quickProb (stair [1, 2, 4, 4]) = specMat (stair [1, 2, 4, 4]) := by decide +kernel
example : quickProb (stair [2, 2, 3]) = [[1/2, 1/2, 0], [1/2, 1/2, 0], [0, 0, 1]] := by decide +kernel
example : quickProb (stair [3, 1, 3]) = specMat (stair [3, 1, 3]) :=
  quickProb_stair_eq_spec _ (by decide +kernel)
/-- Hall's condition is needed: -/
example : quickProb (stair [1, 1]) ≠ specMat (stair [1, 1]) := by decide +kernel

end Infretis.Perm
