import Infretis.Model.Readers
/-!
# Lemmas for C13, part 1: text level (`readline`, `lines`, `split`) and the spec functions.
-/
namespace Infretis.Readers

/-! ### readline / lines -/

theorem readline_fst_nil (s : List Char) : (readline s).1 = [] → s = [] := by
  cases s with
  | nil => intro _; rfl
  | cons c cs =>
    simp only [readline]
    split <;> simp

/-- `lines` is the iteration of `readline` until it returns the empty string -/
theorem lines_eq_readline (s : List Char) :
    lines s = if (readline s).1 = [] then [] else (readline s).1 :: lines (readline s).2 := by
  induction s with
  | nil => simp [lines, readline]
  | cons c cs ih =>
    by_cases hc : c = '\n'
    · simp [lines, readline, hc]
    · simp only [lines, readline, hc, if_false]
      rw [ih]
      by_cases h0 : (readline cs).1 = []
      · have := readline_fst_nil cs h0
        subst this
        simp [readline, lines]
      · simp [h0]

/-- a complete line: a newline-free body followed by one newline -/
def IsLine (l : Line) : Prop := ∃ body, l = body ++ ['\n'] ∧ '\n' ∉ body

theorem IsLine.endsNl {l : Line} (h : IsLine l) : endsNl l = true := by
  obtain ⟨b, rfl, _⟩ := h
  simp [Readers.endsNl]

theorem IsLine.ne_nil {l : Line} (h : IsLine l) : l ≠ [] := by
  obtain ⟨b, rfl, _⟩ := h
  simp

theorem IsLine.length_pos {l : Line} (h : IsLine l) : 0 < l.length := by
  obtain ⟨b, rfl, _⟩ := h
  simp

theorem lines_body_nl (body : List Char) (h : '\n' ∉ body) (s : List Char) :
    lines (body ++ '\n' :: s) = (body ++ ['\n']) :: lines s := by
  induction body with
  | nil => simp [lines]
  | cons c b ih =>
    have hc : c ≠ '\n' := by intro e; apply h; simp [e]
    have hb : '\n' ∉ b := by intro e; apply h; simp [e]
    simp only [List.cons_append, lines, hc, if_false, ih hb]

theorem lines_line_append {l : Line} (h : IsLine l) (s : List Char) :
    lines (l ++ s) = l :: lines s := by
  obtain ⟨b, rfl, hb⟩ := h
  simpa using lines_body_nl b hb s

theorem lines_noNl (p : List Char) (h : '\n' ∉ p) (hp : p ≠ []) : lines p = [p] := by
  induction p with
  | nil => exact absurd rfl hp
  | cons c b ih =>
    have hc : c ≠ '\n' := by intro e; apply h; simp [e]
    have hb : '\n' ∉ b := by intro e; apply h; simp [e]
    cases b with
    | nil => simp [lines, hc]
    | cons d b' =>
      have := ih hb (by simp)
      simp only [lines, hc, if_false] at this ⊢
      rw [this]

theorem lines_flatten_append (fl : List Line) (h : ∀ l ∈ fl, IsLine l) (s : List Char) :
    lines (fl.flatten ++ s) = fl ++ lines s := by
  induction fl with
  | nil => simp
  | cons l fl ih =>
    have hl := h l (by simp)
    have hfl : ∀ x ∈ fl, IsLine x := fun x hx => h x (by simp [hx])
    simp only [List.flatten_cons, List.append_assoc, List.cons_append]
    rw [lines_line_append hl, ih hfl]

/-- a strict prefix of a sequence of complete lines: some complete lines, then a newline-free rest -/
theorem take_flatten_lines (fl : List Line) (h : ∀ l ∈ fl, IsLine l) (n : Nat)
    (hn : n < fl.flatten.length) :
    ∃ k p, k < fl.length ∧ '\n' ∉ p ∧ fl.flatten.take n = (fl.take k).flatten ++ p
      ∧ (∃ l, fl[k]? = some l ∧ ∃ j, j < l.length ∧ p = l.take j) := by
  induction fl generalizing n with
  | nil => simp at hn
  | cons l fl ih =>
    have hl := h l (by simp)
    have hfl : ∀ x ∈ fl, IsLine x := fun x hx => h x (by simp [hx])
    by_cases hlt : n < l.length
    · refine ⟨0, l.take n, by simp, ?_, ?_, ⟨l, by simp, n, hlt, rfl⟩⟩
      · obtain ⟨b, rfl, hb⟩ := hl
        have : n ≤ b.length := by simp at hlt; omega
        rw [List.take_append_of_le_length this]
        intro hm
        exact hb (List.mem_of_mem_take hm)
      · simp only [List.flatten_cons, List.take_zero, List.flatten_nil, List.nil_append]
        rw [List.take_append_of_le_length (by omega)]
    · have hge : l.length ≤ n := by omega
      simp only [List.flatten_cons, List.length_append] at hn
      obtain ⟨k, p, hk, hp, he, l', hl', j, hj, hpj⟩ := ih hfl (n - l.length) (by omega)
      refine ⟨k + 1, p, by simp; omega, hp, ?_, ⟨l', by simpa using hl', j, hj, hpj⟩⟩
      simp only [List.flatten_cons, List.take_succ_cons, List.append_assoc]
      rw [List.take_append, List.take_of_length_le hge, he]

theorem lines_take_flatten (fl : List Line) (h : ∀ l ∈ fl, IsLine l) (n : Nat)
    (hn : n < fl.flatten.length) :
    ∃ k p, k < fl.length ∧ '\n' ∉ p ∧ fl.flatten.take n = (fl.take k).flatten ++ p
      ∧ lines (fl.flatten.take n) = fl.take k ++ (if p = [] then [] else [p])
      ∧ (∃ l, fl[k]? = some l ∧ ∃ j, j < l.length ∧ p = l.take j) := by
  obtain ⟨k, p, hk, hp, he, hl⟩ := take_flatten_lines fl h n hn
  refine ⟨k, p, hk, hp, he, ?_, hl⟩
  rw [he, lines_flatten_append _ (fun l hl => h l (List.mem_of_mem_take hl))]
  by_cases hp0 : p = []
  · simp [hp0, lines]
  · simp [hp0, lines_noNl p hp hp0]

theorem endsNl_append_of_endsNl (a b : List Char) (hb : endsNl b = true) : endsNl (a ++ b) = true := by
  unfold endsNl at *
  rw [List.getLast?_append]
  cases h : b.getLast? with
  | none => simp [h] at hb
  | some c => simpa [h] using hb

theorem endsNl_flatten (fl : List Line) (h : ∀ l ∈ fl, IsLine l) (hne : fl ≠ []) :
    endsNl fl.flatten = true := by
  induction fl with
  | nil => exact absurd rfl hne
  | cons l fl ih =>
    cases fl with
    | nil => simpa using (h l (by simp)).endsNl
    | cons l' fl' =>
      rw [List.flatten_cons]
      exact endsNl_append_of_endsNl _ _ (ih (fun x hx => h x (by simp [hx])) (by simp))

/-- bytes ≥ 0x80 (all lead and continuation bytes of UTF-8 multi-byte characters) are neither the
    newline nor a blank: non-ASCII text is inert for `readline` and `split` -/
theorem nonascii_not_structural (c : Char) (h : 128 ≤ c.toNat) : c ≠ '\n' ∧ isBlank c = false := by
  have hne : ∀ d : Char, d.toNat < 128 → (c == d) = false := by
    intro d hd
    simp only [beq_eq_false_iff_ne, ne_eq]
    rintro rfl
    omega
  refine ⟨?_, ?_⟩
  · rintro rfl
    exact absurd h (by decide)
  · simp only [isBlank, hne ' ' (by decide), hne '\n' (by decide), hne '\t' (by decide), hne '\r' (by decide),
      hne '\x0b' (by decide), hne '\x0c' (by decide), hne '\x1c' (by decide), hne '\x1d' (by decide),
      hne '\x1e' (by decide), hne '\x1f' (by decide), Bool.or_self]

/-! ### arithmetic of `i % block_size` -/

theorem pyMod_nat (a B : Nat) (h : 0 < B) : pyMod a (B : Int) = ((a % B : Nat) : Int) := by
  unfold pyMod
  rw [Int.fmod_eq_emod_of_nonneg _ (by omega)]; omega

theorem add_mod_of_mod_zero (i0 r B : Nat) (h0 : i0 % B = 0) (hr : r < B) : (i0 + r) % B = r := by
  rw [Nat.add_mod, h0, Nat.zero_add, Nat.mod_mod, Nat.mod_eq_of_lt hr]

/-! ### spec functions -/

theorem sumLens_append (a b : List Nat) : sumLens (a ++ b) = sumLens a + sumLens b := by
  induction a with
  | nil => simp [sumLens]
  | cons x a ih => simp [sumLens, ih]; omega

theorem sumLens_take_succ (l : List Nat) (k : Nat) (h : k < l.length) :
    sumLens (l.take (k + 1)) = sumLens (l.take k) + l[k] := by
  rw [List.take_succ_eq_append_getElem h, sumLens_append]
  simp [sumLens]

theorem completeCount_le (lens : List Nat) (n : Nat) : completeCount lens n ≤ lens.length := by
  induction lens generalizing n with
  | nil => simp [completeCount]
  | cons l ls ih =>
    simp only [completeCount]
    split
    · have := ih (n - l); simp; omega
    · simp

theorem completeCount_sum_le (lens : List Nat) (n : Nat) :
    sumLens (lens.take (completeCount lens n)) ≤ n := by
  induction lens generalizing n with
  | nil => simp [completeCount, sumLens]
  | cons l ls ih =>
    simp only [completeCount]
    split
    · have := ih (n - l); simp [sumLens]; omega
    · simp [sumLens]

end Infretis.Readers
