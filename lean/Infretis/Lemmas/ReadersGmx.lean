import Infretis.Model.ReadersObj
import Infretis.Lemmas.ReadersTrr
import Infretis.Lemmas.ReadersTrrData
/-!
# Lemmas for C13, part 9: the whole `get_gromacs_frames` generator at byte level (`gRun`) on a well-formed
TRR file is the abstract size-guard machine (`trrRun`) — composition of the header decoding
(`trrHeader_encHeader`), the data layout (`trrData_layout`) and the guard machine.
-/
namespace Infretis.Readers

/-- a TRR frame as GROMACS writes it: header (byte order, 13 ints, two reals) and payload -/
structure GFrame where
  little : Bool
  ns : List Nat
  reals : List Nat
  payload : List Nat

def GFrame.ints (f : GFrame) : List Int := f.ns.map Int.ofNat
def GFrame.enc (f : GFrame) : List Nat := encHeader f.little f.ns f.reals ++ f.payload
def GFrame.hdr (dbl : Bool) (f : GFrame) : THeader :=
  { little := f.little, double := dbl, ints := f.ints, hlen := 76 + 2 * (if dbl then 8 else 4) }
/-- the abstract frame of the guard machine -/
def GFrame.t (dbl : Bool) (f : GFrame) : TFrame := ⟨76 + 2 * (if dbl then 8 else 4), f.payload.length⟩
/-- what `get_data` returns for it: the announced blocks cut out of the payload -/
def GFrame.blocks (f : GFrame) : List (Nat × List Nat) := sliceBlocks (dataFields f.ints) f.payload

structure GFrame.WF (dbl : Bool) (f : GFrame) : Prop where
  len13 : f.ns.length = 13
  small : ∀ n ∈ f.ns, n < 2147483648
  prec : isDouble f.ints = .ok dbl
  reals : f.reals.length = 2 * (if dbl then 8 else 4)
  fields : FieldsOK (if dbl then 8 else 4) (dataFields f.ints)
  payload : f.payload.length = (dataSize f.ints).toNat

def gFile (frames : List GFrame) : List Nat := (frames.map GFrame.enc).flatten

/-- an event of the guard machine as an event of the byte-level generator: `yield k` carries frame `k`'s blocks -/
def liftEv (frames : List GFrame) : TEv → GEv
  | .read o l s => .read o l s
  | .yield k => match frames[k]? with
    | some f => .yield f.blocks
    | none => .yield []
  | .wait => .wait

theorem encHeader_length (little : Bool) (ns reals : List Nat) (h : ns.length = 13) :
    (encHeader little ns reals).length = 76 + reals.length := by
  have h52 : (ns.flatMap (enc32 little)).length = 52 := by
    have : ∀ l : List Nat, (l.flatMap (enc32 little)).length = 4 * l.length := by
      intro l
      induction l with
      | nil => rfl
      | cons x xs ih => simp [List.flatMap_cons, enc32_length, ih]; omega
    rw [this, h]
  have hv : trrVersion.length = 12 := by decide
  simp only [encHeader, List.length_append, enc32_length, h52, hv]
  omega

theorem GFrame.WF.hdr_length {dbl : Bool} {f : GFrame} (h : f.WF dbl) :
    (encHeader f.little f.ns f.reals).length = 76 + 2 * (if dbl then 8 else 4) := by
  rw [encHeader_length _ _ _ h.len13, h.reals]

theorem GFrame.WF.enc_length {dbl : Bool} {f : GFrame} (h : f.WF dbl) :
    f.enc.length = (f.t dbl).hsize + (f.t dbl).dsize := by
  simp only [GFrame.enc, List.length_append, h.hdr_length, GFrame.t]

theorem gFile_length (dbl : Bool) (fs : List GFrame) (hwf : ∀ f ∈ fs, f.WF dbl) :
    (gFile fs).length = ((fs.map (GFrame.t dbl)).map (fun f => f.hsize + f.dsize)).sum := by
  induction fs with
  | nil => rfl
  | cons f fs ih =>
    simp only [gFile, List.map_cons, List.flatten_cons, List.length_append, List.sum_cons]
    rw [(hwf f (by simp)).enc_length]
    have := ih (fun x hx => hwf x (by simp [hx]))
    simp only [gFile] at this
    rw [this]

theorem tOffset_eq_prefix (dbl : Bool) (frames : List GFrame) (hwf : ∀ f ∈ frames, f.WF dbl) (k : Nat) :
    tOffset (frames.map (GFrame.t dbl)) k = (gFile (frames.take k)).length := by
  rw [gFile_length dbl (frames.take k) (fun f hf => hwf f (List.mem_of_mem_take hf))]
  simp only [tOffset, List.map_take]

theorem gFile_split (frames : List GFrame) (k : Nat) (f : GFrame) (h : frames[k]? = some f) :
    gFile frames = gFile (frames.take k) ++ (encHeader f.little f.ns f.reals ++ (f.payload ++ gFile (frames.drop (k + 1)))) := by
  have hk : k < frames.length := by
    rcases Nat.lt_or_ge k frames.length with h' | h'
    · exact h'
    · rw [List.getElem?_eq_none h'] at h; cases h
  have hf : frames[k] = f := by
    rw [List.getElem?_eq_getElem hk] at h; exact Option.some.inj h
  have this := (List.take_append_drop k frames).symm
  rw [List.drop_eq_getElem_cons hk, hf] at this
  conv => lhs; rw [this]
  simp only [gFile, List.map_append, List.map_cons, List.flatten_append, List.flatten_cons, GFrame.enc,
    List.append_assoc]

theorem take_drop_mid (A mid post : List Nat) (size : Nat) (h : A.length + mid.length ≤ size) :
    ((A ++ (mid ++ post)).take size).drop A.length = mid ++ post.take (size - A.length - mid.length) := by
  rw [List.take_append, List.take_of_length_le (by omega), List.drop_left, List.take_append,
    List.take_of_length_le (by omega)]

/-- the byte-level generator and the guard machine are in step -/
structure GRel (dbl : Bool) (frames : List GFrame) (g : GSt) (t : TSt) : Prop where
  alive : g.dead = false
  fpos : g.fpos = t.bytesRead
  br : g.bytesRead = (t.bytesRead : Int)
  hs : g.headerSize = (t.headerSize : Int)
  hs01 : t.headerSize = 0 ∨ t.headerSize = 76 + 2 * (if dbl then 8 else 4)
  pend : match t.pending with
    | none => g.inData = false ∧ t.bytesRead = tOffset (frames.map (GFrame.t dbl)) t.k
    | some d => g.inData = true ∧ ∃ f, frames[t.k]? = some f ∧ g.hdr = some (f.hdr dbl)
        ∧ g.dataSize = dataSize f.ints ∧ d = f.payload.length
        ∧ t.bytesRead = tOffset (frames.map (GFrame.t dbl)) t.k + (76 + 2 * (if dbl then 8 else 4))

theorem gInit_rel (dbl : Bool) (frames : List GFrame) : GRel dbl frames gInit tInit where
  alive := rfl
  fpos := rfl
  br := rfl
  hs := rfl
  hs01 := Or.inl rfl
  pend := by simp [tInit, gInit, tOffset]

theorem H_pos (dbl : Bool) : 0 < 76 + 2 * (if dbl then 8 else 4) := by omega
theorem H_le (dbl : Bool) : 76 + 2 * (if dbl then 8 else 4) ≤ trrHeadSize := by
  cases dbl <;> simp [trrHeadSize]

set_option maxHeartbeats 400000 in
theorem gTick_rel (dbl : Bool) (frames : List GFrame) (hwf : ∀ f ∈ frames, f.WF dbl) (size : Nat)
    (hsz : size ≤ (gFile frames).length) (g : GSt) (t : TSt) (hr : GRel dbl frames g t) :
    GRel dbl frames (gTick (gFile frames) size g).1 (trrTick (frames.map (GFrame.t dbl)) size t).1
    ∧ (gTick (gFile frames) size g).2 = (trrTick (frames.map (GFrame.t dbl)) size t).2.map (liftEv frames) := by
  obtain ⟨halive, hfpos, hbr, hhs, hhs01, hpend⟩ := hr
  cases hp : t.pending with
  | some d =>
    rw [hp] at hpend
    obtain ⟨hin, f, hf, hhdr, hds, hd, hoff⟩ := hpend
    have hfw := hwf f (List.mem_of_getElem? hf)
    obtain ⟨hnn0, hlay, _⟩ := trrData_layout (f.hdr dbl) hfw.fields
      (((gFile frames).take size).drop t.bytesRead)
    have hnn : 0 ≤ dataSize f.ints := hnn0
    have hdnat : (dataSize f.ints).toNat = d := by rw [hd, hfw.payload]
    have hdI : dataSize f.ints = (d : Int) := by omega
    by_cases hg : size ≥ t.bytesRead + d
    · -- the data guard passes
      have hgI : (size : Int) ≥ g.bytesRead + g.dataSize := by
        rw [hbr, hds, hdI]; exact_mod_cast hg
      have havail : ((gFile frames).take size).drop t.bytesRead
          = f.payload ++ (gFile (frames.drop (t.k + 1))).take (size - t.bytesRead - f.payload.length) := by
        rw [gFile_split frames t.k f hf, ← List.append_assoc]
        have hA : (gFile (frames.take t.k) ++ encHeader f.little f.ns f.reals).length = t.bytesRead := by
          rw [List.length_append, hfw.hdr_length, ← tOffset_eq_prefix dbl frames hwf, hoff]
        rw [← hA]
        exact take_drop_mid _ _ _ _ (by rw [hA, ← hd]; exact hg)
      have hlen : (dataSize (f.hdr dbl).ints).toNat ≤ (((gFile frames).take size).drop t.bytesRead).length := by
        rw [havail, List.length_append]
        show (dataSize f.ints).toNat ≤ _
        rw [hdnat, ← hd]; omega
      have hdata := hlay hlen
      have hsl : sliceBlocks (dataFields (f.hdr dbl).ints) (((gFile frames).take size).drop t.bytesRead) = f.blocks := by
        rw [havail]
        apply sliceBlocks_append
        obtain ⟨_, h5⟩ := fieldsTotal_eq_sum _ _ hfw.fields
        rw [← dataSize_eq_sum] at h5
        show fieldsTotal (dataFields f.ints) ≤ _
        rw [← h5, hfw.payload]
        exact Nat.le_refl _
      have hused0 : ∀ (av : List Nat) (n : Nat), n ≤ av.length → av.length - (av.drop n).length = n := by
        intro av n h; rw [List.length_drop]; omega
      have hdn : (dataSize (f.hdr dbl).ints).toNat = d := hdnat
      rw [hdn] at hdata hlen
      have hused := hused0 _ _ hlen
      have hyield : liftEv frames (.yield t.k) = .yield f.blocks := by simp [liftEv, hf]
      simp only [gTick, hfpos, hin, if_true, hhdr, hgI, trrTick, hp, hg, hdata, hsl, hused, List.map_cons,
        List.map_nil, liftEv, hf]
      refine ⟨⟨halive, ?_, ?_, hhs, hhs01, ?_⟩, by first | trivial | rfl⟩
      · simp only [hfpos]
      · simp only [hbr]
        show (t.bytesRead : Int) + dataSize f.ints = ((t.bytesRead + d : Nat) : Int)
        rw [hdI]; simp
      · simp only []
        refine ⟨by first | trivial | rfl, ?_⟩
        have htf : (frames.map (GFrame.t dbl))[t.k]? = some (f.t dbl) := by simp [hf]
        rw [tOffset_succ _ t.k (f.t dbl) htf, hoff]
        simp only [GFrame.t]; omega
    · have hgI : ¬ ((size : Int) ≥ g.bytesRead + g.dataSize) := by
        rw [hbr, hds, hdI]; intro h; apply hg; exact_mod_cast h
      simp only [gTick, hin, if_true, hhdr, hgI, if_false, trrTick, hp, hg, List.map_cons, List.map_nil, liftEv]
      exact ⟨⟨halive, hfpos, hbr, hhs, hhs01, by rw [hp]; exact ⟨hin, f, hf, hhdr, hds, hd, hoff⟩⟩, by first | trivial | rfl⟩
  | none =>
    rw [hp] at hpend
    obtain ⟨hin, hoff⟩ := hpend
    have hinf : ¬ (g.inData = true) := by rw [hin]; simp
    have hsI : (if g.headerSize = 0 then (trrHeadSize : Int) else g.headerSize)
        = ((if t.headerSize = 0 then trrHeadSize else t.headerSize : Nat) : Int) := by
      rw [hhs]
      by_cases h0 : t.headerSize = 0
      · simp [h0]
      · have : ¬ ((t.headerSize : Int) = 0) := by omega
        simp [h0, this]
    by_cases hg : size ≥ t.bytesRead + (if t.headerSize = 0 then trrHeadSize else t.headerSize)
    · have hgI : (size : Int) ≥ g.bytesRead + (if g.headerSize = 0 then (trrHeadSize : Int) else g.headerSize) := by
        rw [hsI, hbr]; exact_mod_cast hg
      have hHle : 76 + 2 * (if dbl then 8 else 4) ≤ (if t.headerSize = 0 then trrHeadSize else t.headerSize) := by
        rcases hhs01 with h0 | h1
        · rw [h0]; simp; exact H_le dbl
        · rw [h1]; have := H_pos dbl
          have hne : ¬ (76 + 2 * (if dbl then 8 else 4) = 0) := by omega
          simp [hne]
      cases hf : frames[t.k]? with
      | none =>
        -- past the last frame: the guard cannot pass while size ≤ file length
        exfalso
        have hk : frames.length ≤ t.k := by
          rcases Nat.lt_or_ge t.k frames.length with h' | h'
          · rw [List.getElem?_eq_getElem h'] at hf; cases hf
          · exact h'
        have : t.bytesRead = (gFile frames).length := by
          rw [hoff, tOffset_eq_prefix dbl frames hwf, List.take_of_length_le hk]
        have := H_pos dbl
        omega
      | some f =>
        have hfw := hwf f (List.mem_of_getElem? hf)
        have htf : (frames.map (GFrame.t dbl))[t.k]? = some (f.t dbl) := by simp [hf]
        have havail : ((gFile frames).take size).drop t.bytesRead
            = encHeader f.little f.ns f.reals
              ++ (f.payload ++ gFile (frames.drop (t.k + 1))).take (size - t.bytesRead - (encHeader f.little f.ns f.reals).length) := by
          rw [gFile_split frames t.k f hf]
          have hA : (gFile (frames.take t.k)).length = t.bytesRead := by
            rw [← tOffset_eq_prefix dbl frames hwf, hoff]
          rw [← hA]
          exact take_drop_mid _ _ _ _ (by rw [hA, hfw.hdr_length]; omega)
        have hhd := trrHeader_encHeader f.little dbl f.ns hfw.len13 hfw.small hfw.prec f.reals hfw.reals
          ((f.payload ++ gFile (frames.drop (t.k + 1))).take (size - t.bytesRead - (encHeader f.little f.ns f.reals).length))
        rw [← havail] at hhd
        simp only [gTick, hfpos, hin, Bool.false_eq_true, if_false, hgI, if_true, hhd, trrTick, hp, hg, htf, List.map_cons, List.map_nil,
          liftEv, GFrame.t]
        refine ⟨⟨halive, ?_, ?_, ?_, Or.inr rfl, ?_⟩, by first | trivial | rfl⟩
        · simp only [hfpos]
        · simp only [hbr]; exact (Int.natCast_add _ _).symm
        · simp only []
        · simp only []
          exact ⟨by first | trivial | rfl, f, hf, rfl, rfl, rfl, by rw [hoff]⟩
    · have hgI : ¬ ((size : Int) ≥ g.bytesRead + (if g.headerSize = 0 then (trrHeadSize : Int) else g.headerSize)) := by
        rw [hsI, hbr]; intro h; apply hg; exact_mod_cast h
      simp only [gTick, hin, Bool.false_eq_true, if_false, hgI, trrTick, hp, hg, List.map_cons, List.map_nil, liftEv]
      exact ⟨⟨halive, hfpos, hbr, hhs, hhs01, by rw [hp]; exact ⟨hin, hoff⟩⟩, by first | trivial | rfl⟩

theorem gRun_rel (dbl : Bool) (frames : List GFrame) (hwf : ∀ f ∈ frames, f.WF dbl) (sizes : List Nat)
    (hsz : ∀ s ∈ sizes, s ≤ (gFile frames).length) (g : GSt) (t : TSt) (hr : GRel dbl frames g t) :
    (gRun (gFile frames) sizes g).2 = (trrRun (frames.map (GFrame.t dbl)) sizes t).map (liftEv frames)
    ∧ (gRun (gFile frames) sizes g).1.dead = false := by
  induction sizes generalizing g t with
  | nil => exact ⟨by simp [gRun, trrRun], by simp [gRun, hr.alive]⟩
  | cons s ss ih =>
    obtain ⟨h1, h2⟩ := gTick_rel dbl frames hwf s (hsz s (by simp)) g t hr
    obtain ⟨h3, h4⟩ := ih (fun x hx => hsz x (by simp [hx])) _ _ h1
    simp only [gRun, hr.alive, Bool.false_eq_true, if_false, trrRun, List.map_append]
    exact ⟨by rw [h2, h3], h4⟩

/-! ### yields: each frame once, in order -/

def tYield : TEv → Option Nat
  | .yield k => some k
  | _ => none

def gYield : GEv → Option (List (Nat × List Nat))
  | .yield b => some b
  | _ => none

/-- events that never occur on a well-formed file: swallowed `EOFError`, exception, endless inner loop -/
def gBad : GEv → Bool
  | .stale => true
  | .raise _ => true
  | .spin => true
  | _ => false

/-- the guard machine yields frame numbers `k, k+1, …` without gap or repetition, and ends at the next one -/
theorem trrTick_k_le (frames : List TFrame) (H : Nat) (size : Nat) (st : TSt) (hinv : TInv frames H st)
    (hk : st.k ≤ frames.length) : (trrTick frames size st).1.k ≤ frames.length := by
  unfold trrTick
  cases hp : st.pending with
  | some d =>
    have h2 := hinv.2
    rw [hp] at h2
    obtain ⟨f, hf, _⟩ := h2
    have hlt : st.k < frames.length := by
      rcases Nat.lt_or_ge st.k frames.length with h' | h'
      · exact h'
      · rw [List.getElem?_eq_none h'] at hf; cases hf
    simp only []
    split
    · simp only []; omega
    · exact hk
  | none =>
    simp only []
    by_cases hg : size ≥ st.bytesRead + (if st.headerSize = 0 then trrHeadSize else st.headerSize)
    · simp only [hg, if_true]; cases frames[st.k]? <;> exact hk
    · simp only [hg, if_false]; exact hk

theorem trrRun_yields (frames : List TFrame) (H : Nat) (hH : ∀ f ∈ frames, f.hsize = H) (hle : H ≤ trrHeadSize)
    (hpos : 0 < H) (sizes : List Nat) (st : TSt) (hinv : TInv frames H st) (hk : st.k ≤ frames.length) :
    ∃ n, (trrRun frames sizes st).filterMap tYield = List.range' st.k n
      ∧ (sizes.foldl (fun s size => (trrTick frames size s).1) st).k = st.k + n
      ∧ (sizes.foldl (fun s size => (trrTick frames size s).1) st).k ≤ frames.length := by
  induction sizes generalizing st with
  | nil => exact ⟨0, by simp [trrRun], by simp, by simpa using hk⟩
  | cons s ss ih =>
    obtain ⟨hinv', _⟩ := trrTick_ok frames H hH hle hpos s st hinv
    obtain ⟨n, h1, h2, h3⟩ := ih _ hinv' (trrTick_k_le frames H s st hinv hk)
    refine (fun (h : ∃ n, (trrRun frames (s :: ss) st).filterMap tYield = List.range' st.k n
      ∧ (List.foldl (fun s size => (trrTick frames size s).1) st (s :: ss)).k = st.k + n) =>
        h.elim (fun n hn => ⟨n, hn.1, hn.2, by simpa [List.foldl_cons] using h3⟩)) ?_
    simp only [trrRun, List.filterMap_append, List.foldl_cons]
    rw [h1, h2]
    unfold trrTick
    cases hp : st.pending with
    | some d =>
      simp only []
      by_cases hg : s ≥ st.bytesRead + d
      · simp only [hg, if_true, List.filterMap_cons, tYield, List.filterMap_nil]
        exact ⟨n + 1, by simp [List.range'_succ], by omega⟩
      · simp only [hg, if_false, List.filterMap_cons, tYield, List.filterMap_nil]
        exact ⟨n, by simp, rfl⟩
    | none =>
      simp only []
      by_cases hg : s ≥ st.bytesRead + (if st.headerSize = 0 then trrHeadSize else st.headerSize)
      · simp only [hg, if_true]
        cases hf : frames[st.k]? with
        | none => exact ⟨n, by simp [tYield], rfl⟩
        | some f => exact ⟨n, by simp [tYield], rfl⟩
      · simp only [hg, if_false]
        exact ⟨n, by simp [tYield], rfl⟩

/-- the final state of the guard machine, in step with the byte-level generator -/
theorem gRun_final_rel (dbl : Bool) (frames : List GFrame) (hwf : ∀ f ∈ frames, f.WF dbl) (sizes : List Nat)
    (hsz : ∀ s ∈ sizes, s ≤ (gFile frames).length) (g : GSt) (t : TSt) (hr : GRel dbl frames g t) :
    GRel dbl frames (gRun (gFile frames) sizes g).1
      (sizes.foldl (fun s size => (trrTick (frames.map (GFrame.t dbl)) size s).1) t) := by
  induction sizes generalizing g t with
  | nil => simpa [gRun] using hr
  | cons s ss ih =>
    obtain ⟨h1, _⟩ := gTick_rel dbl frames hwf s (hsz s (by simp)) g t hr
    have := ih (fun x hx => hsz x (by simp [hx])) _ _ h1
    simp only [gRun, hr.alive, Bool.false_eq_true, if_false, List.foldl_cons]
    exact this

def blocksAt (frames : List GFrame) (k : Nat) : List (Nat × List Nat) :=
  match frames[k]? with
  | some f => f.blocks
  | none => []

theorem gYield_lift (frames : List GFrame) (e : TEv) :
    gYield (liftEv frames e) = (tYield e).map (blocksAt frames) := by
  cases e with
  | read o l s => rfl
  | wait => rfl
  | yield k =>
    simp only [liftEv, tYield, Option.map_some, blocksAt]
    cases frames[k]? <;> rfl

theorem range_map_blocksAt (frames : List GFrame) (n : Nat) (h : n ≤ frames.length) :
    (List.range' 0 n).map (blocksAt frames) = (frames.take n).map GFrame.blocks := by
  induction n with
  | zero => simp
  | succ n ih =>
    have hn : n < frames.length := by omega
    rw [List.range'_1_concat, List.map_append, ih (by omega), List.take_succ_eq_append_getElem hn, List.map_append]
    simp [blocksAt, List.getElem?_eq_getElem hn]

theorem gBad_lift (frames : List GFrame) (e : TEv) : gBad (liftEv frames e) = false := by
  cases e with
  | read o l s => rfl
  | wait => rfl
  | yield k => simp only [liftEv]; cases frames[k]? <;> rfl

theorem gFile_take_le (frames : List GFrame) (k : Nat) :
    (gFile (frames.take k)).length ≤ (gFile frames).length := by
  conv => rhs; rw [← List.take_append_drop k frames]
  simp only [gFile, List.map_append, List.flatten_append, List.length_append]
  omega

theorem frames_le_file (dbl : Bool) (fs : List GFrame) (hwf : ∀ f ∈ fs, f.WF dbl) :
    fs.length ≤ (gFile fs).length := by
  induction fs with
  | nil => simp
  | cons f fs ih =>
    have h1 := (hwf f (by simp)).enc_length
    have h2 := ih (fun x hx => hwf x (by simp [hx]))
    have := H_pos dbl
    simp only [gFile, List.map_cons, List.flatten_cons, List.length_append, List.length_cons] at h2 ⊢
    simp only [GFrame.t] at h1
    omega

/-! ### the final phase `read_remaining_trr` -/

theorem prefix_succ (dbl : Bool) (frames : List GFrame) (hwf : ∀ f ∈ frames, f.WF dbl) (k : Nat) (f : GFrame)
    (hf : frames[k]? = some f) :
    (gFile (frames.take (k + 1))).length
      = (gFile (frames.take k)).length + (76 + 2 * (if dbl then 8 else 4) + f.payload.length) := by
  have htf : (frames.map (GFrame.t dbl))[k]? = some (f.t dbl) := by simp [hf]
  rw [← tOffset_eq_prefix dbl frames hwf, ← tOffset_eq_prefix dbl frames hwf, tOffset_succ _ k _ htf]
  simp [GFrame.t]

/-- from a frame boundary, the unguarded final phase yields every remaining frame once, in order, and
    nothing else happens -/
theorem gRemaining_yields (dbl : Bool) (frames : List GFrame) (hwf : ∀ f ∈ frames, f.WF dbl) (fuel k : Nat)
    (hk : k ≤ frames.length) (hfuel : frames.length - k < fuel) :
    (gRemaining (gFile frames) fuel ((gFile (frames.take k)).length : Nat) (gFile (frames.take k)).length).filterMap gYield
      = (frames.drop k).map GFrame.blocks
    ∧ ∀ e ∈ gRemaining (gFile frames) fuel ((gFile (frames.take k)).length : Nat) (gFile (frames.take k)).length,
        gBad e = false := by
  induction fuel generalizing k with
  | zero => omega
  | succ fuel ih =>
    rcases Nat.lt_or_ge k frames.length with hlt | hge
    · have hf : frames[k]? = some frames[k] := List.getElem?_eq_getElem hlt
      have hfw := hwf frames[k] (List.getElem_mem hlt)
      have hsplit := gFile_split frames k frames[k] hf
      have hlenlt : ¬ (((gFile (frames.take k)).length : Int) ≥ ((gFile frames).length : Int)) := by
        have h1 := prefix_succ dbl frames hwf k _ hf
        have h2 : (gFile (frames.take (k + 1))).length ≤ (gFile frames).length := by
          rw [gFile_length dbl _ (fun f hf => hwf f (List.mem_of_mem_take hf)), gFile_length dbl _ hwf]
          rw [List.map_take, List.map_take]
          have := List.take_append_drop (k + 1) ((frames.map (GFrame.t dbl)).map (fun f => f.hsize + f.dsize))
          conv => rhs; rw [← this]
          rw [List.sum_append]; omega
        have := H_pos dbl
        omega
      have hdrop : (gFile frames).drop (gFile (frames.take k)).length
          = encHeader frames[k].little frames[k].ns frames[k].reals
            ++ (frames[k].payload ++ gFile (frames.drop (k + 1))) := by
        conv => lhs; rw [hsplit]
        rw [List.drop_left]
      have hhd : trrHeader (encHeader frames[k].little frames[k].ns frames[k].reals
            ++ (frames[k].payload ++ gFile (frames.drop (k + 1))))
          = .ok (frames[k].hdr dbl, frames[k].payload ++ gFile (frames.drop (k + 1))) :=
        trrHeader_encHeader frames[k].little dbl frames[k].ns hfw.len13 hfw.small hfw.prec frames[k].reals
          hfw.reals (frames[k].payload ++ gFile (frames.drop (k + 1)))
      obtain ⟨hnn0, hlay, _⟩ := trrData_layout (frames[k].hdr dbl) hfw.fields
        (frames[k].payload ++ gFile (frames.drop (k + 1)))
      have hnn : 0 ≤ dataSize frames[k].ints := hnn0
      have hdn : (dataSize (frames[k].hdr dbl).ints).toNat = frames[k].payload.length := hfw.payload.symm
      have hdI : dataSize frames[k].ints = (frames[k].payload.length : Int) := by
        have := hfw.payload; omega
      have hdata := hlay (by rw [hdn, List.length_append]; omega)
      rw [hdn, List.drop_left] at hdata
      have hsl : sliceBlocks (dataFields (frames[k].hdr dbl).ints) (frames[k].payload ++ gFile (frames.drop (k + 1)))
          = frames[k].blocks := by
        apply sliceBlocks_append
        obtain ⟨_, h5⟩ := fieldsTotal_eq_sum _ _ hfw.fields
        rw [← dataSize_eq_sum] at h5
        show fieldsTotal (dataFields frames[k].ints) ≤ _
        rw [← h5, hfw.payload]
        exact Nat.le_refl _
      have hused : (frames[k].payload ++ gFile (frames.drop (k + 1))).length - (gFile (frames.drop (k + 1))).length
          = frames[k].payload.length := by rw [List.length_append]; omega
      have hnext := ih (k + 1) (by omega) (by omega)
      rw [prefix_succ dbl frames hwf k _ hf] at hnext
      have hbr : ((gFile (frames.take k)).length : Int) + (((frames[k].hdr dbl).hlen : Nat) : Int)
            + dataSize (frames[k].hdr dbl).ints
          = (((gFile (frames.take k)).length + (76 + 2 * (if dbl then 8 else 4) + frames[k].payload.length) : Nat) : Int) := by
        show ((gFile (frames.take k)).length : Int) + ((76 + 2 * (if dbl then 8 else 4) : Nat) : Int)
            + dataSize frames[k].ints = _
        rw [hdI]; push_cast; omega
      have hhl : (frames[k].hdr dbl).hlen = 76 + 2 * (if dbl then 8 else 4) := rfl
      simp only [gRemaining, hlenlt, if_false, hdrop, hhd, hdata, hsl, hused, hbr]
      simp only [hhl]
      refine ⟨?_, ?_⟩
      · simp only [List.filterMap_cons, gYield]
        rw [hnext.1, List.drop_eq_getElem_cons hlt, List.map_cons]
      · intro e he
        simp only [List.mem_cons] at he
        rcases he with rfl | rfl | he
        · rfl
        · rfl
        · exact hnext.2 e he
    · have : (gFile (frames.take k)).length = (gFile frames).length := by rw [List.take_of_length_le hge]
      have hge' : (((gFile (frames.take k)).length : Nat) : Int) ≥ ((gFile frames).length : Int) := by omega
      simp only [gRemaining, hge', if_true, List.drop_eq_nil_of_le hge]
      exact ⟨rfl, by intro e he; cases he⟩

end Infretis.Readers
