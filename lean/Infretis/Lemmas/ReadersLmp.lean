import Infretis.Lemmas.Readers
/-!
# Lemmas for C13, part 4: `lammpstrj_reader` — the two sentinels at character level
(the terminating newline does not change the tokens; a torn atom line never passes the
`len(spl) == 9 and spl[0] == spl[-1]` test).
-/
namespace Infretis.Readers

theorem splitAux_append_blank (s : List Char) (acc : Tok) (b : Char) (hb : isBlank b = true) :
    splitAux (s ++ [b]) acc = splitAux s acc := by
  induction s generalizing acc with
  | nil => by_cases h : acc.isEmpty <;> simp [splitAux, hb, h]
  | cons c cs ih =>
    simp only [List.cons_append, splitAux]
    by_cases hc : isBlank c = true <;> by_cases h : acc.isEmpty <;> simp [hc, h, ih]

theorem splitAux_append_blanks (s tb : List Char) (acc : Tok) (h : ∀ x ∈ tb, isBlank x = true) :
    splitAux (s ++ tb) acc = splitAux s acc := by
  induction tb generalizing s with
  | nil => simp
  | cons b tb ih =>
    have : s ++ b :: tb = (s ++ [b]) ++ tb := by simp
    rw [this, ih (s ++ [b]) (fun x hx => h x (by simp [hx])), splitAux_append_blank s acc b (h b (by simp))]

/-- white space at the end of a line does not change its tokens -/
theorem split_append_blanks (s tb : List Char) (h : ∀ x ∈ tb, isBlank x = true) : split (s ++ tb) = split s :=
  splitAux_append_blanks s tb [] h

/-- the tokens of a line do not depend on its terminating newline -/
theorem split_append_nl (body : List Char) : split (body ++ ['\n']) = split body :=
  splitAux_append_blank body [] '\n' (by decide)

theorem splitAux_flatten (s : List Char) (acc : Tok) :
    (splitAux s acc).flatten = acc ++ s.filter (fun c => !isBlank c) := by
  induction s generalizing acc with
  | nil =>
    by_cases h : acc.isEmpty
    · have : acc = [] := by simpa using h
      simp [splitAux, this]
    · simp [splitAux, h]
  | cons c cs ih =>
    simp only [splitAux]
    by_cases hc : isBlank c = true
    · by_cases h : acc.isEmpty
      · have : acc = [] := by simpa using h
        simp [hc, this, ih]
      · simp [hc, h, ih]
    · simp [hc, ih]

theorem splitAux_head (s : List Char) (acc : Tok) (h : acc ≠ []) :
    ∃ t post, splitAux s acc = t :: post ∧ acc <+: t := by
  induction s generalizing acc with
  | nil =>
    have : acc.isEmpty = false := by simpa using h
    exact ⟨acc, [], by simp [splitAux, this], List.prefix_refl _⟩
  | cons c cs ih =>
    have he : acc.isEmpty = false := by simpa using h
    simp only [splitAux]
    by_cases hc : isBlank c = true
    · exact ⟨acc, splitAux cs [], by simp [hc, he], List.prefix_refl _⟩
    · obtain ⟨t, post, ht, hp⟩ := ih (acc ++ [c]) (by simp)
      refine ⟨t, post, by simp [hc, ht], ?_⟩
      exact List.IsPrefix.trans (List.prefix_append acc [c]) hp

/-- tokens of a prefix: the same tokens, possibly fewer, the last one possibly cut short -/
theorem splitAux_take (s : List Char) (acc : Tok) (n : Nat) :
    splitAux (s.take n) acc = [] ∨
    ∃ pre u t post, splitAux (s.take n) acc = pre ++ [u] ∧ splitAux s acc = pre ++ t :: post ∧ u <+: t := by
  induction s generalizing acc n with
  | nil =>
    by_cases h : acc.isEmpty
    · left; simp [splitAux, h]
    · right; exact ⟨[], acc, acc, [], by simp [splitAux, h], by simp [splitAux, h], List.prefix_refl _⟩
  | cons c cs ih =>
    cases n with
    | zero =>
      by_cases h : acc.isEmpty
      · left; simp [splitAux, h]
      · right
        have hne : acc ≠ [] := by simpa using h
        obtain ⟨t, post, ht, hp⟩ := splitAux_head (c :: cs) acc hne
        exact ⟨[], acc, t, post, by simp [splitAux, h], by simp [ht], hp⟩
    | succ n =>
      simp only [List.take_succ_cons, splitAux]
      by_cases hc : isBlank c = true
      · by_cases h : acc.isEmpty
        · simpa [hc, h] using ih [] n
        · simp only [hc, h, if_true, Bool.false_eq_true, if_false]
          right
          rcases ih [] n with h0 | ⟨pre, u, t, post, ha, hb, hut⟩
          · exact ⟨[], acc, acc, splitAux cs [], by simp [h0], by simp, List.prefix_refl _⟩
          · exact ⟨acc :: pre, u, t, post, by simp [ha], by simp [hb], hut⟩
      · simpa [hc] using ih (acc ++ [c]) n

theorem filter_take_length_le (l : List Char) (p : Char → Bool) (n : Nat) :
    ((l.take n).filter p).length ≤ (l.filter p).length :=
  ((List.take_sublist n l).filter p).length_le

/-- **the trailing-id sentinel**: a line whose first and last tokens are equal (≥ 2 tokens, no blank at
    its end) has no strict prefix with the same number of tokens and equal first and last token. -/
theorem sentinel_detects (body init : List Char) (c : Char) (hb : body = init ++ [c])
    (hc : isBlank c = false) (h2 : 2 ≤ (split body).length)
    (hid : (split body).head? = (split body).getLast?) (n : Nat) (hn : n < body.length) :
    ¬ ((split (body.take n)).length = (split body).length ∧
       (split (body.take n)).head? = (split (body.take n)).getLast?) := by
  rintro ⟨hl, hs⟩
  unfold split at *
  rcases splitAux_take body [] n with h0 | ⟨pre, u, t, post, ha, hbb, hut⟩
  · rw [h0] at hl; simp at hl; omega
  · rw [ha, hbb] at hl
    have hpost : post = [] := by
      simp only [List.length_append, List.length_cons, List.length_nil] at hl
      exact List.eq_nil_of_length_eq_zero (by omega)
    subst hpost
    have hpre : pre ≠ [] := by
      intro h; subst h; rw [hbb] at h2; simp at h2
    obtain ⟨p0, pre', rfl⟩ := List.exists_cons_of_ne_nil hpre
    rw [ha] at hs
    rw [hbb] at hid
    have e : ∀ x : List Char, (p0 :: pre' ++ [x]).getLast? = some x := fun x => List.getLast?_concat
    rw [e] at hs hid
    simp only [List.cons_append, List.head?_cons] at hs hid
    have hut' : u = t := by
      have := hs.symm.trans hid
      simpa using this
    have heq : splitAux (body.take n) [] = splitAux body [] := by rw [ha, hbb, hut']
    have hf := congrArg List.flatten heq
    rw [splitAux_flatten, splitAux_flatten] at hf
    simp only [List.nil_append] at hf
    have hlen := congrArg List.length hf
    have hnle : n ≤ init.length := by rw [hb] at hn; simp at hn; omega
    have h1 : (List.filter (fun c => !isBlank c) body).length
        = (List.filter (fun c => !isBlank c) init).length + 1 := by
      rw [hb]; simp [List.filter_append, hc]
    have h2' : body.take n = init.take n := by
      rw [hb, List.take_append_of_le_length hnle]
    rw [h2'] at hlen
    have := filter_take_length_le init (fun c => !isBlank c) n
    omega

/-- a torn atom line (cut anywhere before the end of its last token) is never accepted -/
theorem lBody_torn_atom (st : LSt) (body init : List Char) (c : Char) (hb : body = init ++ [c])
    (hc : isBlank c = false) (h9 : (split body).length = 9)
    (hid : (split body).head? = (split body).getLast?) (n : Nat) (hn : n < body.length)
    (hline : 9 ≤ st.i % st.block) (tell' : Nat) :
    lBody st ((body ++ ['\n']).take n) (split ((body ++ ['\n']).take n)) tell' = .ret (st.traj, st.pos) := by
  have ht : (body ++ ['\n']).take n = body.take n := List.take_append_of_le_length (by omega)
  have hs := sentinel_detects body init c hb hc (by omega) hid n hn
  rw [h9] at hs
  have hnot : ¬ (5 ≤ st.i % st.block ∧ st.i % st.block ≤ 7) := by omega
  rw [ht]
  unfold lBody
  simp only [hnot, if_false, hline, if_true]
  by_cases hl : (split (body.take n)).length = 9
  · have : (split (body.take n)).head? ≠ (split (body.take n)).getLast? := fun h => hs ⟨hl, h⟩
    simp [this]
  · simp [hl]

/-- the complete atom line without its newline carries exactly the written tokens -/
theorem split_full_body (body : List Char) : split ((body ++ ['\n']).take body.length) = split (body ++ ['\n']) := by
  rw [List.take_append_of_le_length (Nat.le_refl _), List.take_length, split_append_nl]

end Infretis.Readers
