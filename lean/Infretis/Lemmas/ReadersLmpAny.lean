import Infretis.Lemmas.ReadersLmpRun
import Infretis.Lemmas.ReadersSpecS
/-!
# Lemmas for C13: `lammpstrj_reader` poll by poll for EVERY cut, any white space behind the trailing ids
(no cut guard: the per-frame-slack specification `lmpStagesS`)
-/
namespace Infretis.Readers

variable {v : Variant}

/-- the frames as the specification sees them: encoded length and slack -/
def frOf (frames : List LmpF) : List (Nat × Nat) := frames.map (fun f => (f.len, f.slack))

theorem frOf_fst (frames : List LmpF) : (frOf frames).map Prod.fst = frames.map LmpF.len := by
  simp [frOf, List.map_map, Function.comp_def]

theorem endOf_frOf (frames : List LmpF) (d : Nat) :
    endOf (frOf frames) d = sumLens ((frames.map LmpF.len).take d) := by
  simp only [endOf, ← List.map_take, frOf_fst]
  rw [show (frOf frames).take d = frOf (frames.take d) by simp [frOf, List.map_take], frOf_fst]

theorem endOf_frOf_enc (frames : List LmpF) (d : Nat) :
    endOf (frOf frames) d = (((frames.take d).map LmpF.enc).flatten).length := by
  rw [endOf_frOf, flatten_lenc_length, List.map_take]

/-- **one poll, loop level, any cut** (from a frame boundary): the frames accepted are those `lmpCountS` says -/
theorem lmpRun_framesS (N : Nat) (hN : 1 ≤ N) (rest : List LmpF) (hwf : ∀ f ∈ rest, f.WF N) (n : Nat)
    (st : LSt) (hst : LReady N st) :
    finish (fun st => (st.traj, st.pos)) (lmpRun v (lines ((rest.map LmpF.enc).flatten.take n)) st)
      = .ok (st.traj ++ (rest.map (LmpF.decode N)).take (lmpCountS (frOf rest) n).1,
             st.pos + endOf (frOf rest) (lmpCountS (frOf rest) n).1 - (lmpCountS (frOf rest) n).2) := by
  induction rest generalizing n st with
  | nil => simp [lines, lmpRun, finish, lmpCountS, frOf, endOf, sumLens]
  | cons f rest ih =>
    have hf := hwf f (by simp)
    have hrest : ∀ g ∈ rest, g.WF N := fun g hg => hwf g (by simp [hg])
    have hfr : frOf (f :: rest) = (f.len, f.slack) :: frOf rest := rfl
    simp only [List.map_cons, List.flatten_cons]
    by_cases hle : f.enc.length ≤ n
    · rw [List.take_append, List.take_of_length_le hle]
      have hl := lines_flatten_append f.lines hf.allLines
        (List.take (n - f.enc.length) (List.map LmpF.enc rest).flatten)
      have hfull := lmpRun_frame_as (v := v) N hN f hf f.atoms (fun a ha => (hf.atoms a ha).tok)
        (by rw [hf.natoms]; exact Nat.le_refl _) st hst
      rw [if_pos hf.natoms] at hfull
      rw [show f.enc ++ List.take (n - f.enc.length) (List.map LmpF.enc rest).flatten
            = f.lines.flatten ++ List.take (n - f.enc.length) (List.map LmpF.enc rest).flatten from rfl,
        hl, lmpRun_append, show f.lines = f.hdr ++ f.atoms from rfl, hfull]
      simp only []
      have hready : LReady N ⟨st.i + 9 + f.atoms.length, N, N + 9, zeros N 6, zeros 3 3,
          st.traj ++ [(f.atoms.foldl (lplace N) (zeros N 6), [boxRow f.b0, boxRow f.b1, boxRow f.b2])],
          st.tell + (f.hdr ++ f.atoms).flatten.length, st.tell + (f.hdr ++ f.atoms).flatten.length⟩ := by
        refine ⟨?_, Or.inr ⟨by simp only []; omega, rfl, rfl, rfl, rfl⟩, rfl⟩
        simp only [hf.natoms]
        rw [Nat.add_assoc, show 9 + N = N + 9 by omega, Nat.add_mod_right]; exact hst.imod
      rw [ih hrest _ _ hready]
      have hcc : lmpCountS ((f.len, f.slack) :: frOf rest) n
          = ((lmpCountS (frOf rest) (n - f.len)).1 + 1, (lmpCountS (frOf rest) (n - f.len)).2) := by
        simp [lmpCountS, LmpF.len, hle]
      rw [hfr, hcc]
      simp only [List.take_succ_cons, endOf_cons_succ, List.append_assoc, List.cons_append, List.nil_append,
        LmpF.len, hst.pos]
      have hfe : (f.hdr ++ f.atoms).flatten.length = f.enc.length := rfl
      rw [hfe]
      have hdec : (f.atoms.foldl (lplace N) (zeros N 6), [boxRow f.b0, boxRow f.b1, boxRow f.b2]) = f.decode N := rfl
      rw [hdec, Nat.add_assoc st.tell]
    · have hlt : n < f.enc.length := by omega
      rw [List.take_append_of_le_length (by omega), lmpRun_frame_torn N hN f hf st hst n hlt, hfr]
      by_cases hacc : f.enc.length ≤ n + f.slack
      · have hcc : lmpCountS ((f.len, f.slack) :: frOf rest) n = (1, f.len - n) := by
          simp [lmpCountS, LmpF.len, hle, hacc]
        rw [hcc, if_pos hacc]
        simp only [List.take_succ_cons, List.take_zero, endOf_cons_succ, endOf_zero, LmpF.len, hst.pos]
        congr 2
        omega
      · have hcc : lmpCountS ((f.len, f.slack) :: frOf rest) n = (0, 0) := by
          simp [lmpCountS, LmpF.len, hle, hacc]
        rw [hcc, if_neg hacc]
        simp [endOf_zero]

/-- **one poll from a frame boundary, any cut** -/
theorem lmpReader_pollS (N : Nat) (hN : 1 ≤ N) (done rest : List LmpF) (hwf : ∀ f ∈ rest, f.WF N) (c : Nat) :
    lmpReader v ((((done ++ rest).map LmpF.enc).flatten).take c) ((done.map LmpF.enc).flatten).length
      = .ok ((rest.map (LmpF.decode N)).take
               (lmpCountS (frOf rest) (c - ((done.map LmpF.enc).flatten).length)).1,
             ((done.map LmpF.enc).flatten).length
               + endOf (frOf rest) (lmpCountS (frOf rest) (c - ((done.map LmpF.enc).flatten).length)).1
               - (lmpCountS (frOf rest) (c - ((done.map LmpF.enc).flatten).length)).2) := by
  unfold lmpReader
  rw [List.drop_take, List.map_append, List.flatten_append, List.drop_left]
  have := lmpRun_framesS (v := v) N hN rest hwf (c - ((done.map LmpF.enc).flatten).length)
    (lInit ((done.map LmpF.enc).flatten).length) (lInit_ready N _)
  simpa [lInit] using this

/-- the end of a well-formed frame: the white space behind the trailing id of its last atom line, then the
    newline; `slack` counts exactly these bytes -/
theorem LmpF.WF.tail {N : Nat} {f : LmpF} (hf : f.WF N) (hN : 1 ≤ N) :
    ∃ A tb, f.enc = A ++ tb ++ ['\n'] ∧ tb.length + 1 = f.slack ∧ ∀ x ∈ tb, isBlank x = true ∧ x ≠ '\n' := by
  obtain ⟨last, hlast, hlastA, hslk, _, _⟩ := hf.last_line hN
  obtain ⟨ys, hys⟩ := List.getLast?_eq_some_iff.mp hlast
  have hmem : last ∈ f.atoms := List.mem_of_getElem? hlastA
  obtain ⟨init, c, tb, hb, _, hc, htb⟩ := (hf.atoms last hmem).body
  refine ⟨ys.flatten ++ (init ++ [c]), tb, ?_, ?_, htb⟩
  · simp only [LmpF.enc, hys, List.flatten_append, List.flatten_cons, List.flatten_nil, List.append_nil, hb,
      List.append_assoc]
  · rw [hslk, hb, trailLen_body init tb c hc htb]

/-- **one poll in the late state, any slack** (code as it is now): the reader stands `m` bytes (`1 ≤ m ≤ slack`)
    in front of the end of the frame `f` it has already returned; nothing is returned; the late line end is
    skipped as soon as the frame's newline is visible -/
theorem lmpReader_poll_lateS (N : Nat) (hN : 1 ≤ N) (done : List LmpF) (f : LmpF) (rest : List LmpF) (hf : f.WF N)
    (m : Nat) (hm1 : 1 ≤ m) (hm : m ≤ f.slack) (c : Nat) :
    lmpReader .repaired ((((done ++ f :: rest).map LmpF.enc).flatten).take c)
        ((((done ++ [f]).map LmpF.enc).flatten).length - m)
      = .ok ([], if c < (((done ++ [f]).map LmpF.enc).flatten).length
                 then (((done ++ [f]).map LmpF.enc).flatten).length - m
                 else (((done ++ [f]).map LmpF.enc).flatten).length) := by
  obtain ⟨A, tb, hdec, hsl, htb⟩ := hf.tail hN
  have hk : tb.length + 1 - m ≤ tb.length := by omega
  have hws : ∀ x ∈ tb.drop (tb.length + 1 - m), isBlank x = true ∧ x ≠ '\n' :=
    fun x hx => htb x (List.mem_of_mem_drop hx)
  have h1 : A ++ tb ++ ['\n'] = A ++ tb.take (tb.length + 1 - m) ++ (tb.drop (tb.length + 1 - m) ++ ['\n']) := by
    simp only [List.append_assoc]
    rw [← List.append_assoc (tb.take (tb.length + 1 - m)), List.take_append_drop]
  have hcontent : ((done ++ f :: rest).map LmpF.enc).flatten
      = ((done.map LmpF.enc).flatten ++ (A ++ tb.take (tb.length + 1 - m)))
          ++ (tb.drop (tb.length + 1 - m) ++ '\n' :: (rest.map LmpF.enc).flatten) := by
    simp only [List.map_append, List.map_cons, List.flatten_append, List.flatten_cons, hdec, h1, List.append_assoc,
      List.cons_append, List.nil_append]
  have hE : (((done ++ [f]).map LmpF.enc).flatten).length
      = ((done.map LmpF.enc).flatten).length + (A.length + tb.length + 1) := by
    simp only [List.map_append, List.map_cons, List.map_nil, List.flatten_append, List.flatten_cons,
      List.flatten_nil, List.append_nil, hdec, List.length_append, List.length_cons, List.length_nil]
    try omega
  have hpre : ((done.map LmpF.enc).flatten ++ (A ++ tb.take (tb.length + 1 - m))).length
      = (((done ++ [f]).map LmpF.enc).flatten).length - m := by
    rw [hE]
    simp only [List.length_append, List.length_take]
    omega
  have hwl : (tb.drop (tb.length + 1 - m)).length + 1 = m := by
    simp only [List.length_drop]; omega
  have := lmpReader_late_line_end ((done.map LmpF.enc).flatten ++ (A ++ tb.take (tb.length + 1 - m)))
    (tb.drop (tb.length + 1 - m)) ((rest.map LmpF.enc).flatten) hws c
  rw [← hcontent, hpre] at this
  rw [this]
  have hm' : m ≤ (((done ++ [f]).map LmpF.enc).flatten).length := by rw [hE]; omega
  by_cases hc : c < (((done ++ [f]).map LmpF.enc).flatten).length
  · rw [if_pos hc, if_neg (by omega)]
  · rw [if_neg hc, if_pos (by omega)]
    congr 2
    omega

/-- **all polls, every cut, any white space behind the trailing ids** (code as it is now): the real loop, polled on
    growing — or any — prefixes, behaves exactly as `lmpStagesS` says -/
theorem lmp_pollAllS (N : Nat) (hN : 1 ≤ N) (frames : List LmpF) (hwf : ∀ f ∈ frames, f.WF N)
    (cuts : List Nat) (done miss : Nat) (hd : done ≤ frames.length)
    (hm : miss ≠ 0 → 1 ≤ done ∧ ∃ f, frames[done - 1]? = some f ∧ miss ≤ f.slack) :
    pollAll (lmpReader .repaired) ((frames.map LmpF.enc).flatten) cuts (endOf (frOf frames) done - miss)
      = .ok (lmpStagesS (frOf frames) (frames.map (LmpF.decode N)) cuts done miss) := by
  induction cuts generalizing done miss with
  | nil => simp [pollAll, lmpStagesS]
  | cons c cs ih =>
    by_cases hm0 : miss ≠ 0
    · obtain ⟨hd1, f, hf, hms⟩ := hm hm0
      obtain ⟨j, rfl⟩ : ∃ j, done = j + 1 := ⟨done - 1, by omega⟩
      simp only [Nat.add_sub_cancel] at hf
      have hj : j < frames.length := by omega
      have hfj : frames[j] = f := by
        have := List.getElem?_eq_getElem hj
        rw [this] at hf; exact Option.some.inj hf
      have htake : frames.take (j + 1) = frames.take j ++ [f] := by
        rw [List.take_succ_eq_append_getElem hj, hfj]
      have hsplit : frames = frames.take j ++ f :: frames.drop (j + 1) := by
        have := (List.take_append_drop (j + 1) frames).symm
        rw [htake, List.append_assoc] at this
        exact this
      have hpoll := lmpReader_poll_lateS N hN (frames.take j) f (frames.drop (j + 1)) (hwf f (by rw [← hfj]; exact List.getElem_mem hj))
        miss (by omega) hms c
      rw [← hsplit, ← htake, ← endOf_frOf_enc] at hpoll
      simp only [pollAll, hpoll, lmpStagesS, hm0, if_true, ne_eq, not_false_eq_true]
      by_cases hc : c < endOf (frOf frames) (j + 1)
      · simp only [hc, if_true]
        rw [ih (j + 1) miss hd hm]
      · simp only [hc, if_false]
        have := ih (j + 1) 0 hd (by intro h; exact absurd rfl h)
        rw [Nat.sub_zero] at this
        rw [this]
    · have hmz : miss = 0 := by omega
      subst hmz
      have hsplit : frames = frames.take done ++ frames.drop done := (List.take_append_drop done frames).symm
      have hwfr : ∀ f ∈ frames.drop done, f.WF N := fun f hf => hwf f (List.mem_of_mem_drop hf)
      have hpoll := lmpReader_pollS (v := .repaired) N hN (frames.take done) (frames.drop done) hwfr c
      rw [← hsplit, ← endOf_frOf_enc] at hpoll
      have hfd : frOf (frames.drop done) = (frOf frames).drop done := by simp [frOf, List.map_drop]
      rw [hfd] at hpoll
      simp only [Nat.sub_zero, pollAll, hpoll, lmpStagesS, ne_eq, not_true_eq_false, if_false]
      obtain ⟨s1, _, s3, _⟩ := lmpCountS_spec ((frOf frames).drop done) (c - endOf (frOf frames) done)
      have hlen : (frOf frames).length = frames.length := by simp [frOf]
      have hnext := ih (done + (lmpCountS ((frOf frames).drop done) (c - endOf (frOf frames) done)).1)
        (lmpCountS ((frOf frames).drop done) (c - endOf (frOf frames) done)).2
        (by simp only [List.length_drop, hlen] at s1; omega)
        (by
          intro hne
          rcases s3 with s3 | ⟨j1, g, j2, j3, _⟩
          · exact absurd s3 hne
          · refine ⟨by omega, ?_⟩
            rw [List.getElem?_drop] at j2
            have hidx : done + (lmpCountS ((frOf frames).drop done) (c - endOf (frOf frames) done)).1 - 1
                = done + ((lmpCountS ((frOf frames).drop done) (c - endOf (frOf frames) done)).1 - 1) := by omega
            rw [hidx]
            simp only [frOf, List.getElem?_map, Option.map_eq_some_iff] at j2
            obtain ⟨f0, hf0, hg⟩ := j2
            exact ⟨f0, hf0, by rw [← hg] at j3; exact j3⟩)
      rw [endOf_add] at hnext
      rw [hnext]
      simp [List.map_drop]

end Infretis.Readers
