import Infretis.Lemmas.ReadersLmp
import Infretis.Lemmas.ReadersXyz
import Infretis.Lemmas.ReadersSpec
/-!
# Lemmas for C13, part 5: `lammpstrj_reader`, frame by frame and poll by poll
-/
namespace Infretis.Readers

variable {v : Variant}

/-- the text of one LAMMPS dump frame, line by line -/
structure LmpF where
  l0 : Line   -- ITEM: TIMESTEP
  l1 : Line   -- t
  l2 : Line   -- ITEM: NUMBER OF ATOMS
  l3 : Line   -- n
  l4 : Line   -- ITEM: BOX BOUNDS …
  b0 : Line
  b1 : Line
  b2 : Line
  l8 : Line   -- ITEM: ATOMS id type x y z vx vy vz id
  atoms : List Line

def LmpF.hdr (f : LmpF) : List Line := [f.l0, f.l1, f.l2, f.l3, f.l4, f.b0, f.b1, f.b2, f.l8]
def LmpF.lines (f : LmpF) : List Line := f.hdr ++ f.atoms
def LmpF.enc (f : LmpF) : List Char := f.lines.flatten
def LmpF.len (f : LmpF) : Nat := f.enc.length

def boxRow (b : Line) : List Tok := split b ++ List.replicate (3 - (split b).length) zeroTok

/-- `coordinate_snapshot[int(spl[0]) - 1, :] = spl[2:8]` -/
def lplace (N : Nat) (arr : List (List Tok)) (a : Line) : List (List Tok) :=
  match parseInt ((split a).headD []) with
  | some id =>
    match pyIndex N (id - 1) with
    | some k => arr.set k (((split a).drop 2).take 6)
    | none => arr
  | none => arr

/-- the values of the frame: six tokens per atom, stored at row `id - 1`; three box rows padded with 0 -/
def LmpF.decode (N : Nat) (f : LmpF) : LFrame :=
  (f.atoms.foldl (lplace N) (zeros N 6), [boxRow f.b0, boxRow f.b1, boxRow f.b2])

structure LBoxOK (b : Line) : Prop where
  line : IsLine b
  len : (split b).length = 2 ∨ (split b).length = 3
  fl : (split b).all floatOk = true

/-- what `lammpstrj_reader` looks at in an atom line (it never asks for the newline) -/
structure LAtomTok (N : Nat) (a : Line) : Prop where
  len : (split a).length = 9
  sent : (split a).head? = (split a).getLast?
  idx : ∃ id k, parseInt ((split a).headD []) = some id ∧ pyIndex N (id - 1) = some k
  fl : (((split a).drop 2).take 6).all floatOk = true

structure LAtomOK (N : Nat) (a : Line) : Prop where
  body : ∃ init c tb, a = ((init ++ [c]) ++ tb) ++ ['\n'] ∧ '\n' ∉ init ∧ isBlank c = false
    ∧ ∀ x ∈ tb, isBlank x = true ∧ x ≠ '\n'
  tok : LAtomTok N a

/-- well-formed frame of `N` atoms: complete lines; line 4 starts with the integer `N`; three box lines
    of two or three float literals; `N` atom lines `id type x y z vx vy vz id` (nine tokens, first = last,
    a valid row index, float literals, any blanks or tabs between the trailing id and the newline). The first
    line is not white space only. Header texts, blanks between tokens, number formats and the order of the ids
    are arbitrary. -/
structure LmpF.WF (N : Nat) (f : LmpF) : Prop where
  l0 : IsLine f.l0
  l0nb : ∃ c ∈ f.l0, isBlank c = false
  l1 : IsLine f.l1
  l2 : IsLine f.l2
  l3 : IsLine f.l3
  l3tok : ∃ t rest, split f.l3 = t :: rest ∧ parseInt t = some (N : Int)
  l4 : IsLine f.l4
  b0 : LBoxOK f.b0
  b1 : LBoxOK f.b1
  b2 : LBoxOK f.b2
  l8 : IsLine f.l8
  natoms : f.atoms.length = N
  atoms : ∀ a ∈ f.atoms, LAtomOK N a

theorem lmpLate_of_nonblank (l : Line) (h : ∃ c ∈ l, isBlank c = false) : lmpLate v l = false := by
  obtain ⟨c, hc, hb⟩ := h
  cases v with
  | asIs =>
    simp only [lmpLate, beq_eq_false_iff_ne, ne_eq]
    rintro rfl
    simp only [List.mem_singleton] at hc
    subst hc
    simp [isBlank] at hb
  | repaired =>
    simp only [lmpLate, Bool.and_eq_false_iff]
    right
    rw [List.all_eq_false]
    exact ⟨c, hc, by simp [hb]⟩

theorem lmpLate_of_noNl (p : Line) (hp : '\n' ∉ p) : lmpLate v p = false := by
  cases v with
  | asIs =>
    simp only [lmpLate, beq_eq_false_iff_ne, ne_eq]
    rintro rfl
    simp at hp
  | repaired =>
    simp [lmpLate, endsNl_false_of_noNl p hp]

theorem lmpLate_nl : lmpLate v ['\n'] = true := by
  cases v <;> decide

theorem LAtomOK.isLine {N : Nat} {a : Line} (h : LAtomOK N a) : IsLine a := by
  obtain ⟨init, c, tb, rfl, hi, hc, htb⟩ := h.body
  refine ⟨(init ++ [c]) ++ tb, rfl, ?_⟩
  intro hm
  simp only [List.mem_append, List.mem_singleton] at hm
  rcases hm with (hm | hm) | hm
  · exact hi hm
  · subst hm; simp [isBlank] at hc
  · exact (htb _ hm).2 rfl

theorem LmpF.WF.allLines {N : Nat} {f : LmpF} (h : f.WF N) : ∀ l ∈ f.lines, IsLine l := by
  intro l hl
  simp only [LmpF.lines, LmpF.hdr, List.mem_append, List.mem_cons, List.not_mem_nil, or_false] at hl
  rcases hl with (rfl | rfl | rfl | rfl | rfl | rfl | rfl | rfl | rfl) | hl
  · exact h.l0
  · exact h.l1
  · exact h.l2
  · exact h.l3
  · exact h.l4
  · exact h.b0.line
  · exact h.b1.line
  · exact h.b2.line
  · exact h.l8
  · exact (h.atoms l hl).isLine

theorem lmpRun_append (a b : List Line) (st : LSt) :
    lmpRun v (a ++ b) st = match lmpRun v a st with
      | .cont s => lmpRun v b s
      | .ret r => .ret r
      | .err e => .err e := by
  induction a generalizing st with
  | nil => simp [lmpRun]
  | cons l a ih =>
    simp only [List.cons_append, lmpRun]
    cases h : lmpStep v st l with
    | cont s => simp [ih]
    | ret r => simp
    | err e => simp

/-! ### exact single steps -/

/-- a line that is neither the atom-count line of the first frame, nor a box line, nor an atom line -/
theorem lmpStep_plain (st : LSt) (line : Line) (h0 : ¬ (st.i = 0 ∧ lmpLate v line = true)) (h3 : st.i ≠ 3)
    (hb : ¬ (5 ≤ st.i % st.block ∧ st.i % st.block ≤ 7)) (ha : ¬ 9 ≤ st.i % st.block)
    (he : ¬ (st.i % st.block = st.block - 1 ∧ st.i > 0)) :
    lmpStep v st line = .cont { st with i := st.i + 1, tell := st.tell + line.length } := by
  simp only [lmpStep, h0, h3, if_false, lBody, hb, ha, lEnd, he]

theorem lmpStep_natoms (N : Nat) (st : LSt) (line : Line) (hi : st.i = 3) (hl : IsLine line)
    (htok : ∃ t rest, split line = t :: rest ∧ parseInt t = some (N : Int)) :
    lmpStep v st line = .cont { st with i := 4, natoms := N, block := N + 9, coords := zeros N 6,
                                        box := zeros 3 3, tell := st.tell + line.length } := by
  obtain ⟨t, rest, hs, hp⟩ := htok
  have h0 : ¬ (st.i = 0 ∧ lmpLate v line = true) := by omega
  have hN : ¬ ((N : Int) < 0) := by omega
  have hm : 3 % (N + 9) = 3 := Nat.mod_eq_of_lt (by omega)
  simp only [lmpStep, h0, hi, if_false, if_true, hs, List.isEmpty_cons, hl.endsNl, List.headD_cons, hp, hN,
    Int.toNat_natCast, lBody, hm, lEnd, Bool.false_eq_true, or_self]
  have h1 : ¬ (5 ≤ 3 ∧ 3 ≤ 7) := by omega
  have h2 : ¬ (9 ≤ 3) := by omega
  have h4 : ¬ (3 = N + 9 - 1 ∧ 3 > 0) := by omega
  simp [h1, h2, h4]

theorem lmpStep_box (st : LSt) (b : Line) (hb : LBoxOK b) (r : Nat) (hr : st.i % st.block = r)
    (h5 : 5 ≤ r) (h7 : r ≤ 7) (hbl : 9 ≤ st.block) (hi : 4 ≤ st.i) :
    lmpStep v st b = .cont { st with i := st.i + 1, tell := st.tell + b.length,
                                     box := st.box.set (r - 5) (boxRow b) } := by
  have h0 : ¬ (st.i = 0 ∧ lmpLate v b = true) := by omega
  have h3 : st.i ≠ 3 := by omega
  have hc : 5 ≤ r ∧ r ≤ 7 := ⟨h5, h7⟩
  have hn : ¬ (((split b).length ≠ 2 ∧ (split b).length ≠ 3) ∨ endsNl b = false) := by
    have := hb.len; simp [hb.line.endsNl]; omega
  have he : ¬ (r = st.block - 1 ∧ st.i > 0) := by omega
  simp only [lmpStep, h0, h3, if_false, lBody, hr, hc, and_self, if_true, hn, hb.fl, lEnd, he, boxRow]

/-- an atom line — complete, or complete except for its newline: only its tokens matter -/
theorem lmpStep_atom (N : Nat) (st : LSt) (a : Line) (ha : LAtomTok N a) (hr : 9 ≤ st.i % st.block)
    (hi : 4 ≤ st.i) (hn : st.natoms = N) :
    lmpStep v st a = .cont (lEnd { st with coords := lplace N st.coords a } (st.tell + a.length)) := by
  have h0 : ¬ (st.i = 0 ∧ lmpLate v a = true) := by omega
  have h3 : st.i ≠ 3 := by omega
  have hb : ¬ (5 ≤ st.i % st.block ∧ st.i % st.block ≤ 7) := by omega
  obtain ⟨id, k, hp, hk⟩ := ha.idx
  have hc : ¬ ((split a).length ≠ 9 ∨ (split a).head? ≠ (split a).getLast?) := by
    simp [ha.len, ha.sent]
  simp only [lmpStep, h0, h3, if_false, lBody, hb, hr, if_true, hc, hp, hn, hk, ha.fl, lplace]

theorem lmpStep_plain' (i natoms block : Nat) (coords box : List (List Tok)) (traj : List LFrame)
    (pos tell : Nat) (line : Line) (r : Nat) (hr : i % block = r) (h0 : ¬ (i = 0 ∧ lmpLate v line = true))
    (h3 : i ≠ 3) (hr1 : r < 5 ∨ r = 8) (hr2 : r + 1 < block) :
    lmpStep v ⟨i, natoms, block, coords, box, traj, pos, tell⟩ line
      = .cont ⟨i + 1, natoms, block, coords, box, traj, pos, tell + line.length⟩ := by
  rw [lmpStep_plain _ _ (by simpa using h0) (by simpa using h3) (by simp only [hr]; omega)
    (by simp only [hr]; omega) (by simp only [hr]; omega)]

theorem lmpRun_atoms (N : Nat) (as : List Line) (hwf : ∀ a ∈ as, LAtomTok N a) (i0 : Nat)
    (hi0 : i0 % (N + 9) = 0) (done : Nat) (hlen : done + as.length ≤ N)
    (coords box : List (List Tok)) (traj : List LFrame) (pos tell : Nat) :
    lmpRun v as ⟨i0 + 9 + done, N, N + 9, coords, box, traj, pos, tell⟩
      = .cont (if done + as.length = N ∧ as ≠ [] then
          ⟨i0 + 9 + done + as.length, N, N + 9, zeros N 6, zeros 3 3,
            traj ++ [(as.foldl (lplace N) coords, box)], tell + as.flatten.length,
            tell + as.flatten.length⟩
        else
          ⟨i0 + 9 + done + as.length, N, N + 9, as.foldl (lplace N) coords, box, traj, pos,
            tell + as.flatten.length⟩) := by
  induction as generalizing done coords tell with
  | nil => simp [lmpRun]
  | cons a as ih =>
    have ha := hwf a (by simp)
    have has : ∀ x ∈ as, LAtomTok N x := fun x hx => hwf x (by simp [hx])
    simp only [List.length_cons] at hlen
    have hmod : (i0 + 9 + done) % (N + 9) = 9 + done := by
      rw [Nat.add_assoc]; exact add_mod_of_mod_zero i0 (9 + done) (N + 9) hi0 (by omega)
    simp only [lmpRun]
    rw [lmpStep_atom N _ a ha (by simp only [hmod]; omega) (by simp only []; omega) rfl]
    by_cases hlast : done + 1 = N
    · have hnil : as = [] := by
        cases as with
        | nil => rfl
        | cons _ _ => simp at hlen; omega
      subst hnil
      have hc : (9 + done = N + 9 - 1 ∧ i0 + 9 + done > 0) := by omega
      simp [lEnd, hmod, hc, lmpRun, hlast]
    · have hc : ¬ (9 + done = N + 9 - 1 ∧ i0 + 9 + done > 0) := by omega
      simp only [lEnd, hmod, hc, if_false]
      have := ih has (done + 1) (by omega) (lplace N coords a) (tell + a.length)
      rw [show i0 + 9 + done + 1 = i0 + 9 + (done + 1) by omega, this]
      have e3 : (done + 1 + as.length = N ∧ as ≠ []) ↔ (done + (as.length + 1) = N ∧ a :: as ≠ []) := by
        constructor
        · rintro ⟨h, _⟩; exact ⟨by omega, by simp⟩
        · rintro ⟨h, _⟩
          refine ⟨by omega, ?_⟩
          rintro rfl; simp at h; omega
      simp only [e3, List.length_cons, List.foldl_cons, List.flatten_cons, List.length_append]
      rw [show i0 + 9 + (done + 1) + as.length = i0 + 9 + done + (as.length + 1) by omega,
        Nat.add_assoc tell]

/-- lines 5–9 of a frame and its atom lines, from the state reached after the atom-count line -/
theorem lmpRun_tail (N : Nat) (hN : 1 ≤ N) (f : LmpF) (hf : f.WF N) (as : List Line)
    (hwf : ∀ a ∈ as, LAtomTok N a) (hlen : as.length ≤ N) (i0 : Nat) (hi0 : i0 % (N + 9) = 0)
    (traj : List LFrame) (pos tell : Nat) :
    lmpRun v ([f.l4, f.b0, f.b1, f.b2, f.l8] ++ as) ⟨i0 + 4, N, N + 9, zeros N 6, zeros 3 3, traj, pos, tell⟩
      = .cont (if as.length = N then
          ⟨i0 + 9 + as.length, N, N + 9, zeros N 6, zeros 3 3,
            traj ++ [(as.foldl (lplace N) (zeros N 6), [boxRow f.b0, boxRow f.b1, boxRow f.b2])],
            tell + ([f.l4, f.b0, f.b1, f.b2, f.l8] ++ as).flatten.length,
            tell + ([f.l4, f.b0, f.b1, f.b2, f.l8] ++ as).flatten.length⟩
        else
          ⟨i0 + 9 + as.length, N, N + 9, as.foldl (lplace N) (zeros N 6),
            [boxRow f.b0, boxRow f.b1, boxRow f.b2], traj, pos,
            tell + ([f.l4, f.b0, f.b1, f.b2, f.l8] ++ as).flatten.length⟩) := by
  have hm : ∀ r, r < N + 9 → (i0 + r) % (N + 9) = r := fun r hr => add_mod_of_mod_zero i0 r (N + 9) hi0 hr
  simp only [List.cons_append, List.nil_append, lmpRun]
  rw [lmpStep_plain' _ _ _ _ _ _ _ _ f.l4 4 (hm 4 (by omega)) (by omega) (by omega) (by omega) (by omega)]
  simp only []
  rw [lmpStep_box _ f.b0 hf.b0 5 (by simpa using hm 5 (by omega)) (by omega) (by omega)
    (by simp only []; omega) (by simp only []; omega)]
  simp only []
  rw [lmpStep_box _ f.b1 hf.b1 6 (by simpa using hm 6 (by omega)) (by omega) (by omega)
    (by simp only []; omega) (by simp only []; omega)]
  simp only []
  rw [lmpStep_box _ f.b2 hf.b2 7 (by simpa using hm 7 (by omega)) (by omega) (by omega)
    (by simp only []; omega) (by simp only []; omega)]
  simp only []
  rw [lmpStep_plain' _ _ _ _ _ _ _ _ f.l8 8 (by simpa using hm 8 (by omega)) (by omega) (by omega)
    (by omega) (by omega)]
  have hbox : (((zeros 3 3).set (5 - 5) (boxRow f.b0)).set (6 - 5) (boxRow f.b1)).set (7 - 5) (boxRow f.b2)
      = [boxRow f.b0, boxRow f.b1, boxRow f.b2] := by
    simp [zeros, List.replicate]
  have := lmpRun_atoms (v := v) N as hwf i0 hi0 0 (by simpa using hlen) (zeros N 6)
    [boxRow f.b0, boxRow f.b1, boxRow f.b2] traj pos
    (tell + f.l4.length + f.b0.length + f.b1.length + f.b2.length + f.l8.length)
  simp only [Nat.add_zero, Nat.zero_add] at this
  rw [hbox, show i0 + 4 + 1 + 1 + 1 + 1 + 1 = i0 + 9 by omega]
  simp only []
  rw [this]
  have hne : (as.length = N ∧ as ≠ []) ↔ as.length = N := by
    constructor
    · exact fun h => h.1
    · intro h; refine ⟨h, ?_⟩; rintro rfl; simp at h; omega
  simp only [hne, List.flatten_cons, List.length_append, List.flatten_nil, List.length_nil]
  simp only [Nat.add_assoc]

/-! ### what any continuing step preserves -/

theorem lEnd_fields (st : LSt) (tell' : Nat) :
    (lEnd st tell').i = st.i + 1 ∧ (lEnd st tell').block = st.block ∧ (lEnd st tell').natoms = st.natoms ∧
    (¬ (st.i % st.block = st.block - 1 ∧ st.i > 0) →
      (lEnd st tell').traj = st.traj ∧ (lEnd st tell').pos = st.pos) := by
  unfold lEnd
  split <;> simp_all

theorem lBody_cont (st : LSt) (line : Line) (spl : List Tok) (tell' : Nat) (s' : LSt)
    (h : lBody st line spl tell' = .cont s') :
    ∃ st2, s' = lEnd st2 tell' ∧ st2.i = st.i ∧ st2.block = st.block ∧ st2.natoms = st.natoms ∧
      st2.traj = st.traj ∧ st2.pos = st.pos := by
  unfold lBody at h
  by_cases hbx : 5 ≤ st.i % st.block ∧ st.i % st.block ≤ 7
  · simp only [hbx, and_self, if_true] at h
    by_cases hc : ((spl.length ≠ 2 ∧ spl.length ≠ 3) ∨ endsNl line = false)
    · simp only [hc, if_true] at h; cases h
    · simp only [hc, if_false] at h
      by_cases hf : spl.all floatOk = true
      · simp only [hf, if_true] at h
        injection h with h; exact ⟨_, h.symm, rfl, rfl, rfl, rfl, rfl⟩
      · simp only [hf] at h; cases h
  · simp only [hbx, if_false] at h
    by_cases h9 : 9 ≤ st.i % st.block
    · simp only [h9, if_true] at h
      by_cases hc : (spl.length ≠ 9 ∨ spl.head? ≠ spl.getLast?)
      · simp only [hc, if_true] at h; cases h
      · simp only [hc, if_false] at h
        cases hp : parseInt (spl.headD []) with
        | none => simp only [hp] at h; cases h
        | some id =>
          simp only [hp] at h
          cases hk : pyIndex st.natoms (id - 1) with
          | none => simp only [hk] at h; cases h
          | some k =>
            simp only [hk] at h
            by_cases hf : (List.take 6 (List.drop 2 spl)).all floatOk = true
            · simp only [hf, if_true] at h
              injection h with h; exact ⟨_, h.symm, rfl, rfl, rfl, rfl, rfl⟩
            · simp only [hf] at h; cases h
    · simp only [h9, if_false] at h
      injection h with h; exact ⟨_, h.symm, rfl, rfl, rfl, rfl, rfl⟩

theorem lmpStep_cont (st : LSt) (line : Line) (s' : LSt) (h : lmpStep v st line = .cont s') (h3 : st.i ≠ 3) :
    s'.i = st.i + 1 ∧ s'.block = st.block ∧ s'.natoms = st.natoms ∧
    (¬ (st.i % st.block = st.block - 1 ∧ st.i > 0) → s'.traj = st.traj ∧ s'.pos = st.pos) := by
  unfold lmpStep at h
  split at h
  · cases h
  · simp only [h3, if_false] at h
    obtain ⟨st2, rfl, hi, hb, hn, ht, hp⟩ := lBody_cont _ _ _ _ _ h
    obtain ⟨e1, e2, e3, e4⟩ := lEnd_fields st2 (st.tell + line.length)
    refine ⟨by rw [e1, hi], by rw [e2, hb], by rw [e3, hn], ?_⟩
    intro hq
    rw [← hi, ← hb] at hq
    obtain ⟨e5, e6⟩ := e4 hq
    exact ⟨by rw [e5, ht], by rw [e6, hp]⟩

/-- a run in which no step is the atom-count line of the first frame or the last line of a block keeps
    `block_size`, `N_atoms`, `trajectory` and `current_position` -/
theorem lmpRun_quiet (A : List Line) (st S : LSt) (h : lmpRun v A st = .cont S) (B : Nat) (hb : st.block = B)
    (hq : ∀ j, j < A.length → st.i + j ≠ 3 ∧ ¬ ((st.i + j) % B = B - 1 ∧ st.i + j > 0)) :
    S.i = st.i + A.length ∧ S.block = B ∧ S.natoms = st.natoms ∧ S.traj = st.traj ∧ S.pos = st.pos := by
  induction A generalizing st with
  | nil => simp only [lmpRun] at h; injection h with h; subst h; simp [hb]
  | cons l A ih =>
    simp only [lmpRun] at h
    cases hs : lmpStep v st l with
    | ret r => rw [hs] at h; cases h
    | err e => rw [hs] at h; cases h
    | cont s1 =>
      rw [hs] at h
      have h0 := hq 0 (by simp)
      simp only [Nat.add_zero] at h0
      obtain ⟨e1, e2, e3, e4⟩ := lmpStep_cont st l s1 hs h0.1
      obtain ⟨e5, e6⟩ := e4 (by rw [hb]; exact h0.2)
      have := ih s1 h (by rw [e2, hb]) (by
        intro j hj
        have := hq (j + 1) (by simp; omega)
        rw [e1, show st.i + 1 + j = st.i + (j + 1) by omega]
        exact this)
      obtain ⟨f1, f2, f3, f4, f5⟩ := this
      refine ⟨by rw [f1, e1]; simp; omega, f2, by rw [f3, e3], by rw [f4, e5], by rw [f5, e6]⟩

theorem lmpRun_prefix_cont (A B : List Line) (st S : LSt) (h : lmpRun v (A ++ B) st = .cont S) :
    ∃ S', lmpRun v A st = .cont S' ∧ lmpRun v B S' = .cont S := by
  rw [lmpRun_append] at h
  cases hA : lmpRun v A st with
  | cont S' => rw [hA] at h; exact ⟨S', rfl, h⟩
  | ret r => rw [hA] at h; cases h
  | err e => rw [hA] at h; cases h

/-! ### one frame -/

/-- state in which the loop meets the first line of a frame -/
structure LReady (N : Nat) (st : LSt) : Prop where
  imod : st.i % (N + 9) = 0
  kind : (st.i = 0 ∧ st.block = 4) ∨
    (st.i ≠ 0 ∧ st.natoms = N ∧ st.block = N + 9 ∧ st.coords = zeros N 6 ∧ st.box = zeros 3 3)
  pos : st.pos = st.tell

theorem lInit_ready (N pos : Nat) : LReady N (lInit pos) :=
  ⟨by simp [lInit], Or.inl ⟨rfl, rfl⟩, rfl⟩

theorem LReady.ge {N : Nat} {st : LSt} (h : LReady N st) (hne : st.i ≠ 0) : N + 9 ≤ st.i := by
  rcases Nat.lt_or_ge st.i (N + 9) with hlt | hge
  · have := Nat.mod_eq_of_lt hlt
    rw [h.imod] at this; omega
  · exact hge

/-- the first four lines of a frame: afterwards `N_atoms`, `block_size` and fresh arrays are in place,
    whether this is the first frame of the poll (learned from line 4) or a later one (kept) -/
theorem lmpRun_hdr4 (N : Nat) (hN : 1 ≤ N) (f : LmpF) (hf : f.WF N) (st : LSt) (hst : LReady N st) :
    lmpRun v [f.l0, f.l1, f.l2, f.l3] st
      = .cont ⟨st.i + 4, N, N + 9, zeros N 6, zeros 3 3, st.traj, st.pos,
               st.tell + (f.l0.length + (f.l1.length + (f.l2.length + f.l3.length)))⟩ := by
  have hge := hst.ge
  obtain ⟨him, hkind, _⟩ := hst
  obtain ⟨i, natoms, block, coords, box, traj, pos, tell⟩ := st
  simp only at him hkind hge ⊢
  rcases hkind with ⟨h0, hb⟩ | ⟨hne, hn, hb, hc, hx⟩
  · subst h0 hb
    simp only [lmpRun]
    rw [lmpStep_plain' 0 _ 4 _ _ _ _ _ f.l0 0 rfl (by simp [lmpLate_of_nonblank f.l0 hf.l0nb]) (by omega) (by omega) (by omega)]
    simp only []
    rw [lmpStep_plain' (0 + 1) _ 4 _ _ _ _ _ f.l1 1 rfl (by omega) (by omega) (by omega) (by omega)]
    simp only []
    rw [lmpStep_plain' (0 + 1 + 1) _ 4 _ _ _ _ _ f.l2 2 rfl (by omega) (by omega) (by omega) (by omega)]
    simp only []
    rw [lmpStep_natoms N _ f.l3 rfl hf.l3 hf.l3tok]
    simp only [Res.cont.injEq, LSt.mk.injEq, true_and]
    omega
  · subst hn hb hc hx
    have hge := hge hne
    have hm : ∀ r, r < natoms + 9 → (i + r) % (natoms + 9) = r :=
      fun r hr => add_mod_of_mod_zero i r (natoms + 9) him hr
    simp only [lmpRun]
    rw [lmpStep_plain' i _ _ _ _ _ _ _ f.l0 0 him (by omega) (by omega) (by omega) (by omega)]
    simp only []
    rw [lmpStep_plain' (i + 1) _ _ _ _ _ _ _ f.l1 1 (hm 1 (by omega)) (by omega) (by omega) (by omega) (by omega)]
    simp only []
    rw [lmpStep_plain' (i + 1 + 1) _ _ _ _ _ _ _ f.l2 2 (by simpa using hm 2 (by omega)) (by omega) (by omega)
      (by omega) (by omega)]
    simp only []
    rw [lmpStep_plain' (i + 1 + 1 + 1) _ _ _ _ _ _ _ f.l3 3 (by simpa using hm 3 (by omega)) (by omega)
      (by omega) (by omega) (by omega)]
    simp only [Res.cont.injEq, LSt.mk.injEq, true_and]
    omega

/-- header plus `as` atom lines (complete ones, or the last one without its newline) -/
theorem lmpRun_frame_as (N : Nat) (hN : 1 ≤ N) (f : LmpF) (hf : f.WF N) (as : List Line)
    (hwf : ∀ a ∈ as, LAtomTok N a) (hlen : as.length ≤ N) (st : LSt) (hst : LReady N st) :
    lmpRun v (f.hdr ++ as) st
      = .cont (if as.length = N then
          ⟨st.i + 9 + as.length, N, N + 9, zeros N 6, zeros 3 3,
            st.traj ++ [(as.foldl (lplace N) (zeros N 6), [boxRow f.b0, boxRow f.b1, boxRow f.b2])],
            st.tell + (f.hdr ++ as).flatten.length, st.tell + (f.hdr ++ as).flatten.length⟩
        else
          ⟨st.i + 9 + as.length, N, N + 9, as.foldl (lplace N) (zeros N 6),
            [boxRow f.b0, boxRow f.b1, boxRow f.b2], st.traj, st.pos,
            st.tell + (f.hdr ++ as).flatten.length⟩) := by
  have e : f.hdr ++ as = [f.l0, f.l1, f.l2, f.l3] ++ ([f.l4, f.b0, f.b1, f.b2, f.l8] ++ as) := by
    simp [LmpF.hdr]
  rw [e, lmpRun_append, lmpRun_hdr4 N hN f hf st hst]
  simp only []
  rw [lmpRun_tail N hN f hf as hwf hlen st.i hst.imod]
  simp only [List.cons_append, List.nil_append, List.flatten_cons, List.length_append, Nat.add_assoc]

theorem flatten_length_pos (fl : List Line) (h : ∀ l ∈ fl, IsLine l) (hne : fl ≠ []) :
    0 < fl.flatten.length := by
  cases fl with
  | nil => exact absurd rfl hne
  | cons l fl => have := (h l (by simp)).length_pos; simp; omega

/-- number of white-space characters at the end of a line, its newline included -/
def trailLen (a : Line) : Nat := (a.reverse.takeWhile isBlank).length

/-- how many bytes of a frame may still be missing when `lammpstrj_reader` accepts it: the white space and the
    newline behind the trailing id of its last atom line (1 = only the newline) -/
def LmpF.slack (f : LmpF) : Nat :=
  match f.atoms.getLast? with
  | some a => trailLen a
  | none => 1

theorem takeWhile_append_stop (p : Char → Bool) (l1 l2 : List Char) (c : Char) (h1 : ∀ x ∈ l1, p x = true)
    (hc : p c = false) : (l1 ++ c :: l2).takeWhile p = l1 := by
  induction l1 with
  | nil => simp [List.takeWhile, hc]
  | cons x xs ih =>
    simp only [List.cons_append, List.takeWhile_cons, h1 x (by simp), if_true]
    rw [ih (fun y hy => h1 y (by simp [hy]))]

theorem trailLen_body (init tb : List Char) (c : Char) (hc : isBlank c = false)
    (htb : ∀ x ∈ tb, isBlank x = true ∧ x ≠ '\n') :
    trailLen (((init ++ [c]) ++ tb) ++ ['\n']) = tb.length + 1 := by
  unfold trailLen
  have : (((init ++ [c]) ++ tb) ++ ['\n']).reverse = ('\n' :: tb.reverse) ++ c :: init.reverse := by simp
  rw [this, takeWhile_append_stop isBlank _ _ c ?_ hc]
  · simp
  · intro x hx
    simp only [List.mem_cons, List.mem_reverse] at hx
    rcases hx with rfl | hx
    · decide
    · exact (htb x hx).1

theorem length_le_flatten (fl : List Line) (l : Line) (h : l ∈ fl) : l.length ≤ fl.flatten.length := by
  induction fl with
  | nil => cases h
  | cons x xs ih =>
    simp only [List.flatten_cons, List.length_append]
    rcases List.mem_cons.mp h with rfl | h
    · omega
    · have := ih h; omega

/-- where a cut lies: at most `t` bytes of `fl` are missing iff it is in the last line, at most `t` bytes short
    (`t` smaller than the length of the last line) -/
theorem cut_arith_t (fl : List Line) (k : Nat) (hk : k < fl.length) (j : Nat)
    (hj : j < fl[k].length) (last : Line) (hlast : fl.getLast? = some last) (t : Nat) (ht : t < last.length) :
    fl.flatten.length ≤ ((fl.take k).flatten).length + j + t ↔ (k + 1 = fl.length ∧ fl[k].length ≤ j + t) := by
  have hsplit : fl = fl.take k ++ fl[k] :: fl.drop (k + 1) := by
    rw [List.getElem_cons_drop hk, List.take_append_drop]
  have hlen : fl.flatten.length
      = ((fl.take k).flatten).length + (fl[k].length + ((fl.drop (k + 1)).flatten).length) := by
    have := congrArg (fun x => x.flatten.length) hsplit
    simpa only [List.flatten_append, List.flatten_cons, List.length_append] using this
  by_cases hkl : k + 1 = fl.length
  · have hnil : fl.drop (k + 1) = [] := List.drop_eq_nil_iff.mpr (by omega)
    rw [hlen, hnil]
    simp only [List.flatten_nil, List.length_nil, Nat.add_zero]
    constructor
    · intro h; exact ⟨hkl, by omega⟩
    · rintro ⟨_, h⟩; omega
  · have hmem : last ∈ fl.drop (k + 1) := by
      have hne : fl.drop (k + 1) ≠ [] := by
        intro h; have := List.drop_eq_nil_iff.mp h; omega
      have hl2 : (fl.drop (k + 1)).getLast? = some last := by
        rw [List.getLast?_drop]; simp [hlast]; omega
      exact List.mem_of_getLast? hl2
    have := length_le_flatten _ _ hmem
    constructor
    · intro h; omega
    · rintro ⟨h, _⟩; exact absurd h hkl

/-- where a cut lies: it misses exactly the last byte of `fl` iff it is in the last line, one byte short -/
theorem cut_arith (fl : List Line) (h : ∀ l ∈ fl, IsLine l) (k : Nat) (hk : k < fl.length) (j : Nat)
    (hj : j < fl[k].length) :
    ((fl.take k).flatten).length + j + 1 = fl.flatten.length ↔ (k + 1 = fl.length ∧ j + 1 = fl[k].length) := by
  have hsplit : fl = fl.take k ++ fl[k] :: fl.drop (k + 1) := by
    rw [List.getElem_cons_drop hk, List.take_append_drop]
  have hlen : fl.flatten.length
      = ((fl.take k).flatten).length + (fl[k].length + ((fl.drop (k + 1)).flatten).length) := by
    have := congrArg (fun x => x.flatten.length) hsplit
    simpa only [List.flatten_append, List.flatten_cons, List.length_append] using this
  constructor
  · intro he
    have hQ : ((fl.drop (k + 1)).flatten).length = 0 := by omega
    have hnil : fl.drop (k + 1) = [] := by
      cases hd : fl.drop (k + 1) with
      | nil => rfl
      | cons x xs =>
        have := flatten_length_pos (fl.drop (k + 1)) (fun l hl => h l (List.mem_of_mem_drop hl)) (by simp [hd])
        omega
    have : fl.length ≤ k + 1 := by simpa using List.drop_eq_nil_iff.mp hnil
    exact ⟨by omega, by omega⟩
  · rintro ⟨h1, h2⟩
    have hnil : fl.drop (k + 1) = [] := List.drop_eq_nil_iff.mpr (by omega)
    rw [hlen, hnil]; simp; omega

/-- the state after `k ≤ 8` header lines -/
theorem lmpRun_hdr_prefix (N : Nat) (hN : 1 ≤ N) (f : LmpF) (hf : f.WF N) (st : LSt) (hst : LReady N st)
    (k : Nat) (hk : k ≤ 8) :
    ∃ S, lmpRun v (f.hdr.take k) st = .cont S ∧ S.i = st.i + k ∧ S.traj = st.traj ∧ S.pos = st.pos ∧
      ((st.i = 0 ∧ k ≤ 3 ∧ S.block = 4) ∨ (S.block = N + 9 ∧ S.natoms = N ∧ (st.i = 0 → 4 ≤ k))) := by
  have hfull := lmpRun_frame_as (v := v) N hN f hf [] (by simp) (by simp) st hst
  rw [List.append_nil] at hfull
  have hsplit : f.hdr = f.hdr.take k ++ f.hdr.drop k := (List.take_append_drop k f.hdr).symm
  rw [hsplit] at hfull
  obtain ⟨S, hS, _⟩ := lmpRun_prefix_cont _ _ _ _ hfull
  have hlen : (f.hdr.take k).length = k := by simp [LmpF.hdr]; omega
  refine ⟨S, hS, ?_⟩
  rcases hst.kind with ⟨h0, hb⟩ | ⟨hne, hn, hb, _, _⟩
  · by_cases hk3 : k ≤ 3
    · obtain ⟨e1, e2, _, e4, e5⟩ := lmpRun_quiet _ st S hS 4 hb (by
        intro j hj; rw [hlen] at hj; rw [h0]; omega)
      exact ⟨by rw [e1, hlen], e4, e5, Or.inl ⟨h0, hk3, e2⟩⟩
    · have e : f.hdr.take k = [f.l0, f.l1, f.l2, f.l3] ++ ([f.l4, f.b0, f.b1, f.b2, f.l8].take (k - 4)) := by
        obtain ⟨k', rfl⟩ : ∃ k', k = k' + 4 := ⟨k - 4, by omega⟩
        simp [LmpF.hdr]
      rw [e, lmpRun_append, lmpRun_hdr4 N hN f hf st hst] at hS
      simp only [] at hS
      have hlen' : ([f.l4, f.b0, f.b1, f.b2, f.l8].take (k - 4)).length = k - 4 := by simp; omega
      obtain ⟨e1, e2, e3, e4, e5⟩ := lmpRun_quiet _ _ S hS (N + 9) rfl (by
        intro j hj; rw [hlen'] at hj
        simp only [h0]
        have : (0 + 4 + j) % (N + 9) = 0 + 4 + j := Nat.mod_eq_of_lt (by omega)
        rw [this]; omega)
      simp only [] at e1 e3 e4 e5
      exact ⟨by rw [e1, hlen']; omega, e4, e5, Or.inr ⟨e2, e3, fun _ => by omega⟩⟩
  · have hge := hst.ge hne
    obtain ⟨e1, e2, e3, e4, e5⟩ := lmpRun_quiet _ st S hS (N + 9) hb (by
      intro j hj; rw [hlen] at hj
      have : (st.i + j) % (N + 9) = j := add_mod_of_mod_zero st.i j (N + 9) hst.imod (by omega)
      rw [this]; omega)
    exact ⟨by rw [e1, hlen], e4, e5, Or.inr ⟨e2, by rw [e3, hn], fun h => absurd h hne⟩⟩

/-- a header line that is still being written never makes the reader return a frame or raise -/
theorem lmpStep_torn_hdr (N : Nat) (hN : 1 ≤ N) (S : LSt) (p : Line) (hp : '\n' ∉ p) (k : Nat) (hk : k ≤ 8)
    (i0 : Nat) (hi0 : i0 % (N + 9) = 0) (hi0' : i0 ≠ 0 → N + 9 ≤ i0) (hSi : S.i = i0 + k)
    (hb : (i0 = 0 ∧ k ≤ 3 ∧ S.block = 4) ∨ (S.block = N + 9 ∧ S.natoms = N ∧ (i0 = 0 → 4 ≤ k))) :
    (∃ s', lmpStep v S p = .cont s' ∧ s'.traj = S.traj ∧ s'.pos = S.pos) ∨ lmpStep v S p = .ret (S.traj, S.pos) := by
  have hnl := endsNl_false_of_noNl p hp
  have hpn : p ≠ ['\n'] := by rintro rfl; simp at hp
  have h0 : ¬ (S.i = 0 ∧ lmpLate v p = true) := by
    intro h; rw [lmpLate_of_noNl p hp] at h; exact absurd h.2 (by simp)
  rcases hb with ⟨h00, hk3, hb4⟩ | ⟨hbN, hnat, hk4⟩
  · subst h00
    by_cases hk3' : k = 3
    · right
      have : S.i = 3 := by omega
      simp [lmpStep, h0, this, hnl]
    · left
      have hm : S.i % S.block = k := by rw [hSi, hb4]; omega
      refine ⟨_, lmpStep_plain S p h0 (by omega) (by rw [hm]; omega) (by rw [hm]; omega)
        (by rw [hm, hb4]; omega), rfl, rfl⟩
  · have hm : S.i % S.block = k := by
      rw [hSi, hbN]; exact add_mod_of_mod_zero i0 k (N + 9) hi0 (by omega)
    have h3 : S.i ≠ 3 := by
      by_cases h : i0 = 0
      · have := hk4 h; omega
      · have := hi0' h; omega
    by_cases hbox : 5 ≤ k ∧ k ≤ 7
    · right
      simp [lmpStep, h0, h3, lBody, hm, hbox, hnl]
    · left
      refine ⟨_, lmpStep_plain S p h0 h3 (by rw [hm]; omega) (by rw [hm]; omega)
        (by rw [hm, hbN]; omega), rfl, rfl⟩

theorem lplace_congr (N : Nat) (arr : List (List Tok)) (a b : Line) (h : split a = split b) :
    lplace N arr a = lplace N arr b := by
  unfold lplace; rw [h]

theorem LAtomTok.of_split {N : Nat} {a b : Line} (h : LAtomTok N a) (hs : split b = split a) :
    LAtomTok N b :=
  ⟨by rw [hs]; exact h.len, by rw [hs]; exact h.sent, by rw [hs]; exact h.idx, by rw [hs]; exact h.fl⟩

theorem LmpF.lines_length {N : Nat} {f : LmpF} (hf : f.WF N) : f.lines.length = N + 9 := by
  simp [LmpF.lines, LmpF.hdr, hf.natoms]

/-- the last atom line of a well-formed frame, and what `slack` is -/
theorem LmpF.WF.last_line {N : Nat} {f : LmpF} (hf : f.WF N) (hN : 1 ≤ N) :
    ∃ last, f.lines.getLast? = some last ∧ f.atoms[N - 1]? = some last ∧ f.slack = trailLen last
      ∧ f.slack < last.length ∧ 1 ≤ f.slack := by
  have hlt : N - 1 < f.atoms.length := by rw [hf.natoms]; omega
  have hne : f.atoms ≠ [] := by intro h; rw [h] at hlt; simp at hlt
  have hlast : f.atoms.getLast? = some f.atoms[N - 1] := by
    rw [List.getLast?_eq_getElem?, hf.natoms, List.getElem?_eq_getElem hlt]
  refine ⟨f.atoms[N - 1], ?_, List.getElem?_eq_getElem hlt, ?_, ?_, ?_⟩
  · simp only [LmpF.lines]
    rw [List.getLast?_append, hlast]; rfl
  · simp only [LmpF.slack, hlast]
  all_goals
    obtain ⟨init, c, tb, hb, _, hc, htb⟩ := (hf.atoms _ (List.getElem_mem hlt)).body
    simp only [LmpF.slack, hlast]
    rw [hb, trailLen_body init tb c hc htb]
    first
      | omega
      | (simp only [List.length_append, List.length_cons, List.length_nil]; omega)

/-- **a frame that is not completely visible**: nothing is returned and nothing raised — except when
    at most the white space and the newline behind the trailing id of its last atom line are missing
    (`slack` bytes; 1 = only the final newline): then the frame is returned (all its values are there) and
    the position is left at the end of the visible bytes. -/
theorem lmpRun_frame_torn (N : Nat) (hN : 1 ≤ N) (f : LmpF) (hf : f.WF N) (st : LSt) (hst : LReady N st)
    (n : Nat) (hn : n < f.enc.length) :
    finish (fun st => (st.traj, st.pos)) (lmpRun v (lines (f.enc.take n)) st)
      = .ok (if f.enc.length ≤ n + f.slack then (st.traj ++ [f.decode N], st.tell + n) else (st.traj, st.pos)) := by
  have henc : f.enc = f.lines.flatten := rfl
  rw [henc] at hn ⊢
  obtain ⟨k, p, hk, hp, he, hlines, l, hl, j, hj, hpj⟩ := lines_take_flatten f.lines hf.allLines n hn
  have hlen9 := LmpF.lines_length hf
  have hgk : f.lines[k] = l := by
    have := List.getElem?_eq_getElem hk
    rw [this] at hl; exact Option.some.inj hl
  have hpl : p.length = j := by rw [hpj, List.length_take]; omega
  have hnP : n = ((f.lines.take k).flatten).length + j := by
    have := congrArg List.length he
    rw [List.length_take, List.length_append, hpl] at this
    omega
  obtain ⟨last, hlast, hlastA, hslk, hslt, hsl1⟩ := hf.last_line hN
  have harith := cut_arith_t f.lines k hk j (by rw [hgk]; exact hj) last hlast f.slack hslt
  rw [hgk, Nat.add_assoc, ← Nat.add_assoc _ j, ← hnP, hlen9] at harith
  rw [hlines, lmpRun_append]
  by_cases hk8 : k ≤ 8
  · have htk : f.lines.take k = f.hdr.take k := by
      rw [LmpF.lines, List.take_append_of_le_length (by simp [LmpF.hdr]; omega)]
    obtain ⟨S, hS, hSi, hSt, hSp, hSb⟩ := lmpRun_hdr_prefix N hN f hf st hst k hk8
    have hcond : ¬ (f.lines.flatten.length ≤ n + f.slack) := by rw [harith]; omega
    rw [htk, hS, if_neg hcond]
    simp only []
    by_cases hp0 : p = []
    · simp [hp0, lmpRun, finish, hSt, hSp]
    · simp only [hp0, if_false, lmpRun]
      rcases lmpStep_torn_hdr N hN S p hp k hk8 st.i hst.imod hst.ge hSi hSb with ⟨s', hs, ht, hpp⟩ | hs
      · rw [hs]; simp [finish, ht, hpp, hSt, hSp]
      · rw [hs]; simp [finish, hSt, hSp]
  · have hk9 : 9 ≤ k := by omega
    have hm : k - 9 < N := by omega
    have hhdr : f.hdr.length = 9 := by simp [LmpF.hdr]
    have htk : f.lines.take k = f.hdr ++ f.atoms.take (k - 9) := by
      rw [LmpF.lines, List.take_append, List.take_of_length_le (by omega), hhdr]
    have hla : l = f.atoms[k - 9]'(by rw [hf.natoms]; exact hm) := by
      rw [← hgk]; simp only [LmpF.lines]
      rw [List.getElem_append_right (by omega)]; simp [hhdr]
    have hlmem : l ∈ f.atoms := by rw [hla]; exact List.getElem_mem _
    have hlok := hf.atoms l hlmem
    obtain ⟨init, c, tb, hbody, hinit, hc, htb⟩ := hlok.body
    have hll : l.length = (init ++ [c]).length + tb.length + 1 := by rw [hbody]; simp; omega
    have hb1 : 1 ≤ (init ++ [c]).length := by simp
    have hcl : (init ++ [c] ++ tb).length = (init ++ [c]).length + tb.length := List.length_append
    have htbb : ∀ x ∈ tb, isBlank x = true := fun x hx => (htb x hx).1
    have hspl : split (init ++ [c]) = split l := by
      rw [hbody, split_append_nl, split_append_blanks _ _ htbb]
    -- in the last line of the frame, `slack` is what lies behind the trailing id
    have hslack : k + 1 = N + 9 → f.slack = tb.length + 1 := by
      intro hkl
      have hk1 : k - 9 = N - 1 := by omega
      have : last = l := by
        have h1 : f.atoms[N - 1]? = some l := by
          rw [hla]; simp only [hk1]
          exact List.getElem?_eq_getElem (by rw [hf.natoms]; omega)
        rw [h1] at hlastA; exact (Option.some.inj hlastA).symm
      rw [hslk, this, hbody, trailLen_body init tb c hc htb]
    have has0 : ∀ a ∈ f.atoms.take (k - 9), LAtomTok N a :=
      fun a ha => (hf.atoms a (List.mem_of_mem_take ha)).tok
    have hl0 : (f.atoms.take (k - 9)).length = k - 9 := by rw [List.length_take, hf.natoms]; omega
    have hrun0 := lmpRun_frame_as (v := v) N hN f hf (f.atoms.take (k - 9)) has0 (by omega) st hst
    rw [hl0, if_neg (by omega)] at hrun0
    by_cases hp0 : p = []
    · have hj0 : j = 0 := by rw [hp0] at hpl; simpa using hpl.symm
      have hcond : ¬ (f.lines.flatten.length ≤ n + f.slack) := by
        rw [harith]; rintro ⟨h1, h2⟩; have := hslack h1; omega
      rw [htk, hrun0, if_neg hcond]
      simp [hp0, lmpRun, finish]
    · by_cases hjb : j < (init ++ [c]).length
      · have hcond : ¬ (f.lines.flatten.length ≤ n + f.slack) := by
          rw [harith]; rintro ⟨h1, h2⟩; have := hslack h1; omega
        rw [htk, hrun0, if_neg hcond]
        simp only [hp0, if_false, lmpRun]
        have hmod : (st.i + 9 + (k - 9)) % (N + 9) = 9 + (k - 9) := by
          rw [Nat.add_assoc]; exact add_mod_of_mod_zero st.i _ (N + 9) hst.imod (by omega)
        have hstep : lmpStep v ⟨st.i + 9 + (k - 9), N, N + 9,
              (f.atoms.take (k - 9)).foldl (lplace N) (zeros N 6), [boxRow f.b0, boxRow f.b1, boxRow f.b2],
              st.traj, st.pos, st.tell + (f.hdr ++ f.atoms.take (k - 9)).flatten.length⟩ p
            = .ret (st.traj, st.pos) := by
          have h0 : ¬ (st.i + 9 + (k - 9) = 0 ∧ lmpLate v p = true) := by omega
          have h3 : st.i + 9 + (k - 9) ≠ 3 := by omega
          simp only [lmpStep, h0, h3, if_false]
          have hpc : p = ((init ++ [c]) ++ ['\n']).take j := by
            rw [hpj, hbody, List.take_append_of_le_length (by omega), List.take_append_of_le_length (by omega)]
            exact (List.take_append_of_le_length (by omega)).symm
          rw [hpc]
          exact lBody_torn_atom _ (init ++ [c]) init c rfl hc (by rw [hspl]; exact hlok.tok.len)
            (by rw [hspl]; exact hlok.tok.sent) j hjb (by simp only [hmod]; omega) _
        rw [hstep]; simp [finish]
      · -- everything up to the trailing id is there: the line is read like the complete line
        have hjge : (init ++ [c]).length ≤ j := by omega
        have hpb : p = (init ++ [c]) ++ tb.take (j - (init ++ [c]).length) := by
          rw [hpj, hbody, List.take_append_of_le_length (by omega), List.take_append,
            List.take_of_length_le hjge]
        have hsplp : split p = split l := by
          rw [hpb, split_append_blanks _ _ (fun x hx => htbb x (List.mem_of_mem_take hx)), hspl]
        have hbt : LAtomTok N p := hlok.tok.of_split hsplp
        have has' : ∀ a ∈ f.atoms.take (k - 9) ++ [p], LAtomTok N a := by
          intro a ha
          rcases List.mem_append.mp ha with h | h
          · exact has0 a h
          · rw [List.mem_singleton.mp h]; exact hbt
        have hl' : (f.atoms.take (k - 9) ++ [p]).length = k - 9 + 1 := by simp [hl0]
        have hrun := lmpRun_frame_as (v := v) N hN f hf (f.atoms.take (k - 9) ++ [p]) has' (by omega) st hst
        have hcat : f.hdr ++ f.atoms.take (k - 9) ++ [p] = f.hdr ++ (f.atoms.take (k - 9) ++ [p]) := by
          rw [List.append_assoc]
        have hrun2 : (match lmpRun v (f.lines.take k) st with
              | .cont s => lmpRun v (if p = [] then [] else [p]) s
              | .ret r => .ret r
              | .err e => .err e)
            = lmpRun v (f.hdr ++ (f.atoms.take (k - 9) ++ [p])) st := by
          rw [← hcat, lmpRun_append (f.hdr ++ f.atoms.take (k - 9)) [p], htk]
          simp [hp0]
        rw [hrun2, hrun, hl']
        have hflat : (f.hdr ++ (f.atoms.take (k - 9) ++ [p])).flatten.length = n := by
          rw [← hcat, ← htk, hnP, hpl.symm]; simp
        by_cases hlast' : k - 9 + 1 = N
        · have hcond : f.lines.flatten.length ≤ n + f.slack := by
            rw [harith]; have := hslack (by omega); exact ⟨by omega, by omega⟩
          rw [if_pos hlast', if_pos hcond]
          have hatoms : f.atoms = f.atoms.take (k - 9) ++ [l] := by
            have h1 : f.atoms.take (k - 9 + 1) = f.atoms.take (k - 9) ++ [l] := by
              rw [hla]; exact List.take_succ_eq_append_getElem (by rw [hf.natoms]; exact hm)
            rw [← h1, List.take_of_length_le (by rw [hf.natoms]; omega)]
          have hdec : (f.atoms.take (k - 9) ++ [p]).foldl (lplace N) (zeros N 6)
              = f.atoms.foldl (lplace N) (zeros N 6) := by
            conv => rhs; rw [hatoms]
            rw [List.foldl_append, List.foldl_append]
            simp only [List.foldl_cons, List.foldl_nil]
            exact lplace_congr N _ _ _ hsplp
          rw [hflat, hdec]
          simp [finish, LmpF.decode]
        · have hcond : ¬ (f.lines.flatten.length ≤ n + f.slack) := by
            rw [harith]; rintro ⟨h1, _⟩; omega
          rw [if_neg hlast', if_neg hcond]
          simp [finish]

/-! ### one poll, all polls -/

theorem lmpCount_fst_le (ls : List Nat) (n : Nat) : (lmpCount ls n).1 ≤ ls.length := by
  rcases lmpCount_spec ls n with ⟨_, hm⟩ | ⟨_, hm, _, hlt⟩
  · rw [hm]; exact completeCount_le ls n
  · rw [hm]; omega

theorem lmpCount_late_pos (ls : List Nat) (n : Nat) (h : (lmpCount ls n).2 = true) : 1 ≤ (lmpCount ls n).1 := by
  rcases lmpCount_spec ls n with ⟨hb, _⟩ | ⟨_, hm, _, _⟩
  · rw [hb] at h; cases h
  · rw [hm]; omega

/-- the cut `n` (relative to the start of `fs`) does not fall strictly inside the white space behind the trailing
    id of the last atom line of the first incomplete frame: either that frame misses more than its `slack`
    bytes, or exactly its final newline.  Trivially true when no last atom line has such white space. -/
def tbFree : List LmpF → Nat → Prop
  | [], _ => True
  | f :: fs, n => if f.len ≤ n then tbFree fs (n - f.len) else (f.len ≤ n + f.slack → f.len = n + 1)

theorem tbFree_of_slack_one (fs : List LmpF) (h : ∀ f ∈ fs, f.slack = 1) (n : Nat) : tbFree fs n := by
  induction fs generalizing n with
  | nil => trivial
  | cons f fs ih =>
    simp only [tbFree]
    split
    · exact ih (fun g hg => h g (by simp [hg])) _
    · intro hle; have := h f (by simp); omega

/-- **one poll, loop level** (from a frame boundary): the frames accepted are those `lmpCount` says -/
theorem lmpRun_frames (N : Nat) (hN : 1 ≤ N) (rest : List LmpF) (hwf : ∀ f ∈ rest, f.WF N) (n : Nat)
    (hfree : tbFree rest n) (st : LSt) (hst : LReady N st) :
    finish (fun st => (st.traj, st.pos)) (lmpRun v (lines ((rest.map LmpF.enc).flatten.take n)) st)
      = .ok (st.traj ++ (rest.map (LmpF.decode N)).take (lmpCount (rest.map LmpF.len) n).1,
             st.pos + sumLens ((rest.map LmpF.len).take (lmpCount (rest.map LmpF.len) n).1)
               - (if (lmpCount (rest.map LmpF.len) n).2 then 1 else 0)) := by
  induction rest generalizing n st with
  | nil => simp [lines, lmpRun, finish, lmpCount, sumLens]
  | cons f rest ih =>
    have hf := hwf f (by simp)
    have hrest : ∀ g ∈ rest, g.WF N := fun g hg => hwf g (by simp [hg])
    simp only [List.map_cons, List.flatten_cons]
    by_cases hle : f.enc.length ≤ n
    · rw [List.take_append, List.take_of_length_le hle]
      have hl := lines_flatten_append f.lines hf.allLines
        (List.take (n - f.enc.length) (List.map LmpF.enc rest).flatten)
      have hfull := lmpRun_frame_as (v := v) N hN f hf f.atoms (fun a ha => (hf.atoms a ha).tok)
        (by rw [hf.natoms]; exact Nat.le_refl _) st hst
      rw [if_pos hf.natoms] at hfull
      rw [show f.enc ++ List.take (n - f.enc.length) (List.map LmpF.enc rest).flatten
            = f.lines.flatten ++ List.take (n - f.enc.length) (List.map LmpF.enc rest).flatten from rfl,
        hl, lmpRun_append, show f.lines = f.hdr ++ f.atoms from rfl, hfull]
      simp only []
      have hready : LReady N ⟨st.i + 9 + f.atoms.length, N, N + 9, zeros N 6, zeros 3 3,
          st.traj ++ [(f.atoms.foldl (lplace N) (zeros N 6), [boxRow f.b0, boxRow f.b1, boxRow f.b2])],
          st.tell + (f.hdr ++ f.atoms).flatten.length, st.tell + (f.hdr ++ f.atoms).flatten.length⟩ := by
        refine ⟨?_, Or.inr ⟨by simp only []; omega, rfl, rfl, rfl, rfl⟩, rfl⟩
        simp only [hf.natoms]
        rw [Nat.add_assoc, show 9 + N = N + 9 by omega, Nat.add_mod_right]; exact hst.imod
      have hfree' : tbFree rest (n - f.enc.length) := by
        have := hfree; simp only [tbFree, LmpF.len, hle, if_true] at this; exact this
      rw [ih hrest _ hfree' _ hready]
      have hcc : lmpCount (f.len :: rest.map LmpF.len) n
          = ((lmpCount (rest.map LmpF.len) (n - f.len)).1 + 1, (lmpCount (rest.map LmpF.len) (n - f.len)).2) := by
        simp [lmpCount, LmpF.len, hle]
      rw [hcc]
      simp only [List.take_succ_cons, sumLens, List.append_assoc, List.cons_append, List.nil_append,
        LmpF.len, hst.pos]
      have hfe : (f.hdr ++ f.atoms).flatten.length = f.enc.length := rfl
      rw [hfe]
      have hdec : (f.atoms.foldl (lplace N) (zeros N 6), [boxRow f.b0, boxRow f.b1, boxRow f.b2]) = f.decode N := rfl
      rw [hdec, Nat.add_assoc st.tell]
      congr
    · have hlt : n < f.enc.length := by omega
      rw [List.take_append_of_le_length (by omega), lmpRun_frame_torn N hN f hf st hst n hlt]
      have hfr : f.enc.length ≤ n + f.slack → f.enc.length = n + 1 := by
        have := hfree; simp only [tbFree, LmpF.len, hle, if_false] at this; exact this
      obtain ⟨_, _, _, _, _, hsl1⟩ := hf.last_line hN
      by_cases hlate : n + 1 = f.enc.length
      · have hlate' : f.enc.length ≤ n + f.slack := by omega
        have h2 : f.enc.length = n + 1 := by omega
        have hcc : lmpCount (f.len :: rest.map LmpF.len) n = (1, true) := by
          have h3 : ¬ (n + 1 ≤ n) := by omega
          simp only [lmpCount, LmpF.len, h2, h3, if_false, if_true]
        rw [hcc, if_pos hlate']
        simp only [List.take_succ_cons, List.take_zero, sumLens, LmpF.len, if_true, hst.pos]
        congr 2
        omega
      · have h2 : ¬ f.enc.length = n + 1 := by omega
        have hcc : lmpCount (f.len :: rest.map LmpF.len) n = (0, false) := by
          simp only [lmpCount, LmpF.len, hle, if_false, h2]
        have hlate' : ¬ (f.enc.length ≤ n + f.slack) := fun h => hlate (hfr h).symm
        rw [hcc, if_neg hlate']
        simp [sumLens]

theorem flatten_lenc_length (fs : List LmpF) :
    ((fs.map LmpF.enc).flatten).length = sumLens (fs.map LmpF.len) := by
  induction fs with
  | nil => simp [sumLens]
  | cons f fs ih => simp [sumLens, ih, LmpF.len]

theorem endsNl_lframes (N : Nat) (fs : List LmpF) (hwf : ∀ f ∈ fs, f.WF N) (hne : fs ≠ []) :
    endsNl ((fs.map LmpF.enc).flatten) = true := by
  induction fs with
  | nil => exact absurd rfl hne
  | cons f fs ih =>
    have hf := hwf f (by simp)
    have he : endsNl f.enc = true := endsNl_flatten f.lines hf.allLines (by simp [LmpF.lines, LmpF.hdr])
    cases fs with
    | nil => simpa using he
    | cons g gs =>
      rw [List.map_cons, List.flatten_cons]
      exact endsNl_append_of_endsNl _ _ (ih (fun x hx => hwf x (by simp [hx])) (by simp))

/-- **one poll from a frame boundary** -/
theorem lmpReader_poll (N : Nat) (hN : 1 ≤ N) (done rest : List LmpF) (hwf : ∀ f ∈ rest, f.WF N) (c : Nat)
    (hfree : tbFree rest (c - ((done.map LmpF.enc).flatten).length)) :
    lmpReader v ((((done ++ rest).map LmpF.enc).flatten).take c) ((done.map LmpF.enc).flatten).length
      = .ok ((rest.map (LmpF.decode N)).take
               (lmpCount (rest.map LmpF.len) (c - ((done.map LmpF.enc).flatten).length)).1,
             ((done.map LmpF.enc).flatten).length + sumLens ((rest.map LmpF.len).take
               (lmpCount (rest.map LmpF.len) (c - ((done.map LmpF.enc).flatten).length)).1)
               - (if (lmpCount (rest.map LmpF.len) (c - ((done.map LmpF.enc).flatten).length)).2 then 1 else 0)) := by
  unfold lmpReader
  rw [List.drop_take, List.map_append, List.flatten_append, List.drop_left]
  have := lmpRun_frames (v := v) N hN rest hwf (c - ((done.map LmpF.enc).flatten).length) hfree
    (lInit ((done.map LmpF.enc).flatten).length) (lInit_ready N _)
  simpa [lInit] using this

/-- **one poll in the "late newline" state**: nothing is returned; the newline, if visible, is skipped -/
theorem lmpReader_poll_late (N : Nat) (done rest : List LmpF) (hwf : ∀ f ∈ done, f.WF N) (hne : done ≠ [])
    (c : Nat) :
    lmpReader v ((((done ++ rest).map LmpF.enc).flatten).take c) (((done.map LmpF.enc).flatten).length - 1)
      = .ok ([], if c < ((done.map LmpF.enc).flatten).length then ((done.map LmpF.enc).flatten).length - 1
                 else ((done.map LmpF.enc).flatten).length) := by
  have hnl := endsNl_lframes N done hwf hne
  obtain ⟨A', hA⟩ : ∃ A', (done.map LmpF.enc).flatten = A' ++ ['\n'] := by
    have : ((done.map LmpF.enc).flatten).getLast? = some '\n' := by simpa [endsNl] using hnl
    exact List.getLast?_eq_some_iff.mp this
  have hlen : ((done.map LmpF.enc).flatten).length = A'.length + 1 := by rw [hA]; simp
  unfold lmpReader
  rw [List.drop_take, List.map_append, List.flatten_append, hlen, hA]
  simp only [Nat.add_sub_cancel]
  have hdrop : List.drop A'.length (A' ++ ['\n'] ++ (rest.map LmpF.enc).flatten)
      = '\n' :: (rest.map LmpF.enc).flatten := by
    rw [List.append_assoc, List.drop_left]; rfl
  rw [hdrop]
  by_cases hc : c < A'.length + 1
  · have : c - A'.length = 0 := by omega
    simp [this, lines, lmpRun, finish, lInit, hc]
  · obtain ⟨m, hm⟩ : ∃ m, c - A'.length = m + 1 := ⟨c - A'.length - 1, by omega⟩
    simp [hm, lines, lmpRun, lmpStep, lInit, finish, hc, lmpLate_nl]

/-- **all polls**: the real loop, polled on growing prefixes, behaves exactly as `lmpStages` says -/
theorem lmp_pollAll (N : Nat) (hN : 1 ≤ N) (frames : List LmpF) (hwf : ∀ f ∈ frames, f.WF N)
    (cuts : List Nat)
    (hfree : ∀ c ∈ cuts, ∀ d, d ≤ frames.length →
      tbFree (frames.drop d) (c - sumLens ((frames.map LmpF.len).take d)))
    (done : Nat) (late : Bool) (hd : done ≤ frames.length) (hl : late = true → 1 ≤ done) :
    pollAll (lmpReader v) ((frames.map LmpF.enc).flatten) cuts
        (sumLens ((frames.map LmpF.len).take done) - (if late then 1 else 0))
      = .ok (lmpStages (frames.map LmpF.len) (frames.map (LmpF.decode N)) cuts done late) := by
  induction cuts generalizing done late with
  | nil => simp [pollAll, lmpStages]
  | cons c cs ih =>
    have hfree2 : ∀ c' ∈ cs, ∀ d, d ≤ frames.length →
        tbFree (frames.drop d) (c' - sumLens ((frames.map LmpF.len).take d)) :=
      fun c' hc' => hfree c' (by simp [hc'])
    have hsplit : frames = frames.take done ++ frames.drop done := (List.take_append_drop done frames).symm
    have hpos : ((List.map LmpF.enc (frames.take done)).flatten).length
        = sumLens ((frames.map LmpF.len).take done) := by
      rw [flatten_lenc_length, List.map_take]
    have hwfr : ∀ f ∈ frames.drop done, f.WF N := fun f hf => hwf f (List.mem_of_mem_drop hf)
    have hwfd : ∀ f ∈ frames.take done, f.WF N := fun f hf => hwf f (List.mem_of_mem_take hf)
    cases late with
    | true =>
      have hd1 := hl rfl
      have hne : frames.take done ≠ [] := by
        intro h
        have := congrArg List.length h
        rw [List.length_take, List.length_nil] at this; omega
      have hpoll := lmpReader_poll_late (v := v) N (frames.take done) (frames.drop done) hwfd hne c
      rw [← hsplit, hpos] at hpoll
      simp only [if_true, pollAll, hpoll, lmpStages]
      by_cases hc : c < sumLens ((frames.map LmpF.len).take done)
      · simp only [hc, if_true]
        have := ih hfree2 done true hd hl
        simp only [if_true] at this
        rw [this]
      · simp only [hc, if_false]
        have := ih hfree2 done false hd (by intro h; cases h)
        simp only [Bool.false_eq_true, if_false, Nat.sub_zero] at this
        rw [this]
    | false =>
      have hpoll := lmpReader_poll (v := v) N hN (frames.take done) (frames.drop done) hwfr c
        (by rw [hpos]; exact hfree c (by simp) done hd)
      rw [← hsplit, hpos] at hpoll
      simp only [Bool.false_eq_true, if_false, Nat.sub_zero, pollAll, hpoll, lmpStages]
      have hm := lmpCount_fst_le ((frames.drop done).map LmpF.len) (c - sumLens ((frames.map LmpF.len).take done))
      simp only [List.length_map, List.length_drop] at hm
      have hnext := ih hfree2 (done + (lmpCount ((frames.drop done).map LmpF.len)
          (c - sumLens ((frames.map LmpF.len).take done))).1)
        (lmpCount ((frames.drop done).map LmpF.len) (c - sumLens ((frames.map LmpF.len).take done))).2
        (by omega)
        (fun h => by have := lmpCount_late_pos _ _ h; omega)
      rw [sumLens_take_add'] at hnext
      simp only [List.map_drop] at hnext hm ⊢
      rw [hnext]


/-! ### the guard `tbFree` from simpler conditions -/

theorem LmpF.WF.slack_lt_len {N : Nat} {f : LmpF} (hf : f.WF N) (hN : 1 ≤ N) : f.slack < f.len := by
  obtain ⟨last, hlast, _, _, hslt, _⟩ := hf.last_line hN
  have := length_le_flatten f.lines last (List.mem_of_getLast? hlast)
  simp only [LmpF.len, LmpF.enc]; omega

theorem tbFree_zero (N : Nat) (hN : 1 ≤ N) (fs : List LmpF) (hwf : ∀ f ∈ fs, f.WF N) : tbFree fs 0 := by
  cases fs with
  | nil => trivial
  | cons f fs =>
    have := (hwf f (by simp)).slack_lt_len hN
    simp only [tbFree]
    split
    · omega
    · intro h; omega

/-- a cut that is free seen from the start of the file is free seen from every frame boundary -/
theorem tbFree_drop (N : Nat) (hN : 1 ≤ N) (fs : List LmpF) (hwf : ∀ f ∈ fs, f.WF N) (c : Nat)
    (h : tbFree fs c) (d : Nat) (hd : d ≤ fs.length) :
    tbFree (fs.drop d) (c - sumLens ((fs.map LmpF.len).take d)) := by
  induction fs generalizing c d with
  | nil => simp [tbFree]
  | cons f fs ih =>
    cases d with
    | zero => simpa [sumLens] using h
    | succ d =>
      have hwf' : ∀ g ∈ fs, g.WF N := fun g hg => hwf g (by simp [hg])
      simp only [List.drop_succ_cons, List.map_cons, List.take_succ_cons, sumLens]
      simp only [tbFree] at h
      by_cases hle : f.len ≤ c
      · simp only [hle, if_true] at h
        have := ih hwf' (c - f.len) h d (by simpa using hd)
        rw [Nat.sub_add_eq]; exact this
      · have h0 : c - (f.len + sumLens ((fs.map LmpF.len).take d)) = 0 := by omega
        rw [h0]
        exact tbFree_zero N hN _ (fun g hg => hwf' g (List.mem_of_mem_drop hg))

theorem tbFree_all_of_slack_one (fs : List LmpF) (h : ∀ f ∈ fs, f.slack = 1) (c d : Nat) :
    tbFree (fs.drop d) (c - sumLens ((fs.map LmpF.len).take d)) :=
  tbFree_of_slack_one _ (fun f hf => h f (List.mem_of_mem_drop hf)) _

/-! ### one poll on a frame that is not completely visible; the late line end (current reader) -/

/-- **one poll from a frame boundary, the next frame partly visible** — with any white space behind the trailing
    ids: the frame is returned iff at most its `slack` bytes (white space + newline behind the trailing id of its
    last atom line) are missing; the position is then the end of the visible bytes; otherwise nothing is returned
    and nothing moves.  Never an exception. -/
theorem lmpReader_poll_partial (N : Nat) (hN : 1 ≤ N) (done : List LmpF) (f : LmpF) (rest : List LmpF)
    (hf : f.WF N) (c : Nat) (h1 : ((done.map LmpF.enc).flatten).length ≤ c)
    (h2 : c < ((done.map LmpF.enc).flatten).length + f.len) :
    lmpReader v ((((done ++ f :: rest).map LmpF.enc).flatten).take c) ((done.map LmpF.enc).flatten).length
      = .ok (if f.enc.length ≤ (c - ((done.map LmpF.enc).flatten).length) + f.slack
             then ([f.decode N], c) else ([], ((done.map LmpF.enc).flatten).length)) := by
  unfold lmpReader
  rw [List.drop_take, List.map_append, List.flatten_append, List.drop_left, List.map_cons, List.flatten_cons,
    List.take_append_of_le_length (by simp only [LmpF.len] at h2; omega)]
  have := lmpRun_frame_torn (v := v) N hN f hf (lInit ((done.map LmpF.enc).flatten).length) (lInit_ready N _)
    (c - ((done.map LmpF.enc).flatten).length) (by simp only [LmpF.len] at h2; omega)
  rw [this]
  simp only [lInit, List.nil_append]
  by_cases hacc : f.enc.length ≤ c - ((done.map LmpF.enc).flatten).length + f.slack
  · rw [if_pos hacc, if_pos hacc]
    congr 2; omega
  · rw [if_neg hacc, if_neg hacc]

/-- **the late line end, current reader**: a poll that starts in front of white space and a newline (what is left
    of a frame that was returned early) skips them as soon as the newline is visible and returns nothing;
    before that it returns nothing and does not move.  Never an exception. -/
theorem lmpReader_late_line_end (pre ws rest : List Char) (hws : ∀ x ∈ ws, isBlank x = true ∧ x ≠ '\n') (c : Nat) :
    lmpReader .repaired ((pre ++ (ws ++ '\n' :: rest)).take c) pre.length
      = .ok ([], if pre.length + ws.length + 1 ≤ c then pre.length + ws.length + 1 else pre.length) := by
  have hnl : '\n' ∉ ws := fun h => (hws _ h).2 rfl
  unfold lmpReader
  rw [List.drop_take, List.drop_left]
  by_cases hc : pre.length + ws.length + 1 ≤ c
  · obtain ⟨m, hm⟩ : ∃ m, c - pre.length = ws.length + 1 + m := ⟨c - pre.length - ws.length - 1, by omega⟩
    have htake : (ws ++ '\n' :: rest).take (c - pre.length) = ws ++ '\n' :: rest.take m := by
      rw [hm, List.take_append, List.take_of_length_le (by omega)]
      have : ws.length + 1 + m - ws.length = m + 1 := by omega
      rw [this, List.take_succ_cons]
    have hlate : lmpLate .repaired (ws ++ ['\n']) = true := by
      simp only [lmpLate, Bool.and_eq_true, List.all_eq_true]
      refine ⟨by simp [endsNl], ?_⟩
      intro x hx
      rcases List.mem_append.mp hx with h | h
      · exact (hws x h).1
      · rw [List.mem_singleton.mp h]; decide
    rw [htake, lines_body_nl ws hnl, if_pos hc]
    simp [lmpRun, lmpStep, lInit, hlate, finish]
    omega
  · have hle : c - pre.length ≤ ws.length := by omega
    have htake : (ws ++ '\n' :: rest).take (c - pre.length) = ws.take (c - pre.length) := by
      rw [List.take_append_of_le_length hle]
    rw [htake, if_neg hc]
    by_cases hw : ws.take (c - pre.length) = []
    · simp [hw, lines, lmpRun, finish, lInit]
    · have hnl' : '\n' ∉ ws.take (c - pre.length) := fun h => hnl (List.mem_of_mem_take h)
      rw [lines_noNl _ hnl' hw]
      have hl0 : lmpLate .repaired (ws.take (c - pre.length)) = false := lmpLate_of_noNl _ hnl'
      simp [lmpRun, lmpStep, lInit, hl0, lBody, lEnd, finish]

/-! ### what `decode` stores where -/

/-- the row an atom line is stored in: `int(spl[0]) - 1` as a numpy index -/
def atomIdx (N : Nat) (a : Line) : Option Nat :=
  (parseInt ((split a).headD [])).bind (fun id => pyIndex N (id - 1))

theorem lplace_eq (N : Nat) (arr : List (List Tok)) (a : Line) :
    lplace N arr a = match atomIdx N a with
      | some k => arr.set k (((split a).drop 2).take 6)
      | none => arr := by
  unfold lplace atomIdx
  cases parseInt ((split a).headD []) with
  | none => rfl
  | some id => cases pyIndex N (id - 1) <;> rfl

theorem foldl_lplace_keep (N : Nat) (bs : List Line) (arr : List (List Tok)) (k : Nat)
    (h : ∀ b ∈ bs, atomIdx N b ≠ some k) : (bs.foldl (lplace N) arr)[k]? = arr[k]? := by
  induction bs generalizing arr with
  | nil => rfl
  | cons b bs ih =>
    rw [List.foldl_cons, ih _ (fun x hx => h x (by simp [hx])), lplace_eq]
    have hb := h b (by simp)
    cases hi : atomIdx N b with
    | none => rfl
    | some j =>
      have : j ≠ k := by intro e; apply hb; rw [hi, e]
      simp [List.getElem?_set, this]

/-- **values exactly as written, at row `id − 1`**: if the atom lines of a frame go to pairwise different
    rows, the decoded array holds in the row of each atom its six tokens `x y z vx vy vz` -/
theorem decode_row (N : Nat) (atoms : List Line) (arr : List (List Tok))
    (hd : atoms.Pairwise (fun x y => atomIdx N x ≠ atomIdx N y)) (a : Line) (ha : a ∈ atoms) (k : Nat)
    (hk : atomIdx N a = some k) (hlt : k < arr.length) :
    (atoms.foldl (lplace N) arr)[k]? = some (((split a).drop 2).take 6) := by
  induction atoms generalizing arr with
  | nil => simp at ha
  | cons b bs ih =>
    rw [List.pairwise_cons] at hd
    rw [List.foldl_cons]
    rcases List.mem_cons.mp ha with rfl | hmem
    · rw [foldl_lplace_keep N bs _ k (fun x hx => by rw [← hk]; exact (hd.1 x hx).symm), lplace_eq, hk]
      simp [hlt]
    · apply ih _ hd.2 hmem
      rw [lplace_eq]
      cases atomIdx N b <;> simp [hlt]

end Infretis.Readers
