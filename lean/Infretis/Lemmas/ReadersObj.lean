import Infretis.Model.ReadersObj
import Infretis.Lemmas.ReadersXyz
import Infretis.Lemmas.ReadersLmpRun
import Infretis.Lemmas.ReadersSpec
/-!
# Lemmas for C13, part 7: `ReadAndProcessOnTheFly` as an object (`rpRun`)

The object model carries `previous_position` next to `current_position`.  `previous_position` is only ever
written: the frames returned and the new `current_position` are those of the function model
(`xyzReader`, `lmpReader`) — `*_proj`.  From there every poll sequence of the object on the file states of an
append-only trajectory (absent, or a prefix) is reduced to the one-poll lemmas of parts 3 and 5.
-/
namespace Infretis.Readers

/-- bytes visible in a file state of an append-only trajectory: an absent file shows nothing -/
def visBytes : Option Nat → Nat
  | none => 0
  | some c => c

def projX : Res (XSt × Nat) (List XFrame × RP) → Res XSt (List XFrame × Nat)
  | .cont s => .cont s.1
  | .ret r => .ret (r.1, r.2.cur)
  | .err e => .err e

def projL : Res (LSt × Nat) (List LFrame × RP) → Res LSt (List LFrame × Nat)
  | .cont s => .cont s.1
  | .ret r => .ret (r.1, r.2.cur)
  | .err e => .err e

theorem resRun_xyz_proj (v : Variant) (ls : List Line) (st : XSt) (p : Nat) :
    projX (resRun (xyzStepO v) ls (st, p)) = xyzRun v ls st := by
  induction ls generalizing st p with
  | nil => rfl
  | cons l ls ih =>
    simp only [resRun, xyzRun, xyzStepO]
    cases h : xyzStep v st l with
    | cont st' => simp only []; exact ih st' _
    | ret r => rfl
    | err e => rfl

theorem resRun_lmp_proj (v : Variant) (ls : List Line) (st : LSt) (p : Nat) :
    projL (resRun (lmpStepO v) ls (st, p)) = lmpRun v ls st := by
  induction ls generalizing st p with
  | nil => rfl
  | cons l ls ih =>
    simp only [resRun, lmpRun, lmpStepO]
    cases h : lmpStep v st l with
    | cont st' => simp only []; exact ih st' _
    | ret r => rfl
    | err e => rfl

/-- what the object returns and where it leaves `current_position` -/
def objProj {F : Type} (r : Except Err (List F × RP)) : Except Err (List F × Nat) :=
  match r with
  | .ok x => .ok (x.1, x.2.cur)
  | .error e => .error e

theorem xyzReaderO_proj (v : Variant) (content : List Char) (o : RP) :
    objProj (xyzReaderO v content o) = xyzReader v content o.cur := by
  unfold xyzReaderO xyzReader
  rw [← resRun_xyz_proj v (lines (content.drop o.cur)) (xInit o.cur) o.prev]
  cases resRun (xyzStepO v) (lines (content.drop o.cur)) (xInit o.cur, o.prev) <;> rfl

theorem lmpReaderO_proj (v : Variant) (content : List Char) (o : RP) :
    objProj (lmpReaderO v content o) = lmpReader v content o.cur := by
  unfold lmpReaderO lmpReader
  rw [← resRun_lmp_proj v (lines (content.drop o.cur)) (lInit o.cur) o.prev]
  cases resRun (lmpStepO v) (lines (content.drop o.cur)) (lInit o.cur, o.prev) <;> rfl

theorem objProj_ok {F : Type} {r : Except Err (List F × RP)} {fs : List F} {pos : Nat}
    (h : objProj r = .ok (fs, pos)) : ∃ p', r = .ok (fs, ⟨pos, p'⟩) := by
  cases r with
  | error e => simp [objProj] at h
  | ok x =>
    obtain ⟨a, ⟨c, p⟩⟩ := x
    simp only [objProj, Except.ok.injEq, Prod.mk.injEq] at h
    obtain ⟨rfl, rfl⟩ := h
    exact ⟨p, rfl⟩

theorem objProj_error {F : Type} {r : Except Err (List F × RP)} {e : Err}
    (h : objProj r = .error e) : r = .error e := by
  cases r with
  | error e' => simpa [objProj] using h
  | ok x => simp [objProj] at h

/-- frames of every poll -/
def stagesFrames {F : Type} (r : Except Err (List (List F × RP))) : Except Err (List (List F)) :=
  match r with
  | .ok st => .ok (st.map Prod.fst)
  | .error e => .error e

/-- frames and `current_position` of every poll -/
def stagesPos {F : Type} (r : Except Err (List (List F × RP))) : Except Err (List (List F × Nat)) :=
  match r with
  | .ok st => .ok (st.map (fun s => (s.1, s.2.cur)))
  | .error e => .error e

/-- **the object is the function model**: polled on the prefixes `cuts` of one content, the object returns
    poll by poll what `pollAll` returns (the function every earlier C13 theorem speaks about) -/
theorem rpRun_eq_pollAll {F : Type} (readerO : List Char → RP → Except Err (List F × RP))
    (reader : List Char → Nat → Except Err (List F × Nat))
    (hproj : ∀ content o, objProj (readerO content o) = reader content o.cur)
    (content : List Char) (cuts : List Nat) (o : RP) :
    stagesFrames (rpRun readerO (visible content (cuts.map some)) o) = pollAll reader content cuts o.cur := by
  induction cuts generalizing o with
  | nil => rfl
  | cons c cs ih =>
    simp only [List.map_cons, visible, Option.map_some, rpRun, rpPoll, pollAll]
    have hp := hproj (content.take c) o
    cases hr : reader (content.take c) o.cur with
    | error e =>
      rw [hr] at hp
      rw [objProj_error hp]; rfl
    | ok x =>
      obtain ⟨fs, pos⟩ := x
      rw [hr] at hp
      obtain ⟨p', hp'⟩ := objProj_ok hp
      rw [hp']
      have := ih ⟨pos, p'⟩
      simp only [visible] at this
      simp only []
      rw [← this]
      cases rpRun readerO (List.map (fun e => Option.map (fun c => List.take c content) e) (List.map some cs))
        ⟨pos, p'⟩ <;> rfl

/-- an absent file is polled like an empty one -/
theorem rpRun_absent_as_empty {F : Type} (readerO : List Char → RP → Except Err (List F × RP))
    (hempty : ∀ o, readerO [] o = .ok ([], o)) (content : List Char) (evs : List (Option Nat)) (o : RP) :
    rpRun readerO (visible content evs) o
      = rpRun readerO (visible content ((evs.map visBytes).map some)) o := by
  induction evs generalizing o with
  | nil => rfl
  | cons e es ih =>
    cases e with
    | none =>
      simp only [visible, List.map_cons, Option.map_none, Option.map_some, visBytes, rpRun, rpPoll,
        List.take_zero, hempty]
      have := ih o
      simp only [visible] at this
      rw [this]
    | some c =>
      simp only [visible, List.map_cons, Option.map_some, visBytes, rpRun, rpPoll]
      cases readerO (content.take c) o with
      | error e => rfl
      | ok x =>
        have := ih x.2
        simp only [visible] at this
        simp only []
        rw [this]

theorem xyzReaderO_empty (v : Variant) (o : RP) : xyzReaderO v [] o = .ok ([], o) := by
  simp [xyzReaderO, lines, resRun, finish, xInit]

theorem lmpReaderO_empty (v : Variant) (o : RP) : lmpReaderO v [] o = .ok ([], o) := by
  simp [lmpReaderO, lines, resRun, finish, lInit]

/-- a file that does not reach beyond `current_position` (truncated, replaced by something shorter, or simply
    not grown): the poll returns nothing, moves nothing, raises nothing — whatever the file contains -/
theorem xyzReaderO_short (v : Variant) (content : List Char) (o : RP) (h : content.length ≤ o.cur) :
    xyzReaderO v content o = .ok ([], o) := by
  simp [xyzReaderO, List.drop_eq_nil_of_le h, lines, resRun, finish, xInit]

theorem lmpReaderO_short (v : Variant) (content : List Char) (o : RP) (h : content.length ≤ o.cur) :
    lmpReaderO v content o = .ok ([], o) := by
  simp [lmpReaderO, List.drop_eq_nil_of_le h, lines, resRun, finish, lInit]

/-! ### positions: the object on an append-only trajectory -/

theorem exactStagesPos_length {F : Type} (lens : List Nat) (dec : List F) (evs : List (Option Nat)) (done : Nat) :
    (exactStagesPos lens dec evs done).length = evs.length := by
  induction evs generalizing done with
  | nil => rfl
  | cons e es ih => cases e <;> simp [exactStagesPos, ih]

/-- **all polls, with positions (xyz)** -/
theorem xyz_rpRun_pos (v : Variant) (N : Nat) (hN : 1 ≤ N) (frames : List XyzF)
    (hwf : ∀ f ∈ frames, f.WF N) (evs : List (Option Nat))
    (hv : v = .repaired ∨ ∀ e ∈ evs, LineEnd (((frames.map XyzF.enc).flatten).take (visBytes e)))
    (done : Nat) (hd : done ≤ frames.length) (p : Nat) :
    stagesPos (rpRun (xyzReaderO v) (visible ((frames.map XyzF.enc).flatten) evs)
        ⟨sumLens ((frames.map XyzF.len).take done), p⟩)
      = .ok (exactStagesPos (frames.map XyzF.len) (frames.map XyzF.decode) evs done) := by
  induction evs generalizing done p with
  | nil => rfl
  | cons e es ih =>
    have hv2 : v = .repaired ∨ ∀ e ∈ es, LineEnd (((frames.map XyzF.enc).flatten).take (visBytes e)) := by
      rcases hv with h | h
      · exact Or.inl h
      · exact Or.inr (fun c hc => h c (by simp [hc]))
    cases e with
    | none =>
      simp only [visible, List.map_cons, Option.map_none, rpRun, rpPoll, exactStagesPos]
      have := ih hv2 done hd p
      simp only [visible] at this
      revert this
      cases rpRun (xyzReaderO v) (List.map (fun e => Option.map (fun c => List.take c (List.map XyzF.enc frames).flatten) e) es)
        ⟨sumLens ((frames.map XyzF.len).take done), p⟩ with
      | error e => intro h; simp [stagesPos] at h
      | ok st =>
        intro h
        simp only [stagesPos, Except.ok.injEq] at h ⊢
        simp [h]
    | some c =>
      have hsplit : frames = frames.take done ++ frames.drop done := (List.take_append_drop done frames).symm
      have hpos : ((List.map XyzF.enc (frames.take done)).flatten).length
          = sumLens ((frames.map XyzF.len).take done) := by
        rw [flatten_enc_length, List.map_take]
      have hwfr : ∀ f ∈ frames.drop done, f.WF N := fun f hf => hwf f (List.mem_of_mem_drop hf)
      have hwfd : ∀ f ∈ frames.take done, f.WF N := fun f hf => hwf f (List.mem_of_mem_take hf)
      have hv1 : v = .repaired ∨ LineEnd (((frames.drop done).map XyzF.enc).flatten.take
          (c - ((List.map XyzF.enc (frames.take done)).flatten).length)) := by
        rcases hv with h | h
        · exact Or.inl h
        · right
          have hc := h (some c) (by simp)
          simp only [visBytes] at hc
          rw [hsplit, List.map_append, List.flatten_append, List.take_append] at hc
          by_cases hle : ((List.map XyzF.enc (frames.take done)).flatten).length ≤ c
          · rw [List.take_of_length_le hle] at hc
            exact LineEnd_of_append hc (lineEnd_frames N _ hwfd)
          · left
            have : c - ((List.map XyzF.enc (frames.take done)).flatten).length = 0 := by omega
            rw [this]; rfl
      have hpoll := xyzReader_poll v N hN (frames.take done) (frames.drop done) hwfr c hv1
      rw [← hsplit, hpos] at hpoll
      have hproj := xyzReaderO_proj v (((frames.map XyzF.enc).flatten).take c)
        ⟨sumLens ((frames.map XyzF.len).take done), p⟩
      simp only [] at hproj
      rw [hpoll] at hproj
      obtain ⟨p', hp'⟩ := objProj_ok hproj
      simp only [visible, List.map_cons, Option.map_some, rpRun, rpPoll, hp', exactStagesPos]
      have hm : completeCount ((frames.drop done).map XyzF.len)
          (c - sumLens ((frames.map XyzF.len).take done)) ≤ frames.length - done := by
        have := completeCount_le ((frames.drop done).map XyzF.len)
          (c - sumLens ((frames.map XyzF.len).take done))
        simpa using this
      have hnext := ih hv2 (done + completeCount ((frames.drop done).map XyzF.len)
          (c - sumLens ((frames.map XyzF.len).take done))) (by omega) p'
      rw [sumLens_take_add] at hnext
      simp only [visible, List.map_drop] at hnext hm ⊢
      revert hnext
      cases rpRun (xyzReaderO v) (List.map (fun e => Option.map (fun c => List.take c (List.map XyzF.enc frames).flatten) e) es)
        ⟨sumLens ((frames.map XyzF.len).take done) + sumLens (List.take (completeCount (List.drop done (List.map XyzF.len frames))
          (c - sumLens (List.take done (List.map XyzF.len frames)))) (List.drop done (List.map XyzF.len frames))), p'⟩ with
      | error e => intro h; simp [stagesPos] at h
      | ok st =>
        intro h
        simp only [stagesPos, Except.ok.injEq] at h ⊢
        simp [h, sumLens_take_add]

theorem lmpStagesPos_length {F : Type} (lens : List Nat) (dec : List F) (evs : List (Option Nat)) (done : Nat)
    (late : Bool) : (lmpStagesPos lens dec evs done late).length = evs.length := by
  induction evs generalizing done late with
  | nil => rfl
  | cons e es ih =>
    cases e with
    | none => simp [lmpStagesPos, ih]
    | some c =>
      simp only [lmpStagesPos]
      split
      · split <;> simp [ih]
      · simp [ih]

/-- **all polls, with positions (LAMMPS)** -/
theorem lmp_rpRun_pos (v : Variant) (N : Nat) (hN : 1 ≤ N) (frames : List LmpF) (hwf : ∀ f ∈ frames, f.WF N)
    (evs : List (Option Nat))
    (hfree : ∀ e ∈ evs, ∀ d, d ≤ frames.length →
      tbFree (frames.drop d) (visBytes e - sumLens ((frames.map LmpF.len).take d)))
    (done : Nat) (late : Bool) (hd : done ≤ frames.length)
    (hl : late = true → 1 ≤ done) (p : Nat) :
    stagesPos (rpRun (lmpReaderO v) (visible ((frames.map LmpF.enc).flatten) evs)
        ⟨sumLens ((frames.map LmpF.len).take done) - (if late then 1 else 0), p⟩)
      = .ok (lmpStagesPos (frames.map LmpF.len) (frames.map (LmpF.decode N)) evs done late) := by
  induction evs generalizing done late p with
  | nil => rfl
  | cons e es ih =>
    have hfree2 : ∀ e' ∈ es, ∀ d, d ≤ frames.length →
        tbFree (frames.drop d) (visBytes e' - sumLens ((frames.map LmpF.len).take d)) :=
      fun e' he' => hfree e' (by simp [he'])
    cases e with
    | none =>
      simp only [visible, List.map_cons, Option.map_none, rpRun, rpPoll, lmpStagesPos]
      have := ih hfree2 done late hd hl p
      simp only [visible] at this
      revert this
      cases rpRun (lmpReaderO v) (List.map (fun e => Option.map (fun c => List.take c (List.map LmpF.enc frames).flatten) e) es)
        ⟨sumLens ((frames.map LmpF.len).take done) - (if late then 1 else 0), p⟩ with
      | error e => intro h; simp [stagesPos] at h
      | ok st =>
        intro h
        simp only [stagesPos, Except.ok.injEq] at h ⊢
        simp [h]
    | some c =>
      have hsplit : frames = frames.take done ++ frames.drop done := (List.take_append_drop done frames).symm
      have hpos : ((List.map LmpF.enc (frames.take done)).flatten).length
          = sumLens ((frames.map LmpF.len).take done) := by
        rw [flatten_lenc_length, List.map_take]
      have hwfr : ∀ f ∈ frames.drop done, f.WF N := fun f hf => hwf f (List.mem_of_mem_drop hf)
      have hwfd : ∀ f ∈ frames.take done, f.WF N := fun f hf => hwf f (List.mem_of_mem_take hf)
      cases late with
      | true =>
        have hd1 := hl rfl
        have hne : frames.take done ≠ [] := by
          intro h
          have := congrArg List.length h
          rw [List.length_take, List.length_nil] at this; omega
        have hpoll := lmpReader_poll_late (v := v) N (frames.take done) (frames.drop done) hwfd hne c
        rw [← hsplit, hpos] at hpoll
        have hproj := lmpReaderO_proj v (((frames.map LmpF.enc).flatten).take c)
          ⟨sumLens ((frames.map LmpF.len).take done) - 1, p⟩
        simp only [] at hproj
        rw [hpoll] at hproj
        obtain ⟨p', hp'⟩ := objProj_ok hproj
        simp only [if_true, visible, List.map_cons, Option.map_some, rpRun, rpPoll, hp', lmpStagesPos]
        by_cases hc : c < sumLens ((frames.map LmpF.len).take done)
        · simp only [hc, if_true]
          have := ih hfree2 done true hd hl p'
          simp only [if_true, visible] at this
          revert this
          cases rpRun (lmpReaderO v) (List.map (fun e => Option.map (fun c => List.take c (List.map LmpF.enc frames).flatten) e) es)
            ⟨sumLens ((frames.map LmpF.len).take done) - 1, p'⟩ with
          | error e => intro h; simp [stagesPos] at h
          | ok st =>
            intro h
            simp only [stagesPos, Except.ok.injEq] at h ⊢
            simp [h]
        · simp only [hc, if_false]
          have := ih hfree2 done false hd (by intro h; cases h) p'
          simp only [Bool.false_eq_true, if_false, Nat.sub_zero, visible] at this
          revert this
          cases rpRun (lmpReaderO v) (List.map (fun e => Option.map (fun c => List.take c (List.map LmpF.enc frames).flatten) e) es)
            ⟨sumLens ((frames.map LmpF.len).take done), p'⟩ with
          | error e => intro h; simp [stagesPos] at h
          | ok st =>
            intro h
            simp only [stagesPos, Except.ok.injEq] at h ⊢
            simp [h]
      | false =>
        have hpoll := lmpReader_poll (v := v) N hN (frames.take done) (frames.drop done) hwfr c
          (by rw [hpos]; exact hfree (some c) (by simp) done hd)
        rw [← hsplit, hpos] at hpoll
        have hproj := lmpReaderO_proj v (((frames.map LmpF.enc).flatten).take c)
          ⟨sumLens ((frames.map LmpF.len).take done), p⟩
        simp only [] at hproj
        rw [hpoll] at hproj
        obtain ⟨p', hp'⟩ := objProj_ok hproj
        simp only [Bool.false_eq_true, if_false, Nat.sub_zero, visible, List.map_cons, Option.map_some, rpRun,
          rpPoll, hp', lmpStagesPos]
        have hm := lmpCount_fst_le ((frames.drop done).map LmpF.len) (c - sumLens ((frames.map LmpF.len).take done))
        simp only [List.length_map, List.length_drop] at hm
        have hnext := ih hfree2 (done + (lmpCount ((frames.drop done).map LmpF.len)
            (c - sumLens ((frames.map LmpF.len).take done))).1)
          (lmpCount ((frames.drop done).map LmpF.len) (c - sumLens ((frames.map LmpF.len).take done))).2
          (by omega)
          (fun h => by have := lmpCount_late_pos _ _ h; omega) p'
        rw [sumLens_take_add'] at hnext
        simp only [visible, List.map_drop] at hnext hm ⊢
        revert hnext
        generalize rpRun (lmpReaderO v) (List.map (fun e => Option.map (fun c => List.take c (List.map LmpF.enc frames).flatten) e) es) _ = R
        cases R with
        | error e => intro h; simp [stagesPos] at h
        | ok st =>
          intro h
          simp only [stagesPos, Except.ok.injEq] at h ⊢
          simp [h, sumLens_take_add']

end Infretis.Readers
