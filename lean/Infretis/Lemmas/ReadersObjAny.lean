import Infretis.Lemmas.ReadersObj
import Infretis.Lemmas.ReadersLmpAny
/-!
# Lemmas for C13: the reader OBJECT with `lammpstrj_reader`, positions, EVERY schedule, any slack
-/
namespace Infretis.Readers

/-- one poll of the object, then the rest -/
theorem stagesPos_rpRun_cons {F : Type} (readerO : List Char → RP → Except Err (List F × RP))
    (file : Option (List Char)) (fs : List (Option (List Char))) (o o' : RP) (frames : List F)
    (rest : List (List F × Nat))
    (hpoll : rpPoll readerO o file = .ok (frames, o')) (hrest : stagesPos (rpRun readerO fs o') = .ok rest) :
    stagesPos (rpRun readerO (file :: fs) o) = .ok ((frames, o'.cur) :: rest) := by
  simp only [rpRun, hpoll]
  cases h : rpRun readerO fs o' with
  | error e => rw [h] at hrest; simp [stagesPos] at hrest
  | ok st =>
    rw [h] at hrest
    simp only [stagesPos, Except.ok.injEq] at hrest ⊢
    simp [hrest]

/-- the object's poll from what the function model returns -/
theorem lmpReaderO_of_reader (v : Variant) (content : List Char) (cur p : Nat) (fs : List LFrame) (pos : Nat)
    (h : lmpReader v content cur = .ok (fs, pos)) : ∃ p', lmpReaderO v content ⟨cur, p⟩ = .ok (fs, ⟨pos, p'⟩) := by
  have hproj := lmpReaderO_proj v content ⟨cur, p⟩
  simp only [] at hproj
  rw [h] at hproj
  exact objProj_ok hproj

/-- **all polls, with positions (LAMMPS), every schedule, any white space behind the trailing ids** -/
theorem lmp_rpRun_posS (N : Nat) (hN : 1 ≤ N) (frames : List LmpF) (hwf : ∀ f ∈ frames, f.WF N)
    (evs : List (Option Nat)) (done miss : Nat) (hd : done ≤ frames.length)
    (hm : miss ≠ 0 → 1 ≤ done ∧ ∃ f, frames[done - 1]? = some f ∧ miss ≤ f.slack) (p : Nat) :
    stagesPos (rpRun (lmpReaderO .repaired) (visible ((frames.map LmpF.enc).flatten) evs)
        ⟨endOf (frOf frames) done - miss, p⟩)
      = .ok (lmpStagesPosS (frOf frames) (frames.map (LmpF.decode N)) evs done miss) := by
  induction evs generalizing done miss p with
  | nil => rfl
  | cons e es ih =>
    cases e with
    | none =>
      have := ih done miss hd hm p
      simp only [visible, List.map_cons, Option.map_none, lmpStagesPosS] at this ⊢
      exact stagesPos_rpRun_cons _ none _ _ _ [] _ rfl this
    | some c =>
      simp only [visible, List.map_cons, Option.map_some]
      by_cases hm0 : miss ≠ 0
      · obtain ⟨hd1, f, hf, hms⟩ := hm hm0
        obtain ⟨j, rfl⟩ : ∃ j, done = j + 1 := ⟨done - 1, by omega⟩
        simp only [Nat.add_sub_cancel] at hf
        have hj : j < frames.length := by omega
        have hfj : frames[j] = f := by
          have := List.getElem?_eq_getElem hj
          rw [this] at hf; exact Option.some.inj hf
        have htake : frames.take (j + 1) = frames.take j ++ [f] := by
          rw [List.take_succ_eq_append_getElem hj, hfj]
        have hsplit : frames = frames.take j ++ f :: frames.drop (j + 1) := by
          have := (List.take_append_drop (j + 1) frames).symm
          rw [htake, List.append_assoc] at this
          exact this
        have hpoll := lmpReader_poll_lateS N hN (frames.take j) f (frames.drop (j + 1))
          (hwf f (by rw [← hfj]; exact List.getElem_mem hj)) miss (by omega) hms c
        rw [← hsplit, ← htake, ← endOf_frOf_enc] at hpoll
        obtain ⟨p', hp'⟩ := lmpReaderO_of_reader .repaired _ _ p _ _ hpoll
        by_cases hc : c < endOf (frOf frames) (j + 1)
        · rw [if_pos hc] at hp'
          have := ih (j + 1) miss hd hm p'
          simp only [visible] at this
          have h2 := stagesPos_rpRun_cons (lmpReaderO .repaired) (some (((frames.map LmpF.enc).flatten).take c)) _ _ _ _ _
            hp' this
          simp only [lmpStagesPosS, hm0, hc, if_true, ne_eq, not_false_eq_true]
          exact h2
        · rw [if_neg hc] at hp'
          have := ih (j + 1) 0 hd (by intro h; exact absurd rfl h) p'
          rw [Nat.sub_zero] at this
          simp only [visible] at this
          have h2 := stagesPos_rpRun_cons (lmpReaderO .repaired) (some (((frames.map LmpF.enc).flatten).take c)) _ _ _ _ _
            hp' this
          simp only [lmpStagesPosS, hm0, hc, if_true, if_false, ne_eq, not_false_eq_true]
          exact h2
      · have hmz : miss = 0 := by omega
        subst hmz
        have hsplit : frames = frames.take done ++ frames.drop done := (List.take_append_drop done frames).symm
        have hwfr : ∀ f ∈ frames.drop done, f.WF N := fun f hf => hwf f (List.mem_of_mem_drop hf)
        have hpoll := lmpReader_pollS (v := .repaired) N hN (frames.take done) (frames.drop done) hwfr c
        rw [← hsplit, ← endOf_frOf_enc] at hpoll
        have hfd : frOf (frames.drop done) = (frOf frames).drop done := by simp [frOf, List.map_drop]
        rw [hfd, ← endOf_add] at hpoll
        rw [Nat.sub_zero]
        obtain ⟨p', hp'⟩ := lmpReaderO_of_reader .repaired _ _ p _ _ hpoll
        obtain ⟨s1, _, s3, _⟩ := lmpCountS_spec ((frOf frames).drop done) (c - endOf (frOf frames) done)
        have hlen : (frOf frames).length = frames.length := by simp [frOf]
        have hnext := ih (done + (lmpCountS ((frOf frames).drop done) (c - endOf (frOf frames) done)).1)
          (lmpCountS ((frOf frames).drop done) (c - endOf (frOf frames) done)).2
          (by simp only [List.length_drop, hlen] at s1; omega)
          (by
            intro hne
            rcases s3 with s3 | ⟨j1, g, j2, j3, _⟩
            · exact absurd s3 hne
            · refine ⟨by omega, ?_⟩
              rw [List.getElem?_drop] at j2
              have hidx : done + (lmpCountS ((frOf frames).drop done) (c - endOf (frOf frames) done)).1 - 1
                  = done + ((lmpCountS ((frOf frames).drop done) (c - endOf (frOf frames) done)).1 - 1) := by omega
              rw [hidx]
              simp only [frOf, List.getElem?_map, Option.map_eq_some_iff] at j2
              obtain ⟨f0, hf0, hg⟩ := j2
              exact ⟨f0, hf0, by rw [← hg] at j3; exact j3⟩) p'
        simp only [visible] at hnext
        have h2 := stagesPos_rpRun_cons (lmpReaderO .repaired) (some (((frames.map LmpF.enc).flatten).take c)) _ _ _ _ _
          hp' hnext
        simp only [lmpStagesPosS, ne_eq, not_true_eq_false, if_false]
        rw [h2]
        simp [List.map_drop]

end Infretis.Readers
