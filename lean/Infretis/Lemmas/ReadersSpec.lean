import Infretis.Lemmas.Readers
/-!
# Lemmas for C13, part 3: what the stage specifications `exactStages` / `lmpStages` imply
(pure list arithmetic; no text, no reader).
-/
namespace Infretis.Readers

theorem completeCount_mono (lens : List Nat) (c c' : Nat) (h : c ≤ c') :
    completeCount lens c ≤ completeCount lens c' := by
  induction lens generalizing c c' with
  | nil => simp [completeCount]
  | cons l ls ih =>
    simp only [completeCount]
    by_cases h1 : l ≤ c
    · have h2 : l ≤ c' := by omega
      simp only [h1, h2, if_true]
      have := ih (c - l) (c' - l) (by omega)
      omega
    · simp [h1]

/-- resuming the count after `d` frames that are known to be complete -/
theorem completeCount_resume (lens : List Nat) (d c : Nat) (h : d ≤ completeCount lens c) :
    completeCount lens c = d + completeCount (lens.drop d) (c - sumLens (lens.take d)) := by
  induction lens generalizing d c with
  | nil => simp [completeCount] at h; subst h; simp [completeCount]
  | cons l ls ih =>
    cases d with
    | zero => simp [sumLens]
    | succ d =>
      simp only [completeCount] at h ⊢
      by_cases h1 : l ≤ c
      · simp only [h1, if_true] at h ⊢
        have := ih d (c - l) (by omega)
        simp only [List.drop_succ_cons, List.take_succ_cons, sumLens]
        rw [this, Nat.sub_add_eq]
        omega
      · simp [h1] at h

theorem completeCount_all (lens : List Nat) (c : Nat) (h : sumLens lens ≤ c) :
    completeCount lens c = lens.length := by
  induction lens generalizing c with
  | nil => simp [completeCount]
  | cons l ls ih =>
    simp only [sumLens] at h
    have h1 : l ≤ c := by omega
    simp only [completeCount, h1, if_true, List.length_cons]
    rw [ih (c - l) (by omega)]

/-- **exact reader, stage by stage**: with non-decreasing cuts, after poll `k` the frames returned so far
    are precisely the first `completeCount lens cuts[k]` frames. -/
theorem exactStages_prefix {F : Type} (lens : List Nat) (dec : List F) (cuts : List Nat) (done : Nat)
    (hs : cuts.Pairwise (· ≤ ·)) (hd : ∀ c ∈ cuts, done ≤ completeCount lens c)
    (k : Nat) (hk : k < cuts.length) :
    dec.take done ++ ((exactStages lens dec cuts done).take (k + 1)).flatten
      = dec.take (completeCount lens cuts[k]) := by
  induction cuts generalizing done k with
  | nil => simp at hk
  | cons c cs ih =>
    have hc := hd c (by simp)
    have hres := completeCount_resume lens done c hc
    simp only [exactStages, List.take_succ_cons, List.flatten_cons]
    rw [← List.append_assoc, ← List.take_add, ← hres]
    cases k with
    | zero => simp
    | succ k =>
      simp only [List.length_cons] at hk
      simp only [List.getElem_cons_succ]
      rw [List.pairwise_cons] at hs
      apply ih _ hs.2
      intro c' hc'
      exact completeCount_mono lens c c' (hs.1 c' hc')

theorem exactStages_length {F : Type} (lens : List Nat) (dec : List F) (cuts : List Nat) (done : Nat) :
    (exactStages lens dec cuts done).length = cuts.length := by
  induction cuts generalizing done with
  | nil => rfl
  | cons c cs ih => simp [exactStages, ih]

/-! ### the LAMMPS stage specification `lmpStages` -/

theorem sumLens_take_add' (l : List Nat) (a b : Nat) :
    sumLens (l.take (a + b)) = sumLens (l.take a) + sumLens ((l.drop a).take b) := by
  rw [List.take_add, sumLens_append]

theorem sumLens_take_mono (l : List Nat) (a b : Nat) (h : a ≤ b) :
    sumLens (l.take a) ≤ sumLens (l.take b) := by
  obtain ⟨k, rfl⟩ := Nat.exists_eq_add_of_le h
  rw [sumLens_take_add']; omega

theorem le_completeCount (lens : List Nat) (d c : Nat) (hd : d ≤ lens.length)
    (hs : sumLens (lens.take d) ≤ c) : d ≤ completeCount lens c := by
  induction lens generalizing d c with
  | nil => simp at hd; omega
  | cons l ls ih =>
    cases d with
    | zero => omega
    | succ d =>
      simp only [List.take_succ_cons, sumLens, List.length_cons] at hs hd
      have h1 : l ≤ c := by omega
      simp only [completeCount, h1, if_true]
      have := ih d (c - l) (by omega) (by omega)
      omega

/-- `lmpCount` = the complete frames, plus possibly one frame that lacks exactly its final byte -/
theorem lmpCount_spec (ls : List Nat) (n : Nat) :
    ((lmpCount ls n).2 = false ∧ (lmpCount ls n).1 = completeCount ls n) ∨
    ((lmpCount ls n).2 = true ∧ (lmpCount ls n).1 = completeCount ls n + 1 ∧
      sumLens (ls.take (completeCount ls n + 1)) = n + 1 ∧ completeCount ls n < ls.length) := by
  induction ls generalizing n with
  | nil => left; simp [lmpCount, completeCount]
  | cons l ls ih =>
    by_cases h1 : l ≤ n
    · simp only [lmpCount, completeCount, h1, if_true]
      rcases ih (n - l) with ⟨hb, hm⟩ | ⟨hb, hm, hsum, hlt⟩
      · left; exact ⟨hb, by omega⟩
      · right
        refine ⟨hb, by omega, ?_, by simp; omega⟩
        simp only [List.take_succ_cons, sumLens]
        omega
    · by_cases h2 : l = n + 1
      · right
        subst h2
        have h3 : ¬ (n + 1 ≤ n) := by omega
        simp [lmpCount, completeCount, h3, sumLens]
      · left; simp [lmpCount, completeCount, h1, h2]

/-- state of the LAMMPS reader after the polls `cuts`: frames returned, "late newline pending" -/
def lmpFinal (lens : List Nat) : List Nat → Nat → Bool → Nat × Bool
  | [], d, l => (d, l)
  | c :: cs, d, l =>
    if l then
      if c < sumLens (lens.take d) then lmpFinal lens cs d true else lmpFinal lens cs d false
    else
      lmpFinal lens cs (d + (lmpCount (lens.drop d) (c - sumLens (lens.take d))).1)
        (lmpCount (lens.drop d) (c - sumLens (lens.take d))).2

theorem lmpStages_append {F : Type} (lens : List Nat) (dec : List F) (a b : List Nat) (d : Nat) (l : Bool) :
    lmpStages lens dec (a ++ b) d l
      = lmpStages lens dec a d l ++ lmpStages lens dec b (lmpFinal lens a d l).1 (lmpFinal lens a d l).2 := by
  induction a generalizing d l with
  | nil => simp [lmpStages, lmpFinal]
  | cons c cs ih =>
    simp only [List.cons_append, lmpStages, lmpFinal]
    cases l
    · simp [ih]
    · by_cases h : c < sumLens (lens.take d) <;> simp [h, ih]

theorem lmpFinal_append (lens : List Nat) (a b : List Nat) (d : Nat) (l : Bool) :
    lmpFinal lens (a ++ b) d l = lmpFinal lens b (lmpFinal lens a d l).1 (lmpFinal lens a d l).2 := by
  induction a generalizing d l with
  | nil => simp [lmpFinal]
  | cons c cs ih =>
    simp only [List.cons_append, lmpFinal]
    cases l
    · simp [ih]
    · by_cases h : c < sumLens (lens.take d) <;> simp [h, ih]

theorem lmpStages_length {F : Type} (lens : List Nat) (dec : List F) (cuts : List Nat) (d : Nat) (l : Bool) :
    (lmpStages lens dec cuts d l).length = cuts.length := by
  induction cuts generalizing d l with
  | nil => rfl
  | cons c cs ih =>
    simp only [lmpStages]
    cases l
    · simp [ih]
    · by_cases h : c < sumLens (lens.take d) <;> simp [h, ih]

/-- a state the reader can be in before the polls `cuts` -/
def LValid (lens : List Nat) (cuts : List Nat) (d : Nat) (l : Bool) : Prop :=
  d ≤ lens.length ∧
  (if l then ∀ c ∈ cuts, sumLens (lens.take d) ≤ c + 1 else ∀ c ∈ cuts, d ≤ completeCount lens c)

/-- **LAMMPS reader, all polls**: the frames returned are a prefix of the trajectory (each once, in
    order); the reader ends in a valid state; and all bytes of every returned frame, except possibly the
    final newline of the last one, were visible at the last poll. -/
theorem lmp_run {F : Type} (lens : List Nat) (dec : List F) (cuts : List Nat) (d : Nat) (l : Bool)
    (hs : cuts.Pairwise (· ≤ ·)) (hv : LValid lens cuts d l) :
    dec.take d ++ (lmpStages lens dec cuts d l).flatten = dec.take (lmpFinal lens cuts d l).1
    ∧ (lmpFinal lens cuts d l).1 ≤ lens.length
    ∧ (∀ c ∈ cuts.getLast?, sumLens (lens.take (lmpFinal lens cuts d l).1) ≤ c + 1) := by
  induction cuts generalizing d l with
  | nil => simp [lmpStages, lmpFinal, hv.1]
  | cons c cs ih =>
    rw [List.pairwise_cons] at hs
    obtain ⟨hdl, hvc⟩ := hv
    -- it suffices to treat one poll: new state valid for `cs`, output extends the prefix, bound at `c`
    suffices hstep : ∀ (out : List F) (d' : Nat) (l' : Bool),
        lmpStages lens dec (c :: cs) d l = out :: lmpStages lens dec cs d' l' →
        lmpFinal lens (c :: cs) d l = lmpFinal lens cs d' l' →
        dec.take d ++ out = dec.take d' → LValid lens cs d' l' → sumLens (lens.take d') ≤ c + 1 →
        (dec.take d ++ (lmpStages lens dec (c :: cs) d l).flatten = dec.take (lmpFinal lens (c :: cs) d l).1
          ∧ (lmpFinal lens (c :: cs) d l).1 ≤ lens.length
          ∧ (∀ x ∈ (c :: cs).getLast?, sumLens (lens.take (lmpFinal lens (c :: cs) d l).1) ≤ x + 1)) by
      cases l with
      | true =>
        simp only [if_true] at hvc
        by_cases h : c < sumLens (lens.take d)
        · apply hstep [] d true (by simp [lmpStages, h]) (by simp [lmpFinal, h]) (by simp)
          · exact ⟨hdl, by simpa using fun x hx => hvc x (by simp [hx])⟩
          · exact hvc c (by simp)
        · apply hstep [] d false (by simp [lmpStages, h]) (by simp [lmpFinal, h]) (by simp)
          · refine ⟨hdl, ?_⟩
            simp only [Bool.false_eq_true, if_false]
            intro x hx
            exact le_completeCount lens d x hdl (by have := hs.1 x hx; omega)
          · omega
      | false =>
        simp only [Bool.false_eq_true, if_false] at hvc
        have hdc := hvc c (by simp)
        have hres := completeCount_resume lens d c hdc
        have hsd : sumLens (lens.take d) ≤ c :=
          Nat.le_trans (sumLens_take_mono lens d _ hdc) (completeCount_sum_le lens c)
        rcases lmpCount_spec (lens.drop d) (c - sumLens (lens.take d)) with ⟨hb, hm⟩ | ⟨hb, hm, hsum, hlt⟩
        · have e1 : (lmpCount (lens.drop d) (c - sumLens (lens.take d))).1 = completeCount lens c - d := by
            rw [hm]; omega
          have e2 : d + (lmpCount (lens.drop d) (c - sumLens (lens.take d))).1 = completeCount lens c := by
            rw [hm]; omega
          apply hstep ((dec.drop d).take (completeCount lens c - d)) (completeCount lens c) false
          · simp only [lmpStages, Bool.false_eq_true, if_false]; rw [hb, e2, e1]
          · simp only [lmpFinal, Bool.false_eq_true, if_false]; rw [hb, e2]
          · rw [← List.take_add]; congr 1; omega
          · refine ⟨completeCount_le lens c, ?_⟩
            simp only [Bool.false_eq_true, if_false]
            intro x hx
            exact completeCount_mono lens c x (hs.1 x hx)
          · have := completeCount_sum_le lens c; omega
        · have hcl : completeCount lens c + 1 ≤ lens.length := by
            simp at hlt; omega
          have hsum' : sumLens (lens.take (completeCount lens c + 1)) = c + 1 := by
            rw [hres, Nat.add_assoc, sumLens_take_add', hsum]; omega
          have e1 : (lmpCount (lens.drop d) (c - sumLens (lens.take d))).1 = completeCount lens c + 1 - d := by
            rw [hm]; omega
          have e2 : d + (lmpCount (lens.drop d) (c - sumLens (lens.take d))).1 = completeCount lens c + 1 := by
            rw [hm]; omega
          apply hstep ((dec.drop d).take (completeCount lens c + 1 - d)) (completeCount lens c + 1) true
          · simp only [lmpStages, Bool.false_eq_true, if_false]; rw [hb, e2, e1]
          · simp only [lmpFinal, Bool.false_eq_true, if_false]; rw [hb, e2]
          · rw [← List.take_add]; congr 1; omega
          · refine ⟨hcl, ?_⟩
            simp only [if_true]
            intro x hx
            have := hs.1 x hx; omega
          · omega
    intro out d' l' hst hfin hout hv' hbound
    obtain ⟨h1, h2, h3⟩ := ih d' l' hs.2 hv'
    rw [hst, hfin]
    refine ⟨?_, h2, ?_⟩
    · rw [List.flatten_cons, ← List.append_assoc, hout, h1]
    · cases cs with
      | nil => intro x hx; simp at hx; subst hx; simpa [lmpFinal] using hbound
      | cons c2 cs' => simpa [List.getLast?_cons_cons] using h3

/-- two more polls on the complete file return everything that is left -/
theorem lmp_final_polls {F : Type} (lens : List Nat) (dec : List F) (hlen : dec.length = lens.length)
    (T : Nat) (hT : sumLens lens ≤ T) (d : Nat) (l : Bool) (hd : d ≤ lens.length) :
    (lmpFinal lens [T, T] d l).1 = lens.length := by
  have hsd : ∀ k, sumLens (lens.take k) ≤ T := by
    intro k
    by_cases hk : k ≤ lens.length
    · have := sumLens_take_mono lens k lens.length hk
      rw [List.take_length] at this; omega
    · rw [List.take_of_length_le (by omega)]; exact hT
  have hall : ∀ k, k ≤ lens.length →
      lmpCount (lens.drop k) (T - sumLens (lens.take k)) = (lens.length - k, false) := by
    intro k hk
    have hcc : completeCount (lens.drop k) (T - sumLens (lens.take k)) = lens.length - k := by
      have := completeCount_all (lens.drop k) (T - sumLens (lens.take k)) (by
        have h1 := sumLens_take_add' lens k (lens.length - k)
        have h2 : k + (lens.length - k) = lens.length := by omega
        rw [h2, List.take_length] at h1
        have h3 : (lens.drop k).take (lens.length - k) = lens.drop k := by
          apply List.take_of_length_le; simp
        rw [h3] at h1
        have := hsd k
        omega)
      simpa using this
    rcases lmpCount_spec (lens.drop k) (T - sumLens (lens.take k)) with ⟨hb, hm⟩ | ⟨_, _, _, hlt⟩
    · exact Prod.ext (by rw [hm, hcc]) hb
    · rw [hcc] at hlt; simp at hlt
  cases l with
  | true =>
    have h1 : ¬ T < sumLens (lens.take d) := by have := hsd d; omega
    simp [lmpFinal, h1, hall d hd]; omega
  | false =>
    simp only [lmpFinal, Bool.false_eq_true, if_false, hall d hd]
    have h2 : d + (lens.length - d) = lens.length := by omega
    simp [h2, lmpCount]

end Infretis.Readers
