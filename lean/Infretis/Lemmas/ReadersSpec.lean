import Infretis.Lemmas.Readers
/-!
# Lemmas for C13, part 3: what the stage specifications `exactStages` / `lmpStages` imply
(pure list arithmetic; no text, no reader).
-/
namespace Infretis.Readers

theorem completeCount_mono (lens : List Nat) (c c' : Nat) (h : c ≤ c') :
    completeCount lens c ≤ completeCount lens c' := by
  induction lens generalizing c c' with
  | nil => simp [completeCount]
  | cons l ls ih =>
    simp only [completeCount]
    by_cases h1 : l ≤ c
    · have h2 : l ≤ c' := by omega
      simp only [h1, h2, if_true]
      have := ih (c - l) (c' - l) (by omega)
      omega
    · simp [h1]

/-- resuming the count after `d` frames that are known to be complete -/
theorem completeCount_resume (lens : List Nat) (d c : Nat) (h : d ≤ completeCount lens c) :
    completeCount lens c = d + completeCount (lens.drop d) (c - sumLens (lens.take d)) := by
  induction lens generalizing d c with
  | nil => simp [completeCount] at h; subst h; simp [completeCount]
  | cons l ls ih =>
    cases d with
    | zero => simp [sumLens]
    | succ d =>
      simp only [completeCount] at h ⊢
      by_cases h1 : l ≤ c
      · simp only [h1, if_true] at h ⊢
        have := ih d (c - l) (by omega)
        simp only [List.drop_succ_cons, List.take_succ_cons, sumLens]
        rw [this, Nat.sub_add_eq]
        omega
      · simp [h1] at h

theorem completeCount_all (lens : List Nat) (c : Nat) (h : sumLens lens ≤ c) :
    completeCount lens c = lens.length := by
  induction lens generalizing c with
  | nil => simp [completeCount]
  | cons l ls ih =>
    simp only [sumLens] at h
    have h1 : l ≤ c := by omega
    simp only [completeCount, h1, if_true, List.length_cons]
    rw [ih (c - l) (by omega)]

/-- **exact reader, stage by stage**: with non-decreasing cuts, after poll `k` the frames returned so far
    are precisely the first `completeCount lens cuts[k]` frames. -/
theorem exactStages_prefix {F : Type} (lens : List Nat) (dec : List F) (cuts : List Nat) (done : Nat)
    (hs : cuts.Pairwise (· ≤ ·)) (hd : ∀ c ∈ cuts, done ≤ completeCount lens c)
    (k : Nat) (hk : k < cuts.length) :
    dec.take done ++ ((exactStages lens dec cuts done).take (k + 1)).flatten
      = dec.take (completeCount lens cuts[k]) := by
  induction cuts generalizing done k with
  | nil => simp at hk
  | cons c cs ih =>
    have hc := hd c (by simp)
    have hres := completeCount_resume lens done c hc
    simp only [exactStages, List.take_succ_cons, List.flatten_cons]
    rw [← List.append_assoc, ← List.take_add, ← hres]
    cases k with
    | zero => simp
    | succ k =>
      simp only [List.length_cons] at hk
      simp only [List.getElem_cons_succ]
      rw [List.pairwise_cons] at hs
      apply ih _ hs.2
      intro c' hc'
      exact completeCount_mono lens c c' (hs.1 c' hc')

theorem exactStages_length {F : Type} (lens : List Nat) (dec : List F) (cuts : List Nat) (done : Nat) :
    (exactStages lens dec cuts done).length = cuts.length := by
  induction cuts generalizing done with
  | nil => rfl
  | cons c cs ih => simp [exactStages, ih]

end Infretis.Readers
