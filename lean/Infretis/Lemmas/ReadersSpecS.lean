import Infretis.Lemmas.ReadersSpec
import Infretis.Model.ReadersSlack
/-!
# Lemmas for C13: the per-frame-slack stage specification `lmpCountS` / `lmpStagesS` (pure list arithmetic)
-/
namespace Infretis.Readers

theorem endOf_zero (fr : List (Nat × Nat)) : endOf fr 0 = 0 := by simp [endOf, sumLens]

theorem endOf_cons_succ (f : Nat × Nat) (fr : List (Nat × Nat)) (d : Nat) :
    endOf (f :: fr) (d + 1) = f.1 + endOf fr d := by
  simp [endOf, sumLens]

theorem endOf_add (fr : List (Nat × Nat)) (a b : Nat) : endOf fr (a + b) = endOf fr a + endOf (fr.drop a) b := by
  simp only [endOf]
  rw [List.take_add, List.map_append, sumLens_append]

theorem endOf_total (fr : List (Nat × Nat)) (d : Nat) :
    sumLens (fr.map Prod.fst) = endOf fr d + sumLens ((fr.drop d).map Prod.fst) := by
  have h : fr = fr.take d ++ fr.drop d := (List.take_append_drop d fr).symm
  have := congrArg (fun x => sumLens (x.map Prod.fst)) h
  simp only [List.map_append, sumLens_append] at this
  exact this

theorem endOf_mono (fr : List (Nat × Nat)) (a b : Nat) (h : a ≤ b) : endOf fr a ≤ endOf fr b := by
  obtain ⟨k, rfl⟩ := Nat.exists_eq_add_of_le h
  rw [endOf_add]; omega

/-- what `lmpCountS` returns: at most all frames; everything returned was visible except `miss` bytes, and
    these lie inside the slack of the last returned frame; no completely visible frame is left out -/
theorem lmpCountS_spec (fr : List (Nat × Nat)) (n : Nat) :
    (lmpCountS fr n).1 ≤ fr.length ∧ endOf fr (lmpCountS fr n).1 ≤ n + (lmpCountS fr n).2 ∧
    ((lmpCountS fr n).2 = 0 ∨ (1 ≤ (lmpCountS fr n).1 ∧ ∃ f, fr[(lmpCountS fr n).1 - 1]? = some f
        ∧ (lmpCountS fr n).2 ≤ f.2 ∧ endOf fr (lmpCountS fr n).1 = n + (lmpCountS fr n).2)) ∧
    completeCount (fr.map Prod.fst) n ≤ (lmpCountS fr n).1 := by
  induction fr generalizing n with
  | nil => simp [lmpCountS, endOf, sumLens, completeCount]
  | cons f fs ih =>
    by_cases h1 : f.1 ≤ n
    · obtain ⟨i1, i2, i3, i4⟩ := ih (n - f.1)
      simp only [lmpCountS, h1, if_true, List.length_cons, List.map_cons, completeCount, endOf_cons_succ]
      refine ⟨by omega, by omega, ?_, by omega⟩
      rcases i3 with i3 | ⟨j1, g, j2, j3, j4⟩
      · left; exact i3
      · right
        refine ⟨by omega, g, ?_, j3, by omega⟩
        have : (lmpCountS fs (n - f.1)).1 + 1 - 1 = ((lmpCountS fs (n - f.1)).1 - 1) + 1 := by omega
        rw [this, List.getElem?_cons_succ]; exact j2
    · by_cases h2 : f.1 ≤ n + f.2
      · simp only [lmpCountS, h1, h2, if_false, if_true, List.length_cons, List.map_cons, completeCount]
        refine ⟨by omega, ?_, ?_, by omega⟩
        · rw [endOf_cons_succ, endOf_zero]; omega
        · right
          refine ⟨by omega, f, by simp, by omega, ?_⟩
          rw [endOf_cons_succ, endOf_zero]; omega
      · simp [lmpCountS, h1, h2, completeCount, endOf_zero]

theorem lmpCountS_all (fr : List (Nat × Nat)) (n : Nat) (h : sumLens (fr.map Prod.fst) ≤ n) :
    lmpCountS fr n = (fr.length, 0) := by
  induction fr generalizing n with
  | nil => rfl
  | cons f fs ih =>
    simp only [List.map_cons, sumLens] at h
    have h1 : f.1 ≤ n := by omega
    simp only [lmpCountS, h1, if_true, ih (n - f.1) (by omega), List.length_cons]

theorem lmpStagesS_append {F : Type} (fr : List (Nat × Nat)) (dec : List F) (a b : List Nat) (d m : Nat) :
    lmpStagesS fr dec (a ++ b) d m
      = lmpStagesS fr dec a d m ++ lmpStagesS fr dec b (lmpFinalS fr a d m).1 (lmpFinalS fr a d m).2 := by
  induction a generalizing d m with
  | nil => simp [lmpStagesS, lmpFinalS]
  | cons c cs ih =>
    simp only [List.cons_append, lmpStagesS, lmpFinalS]
    by_cases hm : m ≠ 0
    · by_cases h : c < endOf fr d <;> simp [hm, h, ih]
    · simp [hm, ih]

theorem lmpFinalS_append (fr : List (Nat × Nat)) (a b : List Nat) (d m : Nat) :
    lmpFinalS fr (a ++ b) d m = lmpFinalS fr b (lmpFinalS fr a d m).1 (lmpFinalS fr a d m).2 := by
  induction a generalizing d m with
  | nil => simp [lmpFinalS]
  | cons c cs ih =>
    simp only [List.cons_append, lmpFinalS]
    by_cases hm : m ≠ 0
    · by_cases h : c < endOf fr d <;> simp [hm, h, ih]
    · simp [hm, ih]

theorem lmpStagesS_length {F : Type} (fr : List (Nat × Nat)) (dec : List F) (cuts : List Nat) (d m : Nat) :
    (lmpStagesS fr dec cuts d m).length = cuts.length := by
  induction cuts generalizing d m with
  | nil => rfl
  | cons c cs ih =>
    simp only [lmpStagesS]
    by_cases hm : m ≠ 0
    · by_cases h : c < endOf fr d <;> simp [hm, h, ih]
    · simp [hm, ih]

/-- a state the reader can be in after a poll that saw `c` bytes: `d` frames returned, all their bytes visible
    except `m`, which lie inside the slack of frame `d - 1` -/
def LInvS (fr : List (Nat × Nat)) (c d m : Nat) : Prop :=
  d ≤ fr.length ∧ endOf fr d ≤ c + m ∧ (m = 0 ∨ (1 ≤ d ∧ ∃ f, fr[d - 1]? = some f ∧ m ≤ f.2))

/-- **LAMMPS reader, all polls, any slack**: the frames returned are a prefix of the trajectory (each once, in
    order) and the state after the last poll is valid for the last cut -/
theorem lmpS_run {F : Type} (fr : List (Nat × Nat)) (dec : List F) (cuts : List Nat) (d m c0 : Nat)
    (hs : (c0 :: cuts).Pairwise (· ≤ ·)) (hv : LInvS fr c0 d m) :
    dec.take d ++ (lmpStagesS fr dec cuts d m).flatten = dec.take (lmpFinalS fr cuts d m).1
    ∧ (∀ c ∈ (c0 :: cuts).getLast?, LInvS fr c (lmpFinalS fr cuts d m).1 (lmpFinalS fr cuts d m).2) := by
  induction cuts generalizing d m c0 with
  | nil =>
    refine ⟨by simp [lmpStagesS, lmpFinalS], ?_⟩
    intro c hc
    simp only [List.getLast?_singleton, Option.mem_def, Option.some.injEq] at hc
    subst hc; exact hv
  | cons c cs ih =>
    rw [List.pairwise_cons] at hs
    obtain ⟨hs1, hs2⟩ := hs
    have hc0 : c0 ≤ c := hs1 c (by simp)
    obtain ⟨hd, he, hm3⟩ := hv
    rw [List.getLast?_cons_cons]
    by_cases hm : m ≠ 0
    · have hm3' : 1 ≤ d ∧ ∃ f, fr[d - 1]? = some f ∧ m ≤ f.2 := by
        rcases hm3 with h | h
        · exact absurd h hm
        · exact h
      by_cases h : c < endOf fr d
      · have hv' : LInvS fr c d m := ⟨hd, by omega, Or.inr hm3'⟩
        obtain ⟨i1, i2⟩ := ih d m c hs2 hv'
        simp only [lmpStagesS, lmpFinalS, hm, h, if_true, ne_eq, not_false_eq_true, List.flatten_cons,
          List.nil_append]
        exact ⟨i1, i2⟩
      · have hv' : LInvS fr c d 0 := ⟨hd, by omega, Or.inl rfl⟩
        obtain ⟨i1, i2⟩ := ih d 0 c hs2 hv'
        simp only [lmpStagesS, lmpFinalS, hm, h, if_true, if_false, ne_eq, not_false_eq_true, List.flatten_cons,
          List.nil_append]
        exact ⟨i1, i2⟩
    · have hm0 : m = 0 := by omega
      subst hm0
      obtain ⟨s1, s2, s3, _⟩ := lmpCountS_spec (fr.drop d) (c - endOf fr d)
      have hv' : LInvS fr c (d + (lmpCountS (fr.drop d) (c - endOf fr d)).1)
          (lmpCountS (fr.drop d) (c - endOf fr d)).2 := by
        refine ⟨by simp only [List.length_drop] at s1; omega, by rw [endOf_add]; omega, ?_⟩
        rcases s3 with s3 | ⟨j1, g, j2, j3, _⟩
        · left; exact s3
        · right
          refine ⟨by omega, g, ?_, j3⟩
          rw [List.getElem?_drop] at j2
          have : d + (lmpCountS (fr.drop d) (c - endOf fr d)).1 - 1
              = d + ((lmpCountS (fr.drop d) (c - endOf fr d)).1 - 1) := by omega
          rw [this]; exact j2
      obtain ⟨i1, i2⟩ := ih _ _ c hs2 hv'
      simp only [lmpStagesS, lmpFinalS, ne_eq, not_true_eq_false, if_false, List.flatten_cons]
      refine ⟨?_, i2⟩
      rw [← List.append_assoc, ← List.take_add]
      exact i1

/-- two more polls on the complete file return everything that is left -/
theorem lmpS_final_polls (fr : List (Nat × Nat)) (T : Nat) (hT : sumLens (fr.map Prod.fst) ≤ T) (d m : Nat)
    (hd : d ≤ fr.length) : (lmpFinalS fr [T, T] d m).1 = fr.length := by
  have htot := endOf_total fr d
  have hall : lmpCountS (fr.drop d) (T - endOf fr d) = (fr.length - d, 0) := by
    have := lmpCountS_all (fr.drop d) (T - endOf fr d) (by omega)
    simpa using this
  have hnil : ∀ n, lmpCountS (fr.drop fr.length) n = (0, 0) := by
    intro n; simp [lmpCountS]
  by_cases hm : m ≠ 0
  · have h1 : ¬ T < endOf fr d := by omega
    simp only [lmpFinalS, hm, h1, if_true, if_false, ne_eq, not_false_eq_true, not_true_eq_false, hall]
    omega
  · have hm0 : m = 0 := by omega
    subst hm0
    have h2 : d + (fr.length - d) = fr.length := by omega
    simp only [lmpFinalS, ne_eq, not_true_eq_false, if_false, hall, h2, hnil]
    omega

theorem lmpFinalS_le (fr : List (Nat × Nat)) (cuts : List Nat) (d m : Nat) (hd : d ≤ fr.length) :
    (lmpFinalS fr cuts d m).1 ≤ fr.length := by
  induction cuts generalizing d m with
  | nil => exact hd
  | cons c cs ih =>
    simp only [lmpFinalS]
    by_cases hm : m ≠ 0
    · by_cases h : c < endOf fr d <;> simp only [hm, h, if_true, if_false, ne_eq, not_false_eq_true] <;> exact ih _ _ hd
    · simp only [hm, if_false]
      apply ih
      have := (lmpCountS_spec (fr.drop d) (c - endOf fr d)).1
      simp only [List.length_drop] at this
      omega

/-! ### the one-byte-lag specification `lmpCount` / `lmpStages` is the case "every slack = 1" -/

theorem lmpCountS_slack_one (fr : List (Nat × Nat)) (h : ∀ f ∈ fr, f.2 = 1) (n : Nat) :
    lmpCountS fr n = ((lmpCount (fr.map Prod.fst) n).1, if (lmpCount (fr.map Prod.fst) n).2 then 1 else 0) := by
  induction fr generalizing n with
  | nil => rfl
  | cons f fs ih =>
    have hf : f.2 = 1 := h f (by simp)
    have hfs : ∀ g ∈ fs, g.2 = 1 := fun g hg => h g (by simp [hg])
    by_cases h1 : f.1 ≤ n
    · simp only [lmpCountS, lmpCount, List.map_cons, h1, if_true, ih hfs (n - f.1)]
    · by_cases h2 : f.1 = n + 1
      · have h3 : f.1 ≤ n + f.2 := by omega
        have h4 : ¬ (n + 1 ≤ n) := by omega
        have h5 : f.1 - n = 1 := by omega
        simp only [lmpCountS, lmpCount, List.map_cons, h1, h3, if_false, if_true, h5]
        simp only [h2, h4, if_false, if_true]
      · have h3 : ¬ f.1 ≤ n + f.2 := by omega
        simp [lmpCountS, lmpCount, h1, h2, h3]

theorem lmpStagesS_slack_one {F : Type} (fr : List (Nat × Nat)) (h : ∀ f ∈ fr, f.2 = 1) (dec : List F)
    (cuts : List Nat) (d : Nat) (late : Bool) :
    lmpStagesS fr dec cuts d (if late then 1 else 0) = lmpStages (fr.map Prod.fst) dec cuts d late := by
  induction cuts generalizing d late with
  | nil => rfl
  | cons c cs ih =>
    have hdrop : ∀ g ∈ fr.drop d, g.2 = 1 := fun g hg => h g (List.mem_of_mem_drop hg)
    have hend : endOf fr d = sumLens ((fr.map Prod.fst).take d) := by simp [endOf, List.map_take]
    cases late with
    | true =>
      have h10 : (1 : Nat) ≠ 0 := by omega
      simp only [lmpStagesS, lmpStages, if_true, ne_eq, h10, not_false_eq_true, hend]
      by_cases hc : c < sumLens ((fr.map Prod.fst).take d)
      · simp only [hc, if_true]
        have := ih d true
        simp only [if_true] at this
        rw [this]
      · simp only [hc, if_false]
        have := ih d false
        simp only [Bool.false_eq_true, if_false] at this
        rw [this]
    | false =>
      simp only [lmpStagesS, lmpStages, Bool.false_eq_true, if_false, ne_eq, not_true_eq_false, hend,
        lmpCountS_slack_one _ hdrop, List.map_drop]
      rw [ih]

/-! ### no complete frame is withheld beyond one poll -/

theorem lmpFinalS_ge (fr : List (Nat × Nat)) (cuts : List Nat) (d m : Nat) : d ≤ (lmpFinalS fr cuts d m).1 := by
  induction cuts generalizing d m with
  | nil => exact Nat.le_refl _
  | cons c cs ih =>
    simp only [lmpFinalS]
    by_cases hm : m ≠ 0
    · by_cases h : c < endOf fr d <;> simp only [hm, h, if_true, if_false, ne_eq, not_false_eq_true] <;> exact ih _ _
    · simp only [hm, if_false]
      exact Nat.le_trans (Nat.le_add_right _ _) (ih _ _)

theorem endOf_eq_sumLens (fr : List (Nat × Nat)) (d : Nat) : endOf fr d = sumLens ((fr.map Prod.fst).take d) := by
  simp [endOf, List.map_take]

theorem lmpFinalS_cons_zero (fr : List (Nat × Nat)) (c : Nat) (cs : List Nat) (d : Nat) :
    lmpFinalS fr (c :: cs) d 0
      = lmpFinalS fr cs (d + (lmpCountS (fr.drop d) (c - endOf fr d)).1) (lmpCountS (fr.drop d) (c - endOf fr d)).2 := by
  simp [lmpFinalS]

theorem lmpFinalS_cons_stay (fr : List (Nat × Nat)) (c : Nat) (cs : List Nat) (d m : Nat) (hm : m ≠ 0)
    (h : c < endOf fr d) : lmpFinalS fr (c :: cs) d m = lmpFinalS fr cs d m := by
  simp [lmpFinalS, hm, h]

theorem lmpFinalS_cons_skip (fr : List (Nat × Nat)) (c : Nat) (cs : List Nat) (d m : Nat) (hm : m ≠ 0)
    (h : ¬ c < endOf fr d) : lmpFinalS fr (c :: cs) d m = lmpFinalS fr cs d 0 := by
  simp [lmpFinalS, hm, h]

/-- a poll from a frame boundary returns at least every frame that is completely visible -/
theorem lmpCountS_ge (fr : List (Nat × Nat)) (d c : Nat) (hd : d ≤ fr.length) (he : endOf fr d ≤ c) :
    completeCount (fr.map Prod.fst) c ≤ d + (lmpCountS (fr.drop d) (c - endOf fr d)).1 := by
  have h1 : d ≤ completeCount (fr.map Prod.fst) c :=
    le_completeCount (fr.map Prod.fst) d c (by simpa using hd) (by rw [← endOf_eq_sumLens]; exact he)
  have h2 := completeCount_resume (fr.map Prod.fst) d c h1
  rw [← endOf_eq_sumLens] at h2
  have h3 := (lmpCountS_spec (fr.drop d) (c - endOf fr d)).2.2.2
  rw [List.map_drop] at h3
  omega

/-- a frame that is complete at a poll has been returned at the latest by the next poll: from every valid state,
    after the polls `a ≤ b` at least the frames complete at `a` have been returned -/
theorem lmpS_two_polls (fr : List (Nat × Nat)) (c0 a b d m : Nat) (h0 : c0 ≤ a) (hab : a ≤ b)
    (hv : LInvS fr c0 d m) : completeCount (fr.map Prod.fst) a ≤ (lmpFinalS fr [a, b] d m).1 := by
  obtain ⟨hd, he, _⟩ := hv
  by_cases hm : m ≠ 0
  · by_cases h : a < endOf fr d
    · -- still late: fewer than `d` frames are complete at `a`
      have hlt : completeCount (fr.map Prod.fst) a ≤ d := by
        rcases Nat.lt_or_ge d (completeCount (fr.map Prod.fst) a) with hgt | hle
        · exfalso
          have h1 := completeCount_sum_le (fr.map Prod.fst) a
          have h2 := sumLens_take_mono (fr.map Prod.fst) d _ (Nat.le_of_lt hgt)
          rw [← endOf_eq_sumLens] at h2
          omega
        · exact hle
      rw [lmpFinalS_cons_stay fr a [b] d m hm h]
      exact Nat.le_trans hlt (lmpFinalS_ge fr [b] d m)
    · -- the skip poll; the next poll starts at a frame boundary
      have hb : endOf fr d ≤ b := by omega
      have h1 := lmpCountS_ge fr d b hd hb
      have h2 := completeCount_mono (fr.map Prod.fst) a b hab
      rw [lmpFinalS_cons_skip fr a [b] d m hm h, lmpFinalS_cons_zero]
      simp only [lmpFinalS]
      omega
  · have hm0 : m = 0 := by omega
    subst hm0
    have h1 := lmpCountS_ge fr d a hd (by omega)
    rw [lmpFinalS_cons_zero]
    exact Nat.le_trans h1 (lmpFinalS_ge fr [b] _ _)

end Infretis.Readers
