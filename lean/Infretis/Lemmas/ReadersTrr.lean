import Infretis.Model.Readers
/-!
# Lemmas for C13, part 6: the TRR size-guard state machine
-/
namespace Infretis.Readers

/-- byte offset of frame `k` -/
def tOffset (frames : List TFrame) (k : Nat) : Nat :=
  ((frames.take k).map (fun f => f.hsize + f.dsize)).sum

theorem tOffset_succ (frames : List TFrame) (k : Nat) (f : TFrame) (h : frames[k]? = some f) :
    tOffset frames (k + 1) = tOffset frames k + (f.hsize + f.dsize) := by
  have hk : k < frames.length := by
    rcases Nat.lt_or_ge k frames.length with h' | h'
    · exact h'
    · rw [List.getElem?_eq_none h'] at h; cases h
  have hf : frames[k] = f := by
    rw [List.getElem?_eq_getElem hk] at h; exact Option.some.inj h
  unfold tOffset
  rw [List.take_succ_eq_append_getElem hk, hf]
  simp

/-- the reader is where it should be: at a frame start, or behind the header of frame `k` -/
def TInv (frames : List TFrame) (H : Nat) (st : TSt) : Prop :=
  (st.headerSize = 0 ∨ st.headerSize = H) ∧
  (match st.pending with
   | none => st.bytesRead = tOffset frames st.k
   | some d => ∃ f, frames[st.k]? = some f ∧ d = f.dsize ∧ st.bytesRead = tOffset frames st.k + f.hsize)

/-- an event is fine: a read only asks for bytes that are visible, and it is exactly the header or the
    data block of some frame, at that frame's offset -/
def EvOK (frames : List TFrame) : TEv → Prop
  | .read off len size =>
    off + len ≤ size ∧ ∃ k f, frames[k]? = some f ∧
      ((off = tOffset frames k ∧ len = f.hsize) ∨ (off = tOffset frames k + f.hsize ∧ len = f.dsize))
  | _ => True

theorem trrTick_ok (frames : List TFrame) (H : Nat) (hH : ∀ f ∈ frames, f.hsize = H) (hle : H ≤ trrHeadSize)
    (hpos : 0 < H) (size : Nat) (st : TSt) (hinv : TInv frames H st) :
    TInv frames H (trrTick frames size st).1 ∧ ∀ e ∈ (trrTick frames size st).2, EvOK frames e := by
  obtain ⟨hhs, hp⟩ := hinv
  unfold trrTick
  cases hpend : st.pending with
  | some d =>
    rw [hpend] at hp
    obtain ⟨f, hf, hd, hb⟩ := hp
    simp only []
    by_cases hg : size ≥ st.bytesRead + d
    · simp only [hg, if_true]
      refine ⟨⟨hhs, ?_⟩, ?_⟩
      · simp only []
        rw [tOffset_succ frames st.k f hf, hb, hd]; omega
      · intro e he
        simp only [List.mem_cons, List.not_mem_nil, or_false] at he
        rcases he with rfl | rfl
        · exact ⟨hg, st.k, f, hf, Or.inr ⟨hb, hd⟩⟩
        · trivial
    · simp only [hg, if_false]
      refine ⟨⟨hhs, by rw [hpend]; exact ⟨f, hf, hd, hb⟩⟩, ?_⟩
      intro e he; simp at he; subst he; trivial
  | none =>
    rw [hpend] at hp
    simp only []
    by_cases hg : size ≥ st.bytesRead + (if st.headerSize = 0 then trrHeadSize else st.headerSize)
    · simp only [hg, if_true]
      cases hf : frames[st.k]? with
      | none =>
        refine ⟨⟨hhs, by rw [hpend]; exact hp⟩, ?_⟩
        intro e he; simp at he; subst he; trivial
      | some f =>
        have hfm : f ∈ frames := List.mem_of_getElem? hf
        have hfH := hH f hfm
        refine ⟨⟨Or.inr hfH, ⟨f, hf, rfl, by simp only []; rw [hp]⟩⟩, ?_⟩
        intro e he
        simp only [List.mem_cons, List.not_mem_nil, or_false] at he
        subst he
        refine ⟨?_, st.k, f, hf, Or.inl ⟨hp, rfl⟩⟩
        rcases hhs with h0 | h1
        · rw [h0] at hg; simp at hg; omega
        · rw [h1] at hg
          have : ¬ (H = 0) := by omega
          simp only [this, if_false] at hg
          omega
    · simp only [hg, if_false]
      refine ⟨⟨hhs, by rw [hpend]; exact hp⟩, ?_⟩
      intro e he; simp at he; subst he; trivial

theorem trrRun_ok (frames : List TFrame) (H : Nat) (hH : ∀ f ∈ frames, f.hsize = H) (hle : H ≤ trrHeadSize)
    (hpos : 0 < H) (sizes : List Nat) (st : TSt) (hinv : TInv frames H st) :
    ∀ e ∈ trrRun frames sizes st, EvOK frames e := by
  induction sizes generalizing st with
  | nil => intro e he; simp [trrRun] at he
  | cons s ss ih =>
    obtain ⟨h1, h2⟩ := trrTick_ok frames H hH hle hpos s st hinv
    intro e he
    simp only [trrRun, List.mem_append] at he
    rcases he with he | he
    · exact h2 e he
    · exact ih _ h1 e he

theorem tInit_inv (frames : List TFrame) (H : Nat) : TInv frames H tInit :=
  ⟨Or.inl rfl, by simp [tInit, tOffset]⟩

/-- **no frame is withheld** once its header size has been learned: if frame `k` is completely visible,
    two guard evaluations (header, data) yield it; its *own* data size is what is waited for. -/
theorem trr_two_ticks_yield (frames : List TFrame) (H : Nat) (hH : ∀ f ∈ frames, f.hsize = H) (hpos : 0 < H)
    (st : TSt) (hinv : TInv frames H st) (hl : st.headerSize = H) (hp : st.pending = none)
    (f : TFrame) (hf : frames[st.k]? = some f) (size : Nat) (hs : tOffset frames (st.k + 1) ≤ size) :
    TEv.yield st.k ∈ trrRun frames [size, size] st := by
  have hb : st.bytesRead = tOffset frames st.k := by
    have := hinv.2; rw [hp] at this; exact this
  have hfH : f.hsize = H := hH f (List.mem_of_getElem? hf)
  rw [tOffset_succ frames st.k f hf] at hs
  have hne : ¬ (H = 0) := by omega
  have hg1 : size ≥ st.bytesRead + H := by omega
  have hg2 : size ≥ st.bytesRead + f.hsize + f.dsize := by omega
  simp [trrRun, trrTick, hp, hl, hne, hg1, hf, hg2]

/-- with a header already read, one evaluation suffices -/
theorem trr_one_tick_yield (frames : List TFrame) (st : TSt) (d : Nat) (hp : st.pending = some d) (size : Nat)
    (hs : st.bytesRead + d ≤ size) : TEv.yield st.k ∈ (trrTick frames size st).2 := by
  have hg : size ≥ st.bytesRead + d := hs
  simp [trrTick, hp, hg]

/-! ### header bytes → header fields -/

def enc32be (n : Nat) : List Nat := [n / 16777216 % 256, n / 65536 % 256, n / 256 % 256, n % 256]
def enc32 (little : Bool) (n : Nat) : List Nat := if little then (enc32be n).reverse else enc32be n

theorem enc32_length (little : Bool) (n : Nat) : (enc32 little n).length = 4 := by
  cases little <;> simp [enc32, enc32be]

theorem u32_enc32 (little : Bool) (n : Nat) (h : n < 4294967296) : u32 little (enc32 little n) = n := by
  cases little <;> simp [u32, enc32, enc32be, u32be] <;> omega

theorem s32_enc32 (little : Bool) (n : Nat) (h : n < 2147483648) : s32 little (enc32 little n) = (n : Int) := by
  unfold s32
  rw [u32_enc32 little n (by omega)]
  simp [h]

theorem ints32_enc (little : Bool) (ns : List Nat) (h : ∀ n ∈ ns, n < 2147483648) (rest : List Nat) :
    ints32 little ns.length (ns.flatMap (enc32 little) ++ rest) = ns.map Int.ofNat := by
  induction ns with
  | nil => simp [ints32]
  | cons n ns ih =>
    have hl := enc32_length little n
    simp only [List.flatMap_cons, List.length_cons, ints32, List.map_cons, List.append_assoc]
    rw [List.take_append_of_le_length (by omega), List.take_of_length_le (by omega),
      List.drop_append_of_le_length (by omega), List.drop_of_length_le (by omega), List.nil_append,
      s32_enc32 little n (h n (by simp)), ih (fun m hm => h m (by simp [hm]))]
    rfl

theorem readN_append (a b : List Nat) (n : Nat) (hn : a.length = n) (hpos : 0 < n) :
    readN (a ++ b) n = .ok (a, b) := by
  have hne : (a ++ b).isEmpty = false := by
    cases a with
    | nil => simp at hn; omega
    | cons x xs => simp
  have h0 : ¬ (n = 0) := by omega
  have hlt : ¬ ((a ++ b).length < n) := by simp; omega
  simp only [readN, h0, hne, hlt, false_or, Bool.false_eq_true, if_false]
  rw [← hn, List.take_left, List.drop_left]

/-- the header bytes GROMACS writes: magic, (13, 12), version string, 13 ints, two reals -/
def encHeader (little : Bool) (ns : List Nat) (reals : List Nat) : List Nat :=
  enc32 little 1993 ++ ((enc32 little 13 ++ enc32 little 12) ++ (trrVersion ++ (ns.flatMap (enc32 little) ++ reals)))

/-- **header bytes → header fields**: for either byte order and either precision, `read_trr_header`
    applied to the bytes of a header returns its 13 integers unchanged, the byte order it was written
    in, the precision, and consumes exactly 76 + 2·(4|8) bytes -/
theorem trrHeader_encHeader (little dbl : Bool) (ns : List Nat) (hlen : ns.length = 13)
    (hb : ∀ n ∈ ns, n < 2147483648) (hd : isDouble (ns.map Int.ofNat) = .ok dbl)
    (reals : List Nat) (hr : reals.length = 2 * (if dbl then 8 else 4)) (rest : List Nat) :
    trrHeader (encHeader little ns reals ++ rest)
      = .ok ({ little := little, double := dbl, ints := ns.map Int.ofNat,
               hlen := 76 + 2 * (if dbl then 8 else 4) }, rest) := by
  have hmagic : (!(s32 false (enc32 little 1993) == 1993)) = little := by
    cases little <;> decide
  have h52 : (ns.flatMap (enc32 little)).length = 52 := by
    have : ∀ l : List Nat, (l.flatMap (enc32 little)).length = 4 * l.length := by
      intro l
      induction l with
      | nil => rfl
      | cons x xs ih => simp [List.flatMap_cons, enc32_length, ih]; omega
    rw [this, hlen]
  have hints := ints32_enc little ns hb ([] : List Nat)
  rw [List.append_nil, hlen] at hints
  have hsl : s32 little ((enc32 little 13 ++ enc32 little 12).take 4) = 13 := by
    rw [List.take_append_of_le_length (by rw [enc32_length]; omega),
      List.take_of_length_le (by rw [enc32_length]; omega)]
    exact s32_enc32 little 13 (by omega)
  have hver : trrVersion.takeWhile (· ≠ 0) = trrVersion := by decide
  have hrpos : 0 < 2 * (if dbl then 8 else 4) := by cases dbl <;> simp
  unfold trrHeader encHeader
  simp only [List.append_assoc]
  rw [readN_append (enc32 little 1993) _ 4 (enc32_length _ _) (by omega)]
  simp only [hmagic]
  rw [← List.append_assoc (enc32 little 13) (enc32 little 12),
    readN_append (enc32 little 13 ++ enc32 little 12) _ 8 (by simp [enc32_length]) (by omega)]
  simp only [hsl]
  have h12 : ((13 : Int) - 1).toNat = 12 := by decide
  have hnn : ¬ ((13 : Int) - 1 < 0) := by decide
  simp only [hnn, if_false, h12]
  rw [readN_append trrVersion _ 12 (by decide) (by omega)]
  simp only [hver, ne_eq, not_true_eq_false, if_false]
  rw [readN_append (ns.flatMap (enc32 little)) _ 52 h52 (by omega)]
  simp only [hints, hd]
  rw [readN_append reals rest _ hr hrpos]

end Infretis.Readers
