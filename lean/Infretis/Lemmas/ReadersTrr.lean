import Infretis.Model.Readers
/-!
# Lemmas for C13, part 6: the TRR size-guard state machine
-/
namespace Infretis.Readers

/-- byte offset of frame `k` -/
def tOffset (frames : List TFrame) (k : Nat) : Nat :=
  ((frames.take k).map (fun f => f.hsize + f.dsize)).sum

theorem tOffset_succ (frames : List TFrame) (k : Nat) (f : TFrame) (h : frames[k]? = some f) :
    tOffset frames (k + 1) = tOffset frames k + (f.hsize + f.dsize) := by
  have hk : k < frames.length := by
    rcases Nat.lt_or_ge k frames.length with h' | h'
    · exact h'
    · rw [List.getElem?_eq_none h'] at h; cases h
  have hf : frames[k] = f := by
    rw [List.getElem?_eq_getElem hk] at h; exact Option.some.inj h
  unfold tOffset
  rw [List.take_succ_eq_append_getElem hk, hf]
  simp

/-- the reader is where it should be: at a frame start, or behind the header of frame `k` -/
def TInv (frames : List TFrame) (H : Nat) (st : TSt) : Prop :=
  (st.headerSize = 0 ∨ st.headerSize = H) ∧
  (match st.pending with
   | none => st.bytesRead = tOffset frames st.k
   | some d => ∃ f, frames[st.k]? = some f ∧ d = f.dsize ∧ st.bytesRead = tOffset frames st.k + f.hsize)

/-- an event is fine: a read only asks for bytes that are visible, and it is exactly the header or the
    data block of some frame, at that frame's offset -/
def EvOK (frames : List TFrame) : TEv → Prop
  | .read off len size =>
    off + len ≤ size ∧ ∃ k f, frames[k]? = some f ∧
      ((off = tOffset frames k ∧ len = f.hsize) ∨ (off = tOffset frames k + f.hsize ∧ len = f.dsize))
  | _ => True

theorem trrTick_ok (frames : List TFrame) (H : Nat) (hH : ∀ f ∈ frames, f.hsize = H) (hle : H ≤ trrHeadSize)
    (hpos : 0 < H) (size : Nat) (st : TSt) (hinv : TInv frames H st) :
    TInv frames H (trrTick frames size st).1 ∧ ∀ e ∈ (trrTick frames size st).2, EvOK frames e := by
  obtain ⟨hhs, hp⟩ := hinv
  unfold trrTick
  cases hpend : st.pending with
  | some d =>
    rw [hpend] at hp
    obtain ⟨f, hf, hd, hb⟩ := hp
    simp only []
    by_cases hg : size ≥ st.bytesRead + d
    · simp only [hg, if_true]
      refine ⟨⟨hhs, ?_⟩, ?_⟩
      · simp only []
        rw [tOffset_succ frames st.k f hf, hb, hd]; omega
      · intro e he
        simp only [List.mem_cons, List.not_mem_nil, or_false] at he
        rcases he with rfl | rfl
        · exact ⟨hg, st.k, f, hf, Or.inr ⟨hb, hd⟩⟩
        · trivial
    · simp only [hg, if_false]
      refine ⟨⟨hhs, by rw [hpend]; exact ⟨f, hf, hd, hb⟩⟩, ?_⟩
      intro e he; simp at he; subst he; trivial
  | none =>
    rw [hpend] at hp
    simp only []
    by_cases hg : size ≥ st.bytesRead + (if st.headerSize = 0 then trrHeadSize else st.headerSize)
    · simp only [hg, if_true]
      cases hf : frames[st.k]? with
      | none =>
        refine ⟨⟨hhs, by rw [hpend]; exact hp⟩, ?_⟩
        intro e he; simp at he; subst he; trivial
      | some f =>
        have hfm : f ∈ frames := List.mem_of_getElem? hf
        have hfH := hH f hfm
        refine ⟨⟨Or.inr hfH, ⟨f, hf, rfl, by simp only []; rw [hp]⟩⟩, ?_⟩
        intro e he
        simp only [List.mem_cons, List.not_mem_nil, or_false] at he
        subst he
        refine ⟨?_, st.k, f, hf, Or.inl ⟨hp, rfl⟩⟩
        rcases hhs with h0 | h1
        · rw [h0] at hg; simp at hg; omega
        · rw [h1] at hg
          have : ¬ (H = 0) := by omega
          simp only [this, if_false] at hg
          omega
    · simp only [hg, if_false]
      refine ⟨⟨hhs, by rw [hpend]; exact hp⟩, ?_⟩
      intro e he; simp at he; subst he; trivial

theorem trrRun_ok (frames : List TFrame) (H : Nat) (hH : ∀ f ∈ frames, f.hsize = H) (hle : H ≤ trrHeadSize)
    (hpos : 0 < H) (sizes : List Nat) (st : TSt) (hinv : TInv frames H st) :
    ∀ e ∈ trrRun frames sizes st, EvOK frames e := by
  induction sizes generalizing st with
  | nil => intro e he; simp [trrRun] at he
  | cons s ss ih =>
    obtain ⟨h1, h2⟩ := trrTick_ok frames H hH hle hpos s st hinv
    intro e he
    simp only [trrRun, List.mem_append] at he
    rcases he with he | he
    · exact h2 e he
    · exact ih _ h1 e he

theorem tInit_inv (frames : List TFrame) (H : Nat) : TInv frames H tInit :=
  ⟨Or.inl rfl, by simp [tInit, tOffset]⟩

end Infretis.Readers
