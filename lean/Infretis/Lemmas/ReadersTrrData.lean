import Infretis.Model.ReadersObj
import Infretis.Lemmas.ReadersTrr
/-!
# Lemmas for C13, part 8: the data part of a TRR frame (`read_trr_data` / `get_data`)

Integer arithmetic on offsets only: which blocks are read, in which order, how many bytes each, where the
file pointer is afterwards — for every combination of the six presence fields and both precisions.
The reals themselves are not decoded (tie only).
-/
namespace Infretis.Readers

/-- a consistent header: a block that is announced (size field ≠ 0) has exactly the size of the reals
    `read_matrix` / `read_coord` will ask for (9 or natoms·3 reals of `fs` bytes) -/
def FieldsOK (fs : Nat) (ps : List (Nat × Int × Int)) : Prop :=
  ∀ p ∈ ps, p.2.1 = 0 ∨ (0 < p.2.2 ∧ p.2.1 = p.2.2 * (fs : Int))

/-- sum of the announced block sizes -/
def fieldsTotal : List (Nat × Int × Int) → Nat
  | [] => 0
  | p :: ps => p.2.1.toNat + fieldsTotal ps

/-- the announced blocks cut out of the payload, in the order of the fields -/
def sliceBlocks : List (Nat × Int × Int) → List Nat → List (Nat × List Nat)
  | [], _ => []
  | p :: ps, bs =>
    if p.2.1 = 0 then sliceBlocks ps bs
    else (p.1, bs.take p.2.1.toNat) :: sliceBlocks ps (bs.drop p.2.1.toNat)

theorem FieldsOK.tail {fs : Nat} {p : Nat × Int × Int} {ps : List (Nat × Int × Int)}
    (h : FieldsOK fs (p :: ps)) : FieldsOK fs ps := fun q hq => h q (by simp [hq])

theorem readReals_ok (bs : List Nat) (cnt : Int) (fs : Nat) (hfs : 0 < fs) (hc : 0 < cnt)
    (hlen : (cnt * (fs : Int)).toNat ≤ bs.length) :
    readReals bs cnt fs = .ok (bs.take (cnt * (fs : Int)).toNat, bs.drop (cnt * (fs : Int)).toNat) := by
  obtain ⟨n, rfl⟩ : ∃ n : Nat, cnt = (n : Int) := ⟨cnt.toNat, by omega⟩
  have hn : 0 < n := by omega
  have hmul : ((n : Int) * (fs : Int)).toNat = n * fs := by
    rw [← Int.natCast_mul]; rfl
  rw [hmul] at hlen ⊢
  have hpos : 0 < n * fs := Nat.mul_pos hn hfs
  have h1 : ¬ ((n : Int) < 0) := by omega
  have h2 : ¬ (n * fs = 0 ∨ bs.isEmpty = true) := by
    intro h
    rcases h with h | h
    · omega
    · have : bs = [] := by simpa using h
      rw [this] at hlen; simp at hlen; omega
  have h3 : ¬ (bs.length < n * fs) := by omega
  simp only [readReals, h1, if_false, Int.toNat_natCast, readN, h2, h3]

theorem readReals_short (bs : List Nat) (cnt : Int) (fs : Nat) (hc : 0 < cnt)
    (hlen : bs.length < (cnt * (fs : Int)).toNat) :
    readReals bs cnt fs = .error .eof ∨ readReals bs cnt fs = .error .struct := by
  obtain ⟨n, rfl⟩ : ∃ n : Nat, cnt = (n : Int) := ⟨cnt.toNat, by omega⟩
  have hmul : ((n : Int) * (fs : Int)).toNat = n * fs := by
    rw [← Int.natCast_mul]; rfl
  rw [hmul] at hlen
  have h1 : ¬ ((n : Int) < 0) := by omega
  simp only [readReals, h1, if_false, Int.toNat_natCast, readN]
  by_cases h2 : n * fs = 0 ∨ bs.isEmpty = true
  · left; rw [if_pos h2]
  · right; rw [if_neg h2, if_pos hlen]

/-- **all announced bytes there ⇒ all blocks read, exactly the announced bytes consumed** -/
theorem readBlocks_ok (fs : Nat) (hfs : 0 < fs) (ps : List (Nat × Int × Int)) (hok : FieldsOK fs ps)
    (bs : List Nat) (acc : List (Nat × List Nat)) (hlen : fieldsTotal ps ≤ bs.length) :
    readBlocks fs ps bs acc = ⟨.ok (acc ++ sliceBlocks ps bs), bs.drop (fieldsTotal ps)⟩ := by
  induction ps generalizing bs acc with
  | nil => simp [readBlocks, sliceBlocks, fieldsTotal]
  | cons p ps ih =>
    obtain ⟨key, sz, cnt⟩ := p
    simp only [fieldsTotal] at hlen
    rcases hok (key, sz, cnt) (by simp) with h0 | ⟨hc, hsz⟩
    · simp only [] at h0
      subst h0
      simp only [readBlocks, sliceBlocks, fieldsTotal, if_true, Int.toNat_zero, Nat.zero_add]
      exact ih hok.tail bs acc (by simpa using hlen)
    · simp only [] at hc hsz
      have hne : sz ≠ 0 := by
        rw [hsz]; intro h
        have : 0 < cnt * (fs : Int) := Int.mul_pos hc (by exact_mod_cast hfs)
        omega
      have hrd := readReals_ok bs cnt fs hfs hc (by rw [← hsz]; omega)
      rw [← hsz] at hrd
      simp only [readBlocks, sliceBlocks, fieldsTotal, hne, if_false, hrd]
      rw [ih hok.tail (bs.drop sz.toNat) (acc ++ [(key, bs.take sz.toNat)]) (by rw [List.length_drop]; omega)]
      simp [List.drop_drop]

/-- **a byte missing ⇒ no data returned**: `EOFError` (nothing left at a block start) or `struct.error`
    (a block cut in the middle) -/
theorem readBlocks_short (fs : Nat) (hfs : 0 < fs) (ps : List (Nat × Int × Int)) (hok : FieldsOK fs ps)
    (bs : List Nat) (acc : List (Nat × List Nat)) (hlen : bs.length < fieldsTotal ps) :
    (readBlocks fs ps bs acc).res = .error .eof ∨ (readBlocks fs ps bs acc).res = .error .struct := by
  induction ps generalizing bs acc with
  | nil => simp [fieldsTotal] at hlen
  | cons p ps ih =>
    obtain ⟨key, sz, cnt⟩ := p
    simp only [fieldsTotal] at hlen
    rcases hok (key, sz, cnt) (by simp) with h0 | ⟨hc, hsz⟩
    · simp only [] at h0
      subst h0
      simp only [readBlocks, if_true]
      exact ih hok.tail bs acc (by simpa using hlen)
    · simp only [] at hc hsz
      have hne : sz ≠ 0 := by
        rw [hsz]; intro h
        have : 0 < cnt * (fs : Int) := Int.mul_pos hc (by exact_mod_cast hfs)
        omega
      simp only [readBlocks, hne, if_false]
      by_cases hb : bs.length < sz.toNat
      · rcases readReals_short bs cnt fs hc (by rw [← hsz]; exact hb) with h | h <;> simp [h]
      · have hrd := readReals_ok bs cnt fs hfs hc (by rw [← hsz]; omega)
        rw [← hsz] at hrd
        simp only [hrd]
        exact ih hok.tail (bs.drop sz.toNat) _ (by rw [List.length_drop]; omega)

/-- the blocks returned are exactly the announced ones, in the order box vir pres x v f -/
theorem sliceBlocks_keys (ps : List (Nat × Int × Int)) (bs : List Nat) :
    (sliceBlocks ps bs).map Prod.fst = (ps.filter (fun p => decide (p.2.1 ≠ 0))).map Prod.fst := by
  induction ps generalizing bs with
  | nil => rfl
  | cons p ps ih =>
    by_cases h : p.2.1 = 0
    · simp [sliceBlocks, h, ih]
    · simp [sliceBlocks, h, ih]

/-- every block has its announced length when the payload is long enough -/
theorem sliceBlocks_lengths (ps : List (Nat × Int × Int)) (bs : List Nat) (hlen : fieldsTotal ps ≤ bs.length) :
    (sliceBlocks ps bs).map (fun b => b.2.length)
      = (ps.filter (fun p => decide (p.2.1 ≠ 0))).map (fun p => p.2.1.toNat) := by
  induction ps generalizing bs with
  | nil => rfl
  | cons p ps ih =>
    simp only [fieldsTotal] at hlen
    by_cases h : p.2.1 = 0
    · simp only [sliceBlocks, h, if_true]
      rw [ih bs (by rw [h] at hlen; simpa using hlen)]
      simp [h]
    · simp only [sliceBlocks, h, if_false, List.map_cons]
      rw [ih (bs.drop p.2.1.toNat) (by rw [List.length_drop]; omega)]
      simp [h, List.length_take]
      omega

/-- only the announced bytes matter -/
theorem sliceBlocks_append (ps : List (Nat × Int × Int)) (a b : List Nat) (hlen : fieldsTotal ps ≤ a.length) :
    sliceBlocks ps (a ++ b) = sliceBlocks ps a := by
  induction ps generalizing a with
  | nil => rfl
  | cons p ps ih =>
    simp only [fieldsTotal] at hlen
    by_cases h : p.2.1 = 0
    · simp only [sliceBlocks, h, if_true]
      exact ih a (by rw [h] at hlen; simpa using hlen)
    · simp only [sliceBlocks, h, if_false]
      rw [List.take_append_of_le_length (by omega), List.drop_append_of_le_length (by omega),
        ih (a.drop p.2.1.toNat) (by rw [List.length_drop]; omega)]

theorem fieldsTotal_eq_sum (fs : Nat) (ps : List (Nat × Int × Int)) (hok : FieldsOK fs ps) :
    0 ≤ (ps.map (fun (p : Nat × Int × Int) => p.2.1)).sum ∧ ((ps.map (fun (p : Nat × Int × Int) => p.2.1)).sum).toNat = fieldsTotal ps := by
  induction ps with
  | nil => simp [fieldsTotal]
  | cons p ps ih =>
    obtain ⟨h1, h2⟩ := ih hok.tail
    have hp : 0 ≤ p.2.1 := by
      rcases hok p (by simp) with h | ⟨hc, hsz⟩
      · omega
      · rw [hsz]; exact Int.mul_nonneg (by omega) (by omega)
    simp only [List.map_cons, List.sum_cons, fieldsTotal]
    refine ⟨by omega, ?_⟩
    omega

theorem dataSize_eq_sum (ints : List Int) :
    dataSize ints = ((dataFields ints).map (fun (p : Nat × Int × Int) => p.2.1)).sum := by
  simp [dataSize, dataFields]
  omega

/-- `get_data` on a consistent header: **the data are returned iff all `data_size` bytes are there**; then
    exactly `data_size` bytes are consumed (so `bytes_read` and the file pointer stay together) and the blocks
    are the announced ones, cut at the announced offsets -/
theorem trrData_layout (h : THeader) (hok : FieldsOK (if h.double then 8 else 4) (dataFields h.ints))
    (bs : List Nat) :
    0 ≤ dataSize h.ints ∧
    ((dataSize h.ints).toNat ≤ bs.length →
        trrData h bs = ⟨.ok (sliceBlocks (dataFields h.ints) bs), bs.drop (dataSize h.ints).toNat⟩) ∧
    (bs.length < (dataSize h.ints).toNat →
        (trrData h bs).res = .error .eof ∨ (trrData h bs).res = .error .struct) := by
  obtain ⟨h1, h2⟩ := fieldsTotal_eq_sum _ _ hok
  rw [← dataSize_eq_sum] at h1 h2
  have hfs : 0 < (if h.double then 8 else 4) := by cases h.double <;> simp
  refine ⟨h1, ?_, ?_⟩
  · intro hl
    rw [h2] at hl ⊢
    have := readBlocks_ok _ hfs _ hok bs [] hl
    simpa [trrData] using this
  · intro hl
    rw [h2] at hl
    exact readBlocks_short _ hfs _ hok bs [] hl

end Infretis.Readers
