import Infretis.Lemmas.Readers
/-!
# Lemmas for C13, part 2: `xyz_reader`
-/
namespace Infretis.Readers

/-- the text of one xyz frame, line by line, as the MD program writes it -/
structure XyzF where
  cnt : Line
  cmt : Line
  atoms : List Line

def XyzF.lines (f : XyzF) : List Line := f.cnt :: f.cmt :: f.atoms
def XyzF.enc (f : XyzF) : List Char := f.lines.flatten

def xrow (a : Line) : List Tok := (split a).drop 1

/-- the values of the frame: for every atom line the three coordinate tokens, exactly as written -/
def XyzF.decode (f : XyzF) : XFrame := f.atoms.map xrow

structure XAtomOK (a : Line) : Prop where
  line : IsLine a
  len : (split a).length = 4
  fl : ((split a).drop 1).all floatOk = true

/-- well-formed frame of `N` atoms: complete lines; the count line's first token is the integer `N`;
    any comment line; `N` atom lines of four tokens whose last three are float literals.
    Any amount of blanks before, between and after the tokens. -/
structure XyzF.WF (N : Nat) (f : XyzF) : Prop where
  cnt : IsLine f.cnt
  cntTok : ∃ t rest, split f.cnt = t :: rest ∧ parseInt t = some (N : Int)
  cmt : IsLine f.cmt
  natoms : f.atoms.length = N
  atoms : ∀ a ∈ f.atoms, XAtomOK a

theorem XyzF.WF.allLines {N : Nat} {f : XyzF} (h : f.WF N) : ∀ l ∈ f.lines, IsLine l := by
  intro l hl
  simp only [XyzF.lines, List.mem_cons] at hl
  rcases hl with rfl | rfl | hl
  · exact h.cnt
  · exact h.cmt
  · exact (h.atoms l hl).line

theorem XyzF.lines_length {N : Nat} {f : XyzF} (h : f.WF N) : f.lines.length = N + 2 := by
  simp [XyzF.lines, h.natoms]

theorem pyMod_nat2 (a N : Nat) : pyMod a ((N : Int) + 2) = ((a % (N + 2) : Nat) : Int) := by
  have := pyMod_nat a (N + 2) (by omega)
  simpa using this

theorem xyzRun_append (v : Variant) (a b : List Line) (st : XSt) :
    xyzRun v (a ++ b) st = match xyzRun v a st with
      | .cont s => xyzRun v b s
      | .ret r => .ret r
      | .err e => .err e := by
  induction a generalizing st with
  | nil => simp [xyzRun]
  | cons l a ih =>
    simp only [List.cons_append, xyzRun]
    cases h : xyzStep v st l with
    | cont s => simp [ih]
    | ret r => simp
    | err e => simp

/-- a complete atom line in the atom block is always consumed (both variants) -/
theorem xyzStep_atom (v : Variant) (N : Nat) (a : Line) (ha : XAtomOK a) (st : XSt) (r : Nat)
    (hr : st.i % (N + 2) = r) (hr2 : 2 ≤ r) (hna : st.natoms = N) (hb : st.block = (N : Int) + 2) :
    xyzStep v st a = .cont (xEnd st N ((N : Int) + 2) r (st.cur ++ [xrow a]) (st.tell + a.length)) := by
  have hi : st.i ≠ 0 := by
    intro h0; rw [h0] at hr; simp at hr; omega
  have hbl : ¬ ((N : Int) + 2 = 0) := by omega
  have hr1 : ((r : Nat) : Int) > 1 := by omega
  simp only [xyzStep, ha.line.endsNl, xHeader, hi, hna, hb, if_false, pyMod_nat2, hr, hbl, hr1,
    if_true, ha.len, ha.fl, xrow, ne_eq, not_true_eq_false, and_false, reduceCtorEq]

theorem xyzRun_atoms (v : Variant) (N : Nat) (as : List Line) (hwf : ∀ a ∈ as, XAtomOK a)
    (i0 : Nat) (hi0 : i0 % (N + 2) = 0) (done : Nat) (hlen : done + as.length ≤ N)
    (cur : List (List Tok)) (traj : List XFrame) (pos tell : Nat) :
    xyzRun v as { i := i0 + 2 + done, natoms := N, block := (N : Int) + 2, cur := cur, traj := traj,
                  pos := pos, tell := tell }
      = .cont (if done + as.length = N ∧ as ≠ [] then
          { i := i0 + 2 + done + as.length, natoms := N, block := (N : Int) + 2, cur := [],
            traj := traj ++ [cur ++ as.map xrow], pos := tell + as.flatten.length,
            tell := tell + as.flatten.length }
        else
          { i := i0 + 2 + done + as.length, natoms := N, block := (N : Int) + 2,
            cur := cur ++ as.map xrow, traj := traj, pos := pos, tell := tell + as.flatten.length }) := by
  induction as generalizing done cur tell with
  | nil => simp [xyzRun]
  | cons a as ih =>
    have ha := hwf a (by simp)
    have has : ∀ x ∈ as, XAtomOK x := fun x hx => hwf x (by simp [hx])
    simp only [List.length_cons] at hlen
    have hmod : (i0 + 2 + done) % (N + 2) = 2 + done := by
      rw [Nat.add_assoc]; exact add_mod_of_mod_zero i0 (2 + done) (N + 2) hi0 (by omega)
    simp only [xyzRun]
    rw [xyzStep_atom v N a ha _ (2 + done) hmod (Nat.le_add_right 2 done) rfl rfl]
    by_cases hlast : done + 1 = N
    · -- last atom line of the frame
      have hnil : as = [] := by
        cases as with
        | nil => rfl
        | cons _ _ => simp at hlen; omega
      subst hnil
      have h1 : ((2 + done : Nat) : Int) = (N : Int) + 1 := by omega
      simp [xEnd, h1, xyzRun, hlast]
    · have h1 : ¬ (((2 + done : Nat) : Int) = (N : Int) + 1) := by omega
      simp only [xEnd, h1, false_and, if_false]
      have := ih has (done + 1) (by omega) (cur ++ [xrow a]) (tell + a.length)
      have e1 : i0 + 2 + done + 1 = i0 + 2 + (done + 1) := by omega
      rw [e1, this]
      have e2 : done + 1 + as.length = N ↔ done + (as.length + 1) = N := by omega
      have e3 : (done + 1 + as.length = N ∧ as ≠ []) ↔ (done + (as.length + 1) = N ∧ a :: as ≠ []) := by
        constructor
        · rintro ⟨h, _⟩; exact ⟨by omega, by simp⟩
        · rintro ⟨h, _⟩
          refine ⟨by omega, ?_⟩
          rintro rfl; simp at h; omega
      simp only [e3, List.length_cons, List.map_cons, List.flatten_cons, List.length_append,
        List.append_assoc, List.cons_append, List.nil_append]
      rw [show i0 + 2 + (done + 1) + as.length = i0 + 2 + done + (as.length + 1) by omega,
        Nat.add_assoc tell]

/-- state in which the loop meets the first line of a frame -/
structure XReady (N : Nat) (st : XSt) : Prop where
  cur : st.cur = []
  imod : st.i % (N + 2) = 0
  hdr : st.i = 0 ∨ (st.natoms = N ∧ st.block = (N : Int) + 2)
  pos : st.pos = st.tell

theorem xInit_ready (N pos : Nat) : XReady N (xInit pos) :=
  ⟨rfl, by simp [xInit], Or.inl rfl, rfl⟩

theorem xyzStep_cnt (v : Variant) (N : Nat) (f : XyzF) (hf : f.WF N) (st : XSt) (hst : XReady N st) :
    xyzStep v st f.cnt =
      .cont { i := st.i + 1, natoms := N, block := (N : Int) + 2, cur := [],
              traj := st.traj, pos := st.pos, tell := st.tell + f.cnt.length } := by
  obtain ⟨t, rest, hs, hp⟩ := hf.cntTok
  have hbl : ¬ ((N : Int) + 2 = 0) := by omega
  have h01 : ¬ ((0 : Int) = (N : Int) + 1) := by omega
  by_cases h0 : st.i = 0
  · simp [xyzStep, hf.cnt.endsNl, xHeader, h0, hs, hp, hbl, pyMod_nat2, xEnd, hst.cur]
  · rcases hst.hdr with h | ⟨hn, hb⟩
    · exact absurd h h0
    · simp [xyzStep, hf.cnt.endsNl, xHeader, h0, hn, hb, hbl, pyMod_nat2, xEnd, hst.cur, hst.imod, h01]

theorem xyzStep_cmt (v : Variant) (N : Nat) (hN : 1 ≤ N) (l : Line) (hl : IsLine l) (i0 : Nat)
    (hi0 : i0 % (N + 2) = 0) (traj : List XFrame) (pos tell : Nat) :
    xyzStep v { i := i0 + 1, natoms := N, block := (N : Int) + 2, cur := [], traj := traj, pos := pos,
                tell := tell } l
      = .cont { i := i0 + 2, natoms := N, block := (N : Int) + 2, cur := [], traj := traj, pos := pos,
                tell := tell + l.length } := by
  have hbl : ¬ ((N : Int) + 2 = 0) := by omega
  have hmod : (i0 + 1) % (N + 2) = 1 := add_mod_of_mod_zero i0 1 (N + 2) hi0 (by omega)
  have h11 : ¬ ((1 : Int) = (N : Int) + 1) := by omega
  simp [xyzStep, hl.endsNl, xHeader, hbl, pyMod_nat2, hmod, xEnd, h11]

/-- fewer than all lines of a frame: consumed without touching `trajectory`/`current_position` -/
theorem xyzRun_frame_prefix (v : Variant) (N : Nat) (hN : 1 ≤ N) (f : XyzF) (hf : f.WF N) (st : XSt)
    (hst : XReady N st) (k : Nat) (hk : k < N + 2) :
    ∃ st', xyzRun v (f.lines.take k) st = .cont st' ∧ st'.traj = st.traj ∧ st'.pos = st.pos := by
  match k with
  | 0 => exact ⟨st, by simp [xyzRun], rfl, rfl⟩
  | 1 =>
    simp only [XyzF.lines, List.take_succ_cons, List.take_zero, xyzRun, xyzStep_cnt v N f hf st hst]
    exact ⟨_, rfl, rfl, rfl⟩
  | k + 2 =>
    have hlen : 0 + (f.atoms.take k).length ≤ N := by simp [hf.natoms]; omega
    have hwf : ∀ a ∈ f.atoms.take k, XAtomOK a := fun a ha => hf.atoms a (List.mem_of_mem_take ha)
    have hne : ¬ (0 + (f.atoms.take k).length = N ∧ f.atoms.take k ≠ []) := by
      simp [hf.natoms]; omega
    simp only [XyzF.lines, List.take_succ_cons, xyzRun, xyzStep_cnt v N f hf st hst,
      xyzStep_cmt v N hN f.cmt hf.cmt st.i hst.imod]
    have := xyzRun_atoms v N (f.atoms.take k) hwf st.i hst.imod 0 hlen [] st.traj st.pos
      (st.tell + f.cnt.length + f.cmt.length)
    simp only [Nat.add_zero] at this
    rw [this, if_neg hne]
    exact ⟨_, rfl, rfl, rfl⟩

/-- a whole frame: appended, position moved behind it, loop ready for the next frame -/
theorem xyzRun_frame (v : Variant) (N : Nat) (hN : 1 ≤ N) (f : XyzF) (hf : f.WF N) (st : XSt)
    (hst : XReady N st) :
    xyzRun v f.lines st =
      .cont { i := st.i + (N + 2), natoms := N, block := (N : Int) + 2, cur := [],
              traj := st.traj ++ [f.decode], pos := st.tell + f.enc.length,
              tell := st.tell + f.enc.length } := by
  have hlen : 0 + f.atoms.length ≤ N := by simp [hf.natoms]
  have hne : 0 + f.atoms.length = N ∧ f.atoms ≠ [] := by
    refine ⟨by simp [hf.natoms], ?_⟩
    intro h; have := hf.natoms; rw [h] at this; simp at this; omega
  simp only [XyzF.lines, xyzRun, xyzStep_cnt v N f hf st hst,
    xyzStep_cmt v N hN f.cmt hf.cmt st.i hst.imod]
  have := xyzRun_atoms v N f.atoms hf.atoms st.i hst.imod 0 hlen [] st.traj st.pos
    (st.tell + f.cnt.length + f.cmt.length)
  simp only [Nat.add_zero] at this
  rw [this, if_pos hne]
  simp only [XyzF.decode, XyzF.enc, XyzF.lines, List.flatten_cons, List.length_append, hf.natoms,
    List.nil_append, Res.cont.injEq, XSt.mk.injEq, true_and, and_true]
  omega

theorem xyzRun_frame_ready (N : Nat) (f : XyzF) (st : XSt) (hst : XReady N st) :
    XReady N
      { i := st.i + (N + 2), natoms := N, block := (N : Int) + 2, cur := [],
        traj := st.traj ++ [f.decode], pos := st.tell + f.enc.length,
        tell := st.tell + f.enc.length } :=
  ⟨rfl, by simp [Nat.add_mod, hst.imod], Or.inr ⟨rfl, rfl⟩, rfl⟩

/-- the visible text is empty or ends with a newline (a cut at a line end) -/
def LineEnd (s : List Char) : Prop := s = [] ∨ endsNl s = true

theorem LineEnd_of_append {a b : List Char} (h : LineEnd (a ++ b)) (ha : LineEnd a) : LineEnd b := by
  by_cases hb : b = []
  · exact Or.inl hb
  · right
    rcases h with h | h
    · simp at h; exact absurd h.2 hb
    · simp only [endsNl, List.getLast?_append] at h ⊢
      cases hg : b.getLast? with
      | none => simp [List.getLast?_eq_none_iff] at hg; exact absurd hg hb
      | some c => simpa [hg] using h

theorem endsNl_false_of_noNl (p : List Char) (hp : '\n' ∉ p) : endsNl p = false := by
  simp only [endsNl]
  cases hg : p.getLast? with
  | none => rfl
  | some c =>
    have : c ∈ p := List.mem_of_getLast? hg
    have hc : c ≠ '\n' := by rintro rfl; exact hp this
    simp [hc]

def XyzF.len (f : XyzF) : Nat := f.enc.length

/-- **one poll, loop level**: from a frame boundary the loop returns exactly the frames that are
    completely inside the `n` visible bytes, and leaves the position behind the last of them. -/
theorem xyzRun_frames (v : Variant) (N : Nat) (hN : 1 ≤ N) (rest : List XyzF)
    (hwf : ∀ f ∈ rest, f.WF N) (n : Nat) (st : XSt) (hst : XReady N st)
    (hv : v = .repaired ∨ LineEnd ((rest.map XyzF.enc).flatten.take n)) :
    finish (fun st => (st.traj, st.pos)) (xyzRun v (lines ((rest.map XyzF.enc).flatten.take n)) st)
      = .ok (st.traj ++ (rest.map XyzF.decode).take (completeCount (rest.map XyzF.len) n),
             st.pos + sumLens ((rest.map XyzF.len).take (completeCount (rest.map XyzF.len) n))) := by
  induction rest generalizing n st with
  | nil => simp [lines, xyzRun, finish, completeCount, sumLens]
  | cons f rest ih =>
    have hf := hwf f (by simp)
    have hrest : ∀ g ∈ rest, g.WF N := fun g hg => hwf g (by simp [hg])
    simp only [List.map_cons, List.flatten_cons]
    by_cases hle : f.enc.length ≤ n
    · rw [List.take_append, List.take_of_length_le hle]
      have hv' : v = .repaired ∨ LineEnd ((rest.map XyzF.enc).flatten.take (n - f.enc.length)) := by
        rcases hv with h | h
        · exact Or.inl h
        · right
          simp only [List.map_cons, List.flatten_cons] at h
          rw [List.take_append, List.take_of_length_le hle] at h
          refine LineEnd_of_append h ?_
          right
          exact endsNl_flatten f.lines hf.allLines (by simp [XyzF.lines])
      have hl := lines_flatten_append f.lines hf.allLines
        (List.take (n - f.enc.length) (List.map XyzF.enc rest).flatten)
      rw [show f.enc ++ List.take (n - f.enc.length) (List.map XyzF.enc rest).flatten
            = f.lines.flatten ++ List.take (n - f.enc.length) (List.map XyzF.enc rest).flatten from rfl,
        hl, xyzRun_append, xyzRun_frame v N hN f hf st hst]
      simp only []
      rw [ih hrest _ _ (xyzRun_frame_ready N f st hst) hv']
      have hcc : completeCount (f.len :: rest.map XyzF.len) n
          = completeCount (rest.map XyzF.len) (n - f.len) + 1 := by
        simp [completeCount, XyzF.len, hle]
      rw [hcc]
      simp only [List.take_succ_cons, sumLens, List.append_assoc, List.cons_append, List.nil_append,
        XyzF.len, hst.pos]
      congr 2
      omega
    · have hlt : n < f.enc.length := by omega
      have hcc : completeCount (f.len :: rest.map XyzF.len) n = 0 := by
        simp [completeCount, XyzF.len, hle]
      rw [hcc, List.take_append_of_le_length (by omega)]
      obtain ⟨k, p, hk, hp, he, hlines, _⟩ := lines_take_flatten f.lines hf.allLines n hlt
      rw [XyzF.lines_length hf] at hk
      obtain ⟨st', hrun, htraj, hpos⟩ := xyzRun_frame_prefix v N hN f hf st hst k hk
      rw [show f.enc = f.lines.flatten from rfl, hlines, xyzRun_append, hrun]
      by_cases hp0 : p = []
      · simp [hp0, xyzRun, finish, htraj, hpos, sumLens]
      · have hnl := endsNl_false_of_noNl p hp
        rcases hv with h | h
        · simp [hp0, xyzRun, xyzStep, h, hnl, finish, htraj, hpos, sumLens]
        · exfalso
          simp only [List.map_cons, List.flatten_cons] at h
          rw [List.take_append_of_le_length (by omega), show f.enc = f.lines.flatten from rfl, he] at h
          rcases h with h | h
          · simp at h; exact hp0 h.2
          · simp only [endsNl, List.getLast?_append] at h
            cases hg : p.getLast? with
            | none => simp [List.getLast?_eq_none_iff] at hg; exact hp0 hg
            | some c =>
              have : c ∈ p := List.mem_of_getLast? hg
              simp [hg] at h
              exact hp (h ▸ this)

theorem flatten_enc_length (fs : List XyzF) :
    ((fs.map XyzF.enc).flatten).length = sumLens (fs.map XyzF.len) := by
  induction fs with
  | nil => simp [sumLens]
  | cons f fs ih => simp [sumLens, ih, XyzF.len]

theorem lineEnd_frames (N : Nat) (fs : List XyzF) (hwf : ∀ f ∈ fs, f.WF N) :
    LineEnd ((fs.map XyzF.enc).flatten) := by
  induction fs with
  | nil => exact Or.inl rfl
  | cons f fs ih =>
    have hf := hwf f (by simp)
    have he : endsNl f.enc = true := endsNl_flatten f.lines hf.allLines (by simp [XyzF.lines])
    right
    rcases ih (fun g hg => hwf g (by simp [hg])) with h | h
    · simpa [h] using he
    · simpa using endsNl_append_of_endsNl _ _ h

/-- **one poll**: from a frame boundary, `read_and_process_content` returns exactly the not yet
    returned frames that are completely inside the first `c` bytes -/
theorem xyzReader_poll (v : Variant) (N : Nat) (hN : 1 ≤ N) (done rest : List XyzF)
    (hwf : ∀ f ∈ rest, f.WF N) (c : Nat)
    (hv : v = .repaired ∨
      LineEnd ((rest.map XyzF.enc).flatten.take (c - ((done.map XyzF.enc).flatten).length))) :
    xyzReader v ((((done ++ rest).map XyzF.enc).flatten).take c) ((done.map XyzF.enc).flatten).length
      = .ok ((rest.map XyzF.decode).take
               (completeCount (rest.map XyzF.len) (c - ((done.map XyzF.enc).flatten).length)),
             ((done.map XyzF.enc).flatten).length + sumLens ((rest.map XyzF.len).take
               (completeCount (rest.map XyzF.len) (c - ((done.map XyzF.enc).flatten).length)))) := by
  unfold xyzReader
  rw [List.drop_take, List.map_append, List.flatten_append, List.drop_left]
  have := xyzRun_frames v N hN rest hwf (c - ((done.map XyzF.enc).flatten).length)
    (xInit ((done.map XyzF.enc).flatten).length) (xInit_ready N _) hv
  simpa [xInit] using this

theorem sumLens_take_add (l : List Nat) (a b : Nat) :
    sumLens (l.take (a + b)) = sumLens (l.take a) + sumLens ((l.drop a).take b) := by
  rw [List.take_add, sumLens_append]

/-- **all polls**: the reader object polled on growing prefixes behaves as the exact reader -/
theorem xyz_pollAll (v : Variant) (N : Nat) (hN : 1 ≤ N) (frames : List XyzF)
    (hwf : ∀ f ∈ frames, f.WF N) (cuts : List Nat)
    (hv : v = .repaired ∨ ∀ c ∈ cuts, LineEnd (((frames.map XyzF.enc).flatten).take c))
    (done : Nat) (hd : done ≤ frames.length) :
    pollAll (xyzReader v) ((frames.map XyzF.enc).flatten) cuts (sumLens ((frames.map XyzF.len).take done))
      = .ok (exactStages (frames.map XyzF.len) (frames.map XyzF.decode) cuts done) := by
  induction cuts generalizing done with
  | nil => simp [pollAll, exactStages]
  | cons c cs ih =>
    have hsplit : frames = frames.take done ++ frames.drop done := (List.take_append_drop done frames).symm
    have hpos : ((List.map XyzF.enc (frames.take done)).flatten).length
        = sumLens ((frames.map XyzF.len).take done) := by
      rw [flatten_enc_length, List.map_take]
    have hwfr : ∀ f ∈ frames.drop done, f.WF N := fun f hf => hwf f (List.mem_of_mem_drop hf)
    have hwfd : ∀ f ∈ frames.take done, f.WF N := fun f hf => hwf f (List.mem_of_mem_take hf)
    have hv1 : v = .repaired ∨ LineEnd (((frames.drop done).map XyzF.enc).flatten.take
        (c - ((List.map XyzF.enc (frames.take done)).flatten).length)) := by
      rcases hv with h | h
      · exact Or.inl h
      · right
        have hc := h c (by simp)
        rw [hsplit, List.map_append, List.flatten_append, List.take_append] at hc
        by_cases hle : ((List.map XyzF.enc (frames.take done)).flatten).length ≤ c
        · rw [List.take_of_length_le hle] at hc
          exact LineEnd_of_append hc (lineEnd_frames N _ hwfd)
        · left
          have : c - ((List.map XyzF.enc (frames.take done)).flatten).length = 0 := by omega
          rw [this]; rfl
    have hpoll := xyzReader_poll v N hN (frames.take done) (frames.drop done) hwfr c hv1
    rw [← hsplit, hpos] at hpoll
    simp only [pollAll, hpoll, exactStages]
    have hm : completeCount ((frames.drop done).map XyzF.len)
        (c - sumLens ((frames.map XyzF.len).take done)) ≤ frames.length - done := by
      have := completeCount_le ((frames.drop done).map XyzF.len)
        (c - sumLens ((frames.map XyzF.len).take done))
      simpa using this
    have hv2 : v = .repaired ∨ ∀ c ∈ cs, LineEnd (((frames.map XyzF.enc).flatten).take c) := by
      rcases hv with h | h
      · exact Or.inl h
      · exact Or.inr (fun c hc => h c (by simp [hc]))
    have hnext := ih hv2 (done + completeCount ((frames.drop done).map XyzF.len)
        (c - sumLens ((frames.map XyzF.len).take done))) (by omega)
    rw [sumLens_take_add] at hnext
    simp only [List.map_drop] at hnext hm ⊢
    rw [hnext]

end Infretis.Readers
