import Infretis.Lemmas.RepexC03Init
import Mathlib.Data.List.Perm.Subperm
import Mathlib.Data.List.Nodup
/-!
# C03 — a free engine instance is always found (`assign_engines` never comes back empty-handed)

Counting argument: after a worker's own cells are freed, every occupied cell of an engine type
belongs to a *different* worker with a job in flight, each such worker occupies at most one cell per
type, and there are at most `workers − 1` of them — so with at least `workers` instances of the
type one cell is free.
-/
namespace Infretis.Repex

/-! ### pigeonhole on one row of `engine_occ` -/

theorem nodup_of_getElem?_inj {α : Type} (l : List α)
    (h : ∀ i j, i < l.length → j < l.length → l[i]? = l[j]? → i = j) : l.Nodup := by
  rw [List.nodup_iff_injective_getElem]
  intro a b hab
  apply Fin.ext
  apply h a.1 b.1 a.2 b.2
  rw [List.getElem?_eq_getElem a.2, List.getElem?_eq_getElem b.2]
  exact congrArg some hab

/-- a row whose occupied cells hold pairwise distinct worker pins `< W`, none equal to `pin`,
    and which has at least `W` cells, has a free cell -/
theorem row_has_free (l : List Int) (W pin : Nat) (hpin : pin < W) (hlen : W ≤ l.length)
    (hown : ∀ (i : Nat) (x : Int), l[i]? = some x → x ≠ -1 → ∃ m : Nat, x = (m : Int) ∧ m < W ∧ m ≠ pin)
    (hinj : ∀ (i j : Nat) (x : Int), l[i]? = some x → l[j]? = some x → x ≠ -1 → i = j) :
    ∃ x ∈ l, (x == -1) = true := by
  by_contra hno
  have hall : ∀ x ∈ l, x ≠ -1 := by
    intro x hx h1
    exact hno ⟨x, hx, by simp [h1]⟩
  have hnd : l.Nodup := by
    apply nodup_of_getElem?_inj
    intro i j hi hj hij
    have hx : l[i]? = some l[i] := List.getElem?_eq_getElem hi
    exact hinj i j l[i] hx (by rw [← hij]; exact hx) (hall _ (List.getElem_mem hi))
  have hsub : l ⊆ ((List.range W).erase pin).map (fun m : Nat => (m : Int)) := by
    intro x hx
    obtain ⟨i, hi, hxi⟩ := List.getElem_of_mem hx
    obtain ⟨m, hm, hmW, hmp⟩ := hown i x (by rw [List.getElem?_eq_getElem hi, hxi]) (hall x hx)
    rw [List.mem_map]
    refine ⟨m, ?_, hm.symm⟩
    rw [List.nodup_range.mem_erase_iff]
    exact ⟨hmp, List.mem_range.mpr hmW⟩
  have hle := (hnd.subperm hsub).length_le
  rw [List.length_map, List.length_erase_of_mem (List.mem_range.mpr hpin), List.length_range] at hle
  omega

/-- the same with the second bound: the occupied cells can be mapped injectively (`g`) into a
    duplicate-free list `S` of ensemble slots, avoiding one slot `e0 ∈ S`; then
    `min(|S|, W)` cells suffice for a free one -/
theorem row_has_free2 (l : List Int) (W pin : Nat) (S : List Nat) (e0 : Nat) (g : Int → Option Nat)
    (hpin : pin < W) (hS : S.Nodup) (he0 : e0 ∈ S) (hlen : min S.length W ≤ l.length)
    (hown : ∀ (i : Nat) (x : Int), l[i]? = some x → x ≠ -1 → ∃ m : Nat, x = (m : Int) ∧ m < W ∧ m ≠ pin)
    (hinj : ∀ (i j : Nat) (x : Int), l[i]? = some x → l[j]? = some x → x ≠ -1 → i = j)
    (hg : ∀ x ∈ l, x ≠ -1 → ∃ e, g x = some e ∧ e ∈ S ∧ e ≠ e0)
    (hginj : ∀ x ∈ l, ∀ x' ∈ l, x ≠ -1 → x' ≠ -1 → g x = g x' → x = x') :
    ∃ x ∈ l, (x == -1) = true := by
  by_contra hno
  have hall : ∀ x ∈ l, x ≠ -1 := by
    intro x hx h1
    exact hno ⟨x, hx, by simp [h1]⟩
  have hnd : l.Nodup := by
    apply nodup_of_getElem?_inj
    intro i j hi hj hij
    have hx : l[i]? = some l[i] := List.getElem?_eq_getElem hi
    exact hinj i j l[i] hx (by rw [← hij]; exact hx) (hall _ (List.getElem_mem hi))
  have hsub : l ⊆ ((List.range W).erase pin).map (fun m : Nat => (m : Int)) := by
    intro x hx
    obtain ⟨i, hi, hxi⟩ := List.getElem_of_mem hx
    obtain ⟨m, hm, hmW, hmp⟩ := hown i x (by rw [List.getElem?_eq_getElem hi, hxi]) (hall x hx)
    rw [List.mem_map]
    refine ⟨m, ?_, hm.symm⟩
    rw [List.nodup_range.mem_erase_iff]
    exact ⟨hmp, List.mem_range.mpr hmW⟩
  have hle := (hnd.subperm hsub).length_le
  rw [List.length_map, List.length_erase_of_mem (List.mem_range.mpr hpin), List.length_range] at hle
  have hnd2 : (l.map g).Nodup :=
    List.Nodup.map_on (fun x hx x' hx' h => hginj x hx x' hx' (hall x hx) (hall x' hx') h) hnd
  have hsub2 : l.map g ⊆ (S.erase e0).map some := by
    intro z hz
    obtain ⟨x, hx, rfl⟩ := List.mem_map.mp hz
    obtain ⟨e, hge, heS, hne⟩ := hg x hx (hall x hx)
    rw [hge, List.mem_map]
    exact ⟨e, (hS.mem_erase_iff).mpr ⟨hne, heS⟩, rfl⟩
  have hle2 := (hnd2.subperm hsub2).length_le
  rw [List.length_map, List.length_map, List.length_erase_of_mem he0] at hle2
  have hSpos : 1 ≤ S.length := List.length_pos_of_mem he0
  omega

/-! ### `dedup` -/

theorem mem_dedup (l : List Nat) (x : Nat) : x ∈ dedup l ↔ x ∈ l := by
  induction l with
  | nil => simp [dedup]
  | cons a t ih =>
    unfold dedup
    split
    · rename_i hc
      have hat : a ∈ t := by simpa using hc
      rw [ih]
      constructor
      · exact fun h => List.mem_cons_of_mem _ h
      · intro h
        rcases List.mem_cons.mp h with h | h
        · rw [h]; exact hat
        · exact h
    · simp [ih]

theorem dedup_nodup (l : List Nat) : (dedup l).Nodup := by
  induction l with
  | nil => simp [dedup]
  | cons a t ih =>
    unfold dedup
    split
    · exact ih
    · rename_i hc
      have hat : a ∉ t := by simpa using hc
      rw [List.nodup_cons]
      exact ⟨fun h => hat ((mem_dedup t a).mp h), ih⟩

/-! ### converse specification of `claim` / `assign_engines` -/

theorem claim_row_ne {occ occ' : List (List Int)} {k pin i : Nat} (h : claim occ k pin = some (occ', i))
    (k' : Nat) (hk : k' ≠ k) : occ'[k']? = occ[k']? := by
  unfold claim at h
  split at h
  · exact absurd h (by simp)
  simp only [] at h
  split at h
  · simp only [Option.some.injEq, Prod.mk.injEq] at h
    obtain ⟨rfl, _⟩ := h
    exact List.getElem?_set_ne (fun h => hk h.symm)
  · exact absurd h (by simp)

theorem claim_conv {occ occ' : List (List Int)} {k pin i : Nat} (h : claim occ k pin = some (occ', i)) :
    ∀ k' i' x, cell occ' k' i' = some x → (k' = k ∧ i' = i ∧ x = (pin : Int)) ∨ cell occ k' i' = some x := by
  intro k' i' x hx
  by_cases hk : k' = k
  · subst hk
    by_cases hi : i' = i
    · subst hi
      rw [(claim_spec h).1] at hx
      exact Or.inl ⟨rfl, rfl, by simpa using hx.symm⟩
    · right
      unfold claim at h
      split at h
      · exact absurd h (by simp)
      rename_i l hl
      simp only [] at h
      split at h
      · simp only [Option.some.injEq, Prod.mk.injEq] at h
        obtain ⟨rfl, rfl⟩ := h
        have hkl := getElem?_lt_of_some _ _ _ hl
        unfold cell at hx ⊢
        rw [List.getElem?_set_self hkl] at hx
        simp only [Option.bind_some] at hx
        rw [List.getElem?_set_ne (fun h => hi h.symm)] at hx
        rw [hl]
        exact hx
      · exact absurd h (by simp)
  · right
    unfold cell at hx ⊢
    rw [claim_row_ne h k' hk] at hx
    exact hx

theorem claim_total (occ : List (List Int)) (k pin : Nat) (l : List Int) (hl : occ[k]? = some l)
    (hfree : ∃ x ∈ l, (x == -1) = true) : ∃ occ' i, claim occ k pin = some (occ', i) := by
  unfold claim
  rw [hl]
  simp only []
  rw [if_pos (List.findIdx_lt_length_of_exists hfree)]
  exact ⟨_, _, rfl⟩

theorem assignGo_conv (pin : Nat) : ∀ (names : List Nat) (occ occ' : List (List Int))
    (out : List (Nat × Nat)), assignEngines.go pin occ names = (occ', out) →
    (∀ k i x, cell occ' k i = some x → cell occ k i = some x ∨ (x = (pin : Int) ∧ (k, i) ∈ out)) ∧
      (out.map Prod.fst).Sublist names := by
  intro names
  induction names with
  | nil =>
    intro occ occ' out h
    simp only [assignEngines.go, Prod.mk.injEq] at h
    obtain ⟨rfl, rfl⟩ := h
    exact ⟨fun _ _ _ hx => Or.inl hx, by simp⟩
  | cons k rest ih =>
    intro occ occ' out h
    unfold assignEngines.go at h
    split at h
    · obtain ⟨h1, h2⟩ := ih occ occ' out h
      exact ⟨h1, h2.trans (List.sublist_cons_self _ _)⟩
    · rename_i occ1 i hc
      generalize hgo : assignEngines.go pin occ1 rest = r at h
      obtain ⟨o2, out2⟩ := r
      simp only [Prod.mk.injEq] at h
      obtain ⟨rfl, rfl⟩ := h
      obtain ⟨ih1, ih2⟩ := ih occ1 o2 out2 hgo
      refine ⟨?_, by simpa using ih2.cons_cons k⟩
      intro k' i' x hx
      rcases ih1 k' i' x hx with h1 | ⟨h1, h2⟩
      · rcases claim_conv hc k' i' x h1 with ⟨rfl, rfl, rfl⟩ | h3
        · exact Or.inr ⟨rfl, List.mem_cons_self ..⟩
        · exact Or.inl h3
      · exact Or.inr ⟨h1, List.mem_cons_of_mem _ h2⟩

/-- if every requested type still has a free cell, every requested type is served -/
theorem assignGo_complete (pin : Nat) : ∀ (names : List Nat) (occ occ' : List (List Int))
    (out : List (Nat × Nat)), names.Nodup →
    (∀ k ∈ names, ∃ l, occ[k]? = some l ∧ ∃ x ∈ l, (x == -1) = true) →
    assignEngines.go pin occ names = (occ', out) → out.map Prod.fst = names := by
  intro names
  induction names with
  | nil =>
    intro occ occ' out _ _ h
    simp only [assignEngines.go, Prod.mk.injEq] at h
    obtain ⟨_, rfl⟩ := h
    rfl
  | cons k rest ih =>
    intro occ occ' out hnd hfree h
    rw [List.nodup_cons] at hnd
    obtain ⟨l, hl, hf⟩ := hfree k (List.mem_cons_self ..)
    obtain ⟨occ1, i, hc⟩ := claim_total occ k pin l hl hf
    unfold assignEngines.go at h
    rw [hc] at h
    simp only [] at h
    generalize hgo : assignEngines.go pin occ1 rest = r at h
    obtain ⟨o2, out2⟩ := r
    simp only [Prod.mk.injEq] at h
    obtain ⟨_, rfl⟩ := h
    have := ih occ1 o2 out2 hnd.2
      (fun k' hk' => by
        have hne : k' ≠ k := fun h => hnd.1 (h ▸ hk')
        rw [claim_row_ne hc k' hne]
        exact hfree k' (List.mem_cons_of_mem _ hk'))
      hgo
    simp [this]

theorem lookup_isSome_of_mem_keys {α β : Type} [BEq α] [LawfulBEq α] (l : List (α × β)) (k : α)
    (h : k ∈ l.map Prod.fst) : (l.lookup k).isSome = true := by
  induction l with
  | nil => simp at h
  | cons x l ih =>
    obtain ⟨a, b⟩ := x
    rw [List.lookup_cons]
    split
    · rfl
    · rename_i hka
      simp only [List.map_cons, List.mem_cons] at h
      rcases h with h | h
      · subst h; simp at hka
      · exact ih h

theorem lookup_of_mem_nodup_keys {α β : Type} [BEq α] [LawfulBEq α] (l : List (α × β)) (k : α) (v : β)
    (hnd : (l.map Prod.fst).Nodup) (h : (k, v) ∈ l) : l.lookup k = some v := by
  induction l with
  | nil => simp at h
  | cons x l ih =>
    obtain ⟨a, b⟩ := x
    simp only [List.map_cons, List.nodup_cons] at hnd
    rw [List.lookup_cons]
    rcases List.mem_cons.mp h with h | h
    · obtain ⟨rfl, rfl⟩ := Prod.mk.inj h
      simp
    · have hne : k ≠ a := by
        intro heq
        rw [← heq] at hnd
        exact hnd.1 (List.mem_map.mpr ⟨(k, v), h, rfl⟩)
      have : (k == a) = false := by simpa using hne
      rw [this]
      exact ih hnd.2 h

/-- **`assign_engines` succeeds and serves every requested type** when, after freeing the worker's
    own cells, every requested type has a free cell. -/
theorem assignEngines_total (occ : List (List Int)) (names : List Nat) (pin : Nat)
    (hnd : names.Nodup) (hne : names ≠ [])
    (hfree : ∀ k ∈ names, ∃ l, (freeEngines occ pin)[k]? = some l ∧ ∃ x ∈ l, (x == -1) = true) :
    ∃ occ' idx, assignEngines occ names pin = .ok (occ', idx) ∧ idx.map Prod.fst = names := by
  unfold assignEngines
  simp only []
  generalize hgo : assignEngines.go pin (freeEngines occ pin) names = r
  obtain ⟨o1, out⟩ := r
  have hkeys := assignGo_complete pin names _ _ _ hnd hfree hgo
  simp only []
  have : out.isEmpty = false := by
    cases out with
    | nil => simp at hkeys; exact absurd hkeys hne
    | cons _ _ => rfl
  rw [this]
  exact ⟨o1, out, rfl, hkeys⟩

/-- converse ownership: an occupied cell after `assign_engines` is an old cell of another worker
    or one of the returned instances -/
theorem assignEngines_conv {occ occ' : List (List Int)} {names : List Nat} {pin : Nat}
    {idx : List (Nat × Nat)} (h : assignEngines occ names pin = .ok (occ', idx)) :
    (∀ k i x, cell occ' k i = some x → x ≠ -1 →
      (x ≠ (pin : Int) ∧ cell occ k i = some x) ∨ (x = (pin : Int) ∧ (k, i) ∈ idx)) ∧
    (idx.map Prod.fst).Sublist names := by
  unfold assignEngines at h
  simp only [] at h
  generalize hgo : assignEngines.go pin (freeEngines occ pin) names = r at h
  obtain ⟨o1, out⟩ := r
  simp only [] at h
  split at h
  · exact absurd h (by simp)
  simp only [Except.ok.injEq, Prod.mk.injEq] at h
  obtain ⟨rfl, rfl⟩ := h
  obtain ⟨h1, h2⟩ := assignGo_conv pin names _ _ _ hgo
  refine ⟨?_, h2⟩
  intro k i x hx hne
  rcases h1 k i x hx with h3 | h3
  · left
    rw [cell_freeEngines] at h3
    cases hc : cell occ k i with
    | none => rw [hc] at h3; simp at h3
    | some z =>
      rw [hc] at h3
      simp only [Option.map_some, Option.some.injEq] at h3
      by_cases hz : z = (pin : Int)
      · rw [if_pos hz] at h3; exact absurd h3.symm hne
      · rw [if_neg hz] at h3; subst h3; exact ⟨hz, rfl⟩
  · exact Or.inr h3

/-- rows keep their lengths -/
theorem freeEngines_row (occ : List (List Int)) (pin k : Nat) :
    (freeEngines occ pin)[k]? = (occ[k]?).map (fun l => l.map (fun x => if x = (pin : Int) then -1 else x)) := by
  simp [freeEngines, List.getElem?_map]

theorem claim_rowlen {occ occ' : List (List Int)} {k pin i : Nat} (h : claim occ k pin = some (occ', i))
    (k' : Nat) : (occ'[k']?).map List.length = (occ[k']?).map List.length := by
  by_cases hk : k' = k
  · subst hk
    unfold claim at h
    split at h
    · exact absurd h (by simp)
    rename_i l hl
    simp only [] at h
    split at h
    · simp only [Option.some.injEq, Prod.mk.injEq] at h
      obtain ⟨rfl, _⟩ := h
      rw [List.getElem?_set_self (getElem?_lt_of_some _ _ _ hl), hl]
      simp
    · exact absurd h (by simp)
  · rw [claim_row_ne h k' hk]

theorem assignGo_rowlen (pin : Nat) : ∀ (names : List Nat) (occ occ' : List (List Int))
    (out : List (Nat × Nat)), assignEngines.go pin occ names = (occ', out) →
    ∀ k : Nat, (occ'[k]?).map List.length = (occ[k]?).map List.length := by
  intro names
  induction names with
  | nil =>
    intro occ occ' out h k
    simp only [assignEngines.go, Prod.mk.injEq] at h
    obtain ⟨rfl, _⟩ := h
    rfl
  | cons k0 rest ih =>
    intro occ occ' out h k
    unfold assignEngines.go at h
    split at h
    · exact ih occ occ' out h k
    · rename_i occ1 i hc
      generalize hgo : assignEngines.go pin occ1 rest = r at h
      obtain ⟨o2, out2⟩ := r
      simp only [Prod.mk.injEq] at h
      obtain ⟨rfl, _⟩ := h
      rw [ih occ1 o2 out2 hgo k, claim_rowlen hc k]

theorem assignEngines_rowlen {occ occ' : List (List Int)} {names : List Nat} {pin : Nat}
    {idx : List (Nat × Nat)} (h : assignEngines occ names pin = .ok (occ', idx)) (k : Nat) :
    (occ'[k]?).map List.length = (occ[k]?).map List.length := by
  unfold assignEngines at h
  simp only [] at h
  generalize hgo : assignEngines.go pin (freeEngines occ pin) names = r at h
  obtain ⟨o1, out⟩ := r
  simp only [] at h
  split at h
  · exact absurd h (by simp)
  simp only [Except.ok.injEq, Prod.mk.injEq] at h
  obtain ⟨rfl, _⟩ := h
  rw [assignGo_rowlen pin names _ _ _ hgo k, freeEngines_row]
  cases occ[k]? <;> simp

end Infretis.Repex
