import Infretis.Lemmas.RepexC03AvailSys
import Infretis.Lemmas.RepexC03RInit
/-!
# C03 — a free engine instance is always found, ALSO after restarts

`RepexC03AvailSys` proves engine availability for fresh starts (invariant `Inv`).  This file re-runs
the engine accounting over `InvR` (fresh start or restart; jobs recorded in the restart file are
re-issued by `pick_lock`): a restarted process builds its engine table anew (all cells free, nothing
in flight), so the counting argument is the same.  The lemmas that do not mention the slot invariant
(`free_exists`, `prep_total`, `held_slot_unique`, …) are used from `RepexC03AvailSys` as they are.
-/
namespace Infretis.Repex
open Infretis.Perm

structure EInvR (y : Sys) : Prop where
  inv : InvR y
  pinsLt : ∀ j ∈ y.jobs, j.pin < y.s.workers
  uniq : ∀ j ∈ y.jobs, JobUniq j
  keys : ∀ j ∈ y.jobs, JobKeys y.s.ensEng j
  owned : (y.s.toinitiate < 0 ∧ Stopped y.s) ∨ Owned y
  sized : ∀ (k : Nat) (l : List Int), y.s.occ[k]? = some l →
    min (countK y.s.ensEng y.s.n k) y.s.workers ≤ l.length
  engOk : ∀ e, e < y.s.n - 1 → y.s.ensEng.getD e [] ≠ [] ∧
    ∀ k ∈ y.s.ensEng.getD e [], ∃ l, y.s.occ[k]? = some l

theorem prep_spec_engR {s s' : St} {H : List (Nat × Nat)} (prev : Option Nat) (o : PickOutcome) (saved : Nat)
    (job : Job) (ds : List Draw) (hc : CoreR s H s.trajNum)
    (h : prep s prev o saved = .ok (s', job, ds)) :
    (∀ k i x, cell s'.occ k i = some x → x ≠ -1 →
      (x ≠ (job.pin : Int) ∧ cell s.occ k i = some x) ∨
      (x = (job.pin : Int) ∧ ∃ p ∈ job.picked, (k, i) ∈ p.engIdx)) ∧
    JobUniq job ∧ JobKeys s.ensEng job ∧
    (∀ k : Nat, (s'.occ[k]?).map List.length = (s.occ[k]?).map List.length) ∧
    s'.ensEng = s.ensEng ∧ s'.n = s.n ∧ s'.cstep = s.cstep ∧ s'.tsteps = s.tsteps := by
  unfold prep at h
  simp only [] at h
  generalize hpin : (if s.toinitiate ≥ 0 then some s.cworker else prev) = pin? at h
  split at h
  · exact absurd h (by simp)
  rename_i s1 ps ds1 hr
  have ha1 : AuxEq s s1 := by
    split at hr
    · rename_i h0
      exact (pickLock_coreR hc h0 o saved ps ds1 hr).2.1
    · rename_i h0
      exact (pick_coreR hc o ps ds1 hr (Or.inl (by omega))).2.1.toAux
  split at h
  · exact absurd h (by simp)
  rename_i pin
  split at h
  · exact absurd h (by simp)
  rename_i occ' idx hass
  split at h
  · exact absurd h (by simp)
  rename_i hmiss
  simp only [Except.ok.injEq, Prod.mk.injEq] at h
  obtain ⟨rfl, rfl, _⟩ := h
  obtain ⟨hconv, hsub⟩ := assignEngines_conv hass
  have hkeys : (idx.map Prod.fst).Nodup := hsub.nodup (dedup_nodup _)
  refine ⟨?_, ?_, ?_, ?_, ha1.ensEng, ha1.n, ha1.cstep, ha1.tsteps⟩
  rotate_left 2
  · intro p1 hp1 ki hki
    simp only [List.mem_map] at hp1
    obtain ⟨q1, _, rfl⟩ := hp1
    simp only [List.mem_map] at hki
    obtain ⟨k1, hk1, rfl⟩ := hki
    rw [← ha1.ensEng]
    exact hk1
  rotate_left 1
  · intro k i x hx hne
    rcases hconv k i x hx hne with ⟨h1, h2⟩ | ⟨h1, h2⟩
    · left
      rw [← ha1.occ]
      exact ⟨h1, h2⟩
    · right
      refine ⟨h1, ?_⟩
      have hk : k ∈ dedup ((ps.map (fun p => s1.ensEng.getD (p.ens + 1).toNat [])).flatten) :=
        hsub.subset (List.mem_map.mpr ⟨(k, i), h2, rfl⟩)
      rw [mem_dedup, List.mem_flatten] at hk
      obtain ⟨l, hl, hkl⟩ := hk
      obtain ⟨p, hp, rfl⟩ := List.mem_map.mp hl
      refine ⟨_, List.mem_map.mpr ⟨p, hp, rfl⟩, ?_⟩
      simp only [List.mem_map]
      refine ⟨k, hkl, ?_⟩
      rw [lookup_of_mem_nodup_keys idx k i hkeys h2]
      rfl
  · intro p1 hp1 p2 hp2 k i i' h1 h2
    simp only [List.mem_map] at hp1 hp2
    obtain ⟨q1, _, rfl⟩ := hp1
    obtain ⟨q2, _, rfl⟩ := hp2
    simp only [List.mem_map, Prod.mk.injEq] at h1 h2
    obtain ⟨k1, _, rfl, rfl⟩ := h1
    obtain ⟨k2, _, rfl, rfl⟩ := h2
    rfl
  · intro k
    show (occ'[k]?).map List.length = _
    rw [assignEngines_rowlen hass k, ha1.occ]


theorem start_preserves_ER {y y' : Sys} (o : PickOutcome) (saved : Nat) (he : EInvR y)
    (h : sysStep y (.start o saved) = .ok y') : EInvR y' := by
  have hinv' := start_preservesR o saved he.inv h
  have hi := he.inv
  unfold sysStep at h
  rcases initiate_cases y.s with ⟨hin, _⟩ | ⟨ti, hti, hin⟩
  · rw [hin] at h
    simp at h
  rw [hin] at h
  simp only [] at h
  split at h
  · exact absurd h (by simp)
  rename_i hgo
  have hgo : ti - 1 ≥ 0 := by simpa using hgo
  have hti : ti = y.s.toinitiate := by
    rcases hti with h1 | h1
    · exact h1
    · omega
  subst hti
  split at h
  · exact absurd h (by simp)
  rename_i s2 job ds hprep
  simp only [Except.ok.injEq] at h
  subst h
  have hc1 := hi.core.congrTo
    (s' := { y.s with cworker := (y.s.workers - y.s.toinitiate).toNat, toinitiate := y.s.toinitiate - 1 })
    rfl rfl rfl rfl rfl (by
      show 0 ≤ y.s.toinitiate - 1 → 0 ≤ y.s.toinitiate
      omega)
  obtain ⟨_, _, _, hpin, hto, hwo, _, _, _⟩ := prep_specR none o saved job ds hc1 hprep
  obtain ⟨hconv, huq, hkeys, hrow, hens, hn, _, _⟩ := prep_spec_engR none o saved job ds hc1 hprep
  simp only [ge_iff_le, hgo, ↓reduceIte, Option.some.injEq] at hpin
  have htole := hi.tole
  have hrow' : ∀ k : Nat, (s2.occ[k]?).map List.length = (y.s.occ[k]?).map List.length := hrow
  have hOwned : Owned y := by
    rcases he.owned with ⟨h1, _⟩ | h2
    · omega
    · exact h2
  constructor
  · exact hinv'
  · intro j hj
    show j.pin < s2.workers
    rw [hwo]
    rcases List.mem_append.mp hj with hj | hj
    · exact he.pinsLt j hj
    · simp only [List.mem_singleton] at hj
      subst hj
      show j.pin < y.s.workers
      rw [hpin]
      show (↑y.s.workers - y.s.toinitiate).toNat < y.s.workers
      omega
  · intro j hj
    rcases List.mem_append.mp hj with hj | hj
    · exact he.uniq j hj
    · simp only [List.mem_singleton] at hj
      subst hj; exact huq
  · intro j hj
    show JobKeys s2.ensEng j
    rw [hens]
    rcases List.mem_append.mp hj with hj | hj
    · exact he.keys j hj
    · simp only [List.mem_singleton] at hj
      subst hj; exact hkeys
  · right
    intro k i x hx hne
    rcases hconv k i x hx hne with ⟨_, h2⟩ | ⟨h1, h2⟩
    · obtain ⟨j, hj, hjx, hp⟩ := hOwned k i x h2 hne
      exact ⟨j, List.mem_append_left _ hj, hjx, hp⟩
    · exact ⟨job, List.mem_append_right _ (List.mem_singleton.mpr rfl), h1.symm, h2⟩
  · intro k l hl
    show min (countK s2.ensEng s2.n k) s2.workers ≤ l.length
    rw [hwo, hens, hn]
    have := hrow' k
    rw [hl] at this
    cases hk : y.s.occ[k]? with
    | none => rw [hk] at this; simp at this
    | some l0 =>
      rw [hk] at this
      simp only [Option.map_some, Option.some.injEq] at this
      rw [this]
      exact he.sized k l0 hk
  · intro e hlt
    show s2.ensEng.getD e [] ≠ [] ∧ ∀ k ∈ s2.ensEng.getD e [], ∃ l, s2.occ[k]? = some l
    rw [hens]
    have hlt' : e < y.s.n - 1 := by
      have : s2.n = y.s.n := hn
      rw [← this]; exact hlt
    obtain ⟨h1, h2⟩ := he.engOk e hlt'
    refine ⟨h1, ?_⟩
    intro k hk
    obtain ⟨l0, hl0⟩ := h2 k hk
    have := hrow' k
    rw [hl0] at this
    cases hs2 : s2.occ[k]? with
    | none => rw [hs2] at this; simp at this
    | some l => exact ⟨l, rfl⟩

theorem initDone_preserves_ER {y y' : Sys} (he : EInvR y) (h : sysStep y .initDone = .ok y') :
    EInvR y' ∧ (y'.s.toinitiate < 0 ∨ y'.s.tsteps ≤ y'.s.cstep) := by
  have hinv' := initDone_preservesR he.inv h
  unfold sysStep at h
  rcases initiate_cases y.s with ⟨hin, hc⟩ | ⟨ti, hti, hin⟩
  · rw [hin] at h
    simp only [Bool.false_eq_true, ↓reduceIte, Except.ok.injEq] at h
    subst h
    exact ⟨he, Or.inr hc⟩
  · rw [hin] at h
    simp only [] at h
    split at h
    · exact absurd h (by simp)
    rename_i hgo
    have hgo : ¬ (ti - 1 ≥ 0) := by simpa using hgo
    simp only [Except.ok.injEq] at h
    subst h
    refine ⟨⟨hinv', he.pinsLt, he.uniq, he.keys, ?_, he.sized, he.engOk⟩, Or.inl (by show ti - 1 < 0; omega)⟩
    rcases he.owned with ⟨h1, h2⟩ | h2
    · exact Or.inl ⟨by show ti - 1 < 0; omega, h2⟩
    · exact Or.inr h2

theorem step_preserves_ER {y y' : Sys} (k : Nat) (status : Status) (newW : List (List Rat))
    (o : PickOutcome) (he : EInvR y) (hph : y.s.toinitiate < 0 ∨ y.s.tsteps ≤ y.s.cstep)
    (h : sysStep y (.step k status newW o) = .ok y') :
    EInvR y' ∧ (y'.s.toinitiate < 0 ∨ y'.s.tsteps ≤ y'.s.cstep) := by
  have hinv' := step_preservesR k status newW o he.inv h
  have hi := he.inv
  unfold sysStep at h
  obtain ⟨hle, hltn, hlto, hlwo, hlocc⟩ := loop_coreEqR y.s
  have hloopc : (loop y.s).2 = true → y.s.cstep < y.s.tsteps ∧ (loop y.s).1.cstep = y.s.cstep + 1 ∧
      (loop y.s).1.tsteps = y.s.tsteps ∧ (loop y.s).1.ensEng = y.s.ensEng := by
    unfold loop
    split
    · intro h; simp at h
    · intro _; exact ⟨by omega, rfl, rfl, rfl⟩
  generalize hloop : loop y.s = r at h hle hltn hlto hlwo hlocc hloopc
  obtain ⟨s1, go⟩ := r
  simp only [] at h hle hltn hlto hlwo hlocc hloopc
  split at h
  · exact absurd h (by simp)
  rename_i hgo
  have hgo : go = true := by simpa using hgo
  obtain ⟨hcs, hcs1, hts1, hens1⟩ := hloopc hgo
  have hphase : y.s.toinitiate < 0 := by
    rcases hph with h1 | h1
    · exact h1
    · omega
  split at h
  · exact absurd h (by simp)
  rename_i job hjob
  split at h
  · exact absurd h (by simp)
  rename_i s2 pns it htreat
  have hperm := held_perm_erase y.jobs k job hjob
  have hc1 : CoreR s1 (heldJob job ++ held (y.jobs.eraseIdx k)) s1.trajNum := by
    rw [hltn]
    exact (hi.core.congr hle).perm hperm
  obtain ⟨hc2, hcw, hto, hwo, hocc, hens2, hn2, hcs2, hts2, _⟩ :=
    treatOutput_coreR job status newW _ pns it hc1 htreat
  have hjmem : job ∈ y.jobs := List.mem_of_getElem? hjob
  have hrest : ∀ j ∈ y.jobs.eraseIdx k, j ∈ y.jobs := fun j hj => List.mem_of_mem_eraseIdx hj
  have hjperm := perm_cons_eraseIdx y.jobs k job hjob
  split at h
  · -- a new job for the same worker
    rename_i hre
    split at h
    · exact absurd h (by simp)
    rename_i s3 job' ds hprep
    simp only [Except.ok.injEq] at h
    subst h
    obtain ⟨_, _, _, hpin, hto3, hwo3, _, _, _⟩ := prep_specR (some job.pin) o 0 job' ds hc2 hprep
    obtain ⟨hconv, huq, hkeys, hrow, hens3, hn3, hcs3, hts3⟩ := prep_spec_engR (some job.pin) o 0 job' ds hc2 hprep
    have hpin' : job'.pin = job.pin := by
      rw [hcw] at hpin
      split at hpin <;> simpa using hpin
    have hOwned : Owned y := by
      rcases he.owned with ⟨_, h2⟩ | h2
      · exfalso
        unfold Stopped at h2
        rw [hcs2, hwo, hts2, hcs1, hlwo, hts1] at hre
        omega
      · exact h2
    refine ⟨⟨hinv', ?_, ?_, ?_, Or.inr ?_, ?_, ?_⟩, Or.inl ?_⟩
    · intro j hj
      show j.pin < s3.workers
      rw [hwo3, hwo, hlwo]
      rcases List.mem_append.mp hj with hj | hj
      · exact he.pinsLt j (hrest j hj)
      · simp only [List.mem_singleton] at hj
        subst hj
        rw [hpin']
        exact he.pinsLt job hjmem
    · intro j hj
      rcases List.mem_append.mp hj with hj | hj
      · exact he.uniq j (hrest j hj)
      · simp only [List.mem_singleton] at hj
        subst hj; exact huq
    · intro j hj
      show JobKeys s3.ensEng j
      rw [hens3]
      rcases List.mem_append.mp hj with hj | hj
      · rw [hens2, hens1]; exact he.keys j (hrest j hj)
      · simp only [List.mem_singleton] at hj
        subst hj; exact hkeys
    · intro k0 i x hx hne
      rcases hconv k0 i x hx hne with ⟨h1, h2⟩ | ⟨h1, h2⟩
      · rw [hocc, hlocc] at h2
        obtain ⟨j, hj, hjx, hp⟩ := hOwned k0 i x h2 hne
        have hjne : j ≠ job := by
          intro heq
          subst heq
          rw [hpin'] at h1
          exact h1 hjx.symm
        exact ⟨j, List.mem_append_left _ (mem_of_perm_cons hjperm hj hjne), hjx, hp⟩
      · exact ⟨job', List.mem_append_right _ (List.mem_singleton.mpr rfl), h1.symm, h2⟩
    · intro k0 l hl
      show min (countK s3.ensEng s3.n k0) s3.workers ≤ l.length
      rw [hwo3, hwo, hlwo, hens3, hens2, hens1, hn3, hn2, hle.n]
      have := hrow k0
      rw [hl, hocc, hlocc] at this
      cases hk : y.s.occ[k0]? with
      | none => rw [hk] at this; simp at this
      | some l0 =>
        rw [hk] at this
        simp only [Option.map_some, Option.some.injEq] at this
        rw [this]
        exact he.sized k0 l0 hk
    · intro e hlt
      show s3.ensEng.getD e [] ≠ [] ∧ ∀ k ∈ s3.ensEng.getD e [], ∃ l, s3.occ[k]? = some l
      rw [hens3, hens2, hens1]
      have hlt' : e < y.s.n - 1 := by
        have : s3.n = y.s.n := by rw [hn3, hn2, hle.n]
        rw [← this]; exact hlt
      obtain ⟨h1, h2⟩ := he.engOk e hlt'
      refine ⟨h1, ?_⟩
      intro k0 hk0
      obtain ⟨l0, hl0⟩ := h2 k0 hk0
      have := hrow k0
      rw [hocc, hlocc, hl0] at this
      cases hs3 : s3.occ[k0]? with
      | none => rw [hs3] at this; simp at this
      | some l => exact ⟨l, rfl⟩
    · show s3.toinitiate < 0
      rw [hto3, hto, hlto]; exact hphase
  · rename_i hre
    simp only [Except.ok.injEq] at h
    subst h
    refine ⟨⟨hinv', ?_, ?_, ?_, Or.inl ⟨?_, ?_⟩, ?_, ?_⟩, Or.inl ?_⟩
    · intro j hj
      show j.pin < s2.workers
      rw [hwo, hlwo]
      exact he.pinsLt j (hrest j hj)
    · exact fun j hj => he.uniq j (hrest j hj)
    · intro j hj
      show JobKeys s2.ensEng j
      rw [hens2, hens1]
      exact he.keys j (hrest j hj)
    · show s2.toinitiate < 0
      rw [hto, hlto]; exact hphase
    · show s2.tsteps < s2.cstep + s2.workers
      omega
    · intro k0 l hl
      show min (countK s2.ensEng s2.n k0) s2.workers ≤ l.length
      rw [hwo, hlwo, hens2, hens1, hn2, hle.n]
      have hl' : s2.occ[k0]? = some l := hl
      rw [hocc, hlocc] at hl'
      exact he.sized k0 l hl'
    · intro e hlt
      show s2.ensEng.getD e [] ≠ [] ∧ ∀ k ∈ s2.ensEng.getD e [], ∃ l, s2.occ[k]? = some l
      rw [hens2, hens1, hocc, hlocc]
      have hlt' : e < y.s.n - 1 := by
        have : s2.n = y.s.n := by rw [hn2, hle.n]
        rw [← this]; exact hlt
      exact he.engOk e hlt'
    · show s2.toinitiate < 0
      rw [hto, hlto]; exact hphase



theorem pickPart_coreR {s s' : St} {H : List (Nat × Nat)} {tn : Nat} (h : CoreR s H tn) (o : PickOutcome)
    (saved : Nat) (ps : List Picked) (ds : List Draw) (hp : pickPart s o saved = .ok (s', ps, ds)) :
    CoreR s' (heldPicked ps ++ H) tn ∧ AuxEq s s' ∧ PickShape s.locks ps := by
  unfold pickPart at hp
  split at hp
  · rename_i h0
    obtain ⟨h1, h2, _, h4, _⟩ := pickLock_coreR h h0 o saved ps ds hp
    exact ⟨h1, h2, h4⟩
  · rename_i h0
    obtain ⟨h1, h2, _, h4, _⟩ := pick_coreR h o ps ds hp (Or.inl (by omega))
    exact ⟨h1, h2.toAux, h4⟩

/-- after a successful pick the engine part of `prep_md_items` finds what it needs -/
theorem pick_engine_readyR {s s' : St} {H : List (Nat × Nat)} (hc : CoreR s H s.trajNum)
    (o : PickOutcome) (saved : Nat) (ps : List Picked) (ds : List Draw)
    (hpick : pickPart s o saved = .ok (s', ps, ds)) (jobs : List Job) (W pin : Nat)
    (hengOk : ∀ e, e < s.n - 1 → s.ensEng.getD e [] ≠ [] ∧
      ∀ k ∈ s.ensEng.getD e [], ∃ l, s.occ[k]? = some l)
    (hsized : ∀ (k : Nat) (l : List Int), s.occ[k]? = some l →
      min (countK s.ensEng s.n k) W ≤ l.length)
    (hown : ∀ k i x, cell s.occ k i = some x → x ≠ -1 → x ≠ (pin : Int) →
      ∃ j ∈ jobs, (j.pin : Int) = x ∧ ∃ p ∈ j.picked, (k, i) ∈ p.engIdx)
    (hpins : (jobs.map (·.pin)).Nodup) (hlt : ∀ j ∈ jobs, j.pin < W) (huniq : ∀ j ∈ jobs, JobUniq j)
    (hkeys : ∀ j ∈ jobs, JobKeys s.ensEng j)
    (hH : ∀ j ∈ jobs, (j.pin : Int) ≠ (pin : Int) → ∀ p ∈ j.picked, (slotOf p, p.pn) ∈ H)
    (hsu : ∀ j ∈ jobs, ∀ j' ∈ jobs, ∀ p ∈ j.picked, ∀ p' ∈ j'.picked, slotOf p = slotOf p' → j = j')
    (hpin : pin < W) :
    (∃ p ∈ ps, s'.ensEng.getD (p.ens + 1).toNat [] ≠ []) ∧
    (∀ k, (∃ p ∈ ps, k ∈ s'.ensEng.getD (p.ens + 1).toNat []) →
      ∃ l, (freeEngines s'.occ pin)[k]? = some l ∧ ∃ x ∈ l, (x == -1) = true) := by
  obtain ⟨hc', ha, hshape⟩ := pickPart_coreR hc o saved ps ds hpick
  have hslot : ∀ p ∈ ps, (p.ens + 1).toNat < s.n - 1 := by
    intro p hp
    have := (hc'.heldOk (slotOf p) p.pn
      (List.mem_append_left _ (List.mem_map.mpr ⟨p, hp, rfl⟩))).1
    rw [ha.n] at this
    exact this
  have hne : ps ≠ [] := by
    rcases hshape with h1 | h2
    · intro h0; rw [h0] at h1; simp at h1
    · intro h0; rw [h0] at h2; simp at h2
  rw [ha.ensEng, ha.occ]
  constructor
  · obtain ⟨p, hp⟩ := List.exists_mem_of_ne_nil _ hne
    exact ⟨p, hp, (hengOk _ (hslot p hp)).1⟩
  · rintro k ⟨p, hp, hk⟩
    obtain ⟨l, hl⟩ := (hengOk _ (hslot p hp)).2 k hk
    have hnd := hc'.nodup
    rw [List.map_append, List.nodup_append] at hnd
    refine free_exists jobs s.occ s.ensEng s.n W pin k (p.ens + 1).toNat l (hown k) hpins hlt huniq
      hkeys ?_ hsu (hslot p hp) hk hpin hl (hsized k l hl)
    intro j hj hjp q hq
    have hm := hH j hj hjp q hq
    refine ⟨?_, ?_⟩
    · have := (hc'.heldOk (slotOf q) q.pn (List.mem_append_right _ hm)).1
      rw [ha.n] at this
      exact this
    · intro heq
      refine hnd.2.2 (slotOf p) ?_ (slotOf q) (List.mem_map.mpr ⟨_, hm, rfl⟩) ?_
      · exact List.mem_map.mpr ⟨(slotOf p, p.pn), List.mem_map.mpr ⟨p, hp, rfl⟩, rfl⟩
      · exact heq.symm

/-- **a `start` event fails only if `initiate` says no or the pick fails** -/
theorem start_availableR {y : Sys} (he : EInvR y) (o : PickOutcome) (saved : Nat) (s1 : St)
    (hgo : initiate y.s = (s1, true)) (s1' : St) (ps : List Picked) (ds : List Draw)
    (hpick : pickPart s1 o saved = .ok (s1', ps, ds)) : ∃ y', sysStep y (.start o saved) = .ok y' := by
  have hi := he.inv
  have htole := hi.tole
  rcases initiate_cases y.s with ⟨hin, _⟩ | ⟨ti, hti, hin⟩
  · rw [hin] at hgo; simp at hgo
  rw [hin] at hgo
  simp only [Prod.mk.injEq, decide_eq_true_eq] at hgo
  obtain ⟨hs1, hge⟩ := hgo
  have hti : ti = y.s.toinitiate := by
    rcases hti with h1 | h1
    · exact h1
    · omega
  subst hti
  subst hs1
  have hc1 := hi.core.congrTo
    (s' := { y.s with cworker := (y.s.workers - y.s.toinitiate).toNat, toinitiate := y.s.toinitiate - 1 })
    rfl rfl rfl rfl rfl (by
      show 0 ≤ y.s.toinitiate - 1 → 0 ≤ y.s.toinitiate
      omega)
  have hOwned : Owned y := by
    rcases he.owned with ⟨h1, _⟩ | h2
    · omega
    · exact h2
  have hmemheld : ∀ j ∈ y.jobs, ∀ p ∈ j.picked, (slotOf p, p.pn) ∈ held y.jobs := by
    intro j hj p hp
    simp only [held, List.mem_flatMap]
    exact ⟨j, hj, List.mem_map.mpr ⟨p, hp, rfl⟩⟩
  obtain ⟨hne, hfree⟩ := pick_engine_readyR hc1 o saved ps ds hpick y.jobs y.s.workers
    (y.s.workers - y.s.toinitiate).toNat he.engOk he.sized
    (fun k i x hx h1 _ => hOwned k i x hx h1) hi.pins he.pinsLt he.uniq he.keys
    (fun j hj _ p hp => hmemheld j hj p hp) (held_slot_unique y.jobs hi.core.nodup) (by omega)
  obtain ⟨s', job, hprep⟩ := prep_total none o saved ps ds (y.s.workers - y.s.toinitiate).toNat hpick
    (by
      show (if y.s.toinitiate - 1 ≥ 0 then some (y.s.workers - y.s.toinitiate).toNat else none) = _
      rw [if_pos hge])
    hne hfree
  unfold sysStep
  rw [hin]
  simp only [decide_eq_true_eq, hge, not_true_eq_false, ↓reduceIte]
  rw [hprep]
  exact ⟨_, rfl⟩

/-- **a `step` event fails only if `loop` says no, `treat_output` fails or the pick fails** -/
theorem step_availableR {y : Sys} (he : EInvR y) (hph : y.s.toinitiate < 0) (k : Nat) (status : Status)
    (newW : List (List Rat)) (o : PickOutcome) (job : Job) (hj : y.jobs[k]? = some job) (s1 : St)
    (hloop : loop y.s = (s1, true)) (s2 : St) (pns : List Nat) (it : Nat)
    (ht : treatOutput s1 job status newW (sortFuel s1) = .ok (s2, pns, it))
    (hre : s2.cstep + s2.workers ≤ s2.tsteps) (s3 : St) (ps : List Picked) (ds : List Draw)
    (hpick : pickPart s2 o 0 = .ok (s3, ps, ds)) :
    ∃ y', sysStep y (.step k status newW o) = .ok y' := by
  have hi := he.inv
  obtain ⟨hle, hltn, hlto, hlwo, hlocc⟩ := loop_coreEqR y.s
  have hloopc : (loop y.s).1.cstep ≥ y.s.cstep ∧ (loop y.s).1.tsteps = y.s.tsteps ∧
      (loop y.s).1.ensEng = y.s.ensEng := by
    unfold loop
    split
    · exact ⟨Nat.le_refl _, rfl, rfl⟩
    · exact ⟨by show y.s.cstep + 1 ≥ y.s.cstep; omega, rfl, rfl⟩
  rw [hloop] at hle hltn hlto hlwo hlocc hloopc
  simp only [] at hle hltn hlto hlwo hlocc hloopc
  obtain ⟨hcs1, hts1, hens1⟩ := hloopc
  have hperm := held_perm_erase y.jobs k job hj
  have hc1 : CoreR s1 (heldJob job ++ held (y.jobs.eraseIdx k)) s1.trajNum := by
    rw [hltn]
    exact (hi.core.congr hle).perm hperm
  obtain ⟨hc2, hcw, hto, hwo, hocc, hens2, hn2, hcs2, hts2, _⟩ :=
    treatOutput_coreR job status newW _ pns it hc1 ht
  have hjmem : job ∈ y.jobs := List.mem_of_getElem? hj
  have hOwned : Owned y := by
    rcases he.owned with ⟨_, h2⟩ | h2
    · exfalso
      unfold Stopped at h2
      rw [hcs2, hwo, hts2, hlwo, hts1] at hre
      omega
    · exact h2
  have hengOk2 : ∀ e, e < s2.n - 1 → s2.ensEng.getD e [] ≠ [] ∧
      ∀ k ∈ s2.ensEng.getD e [], ∃ l, s2.occ[k]? = some l := by
    intro e hlt
    rw [hens2, hens1, hocc, hlocc]
    have : s2.n = y.s.n := by rw [hn2, hle.n]
    rw [this] at hlt
    exact he.engOk e hlt
  have hjperm := perm_cons_eraseIdx y.jobs k job hj
  have hn2' : s2.n = y.s.n := by rw [hn2, hle.n]
  have hens2' : s2.ensEng = y.s.ensEng := by rw [hens2, hens1]
  obtain ⟨hne, hfree⟩ := pick_engine_readyR hc2 o 0 ps ds hpick y.jobs y.s.workers job.pin hengOk2
    (by rw [hocc, hlocc, hens2', hn2']; exact he.sized)
    (by
      rw [hocc, hlocc]
      exact fun k i x hx h1 _ => hOwned k i x hx h1)
    hi.pins he.pinsLt he.uniq (by rw [hens2']; exact he.keys)
    (by
      intro j hj hjp p hp
      have hjne : j ≠ job := by
        intro heq; subst heq; exact hjp rfl
      have hjr := mem_of_perm_cons hjperm hj hjne
      simp only [held, List.mem_flatMap]
      exact ⟨j, hjr, List.mem_map.mpr ⟨p, hp, rfl⟩⟩)
    (held_slot_unique y.jobs hi.core.nodup) (he.pinsLt job hjmem)
  obtain ⟨s', job', hprep⟩ := prep_total (some job.pin) o 0 ps ds job.pin hpick
    (by
      have : ¬ (s2.toinitiate ≥ 0) := by rw [hto, hlto]; omega
      rw [if_neg this])
    hne hfree
  unfold sysStep
  rw [hloop]
  simp only [not_true_eq_false, ↓reduceIte, hj, ht, hre, hprep]
  exact ⟨_, rfl⟩


theorem run_starts_ER : ∀ (evs : List Ev) {y y' : Sys}, (∀ ev ∈ evs, isStart ev = true) → EInvR y →
    run y evs = .ok y' → EInvR y' := by
  intro evs
  induction evs with
  | nil =>
    intro y y' _ he h
    simp only [run, Except.ok.injEq] at h
    subst h; exact he
  | cons ev rest ih =>
    intro y y' hall he h
    unfold run at h
    split at h
    · exact absurd h (by simp)
    · rename_i y1 hstep
      have hev := hall ev (List.mem_cons_self ..)
      cases ev with
      | start o saved =>
        exact ih (fun e he' => hall e (List.mem_cons_of_mem _ he')) (start_preserves_ER o saved he hstep) h
      | step _ _ _ _ => simp [isStart] at hev
      | initDone => simp [isStart] at hev

theorem run_steps_ER : ∀ (evs : List Ev) {y y' : Sys}, (∀ ev ∈ evs, isStep ev = true) → EInvR y →
    (y.s.toinitiate < 0 ∨ y.s.tsteps ≤ y.s.cstep) → run y evs = .ok y' →
    EInvR y' ∧ (y'.s.toinitiate < 0 ∨ y'.s.tsteps ≤ y'.s.cstep) := by
  intro evs
  induction evs with
  | nil =>
    intro y y' _ he hph h
    simp only [run, Except.ok.injEq] at h
    subst h; exact ⟨he, hph⟩
  | cons ev rest ih =>
    intro y y' hall he hph h
    unfold run at h
    split at h
    · exact absurd h (by simp)
    · rename_i y1 hstep
      have hev := hall ev (List.mem_cons_self ..)
      cases ev with
      | start o saved => simp [isStep] at hev
      | step k status newW o =>
        obtain ⟨he1, hph1⟩ := step_preserves_ER k status newW o he hph hstep
        exact ih (fun e he' => hall e (List.mem_cons_of_mem _ he')) he1 hph1 h
      | initDone => simp [isStep] at hev


theorem EInvR.ofStart {y : Sys} (h : Start y) (hj : y.jobs = []) (hE : EngInit y) : EInvR y := by
  refine ⟨h.inv, ?_, ?_, ?_, Or.inr ?_, hE.sized, hE.engOk⟩
  · rw [hj]; simp
  · rw [hj]; simp
  · rw [hj]; simp
  · intro k i x hx hne
    exact absurd (hE.free k i x hx) hne

/-- states reached by scheduler-shaped histories from a fresh start OR a restart satisfy the engine accounting -/
theorem einvR_of_shaped {y0 y : Sys} (h0 : Start y0) (hj : y0.jobs = []) (hE : EngInit y0) (starts steps : List Ev)
    (hs : ∀ ev ∈ starts, isStart ev = true) (ht : ∀ ev ∈ steps, isStep ev = true)
    (hr : run y0 (starts ++ .initDone :: steps) = .ok y) :
    EInvR y ∧ (y.s.toinitiate < 0 ∨ y.s.tsteps ≤ y.s.cstep) := by
  obtain ⟨y1, hr1, hr2⟩ := run_append starts _ y0 y hr
  have he1 := run_starts_ER starts hs (EInvR.ofStart h0 hj hE) hr1
  unfold run at hr2
  split at hr2
  · exact absurd hr2 (by simp)
  · rename_i y2 hstep
    obtain ⟨he2, hph2⟩ := initDone_preserves_ER he1 hstep
    exact run_steps_ER steps ht he2 hph2 hr2

end Infretis.Repex
