import Infretis.Lemmas.RepexC03Perm
/-!
# C03 — the slot / lock invariant `Core` of the replica-exchange state and its preservation

`Core s H tn`: in state `s` exactly the slots listed in `H : List (slot × path number)` (plus the
ghost) are locked, each listed slot holds the listed path with a non-zero diagonal weight, every
non-ghost slot holds a path number `< tn`, and distinct slots hold distinct paths.
Preservation is proved per operation: `swap` of idle slots, `lock`, `add_traj` (unlock),
`pick` (incl. the zero swap), `sort_trajstate`, `treat_output`.
-/
namespace Infretis.Repex
open Infretis.Perm

/-! ### list helpers -/

theorem swapList_length {α : Type} (l : List α) (i j : Nat) : (swapList l i j).length = l.length := by
  unfold swapList
  split <;> simp

theorem swapList_getElem? {α : Type} (l : List α) (i j k : Nat) (hi : i < l.length) (hj : j < l.length) :
    (swapList l i j)[k]? = if k = j then l[i]? else if k = i then l[j]? else l[k]? := by
  unfold swapList
  rw [List.getElem?_eq_getElem hi, List.getElem?_eq_getElem hj]
  simp only
  rw [List.getElem?_set]
  by_cases hkj : k = j
  · subst hkj; simp [hj]
  · rw [if_neg (fun h => hkj h.symm), if_neg hkj, List.getElem?_set]
    by_cases hki : k = i
    · subst hki; simp [hi]
    · rw [if_neg (fun h => hki h.symm), if_neg hki]

theorem entryM_eq_entry (P : Mat) (i j : Nat) : entryM P i j = entry P i j := rfl

theorem entryM_congr (W W' : Mat) (i j : Nat) (h : W'[i]? = W[i]?) : entryM W' i j = entryM W i j := by
  unfold entryM
  rw [List.getD_eq_getElem?_getD, List.getD_eq_getElem?_getD, h]

theorem col_getD (P : Mat) (i j : Nat) :
    (P.map (fun r => r.getD j 0)).getD i 0 = entryM P i j := by
  unfold entryM
  rw [List.getD_eq_getElem?_getD, List.getD_eq_getElem?_getD (l := P), List.getElem?_map]
  cases P[i]? <;> simp

theorem getElem?_lt_of_some {α : Type} (l : List α) (i : Nat) (a : α) (h : l[i]? = some a) :
    i < l.length := by
  rcases Nat.lt_or_ge i l.length with h' | h'
  · exact h'
  · rw [List.getElem?_eq_none h'] at h; exact absurd h (by simp)

/-! ### the invariant -/

/-- slot of a picked ensemble: `ens_num + offset` -/
def slotOf (p : Picked) : Nat := (p.ens + 1).toNat

/-- what a job holds: (slot, path number) per picked ensemble -/
def heldJob (j : Job) : List (Nat × Nat) := j.picked.map (fun p => (slotOf p, p.pn))

/-- everything held by the jobs in flight -/
def held (jobs : List Job) : List (Nat × Nat) := jobs.flatMap heldJob

structure Core (s : St) (H : List (Nat × Nat)) (tn : Nat) : Prop where
  n2 : 2 ≤ s.n
  lenW : s.W.length = s.n
  lenT : s.trajs.length = s.n
  lenL : s.locks.length = s.n
  ghost : s.locks[s.n - 1]? = some true
  busy : ∀ e, e < s.n - 1 → (s.locks[e]? = some true ↔ e ∈ H.map Prod.fst)
  nodup : (H.map Prod.fst).Nodup
  heldOk : ∀ e pn, (e, pn) ∈ H → e < s.n - 1 ∧ s.trajs[e]? = some (some pn) ∧ entryM s.W e e ≠ 0
  live : ∀ e, e < s.n - 1 → ∃ pn, s.trajs[e]? = some (some pn) ∧ pn < tn
  inj : ∀ a b pn, a < s.n - 1 → b < s.n - 1 →
    s.trajs[a]? = some (some pn) → s.trajs[b]? = some (some pn) → a = b
  l0 : s.locked0 = []

/-- equality of the fields `Core` does not talk about but the scheduler invariant needs -/
structure AuxEq (s s' : St) : Prop where
  n : s'.n = s.n
  toinitiate : s'.toinitiate = s.toinitiate
  workers : s'.workers = s.workers
  cworker : s'.cworker = s.cworker
  occ : s'.occ = s.occ
  ensEng : s'.ensEng = s.ensEng
  trajNum : s'.trajNum = s.trajNum
  cstep : s'.cstep = s.cstep
  tsteps : s'.tsteps = s.tsteps

theorem AuxEq.refl (s : St) : AuxEq s s := ⟨rfl, rfl, rfl, rfl, rfl, rfl, rfl, rfl, rfl⟩

theorem AuxEq.trans {a b c : St} (h1 : AuxEq a b) (h2 : AuxEq b c) : AuxEq a c :=
  ⟨h2.n.trans h1.n, h2.toinitiate.trans h1.toinitiate, h2.workers.trans h1.workers,
   h2.cworker.trans h1.cworker, h2.occ.trans h1.occ, h2.ensEng.trans h1.ensEng,
   h2.trajNum.trans h1.trajNum, h2.cstep.trans h1.cstep, h2.tsteps.trans h1.tsteps⟩

/-- equality of the fields `Core` talks about -/
structure CoreEq (s s' : St) : Prop where
  n : s'.n = s.n
  W : s'.W = s.W
  trajs : s'.trajs = s.trajs
  locks : s'.locks = s.locks
  locked0 : s'.locked0 = s.locked0

theorem CoreEq.refl (s : St) : CoreEq s s := ⟨rfl, rfl, rfl, rfl, rfl⟩

theorem CoreEq.trans {a b c : St} (h1 : CoreEq a b) (h2 : CoreEq b c) : CoreEq a c :=
  ⟨h2.n.trans h1.n, h2.W.trans h1.W, h2.trajs.trans h1.trajs, h2.locks.trans h1.locks,
   h2.locked0.trans h1.locked0⟩

theorem Core.congr {s s' : St} {H : List (Nat × Nat)} {tn : Nat} (h : Core s H tn)
    (e : CoreEq s s') : Core s' H tn := by
  obtain ⟨h1, h2, h3, h4, h5⟩ := e
  constructor
  · rw [h1]; exact h.n2
  · rw [h1, h2]; exact h.lenW
  · rw [h1, h3]; exact h.lenT
  · rw [h1, h4]; exact h.lenL
  · rw [h1, h4]; exact h.ghost
  · rw [h1, h4]; exact h.busy
  · exact h.nodup
  · rw [h1, h2, h3]; exact h.heldOk
  · rw [h1, h3]; exact h.live
  · rw [h1, h3]; exact h.inj
  · rw [h5]; exact h.l0

theorem Core.perm {s : St} {H H' : List (Nat × Nat)} {tn : Nat} (h : Core s H tn)
    (hp : H.Perm H') : Core s H' tn :=
  { h with
    busy := fun e he => (h.busy e he).trans (hp.map Prod.fst).mem_iff
    nodup := (hp.map Prod.fst).nodup_iff.mp h.nodup
    heldOk := fun e pn hm => h.heldOk e pn (hp.mem_iff.mpr hm) }

theorem Core.mono {s : St} {H : List (Nat × Nat)} {tn tn' : Nat} (h : Core s H tn)
    (hle : tn ≤ tn') : Core s H tn' :=
  { h with
    live := fun e he => by
      obtain ⟨pn, h1, h2⟩ := h.live e he
      exact ⟨pn, h1, by omega⟩ }

/-- an unlocked slot is a real (non-ghost) slot -/
theorem Core.unlocked_lt {s : St} {H : List (Nat × Nat)} {tn : Nat} (h : Core s H tn) (e : Nat)
    (he : s.locks[e]? = some false) : e < s.n - 1 := by
  have h1 := getElem?_lt_of_some _ _ _ he
  rw [h.lenL] at h1
  have h2 := h.ghost
  by_cases heq : e = s.n - 1
  · rw [heq, h2] at he; exact absurd he (by simp)
  · omega

/-- a held slot is locked -/
theorem Core.held_locked {s : St} {H : List (Nat × Nat)} {tn : Nat} (h : Core s H tn) (e pn : Nat)
    (hm : (e, pn) ∈ H) : s.locks[e]? = some true :=
  (h.busy e (h.heldOk e pn hm).1).mpr (List.mem_map.mpr ⟨(e, pn), hm, rfl⟩)

/-! ### swap of two idle slots -/

theorem swap_core {s : St} {H : List (Nat × Nat)} {tn : Nat} (h : Core s H tn) (i j : Nat)
    (hi : s.locks[i]? = some false) (hj : s.locks[j]? = some false) :
    Core (swap s i j) H tn := by
  have hi' := h.unlocked_lt i hi
  have hj' := h.unlocked_lt j hj
  have hiT : i < s.trajs.length := by rw [h.lenT]; omega
  have hjT : j < s.trajs.length := by rw [h.lenT]; omega
  have hiW : i < s.W.length := by rw [h.lenW]; omega
  have hjW : j < s.W.length := by rw [h.lenW]; omega
  have hT : ∀ k, (swap s i j).trajs[k]?
      = s.trajs[if k = j then i else if k = i then j else k]? := by
    intro k
    show (swapList s.trajs i j)[k]? = _
    rw [swapList_getElem? _ _ _ _ hiT hjT]
    split
    · rfl
    · split <;> rfl
  have hWk : ∀ k, k ≠ i → k ≠ j → (swap s i j).W[k]? = s.W[k]? := by
    intro k h1 h2
    show (swapList s.W i j)[k]? = _
    rw [swapList_getElem? _ _ _ _ hiW hjW, if_neg h2, if_neg h1]
  have hσ : ∀ k, k < s.n - 1 → (if k = j then i else if k = i then j else k) < s.n - 1 := by
    intro k hk
    split
    · exact hi'
    · split
      · exact hj'
      · exact hk
  constructor
  · exact h.n2
  · show (swapList s.W i j).length = s.n
    rw [swapList_length]; exact h.lenW
  · show (swapList s.trajs i j).length = s.n
    rw [swapList_length]; exact h.lenT
  · exact h.lenL
  · exact h.ghost
  · exact h.busy
  · exact h.nodup
  · intro e pn hm
    obtain ⟨h1, h2, h3⟩ := h.heldOk e pn hm
    have hl := h.held_locked e pn hm
    have hei : e ≠ i := by intro heq; rw [heq, hi] at hl; exact absurd hl (by simp)
    have hej : e ≠ j := by intro heq; rw [heq, hj] at hl; exact absurd hl (by simp)
    refine ⟨h1, ?_, ?_⟩
    · rw [hT e, if_neg hej, if_neg hei]; exact h2
    · rw [entryM_congr _ _ _ _ (hWk e hei hej)]; exact h3
  · intro e he
    rw [hT e]
    exact h.live _ (hσ e he)
  · intro a b pn ha hb h1 h2
    rw [hT a] at h1
    rw [hT b] at h2
    have := h.inj _ _ pn (hσ a ha) (hσ b hb) h1 h2
    split at this <;> split at this <;> (try split at this) <;> (try split at this) <;> omega
  · exact h.l0

/-! ### lock -/

theorem lock_core {s s' : St} {H : List (Nat × Nat)} {tn : Nat} (h : Core s H tn) (e pn : Nat)
    (he : s.locks[e]? = some false) (hp : s.trajs[e]? = some (some pn)) (hw : entryM s.W e e ≠ 0)
    (hn : s'.n = s.n) (hW : s'.W = s.W) (hT : s'.trajs = s.trajs)
    (hL : s'.locks = s.locks.set e true) (h0 : s'.locked0 = s.locked0) :
    Core s' ((e, pn) :: H) tn := by
  have he' := h.unlocked_lt e he
  have heL : e < s.locks.length := by rw [h.lenL]; omega
  have hnot : e ∉ H.map Prod.fst := by
    intro hm
    have := (h.busy e he').mpr hm
    rw [he] at this; exact absurd this (by simp)
  constructor
  · rw [hn]; exact h.n2
  · rw [hn, hW]; exact h.lenW
  · rw [hn, hT]; exact h.lenT
  · rw [hn, hL, List.length_set]; exact h.lenL
  · rw [hn, hL, List.getElem?_set_ne (by omega)]; exact h.ghost
  · intro x hx
    rw [hn] at hx
    rw [hL]
    by_cases hxe : x = e
    · subst hxe
      rw [List.getElem?_set_self heL]
      simp
    · rw [List.getElem?_set_ne (fun h => hxe h.symm), h.busy x hx]
      simp [hxe]
  · simp only [List.map_cons, List.nodup_cons]
    exact ⟨hnot, h.nodup⟩
  · intro x q hm
    rw [hn, hW, hT]
    rcases List.mem_cons.mp hm with hm | hm
    · obtain ⟨rfl, rfl⟩ := Prod.mk.inj hm
      exact ⟨he', hp, hw⟩
    · exact h.heldOk x q hm
  · rw [hn, hT]; exact h.live
  · rw [hn, hT]; exact h.inj
  · rw [h0]; exact h.l0

/-! ### unlock with a (new or unchanged) path: `add_traj` -/

theorem unlock_core {s s' : St} {H : List (Nat × Nat)} {tn tn' : Nat} (e pnOld pn : Nat) (v : List Rat)
    (h : Core s ((e, pnOld) :: H) tn)
    (hv : v.getD e 0 ≠ 0)
    (hfresh : ∀ b, b < s.n - 1 → b ≠ e → s.trajs[b]? ≠ some (some pn))
    (hpn : pn < tn') (hle : tn ≤ tn')
    (hn : s'.n = s.n) (hW : s'.W = s.W.set e v) (hT : s'.trajs = s.trajs.set e (some pn))
    (hL : s'.locks = s.locks.set e false) (h0 : s'.locked0 = s.locked0) :
    Core s' H tn' := by
  have he' : e < s.n - 1 := (h.heldOk e pnOld (List.mem_cons_self ..)).1
  have heL : e < s.locks.length := by rw [h.lenL]; omega
  have heT : e < s.trajs.length := by rw [h.lenT]; omega
  have heW : e < s.W.length := by rw [h.lenW]; omega
  have hnd := h.nodup
  simp only [List.map_cons, List.nodup_cons] at hnd
  constructor
  · rw [hn]; exact h.n2
  · rw [hn, hW, List.length_set]; exact h.lenW
  · rw [hn, hT, List.length_set]; exact h.lenT
  · rw [hn, hL, List.length_set]; exact h.lenL
  · rw [hn, hL, List.getElem?_set_ne (by omega)]; exact h.ghost
  · intro x hx
    rw [hn] at hx
    rw [hL]
    by_cases hxe : x = e
    · subst hxe
      rw [List.getElem?_set_self heL]
      simp only [Option.some.injEq, Bool.false_eq_true, false_iff]
      exact hnd.1
    · rw [List.getElem?_set_ne (fun h => hxe h.symm), h.busy x hx]
      simp [hxe]
  · exact hnd.2
  · intro x q hm
    have hxe : x ≠ e := by
      intro heq; subst heq
      exact hnd.1 (List.mem_map.mpr ⟨(x, q), hm, rfl⟩)
    obtain ⟨h1, h2, h3⟩ := h.heldOk x q (List.mem_cons_of_mem _ hm)
    rw [hn, hW, hT]
    refine ⟨h1, ?_, ?_⟩
    · rw [List.getElem?_set_ne (fun h => hxe h.symm)]; exact h2
    · rw [entryM_congr _ _ _ _ (List.getElem?_set_ne (fun h => hxe h.symm))]; exact h3
  · intro x hx
    rw [hn] at hx
    rw [hT]
    by_cases hxe : x = e
    · subst hxe
      exact ⟨pn, List.getElem?_set_self heT, hpn⟩
    · rw [List.getElem?_set_ne (fun h => hxe h.symm)]
      obtain ⟨q, h1, h2⟩ := h.live x hx
      exact ⟨q, h1, by omega⟩
  · intro a b q ha hb h1 h2
    rw [hn] at ha hb
    rw [hT] at h1 h2
    by_cases hae : a = e
    · by_cases hbe : b = e
      · rw [hae, hbe]
      · exfalso
        subst hae
        rw [List.getElem?_set_self heT] at h1
        rw [List.getElem?_set_ne (fun h => hbe h.symm)] at h2
        have : q = pn := by simpa using h1.symm
        subst this
        exact hfresh b hb hbe h2
    · by_cases hbe : b = e
      · exfalso
        subst hbe
        rw [List.getElem?_set_self heT] at h2
        rw [List.getElem?_set_ne (fun h => hae h.symm)] at h1
        have : q = pn := by simpa using h2.symm
        subst this
        exact hfresh a ha hae h1
      · rw [List.getElem?_set_ne (fun h => hae h.symm)] at h1
        rw [List.getElem?_set_ne (fun h => hbe h.symm)] at h2
        exact h.inj a b q ha hb h1 h2
  · rw [h0]; exact h.l0

end Infretis.Repex
