import Infretis.Lemmas.RepexC03Perm
/-!
# C03 — the slot / lock invariant `Core` of the replica-exchange state and its preservation

`Core s H tn`: in state `s` exactly the slots listed in `H : List (slot × path number)` (plus the
ghost) are locked, each listed slot holds the listed path with a non-zero diagonal weight, every
non-ghost slot holds a path number `< tn`, and distinct slots hold distinct paths.
Preservation is proved per operation: `swap` of idle slots, `lock`, `add_traj` (unlock),
`pick` (incl. the zero swap), `sort_trajstate`, `treat_output`.
-/
namespace Infretis.Repex
open Infretis.Perm

/-! ### list helpers -/

theorem swapList_length {α : Type} (l : List α) (i j : Nat) : (swapList l i j).length = l.length := by
  unfold swapList
  split <;> simp

theorem swapList_getElem? {α : Type} (l : List α) (i j k : Nat) (hi : i < l.length) (hj : j < l.length) :
    (swapList l i j)[k]? = if k = j then l[i]? else if k = i then l[j]? else l[k]? := by
  unfold swapList
  rw [List.getElem?_eq_getElem hi, List.getElem?_eq_getElem hj]
  simp only
  rw [List.getElem?_set]
  by_cases hkj : k = j
  · subst hkj; simp [hj]
  · rw [if_neg (fun h => hkj h.symm), if_neg hkj, List.getElem?_set]
    by_cases hki : k = i
    · subst hki; simp [hi]
    · rw [if_neg (fun h => hki h.symm), if_neg hki]

theorem entryM_eq_entry (P : Mat) (i j : Nat) : entryM P i j = entry P i j := rfl

theorem entryM_congr (W W' : Mat) (i j : Nat) (h : W'[i]? = W[i]?) : entryM W' i j = entryM W i j := by
  simp only [entryM, List.getD_eq_getElem?_getD, h]

theorem col_getD (P : Mat) (i j : Nat) :
    (P.map (fun r => r.getD j 0)).getD i 0 = entryM P i j := by
  unfold entryM
  rw [List.getD_eq_getElem?_getD, List.getD_eq_getElem?_getD (l := P), List.getElem?_map]
  cases P[i]? <;> simp

theorem getElem?_lt_of_some {α : Type} (l : List α) (i : Nat) (a : α) (h : l[i]? = some a) :
    i < l.length := by
  rcases Nat.lt_or_ge i l.length with h' | h'
  · exact h'
  · rw [List.getElem?_eq_none h'] at h; exact absurd h (by simp)

/-! ### the invariant -/

/-- slot of a picked ensemble: `ens_num + offset` -/
def slotOf (p : Picked) : Nat := (p.ens + 1).toNat

/-- what a job holds: (slot, path number) per picked ensemble -/
def heldJob (j : Job) : List (Nat × Nat) := j.picked.map (fun p => (slotOf p, p.pn))

/-- everything held by the jobs in flight -/
def held (jobs : List Job) : List (Nat × Nat) := jobs.flatMap heldJob

structure Core (s : St) (H : List (Nat × Nat)) (tn : Nat) : Prop where
  n2 : 2 ≤ s.n
  lenW : s.W.length = s.n
  lenT : s.trajs.length = s.n
  lenL : s.locks.length = s.n
  ghost : s.locks[s.n - 1]? = some true
  busy : ∀ e, e < s.n - 1 → (s.locks[e]? = some true ↔ e ∈ H.map Prod.fst)
  nodup : (H.map Prod.fst).Nodup
  heldOk : ∀ e pn, (e, pn) ∈ H → e < s.n - 1 ∧ s.trajs[e]? = some (some pn) ∧ entryM s.W e e ≠ 0
  live : ∀ e, e < s.n - 1 → ∃ pn, s.trajs[e]? = some (some pn) ∧ pn < tn
  inj : ∀ a b pn, a < s.n - 1 → b < s.n - 1 →
    s.trajs[a]? = some (some pn) → s.trajs[b]? = some (some pn) → a = b
  l0 : s.locked0 = []

/-- equality of the fields `Core` does not talk about but the scheduler invariant needs -/
structure AuxEq (s s' : St) : Prop where
  n : s'.n = s.n
  toinitiate : s'.toinitiate = s.toinitiate
  workers : s'.workers = s.workers
  cworker : s'.cworker = s.cworker
  occ : s'.occ = s.occ
  ensEng : s'.ensEng = s.ensEng
  trajNum : s'.trajNum = s.trajNum
  cstep : s'.cstep = s.cstep
  tsteps : s'.tsteps = s.tsteps

theorem AuxEq.refl (s : St) : AuxEq s s := ⟨rfl, rfl, rfl, rfl, rfl, rfl, rfl, rfl, rfl⟩

theorem AuxEq.trans {a b c : St} (h1 : AuxEq a b) (h2 : AuxEq b c) : AuxEq a c :=
  ⟨h2.n.trans h1.n, h2.toinitiate.trans h1.toinitiate, h2.workers.trans h1.workers,
   h2.cworker.trans h1.cworker, h2.occ.trans h1.occ, h2.ensEng.trans h1.ensEng,
   h2.trajNum.trans h1.trajNum, h2.cstep.trans h1.cstep, h2.tsteps.trans h1.tsteps⟩

/-- equality of the fields `Core` talks about -/
structure CoreEq (s s' : St) : Prop where
  n : s'.n = s.n
  W : s'.W = s.W
  trajs : s'.trajs = s.trajs
  locks : s'.locks = s.locks
  locked0 : s'.locked0 = s.locked0

theorem CoreEq.refl (s : St) : CoreEq s s := ⟨rfl, rfl, rfl, rfl, rfl⟩

theorem CoreEq.trans {a b c : St} (h1 : CoreEq a b) (h2 : CoreEq b c) : CoreEq a c :=
  ⟨h2.n.trans h1.n, h2.W.trans h1.W, h2.trajs.trans h1.trajs, h2.locks.trans h1.locks,
   h2.locked0.trans h1.locked0⟩

theorem Core.congr {s s' : St} {H : List (Nat × Nat)} {tn : Nat} (h : Core s H tn)
    (e : CoreEq s s') : Core s' H tn := by
  obtain ⟨h1, h2, h3, h4, h5⟩ := e
  constructor
  · rw [h1]; exact h.n2
  · rw [h1, h2]; exact h.lenW
  · rw [h1, h3]; exact h.lenT
  · rw [h1, h4]; exact h.lenL
  · rw [h1, h4]; exact h.ghost
  · rw [h1, h4]; exact h.busy
  · exact h.nodup
  · rw [h1, h2, h3]; exact h.heldOk
  · rw [h1, h3]; exact h.live
  · rw [h1, h3]; exact h.inj
  · rw [h5]; exact h.l0

theorem Core.perm {s : St} {H H' : List (Nat × Nat)} {tn : Nat} (h : Core s H tn)
    (hp : H.Perm H') : Core s H' tn :=
  { h with
    busy := fun e he => (h.busy e he).trans (hp.map Prod.fst).mem_iff
    nodup := (hp.map Prod.fst).nodup_iff.mp h.nodup
    heldOk := fun e pn hm => h.heldOk e pn (hp.mem_iff.mpr hm) }

theorem Core.mono {s : St} {H : List (Nat × Nat)} {tn tn' : Nat} (h : Core s H tn)
    (hle : tn ≤ tn') : Core s H tn' :=
  { h with
    live := fun e he => by
      obtain ⟨pn, h1, h2⟩ := h.live e he
      exact ⟨pn, h1, by omega⟩ }

/-- an unlocked slot is a real (non-ghost) slot -/
theorem Core.unlocked_lt {s : St} {H : List (Nat × Nat)} {tn : Nat} (h : Core s H tn) (e : Nat)
    (he : s.locks[e]? = some false) : e < s.n - 1 := by
  have h1 := getElem?_lt_of_some _ _ _ he
  rw [h.lenL] at h1
  have h2 := h.ghost
  by_cases heq : e = s.n - 1
  · rw [heq, h2] at he; exact absurd he (by simp)
  · omega

/-- a held slot is locked -/
theorem Core.held_locked {s : St} {H : List (Nat × Nat)} {tn : Nat} (h : Core s H tn) (e pn : Nat)
    (hm : (e, pn) ∈ H) : s.locks[e]? = some true :=
  (h.busy e (h.heldOk e pn hm).1).mpr (List.mem_map.mpr ⟨(e, pn), hm, rfl⟩)

/-! ### swap of two idle slots -/

theorem swap_core {s : St} {H : List (Nat × Nat)} {tn : Nat} (h : Core s H tn) (i j : Nat)
    (hi : s.locks[i]? = some false) (hj : s.locks[j]? = some false) :
    Core (swap s i j) H tn := by
  have hi' := h.unlocked_lt i hi
  have hj' := h.unlocked_lt j hj
  have hiT : i < s.trajs.length := by rw [h.lenT]; omega
  have hjT : j < s.trajs.length := by rw [h.lenT]; omega
  have hiW : i < s.W.length := by rw [h.lenW]; omega
  have hjW : j < s.W.length := by rw [h.lenW]; omega
  have hT : ∀ k, (swap s i j).trajs[k]?
      = s.trajs[if k = j then i else if k = i then j else k]? := by
    intro k
    show (swapList s.trajs i j)[k]? = _
    rw [swapList_getElem? _ _ _ _ hiT hjT]
    split
    · rfl
    · split <;> rfl
  have hWk : ∀ k, k ≠ i → k ≠ j → (swap s i j).W[k]? = s.W[k]? := by
    intro k h1 h2
    show (swapList s.W i j)[k]? = _
    rw [swapList_getElem? _ _ _ _ hiW hjW, if_neg h2, if_neg h1]
  have hσ : ∀ k, k < s.n - 1 → (if k = j then i else if k = i then j else k) < s.n - 1 := by
    intro k hk
    split
    · exact hi'
    · split
      · exact hj'
      · exact hk
  constructor
  · exact h.n2
  · show (swapList s.W i j).length = s.n
    rw [swapList_length]; exact h.lenW
  · show (swapList s.trajs i j).length = s.n
    rw [swapList_length]; exact h.lenT
  · exact h.lenL
  · exact h.ghost
  · exact h.busy
  · exact h.nodup
  · intro e pn hm
    obtain ⟨h1, h2, h3⟩ := h.heldOk e pn hm
    have hl := h.held_locked e pn hm
    have hei : e ≠ i := by intro heq; rw [heq, hi] at hl; exact absurd hl (by simp)
    have hej : e ≠ j := by intro heq; rw [heq, hj] at hl; exact absurd hl (by simp)
    refine ⟨h1, ?_, ?_⟩
    · rw [hT e, if_neg hej, if_neg hei]; exact h2
    · rw [entryM_congr _ _ _ _ (hWk e hei hej)]; exact h3
  · intro e he
    rw [hT e]
    exact h.live _ (hσ e he)
  · intro a b pn ha hb h1 h2
    rw [hT a] at h1
    rw [hT b] at h2
    have := h.inj _ _ pn (hσ a ha) (hσ b hb) h1 h2
    split at this <;> split at this <;> (try split at this) <;> (try split at this) <;> omega
  · exact h.l0

/-! ### lock -/

theorem lock_core {s s' : St} {H : List (Nat × Nat)} {tn : Nat} (h : Core s H tn) (e pn : Nat)
    (he : s.locks[e]? = some false) (hp : s.trajs[e]? = some (some pn)) (hw : entryM s.W e e ≠ 0)
    (hn : s'.n = s.n) (hW : s'.W = s.W) (hT : s'.trajs = s.trajs)
    (hL : s'.locks = s.locks.set e true) (h0 : s'.locked0 = s.locked0) :
    Core s' ((e, pn) :: H) tn := by
  have he' := h.unlocked_lt e he
  have heL : e < s.locks.length := by rw [h.lenL]; omega
  have hnot : e ∉ H.map Prod.fst := by
    intro hm
    have := (h.busy e he').mpr hm
    rw [he] at this; exact absurd this (by simp)
  constructor
  · rw [hn]; exact h.n2
  · rw [hn, hW]; exact h.lenW
  · rw [hn, hT]; exact h.lenT
  · rw [hn, hL, List.length_set]; exact h.lenL
  · rw [hn, hL, List.getElem?_set_ne (by omega)]; exact h.ghost
  · intro x hx
    rw [hn] at hx
    rw [hL]
    by_cases hxe : x = e
    · subst hxe
      rw [List.getElem?_set_self heL]
      simp
    · rw [List.getElem?_set_ne (fun h => hxe h.symm), h.busy x hx]
      simp [hxe]
  · simp only [List.map_cons, List.nodup_cons]
    exact ⟨hnot, h.nodup⟩
  · intro x q hm
    rw [hn, hW, hT]
    rcases List.mem_cons.mp hm with hm | hm
    · obtain ⟨rfl, rfl⟩ := Prod.mk.inj hm
      exact ⟨he', hp, hw⟩
    · exact h.heldOk x q hm
  · rw [hn, hT]; exact h.live
  · rw [hn, hT]; exact h.inj
  · rw [h0]; exact h.l0

/-! ### unlock with a (new or unchanged) path: `add_traj` -/

theorem unlock_core {s s' : St} {H : List (Nat × Nat)} {tn tn' : Nat} (e pnOld pn : Nat) (v : List Rat)
    (h : Core s ((e, pnOld) :: H) tn)
    (hv : v.getD e 0 ≠ 0)
    (hfresh : ∀ b, b < s.n - 1 → b ≠ e → s.trajs[b]? ≠ some (some pn))
    (hpn : pn < tn') (hle : tn ≤ tn')
    (hn : s'.n = s.n) (hW : s'.W = s.W.set e v) (hT : s'.trajs = s.trajs.set e (some pn))
    (hL : s'.locks = s.locks.set e false) (h0 : s'.locked0 = s.locked0) :
    Core s' H tn' := by
  have he' : e < s.n - 1 := (h.heldOk e pnOld (List.mem_cons_self ..)).1
  have heL : e < s.locks.length := by rw [h.lenL]; omega
  have heT : e < s.trajs.length := by rw [h.lenT]; omega
  have heW : e < s.W.length := by rw [h.lenW]; omega
  have hnd := h.nodup
  simp only [List.map_cons, List.nodup_cons] at hnd
  constructor
  · rw [hn]; exact h.n2
  · rw [hn, hW, List.length_set]; exact h.lenW
  · rw [hn, hT, List.length_set]; exact h.lenT
  · rw [hn, hL, List.length_set]; exact h.lenL
  · rw [hn, hL, List.getElem?_set_ne (by omega)]; exact h.ghost
  · intro x hx
    rw [hn] at hx
    rw [hL]
    by_cases hxe : x = e
    · subst hxe
      rw [List.getElem?_set_self heL]
      simp only [Option.some.injEq, Bool.false_eq_true, false_iff]
      exact hnd.1
    · rw [List.getElem?_set_ne (fun h => hxe h.symm), h.busy x hx]
      simp [hxe]
  · exact hnd.2
  · intro x q hm
    have hxe : x ≠ e := by
      intro heq; subst heq
      exact hnd.1 (List.mem_map.mpr ⟨(x, q), hm, rfl⟩)
    obtain ⟨h1, h2, h3⟩ := h.heldOk x q (List.mem_cons_of_mem _ hm)
    rw [hn, hW, hT]
    refine ⟨h1, ?_, ?_⟩
    · rw [List.getElem?_set_ne (fun h => hxe h.symm)]; exact h2
    · rw [entryM_congr _ _ _ _ (List.getElem?_set_ne (fun h => hxe h.symm))]; exact h3
  · intro x hx
    rw [hn] at hx
    rw [hT]
    by_cases hxe : x = e
    · subst hxe
      exact ⟨pn, List.getElem?_set_self heT, hpn⟩
    · rw [List.getElem?_set_ne (fun h => hxe h.symm)]
      obtain ⟨q, h1, h2⟩ := h.live x hx
      exact ⟨q, h1, by omega⟩
  · intro a b q ha hb h1 h2
    rw [hn] at ha hb
    rw [hT] at h1 h2
    by_cases hae : a = e
    · by_cases hbe : b = e
      · rw [hae, hbe]
      · exfalso
        subst hae
        rw [List.getElem?_set_self heT] at h1
        rw [List.getElem?_set_ne (fun h => hbe h.symm)] at h2
        have : q = pn := by simpa using h1.symm
        subst this
        exact hfresh b hb hbe h2
    · by_cases hbe : b = e
      · exfalso
        subst hbe
        rw [List.getElem?_set_self heT] at h2
        rw [List.getElem?_set_ne (fun h => hae h.symm)] at h1
        have : q = pn := by simpa using h2.symm
        subst this
        exact hfresh a ha hae h1
      · rw [List.getElem?_set_ne (fun h => hae h.symm)] at h1
        rw [List.getElem?_set_ne (fun h => hbe h.symm)] at h2
        exact h.inj a b q ha hb h1 h2
  · rw [h0]; exact h.l0

/-! ### one pick: choose `(t, e)` with positive probability, swap, lock `e` -/

theorem prob_pos {s : St} {H : List (Nat × Nat)} {tn : Nat} (h : Core s H tn) (t e : Nat)
    (hpos : 0 < entryM (prob s) t e) :
    s.locks[t]? = some false ∧ s.locks[e]? = some false ∧ entryM s.W t e ≠ 0 := by
  have hW : s.W.length = s.locks.length := by rw [h.lenW, h.lenL]
  exact ⟨probMatrix_pos_unlocked_row s.W s.locks hW t e hpos,
    probMatrix_pos_unlocked_col s.W s.locks hW t e hpos,
    probMatrix_pos_entry_ne_zero s.W s.locks hW t e hpos⟩

theorem AuxEq.swap (s : St) (i j : Nat) : AuxEq s (swap s i j) := ⟨rfl, rfl, rfl, rfl, rfl, rfl, rfl, rfl, rfl⟩

theorem lock_ok {s s' : St} {e : Nat} (h : lock s e = .ok s') :
    s.locks[e]? = some false ∧ s' = { s with locks := s.locks.set e true } := by
  unfold lock at h
  split at h
  · rename_i hl
    exact ⟨hl, by injection h with h; exact h.symm⟩
  · exact absurd h (by simp)
  · exact absurd h (by simp)

theorem unlock_ok {s s' : St} {e : Nat} (h : unlock s e = .ok s') :
    s.locks[e]? = some true ∧ s' = { s with locks := s.locks.set e false } := by
  unfold unlock at h
  split at h
  · rename_i hl
    exact ⟨hl, by injection h with h; exact h.symm⟩
  · exact absurd h (by simp)
  · exact absurd h (by simp)

/-- the elementary step of `pick`: a positive-probability `(t, e)`, `swap(t, e)`, `lock(e)` -/
theorem lockStep_core {s s2 : St} {H : List (Nat × Nat)} {tn : Nat} (h : Core s H tn) (t e : Nat)
    (hpos : 0 < entryM (prob s) t e) (hl : lock (swap s t e) e = .ok s2) :
    ∃ pn, s2.trajs.getD e none = some pn ∧ Core s2 ((e, pn) :: H) tn ∧ AuxEq s s2 ∧
      s.locks[t]? = some false ∧ s.locks[e]? = some false ∧ s2.locks = s.locks.set e true := by
  obtain ⟨ht, he, hw⟩ := prob_pos h t e hpos
  have hc := swap_core h t e ht he
  obtain ⟨_, hs2⟩ := lock_ok hl
  have ht' := h.unlocked_lt t ht
  have he' := h.unlocked_lt e he
  have htT : t < s.trajs.length := by rw [h.lenT]; omega
  have heT : e < s.trajs.length := by rw [h.lenT]; omega
  have htW : t < s.W.length := by rw [h.lenW]; omega
  have heW : e < s.W.length := by rw [h.lenW]; omega
  obtain ⟨pn, hpn, _⟩ := h.live t ht'
  have hTe : (swap s t e).trajs[e]? = some (some pn) := by
    show (swapList s.trajs t e)[e]? = _
    rw [swapList_getElem? _ _ _ _ htT heT, if_pos rfl]; exact hpn
  have hWe : (swap s t e).W[e]? = s.W[t]? := by
    show (swapList s.W t e)[e]? = _
    rw [swapList_getElem? _ _ _ _ htW heW, if_pos rfl]
  have hwe : entryM (swap s t e).W e e ≠ 0 := by
    have : entryM (swap s t e).W e e = entryM s.W t e := by
      simp only [entryM, List.getD_eq_getElem?_getD, hWe]
    rw [this]; exact hw
  subst hs2
  refine ⟨pn, ?_, ?_, ⟨rfl, rfl, rfl, rfl, rfl, rfl, rfl, rfl, rfl⟩, ht, he, rfl⟩
  · show (swap s t e).trajs.getD e none = some pn
    rw [List.getD_eq_getElem?_getD, hTe]; rfl
  · exact lock_core hc e pn he hTe hwe rfl rfl rfl rfl rfl

/-- (ens_num, path) pairs as the model's `pick` returns them -/
def pairsOf (L : List (Int × Nat)) : List (Int × Option Nat) := L.map (fun x => (x.1, some x.2))

/-- (slot, path) entries of a list of (ens_num, path) -/
def slotsOf (L : List (Int × Nat)) : List (Nat × Nat) := L.map (fun x => ((x.1 + 1).toNat, x.2))

/-- **`pick()` without the bookkeeping.**  The result holds one ensemble, or exactly `[0-]` and
    `[0+]`; the latter only if both were idle before the pick. -/
theorem pickCore_core {s s' : St} {H : List (Nat × Nat)} {tn : Nat} (h : Core s H tn) (o : PickOutcome)
    (pairs : List (Int × Option Nat)) (ds : List Draw) (hp : pickCore s o = .ok (s', pairs, ds)) :
    ∃ L : List (Int × Nat), pairs = pairsOf L ∧ Core s' (slotsOf L ++ H) tn ∧ AuxEq s s' ∧
      (L.length = 1 ∨ (L.map Prod.fst = [-1, 0] ∧
        s.locks[0]? = some false ∧ s.locks[1]? = some false)) ∧ (∀ x ∈ L, -1 ≤ x.1) := by
  unfold pickCore at hp
  simp only [] at hp
  split at hp
  · exact absurd hp (by simp)
  rename_i hpos
  have hpos : 0 < entryM (prob s) o.t o.e := Classical.not_not.mp hpos
  split at hp
  · exact absurd hp (by simp)
  rename_i s2 hl
  obtain ⟨pn, hpn, hc2, ha2, hlt, hle, hL2⟩ := lockStep_core h o.t o.e hpos hl
  have he' := h.unlocked_lt o.e hle
  split at hp
  · -- zero swap
    rename_i hzs
    simp only [Bool.and_eq_true, Bool.or_eq_true] at hzs
    by_cases he1 : (o.e == off) = true
    · have he1' : o.e = 1 := by simpa [off] using he1
      simp only [he1, ↓reduceIte] at hp
      split at hp
      · exact absurd hp (by simp)
      rename_i hpos2
      rw [col_getD] at hpos2
      have hpos2 : 0 < entryM (prob s2) o.partner (off - 1) := Classical.not_not.mp hpos2
      split at hp
      · exact absurd hp (by simp)
      rename_i s4 hl4
      obtain ⟨pn2, hpn2, hc4, ha4, _, hlo, _⟩ := lockStep_core hc2 _ _ hpos2 hl4
      simp only [Except.ok.injEq, Prod.mk.injEq] at hp
      obtain ⟨rfl, hpairs, _⟩ := hp
      rw [hpn, hpn2] at hpairs
      refine ⟨[(-1, pn2), (0, pn)], hpairs.symm, ?_, ha2.trans ha4, Or.inr ⟨rfl, ?_, ?_⟩, by simp⟩
      · have : slotsOf [((-1 : Int), pn2), (0, pn)] = [(off - 1, pn2), (o.e, pn)] := by
          simp [slotsOf, off, he1']
        rw [this]
        exact hc4
      · rw [hL2, he1', List.getElem?_set_ne (by decide)] at hlo
        simpa [off] using hlo
      · rw [← he1']; exact hle
    · have he0 : o.e = 0 := by
        rcases hzs.1 with hz | hz
        · exact absurd hz.1 he1
        · simpa [off] using hz.1
      have he1f : (o.e == off) = false := by simpa using he1
      simp only [he1f, Bool.false_eq_true, ↓reduceIte] at hp
      split at hp
      · exact absurd hp (by simp)
      rename_i hpos2
      rw [col_getD] at hpos2
      have hpos2 : 0 < entryM (prob s2) o.partner off := Classical.not_not.mp hpos2
      split at hp
      · exact absurd hp (by simp)
      rename_i s4 hl4
      obtain ⟨pn2, hpn2, hc4, ha4, _, hlo, _⟩ := lockStep_core hc2 _ _ hpos2 hl4
      simp only [Except.ok.injEq, Prod.mk.injEq] at hp
      obtain ⟨rfl, hpairs, _⟩ := hp
      rw [hpn, hpn2] at hpairs
      refine ⟨[(-1, pn), (0, pn2)], hpairs.symm, ?_, ha2.trans ha4, Or.inr ⟨rfl, ?_, ?_⟩, by simp⟩
      · have : slotsOf [((-1 : Int), pn), (0, pn2)] = [(o.e, pn), (off, pn2)] := by
          simp [slotsOf, off, he0]
        rw [this]
        exact hc4.perm (List.Perm.swap _ _ _)
      · rw [← he0]; exact hle
      · rw [hL2, he0, List.getElem?_set_ne (by decide)] at hlo
        simpa [off] using hlo
  · simp only [Except.ok.injEq, Prod.mk.injEq] at hp
    obtain ⟨rfl, hpairs, _⟩ := hp
    rw [hpn] at hpairs
    refine ⟨[((o.e : Int) - (off : Int), pn)], hpairs.symm, ?_, ha2, Or.inl rfl,
      by simp [off]⟩
    have : slotsOf [((o.e : Int) - (off : Int), pn)] = [(o.e, pn)] := by
      simp [slotsOf, off]
    rw [this]
    exact hc2

/-! ### `mkPicked`, `pick`, `pick_lock` -/

/-- (slot, path) entries of a list of picked ensembles -/
def heldPicked (ps : List Picked) : List (Nat × Nat) := ps.map (fun p => (slotOf p, p.pn))

theorem mkPicked_go_spec (child : Stream) : ∀ (L : List (Int × Nat)) (j : Nat) (ps : List Picked),
    mkPicked.go child j (pairsOf L) = .ok ps →
      ps.map (fun p => (p.ens, p.pn)) = L ∧ ∀ p ∈ ps, p.engIdx = [] := by
  intro L
  induction L with
  | nil =>
    intro j ps h
    simp only [pairsOf, List.map_nil, mkPicked.go, Except.ok.injEq] at h
    subst h
    simp
  | cons x L ih =>
    intro j ps h
    obtain ⟨e, pn⟩ := x
    simp only [pairsOf, List.map_cons, mkPicked.go] at h
    split at h
    · exact absurd h (by simp)
    · rename_i ps0 h0
      have := ih (j + 1) ps0 h0
      simp only [Except.ok.injEq] at h
      subst h
      refine ⟨by simp [this.1], ?_⟩
      intro p hp
      rcases List.mem_cons.mp hp with hp | hp
      · subst hp; rfl
      · exact this.2 p hp

theorem heldPicked_of_map (ps : List Picked) (L : List (Int × Nat))
    (h : ps.map (fun p => (p.ens, p.pn)) = L) : heldPicked ps = slotsOf L := by
  subst h
  simp [heldPicked, slotsOf, slotOf]

/-- the shape of a job and the zero-swap precondition, as a predicate on the picked list and the
    locks *before* the pick -/
def PickShape (locksBefore : List Bool) (ps : List Picked) : Prop :=
  ps.length = 1 ∨ (ps.map (·.ens) = [-1, 0] ∧
    locksBefore[0]? = some false ∧ locksBefore[1]? = some false)

theorem pick_core {s s' : St} {H : List (Nat × Nat)} {tn : Nat} (h : Core s H tn) (o : PickOutcome)
    (ps : List Picked) (ds : List Draw) (hp : pick s o = .ok (s', ps, ds)) :
    Core s' (heldPicked ps ++ H) tn ∧ AuxEq s s' ∧ (∀ p ∈ ps, p.engIdx = []) ∧
      PickShape s.locks ps ∧ (∀ p ∈ ps, -1 ≤ p.ens) := by
  unfold pick at hp
  split at hp
  · exact absurd hp (by simp)
  rename_i s1 pairs ds1 hpc
  obtain ⟨L, rfl, hc, ha, hshape, hge⟩ := pickCore_core h o pairs ds1 hpc
  split at hp
  · exact absurd hp (by simp)
  rename_i ps1 hmk
  unfold mkPicked at hmk
  obtain ⟨hmap, heng⟩ := mkPicked_go_spec _ L 0 ps1 hmk
  simp only [Except.ok.injEq, Prod.mk.injEq] at hp
  obtain ⟨rfl, rfl, _⟩ := hp
  refine ⟨?_, ?_, heng, ?_, ?_⟩
  rotate_left 3
  · intro p hp
    exact hge (p.ens, p.pn) (by rw [← hmap]; exact List.mem_map.mpr ⟨p, hp, rfl⟩)
  · rw [heldPicked_of_map ps1 L hmap]
    exact hc.congr ⟨rfl, rfl, rfl, rfl, rfl⟩
  · exact ha.trans ⟨rfl, rfl, rfl, rfl, rfl, rfl, rfl, rfl, rfl⟩
  · have hlen : ps1.length = L.length := by rw [← hmap]; simp
    have hens : ps1.map (·.ens) = L.map Prod.fst := by rw [← hmap]; simp
    rcases hshape with h1 | h2
    · exact Or.inl (by rw [hlen]; exact h1)
    · exact Or.inr (by rw [hens]; exact h2)

theorem restoreStreamOnce_coreEq (s : St) (d : Nat) : CoreEq s (restoreStreamOnce s d) := by
  unfold restoreStreamOnce
  split <;> exact ⟨rfl, rfl, rfl, rfl, rfl⟩

theorem restoreStreamOnce_auxEq (s : St) (d : Nat) : AuxEq s (restoreStreamOnce s d) := by
  unfold restoreStreamOnce
  split <;> exact ⟨rfl, rfl, rfl, rfl, rfl, rfl, rfl, rfl, rfl⟩

/-- `pick_lock()` on a state without jobs recorded in a restart file is `pick()` -/
theorem pickLock_core {s s' : St} {H : List (Nat × Nat)} {tn : Nat} (h : Core s H tn) (o : PickOutcome)
    (d : Nat) (ps : List Picked) (ds : List Draw) (hp : pickLock s o d = .ok (s', ps, ds)) :
    Core s' (heldPicked ps ++ H) tn ∧ AuxEq s s' ∧ (∀ p ∈ ps, p.engIdx = []) ∧
      PickShape s.locks ps ∧ (∀ p ∈ ps, -1 ≤ p.ens) := by
  unfold pickLock at hp
  rw [h.l0] at hp
  simp only [] at hp
  have hc := h.congr (restoreStreamOnce_coreEq s d)
  obtain ⟨h1, h2, h3, h4, h5⟩ := pick_core hc o ps ds hp
  refine ⟨h1, (restoreStreamOnce_auxEq s d).trans h2, h3, ?_, h5⟩
  rw [(restoreStreamOnce_coreEq s d).locks] at h4
  exact h4

end Infretis.Repex
