import Infretis.Lemmas.RepexC03Core
/-!
# C03 — engine instances: `assign_engines` frees only the worker's own cells and claims only free ones
-/
namespace Infretis.Repex

/-- content of cell `i` of engine type `k` in `engine_occ` -/
def cell (occ : List (List Int)) (k i : Nat) : Option Int := (occ[k]?).bind (·[i]?)

theorem cell_freeEngines (occ : List (List Int)) (pin k i : Nat) :
    cell (freeEngines occ pin) k i = (cell occ k i).map (fun x => if x = (pin : Int) then -1 else x) := by
  unfold cell freeEngines
  rw [List.getElem?_map]
  cases occ[k]? with
  | none => rfl
  | some l => simp [List.getElem?_map]

theorem claim_spec {occ occ' : List (List Int)} {k pin i : Nat} (h : claim occ k pin = some (occ', i)) :
    cell occ' k i = some (pin : Int) ∧
      ∀ k' i' x, cell occ k' i' = some x → x ≠ -1 → cell occ' k' i' = some x := by
  unfold claim at h
  split at h
  · exact absurd h (by simp)
  rename_i l hl
  simp only [] at h
  split at h
  · rename_i hlt
    simp only [Option.some.injEq, Prod.mk.injEq] at h
    obtain ⟨rfl, rfl⟩ := h
    have hk := getElem?_lt_of_some _ _ _ hl
    constructor
    · unfold cell
      rw [List.getElem?_set_self hk]
      simp [List.getElem?_set_self hlt]
    · intro k' i' x hx hne
      unfold cell at hx ⊢
      by_cases hkk : k' = k
      · subst hkk
        rw [hl] at hx
        simp only [Option.bind_some] at hx
        rw [List.getElem?_set_self hk]
        simp only [Option.bind_some]
        by_cases hii : i' = l.findIdx (· == -1)
        · exfalso
          subst hii
          have := List.findIdx_getElem (w := hlt)
          rw [List.getElem?_eq_getElem hlt] at hx
          simp only [Option.some.injEq] at hx
          rw [hx] at this
          exact hne (by simpa using this)
        · rw [List.getElem?_set_ne (fun h => hii h.symm)]
          exact hx
      · rw [List.getElem?_set_ne (fun h => hkk h.symm)]
        exact hx
  · exact absurd h (by simp)

theorem assignGo_spec (pin : Nat) : ∀ (names : List Nat) (occ occ' : List (List Int))
    (out : List (Nat × Nat)), assignEngines.go pin occ names = (occ', out) →
    (∀ k i x, cell occ k i = some x → x ≠ -1 → cell occ' k i = some x) ∧
      ∀ ki ∈ out, cell occ' ki.1 ki.2 = some (pin : Int) := by
  intro names
  induction names with
  | nil =>
    intro occ occ' out h
    simp only [assignEngines.go, Prod.mk.injEq] at h
    obtain ⟨rfl, rfl⟩ := h
    exact ⟨fun _ _ _ hx _ => hx, by simp⟩
  | cons k rest ih =>
    intro occ occ' out h
    unfold assignEngines.go at h
    split at h
    · exact ih occ occ' out h
    · rename_i occ1 i hc
      obtain ⟨hc1, hc2⟩ := claim_spec hc
      generalize hgo : assignEngines.go pin occ1 rest = r at h
      obtain ⟨o2, out2⟩ := r
      simp only [Prod.mk.injEq] at h
      obtain ⟨rfl, rfl⟩ := h
      obtain ⟨ih1, ih2⟩ := ih occ1 o2 out2 hgo
      refine ⟨fun k' i' x hx hne => ih1 k' i' x (hc2 k' i' x hx hne) hne, ?_⟩
      intro ki hki
      rcases List.mem_cons.mp hki with hki | hki
      · subst hki
        exact ih1 k i _ hc1 (by omega)
      · exact ih2 ki hki

/-- **`assign_engines`**: cells of other workers are untouched, every returned instance now
    belongs to `pin` -/
theorem assignEngines_spec {occ occ' : List (List Int)} {names : List Nat} {pin : Nat}
    {idx : List (Nat × Nat)} (h : assignEngines occ names pin = .ok (occ', idx)) :
    (∀ k i x, cell occ k i = some x → x ≠ -1 → x ≠ (pin : Int) → cell occ' k i = some x) ∧
      ∀ ki ∈ idx, cell occ' ki.1 ki.2 = some (pin : Int) := by
  unfold assignEngines at h
  simp only [] at h
  generalize hgo : assignEngines.go pin (freeEngines occ pin) names = r at h
  obtain ⟨o1, out⟩ := r
  simp only [] at h
  split at h
  · exact absurd h (by simp)
  simp only [Except.ok.injEq, Prod.mk.injEq] at h
  obtain ⟨rfl, rfl⟩ := h
  obtain ⟨h1, h2⟩ := assignGo_spec pin names _ _ _ hgo
  refine ⟨?_, h2⟩
  intro k i x hx hne hpin
  apply h1 k i x _ hne
  rw [cell_freeEngines, hx]
  simp [hpin]

theorem lookup_mem {α β : Type} [BEq α] [LawfulBEq α] (l : List (α × β)) (k : α) (v : β)
    (h : l.lookup k = some v) : (k, v) ∈ l := by
  induction l with
  | nil => simp at h
  | cons x l ih =>
    obtain ⟨a, b⟩ := x
    rw [List.lookup_cons] at h
    split at h
    · rename_i hka
      have : k = a := by simpa using hka
      subst this
      simp only [Option.some.injEq] at h
      subst h
      exact List.mem_cons_self ..
    · exact List.mem_cons_of_mem _ (ih h)

end Infretis.Repex
