import Infretis.Lemmas.RepexC03AvailSys
import Infretis.Model.EngFactory
/-!
# C03 — `create_engines` builds what the engine-availability theorems assume (`EngInit`)
-/
namespace Infretis.Repex.Factory
open Infretis.Repex

/-! ### the counting loop -/

theorem lookup_map_bump (k k' : Nat) : ∀ (acc : List (Nat × Nat)),
    (acc.map (fun a => if a.1 == k then (a.1, a.2 + 1) else a)).lookup k'
      = if k' = k then (acc.lookup k).map (· + 1) else acc.lookup k' := by
  intro acc
  induction acc with
  | nil => simp
  | cons a acc ih =>
    obtain ⟨ka, ca⟩ := a
    simp only [List.map_cons]
    by_cases hka : ka = k
    · subst hka
      simp only [beq_self_eq_true, ↓reduceIte, List.lookup_cons]
      by_cases hk' : k' = ka
      · subst hk'; simp
      · have : (k' == ka) = false := by simpa using hk'
        simp only [this, if_neg hk']
        rw [ih, if_neg hk']
    · have hne : (ka == k) = false := by simpa using hka
      simp only [hne, Bool.false_eq_true, ↓reduceIte, List.lookup_cons]
      by_cases hk' : k' = k
      · subst hk'
        have h1 : (k' == ka) = false := by simpa using fun h => hka h.symm
        simp only [h1, ↓reduceIte]
        rw [ih, if_pos rfl]
      · rw [if_neg hk']
        by_cases h2 : k' = ka
        · subst h2; simp
        · have h3 : (k' == ka) = false := by simpa using h2
          simp only [h3]
          rw [ih, if_neg hk']

theorem lookup_none_of_not_any (acc : List (Nat × Nat)) (k : Nat)
    (h : ¬ (acc.any fun a => a.1 == k) = true) : acc.lookup k = none := by
  induction acc with
  | nil => rfl
  | cons a acc ih =>
    obtain ⟨ka, ca⟩ := a
    simp only [List.any_cons, Bool.or_eq_true, not_or] at h
    have h1 : (k == ka) = false := by
      have := h.1
      simp only [beq_iff_eq] at this
      simpa using fun hh => this hh.symm
    simp only [List.lookup_cons, h1]
    exact ih h.2

theorem lookup_some_of_any (acc : List (Nat × Nat)) (k : Nat)
    (h : (acc.any fun a => a.1 == k) = true) : ∃ c, acc.lookup k = some c := by
  induction acc with
  | nil => simp at h
  | cons a acc ih =>
    obtain ⟨ka, ca⟩ := a
    simp only [List.lookup_cons]
    by_cases h1 : (k == ka) = true
    · simp [h1]
    · have h1' : (k == ka) = false := by simpa using h1
      simp only [h1']
      apply ih
      simp only [List.any_cons, Bool.or_eq_true] at h
      rcases h with h | h
      · exfalso
        simp only [beq_iff_eq] at h
        apply h1
        simp [h]
      · exact h

theorem lookup_append_single (acc : List (Nat × Nat)) (k k' c : Nat) :
    (acc ++ [(k, c)]).lookup k' = (acc.lookup k').or (if k' = k then some c else none) := by
  induction acc with
  | nil =>
    by_cases h : k' = k
    · subst h; simp
    · have : (k' == k) = false := by simpa using h
      simp [List.lookup_cons, this, h]
  | cons a acc ih =>
    obtain ⟨ka, ca⟩ := a
    simp only [List.cons_append, List.lookup_cons]
    by_cases h1 : (k' == ka) = true
    · simp [h1]
    · have h1' : (k' == ka) = false := by simpa using h1
      simp only [h1']
      exact ih

theorem lookup_bump (acc : List (Nat × Nat)) (k k' : Nat) :
    (bump acc k).lookup k' = if k' = k then some ((acc.lookup k).getD 0 + 1) else acc.lookup k' := by
  unfold bump
  split
  · rename_i hany
    obtain ⟨c, hc⟩ := lookup_some_of_any acc k hany
    rw [lookup_map_bump, hc]
    rfl
  · rename_i hany
    have hnone := lookup_none_of_not_any acc k hany
    rw [lookup_append_single, hnone]
    by_cases h : k' = k
    · subst h
      simp [hnone]
    · simp [h]

/-- what one more occurrence count does to a dict entry -/
def cntOpt (o : Option Nat) (c : Nat) : Option Nat := if c = 0 then o else some (o.getD 0 + c)

theorem lookup_foldl_bump : ∀ (l : List Nat) (acc : List (Nat × Nat)) (k : Nat),
    (l.foldl bump acc).lookup k = cntOpt (acc.lookup k) (l.count k) := by
  intro l
  induction l with
  | nil => intro acc k; simp [cntOpt]
  | cons x l ih =>
    intro acc k
    rw [List.foldl_cons, ih, lookup_bump, List.count_cons]
    by_cases hk : k = x
    · subst hk
      simp only [↓reduceIte, beq_self_eq_true]
      unfold cntOpt
      by_cases hc : List.count k l = 0
      · simp [hc]
      · simp only [hc, ↓reduceIte, Option.getD_some]
        rw [if_neg (by omega)]
        congr 1
        omega
    · have : (x == k) = false := by simpa using fun h => hk h.symm
      simp only [if_neg hk, this, Bool.false_eq_true, ↓reduceIte, Nat.add_zero]

theorem engineCount_eq (ensEng : List (List Nat)) : engineCount ensEng = ensEng.flatten.foldl bump [] := by
  unfold engineCount
  rw [List.foldl_flatten]

/-- **the first loop of `create_engines` counts occurrences**: the entry of name `k` is the number of
    times `k` is written in `ensemble_engines` (absent iff never) -/
theorem engineCount_lookup (ensEng : List (List Nat)) (k : Nat) :
    (engineCount ensEng).lookup k =
      if ensEng.flatten.count k = 0 then none else some (ensEng.flatten.count k) := by
  rw [engineCount_eq, lookup_foldl_bump]
  simp [cntOpt]

/-! ### the creation loop -/

theorem createN_occ : ∀ (m next : Nat), (createN m next).1 = List.replicate m (-1) := by
  intro m
  induction m with
  | zero => intro next; rfl
  | succ m ih => intro next; simp [createN, ih, List.replicate_succ]

theorem createN_objs : ∀ (m next : Nat), (createN m next).2 = List.range' next m := by
  intro m
  induction m with
  | zero => intro next; rfl
  | succ m ih => intro next; simp [createN, ih, List.range'_succ]

theorem createLoop_lookup (workers : Nat) : ∀ (cnt : List (Nat × Nat)) (next k : Nat),
    ((createLoop workers cnt next).names.zip (createLoop workers cnt next).occ).lookup k
      = (cnt.lookup k).map (fun c => List.replicate (min c workers) (-1)) := by
  intro cnt
  induction cnt with
  | nil => intro next k; simp [createLoop]
  | cons a cnt ih =>
    intro next k
    obtain ⟨ka, ca⟩ := a
    simp only [createLoop, List.zip_cons_cons, List.lookup_cons]
    by_cases h : (k == ka) = true
    · simp [h, createN_occ]
    · have : (k == ka) = false := by simpa using h
      simp only [this]
      exact ih _ k

theorem createLoop_names (workers : Nat) : ∀ (cnt : List (Nat × Nat)) (next : Nat),
    (createLoop workers cnt next).names = cnt.map Prod.fst := by
  intro cnt
  induction cnt with
  | nil => intro next; rfl
  | cons a cnt ih => intro next; obtain ⟨ka, ca⟩ := a; simp [createLoop, ih]

theorem createLoop_objs_flatten (workers : Nat) : ∀ (cnt : List (Nat × Nat)) (next : Nat),
    (createLoop workers cnt next).objs.flatten
      = List.range' next ((cnt.map (fun a => min a.2 workers)).sum) := by
  intro cnt
  induction cnt with
  | nil => intro next; simp [createLoop]
  | cons a cnt ih =>
    intro next
    obtain ⟨ka, ca⟩ := a
    simp only [createLoop, List.flatten_cons, ih, createN_objs, List.map_cons, List.sum_cons]
    rw [List.range'_append_1]

theorem createLoop_shape (workers : Nat) : ∀ (cnt : List (Nat × Nat)) (next : Nat),
    (createLoop workers cnt next).objs.map List.length = cnt.map (fun a => min a.2 workers) ∧
    (createLoop workers cnt next).occ = cnt.map (fun a => List.replicate (min a.2 workers) (-1)) := by
  intro cnt
  induction cnt with
  | nil => intro next; simp [createLoop]
  | cons a cnt ih =>
    intro next
    obtain ⟨ka, ca⟩ := a
    obtain ⟨h1, h2⟩ := ih (next + min ca workers)
    simp [createLoop, h1, h2, createN_objs, createN_occ]

/-- the row `engine_occ[k]` of what `create_engines` returns -/
theorem occRow_createEngines (ensEng : List (List Nat)) (workers k : Nat) :
    occRow (createEngines ensEng workers) k
      = List.replicate (min (ensEng.flatten.count k) workers) (-1) := by
  unfold occRow createEngines
  rw [createLoop_lookup, engineCount_lookup]
  by_cases h : ensEng.flatten.count k = 0
  · simp [h]
  · simp [h]

/-! ### number of ensembles using a type ≤ number of occurrences of the type -/

theorem filter_range_getD_le (k : Nat) : ∀ (L : List (List Nat)) (m : Nat),
    ((List.range m).filter (fun e => (L.getD e []).contains k)).length ≤ L.flatten.count k := by
  intro L
  induction L with
  | nil =>
    intro m
    have : (List.range m).filter (fun e => (([] : List (List Nat)).getD e []).contains k) = [] := by
      rw [List.filter_eq_nil_iff]
      intro e _
      simp
    rw [this]; simp
  | cons l L ih =>
    intro m
    cases m with
    | zero => simp
    | succ m =>
      rw [List.range_succ_eq_map, List.filter_cons, List.flatten_cons, List.count_append]
      have htail : ((List.map Nat.succ (List.range m)).filter (fun e => ((l :: L).getD e []).contains k)).length
          = ((List.range m).filter (fun e => (L.getD e []).contains k)).length := by
        rw [List.filter_map, List.length_map]
        congr 1
      have hih := ih m
      have hhead : (if ((l :: L).getD 0 []).contains k = true then 1 else 0) ≤ l.count k := by
        simp only [List.getD_cons_zero]
        split
        · rename_i hc
          have : k ∈ l := by simpa using hc
          exact List.count_pos_iff.mpr this
        · omega
      split
      · rename_i hc
        rw [if_pos hc] at hhead
        simp only [List.length_cons, htail]
        omega
      · rw [htail]; omega

theorem countK_le_count (ensEng : List (List Nat)) (n k : Nat) :
    countK ensEng n k ≤ ensEng.flatten.count k := by
  unfold countK slotsUsing
  exact filter_range_getD_le k ensEng (n - 1)

/-! ### `EngInit` -/

theorem occTable_getElem? (E : Engines) (m k : Nat) (l : List Int) (h : (occTable E m)[k]? = some l) :
    k < m ∧ l = occRow E k := by
  unfold occTable at h
  rw [List.getElem?_map] at h
  by_cases hk : k < m
  · rw [List.getElem?_range hk] at h
    simp only [Option.map_some, Option.some.injEq] at h
    exact ⟨hk, h.symm⟩
  · rw [List.getElem?_eq_none (by simpa using Nat.le_of_not_lt hk)] at h
    simp at h

/-- **a sampler whose engine table is the one `create_engines` builds satisfies `EngInit`**, provided
    every ensemble lists at least one engine (`check_config`: "Found an ensemble without an engine!")
    and the table covers the type numbers `0 … m-1` that are used -/
theorem engInit_of_createEngines (y : Sys) (m : Nat)
    (hocc : y.s.occ = occTable (createEngines y.s.ensEng y.s.workers) m)
    (hm : ∀ k ∈ y.s.ensEng.flatten, k < m)
    (hne : ∀ e, e < y.s.n - 1 → y.s.ensEng.getD e [] ≠ []) : EngInit y := by
  constructor
  · intro k i x hx
    unfold cell at hx
    rw [hocc] at hx
    cases hrow : (occTable (createEngines y.s.ensEng y.s.workers) m)[k]? with
    | none => rw [hrow] at hx; simp at hx
    | some l =>
      rw [hrow] at hx
      simp only [Option.bind_some] at hx
      obtain ⟨_, hl⟩ := occTable_getElem? _ _ _ _ hrow
      rw [hl, occRow_createEngines] at hx
      have := List.mem_of_getElem? hx
      exact (List.mem_replicate.mp this).2
  · intro k l hl
    rw [hocc] at hl
    obtain ⟨_, hl'⟩ := occTable_getElem? _ _ _ _ hl
    rw [hl', occRow_createEngines, List.length_replicate]
    have := countK_le_count y.s.ensEng y.s.n k
    omega
  · intro e he
    refine ⟨hne e he, ?_⟩
    intro k hk
    have hkf : k ∈ y.s.ensEng.flatten := by
      rw [List.mem_flatten]
      refine ⟨y.s.ensEng.getD e [], ?_, hk⟩
      rw [List.getD_eq_getElem?_getD] at hk ⊢
      cases hg : y.s.ensEng[e]? with
      | none => rw [hg] at hk; simp at hk
      | some l => simp only [Option.getD_some]; exact List.mem_of_getElem? hg
    have hlt := hm k hkf
    rw [hocc]
    refine ⟨occRow (createEngines y.s.ensEng y.s.workers) k, ?_⟩
    unfold occTable
    rw [List.getElem?_map, List.getElem?_range hlt]
    rfl

/-! ### distinct instances are distinct engine objects -/

theorem range'_getElem? (s n i o : Nat) (h : (List.range' s n)[i]? = some o) : i < n ∧ o = s + i := by
  have hlt : i < (List.range' s n).length := by
    rcases Nat.lt_or_ge i (List.range' s n).length with h1 | h1
    · exact h1
    · rw [List.getElem?_eq_none h1] at h; simp at h
  rw [List.getElem?_eq_getElem hlt] at h
  simp only [List.getElem_range', Option.some.injEq] at h
  simp only [List.length_range'] at hlt
  exact ⟨hlt, by omega⟩

/-- the objects of a row lie in the block of `create_engine` calls of this loop -/
theorem createLoop_objs_block (workers : Nat) : ∀ (cnt : List (Nat × Nat)) (next k : Nat) (l : List Nat),
    ((createLoop workers cnt next).names.zip (createLoop workers cnt next).objs).lookup k = some l →
    ∀ o ∈ l, next ≤ o := by
  intro cnt
  induction cnt with
  | nil => intro next k l h; simp [createLoop] at h
  | cons a cnt ih =>
    intro next k l h o ho
    obtain ⟨ka, ca⟩ := a
    simp only [createLoop, List.zip_cons_cons, List.lookup_cons] at h
    by_cases hk : (k == ka) = true
    · simp only [hk, Option.some.injEq] at h
      rw [← h, createN_objs] at ho
      have := List.mem_range'_1.mp ho
      omega
    · have hk' : (k == ka) = false := by simpa using hk
      simp only [hk'] at h
      have := ih _ k l h o ho
      omega

theorem createLoop_objs_inj (workers : Nat) : ∀ (cnt : List (Nat × Nat)) (next k1 k2 i1 i2 o : Nat)
    (l1 l2 : List Nat),
    ((createLoop workers cnt next).names.zip (createLoop workers cnt next).objs).lookup k1 = some l1 →
    ((createLoop workers cnt next).names.zip (createLoop workers cnt next).objs).lookup k2 = some l2 →
    l1[i1]? = some o → l2[i2]? = some o → k1 = k2 ∧ i1 = i2 := by
  intro cnt
  induction cnt with
  | nil => intro next k1 k2 i1 i2 o l1 l2 h; simp [createLoop] at h
  | cons a cnt ih =>
    intro next k1 k2 i1 i2 o l1 l2 h1 h2 g1 g2
    obtain ⟨ka, ca⟩ := a
    simp only [createLoop, List.zip_cons_cons, List.lookup_cons] at h1 h2
    by_cases hk1 : (k1 == ka) = true
    · have e1 : k1 = ka := by simpa using hk1
      simp only [hk1, Option.some.injEq] at h1
      rw [← h1, createN_objs] at g1
      obtain ⟨hi1, ho1⟩ := range'_getElem? _ _ _ _ g1
      by_cases hk2 : (k2 == ka) = true
      · have e2 : k2 = ka := by simpa using hk2
        simp only [hk2, Option.some.injEq] at h2
        rw [← h2, createN_objs] at g2
        obtain ⟨_, ho2⟩ := range'_getElem? _ _ _ _ g2
        exact ⟨by rw [e1, e2], by omega⟩
      · have hk2' : (k2 == ka) = false := by simpa using hk2
        simp only [hk2'] at h2
        have := createLoop_objs_block workers cnt _ k2 l2 h2 o (List.mem_of_getElem? g2)
        omega
    · have hk1' : (k1 == ka) = false := by simpa using hk1
      simp only [hk1'] at h1
      by_cases hk2 : (k2 == ka) = true
      · simp only [hk2, Option.some.injEq] at h2
        rw [← h2, createN_objs] at g2
        obtain ⟨hi2, ho2⟩ := range'_getElem? _ _ _ _ g2
        have := createLoop_objs_block workers cnt _ k1 l1 h1 o (List.mem_of_getElem? g1)
        omega
      · have hk2' : (k2 == ka) = false := by simpa using hk2
        simp only [hk2'] at h2
        exact ih _ k1 k2 i1 i2 o l1 l2 h1 h2 g1 g2

/-- **`ENGINES[k][i]` is injective**: two instance addresses that resolve to the same engine object are
    the same address -/
theorem engineObj_inj (ensEng : List (List Nat)) (workers : Nat) (a b : Nat × Nat) (o : Nat)
    (ha : engineObj (createEngines ensEng workers) a = some o)
    (hb : engineObj (createEngines ensEng workers) b = some o) : a = b := by
  unfold engineObj objRow at ha hb
  obtain ⟨k1, i1⟩ := a
  obtain ⟨k2, i2⟩ := b
  simp only at ha hb
  cases h1 : ((createEngines ensEng workers).names.zip (createEngines ensEng workers).objs).lookup k1 with
  | none => rw [h1] at ha; simp at ha
  | some l1 =>
    cases h2 : ((createEngines ensEng workers).names.zip (createEngines ensEng workers).objs).lookup k2 with
    | none => rw [h2] at hb; simp at hb
    | some l2 =>
      rw [h1] at ha
      rw [h2] at hb
      simp only [Option.getD_some] at ha hb
      unfold createEngines at h1 h2
      obtain ⟨e1, e2⟩ := createLoop_objs_inj workers _ 0 k1 k2 i1 i2 o l1 l2 h1 h2 ha hb
      rw [e1, e2]

end Infretis.Repex.Factory
