import Infretis.Lemmas.RepexC03Sys
/-!
# C03 — initial states, and the direct reading of the zero-swap precondition off `pick`
-/
namespace Infretis.Repex
open Infretis.Perm

/-- The state `scheduler()` starts from on a fresh start: what `load_paths` leaves behind
    (every ensemble slot idle and holding its own path, numbers below `trajNum`, only the ghost
    locked), nothing in flight, nothing recorded from a restart file, `toinitiate = workers`. -/
structure Init (y : Sys) : Prop where
  jobs : y.jobs = []
  n2 : 2 ≤ y.s.n
  lenW : y.s.W.length = y.s.n
  lenT : y.s.trajs.length = y.s.n
  locks : y.s.locks = List.replicate (y.s.n - 1) false ++ [true]
  live : ∀ e, e < y.s.n - 1 → ∃ pn, y.s.trajs[e]? = some (some pn) ∧ pn < y.s.trajNum
  inj : ∀ a b pn, a < y.s.n - 1 → b < y.s.n - 1 →
    y.s.trajs[a]? = some (some pn) → y.s.trajs[b]? = some (some pn) → a = b
  locked0 : y.s.locked0 = []
  toinit : y.s.toinitiate = (y.s.workers : Int)

theorem Init.inv {y : Sys} (h : Init y) : Inv y := by
  have hn := h.n2
  constructor
  · rw [h.jobs]
    constructor
    · exact h.n2
    · exact h.lenW
    · exact h.lenT
    · rw [h.locks]; simp; omega
    · rw [h.locks, List.getElem?_append_right (by simp)]; simp
    · intro e he
      rw [h.locks, List.getElem?_append_left (by simpa using he)]
      simp [held, he]
    · simp [held]
    · intro e pn hm; simp [held] at hm
    · exact h.live
    · exact h.inj
    · exact h.locked0
  · rw [h.jobs]; simp
  · rw [h.jobs]; simp
  · rw [h.toinit]
  · rw [h.jobs]; simp
  · rw [h.jobs]; simp

/-! ### distinctness transfers along an injective relabelling -/

theorem nodup_map_of_nodup_map {α β γ : Type} (f : α → β) (g : α → γ) : ∀ (l : List α),
    (l.map f).Nodup → (∀ x ∈ l, ∀ y ∈ l, g x = g y → f x = f y) → (l.map g).Nodup := by
  intro l
  induction l with
  | nil => intro _ _; simp
  | cons x l ih =>
    intro hn hfg
    simp only [List.map_cons, List.nodup_cons] at hn ⊢
    refine ⟨?_, ih hn.2 (fun a ha b hb => hfg a (List.mem_cons_of_mem _ ha) b (List.mem_cons_of_mem _ hb))⟩
    intro hm
    obtain ⟨y, hy, hgy⟩ := List.mem_map.mp hm
    apply hn.1
    rw [hfg x (List.mem_cons_self ..) y (List.mem_cons_of_mem _ hy) hgy.symm]
    exact List.mem_map.mpr ⟨y, hy, rfl⟩

/-! ### the zero-swap precondition, read directly off `pick` (no invariant needed) -/

theorem mkPicked_go_length (child : Stream) : ∀ (pairs : List (Int × Option Nat)) (j : Nat)
    (ps : List Picked), mkPicked.go child j pairs = .ok ps → ps.length = pairs.length := by
  intro pairs
  induction pairs with
  | nil =>
    intro j ps h
    simp only [mkPicked.go, Except.ok.injEq] at h
    subst h; rfl
  | cons x rest ih =>
    intro j ps h
    obtain ⟨e, t⟩ := x
    cases t with
    | none => simp [mkPicked.go] at h
    | some pn =>
      simp only [mkPicked.go] at h
      split at h
      · exact absurd h (by simp)
      · rename_i ps0 h0
        simp only [Except.ok.injEq] at h
        subst h
        simp [ih (j + 1) ps0 h0]

theorem pickCore_two_idle {s s' : St} (o : PickOutcome) (pairs : List (Int × Option Nat))
    (ds : List Draw) (hW : s.W.length = s.locks.length) (hp : pickCore s o = .ok (s', pairs, ds))
    (h2 : pairs.length = 2) : s.locks[0]? = some false ∧ s.locks[1]? = some false := by
  unfold pickCore at hp
  simp only [] at hp
  split at hp
  · exact absurd hp (by simp)
  rename_i hpos
  have hpos : 0 < entryM (prob s) o.t o.e := Classical.not_not.mp hpos
  have hle := probMatrix_pos_unlocked_col s.W s.locks hW o.t o.e hpos
  split at hp
  · exact absurd hp (by simp)
  rename_i s2 hl
  obtain ⟨_, hs2⟩ := lock_ok hl
  have hL2 : s2.locks = s.locks.set o.e true := by rw [hs2]; rfl
  have hget : ∀ i, i ≠ o.e → s2.locks.getD i true = false → s.locks[i]? = some false := by
    intro i hi hg
    rw [hL2, List.getD_eq_getElem?_getD, List.getElem?_set_ne (fun h => hi h.symm)] at hg
    cases hx : s.locks[i]? with
    | none => rw [hx] at hg; exact absurd hg (by simp)
    | some b => rw [hx] at hg; simpa using hg
  split at hp
  · rename_i hzs
    simp only [Bool.and_eq_true, Bool.or_eq_true, beq_iff_eq] at hzs
    rcases hzs.1 with hz | hz
    · have he1 : o.e = 1 := by simpa [off] using hz.1
      have h0 := hget (off - 1) (by rw [he1]; decide) hz.2
      exact ⟨by simpa [off] using h0, by rw [← he1]; exact hle⟩
    · have he0 : o.e = 0 := by simpa [off] using hz.1
      have h1 := hget off (by rw [he0]; decide) hz.2
      exact ⟨by rw [← he0]; exact hle, by simpa [off] using h1⟩
  · simp only [Except.ok.injEq, Prod.mk.injEq] at hp
    obtain ⟨_, rfl, _⟩ := hp
    simp at h2

theorem pick_two_idle {s s' : St} (o : PickOutcome) (ps : List Picked) (ds : List Draw)
    (hW : s.W.length = s.locks.length) (hp : pick s o = .ok (s', ps, ds)) (h2 : ps.length = 2) :
    s.locks[0]? = some false ∧ s.locks[1]? = some false := by
  unfold pick at hp
  split at hp
  · exact absurd hp (by simp)
  rename_i s1 pairs ds1 hpc
  split at hp
  · exact absurd hp (by simp)
  rename_i ps1 hmk
  unfold mkPicked at hmk
  have hlen := mkPicked_go_length _ pairs 0 ps1 hmk
  simp only [Except.ok.injEq, Prod.mk.injEq] at hp
  obtain ⟨_, rfl, _⟩ := hp
  exact pickCore_two_idle o pairs ds1 hW hpc (by omega)

theorem prep_two_idle {s s' : St} (prev : Option Nat) (o : PickOutcome) (saved : Nat) (job : Job)
    (ds : List Draw) (hW : s.W.length = s.locks.length) (h0 : s.locked0 = [])
    (hp : prep s prev o saved = .ok (s', job, ds)) (h2 : job.picked.length = 2) :
    s.locks[0]? = some false ∧ s.locks[1]? = some false := by
  unfold prep at hp
  simp only [] at hp
  generalize hpin : (if s.toinitiate ≥ 0 then some s.cworker else prev) = pin? at hp
  split at hp
  · exact absurd hp (by simp)
  rename_i s1 ps ds1 hr
  split at hp
  · exact absurd hp (by simp)
  split at hp
  · exact absurd hp (by simp)
  split at hp
  · exact absurd hp (by simp)
  simp only [Except.ok.injEq, Prod.mk.injEq] at hp
  obtain ⟨_, rfl, _⟩ := hp
  have hlen : ps.length = 2 := by simpa using h2
  split at hr
  · unfold pickLock at hr
    rw [h0] at hr
    simp only [] at hr
    have := pick_two_idle o ps ds1
      (by rw [(restoreStreamOnce_coreEq s saved).W, (restoreStreamOnce_coreEq s saved).locks]; exact hW)
      hr hlen
    rw [(restoreStreamOnce_coreEq s saved).locks] at this
    exact this
  · exact pick_two_idle o ps ds1 hW hr hlen

end Infretis.Repex
