import Infretis.Lemmas.RepexC03Init
/-!
# C03 — `Init` is what `REPEX_state.__init__` + `load_paths` produce on a fresh start
-/
namespace Infretis.Repex
open Infretis.Perm

theorem addTraj_ok' {s s' : St} {ens : Int} {pn : Nat} {valid : List Rat}
    (h : addTraj s ens pn valid = .ok s') :
    s.locks[(ens + 1).toNat]? = some true ∧
      s'.n = s.n ∧ s'.W = s.W.set (ens + 1).toNat (padValid s ens valid) ∧
      s'.trajs = s.trajs.set (ens + 1).toNat (some pn) ∧
      s'.locks = s.locks.set (ens + 1).toNat false ∧ s'.locked0 = s.locked0 ∧
      s'.toinitiate = s.toinitiate ∧ s'.workers = s.workers ∧ s'.trajNum = s.trajNum := by
  unfold addTraj at h
  simp only [] at h
  have hoff : (ens + (off : Int)).toNat = (ens + 1).toNat := by simp [off]
  rw [hoff] at h
  split at h
  · exact absurd h (by simp)
  split at h
  · exact absurd h (by simp)
  split at h
  · exact absurd h (by simp)
  split at h
  · exact absurd h (by simp)
  obtain ⟨hl, hs⟩ := unlock_ok h
  subst hs
  exact ⟨hl, rfl, rfl, rfl, rfl, rfl, rfl, rfl, rfl⟩

theorem loadOne_ok {s s' : St} {ens : Int} {pn : Nat} {valid fr : List Rat}
    (h : loadOne s ens pn valid fr = .ok s') :
    s.locks[(ens + 1).toNat]? = some true ∧
      s'.n = s.n ∧ s'.W = s.W.set (ens + 1).toNat (padValid s ens valid) ∧
      s'.trajs = s.trajs.set (ens + 1).toNat (some pn) ∧
      s'.locks = s.locks.set (ens + 1).toNat false ∧ s'.locked0 = s.locked0 ∧
      s'.toinitiate = s.toinitiate ∧ s'.workers = s.workers ∧ s'.trajNum = s.trajNum := by
  unfold loadOne at h
  split at h
  · exact absurd h (by simp)
  rename_i s1 hadd
  simp only [Except.ok.injEq] at h
  subst h
  have h' := addTraj_ok' hadd
  exact h'

/-- loop invariant of `load_paths`: the first `i` plus-ensembles are loaded -/
structure Loaded (n tn : Nat) (pns : List Nat) (s : St) (i : Nat) : Prop where
  hn : s.n = n
  lenW : s.W.length = n
  lenT : s.trajs.length = n
  lenL : s.locks.length = n
  l0 : s.locked0 = []
  toinit : s.toinitiate = (s.workers : Int)
  htn : s.trajNum = tn
  locks : ∀ e, e < n → s.locks[e]? = some (decide (e = 0 ∨ i < e))
  trajs : ∀ e pn, e < i → pns[e]? = some pn → s.trajs[e + 1]? = some (some pn)

theorem loaded_blank (n workers tsteps cstep trajNum seed : Nat) (occ : List (List Int))
    (ensEng : List (List Nat)) (restarted : Bool) (pns : List Nat) :
    Loaded n trajNum pns (blank n workers tsteps cstep trajNum seed occ ensEng restarted []) 0 := by
  constructor
  · rfl
  · simp [blank]
  · simp [blank]
  · simp [blank]
  · rfl
  · rfl
  · rfl
  · intro e he
    simp only [blank, List.getElem?_replicate, he, ↓reduceIte, Option.some.injEq]
    symm
    simp only [decide_eq_true_eq]
    omega
  · intro e pn he; omega

theorem loaded_step {n tn : Nat} {pns : List Nat} {s s' : St} {i pn : Nat} {w fr : List Rat}
    (h : Loaded n tn pns s i) (hpn : pns[i]? = some pn)
    (hl : loadOne s (i : Int) pn w fr = .ok s') : Loaded n tn pns s' (i + 1) := by
  obtain ⟨hlock, h1, h2, h3, h4, h5, h6, h7, h8⟩ := loadOne_ok hl
  have hslot : ((i : Int) + 1).toNat = i + 1 := by omega
  rw [hslot] at hlock h2 h3 h4
  have hlt : i + 1 < n := by
    have := getElem?_lt_of_some _ _ _ hlock
    rw [h.lenL] at this; exact this
  constructor
  · rw [h1]; exact h.hn
  · rw [h2, List.length_set]; exact h.lenW
  · rw [h3, List.length_set]; exact h.lenT
  · rw [h4, List.length_set]; exact h.lenL
  · rw [h5]; exact h.l0
  · rw [h6, h7]; exact h.toinit
  · rw [h8]; exact h.htn
  · intro e he
    rw [h4]
    by_cases hei : e = i + 1
    · subst hei
      rw [List.getElem?_set_self (by rw [h.lenL]; exact hlt)]
      simp
    · rw [List.getElem?_set_ne (fun h => hei h.symm), h.locks e he]
      simp only [Option.some.injEq, decide_eq_decide]
      omega
  · intro e q he hq
    rw [h3]
    by_cases hei : e = i
    · subst hei
      rw [List.getElem?_set_self (by rw [h.lenT]; exact hlt)]
      rw [hpn] at hq
      simp only [Option.some.injEq] at hq
      rw [hq]
    · rw [List.getElem?_set_ne (by omega)]
      exact h.trajs e q (by omega) hq

theorem plus_loaded {n tn : Nat} {pns : List Nat} :
    ∀ (rest : List (Nat × List Rat × List Rat)) (s s' : St) (i : Nat),
    Loaded n tn pns s i → (∀ j, (rest.map (·.1))[j]? = pns[i + j]?) → rest.length + i ≤ pns.length →
    loadPaths.plus s i rest = .ok s' → Loaded n tn pns s' (i + rest.length) := by
  intro rest
  induction rest with
  | nil =>
    intro s s' i h _ _ hp
    simp only [loadPaths.plus, Except.ok.injEq] at hp
    subst hp
    simpa using h
  | cons x rest ih =>
    intro s s' i h hidx hlen hp
    obtain ⟨pn, w, fr⟩ := x
    simp only [loadPaths.plus] at hp
    split at hp
    · exact absurd hp (by simp)
    rename_i s1 hl
    have hpn : pns[i]? = some pn := by
      have := hidx 0
      simpa using this.symm
    have h1 := loaded_step h hpn hl
    have := ih s1 s' (i + 1) h1
      (fun j => by
        have := hidx (j + 1)
        simp only [List.map_cons, List.getElem?_cons_succ] at this
        rw [this]
        congr 1
        omega)
      (by simp only [List.length_cons] at hlen; omega) hp
    simp only [List.length_cons]
    rw [show i + (rest.length + 1) = i + 1 + rest.length from by omega]
    exact this

/-- **`Init` is what `load_paths` leaves behind**: `n − 1` initial paths with pairwise distinct
    numbers below `trajNum`, loaded into a blank `REPEX_state` of `n ≥ 2` slots without restart
    jobs, give an `Init` state (whatever the weights, workers, engine table). -/
theorem init_of_loadPaths (n workers tsteps cstep trajNum seed : Nat) (occ : List (List Int))
    (ensEng : List (List Nat)) (restarted : Bool) (paths : List (Nat × List Rat × List Rat)) (s : St)
    (hn : 2 ≤ n) (hlen : paths.length = n - 1) (hnd : (paths.map (·.1)).Nodup)
    (hlt : ∀ p ∈ paths, p.1 < trajNum)
    (h : loadPaths (blank n workers tsteps cstep trajNum seed occ ensEng restarted []) paths = .ok s) :
    Init { s := s, jobs := [] } := by
  unfold loadPaths at h
  split at h
  · exact absurd h (by simp)
  rename_i pn0 w0 fr0 rest
  split at h
  · exact absurd h (by simp)
  rename_i s1 hplus
  have hL := plus_loaded (n := n) (tn := trajNum) (pns := rest.map (·.1)) rest _ s1 0
    (loaded_blank n workers tsteps cstep trajNum seed occ ensEng restarted _)
    (fun j => by simp) (by simp) hplus
  simp only [Nat.zero_add] at hL
  obtain ⟨_, h1, h2, h3, h4, h5, h6, h7, h8⟩ := loadOne_ok h
  have hslot : ((-1 : Int) + 1).toNat = 0 := by decide
  rw [hslot] at h2 h3 h4
  simp only [List.length_cons] at hlen
  have hrl : rest.length = n - 2 := by omega
  simp only [List.map_cons, List.nodup_cons] at hnd
  constructor
  · rfl
  · show 2 ≤ s.n
    rw [h1, hL.hn]; exact hn
  · show s.W.length = s.n
    rw [h2, List.length_set, h1, hL.hn]; exact hL.lenW
  · show s.trajs.length = s.n
    rw [h3, List.length_set, h1, hL.hn]; exact hL.lenT
  · show s.locks = List.replicate (s.n - 1) false ++ [true]
    rw [h1, hL.hn, h4]
    apply List.ext_getElem?
    intro e
    by_cases he0 : e = 0
    · subst he0
      rw [List.getElem?_set_self (by rw [hL.lenL]; omega),
        List.getElem?_append_left (by simp; omega), List.getElem?_replicate,
        if_pos (by omega)]
    · rw [List.getElem?_set_ne (fun h => he0 h.symm)]
      by_cases hen : e < n
      · rw [hL.locks e hen]
        by_cases he1 : e < n - 1
        · rw [List.getElem?_append_left (by simpa using he1)]
          simp only [List.getElem?_replicate, he1, ↓reduceIte, Option.some.injEq,
            decide_eq_false_iff_not]
          omega
        · have : e = n - 1 := by omega
          rw [List.getElem?_append_right (by simp; omega)]
          simp only [List.length_replicate, this, Nat.sub_self, List.getElem?_cons_zero,
            Option.some.injEq, decide_eq_true_eq]
          omega
      · rw [List.getElem?_eq_none (by rw [hL.lenL]; omega),
          List.getElem?_eq_none (by simp; omega)]
  · show ∀ e, e < s.n - 1 → ∃ pn, s.trajs[e]? = some (some pn) ∧ pn < s.trajNum
    rw [h1, hL.hn, h3, h8, hL.htn]
    intro e he
    cases e with
    | zero =>
      exact ⟨pn0, List.getElem?_set_self (by rw [hL.lenT]; omega), hlt _ (List.mem_cons_self ..)⟩
    | succ e =>
      have hlt' : e < (rest.map (·.1)).length := by simp; omega
      refine ⟨(rest.map (·.1))[e], ?_, ?_⟩
      · rw [List.getElem?_set_ne (by omega)]
        exact hL.trajs e _ (by omega) (List.getElem?_eq_getElem hlt')
      · have hm : (rest.map (·.1))[e] ∈ rest.map (·.1) := List.getElem_mem hlt'
        obtain ⟨p, hp, hpe⟩ := List.mem_map.mp hm
        rw [← hpe]
        exact hlt p (List.mem_cons_of_mem _ hp)
  · show ∀ a b pn, a < s.n - 1 → b < s.n - 1 → s.trajs[a]? = some (some pn) →
      s.trajs[b]? = some (some pn) → a = b
    rw [h1, hL.hn, h3]
    have hsucc : ∀ e q, e + 1 < n - 1 → (s1.trajs.set 0 (some pn0))[e + 1]? = some (some q) →
        (rest.map (·.1))[e]? = some q := by
      intro e q he hq
      rw [List.getElem?_set_ne (by omega)] at hq
      have hlt' : e < (rest.map (·.1)).length := by simp; omega
      have := hL.trajs e _ (by omega) (List.getElem?_eq_getElem hlt')
      rw [this] at hq
      simp only [Option.some.injEq] at hq
      rw [List.getElem?_eq_getElem hlt', hq]
    have hzero : ∀ q, (s1.trajs.set 0 (some pn0))[0]? = some (some q) → q = pn0 := by
      intro q hq
      rw [List.getElem?_set_self (by rw [hL.lenT]; omega)] at hq
      simpa using hq.symm
    intro a b q ha hb hqa hqb
    cases a with
    | zero =>
      cases b with
      | zero => rfl
      | succ b =>
        exfalso
        have h0 := hzero q hqa
        have hb' := hsucc b q hb hqb
        subst h0
        exact hnd.1 (List.mem_of_getElem? hb')
    | succ a =>
      cases b with
      | zero =>
        exfalso
        have h0 := hzero q hqb
        have ha' := hsucc a q ha hqa
        subst h0
        exact hnd.1 (List.mem_of_getElem? ha')
      | succ b =>
        have ha' := hsucc a q ha hqa
        have hb' := hsucc b q hb hqb
        have := (List.getElem?_inj (getElem?_lt_of_some _ _ _ ha') hnd.2).mp (ha'.trans hb'.symm)
        omega
  · show s.locked0 = []
    rw [h5]; exact hL.l0
  · show s.toinitiate = (s.workers : Int)
    rw [h6, h7]; exact hL.toinit

end Infretis.Repex
