import Infretis.Lemmas.RepexC03RRestore
import Infretis.Model.RepexMicro
/-!
# C03 — the slot / lock invariant at every SUB-STEP of `treat_output` and `prep_md_items`

`Infretis.Repex.Micro` lists one snapshot after every write to `_locks`, `_trajs`, `state`.  Here:
every snapshot of a successful call satisfies `CoreR` with respect to what the OTHER jobs hold plus
the ghost list `Snap.mine` of the job under treatment / construction.
-/
namespace Infretis.Repex.Micro
open Infretis.Perm Infretis.Repex

/-! ### the two window states inside `add_traj` -/

/-- changing path / weight row of a LOCKED slot leaves the reserved (idle) slots alone -/
theorem Resv.touchLocked {s s' : St} (h : Resv s) (e : Nat) (hl : s.locks[e]? = some true)
    (h0 : s'.locked0 = s.locked0) (hL : s'.locks = s.locks)
    (hT : ∀ a, a ≠ e → s'.trajs[a]? = s.trajs[a]?) (hW : ∀ a, a ≠ e → s'.W[a]? = s.W[a]?) : Resv s' := by
  constructor
  · rw [h0]; exact h.shape
  · rw [h0]; exact h.nodup
  · rw [h0]
    intro a pn hm
    obtain ⟨h1, h2, h3⟩ := h.ok a pn hm
    have hne : a ≠ e := by
      intro heq; rw [heq, hl] at h1; exact absurd h1 (by simp)
    rw [hL, hT a hne, entryM_congr _ _ _ _ (hW a hne)]
    exact ⟨h1, h2, h3⟩

/-- after `self._trajs[ens] = traj`: the slot is still locked and now holds the new path -/
theorem setTraj_coreR {s s' : St} {H : List (Nat × Nat)} {tn tn' : Nat} (e pnOld pn : Nat)
    (h : CoreR s ((e, pnOld) :: H) tn)
    (hfresh : ∀ b, b < s.n - 1 → b ≠ e → s.trajs[b]? ≠ some (some pn))
    (hpn : pn < tn') (hle : tn ≤ tn')
    (hn : s'.n = s.n) (hW : s'.W = s.W) (hT : s'.trajs = s.trajs.set e (some pn))
    (hL : s'.locks = s.locks) (h0 : s'.locked0 = s.locked0) (hto : s'.toinitiate = s.toinitiate) :
    CoreR s' ((e, pn) :: H) tn' := by
  have he' : e < s.n - 1 := (h.heldOk e pnOld (List.mem_cons_self ..)).1
  have heT : e < s.trajs.length := by rw [h.lenT]; omega
  have hnd := h.nodup
  simp only [List.map_cons, List.nodup_cons] at hnd
  constructor
  · rw [hn]; exact h.n2
  · rw [hn, hW]; exact h.lenW
  · rw [hn, hT, List.length_set]; exact h.lenT
  · rw [hn, hL]; exact h.lenL
  · rw [hn, hL]; exact h.ghost
  · intro x hx
    rw [hn] at hx
    rw [hL, h.busy x hx]
    simp
  · simpa using hnd
  · intro x q hm
    rw [hn, hW, hT]
    rcases List.mem_cons.mp hm with hm1 | hm2
    · obtain ⟨rfl, rfl⟩ := Prod.mk.inj hm1
      exact ⟨he', List.getElem?_set_self heT, (h.heldOk x pnOld (List.mem_cons_self ..)).2.2⟩
    · have hxe : x ≠ e := by
        intro heq
        exact hnd.1 (List.mem_map.mpr ⟨(x, q), hm2, heq⟩)
      obtain ⟨h1, h2, h3⟩ := h.heldOk x q (List.mem_cons_of_mem _ hm2)
      refine ⟨h1, ?_, h3⟩
      rw [List.getElem?_set_ne (fun h => hxe h.symm)]; exact h2
  · intro x hx
    rw [hn] at hx
    rw [hT]
    by_cases hxe : x = e
    · subst hxe
      exact ⟨pn, List.getElem?_set_self heT, hpn⟩
    · rw [List.getElem?_set_ne (fun h => hxe h.symm)]
      obtain ⟨q, h1, h2⟩ := h.live x hx
      exact ⟨q, h1, by omega⟩
  · intro a b q ha hb h1 h2
    rw [hn] at ha hb
    rw [hT] at h1 h2
    by_cases hae : a = e
    · by_cases hbe : b = e
      · rw [hae, hbe]
      · exfalso
        subst hae
        rw [List.getElem?_set_self heT] at h1
        rw [List.getElem?_set_ne (fun h => hbe h.symm)] at h2
        have : q = pn := by simpa using h1.symm
        subst this
        exact hfresh b hb hbe h2
    · by_cases hbe : b = e
      · exfalso
        subst hbe
        rw [List.getElem?_set_self heT] at h2
        rw [List.getElem?_set_ne (fun h => hae h.symm)] at h1
        have : q = pn := by simpa using h2.symm
        subst this
        exact hfresh a ha hae h1
      · rw [List.getElem?_set_ne (fun h => hae h.symm)] at h1
        rw [List.getElem?_set_ne (fun h => hbe h.symm)] at h2
        exact h.inj a b q ha hb h1 h2
  · rw [hto]
    intro h00
    refine Resv.touchLocked (h.resv h00) e (h.held_locked e pnOld (List.mem_cons_self ..)) h0 hL ?_ ?_
    · intro a hae
      rw [hT, List.getElem?_set_ne (fun h => hae h.symm)]
    · intro a _
      rw [hW]

theorem entryM_set_self' (W : Mat) (e : Nat) (v : List Rat) (he : e < W.length) :
    entryM (W.set e v) e e = v.getD e 0 := by
  simp only [entryM, List.getD_eq_getElem?_getD, List.getElem?_set_self he]
  rfl

/-- after `self.state[ens, :] = valid` (the new row has a non-zero own-ensemble weight: the assert) -/
theorem setRow_coreR {s s' : St} {H : List (Nat × Nat)} {tn : Nat} (e pn : Nat) (v : List Rat)
    (h : CoreR s ((e, pn) :: H) tn) (hv : v.getD e 0 ≠ 0)
    (hn : s'.n = s.n) (hW : s'.W = s.W.set e v) (hT : s'.trajs = s.trajs)
    (hL : s'.locks = s.locks) (h0 : s'.locked0 = s.locked0) (hto : s'.toinitiate = s.toinitiate) :
    CoreR s' ((e, pn) :: H) tn := by
  have he' : e < s.n - 1 := (h.heldOk e pn (List.mem_cons_self ..)).1
  have heW : e < s.W.length := by rw [h.lenW]; omega
  have hnd := h.nodup
  simp only [List.map_cons, List.nodup_cons] at hnd
  constructor
  · rw [hn]; exact h.n2
  · rw [hn, hW, List.length_set]; exact h.lenW
  · rw [hn, hT]; exact h.lenT
  · rw [hn, hL]; exact h.lenL
  · rw [hn, hL]; exact h.ghost
  · rw [hn, hL]; exact h.busy
  · exact h.nodup
  · intro x q hm
    rw [hn, hW, hT]
    obtain ⟨h1, h2, h3⟩ := h.heldOk x q hm
    refine ⟨h1, h2, ?_⟩
    by_cases hxe : x = e
    · subst hxe
      rw [entryM_set_self' _ _ _ heW]; exact hv
    · rw [entryM_congr _ _ _ _ (List.getElem?_set_ne (fun h => hxe h.symm))]; exact h3
  · rw [hn, hT]; exact h.live
  · rw [hn, hT]; exact h.inj
  · rw [hto]
    intro h00
    refine Resv.touchLocked (h.resv h00) e (h.held_locked e pn (List.mem_cons_self ..)) h0 hL ?_ ?_
    · intro a _
      rw [hT]
    · intro a hae
      rw [hW, List.getElem?_set_ne (fun h => hae h.symm)]

/-! ### add_traj -/

/-- what a successful `add_traj` is: the assert held, and the three writes -/
theorem addTraj_form {s s' : St} {ens : Int} {pn : Nat} {valid : List Rat}
    (ha : addTraj s ens pn valid = .ok s') :
    (padValid s ens valid).getD (ens + (off : Int)).toNat 0 ≠ 0 ∧
    s' = { { { s with trajs := s.trajs.set (ens + (off : Int)).toNat (some pn) } with
              W := s.W.set (ens + (off : Int)).toNat (padValid s ens valid) } with
            locks := s.locks.set (ens + (off : Int)).toNat false } := by
  unfold addTraj at ha
  simp only [] at ha
  split at ha
  · exact absurd ha (by simp)
  rename_i x hx
  split at ha
  · exact absurd ha (by simp)
  rename_i hx0
  split at ha
  · exact absurd ha (by simp)
  split at ha
  · exact absurd ha (by simp)
  obtain ⟨_, hs'⟩ := unlock_ok ha
  refine ⟨?_, hs'⟩
  rw [List.getD_eq_getElem?_getD, hx]
  exact hx0

/-- the last snapshot of `addTrajTrace` IS the state `add_traj` returns -/
theorem addTrajTrace_last {s s' : St} {ens : Int} {pn : Nat} {valid : List Rat}
    (ha : addTraj s ens pn valid = .ok s') (rest : List (Nat × Nat)) :
    (addTrajTrace s ens pn valid rest).getLast? = some { tag := .unlock, st := s', mine := rest } := by
  obtain ⟨_, hs⟩ := addTraj_form ha
  unfold addTrajTrace
  rw [hs]
  rfl

theorem addTrajTrace_coreR {s s' : St} {H : List (Nat × Nat)} {tn tn' : Nat} (e pnOld pn : Nat)
    (ens : Int) (valid : List Rat) (rest : List (Nat × Nat))
    (h : CoreR s ((e, pnOld) :: (rest ++ H)) tn) (ha : addTraj s ens pn valid = .ok s')
    (he : (ens + 1).toNat = e)
    (hfresh : ∀ b, b < s.n - 1 → b ≠ e → s.trajs[b]? ≠ some (some pn))
    (hpn : pn < tn') (hle : tn ≤ tn') :
    ∀ m ∈ addTrajTrace s ens pn valid rest, CoreR m.st (m.mine ++ H) tn' := by
  obtain ⟨hc3, _⟩ := addTraj_coreR e pnOld pn ens valid h ha he hfresh hpn hle
  obtain ⟨hv, hs⟩ := addTraj_form ha
  have hoff : (ens + (off : Int)).toNat = e := by rw [← he]; simp [off]
  rw [hoff] at hv hs
  have hc1 : CoreR { s with trajs := s.trajs.set e (some pn) } ((e, pn) :: (rest ++ H)) tn' :=
    setTraj_coreR e pnOld pn h hfresh hpn hle rfl rfl rfl rfl rfl rfl
  intro m hm
  unfold addTrajTrace at hm
  simp only [hoff, List.mem_cons, List.mem_nil_iff, or_false] at hm
  rcases hm with rfl | rfl | rfl
  · exact hc1
  · exact setRow_coreR e pn (padValid s ens valid) hc1 hv rfl rfl rfl rfl rfl rfl
  · show CoreR _ (rest ++ H) tn'
    rw [← hs]
    exact hc3

/-! ### the loop over the picked ensembles -/

/-- the path-number counter only grows -/
theorem perEns_tn_le (status : Status) : ∀ (l : List (Picked × List Rat)) {s s' : St} {tn tn' : Nat}
    {pns : List Nat}, treatOutput.perEns status s tn l = .ok (s', tn', pns) → tn ≤ tn' := by
  intro l
  induction l with
  | nil =>
    intro s s' tn tn' pns hp
    simp only [treatOutput.perEns, Except.ok.injEq, Prod.mk.injEq] at hp
    omega
  | cons pw rest ih =>
    intro s s' tn tn' pns hp
    obtain ⟨p, w⟩ := pw
    unfold treatOutput.perEns at hp
    simp only [] at hp
    split at hp
    · split at hp
      · exact absurd hp (by simp)
      split at hp
      · exact absurd hp (by simp)
      rename_i s4 tn4 pns4 hrec
      simp only [Except.ok.injEq, Prod.mk.injEq] at hp
      have := ih hrec
      omega
    · split at hp
      · exact absurd hp (by simp)
      split at hp
      · exact absurd hp (by simp)
      split at hp
      · exact absurd hp (by simp)
      rename_i s4 tn4 pns4 hrec
      simp only [Except.ok.injEq, Prod.mk.injEq] at hp
      have := ih hrec
      omega

theorem pairsOfPicked_eq (l : List (Picked × List Rat)) : pairsOfPicked l = heldPicked (l.map Prod.fst) := by
  simp [pairsOfPicked, heldPicked, slotOf, List.map_map, Function.comp_def]

/-- every sub-step of the per-ensemble loop of `treat_output`: exactly the other jobs' ensembles
    plus the not yet released ones of this job are busy, every held path is in its slot -/
theorem perEnsTrace_coreR (status : Status) : ∀ (l : List (Picked × List Rat)) {s s' : St}
    {H : List (Nat × Nat)} {tn tn' : Nat} {pns : List Nat},
    CoreR s (heldPicked (l.map Prod.fst) ++ H) tn →
    treatOutput.perEns status s tn l = .ok (s', tn', pns) →
    ∀ m ∈ perEnsTrace status s tn l, CoreR m.st (m.mine ++ H) tn' := by
  intro l
  induction l with
  | nil =>
    intro s s' H tn tn' pns _ _ m hm
    simp [perEnsTrace] at hm
  | cons pw rest ih =>
    intro s s' H tn tn' pns h hp
    obtain ⟨p, w⟩ := pw
    have h : CoreR s ((slotOf p, p.pn) :: (heldPicked (rest.map Prod.fst) ++ H)) tn := by
      simpa [heldPicked] using h
    obtain ⟨hlt, htr, _⟩ := h.heldOk (slotOf p) p.pn (List.mem_cons_self ..)
    unfold treatOutput.perEns at hp
    unfold perEnsTrace
    simp only [] at hp ⊢
    split at hp
    · -- accepted
      rename_i hacc
      rw [if_pos hacc]
      split at hp
      · exact absurd hp (by simp)
      rename_i s3 hadd
      split at hp
      · exact absurd hp (by simp)
      rename_i s4 tn4 pns4 hrec
      simp only [Except.ok.injEq, Prod.mk.injEq] at hp
      obtain ⟨rfl, rfl, _⟩ := hp
      rw [hadd]
      simp only []
      have hc2 := h.congr (s' := { { s with locked := popLocked p.pn s.locked.length 0 s.locked, lockedOrd := popLockedOrd p.pn s.locked.length 0 s.locked s.lockedOrd } with
          frac := s.frac ++ [(tn, List.replicate s.n 0)], wts := s.wts ++ [(tn, w)] })
        ⟨rfl, rfl, rfl, rfl, rfl, rfl⟩
      have hfr : ∀ b, b < s.n - 1 → b ≠ slotOf p → s.trajs[b]? ≠ some (some tn) := by
        intro b hb _ hcontra
        obtain ⟨q, hq, hqlt⟩ := h.live b hb
        rw [hq] at hcontra
        simp only [Option.some.injEq] at hcontra
        omega
      obtain ⟨hc3, _⟩ := addTraj_coreR (tn' := tn + 1) (slotOf p) p.pn tn p.ens w hc2 hadd rfl hfr
        (by omega) (by omega)
      have hle4 : tn + 1 ≤ tn4 := perEns_tn_le status rest hrec
      intro m hm
      rcases List.mem_append.mp hm with hm | hm
      · rw [pairsOfPicked_eq] at hm
        exact (addTrajTrace_coreR (tn' := tn + 1) (slotOf p) p.pn tn p.ens w _ hc2 hadd rfl hfr
          (by omega) (by omega) m hm).mono hle4
      · exact ih hc3 hrec m hm
    · -- rejected
      rename_i hacc
      rw [if_neg hacc]
      split at hp
      · exact absurd hp (by simp)
      rename_i wOld hw
      split at hp
      · exact absurd hp (by simp)
      rename_i s3 hadd
      split at hp
      · exact absurd hp (by simp)
      rename_i s4 tn4 pns4 hrec
      simp only [Except.ok.injEq, Prod.mk.injEq] at hp
      obtain ⟨rfl, rfl, _⟩ := hp
      rw [hw]
      simp only []
      rw [hadd]
      simp only []
      have hc2 := h.congr (s' := { s with locked := popLocked p.pn s.locked.length 0 s.locked, lockedOrd := popLockedOrd p.pn s.locked.length 0 s.locked s.lockedOrd })
        ⟨rfl, rfl, rfl, rfl, rfl, rfl⟩
      have hfr : ∀ b, b < s.n - 1 → b ≠ slotOf p → s.trajs[b]? ≠ some (some p.pn) := by
        intro b hb hne hcontra
        exact hne (h.inj b (slotOf p) p.pn hb hlt hcontra htr)
      obtain ⟨q, hq, hqlt⟩ := h.live (slotOf p) hlt
      have hqp : q = p.pn := by
        rw [htr] at hq
        simpa using hq.symm
      obtain ⟨hc3, _⟩ := addTraj_coreR (tn' := tn) (slotOf p) p.pn p.pn p.ens wOld hc2 hadd rfl hfr
        (by omega) (Nat.le_refl _)
      have hle4 : tn ≤ tn4 := perEns_tn_le status rest hrec
      intro m hm
      rcases List.mem_append.mp hm with hm | hm
      · rw [pairsOfPicked_eq] at hm
        exact (addTrajTrace_coreR (tn' := tn) (slotOf p) p.pn p.pn p.ens wOld _ hc2 hadd rfl hfr
          (by omega) (Nat.le_refl _) m hm).mono hle4
      · exact ih hc3 hrec m hm

/-! ### sort_trajstate -/

theorem sortTrace_coreR : ∀ (fuel : Nat) {s : St} {H : List (Nat × Nat)} {tn : Nat},
    CoreR s H tn → ∀ m ∈ sortTrace fuel s, CoreR m.st (m.mine ++ H) tn := by
  intro fuel
  induction fuel with
  | zero => intro s H tn _ m hm; simp [sortTrace] at hm
  | succ fuel ih =>
    intro s H tn h m hm
    unfold sortTrace at hm
    split at hm
    · rename_i s1 hstep
      obtain ⟨hc1, _⟩ := sortStep_coreR h hstep
      rcases List.mem_cons.mp hm with rfl | hm
      · exact hc1
      · exact ih hc1 m hm
    · simp at hm

/-! ### treat_output -/

/-- **every sub-step of `treat_output`**: with `H` = what the other jobs in flight hold, every
    snapshot satisfies the slot / lock invariant for `mine ++ H`, `mine` being what the completing
    job has not released yet -/
theorem treatTrace_coreR {s s' : St} {H : List (Nat × Nat)} (job : Job) (status : Status)
    (newW : List (List Rat)) (fuel : Nat) (pns : List Nat) (it : Nat)
    (h : CoreR s (heldJob job ++ H) s.trajNum)
    (ht : treatOutput s job status newW fuel = .ok (s', pns, it)) :
    ∀ m ∈ treatTrace s job status newW fuel, CoreR m.st (m.mine ++ H) s'.trajNum := by
  unfold treatOutput at ht
  unfold treatTrace
  simp only [] at ht ⊢
  generalize hws : (if status = Status.acc then newW else job.picked.map (fun _ => [])) = ws at ht ⊢
  split at ht
  · exact absurd ht (by simp)
  rename_i hlen
  have hlen := Classical.not_not.mp hlen
  split at ht
  · exact absurd ht (by simp)
  rename_i s1 tn pnNews hper
  split at ht
  · exact absurd ht (by simp)
  rename_i s2 hrec
  split at ht
  · exact absurd ht (by simp)
  rename_i s3 hwr
  split at ht
  · exact absurd ht (by simp)
  rename_i s4 iters hsort
  simp only [Except.ok.injEq, Prod.mk.injEq] at ht
  obtain ⟨rfl, _, _⟩ := ht
  rw [hper]
  simp only []
  rw [hrec]
  simp only []
  rw [hwr]
  simp only []
  have hfst : (job.picked.zip ws).map Prod.fst = job.picked := List.map_fst_zip (by omega)
  have h0 : CoreR s (heldPicked ((job.picked.zip ws).map Prod.fst) ++ H) s.trajNum := by
    rw [hfst]; exact h
  obtain ⟨hc1, _⟩ := perEns_coreR status _ h0 hper
  obtain ⟨hce2, _⟩ := recordFrac_frameR hrec
  have hc2 := hc1.congr hce2
  have h3 : CoreEqR s2 s3 := by
    split at hwr
    · exact (writeRows_frameR _ hwr).1
    · simp only [Except.ok.injEq] at hwr
      subst hwr
      exact CoreEqR.refl _
  have hc3 := hc2.congr h3
  intro m hm
  show CoreR m.st (m.mine ++ H) tn
  rcases List.mem_append.mp hm with hm | hm
  · exact perEnsTrace_coreR status _ h0 hper m hm
  · exact sortTrace_coreR fuel hc3 m hm

/-! ### pick (with pick_traj_ens) -/

theorem pathAt_of_getD {s : St} {e pn : Nat} (h : s.trajs.getD e none = some pn) : pathAt s e = pn := by
  unfold pathAt; rw [h]; rfl

/-- the sub-steps of one elementary `swap(t, e); lock(e)` of `pick` / `pick_traj_ens` -/
theorem lockStepTrace_coreR {s s2 : St} {H : List (Nat × Nat)} {tn : Nat} (h : CoreR s H tn) (t e : Nat)
    (hpos : 0 < entryM (prob s) t e) (hl : lock (swap s t e) e = .ok s2)
    (hfresh : s.toinitiate < 0 ∨ s.locked0 = []) :
    CoreR (swap s t e) H tn ∧ s2 = locked1 (swap s t e) e ∧
      CoreR s2 ((e, pathAt s2 e) :: H) tn ∧ (s2.toinitiate < 0 ∨ s2.locked0 = []) := by
  obtain ⟨ht, he, _⟩ := prob_posR h t e hpos
  obtain ⟨pn, hpn, hc2, ha2, _⟩ := lockStep_coreR h t e hpos hl hfresh
  obtain ⟨_, hs2⟩ := lock_ok hl
  refine ⟨swap_coreR h t e ht he hfresh, hs2, ?_, ?_⟩
  · rw [pathAt_of_getD hpn]; exact hc2
  · rw [ha2.toinitiate, ha2.locked0]; exact hfresh

/-- **every sub-step of `pick()`** (incl. the partner pick of a zero swap) -/
theorem pickTrace_coreR {s s' : St} {H : List (Nat × Nat)} {tn : Nat} (h : CoreR s H tn) (o : PickOutcome)
    (pairs : List (Int × Option Nat)) (ds : List Draw) (hp : pickCore s o = .ok (s', pairs, ds))
    (hfresh : s.toinitiate < 0 ∨ s.locked0 = []) :
    ∀ m ∈ pickTrace s o, CoreR m.st (m.mine ++ H) tn := by
  unfold pickCore at hp
  unfold pickTrace
  simp only [] at hp ⊢
  split at hp
  · exact absurd hp (by simp)
  rename_i hpos
  have hpos : 0 < entryM (prob s) o.t o.e := Classical.not_not.mp hpos
  split at hp
  · exact absurd hp (by simp)
  rename_i s2 hl
  obtain ⟨hc1, hs2, hc2, hfresh2⟩ := lockStepTrace_coreR h o.t o.e hpos hl hfresh
  rw [← hs2]
  generalize hother : (if (o.e == off) = true then off - 1 else off) = other at hp ⊢
  split at hp
  · -- zero swap
    rename_i hzs
    rw [if_pos hzs]
    split at hp
    · exact absurd hp (by simp)
    rename_i hpos2
    rw [col_getD] at hpos2
    have hpos2 : 0 < entryM (prob s2) o.partner other := Classical.not_not.mp hpos2
    split at hp
    · exact absurd hp (by simp)
    rename_i s4 hl4
    obtain ⟨hc3, hs4, hc4, _⟩ := lockStepTrace_coreR hc2 o.partner other hpos2 hl4 hfresh2
    rw [← hs4]
    intro m hm
    simp only [List.mem_append, List.mem_cons, List.mem_nil_iff, or_false] at hm
    rcases hm with (rfl | rfl) | rfl | rfl
    · exact hc1
    · exact hc2
    · exact hc3
    · exact hc4
  · rename_i hzs
    rw [if_neg hzs]
    intro m hm
    simp only [List.mem_cons, List.mem_nil_iff, or_false] at hm
    rcases hm with rfl | rfl
    · exact hc1
    · exact hc2

/-! ### the re-issue branch of pick_lock -/

theorem reissueTrace_coreR : ∀ (l : List (Nat × Nat)) {s s' : St} {H acc : List (Nat × Nat)} {tn : Nat}
    {pairs : List (Int × Option Nat)},
    CoreR s (acc ++ H) tn → 0 ≤ s.toinitiate → (l.map Prod.fst).Nodup →
    (∀ e pn, (e, pn) ∈ l →
      s.locks[e]? = some false ∧ s.trajs[e]? = some (some pn) ∧ entryM s.W e e ≠ 0) →
    (∀ e pn, (e, pn) ∈ l → e ∉ (held0 s.locked0).map Prod.fst) →
    reissue.go s l = .ok (s', pairs) →
    ∀ m ∈ reissueTrace s l acc, CoreR m.st (m.mine ++ H) tn := by
  intro l
  induction l with
  | nil =>
    intro s s' H acc tn pairs _ _ _ _ _ _ m hm
    simp [reissueTrace] at hm
  | cons x rest ih =>
    intro s s' H acc tn pairs h h0 hnd hok hnot hg
    obtain ⟨e, tr⟩ := x
    obtain ⟨hle, hte, hwe⟩ := hok e tr (List.mem_cons_self ..)
    have he := h.unlocked_lt e hle
    simp only [List.map_cons, List.nodup_cons] at hnd
    unfold reissue.go at hg
    unfold reissueTrace
    rw [findIdx_live h e tr he hte] at hg ⊢
    simp only [swap_self] at hg ⊢
    split at hg
    · exact absurd hg (by simp)
    rename_i s2 hl
    rw [hl]
    simp only []
    obtain ⟨_, hs2⟩ := lock_ok hl
    subst hs2
    split at hg
    · exact absurd hg (by simp)
    rename_i s3 ps hrec
    have hc2 : CoreR { s with locks := s.locks.set e true } ((e, tr) :: (acc ++ H)) tn :=
      lock_coreR h e tr hle hte hwe rfl rfl rfl rfl
        (fun h00 => (h.resv h00).lockOther e (hnot e tr (List.mem_cons_self ..)) rfl rfl rfl rfl)
    intro m hm
    rcases List.mem_cons.mp hm with rfl | hm
    · exact h
    rcases List.mem_cons.mp hm with rfl | hm
    · exact hc2
    · refine ih (s := { s with locks := s.locks.set e true }) (acc := (e, tr) :: acc) hc2 h0 hnd.2 ?_ ?_ hrec m hm
      · intro e' pn' hm'
        obtain ⟨h1, h2, h3⟩ := hok e' pn' (List.mem_cons_of_mem _ hm')
        have hne : e ≠ e' := by
          intro heq
          exact hnd.1 (List.mem_map.mpr ⟨(e', pn'), hm', heq.symm⟩)
        exact ⟨by show (s.locks.set e true)[e']? = _; rw [List.getElem?_set_ne hne]; exact h1, h2, h3⟩
      · exact fun e' pn' hm' => hnot e' pn' (List.mem_cons_of_mem _ hm')

/-! ### prep_md_items (its pick part) -/

/-- **every sub-step of the `pick_lock()` / `pick()` part of `prep_md_items`**: with `H` = what the
    jobs in flight hold, every snapshot satisfies the invariant for `mine ++ H`, `mine` being what the
    job under construction has locked so far -/
theorem prepTrace_coreR {s s' : St} {H : List (Nat × Nat)} (prev : Option Nat) (o : PickOutcome)
    (saved : Nat) (job : Job) (ds : List Draw) (hc : CoreR s H s.trajNum)
    (hp : prep s prev o saved = .ok (s', job, ds)) :
    ∀ m ∈ prepTrace s o saved, CoreR m.st (m.mine ++ H) s.trajNum := by
  unfold prep at hp
  unfold prepTrace
  simp only [] at hp
  by_cases h0 : s.toinitiate ≥ 0
  · rw [if_pos h0] at hp ⊢
    split at hp
    · exact absurd hp (by simp)
    rename_i s1 ps ds1 hpl
    unfold pickLock at hpl
    split at hpl
    · -- nothing left to re-issue: a fresh pick
      rename_i hnil
      rw [hnil]
      simp only []
      have hc' := hc.congr (restoreStreamOnce_coreEqR s saved)
      have hfr : (restoreStreamOnce s saved).toinitiate < 0 ∨ (restoreStreamOnce s saved).locked0 = [] :=
        Or.inr (by rw [(restoreStreamOnce_coreEqR s saved).locked0]; exact hnil)
      unfold pick at hpl
      split at hpl
      · exact absurd hpl (by simp)
      rename_i s2 pairs ds2 hpc
      exact pickTrace_coreR hc' o pairs ds2 hpc hfr
    · -- the first recorded job is handed out again
      rename_i enss0 trajs0 rest hcons
      rw [hcons]
      simp only []
      split at hpl
      · exact absurd hpl (by simp)
      rename_i s2 pairs hre
      have hR := hc.resv h0
      have hnd := hR.nodup
      rw [hcons, held0_cons, List.map_append, List.nodup_append] at hnd
      have hok : ∀ e pn, (e, pn) ∈ enss0.zip trajs0 →
          s.locks[e]? = some false ∧ s.trajs[e]? = some (some pn) ∧ entryM s.W e e ≠ 0 := by
        intro e pn hm
        apply hR.ok
        rw [hcons, held0_cons]
        exact List.mem_append_left _ hm
      have hc0 : CoreR { s with locked0 := rest, locked0Ord := s.locked0Ord.tail } ([] ++ H) s.trajNum := by
        refine { hc with resv := ?_ }
        intro _
        constructor
        · intro en hen
          exact hR.shape en (by rw [hcons]; exact List.mem_cons_of_mem _ hen)
        · exact hnd.2.1
        · intro e pn hm
          apply hR.ok
          rw [hcons, held0_cons]
          exact List.mem_append_right _ hm
      unfold reissue at hre
      exact reissueTrace_coreR (enss0.zip trajs0) hc0 h0 hnd.1 hok
        (by
          intro e pn hm hin
          exact hnd.2.2 e (List.mem_map.mpr ⟨(e, pn), hm, rfl⟩) e hin rfl)
        hre
  · rw [if_neg h0] at hp ⊢
    split at hp
    · exact absurd hp (by simp)
    rename_i s1 ps ds1 hpk
    unfold pick at hpk
    split at hpk
    · exact absurd hpk (by simp)
    rename_i s2 pairs ds2 hpc
    exact pickTrace_coreR hc o pairs ds2 hpc (Or.inl (by omega))

/-! ### the traces end in the state the big-step functions return -/

theorem perEnsTrace_last (status : Status) : ∀ (l : List (Picked × List Rat)) {s s' : St} {tn tn' : Nat}
    {pns : List Nat}, l ≠ [] → treatOutput.perEns status s tn l = .ok (s', tn', pns) →
    (perEnsTrace status s tn l).getLast? = some { tag := .unlock, st := s', mine := [] } := by
  intro l
  induction l with
  | nil => intro s s' tn tn' pns hne _; exact absurd rfl hne
  | cons pw rest ih =>
    intro s s' tn tn' pns _ hp
    obtain ⟨p, w⟩ := pw
    unfold treatOutput.perEns at hp
    unfold perEnsTrace
    simp only [] at hp ⊢
    split at hp
    · rename_i hacc
      rw [if_pos hacc]
      split at hp
      · exact absurd hp (by simp)
      rename_i s3 hadd
      split at hp
      · exact absurd hp (by simp)
      rename_i s4 tn4 pns4 hrec
      simp only [Except.ok.injEq, Prod.mk.injEq] at hp
      obtain ⟨rfl, rfl, _⟩ := hp
      rw [hadd]
      simp only []
      rw [List.getLast?_append]
      cases rest with
      | nil =>
        simp only [treatOutput.perEns, Except.ok.injEq, Prod.mk.injEq] at hrec
        obtain ⟨rfl, _, _⟩ := hrec
        simp only [perEnsTrace, List.getLast?_nil, Option.none_or]
        rw [addTrajTrace_last hadd]
        rfl
      | cons q rest' =>
        rw [ih (by simp) hrec]
        rfl
    · rename_i hacc
      rw [if_neg hacc]
      split at hp
      · exact absurd hp (by simp)
      rename_i wOld hw
      split at hp
      · exact absurd hp (by simp)
      rename_i s3 hadd
      split at hp
      · exact absurd hp (by simp)
      rename_i s4 tn4 pns4 hrec
      simp only [Except.ok.injEq, Prod.mk.injEq] at hp
      obtain ⟨rfl, rfl, _⟩ := hp
      rw [hw]
      simp only []
      rw [hadd]
      simp only []
      rw [List.getLast?_append]
      cases rest with
      | nil =>
        simp only [treatOutput.perEns, Except.ok.injEq, Prod.mk.injEq] at hrec
        obtain ⟨rfl, _, _⟩ := hrec
        simp only [perEnsTrace, List.getLast?_nil, Option.none_or]
        rw [addTrajTrace_last hadd]
        rfl
      | cons q rest' =>
        rw [ih (by simp) hrec]
        rfl

theorem sortTrace_last : ∀ (fuel : Nat) {s s' : St} {k : Nat}, sortTrajstate fuel s = .ok (s', k) →
    (k = 0 ∧ s' = s ∧ sortTrace fuel s = []) ∨
    (sortTrace fuel s).getLast? = some { tag := .sortSwap, st := s', mine := [] } := by
  intro fuel
  induction fuel with
  | zero => intro s s' k hs; simp [sortTrajstate] at hs
  | succ fuel ih =>
    intro s s' k hs
    unfold sortTrajstate at hs
    unfold sortTrace
    split at hs
    · exact absurd hs (by simp)
    · rename_i hstep
      simp only [Except.ok.injEq, Prod.mk.injEq] at hs
      obtain ⟨rfl, rfl⟩ := hs
      rw [hstep]
      exact Or.inl ⟨rfl, rfl, rfl⟩
    · rename_i s1 hstep
      rw [hstep]
      simp only []
      split at hs
      · exact absurd hs (by simp)
      · rename_i s2 k2 hrec
        simp only [Except.ok.injEq, Prod.mk.injEq] at hs
        obtain ⟨rfl, _⟩ := hs
        right
        rcases ih hrec with ⟨_, rfl, hnil⟩ | hlast
        · rw [hnil]; rfl
        · rw [List.getLast?_cons, hlast]; rfl

/-- **the last sub-step of `treat_output` is the state it returns** (on the fields the invariant
    reads), and by then the completing job holds nothing -/
theorem treatTrace_last {s s' : St} (job : Job) (status : Status) (newW : List (List Rat)) (fuel : Nat)
    (pns : List Nat) (it : Nat) (hne : job.picked ≠ [])
    (ht : treatOutput s job status newW fuel = .ok (s', pns, it)) :
    ∃ m, (treatTrace s job status newW fuel).getLast? = some m ∧ m.mine = [] ∧
      m.st.W = s'.W ∧ m.st.trajs = s'.trajs ∧ m.st.locks = s'.locks := by
  unfold treatOutput at ht
  unfold treatTrace
  simp only [] at ht ⊢
  generalize hws : (if status = Status.acc then newW else job.picked.map (fun _ => [])) = ws at ht ⊢
  split at ht
  · exact absurd ht (by simp)
  rename_i hlen
  have hlen := Classical.not_not.mp hlen
  split at ht
  · exact absurd ht (by simp)
  rename_i s1 tn pnNews hper
  split at ht
  · exact absurd ht (by simp)
  rename_i s2 hrec
  split at ht
  · exact absurd ht (by simp)
  rename_i s3 hwr
  split at ht
  · exact absurd ht (by simp)
  rename_i s4 iters hsort
  simp only [Except.ok.injEq, Prod.mk.injEq] at ht
  obtain ⟨rfl, _, _⟩ := ht
  rw [hper]
  simp only []
  rw [hrec]
  simp only []
  rw [hwr]
  simp only []
  have hzne : job.picked.zip ws ≠ [] := by
    intro h0
    have := congrArg List.length h0
    simp only [List.length_zip, List.length_nil] at this
    have : job.picked.length = 0 := by omega
    exact hne (List.eq_nil_of_length_eq_zero this)
  have hl1 := perEnsTrace_last status _ hzne hper
  obtain ⟨hce2, _⟩ := recordFrac_frameR hrec
  have h3 : CoreEqR s2 s3 := by
    split at hwr
    · exact (writeRows_frameR _ hwr).1
    · simp only [Except.ok.injEq] at hwr
      subst hwr
      exact CoreEqR.refl _
  rw [List.getLast?_append]
  rcases sortTrace_last fuel hsort with ⟨_, rfl, hnil⟩ | hlast
  · rw [hnil, hl1]
    refine ⟨_, rfl, rfl, ?_, ?_, ?_⟩
    · exact (h3.W.trans hce2.W).symm
    · exact (h3.trajs.trans hce2.trajs).symm
    · exact (h3.locks.trans hce2.locks).symm
  · rw [hlast]
    exact ⟨_, rfl, rfl, rfl, rfl, rfl⟩

/-- two descriptions of what is held besides `H` agree (states that agree on slots and flags) -/
theorem held_unique {s t : St} {A B H : List (Nat × Nat)} {ta tb : Nat}
    (ha : CoreR s (A ++ H) ta) (hb : CoreR t (B ++ H) tb) (hn : t.n = s.n) (hT : t.trajs = s.trajs)
    (hL : t.locks = s.locks) : A.Perm B := by
  have key : ∀ {s t : St} {A B : List (Nat × Nat)} {ta tb : Nat}, CoreR s (A ++ H) ta → CoreR t (B ++ H) tb →
      t.n = s.n → t.trajs = s.trajs → t.locks = s.locks → ∀ x, x ∈ A → x ∈ B := by
    intro s t A B ta tb ha hb hn hT hL x hx
    obtain ⟨e, pn⟩ := x
    obtain ⟨hlt, htr, _⟩ := ha.heldOk e pn (List.mem_append_left _ hx)
    have hlk := ha.held_locked e pn (List.mem_append_left _ hx)
    have hndA := ha.nodup
    rw [List.map_append, List.nodup_append] at hndA
    have hnotH : e ∉ H.map Prod.fst := fun hin =>
      hndA.2.2 e (List.mem_map.mpr ⟨(e, pn), hx, rfl⟩) e hin rfl
    have hin := (hb.busy e (by rw [hn]; exact hlt)).mp (by rw [hL]; exact hlk)
    rw [List.map_append, List.mem_append] at hin
    rcases hin with hin | hin
    · obtain ⟨⟨e', pn'⟩, hm, he'⟩ := List.mem_map.mp hin
      have he' : e' = e := he'
      subst he'
      obtain ⟨_, htr', _⟩ := hb.heldOk e' pn' (List.mem_append_left _ hm)
      rw [hT, htr] at htr'
      have : pn = pn' := by simpa using htr'
      subst this
      exact hm
    · exact absurd hin hnotH
  have ndA : A.Nodup := by
    have := ha.nodup
    rw [List.map_append, List.nodup_append] at this
    simpa using nodup_map_of_nodup_map Prod.fst id A this.1 (fun x _ y _ h => by rw [show x = y from h])
  have ndB : B.Nodup := by
    have := hb.nodup
    rw [List.map_append, List.nodup_append] at this
    simpa using nodup_map_of_nodup_map Prod.fst id B this.1 (fun x _ y _ h => by rw [show x = y from h])
  exact (List.perm_ext_iff_of_nodup ndA ndB).mpr
    (fun x => ⟨key ha hb hn hT hL x, key hb ha hn.symm hT.symm hL.symm x⟩)

theorem pickTrace_last {s s' : St} (o : PickOutcome) (pairs : List (Int × Option Nat)) (ds : List Draw)
    (hp : pickCore s o = .ok (s', pairs, ds)) :
    ∃ m, (pickTrace s o).getLast? = some m ∧ m.st = s' := by
  unfold pickCore at hp
  unfold pickTrace
  simp only [] at hp ⊢
  split at hp
  · exact absurd hp (by simp)
  split at hp
  · exact absurd hp (by simp)
  rename_i s2 hl
  obtain ⟨_, hs2⟩ := lock_ok hl
  have hs2' : s2 = locked1 (swap s o.t o.e) o.e := hs2
  rw [← hs2']
  generalize hother : (if (o.e == off) = true then off - 1 else off) = other at hp ⊢
  split at hp
  · rename_i hzs
    rw [if_pos hzs]
    split at hp
    · exact absurd hp (by simp)
    split at hp
    · exact absurd hp (by simp)
    rename_i s4 hl4
    obtain ⟨_, hs4⟩ := lock_ok hl4
    have hs4' : s4 = locked1 (swap s2 o.partner other) other := hs4
    rw [← hs4']
    simp only [Except.ok.injEq, Prod.mk.injEq] at hp
    obtain ⟨rfl, _, _⟩ := hp
    exact ⟨_, rfl, rfl⟩
  · rename_i hzs
    rw [if_neg hzs]
    simp only [Except.ok.injEq, Prod.mk.injEq] at hp
    obtain ⟨rfl, _, _⟩ := hp
    exact ⟨_, rfl, rfl⟩

theorem reissueTrace_last : ∀ (l : List (Nat × Nat)) {s s' : St} {H acc : List (Nat × Nat)} {tn : Nat}
    {pairs : List (Int × Option Nat)},
    CoreR s (acc ++ H) tn → 0 ≤ s.toinitiate → (l.map Prod.fst).Nodup →
    (∀ e pn, (e, pn) ∈ l →
      s.locks[e]? = some false ∧ s.trajs[e]? = some (some pn) ∧ entryM s.W e e ≠ 0) →
    (∀ e pn, (e, pn) ∈ l → e ∉ (held0 s.locked0).map Prod.fst) →
    reissue.go s l = .ok (s', pairs) → l ≠ [] →
    ∃ m, (reissueTrace s l acc).getLast? = some m ∧ m.st = s' := by
  intro l
  induction l with
  | nil => intro s s' H acc tn pairs _ _ _ _ _ _ hne; exact absurd rfl hne
  | cons x rest ih =>
    intro s s' H acc tn pairs h h0 hnd hok hnot hg _
    obtain ⟨e, tr⟩ := x
    obtain ⟨hle, hte, hwe⟩ := hok e tr (List.mem_cons_self ..)
    have he := h.unlocked_lt e hle
    simp only [List.map_cons, List.nodup_cons] at hnd
    unfold reissue.go at hg
    unfold reissueTrace
    rw [findIdx_live h e tr he hte] at hg ⊢
    simp only [swap_self] at hg ⊢
    split at hg
    · exact absurd hg (by simp)
    rename_i s2 hl
    rw [hl]
    simp only []
    obtain ⟨_, hs2⟩ := lock_ok hl
    subst hs2
    split at hg
    · exact absurd hg (by simp)
    rename_i s3 ps hrec
    simp only [Except.ok.injEq, Prod.mk.injEq] at hg
    obtain ⟨rfl, _⟩ := hg
    have hc2 : CoreR { s with locks := s.locks.set e true } ((e, tr) :: (acc ++ H)) tn :=
      lock_coreR h e tr hle hte hwe rfl rfl rfl rfl
        (fun h00 => (h.resv h00).lockOther e (hnot e tr (List.mem_cons_self ..)) rfl rfl rfl rfl)
    cases rest with
    | nil =>
      simp only [reissue.go, Except.ok.injEq, Prod.mk.injEq] at hrec
      obtain ⟨rfl, _⟩ := hrec
      exact ⟨_, rfl, rfl⟩
    | cons y rest' =>
      obtain ⟨m, hm, hst⟩ := ih (s := { s with locks := s.locks.set e true }) (acc := (e, tr) :: acc) hc2 h0 hnd.2
        (by
          intro e' pn' hm'
          obtain ⟨h1, h2, h3⟩ := hok e' pn' (List.mem_cons_of_mem _ hm')
          have hne : e ≠ e' := by
            intro heq
            exact hnd.1 (List.mem_map.mpr ⟨(e', pn'), hm', heq.symm⟩)
          exact ⟨by show (s.locks.set e true)[e']? = _; rw [List.getElem?_set_ne hne]; exact h1, h2, h3⟩)
        (fun e' pn' hm' => hnot e' pn' (List.mem_cons_of_mem _ hm')) hrec (by simp)
      refine ⟨m, ?_, hst⟩
      rw [List.getLast?_cons, List.getLast?_cons, hm]
      rfl

/-- **the last sub-step of the pick part of `prep_md_items` is the state it returns** (on the fields
    the invariant reads), and by then the job under construction holds exactly what the returned
    `md_items` lists -/
theorem prepTrace_last {s s' : St} {H : List (Nat × Nat)} (prev : Option Nat) (o : PickOutcome)
    (saved : Nat) (job : Job) (ds : List Draw) (hc : CoreR s H s.trajNum)
    (hp : prep s prev o saved = .ok (s', job, ds)) :
    ∃ m, (prepTrace s o saved).getLast? = some m ∧ m.st.W = s'.W ∧ m.st.trajs = s'.trajs ∧
      m.st.locks = s'.locks ∧ m.mine.Perm (heldJob job) := by
  have hspec := (prep_specR prev o saved job ds hc hp).1
  have htr := prepTrace_coreR prev o saved job ds hc hp
  suffices hl : ∃ m, (prepTrace s o saved).getLast? = some m ∧ m.st.n = s'.n ∧ m.st.W = s'.W ∧
      m.st.trajs = s'.trajs ∧ m.st.locks = s'.locks by
    obtain ⟨m, hm, hn, hW, hT, hL⟩ := hl
    refine ⟨m, hm, hW, hT, hL, ?_⟩
    have hmem : m ∈ prepTrace s o saved := List.mem_of_getLast? hm
    exact held_unique (htr m hmem) hspec hn.symm hT.symm hL.symm
  unfold prep at hp
  unfold prepTrace
  simp only [] at hp
  by_cases h0 : s.toinitiate ≥ 0
  · rw [if_pos h0] at hp ⊢
    split at hp
    · exact absurd hp (by simp)
    rename_i s1 ps ds1 hpl
    have hs' : s'.n = s1.n ∧ s'.W = s1.W ∧ s'.trajs = s1.trajs ∧ s'.locks = s1.locks := by
      split at hp
      · exact absurd hp (by simp)
      split at hp
      · exact absurd hp (by simp)
      split at hp
      · exact absurd hp (by simp)
      simp only [Except.ok.injEq, Prod.mk.injEq] at hp
      obtain ⟨rfl, _, _⟩ := hp
      exact ⟨rfl, rfl, rfl, rfl⟩
    obtain ⟨e1, e2, e3, e4⟩ := hs'
    rw [e1, e2, e3, e4]
    unfold pickLock at hpl
    split at hpl
    · rename_i hnil
      rw [hnil]
      simp only []
      unfold pick at hpl
      split at hpl
      · exact absurd hpl (by simp)
      rename_i s2 pairs ds2 hpc
      split at hpl
      · exact absurd hpl (by simp)
      simp only [Except.ok.injEq, Prod.mk.injEq] at hpl
      obtain ⟨rfl, _, _⟩ := hpl
      obtain ⟨m, hm, rfl⟩ := pickTrace_last o pairs ds2 hpc
      exact ⟨m, hm, rfl, rfl, rfl, rfl⟩
    · rename_i enss0 trajs0 rest hcons
      rw [hcons]
      simp only []
      split at hpl
      · exact absurd hpl (by simp)
      rename_i s2 pairs hre
      split at hpl
      · exact absurd hpl (by simp)
      simp only [Except.ok.injEq, Prod.mk.injEq] at hpl
      obtain ⟨rfl, _, _⟩ := hpl
      have hR := hc.resv h0
      have hsh := hR.shape (enss0, trajs0) (by rw [hcons]; exact List.mem_cons_self ..)
      simp only at hsh
      have hnd := hR.nodup
      rw [hcons, held0_cons, List.map_append, List.nodup_append] at hnd
      have hok : ∀ e pn, (e, pn) ∈ enss0.zip trajs0 →
          s.locks[e]? = some false ∧ s.trajs[e]? = some (some pn) ∧ entryM s.W e e ≠ 0 := by
        intro e pn hm
        apply hR.ok
        rw [hcons, held0_cons]
        exact List.mem_append_left _ hm
      have hc0 : CoreR { s with locked0 := rest, locked0Ord := s.locked0Ord.tail } ([] ++ H) s.trajNum := by
        refine { hc with resv := ?_ }
        intro _
        constructor
        · intro en hen
          exact hR.shape en (by rw [hcons]; exact List.mem_cons_of_mem _ hen)
        · exact hnd.2.1
        · intro e pn hm
          apply hR.ok
          rw [hcons, held0_cons]
          exact List.mem_append_right _ hm
      have hzne : enss0.zip trajs0 ≠ [] := by
        intro hz
        have := congrArg List.length hz
        simp only [List.length_zip, List.length_nil] at this
        have hl1 := hsh.1
        have hlen : 1 ≤ enss0.length := by
          rcases hsh.2 with h1 | h2
          · omega
          · rw [h2]; simp
        omega
      unfold reissue at hre
      obtain ⟨m, hm, rfl⟩ := reissueTrace_last (enss0.zip trajs0) hc0 h0 hnd.1 hok
        (by
          intro e pn hm hin
          exact hnd.2.2 e (List.mem_map.mpr ⟨(e, pn), hm, rfl⟩) e hin rfl)
        hre hzne
      exact ⟨m, hm, rfl, rfl, rfl, rfl⟩
  · rw [if_neg h0] at hp ⊢
    split at hp
    · exact absurd hp (by simp)
    rename_i s1 ps ds1 hpk
    have hs' : s'.n = s1.n ∧ s'.W = s1.W ∧ s'.trajs = s1.trajs ∧ s'.locks = s1.locks := by
      split at hp
      · exact absurd hp (by simp)
      split at hp
      · exact absurd hp (by simp)
      split at hp
      · exact absurd hp (by simp)
      simp only [Except.ok.injEq, Prod.mk.injEq] at hp
      obtain ⟨rfl, _, _⟩ := hp
      exact ⟨rfl, rfl, rfl, rfl⟩
    obtain ⟨e1, e2, e3, e4⟩ := hs'
    rw [e1, e2, e3, e4]
    unfold pick at hpk
    split at hpk
    · exact absurd hpk (by simp)
    rename_i s2 pairs ds2 hpc
    split at hpk
    · exact absurd hpk (by simp)
    simp only [Except.ok.injEq, Prod.mk.injEq] at hpk
    obtain ⟨rfl, _, _⟩ := hpk
    obtain ⟨m, hm, rfl⟩ := pickTrace_last o pairs ds2 hpc
    exact ⟨m, hm, rfl, rfl, rfl, rfl⟩

/-! ### what the ghost list `mine` is along a `treat_output` trace -/

theorem map_fst_drop_zip {α β : Type} : ∀ (a : List α) (b : List β) (i : Nat), a.length = b.length →
    ((a.zip b).drop i).map Prod.fst = a.drop i := by
  intro a
  induction a with
  | nil => intro b i _; simp
  | cons x a ih =>
    intro b i h
    cases b with
    | nil => simp at h
    | cons y b =>
      cases i with
      | zero =>
        simp only [List.drop_zero]
        exact List.map_fst_zip (by simp at h ⊢; omega)
      | succ i =>
        simp only [List.zip_cons_cons, List.drop_succ_cons]
        exact ih b i (by simpa using h)

theorem perEnsTrace_mine (status : Status) : ∀ (l : List (Picked × List Rat)) {s : St} {tn : Nat},
    ∀ m ∈ perEnsTrace status s tn l, ∃ i, i ≤ l.length ∧
      m.mine.map Prod.fst = (pairsOfPicked (l.drop i)).map Prod.fst ∧ m.tag ≠ .sortSwap ∧
      (m.tag = .unlock → m.mine = pairsOfPicked (l.drop i) ∧ 1 ≤ i) := by
  intro l
  induction l with
  | nil => intro s tn m hm; simp [perEnsTrace] at hm
  | cons pw rest ih =>
    intro s tn m hm
    obtain ⟨p, w⟩ := pw
    have hadd : ∀ (s0 : St) (pn : Nat) (v : List Rat), m ∈ addTrajTrace s0 p.ens pn v (pairsOfPicked rest) →
        ∃ i, i ≤ ((p, w) :: rest).length ∧
          m.mine.map Prod.fst = (pairsOfPicked (((p, w) :: rest).drop i)).map Prod.fst ∧ m.tag ≠ .sortSwap ∧
          (m.tag = .unlock → m.mine = pairsOfPicked (((p, w) :: rest).drop i) ∧ 1 ≤ i) := by
      intro s0 pn v hm
      unfold addTrajTrace at hm
      simp only [List.mem_cons, List.mem_nil_iff, or_false] at hm
      rcases hm with rfl | rfl | rfl
      · exact ⟨0, by simp, by simp [pairsOfPicked, off], by simp, by simp⟩
      · exact ⟨0, by simp, by simp [pairsOfPicked, off], by simp, by simp⟩
      · exact ⟨1, by simp, by simp, by simp, by simp⟩
    have htail : ∀ (s0 : St) (tn0 : Nat), m ∈ perEnsTrace status s0 tn0 rest →
        ∃ i, i ≤ ((p, w) :: rest).length ∧
          m.mine.map Prod.fst = (pairsOfPicked (((p, w) :: rest).drop i)).map Prod.fst ∧ m.tag ≠ .sortSwap ∧
          (m.tag = .unlock → m.mine = pairsOfPicked (((p, w) :: rest).drop i) ∧ 1 ≤ i) := by
      intro s0 tn0 hm
      obtain ⟨i, hi, h1, h2, h3⟩ := ih m hm
      exact ⟨i + 1, by simp; omega, by simpa using h1, h2, fun ht => ⟨by simpa using (h3 ht).1, by omega⟩⟩
    unfold perEnsTrace at hm
    simp only [] at hm
    split at hm
    · split at hm
      · simp at hm
      · rcases List.mem_append.mp hm with hm | hm
        · exact hadd _ _ _ hm
        · exact htail _ _ hm
    · split at hm
      · simp at hm
      · split at hm
        · simp at hm
        · rcases List.mem_append.mp hm with hm | hm
          · exact hadd _ _ _ hm
          · exact htail _ _ hm

theorem sortTrace_mine : ∀ (fuel : Nat) {s : St}, ∀ m ∈ sortTrace fuel s, m.mine = [] ∧ m.tag = .sortSwap := by
  intro fuel
  induction fuel with
  | zero => intro s m hm; simp [sortTrace] at hm
  | succ fuel ih =>
    intro s m hm
    unfold sortTrace at hm
    split at hm
    · rcases List.mem_cons.mp hm with rfl | hm
      · exact ⟨rfl, rfl⟩
      · exact ih m hm
    · simp at hm

/-- **what the completing job still holds at a sub-step of `treat_output`**: the ensembles of a
    suffix of its picked list (those before have been released by `unlock`, in order); outside the
    two window sub-steps of `add_traj` with their path numbers as handed out -/
theorem treatTrace_mine {s s' : St} (job : Job) (status : Status) (newW : List (List Rat)) (fuel : Nat)
    (pns : List Nat) (it : Nat) (ht : treatOutput s job status newW fuel = .ok (s', pns, it)) :
    ∀ m ∈ treatTrace s job status newW fuel, ∃ i, i ≤ job.picked.length ∧
      m.mine.map Prod.fst = (job.picked.drop i).map slotOf ∧
      ((m.tag = .unlock ∨ m.tag = .sortSwap) → m.mine = heldPicked (job.picked.drop i)) ∧
      (m.tag = .sortSwap → i = job.picked.length) := by
  unfold treatOutput at ht
  unfold treatTrace
  simp only [] at ht ⊢
  generalize (if status = Status.acc then newW else job.picked.map (fun _ => [])) = ws at ht ⊢
  have hlen : ws.length = job.picked.length := by
    split at ht
    · exact absurd ht (by simp)
    rename_i hlen
    exact Classical.not_not.mp hlen
  clear ht
  have hdrop : ∀ i, ((job.picked.zip ws).drop i).map Prod.fst = job.picked.drop i :=
    fun i => map_fst_drop_zip job.picked ws i hlen.symm
  have hper : ∀ m ∈ perEnsTrace status s s.trajNum (job.picked.zip ws), ∃ i, i ≤ job.picked.length ∧
      m.mine.map Prod.fst = (job.picked.drop i).map slotOf ∧
      ((m.tag = .unlock ∨ m.tag = .sortSwap) → m.mine = heldPicked (job.picked.drop i)) ∧
      (m.tag = .sortSwap → i = job.picked.length) := by
    intro m hm
    obtain ⟨i, hi, h1, h2, h3⟩ := perEnsTrace_mine status _ m hm
    refine ⟨i, by simpa [List.length_zip, hlen] using hi, ?_, ?_, fun h => absurd h h2⟩
    · rw [h1, pairsOfPicked_eq, hdrop]
      simp [heldPicked, List.map_map, Function.comp_def]
    · intro ht
      rcases ht with ht | ht
      · rw [(h3 ht).1, pairsOfPicked_eq, hdrop]
      · exact absurd ht h2
  have hsort : ∀ fuel' s3, ∀ m ∈ sortTrace fuel' s3, ∃ i, i ≤ job.picked.length ∧
      m.mine.map Prod.fst = (job.picked.drop i).map slotOf ∧
      ((m.tag = .unlock ∨ m.tag = .sortSwap) → m.mine = heldPicked (job.picked.drop i)) ∧
      (m.tag = .sortSwap → i = job.picked.length) := by
    intro fuel' s3 m hm
    obtain ⟨h1, _⟩ := sortTrace_mine fuel' m hm
    exact ⟨job.picked.length, Nat.le_refl _, by rw [h1]; simp, fun _ => by rw [h1]; simp [heldPicked], fun _ => rfl⟩
  intro m hm
  split at hm
  · exact hper m hm
  · split at hm
    · exact hper m hm
    · split at hm
      · exact hper m hm
      · rcases List.mem_append.mp hm with hm | hm
        · exact hper m hm
        · exact hsort _ _ m hm

end Infretis.Repex.Micro
