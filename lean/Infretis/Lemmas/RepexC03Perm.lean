import Infretis.Lemmas.PermEmbed
import Infretis.Model.Repex
/-!
# Facts about `probMatrix` used by the scheduler properties (C03, reusable by C04/C05)

A positive entry `(t, e)` of `probMatrix W locks` implies
* slot `t` is unlocked            (`probMatrix_pos_unlocked_row`)
* slot `e` is unlocked            (`probMatrix_pos_unlocked_col`)
* `entry W t e ≠ 0`               (`probMatrix_pos_entry_ne_zero`)
-/
namespace Infretis.Perm

theorem keep_getD_rank_c03 {α : Type} (d : α) (locks : List Bool) (xs : List α) (i : Nat)
    (h : locks[i]? = some false) :
    (keep locks xs).getD (rank locks i) d = xs.getD i d := by
  induction locks generalizing xs i with
  | nil => simp at h
  | cons l ls ih =>
    cases xs with
    | nil => simp [keep]
    | cons x xs =>
      cases i with
      | zero =>
        simp only [List.getElem?_cons_zero, Option.some.injEq] at h
        subst h
        simp [keep, rank]
      | succ i =>
        simp only [List.getElem?_cons_succ] at h
        cases l with
        | true => simpa [keep, rank] using ih xs i h
        | false => simpa [keep, rank] using ih xs i h

/-- an idle-block entry is the entry of `W` at the original positions -/
theorem idle_entry (W : Mat) (locks : List Bool) (t e : Nat) (hW : W.length = locks.length)
    (ht : locks[t]? = some false) (he : locks[e]? = some false) :
    entry (idle W locks) (rank locks t) (rank locks e) = entry W t e := by
  unfold entry idle
  have h1 : ((keep locks W).map (keep locks)).getD (rank locks t) []
      = keep locks (W.getD t []) := by
    have hr : rank locks t < (keep locks W).length := by
      rw [keep_length locks W hW]; exact rank_lt locks t ht
    rw [List.getD_eq_getElem?_getD, List.getElem?_map, List.getElem?_eq_getElem hr]
    simp only [Option.map_some, Option.getD_some]
    have := keep_getD_rank_c03 ([] : Row) locks W t ht
    rw [List.getD_eq_getElem?_getD, List.getElem?_eq_getElem hr] at this
    simp only [Option.getD_some] at this
    rw [this]
  rw [h1]
  exact keep_getD_rank_c03 0 locks _ e he

/-- entries outside the matrix read as 0 -/
theorem probMatrix_length (W : Mat) (locks : List Bool) (hW : W.length = locks.length) :
    (probMatrix W locks).length = locks.length := by
  unfold probMatrix embed
  apply reinsert_length
  simp [specMat, idle_length W locks hW]

theorem mem_reinsert {α : Type} (z : α) (locks : List Bool) (xs : List α) (r : α)
    (h : r ∈ reinsert z locks xs) : r = z ∨ r ∈ xs := by
  induction locks generalizing xs with
  | nil => exact Or.inr (by simpa [reinsert] using h)
  | cons l ls ih =>
    cases l with
    | true =>
      simp only [reinsert, List.mem_cons] at h
      rcases h with h | h
      · exact Or.inl h
      · exact ih xs h
    | false =>
      cases xs with
      | nil => simp only [reinsert] at h; exact ih [] h
      | cons x xs =>
        simp only [reinsert, List.mem_cons] at h
        rcases h with h | h
        · exact Or.inr (by simp [h])
        · rcases ih xs h with h' | h'
          · exact Or.inl h'
          · exact Or.inr (by simp [h'])

theorem probMatrix_row_length (W : Mat) (locks : List Bool) (hW : W.length = locks.length)
    (r : Row) (hr : r ∈ probMatrix W locks) : r.length = locks.length := by
  unfold probMatrix embed at hr
  rcases mem_reinsert _ _ _ _ hr with h | h
  · subst h; simp
  · simp only [List.mem_map] at h
    obtain ⟨r0, hr0, rfl⟩ := h
    exact reinsert_length 0 locks r0 (specRow_reinsert_length W locks hW r0 hr0)

/-- **a positive entry sits in an unlocked row** -/
theorem probMatrix_pos_unlocked_row (W : Mat) (locks : List Bool) (hW : W.length = locks.length)
    (t e : Nat) (hpos : 0 < entry (probMatrix W locks) t e) : locks[t]? = some false := by
  cases h : locks[t]? with
  | none =>
    exfalso
    have hge : locks.length ≤ t := by
      rcases Nat.lt_or_ge t locks.length with h' | h'
      · simp [List.getElem?_eq_getElem h'] at h
      · exact h'
    have : entry (probMatrix W locks) t e = 0 := by
      unfold entry
      rw [List.getD_eq_getElem?_getD (l := probMatrix W locks),
        List.getElem?_eq_none (by rw [probMatrix_length W locks hW]; exact hge)]
      rfl
    rw [this] at hpos
    exact absurd hpos (by decide)
  | some b =>
    cases b with
    | false => rfl
    | true =>
      exfalso
      rw [probMatrix_busy W locks hW t e (Or.inl h)] at hpos
      exact absurd hpos (by decide)

/-- **a positive entry sits in an unlocked column** -/
theorem probMatrix_pos_unlocked_col (W : Mat) (locks : List Bool) (hW : W.length = locks.length)
    (t e : Nat) (hpos : 0 < entry (probMatrix W locks) t e) : locks[e]? = some false := by
  have ht := probMatrix_pos_unlocked_row W locks hW t e hpos
  cases h : locks[e]? with
  | none =>
    exfalso
    have hge : locks.length ≤ e := by
      rcases Nat.lt_or_ge e locks.length with h' | h'
      · simp [List.getElem?_eq_getElem h'] at h
      · exact h'
    have htl : t < (probMatrix W locks).length := by
      rw [probMatrix_length W locks hW]
      rcases Nat.lt_or_ge t locks.length with h' | h'
      · exact h'
      · simp [List.getElem?_eq_none h'] at ht
    have : entry (probMatrix W locks) t e = 0 := by
      unfold entry
      rw [List.getD_eq_getElem?_getD (l := probMatrix W locks), List.getElem?_eq_getElem htl]
      simp only [Option.getD_some]
      rw [List.getD_eq_getElem?_getD, List.getElem?_eq_none]
      · rfl
      · rw [probMatrix_row_length W locks hW _ (List.getElem_mem htl)]; exact hge
    rw [this] at hpos
    exact absurd hpos (by decide)
  | some b =>
    cases b with
    | false => rfl
    | true =>
      exfalso
      rw [probMatrix_busy W locks hW t e (Or.inr h)] at hpos
      exact absurd hpos (by decide)

/-- **a positive entry needs a non-zero weight of path `t` in ensemble `e`** -/
theorem probMatrix_pos_entry_ne_zero (W : Mat) (locks : List Bool) (hW : W.length = locks.length)
    (t e : Nat) (hpos : 0 < entry (probMatrix W locks) t e) : entry W t e ≠ 0 := by
  have ht := probMatrix_pos_unlocked_row W locks hW t e hpos
  have he := probMatrix_pos_unlocked_col W locks hW t e hpos
  intro h0
  rw [probMatrix_idle W locks hW t e ht he,
    spec_zero_of_zero _ _ _ (by rw [idle_entry W locks t e hW ht he]; exact h0)] at hpos
  exact absurd hpos (by decide)

end Infretis.Perm
