import Infretis.Lemmas.RepexC03Step
/-!
# C03 across restarts — the slot / lock invariant with jobs still to be re-issued (`CoreR`)

`Core` (RepexC03Core) demands `locked0 = []`.  After a restart `locked0` lists the jobs that were in
flight at the stop; `pick_lock` re-issues them one by one while `toinitiate ≥ 0`.  `CoreR` is `Core`
without that demand plus `Resv`: as long as `toinitiate ≥ 0`, every recorded (slot, path) still to
be re-issued sits idle ("reserved") in its slot with a non-zero own-ensemble weight, recorded slots
are pairwise distinct, and a record is one ensemble or exactly `[0-],[0+]`.
Once `toinitiate < 0` nothing is re-issued any more and the leftover records carry no obligation.
The proofs of the shared part are those of RepexC03Core/Treat, re-run for `CoreR`
(the originals are used by other packages and are left untouched).
-/
namespace Infretis.Repex
open Infretis.Perm

/-- the (slot, path) pairs recorded in `locked0` -/
def held0 (l0 : List (List Nat × List Nat)) : List (Nat × Nat) := l0.flatMap (fun en => en.1.zip en.2)

theorem held0_cons (hd : List Nat × List Nat) (rest : List (List Nat × List Nat)) :
    held0 (hd :: rest) = hd.1.zip hd.2 ++ held0 rest := by simp [held0]

/-- the recorded jobs still to be re-issued are "reserved" -/
structure Resv (s : St) : Prop where
  shape : ∀ en ∈ s.locked0, en.1.length = en.2.length ∧ (en.1.length = 1 ∨ en.1 = [0, 1])
  nodup : ((held0 s.locked0).map Prod.fst).Nodup
  ok : ∀ e pn, (e, pn) ∈ held0 s.locked0 →
    s.locks[e]? = some false ∧ s.trajs[e]? = some (some pn) ∧ entryM s.W e e ≠ 0

theorem Resv.ofNil {s : St} (h : s.locked0 = []) : Resv s := by
  constructor
  · rw [h]; simp
  · rw [h]; simp [held0]
  · rw [h]; simp [held0]

theorem Resv.congr {s s' : St} (h : Resv s) (h0 : s'.locked0 = s.locked0) (hL : s'.locks = s.locks)
    (hT : s'.trajs = s.trajs) (hW : s'.W = s.W) : Resv s' := by
  constructor
  · rw [h0]; exact h.shape
  · rw [h0]; exact h.nodup
  · rw [h0, hL, hT, hW]; exact h.ok

theorem Resv.ofFresh {s s' : St} (hfresh : s.toinitiate < 0 ∨ s.locked0 = [])
    (hto : s'.toinitiate = s.toinitiate) (h0 : s'.locked0 = s.locked0) :
    0 ≤ s'.toinitiate → Resv s' := by
  intro h
  rcases hfresh with hf | hf
  · rw [hto] at h; omega
  · exact Resv.ofNil (by rw [h0]; exact hf)

/-- releasing a locked slot does not touch the reserved ones (they are idle) -/
theorem Resv.unlock {s s' : St} (h : Resv s) (e : Nat) (hl : s.locks[e]? = some true) {x : Option Nat}
    {v : List Rat} (h0 : s'.locked0 = s.locked0) (hL : s'.locks = s.locks.set e false)
    (hT : s'.trajs = s.trajs.set e x) (hW : s'.W = s.W.set e v) : Resv s' := by
  constructor
  · rw [h0]; exact h.shape
  · rw [h0]; exact h.nodup
  · rw [h0]
    intro a pn hm
    obtain ⟨h1, h2, h3⟩ := h.ok a pn hm
    have hne : e ≠ a := by
      intro heq; rw [heq, h1] at hl; exact absurd hl (by simp)
    rw [hL, hT, hW, List.getElem?_set_ne hne, List.getElem?_set_ne hne,
      entryM_congr _ _ _ _ (List.getElem?_set_ne hne)]
    exact ⟨h1, h2, h3⟩

/-- locking a slot that is not reserved -/
theorem Resv.lockOther {s s' : St} (h : Resv s) (e : Nat)
    (hne : e ∉ (held0 s.locked0).map Prod.fst) (h0 : s'.locked0 = s.locked0)
    (hL : s'.locks = s.locks.set e true) (hT : s'.trajs = s.trajs) (hW : s'.W = s.W) : Resv s' := by
  constructor
  · rw [h0]; exact h.shape
  · rw [h0]; exact h.nodup
  · rw [h0]
    intro a pn hm
    obtain ⟨h1, h2, h3⟩ := h.ok a pn hm
    have hea : e ≠ a := by
      intro heq
      exact hne (List.mem_map.mpr ⟨(a, pn), hm, heq.symm⟩)
    rw [hL, hT, hW, List.getElem?_set_ne hea]
    exact ⟨h1, h2, h3⟩

structure CoreR (s : St) (H : List (Nat × Nat)) (tn : Nat) : Prop where
  n2 : 2 ≤ s.n
  lenW : s.W.length = s.n
  lenT : s.trajs.length = s.n
  lenL : s.locks.length = s.n
  ghost : s.locks[s.n - 1]? = some true
  busy : ∀ e, e < s.n - 1 → (s.locks[e]? = some true ↔ e ∈ H.map Prod.fst)
  nodup : (H.map Prod.fst).Nodup
  heldOk : ∀ e pn, (e, pn) ∈ H → e < s.n - 1 ∧ s.trajs[e]? = some (some pn) ∧ entryM s.W e e ≠ 0
  live : ∀ e, e < s.n - 1 → ∃ pn, s.trajs[e]? = some (some pn) ∧ pn < tn
  inj : ∀ a b pn, a < s.n - 1 → b < s.n - 1 →
    s.trajs[a]? = some (some pn) → s.trajs[b]? = some (some pn) → a = b
  resv : 0 ≤ s.toinitiate → Resv s

/-- equality of the fields `CoreR` does not talk about but the scheduler invariant needs -/

structure AuxEqR (s s' : St) : Prop where
  n : s'.n = s.n
  toinitiate : s'.toinitiate = s.toinitiate
  workers : s'.workers = s.workers
  cworker : s'.cworker = s.cworker
  occ : s'.occ = s.occ
  ensEng : s'.ensEng = s.ensEng
  trajNum : s'.trajNum = s.trajNum
  cstep : s'.cstep = s.cstep
  tsteps : s'.tsteps = s.tsteps
  locked0 : s'.locked0 = s.locked0

theorem AuxEqR.refl (s : St) : AuxEqR s s := ⟨rfl, rfl, rfl, rfl, rfl, rfl, rfl, rfl, rfl, rfl⟩

theorem AuxEqR.trans {a b c : St} (h1 : AuxEqR a b) (h2 : AuxEqR b c) : AuxEqR a c :=
  ⟨h2.n.trans h1.n, h2.toinitiate.trans h1.toinitiate, h2.workers.trans h1.workers,
   h2.cworker.trans h1.cworker, h2.occ.trans h1.occ, h2.ensEng.trans h1.ensEng,
   h2.trajNum.trans h1.trajNum, h2.cstep.trans h1.cstep, h2.tsteps.trans h1.tsteps,
   h2.locked0.trans h1.locked0⟩


structure CoreEqR (s s' : St) : Prop where
  n : s'.n = s.n
  W : s'.W = s.W
  trajs : s'.trajs = s.trajs
  locks : s'.locks = s.locks
  locked0 : s'.locked0 = s.locked0
  toinitiate : s'.toinitiate = s.toinitiate

theorem CoreEqR.refl (s : St) : CoreEqR s s := ⟨rfl, rfl, rfl, rfl, rfl, rfl⟩

theorem CoreEqR.trans {a b c : St} (h1 : CoreEqR a b) (h2 : CoreEqR b c) : CoreEqR a c :=
  ⟨h2.n.trans h1.n, h2.W.trans h1.W, h2.trajs.trans h1.trajs, h2.locks.trans h1.locks,
   h2.locked0.trans h1.locked0, h2.toinitiate.trans h1.toinitiate⟩

theorem CoreR.congr {s s' : St} {H : List (Nat × Nat)} {tn : Nat} (h : CoreR s H tn)
    (e : CoreEqR s s') : CoreR s' H tn := by
  obtain ⟨h1, h2, h3, h4, h5, h6⟩ := e
  constructor
  · rw [h1]; exact h.n2
  · rw [h1, h2]; exact h.lenW
  · rw [h1, h3]; exact h.lenT
  · rw [h1, h4]; exact h.lenL
  · rw [h1, h4]; exact h.ghost
  · rw [h1, h4]; exact h.busy
  · exact h.nodup
  · rw [h1, h2, h3]; exact h.heldOk
  · rw [h1, h3]; exact h.live
  · rw [h1, h3]; exact h.inj
  · rw [h6]; intro h0; exact (h.resv h0).congr h5 h4 h3 h2

theorem CoreR.perm {s : St} {H H' : List (Nat × Nat)} {tn : Nat} (h : CoreR s H tn)
    (hp : H.Perm H') : CoreR s H' tn :=
  { h with
    busy := fun e he => (h.busy e he).trans (hp.map Prod.fst).mem_iff
    nodup := (hp.map Prod.fst).nodup_iff.mp h.nodup
    heldOk := fun e pn hm => h.heldOk e pn (hp.mem_iff.mpr hm) }

theorem CoreR.mono {s : St} {H : List (Nat × Nat)} {tn tn' : Nat} (h : CoreR s H tn)
    (hle : tn ≤ tn') : CoreR s H tn' :=
  { h with
    live := fun e he => by
      obtain ⟨pn, h1, h2⟩ := h.live e he
      exact ⟨pn, h1, by omega⟩ }

/-- an unlocked slot is a real (non-ghost) slot -/
theorem CoreR.unlocked_lt {s : St} {H : List (Nat × Nat)} {tn : Nat} (h : CoreR s H tn) (e : Nat)
    (he : s.locks[e]? = some false) : e < s.n - 1 := by
  have h1 := getElem?_lt_of_some _ _ _ he
  rw [h.lenL] at h1
  have h2 := h.ghost
  by_cases heq : e = s.n - 1
  · rw [heq, h2] at he; exact absurd he (by simp)
  · omega

/-- a held slot is locked -/
theorem CoreR.held_locked {s : St} {H : List (Nat × Nat)} {tn : Nat} (h : CoreR s H tn) (e pn : Nat)
    (hm : (e, pn) ∈ H) : s.locks[e]? = some true :=
  (h.busy e (h.heldOk e pn hm).1).mpr (List.mem_map.mpr ⟨(e, pn), hm, rfl⟩)


/-! ### swap of two idle slots -/

theorem swap_coreR {s : St} {H : List (Nat × Nat)} {tn : Nat} (h : CoreR s H tn) (i j : Nat)
    (hi : s.locks[i]? = some false) (hj : s.locks[j]? = some false)
    (hfresh : s.toinitiate < 0 ∨ s.locked0 = []) :
    CoreR (swap s i j) H tn := by
  have hi' := h.unlocked_lt i hi
  have hj' := h.unlocked_lt j hj
  have hiT : i < s.trajs.length := by rw [h.lenT]; omega
  have hjT : j < s.trajs.length := by rw [h.lenT]; omega
  have hiW : i < s.W.length := by rw [h.lenW]; omega
  have hjW : j < s.W.length := by rw [h.lenW]; omega
  have hT : ∀ k, (swap s i j).trajs[k]?
      = s.trajs[if k = j then i else if k = i then j else k]? := by
    intro k
    show (swapList s.trajs i j)[k]? = _
    rw [swapList_getElem? _ _ _ _ hiT hjT]
    split
    · rfl
    · split <;> rfl
  have hWk : ∀ k, k ≠ i → k ≠ j → (swap s i j).W[k]? = s.W[k]? := by
    intro k h1 h2
    show (swapList s.W i j)[k]? = _
    rw [swapList_getElem? _ _ _ _ hiW hjW, if_neg h2, if_neg h1]
  have hσ : ∀ k, k < s.n - 1 → (if k = j then i else if k = i then j else k) < s.n - 1 := by
    intro k hk
    split
    · exact hi'
    · split
      · exact hj'
      · exact hk
  constructor
  · exact h.n2
  · show (swapList s.W i j).length = s.n
    rw [swapList_length]; exact h.lenW
  · show (swapList s.trajs i j).length = s.n
    rw [swapList_length]; exact h.lenT
  · exact h.lenL
  · exact h.ghost
  · exact h.busy
  · exact h.nodup
  · intro e pn hm
    obtain ⟨h1, h2, h3⟩ := h.heldOk e pn hm
    have hl := h.held_locked e pn hm
    have hei : e ≠ i := by intro heq; rw [heq, hi] at hl; exact absurd hl (by simp)
    have hej : e ≠ j := by intro heq; rw [heq, hj] at hl; exact absurd hl (by simp)
    refine ⟨h1, ?_, ?_⟩
    · rw [hT e, if_neg hej, if_neg hei]; exact h2
    · rw [entryM_congr _ _ _ _ (hWk e hei hej)]; exact h3
  · intro e he
    rw [hT e]
    exact h.live _ (hσ e he)
  · intro a b pn ha hb h1 h2
    rw [hT a] at h1
    rw [hT b] at h2
    have := h.inj _ _ pn (hσ a ha) (hσ b hb) h1 h2
    split at this <;> split at this <;> (try split at this) <;> (try split at this) <;> omega
  · intro h0
    rcases hfresh with hf | hf
    · exact absurd h0 (by show ¬ (0 ≤ s.toinitiate); omega)
    · exact Resv.ofNil (by show s.locked0 = []; exact hf)


/-! ### lock -/

theorem lock_coreR {s s' : St} {H : List (Nat × Nat)} {tn : Nat} (h : CoreR s H tn) (e pn : Nat)
    (he : s.locks[e]? = some false) (hp : s.trajs[e]? = some (some pn)) (hw : entryM s.W e e ≠ 0)
    (hn : s'.n = s.n) (hW : s'.W = s.W) (hT : s'.trajs = s.trajs)
    (hL : s'.locks = s.locks.set e true) (hres : 0 ≤ s'.toinitiate → Resv s') :
    CoreR s' ((e, pn) :: H) tn := by
  have he' := h.unlocked_lt e he
  have heL : e < s.locks.length := by rw [h.lenL]; omega
  have hnot : e ∉ H.map Prod.fst := by
    intro hm
    have := (h.busy e he').mpr hm
    rw [he] at this; exact absurd this (by simp)
  constructor
  · rw [hn]; exact h.n2
  · rw [hn, hW]; exact h.lenW
  · rw [hn, hT]; exact h.lenT
  · rw [hn, hL, List.length_set]; exact h.lenL
  · rw [hn, hL, List.getElem?_set_ne (by omega)]; exact h.ghost
  · intro x hx
    rw [hn] at hx
    rw [hL]
    by_cases hxe : x = e
    · subst hxe
      rw [List.getElem?_set_self heL]
      simp
    · rw [List.getElem?_set_ne (fun h => hxe h.symm), h.busy x hx]
      simp [hxe]
  · simp only [List.map_cons, List.nodup_cons]
    exact ⟨hnot, h.nodup⟩
  · intro x q hm
    rw [hn, hW, hT]
    rcases List.mem_cons.mp hm with hm | hm
    · obtain ⟨rfl, rfl⟩ := Prod.mk.inj hm
      exact ⟨he', hp, hw⟩
    · exact h.heldOk x q hm
  · rw [hn, hT]; exact h.live
  · rw [hn, hT]; exact h.inj
  · exact hres


/-! ### unlock with a (new or unchanged) path: `add_traj` -/

theorem unlock_coreR {s s' : St} {H : List (Nat × Nat)} {tn tn' : Nat} (e pnOld pn : Nat) (v : List Rat)
    (h : CoreR s ((e, pnOld) :: H) tn)
    (hv : v.getD e 0 ≠ 0)
    (hfresh : ∀ b, b < s.n - 1 → b ≠ e → s.trajs[b]? ≠ some (some pn))
    (hpn : pn < tn') (hle : tn ≤ tn')
    (hn : s'.n = s.n) (hW : s'.W = s.W.set e v) (hT : s'.trajs = s.trajs.set e (some pn))
    (hL : s'.locks = s.locks.set e false) (h0 : s'.locked0 = s.locked0)
    (hto : s'.toinitiate = s.toinitiate) :
    CoreR s' H tn' := by
  have he' : e < s.n - 1 := (h.heldOk e pnOld (List.mem_cons_self ..)).1
  have heL : e < s.locks.length := by rw [h.lenL]; omega
  have heT : e < s.trajs.length := by rw [h.lenT]; omega
  have heW : e < s.W.length := by rw [h.lenW]; omega
  have hnd := h.nodup
  simp only [List.map_cons, List.nodup_cons] at hnd
  constructor
  · rw [hn]; exact h.n2
  · rw [hn, hW, List.length_set]; exact h.lenW
  · rw [hn, hT, List.length_set]; exact h.lenT
  · rw [hn, hL, List.length_set]; exact h.lenL
  · rw [hn, hL, List.getElem?_set_ne (by omega)]; exact h.ghost
  · intro x hx
    rw [hn] at hx
    rw [hL]
    by_cases hxe : x = e
    · subst hxe
      rw [List.getElem?_set_self heL]
      simp only [Option.some.injEq, Bool.false_eq_true, false_iff]
      exact hnd.1
    · rw [List.getElem?_set_ne (fun h => hxe h.symm), h.busy x hx]
      simp [hxe]
  · exact hnd.2
  · intro x q hm
    have hxe : x ≠ e := by
      intro heq; subst heq
      exact hnd.1 (List.mem_map.mpr ⟨(x, q), hm, rfl⟩)
    obtain ⟨h1, h2, h3⟩ := h.heldOk x q (List.mem_cons_of_mem _ hm)
    rw [hn, hW, hT]
    refine ⟨h1, ?_, ?_⟩
    · rw [List.getElem?_set_ne (fun h => hxe h.symm)]; exact h2
    · rw [entryM_congr _ _ _ _ (List.getElem?_set_ne (fun h => hxe h.symm))]; exact h3
  · intro x hx
    rw [hn] at hx
    rw [hT]
    by_cases hxe : x = e
    · subst hxe
      exact ⟨pn, List.getElem?_set_self heT, hpn⟩
    · rw [List.getElem?_set_ne (fun h => hxe h.symm)]
      obtain ⟨q, h1, h2⟩ := h.live x hx
      exact ⟨q, h1, by omega⟩
  · intro a b q ha hb h1 h2
    rw [hn] at ha hb
    rw [hT] at h1 h2
    by_cases hae : a = e
    · by_cases hbe : b = e
      · rw [hae, hbe]
      · exfalso
        subst hae
        rw [List.getElem?_set_self heT] at h1
        rw [List.getElem?_set_ne (fun h => hbe h.symm)] at h2
        have : q = pn := by simpa using h1.symm
        subst this
        exact hfresh b hb hbe h2
    · by_cases hbe : b = e
      · exfalso
        subst hbe
        rw [List.getElem?_set_self heT] at h2
        rw [List.getElem?_set_ne (fun h => hae h.symm)] at h1
        have : q = pn := by simpa using h2.symm
        subst this
        exact hfresh a ha hae h1
      · rw [List.getElem?_set_ne (fun h => hae h.symm)] at h1
        rw [List.getElem?_set_ne (fun h => hbe h.symm)] at h2
        exact h.inj a b q ha hb h1 h2
  · rw [hto]
    intro h00
    exact (h.resv h00).unlock e (h.held_locked e pnOld (List.mem_cons_self ..)) h0 hL hT hW


/-! ### one pick: choose `(t, e)` with positive probability, swap, lock `e` -/

theorem prob_posR {s : St} {H : List (Nat × Nat)} {tn : Nat} (h : CoreR s H tn) (t e : Nat)
    (hpos : 0 < entryM (prob s) t e) :
    s.locks[t]? = some false ∧ s.locks[e]? = some false ∧ entryM s.W t e ≠ 0 := by
  have hW : s.W.length = s.locks.length := by rw [h.lenW, h.lenL]
  exact ⟨probMatrix_pos_unlocked_row s.W s.locks hW t e hpos,
    probMatrix_pos_unlocked_col s.W s.locks hW t e hpos,
    probMatrix_pos_entry_ne_zero s.W s.locks hW t e hpos⟩

theorem AuxEqR.swap (s : St) (i j : Nat) : AuxEqR s (swap s i j) := ⟨rfl, rfl, rfl, rfl, rfl, rfl, rfl, rfl, rfl, rfl⟩

/-- the elementary step of `pick`: a positive-probability `(t, e)`, `swap(t, e)`, `lock(e)` -/
theorem lockStep_coreR {s s2 : St} {H : List (Nat × Nat)} {tn : Nat} (h : CoreR s H tn) (t e : Nat)
    (hpos : 0 < entryM (prob s) t e) (hl : lock (swap s t e) e = .ok s2)
    (hfresh : s.toinitiate < 0 ∨ s.locked0 = []) :
    ∃ pn, s2.trajs.getD e none = some pn ∧ CoreR s2 ((e, pn) :: H) tn ∧ AuxEqR s s2 ∧
      s.locks[t]? = some false ∧ s.locks[e]? = some false ∧ s2.locks = s.locks.set e true ∧
      s2.locked = s.locked := by
  obtain ⟨ht, he, hw⟩ := prob_posR h t e hpos
  have hc := swap_coreR h t e ht he hfresh
  obtain ⟨_, hs2⟩ := lock_ok hl
  have ht' := h.unlocked_lt t ht
  have he' := h.unlocked_lt e he
  have htT : t < s.trajs.length := by rw [h.lenT]; omega
  have heT : e < s.trajs.length := by rw [h.lenT]; omega
  have htW : t < s.W.length := by rw [h.lenW]; omega
  have heW : e < s.W.length := by rw [h.lenW]; omega
  obtain ⟨pn, hpn, _⟩ := h.live t ht'
  have hTe : (swap s t e).trajs[e]? = some (some pn) := by
    show (swapList s.trajs t e)[e]? = _
    rw [swapList_getElem? _ _ _ _ htT heT, if_pos rfl]; exact hpn
  have hWe : (swap s t e).W[e]? = s.W[t]? := by
    show (swapList s.W t e)[e]? = _
    rw [swapList_getElem? _ _ _ _ htW heW, if_pos rfl]
  have hwe : entryM (swap s t e).W e e ≠ 0 := by
    have : entryM (swap s t e).W e e = entryM s.W t e := by
      simp only [entryM, List.getD_eq_getElem?_getD, hWe]
    rw [this]; exact hw
  subst hs2
  refine ⟨pn, ?_, ?_, ⟨rfl, rfl, rfl, rfl, rfl, rfl, rfl, rfl, rfl, rfl⟩, ht, he, rfl, rfl⟩
  · show (swap s t e).trajs.getD e none = some pn
    rw [List.getD_eq_getElem?_getD, hTe]; rfl
  · exact lock_coreR hc e pn he hTe hwe rfl rfl rfl rfl (Resv.ofFresh hfresh rfl rfl)


/-- **`pick()` without the bookkeeping.**  The result holds one ensemble, or exactly `[0-]` and
    `[0+]`; the latter only if both were idle before the pick. -/
theorem pickCore_coreR {s s' : St} {H : List (Nat × Nat)} {tn : Nat} (h : CoreR s H tn) (o : PickOutcome)
    (pairs : List (Int × Option Nat)) (ds : List Draw) (hp : pickCore s o = .ok (s', pairs, ds))
    (hfresh : s.toinitiate < 0 ∨ s.locked0 = []) :
    ∃ L : List (Int × Nat), pairs = pairsOf L ∧ CoreR s' (slotsOf L ++ H) tn ∧ AuxEqR s s' ∧
      (L.length = 1 ∨ (L.map Prod.fst = [-1, 0] ∧
        s.locks[0]? = some false ∧ s.locks[1]? = some false)) ∧ (∀ x ∈ L, -1 ≤ x.1) ∧
      s'.locked = s.locked := by
  unfold pickCore at hp
  simp only [] at hp
  split at hp
  · exact absurd hp (by simp)
  rename_i hpos
  have hpos : 0 < entryM (prob s) o.t o.e := Classical.not_not.mp hpos
  split at hp
  · exact absurd hp (by simp)
  rename_i s2 hl
  obtain ⟨pn, hpn, hc2, ha2, hlt, hle, hL2, hlk2⟩ := lockStep_coreR h o.t o.e hpos hl hfresh
  have hfresh2 : s2.toinitiate < 0 ∨ s2.locked0 = [] := by
    rw [ha2.toinitiate, ha2.locked0]; exact hfresh
  have he' := h.unlocked_lt o.e hle
  split at hp
  · -- zero swap
    rename_i hzs
    simp only [Bool.and_eq_true, Bool.or_eq_true] at hzs
    by_cases he1 : (o.e == off) = true
    · have he1' : o.e = 1 := by simpa [off] using he1
      simp only [he1, ↓reduceIte] at hp
      split at hp
      · exact absurd hp (by simp)
      rename_i hpos2
      rw [col_getD] at hpos2
      have hpos2 : 0 < entryM (prob s2) o.partner (off - 1) := Classical.not_not.mp hpos2
      split at hp
      · exact absurd hp (by simp)
      rename_i s4 hl4
      obtain ⟨pn2, hpn2, hc4, ha4, _, hlo, _, hlk4⟩ := lockStep_coreR hc2 _ _ hpos2 hl4 hfresh2
      simp only [Except.ok.injEq, Prod.mk.injEq] at hp
      obtain ⟨rfl, hpairs, _⟩ := hp
      rw [hpn, hpn2] at hpairs
      refine ⟨[(-1, pn2), (0, pn)], hpairs.symm, ?_, ha2.trans ha4, Or.inr ⟨rfl, ?_, ?_⟩, by simp,
        hlk4.trans hlk2⟩
      · have : slotsOf [((-1 : Int), pn2), (0, pn)] = [(off - 1, pn2), (o.e, pn)] := by
          simp [slotsOf, off, he1']
        rw [this]
        exact hc4
      · rw [hL2, he1', List.getElem?_set_ne (by decide)] at hlo
        simpa [off] using hlo
      · rw [← he1']; exact hle
    · have he0 : o.e = 0 := by
        rcases hzs.1 with hz | hz
        · exact absurd hz.1 he1
        · simpa [off] using hz.1
      have he1f : (o.e == off) = false := by simpa using he1
      simp only [he1f, Bool.false_eq_true, ↓reduceIte] at hp
      split at hp
      · exact absurd hp (by simp)
      rename_i hpos2
      rw [col_getD] at hpos2
      have hpos2 : 0 < entryM (prob s2) o.partner off := Classical.not_not.mp hpos2
      split at hp
      · exact absurd hp (by simp)
      rename_i s4 hl4
      obtain ⟨pn2, hpn2, hc4, ha4, _, hlo, _, hlk4⟩ := lockStep_coreR hc2 _ _ hpos2 hl4 hfresh2
      simp only [Except.ok.injEq, Prod.mk.injEq] at hp
      obtain ⟨rfl, hpairs, _⟩ := hp
      rw [hpn, hpn2] at hpairs
      refine ⟨[(-1, pn), (0, pn2)], hpairs.symm, ?_, ha2.trans ha4, Or.inr ⟨rfl, ?_, ?_⟩, by simp,
        hlk4.trans hlk2⟩
      · have : slotsOf [((-1 : Int), pn), (0, pn2)] = [(o.e, pn), (off, pn2)] := by
          simp [slotsOf, off, he0]
        rw [this]
        exact hc4.perm (List.Perm.swap _ _ _)
      · rw [← he0]; exact hle
      · rw [hL2, he0, List.getElem?_set_ne (by decide)] at hlo
        simpa [off] using hlo
  · simp only [Except.ok.injEq, Prod.mk.injEq] at hp
    obtain ⟨rfl, hpairs, _⟩ := hp
    rw [hpn] at hpairs
    refine ⟨[((o.e : Int) - (off : Int), pn)], hpairs.symm, ?_, ha2, Or.inl rfl,
      by simp [off], hlk2⟩
    have : slotsOf [((o.e : Int) - (off : Int), pn)] = [(o.e, pn)] := by
      simp [slotsOf, off]
    rw [this]
    exact hc2

theorem pick_coreR {s s' : St} {H : List (Nat × Nat)} {tn : Nat} (h : CoreR s H tn) (o : PickOutcome)
    (ps : List Picked) (ds : List Draw) (hp : pick s o = .ok (s', ps, ds))
    (hfresh : s.toinitiate < 0 ∨ s.locked0 = []) :
    CoreR s' (heldPicked ps ++ H) tn ∧ AuxEqR s s' ∧ (∀ p ∈ ps, p.engIdx = []) ∧
      PickShape s.locks ps ∧ (∀ p ∈ ps, -1 ≤ p.ens) ∧
      s'.locked = s.locked ++ [(ps.map (·.ens), ps.map (·.pn))] := by
  unfold pick at hp
  split at hp
  · exact absurd hp (by simp)
  rename_i s1 pairs ds1 hpc
  obtain ⟨L, rfl, hc, ha, hshape, hge, hlk⟩ := pickCore_coreR h o pairs ds1 hpc hfresh
  split at hp
  · exact absurd hp (by simp)
  rename_i ps1 hmk
  unfold mkPicked at hmk
  obtain ⟨hmap, heng⟩ := mkPicked_go_spec _ L 0 ps1 hmk
  simp only [Except.ok.injEq, Prod.mk.injEq] at hp
  obtain ⟨rfl, rfl, _⟩ := hp
  refine ⟨?_, ?_, heng, ?_, ?_, ?_⟩
  · rw [heldPicked_of_map ps1 L hmap]
    exact hc.congr ⟨rfl, rfl, rfl, rfl, rfl, rfl⟩
  · exact ha.trans ⟨rfl, rfl, rfl, rfl, rfl, rfl, rfl, rfl, rfl, rfl⟩
  · have hlen : ps1.length = L.length := by rw [← hmap]; simp
    have hens : ps1.map (·.ens) = L.map Prod.fst := by rw [← hmap]; simp
    rcases hshape with h1 | h2
    · exact Or.inl (by rw [hlen]; exact h1)
    · exact Or.inr (by rw [hens]; exact h2)
  · intro p hp
    exact hge (p.ens, p.pn) (by rw [← hmap]; exact List.mem_map.mpr ⟨p, hp, rfl⟩)
  · show s1.locked ++ [((pairsOf L).map (·.1), ps1.map (·.pn))] = _
    rw [hlk]
    have : (pairsOf L).map (·.1) = ps1.map (·.ens) := by
      rw [← hmap]; simp [pairsOf, List.map_map, Function.comp_def]
    rw [this]

theorem restoreStreamOnce_coreEqR (s : St) (d : Nat) : CoreEqR s (restoreStreamOnce s d) := by
  unfold restoreStreamOnce
  split <;> exact ⟨rfl, rfl, rfl, rfl, rfl, rfl⟩

theorem restoreStreamOnce_auxEqR (s : St) (d : Nat) : AuxEqR s (restoreStreamOnce s d) := by
  unfold restoreStreamOnce
  split <;> exact ⟨rfl, rfl, rfl, rfl, rfl, rfl, rfl, rfl, rfl, rfl⟩

/-- `pick_lock()` on a state without jobs recorded in a restart file is `pick()` -/

theorem AuxEqR.toAux {s s' : St} (h : AuxEqR s s') : AuxEq s s' :=
  ⟨h.n, h.toinitiate, h.workers, h.cworker, h.occ, h.ensEng, h.trajNum, h.cstep, h.tsteps⟩

/-! ### the re-issue branch of `pick_lock` -/

theorem swapList_self {α : Type} (l : List α) (i : Nat) : swapList l i i = l := by
  unfold swapList
  cases h : l[i]? with
  | none => rfl
  | some a =>
    simp only []
    have hi := getElem?_lt_of_some _ _ _ h
    rw [List.getElem?_eq_getElem hi] at h
    simp only [Option.some.injEq] at h
    subst h
    simp

theorem swap_self (s : St) (e : Nat) : swap s e e = s := by
  unfold swap
  rw [swapList_self, swapList_self]

theorem findIdx_spec {α : Type} (p : α → Bool) (l : List α) (h : l.findIdx p < l.length) :
    ∃ a, l[l.findIdx p]? = some a ∧ p a = true :=
  ⟨l[l.findIdx p], List.getElem?_eq_getElem h, List.findIdx_getElem (w := h)⟩

/-- the recorded path is found in its own slot (live paths are pairwise distinct) -/
theorem findIdx_live {s : St} {H : List (Nat × Nat)} {tn : Nat} (h : CoreR s H tn) (e tr : Nat)
    (he : e < s.n - 1) (ht : s.trajs[e]? = some (some tr)) :
    findIdx? (livePaths s) (some tr) = some e := by
  unfold findIdx? livePaths
  simp only []
  have hlen : s.trajs.dropLast.length = s.n - 1 := by rw [List.length_dropLast, h.lenT]
  have hin : some tr ∈ s.trajs.dropLast := by
    apply List.mem_of_getElem? (i := e)
    rw [List.getElem?_dropLast, if_pos (by rw [h.lenT]; exact he)]
    exact ht
  split
  · rename_i hlt
    obtain ⟨a, ha, hpa⟩ := findIdx_spec _ _ hlt
    have haeq : a = some tr := by simpa using hpa
    subst haeq
    generalize List.findIdx _ s.trajs.dropLast = i at hlt ha ⊢
    have hi : i < s.n - 1 := by rw [← hlen]; exact hlt
    rw [List.getElem?_dropLast, if_pos (by rw [h.lenT]; exact hi)] at ha
    exact congrArg some (h.inj i e tr hi he ha ht)
  · rename_i hnlt
    exact absurd (List.findIdx_lt_length_of_exists ⟨some tr, hin, by simp⟩) hnlt

theorem reissueGo_coreR : ∀ (l : List (Nat × Nat)) {s s' : St} {H : List (Nat × Nat)} {tn : Nat}
    {pairs : List (Int × Option Nat)},
    CoreR s H tn → 0 ≤ s.toinitiate → (l.map Prod.fst).Nodup →
    (∀ e pn, (e, pn) ∈ l →
      s.locks[e]? = some false ∧ s.trajs[e]? = some (some pn) ∧ entryM s.W e e ≠ 0) →
    (∀ e pn, (e, pn) ∈ l → e ∉ (held0 s.locked0).map Prod.fst) →
    reissue.go s l = .ok (s', pairs) →
    pairs = l.map (fun x => ((x.1 : Int) - 1, some x.2)) ∧ CoreR s' (l ++ H) tn ∧ AuxEqR s s' ∧
      s'.locked = s.locked := by
  intro l
  induction l with
  | nil =>
    intro s s' H tn pairs h _ _ _ _ hg
    simp only [reissue.go, Except.ok.injEq, Prod.mk.injEq] at hg
    obtain ⟨rfl, rfl⟩ := hg
    exact ⟨rfl, h, AuxEqR.refl s, rfl⟩
  | cons x rest ih =>
    intro s s' H tn pairs h h0 hnd hok hnot hg
    obtain ⟨e, tr⟩ := x
    obtain ⟨hle, hte, hwe⟩ := hok e tr (List.mem_cons_self ..)
    have he := h.unlocked_lt e hle
    simp only [List.map_cons, List.nodup_cons] at hnd
    unfold reissue.go at hg
    rw [findIdx_live h e tr he hte] at hg
    simp only [swap_self] at hg
    split at hg
    · exact absurd hg (by simp)
    rename_i s2 hl
    obtain ⟨_, hs2⟩ := lock_ok hl
    subst hs2
    split at hg
    · exact absurd hg (by simp)
    rename_i s3 ps hrec
    simp only [Except.ok.injEq, Prod.mk.injEq] at hg
    obtain ⟨rfl, rfl⟩ := hg
    have hc2 : CoreR { s with locks := s.locks.set e true } ((e, tr) :: H) tn :=
      lock_coreR h e tr hle hte hwe rfl rfl rfl rfl
        (fun h00 => (h.resv h00).lockOther e (hnot e tr (List.mem_cons_self ..)) rfl rfl rfl rfl)
    obtain ⟨hp, hc3, ha3, hlk3⟩ := ih (s := { s with locks := s.locks.set e true }) hc2 h0 hnd.2
      (by
        intro e' pn' hm
        obtain ⟨h1, h2, h3⟩ := hok e' pn' (List.mem_cons_of_mem _ hm)
        have hne : e ≠ e' := by
          intro heq
          exact hnd.1 (List.mem_map.mpr ⟨(e', pn'), hm, heq.symm⟩)
        exact ⟨by show (s.locks.set e true)[e']? = _; rw [List.getElem?_set_ne hne]; exact h1, h2, h3⟩)
      (fun e' pn' hm => hnot e' pn' (List.mem_cons_of_mem _ hm)) hrec
    refine ⟨?_, hc3.perm ?_, AuxEqR.trans ?_ ha3, hlk3⟩
    rotate_left 2
    · exact ⟨rfl, rfl, rfl, rfl, rfl, rfl, rfl, rfl, rfl, rfl⟩
    · rw [hp]
      simp only [List.map_cons, List.cons.injEq, and_true, Prod.mk.injEq]
      refine ⟨by simp [off], ?_⟩
      show s.trajs.getD e none = some tr
      rw [List.getD_eq_getElem?_getD, hte]; rfl
    · exact (List.perm_middle).trans (List.Perm.refl _)

/-- the (ens_num, path) pairs of a recorded job -/
def recL (hd : List Nat × List Nat) : List (Int × Nat) := (hd.1.zip hd.2).map (fun x => ((x.1 : Int) - 1, x.2))

theorem slotsOf_recL (hd : List Nat × List Nat) : slotsOf (recL hd) = hd.1.zip hd.2 := by
  unfold slotsOf recL
  rw [List.map_map]
  have : ((fun x : Int × Nat => ((x.1 + 1).toNat, x.2)) ∘ fun x : Nat × Nat => ((x.1 : Int) - 1, x.2))
      = id := by
    funext x
    simp
  rw [this, List.map_id]

/-- **`pick_lock()`** in general: a fresh pick when nothing is left to re-issue, otherwise the
    first recorded job is handed out again, its (idle, reserved) slots are locked, the record is
    consumed.  In both cases the job goes on record in `locked`. -/
theorem pickLock_coreR {s s' : St} {H : List (Nat × Nat)} {tn : Nat} (h : CoreR s H tn) (h0 : 0 ≤ s.toinitiate)
    (o : PickOutcome) (d : Nat) (ps : List Picked) (ds : List Draw)
    (hp : pickLock s o d = .ok (s', ps, ds)) :
    CoreR s' (heldPicked ps ++ H) tn ∧ AuxEq s s' ∧ (∀ p ∈ ps, p.engIdx = []) ∧
      PickShape s.locks ps ∧ (∀ p ∈ ps, -1 ≤ p.ens) ∧
      s'.locked = s.locked ++ [(ps.map (·.ens), ps.map (·.pn))] ∧
      (s'.locked0 = s.locked0 ∨ ∃ hd, s.locked0 = hd :: s'.locked0) := by
  unfold pickLock at hp
  split at hp
  · rename_i hnil
    have hc := h.congr (restoreStreamOnce_coreEqR s d)
    have hfr : (restoreStreamOnce s d).toinitiate < 0 ∨ (restoreStreamOnce s d).locked0 = [] :=
      Or.inr (by rw [(restoreStreamOnce_coreEqR s d).locked0]; exact hnil)
    obtain ⟨h1, h2, h3, h4, h5, h6⟩ := pick_coreR hc o ps ds hp hfr
    have ha := (restoreStreamOnce_auxEqR s d).trans h2
    refine ⟨h1, ha.toAux, h3, ?_, h5, ?_, Or.inl ha.locked0⟩
    · rw [(restoreStreamOnce_coreEqR s d).locks] at h4
      exact h4
    · rw [h6]
      have : (restoreStreamOnce s d).locked = s.locked := by
        unfold restoreStreamOnce
        split <;> rfl
      rw [this]
  · rename_i enss0 trajs0 rest hcons
    split at hp
    · exact absurd hp (by simp)
    rename_i s1 pairs hre
    split at hp
    · exact absurd hp (by simp)
    rename_i ps1 hmk
    simp only [Except.ok.injEq, Prod.mk.injEq] at hp
    obtain ⟨rfl, rfl, _⟩ := hp
    have hR := h.resv h0
    have hsh := hR.shape (enss0, trajs0) (by rw [hcons]; exact List.mem_cons_self ..)
    simp only at hsh
    have hnd := hR.nodup
    rw [hcons, held0_cons, List.map_append, List.nodup_append] at hnd
    have hok : ∀ e pn, (e, pn) ∈ enss0.zip trajs0 →
        s.locks[e]? = some false ∧ s.trajs[e]? = some (some pn) ∧ entryM s.W e e ≠ 0 := by
      intro e pn hm
      apply hR.ok
      rw [hcons, held0_cons]
      exact List.mem_append_left _ hm
    -- the state handed to `reissue`: the first record removed
    have hc0 : CoreR { s with locked0 := rest, locked0Ord := s.locked0Ord.tail } H tn := by
      refine { h with resv := ?_ }
      intro _
      constructor
      · intro en hen
        exact hR.shape en (by rw [hcons]; exact List.mem_cons_of_mem _ hen)
      · exact hnd.2.1
      · intro e pn hm
        apply hR.ok
        rw [hcons, held0_cons]
        exact List.mem_append_right _ hm
    unfold reissue at hre
    obtain ⟨hpairs, hc1, ha1, hlk1⟩ := reissueGo_coreR (enss0.zip trajs0) hc0 h0 hnd.1 hok
      (by
        intro e pn hm hin
        exact hnd.2.2 e (List.mem_map.mpr ⟨(e, pn), hm, rfl⟩) e hin rfl)
      hre
    unfold mkPickedAt mkPicked at hmk
    have hpairs' : pairs = pairsOf (recL (enss0, trajs0)) := by
      rw [hpairs]
      simp [pairsOf, recL, List.map_map, Function.comp_def]
    rw [hpairs'] at hmk
    obtain ⟨hmap, heng⟩ := mkPicked_go_spec _ _ 0 ps1 hmk
    have hheld : heldPicked ps1 = enss0.zip trajs0 := by
      rw [heldPicked_of_map ps1 _ hmap, slotsOf_recL]
    have hens : ps1.map (·.ens) = enss0.map (fun (e : Nat) => (e : Int) - (off : Int)) := by
      have : ps1.map (·.ens) = (recL (enss0, trajs0)).map Prod.fst := by rw [← hmap]; simp
      rw [this]
      unfold recL
      rw [List.map_map]
      have h2 : (enss0.zip trajs0).map Prod.fst = enss0 := List.map_fst_zip (by omega)
      conv_rhs => rw [← h2]
      rw [List.map_map]
      simp [Function.comp_def, off]
    have hpns : ps1.map (·.pn) = trajs0 := by
      have : ps1.map (·.pn) = (recL (enss0, trajs0)).map Prod.snd := by rw [← hmap]; simp
      rw [this]
      unfold recL
      rw [List.map_map]
      have h2 : (enss0.zip trajs0).map Prod.snd = trajs0 := List.map_snd_zip (by omega)
      conv_rhs => rw [← h2]
      rfl
    refine ⟨?_, ?_, heng, ?_, ?_, ?_, Or.inr ⟨(enss0, trajs0), ?_⟩⟩
    · rw [hheld]
      exact hc1.congr (s' := reissued s s1 enss0 trajs0) ⟨rfl, rfl, rfl, rfl, rfl, rfl⟩
    · have := ha1.toAux
      refine AuxEq.trans (AuxEq.trans ?_ this) ?_
      · exact ⟨rfl, rfl, rfl, rfl, rfl, rfl, rfl, rfl, rfl⟩
      · exact ⟨rfl, rfl, rfl, rfl, rfl, rfl, rfl, rfl, rfl⟩
    · -- shape
      have hlen : ps1.length = enss0.length := by
        have := congrArg List.length hens
        simpa using this
      rcases hsh.2 with h1 | h2
      · exact Or.inl (by rw [hlen]; exact h1)
      · right
        refine ⟨by rw [hens, h2]; simp [off], ?_, ?_⟩
        · subst h2
          match trajs0, hsh.1 with
          | [a, b], _ => exact (hok 0 a (by simp)).1
        · subst h2
          match trajs0, hsh.1 with
          | [a, b], _ => exact (hok 1 b (by simp)).1
    · intro p hp
      have : p.ens ∈ ps1.map (·.ens) := List.mem_map.mpr ⟨p, hp, rfl⟩
      rw [hens] at this
      obtain ⟨e, _, he⟩ := List.mem_map.mp this
      rw [← he]
      simp [off]
    · show s1.locked ++ [(enss0.map (fun (e : Nat) => (e : Int) - (off : Int)), trajs0)] = _
      rw [hlk1, hens, hpns]
    · show s.locked0 = (enss0, trajs0) :: s1.locked0
      rw [ha1.locked0]
      exact hcons

end Infretis.Repex
