import Infretis.Lemmas.RepexC03RSys
/-!
# C03 across restarts — the two kinds of start states
-/
namespace Infretis.Repex
open Infretis.Perm

/-- The state `scheduler()` starts from after a RESTART: what `setup_config` (restart branch) +
    `REPEX_state.__init__` + `load_paths` rebuild from `restart.toml` — every ensemble slot idle and
    holding its own path (numbers below `trajNum`), only the ghost locked, nothing in flight yet,
    `locked = []`, `toinitiate = workers`, and `locked0` = the jobs that were in flight at the stop,
    still to be re-issued: their recorded slots are pairwise distinct, each recorded path sits in its
    recorded slot with a non-zero weight in that ensemble, and each record is one ensemble or exactly
    `[0-],[0+]` (`Resv`). -/
structure InitR (y : Sys) : Prop where
  jobs : y.jobs = []
  n2 : 2 ≤ y.s.n
  lenW : y.s.W.length = y.s.n
  lenT : y.s.trajs.length = y.s.n
  locks : y.s.locks = List.replicate (y.s.n - 1) false ++ [true]
  live : ∀ e, e < y.s.n - 1 → ∃ pn, y.s.trajs[e]? = some (some pn) ∧ pn < y.s.trajNum
  inj : ∀ a b pn, a < y.s.n - 1 → b < y.s.n - 1 →
    y.s.trajs[a]? = some (some pn) → y.s.trajs[b]? = some (some pn) → a = b
  resv : Resv y.s
  locked : y.s.locked = []
  toinit : y.s.toinitiate = (y.s.workers : Int)

theorem invR_of_fields {y : Sys} (hjobs : y.jobs = []) (hn : 2 ≤ y.s.n) (lenW : y.s.W.length = y.s.n)
    (lenT : y.s.trajs.length = y.s.n)
    (hlocks : y.s.locks = List.replicate (y.s.n - 1) false ++ [true])
    (live : ∀ e, e < y.s.n - 1 → ∃ pn, y.s.trajs[e]? = some (some pn) ∧ pn < y.s.trajNum)
    (inj : ∀ a b pn, a < y.s.n - 1 → b < y.s.n - 1 →
      y.s.trajs[a]? = some (some pn) → y.s.trajs[b]? = some (some pn) → a = b)
    (resv : Resv y.s) (toinit : y.s.toinitiate = (y.s.workers : Int)) : InvR y := by
  constructor
  · rw [hjobs]
    constructor
    · exact hn
    · exact lenW
    · exact lenT
    · rw [hlocks]; simp; omega
    · rw [hlocks, List.getElem?_append_right (by simp)]; simp
    · intro e he
      rw [hlocks, List.getElem?_append_left (by simpa using he)]
      simp [held, he]
    · simp [held]
    · intro e pn hm; simp [held] at hm
    · exact live
    · exact inj
    · exact fun _ => resv
  · rw [hjobs]; simp
  · rw [hjobs]; simp
  · rw [toinit]
  · rw [hjobs]; simp
  · rw [hjobs]; simp

theorem InitR.inv {y : Sys} (h : InitR y) : InvR y :=
  invR_of_fields h.jobs h.n2 h.lenW h.lenT h.locks h.live h.inj h.resv h.toinit

theorem Init.invR {y : Sys} (h : Init y) : InvR y :=
  invR_of_fields h.jobs h.n2 h.lenW h.lenT h.locks h.live h.inj (Resv.ofNil h.locked0) h.toinit

/-- a history starts from a fresh start or from a restart -/
def Start (y : Sys) : Prop := Init y ∨ InitR y

theorem Start.inv {y : Sys} (h : Start y) : InvR y := by
  rcases h with h | h
  · exact h.invR
  · exact h.inv

theorem reach_invR {y0 y : Sys} {evs : List Ev} (h0 : Start y0) (hr : run y0 evs = .ok y) : InvR y :=
  run_preservesR evs h0.inv hr

end Infretis.Repex
