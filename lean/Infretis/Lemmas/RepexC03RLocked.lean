import Infretis.Lemmas.RepexC03RInit
/-!
# C03 across restarts — `locked` (what `restart.toml` records) lists exactly the jobs in flight

`RecInv y`: `y.s.locked` is a permutation of the records `(ens_nums, path numbers)` of the jobs in
flight.  `pick` / the re-issue branch append the new job's record, `treat_output` pops exactly the
completed job's record (the pop-while-iterating loop removes the one entry containing the path
number, because path numbers of jobs in flight are pairwise distinct).
-/
namespace Infretis.Repex
open Infretis.Perm

/-- the `locked` record of a job -/
def recOf (j : Job) : List Int × List Nat := (j.picked.map (·.ens), j.picked.map (·.pn))

def RecInv (y : Sys) : Prop := y.s.locked.Perm (y.jobs.map recOf)

/-! ### the pop loop -/

/-- records with pairwise disjoint path-number lists -/
def DisjRecs (l : List (List Int × List Nat)) : Prop :=
  l.Pairwise (fun a b => ∀ x ∈ a.2, x ∉ b.2)

theorem popLocked_noopR (pn : Nat) : ∀ (fuel idx : Nat) (l : List (List Int × List Nat)),
    (∀ i en, idx ≤ i → l[i]? = some en → pn ∉ en.2) → popLocked pn fuel idx l = l := by
  intro fuel
  induction fuel with
  | zero => intro idx l _; rfl
  | succ fuel ih =>
    intro idx l h
    unfold popLocked
    split
    · rfl
    · rename_i entry he
      have hm := h idx entry (Nat.le_refl _) he
      have hc : entry.2.contains pn = false := by
        cases hcc : entry.2.contains pn with
        | false => rfl
        | true => exact absurd (List.contains_iff_mem.mp hcc) hm
      rw [hc]
      exact ih (idx + 1) l (fun i en hi => h i en (by omega))

theorem popLocked_filter (pn : Nat) : ∀ (fuel : Nat) (pre suf : List (List Int × List Nat)),
    DisjRecs suf → suf.length ≤ fuel →
    popLocked pn fuel pre.length (pre ++ suf) = pre ++ suf.filter (fun en => !en.2.contains pn) := by
  intro fuel
  induction fuel with
  | zero =>
    intro pre suf _ hl
    have : suf = [] := List.eq_nil_of_length_eq_zero (by omega)
    subst this
    simp [popLocked]
  | succ fuel ih =>
    intro pre suf hd hl
    cases suf with
    | nil =>
      unfold popLocked
      simp
    | cons x rest =>
      unfold popLocked
      have hx : (pre ++ x :: rest)[pre.length]? = some x := by simp
      rw [hx]
      simp only []
      unfold DisjRecs at hd
      rw [List.pairwise_cons] at hd
      by_cases hc : x.2.contains pn = true
      · rw [if_pos hc]
        have her : (pre ++ x :: rest).eraseIdx pre.length = pre ++ rest := by
          rw [List.eraseIdx_append_of_length_le (Nat.le_refl _)]
          simp
        rw [her]
        have hnone : ∀ en ∈ rest, pn ∉ en.2 := fun en hen =>
          hd.1 en hen pn (List.contains_iff_mem.mp hc)
        rw [popLocked_noopR pn fuel (pre.length + 1) (pre ++ rest)
          (by
            intro i en hi hen
            rw [List.getElem?_append_right (by omega)] at hen
            exact hnone en (List.mem_of_getElem? hen))]
        rw [List.filter_cons, hc]
        simp only [Bool.not_true, Bool.false_eq_true, ↓reduceIte]
        congr 1
        symm
        rw [List.filter_eq_self]
        intro en hen
        have := hnone en hen
        cases hcc : en.2.contains pn with
        | false => rfl
        | true => exact absurd (List.contains_iff_mem.mp hcc) this
      · rw [if_neg hc]
        have := ih (pre ++ [x]) rest hd.2 (by simp at hl; omega)
        simp only [List.length_append, List.length_cons, List.length_nil, Nat.zero_add,
          List.append_assoc, List.cons_append, List.nil_append] at this
        rw [this, List.filter_cons]
        have hc' : x.2.contains pn = false := by simpa using hc
        rw [hc']
        simp

theorem popLocked_eq_filter (pn : Nat) (l : List (List Int × List Nat)) (hd : DisjRecs l) :
    popLocked pn l.length 0 l = l.filter (fun en => !en.2.contains pn) := by
  have := popLocked_filter pn l.length [] l hd (Nat.le_refl _)
  simpa using this

theorem DisjRecs.filter {l : List (List Int × List Nat)} (h : DisjRecs l) (p : (List Int × List Nat) → Bool) :
    DisjRecs (l.filter p) := List.Pairwise.filter p h

/-! ### `locked` through `treat_output` -/

theorem recordFrac_locked {s s' : St} (h : recordFrac s = .ok s') : s'.locked = s.locked := by
  unfold recordFrac at h
  simp only [] at h
  split at h
  · exact absurd h (by simp)
  · simp only [Except.ok.injEq] at h
    subst h; rfl

theorem writeRows_locked : ∀ (l : List Nat) {s s' : St}, writeRows s l = .ok s' → s'.locked = s.locked := by
  intro l
  induction l with
  | nil => intro s s' h; simp only [writeRows, Except.ok.injEq] at h; subst h; rfl
  | cons pn rest ih =>
    intro s s' h
    unfold writeRows at h
    split at h
    · exact (ih h).trans rfl
    · exact absurd h (by simp)

theorem sortStep_locked {s s' : St} (h : sortStep s = .ok (some s')) : s'.locked = s.locked := by
  unfold sortStep at h
  simp only [] at h
  split at h
  · exact absurd h (by simp)
  split at h
  · exact absurd h (by simp)
  split at h
  · exact absurd h (by simp)
  simp only [Except.ok.injEq, Option.some.injEq] at h
  subst h; rfl

theorem sortTrajstate_locked : ∀ (fuel : Nat) {s s' : St} {k : Nat},
    sortTrajstate fuel s = .ok (s', k) → s'.locked = s.locked := by
  intro fuel
  induction fuel with
  | zero => intro s s' k h; simp [sortTrajstate] at h
  | succ fuel ih =>
    intro s s' k h
    unfold sortTrajstate at h
    split at h
    · exact absurd h (by simp)
    · simp only [Except.ok.injEq, Prod.mk.injEq] at h
      obtain ⟨rfl, _⟩ := h; rfl
    · rename_i s1 hstep
      split at h
      · exact absurd h (by simp)
      · rename_i s2 k2 hrec
        simp only [Except.ok.injEq, Prod.mk.injEq] at h
        obtain ⟨rfl, _⟩ := h
        exact (ih hrec).trans (sortStep_locked hstep)

theorem addTraj_locked {s s' : St} {ens : Int} {pn : Nat} {valid : List Rat}
    (h : addTraj s ens pn valid = .ok s') : s'.locked = s.locked := by
  obtain ⟨v, _, hs⟩ := addTraj_ok h
  subst hs; rfl

/-- the records left after popping for every path number of `ps` -/
def keepRecs (pns : List Nat) (l : List (List Int × List Nat)) : List (List Int × List Nat) :=
  l.filter (fun en => pns.all (fun pn => !en.2.contains pn))

theorem perEns_locked (status : Status) : ∀ (l : List (Picked × List Rat)) {s s' : St}
    {tn tn' : Nat} {pns : List Nat}, DisjRecs s.locked →
    treatOutput.perEns status s tn l = .ok (s', tn', pns) →
    s'.locked = keepRecs (l.map (·.1.pn)) s.locked := by
  intro l
  induction l with
  | nil =>
    intro s s' tn tn' pns _ hp
    simp only [treatOutput.perEns, Except.ok.injEq, Prod.mk.injEq] at hp
    obtain ⟨rfl, _, _⟩ := hp
    simp [keepRecs]
  | cons pw rest ih =>
    intro s s' tn tn' pns hd hp
    obtain ⟨p, w⟩ := pw
    have hpop := popLocked_eq_filter p.pn s.locked hd
    have hd1 : DisjRecs (popLocked p.pn s.locked.length 0 s.locked) := by
      rw [hpop]; exact hd.filter _
    have hcomb : keepRecs (rest.map (·.1.pn)) (s.locked.filter (fun en => !en.2.contains p.pn))
        = keepRecs (((p, w) :: rest).map (·.1.pn)) s.locked := by
      unfold keepRecs
      rw [List.filter_filter]
      congr 1
      funext en
      simp only [List.map_cons, List.all_cons]
      rw [Bool.and_comm]
    unfold treatOutput.perEns at hp
    simp only [] at hp
    split at hp
    · split at hp
      · exact absurd hp (by simp)
      rename_i s3 hadd
      split at hp
      · exact absurd hp (by simp)
      rename_i s4 tn4 pns4 hrec
      simp only [Except.ok.injEq, Prod.mk.injEq] at hp
      obtain ⟨rfl, _, _⟩ := hp
      have h3 : s3.locked = popLocked p.pn s.locked.length 0 s.locked := addTraj_locked hadd
      rw [ih (by rw [h3]; exact hd1) hrec, h3, hpop, hcomb]
    · split at hp
      · exact absurd hp (by simp)
      split at hp
      · exact absurd hp (by simp)
      rename_i s3 hadd
      split at hp
      · exact absurd hp (by simp)
      rename_i s4 tn4 pns4 hrec
      simp only [Except.ok.injEq, Prod.mk.injEq] at hp
      obtain ⟨rfl, _, _⟩ := hp
      have h3 : s3.locked = popLocked p.pn s.locked.length 0 s.locked := addTraj_locked hadd
      rw [ih (by rw [h3]; exact hd1) hrec, h3, hpop, hcomb]

theorem treatOutput_locked {s s' : St} (job : Job) (status : Status) (newW : List (List Rat))
    (fuel : Nat) (pns : List Nat) (it : Nat) (hd : DisjRecs s.locked)
    (ht : treatOutput s job status newW fuel = .ok (s', pns, it)) :
    s'.locked = keepRecs (job.picked.map (·.pn)) s.locked := by
  unfold treatOutput at ht
  simp only [] at ht
  generalize hws : (if status = Status.acc then newW else job.picked.map (fun _ => [])) = ws at ht
  split at ht
  · exact absurd ht (by simp)
  rename_i hlen
  have hlen := Classical.not_not.mp hlen
  split at ht
  · exact absurd ht (by simp)
  rename_i s1 tn pnNews hper
  split at ht
  · exact absurd ht (by simp)
  rename_i s2 hrec
  split at ht
  · exact absurd ht (by simp)
  rename_i s3 hwr
  split at ht
  · exact absurd ht (by simp)
  rename_i s4 iters hsort
  simp only [Except.ok.injEq, Prod.mk.injEq] at ht
  obtain ⟨rfl, _, _⟩ := ht
  have h1 := perEns_locked status _ hd hper
  have hmap : (job.picked.zip ws).map (·.1.pn) = job.picked.map (·.pn) := by
    have : (job.picked.zip ws).map Prod.fst = job.picked := List.map_fst_zip (by omega)
    conv_rhs => rw [← this]
    rw [List.map_map]
    rfl
  rw [hmap] at h1
  have h2 := recordFrac_locked hrec
  have h3 : s3.locked = s2.locked := by
    split at hwr
    · exact writeRows_locked _ hwr
    · simp only [Except.ok.injEq] at hwr
      subst hwr; rfl
  have h4 := sortTrajstate_locked fuel hsort
  show s4.locked = _
  rw [h4, h3, h2, h1]

/-! ### the record invariant along the events -/

theorem inflight_pns_nodupR {s : St} {jobs : List Job} {tn : Nat} (hc : CoreR s (held jobs) tn) :
    ((held jobs).map Prod.snd).Nodup := by
  refine nodup_map_of_nodup_map Prod.fst Prod.snd _ hc.nodup ?_
  intro x hx z hz hxz
  obtain ⟨e1, p1⟩ := x
  obtain ⟨e2, p2⟩ := z
  simp only at hxz
  subst hxz
  obtain ⟨h1, h2, _⟩ := hc.heldOk e1 p1 hx
  obtain ⟨h3, h4, _⟩ := hc.heldOk e2 p1 hz
  exact hc.inj e1 e2 p1 h1 h3 h2 h4

theorem disjRecs_of_nodup : ∀ (l : List (List Int × List Nat)),
    (l.flatMap (·.2)).Nodup → DisjRecs l := by
  intro l
  induction l with
  | nil => intro _; exact List.Pairwise.nil
  | cons a rest ih =>
    intro h
    simp only [List.flatMap_cons, List.nodup_append] at h
    refine List.Pairwise.cons ?_ (ih h.2.1)
    intro b hb x hxa hxb
    exact h.2.2 x hxa x (List.mem_flatMap.mpr ⟨b, hb, hxb⟩) rfl

theorem recs_flat (jobs : List Job) : (jobs.map recOf).flatMap (·.2) = (held jobs).map Prod.snd := by
  simp [recOf, held, heldJob, List.flatMap_map, List.map_flatMap, List.map_map, Function.comp_def]

theorem RecInv.disj {y : Sys} (hr : RecInv y) (hi : InvR y) : DisjRecs y.s.locked := by
  apply disjRecs_of_nodup
  have hp : (y.s.locked.flatMap (·.2)).Perm ((y.jobs.map recOf).flatMap (·.2)) := hr.flatMap_right _
  rw [hp.nodup_iff, recs_flat]
  exact inflight_pns_nodupR hi.core

/-- popping the completed job's path numbers from a record list that is (a permutation of) its own
    record followed by the others' leaves the others' -/
theorem keepRecs_perm (job : Job) (rest : List Job) (l : List (List Int × List Nat))
    (hne : job.picked ≠ []) (hp : l.Perm (recOf job :: rest.map recOf))
    (hnd : ((recOf job :: rest.map recOf).flatMap (·.2)).Nodup) :
    (keepRecs (job.picked.map (·.pn)) l).Perm (rest.map recOf) := by
  unfold keepRecs
  refine (hp.filter _).trans ?_
  simp only [List.flatMap_cons, List.nodup_append] at hnd
  rw [List.filter_cons]
  have h1 : ((job.picked.map (·.pn)).all (fun pn => !(recOf job).2.contains pn)) = false := by
    obtain ⟨p, hp⟩ := List.exists_mem_of_ne_nil _ hne
    rw [List.all_eq_false]
    refine ⟨p.pn, List.mem_map.mpr ⟨p, hp, rfl⟩, ?_⟩
    simp only [recOf, Bool.not_eq_true, Bool.not_eq_false']
    exact List.contains_iff_mem.mpr (List.mem_map.mpr ⟨p, hp, rfl⟩)
  rw [h1]
  simp only [Bool.false_eq_true, ↓reduceIte]
  rw [List.filter_eq_self.mpr]
  intro en hen
  rw [List.all_eq_true]
  intro pn hpn
  cases hc : en.2.contains pn with
  | false => rfl
  | true =>
    exfalso
    exact hnd.2.2 pn hpn pn (List.mem_flatMap.mpr ⟨en, hen, List.contains_iff_mem.mp hc⟩) rfl

theorem sysStep_recInv {y y' : Sys} (ev : Ev) (hi : InvR y) (hr : RecInv y)
    (h : sysStep y ev = .ok y') : RecInv y' := by
  cases ev with
  | start o saved =>
    unfold sysStep at h
    rcases initiate_cases y.s with ⟨hin, _⟩ | ⟨ti, hti, hin⟩
    · rw [hin] at h; simp at h
    rw [hin] at h
    simp only [] at h
    split at h
    · exact absurd h (by simp)
    rename_i hgo
    have hgo : ti - 1 ≥ 0 := by simpa using hgo
    split at h
    · exact absurd h (by simp)
    rename_i s2 job ds hprep
    simp only [Except.ok.injEq] at h
    subst h
    have hc1 := hi.core.congrTo
      (s' := { y.s with cworker := ((y.s.workers : Int) - ti).toNat, toinitiate := ti - 1 })
      rfl rfl rfl rfl rfl (by
        show 0 ≤ ti - 1 → 0 ≤ y.s.toinitiate
        rcases hti with h1 | h1 <;> omega)
    obtain ⟨_, _, _, _, _, _, _, _, hlk, _⟩ := prep_specR none o saved job ds hc1 hprep
    show s2.locked.Perm ((y.jobs ++ [job]).map recOf)
    rw [hlk, List.map_append]
    exact List.Perm.append_right _ hr
  | initDone =>
    unfold sysStep at h
    rcases initiate_cases y.s with ⟨hin, _⟩ | ⟨ti, hti, hin⟩
    · rw [hin] at h
      simp only [Bool.false_eq_true, ↓reduceIte, Except.ok.injEq] at h
      subst h; exact hr
    · rw [hin] at h
      simp only [] at h
      split at h
      · exact absurd h (by simp)
      simp only [Except.ok.injEq] at h
      subst h; exact hr
  | step k status newW o =>
    obtain ⟨job, s1, s2, pns, it, hjob, hloop, htreat, hcase⟩ := step_decompose k status newW o h
    obtain ⟨hle, hltn, _, _, _⟩ := loop_coreEqR y.s
    have hlk1 : (loop y.s).1.locked = y.s.locked := by
      unfold loop; split <;> rfl
    rw [hloop] at hle hltn hlk1
    simp only [] at hle hltn hlk1
    have hperm := held_perm_erase y.jobs k job hjob
    have hc1 : CoreR s1 (heldJob job ++ held (y.jobs.eraseIdx k)) s1.trajNum := by
      rw [hltn]
      exact (hi.core.congr hle).perm hperm
    have hjperm := perm_cons_eraseIdx y.jobs k job hjob
    have hd : DisjRecs s1.locked := by rw [hlk1]; exact hr.disj hi
    have hl2 := treatOutput_locked job status newW _ pns it hd htreat
    have hne : job.picked ≠ [] := by
      rcases (hi.jobs job (List.mem_of_getElem? hjob)).shape with h1 | h1
      · intro h0; rw [h0] at h1; simp at h1
      · intro h0; rw [h0] at h1; simp at h1
    have hnd : ((recOf job :: (y.jobs.eraseIdx k).map recOf).flatMap (·.2)).Nodup := by
      have hp : ((y.jobs.map recOf).flatMap (·.2)).Perm
          ((recOf job :: (y.jobs.eraseIdx k).map recOf).flatMap (·.2)) :=
        (by simpa using hjperm.map recOf : (y.jobs.map recOf).Perm _).flatMap_right _
      rw [← hp.nodup_iff, recs_flat]
      exact inflight_pns_nodupR hi.core
    have hrest : s2.locked.Perm ((y.jobs.eraseIdx k).map recOf) := by
      rw [hl2, hlk1]
      exact keepRecs_perm job _ _ hne (hr.trans (by simpa using hjperm.map recOf)) hnd
    obtain ⟨hc2, _⟩ := treatOutput_coreR job status newW _ pns it hc1 htreat
    rcases hcase with ⟨_, s3, job', ds, hprep, rfl⟩ | ⟨_, rfl⟩
    · obtain ⟨_, _, _, _, _, _, _, _, hlk, _⟩ := prep_specR (some job.pin) o 0 job' ds hc2 hprep
      show s3.locked.Perm ((y.jobs.eraseIdx k ++ [job']).map recOf)
      rw [hlk, List.map_append]
      exact List.Perm.append_right _ hrest
    · exact hrest

theorem run_recInv : ∀ (evs : List Ev) {y y' : Sys}, InvR y → RecInv y → run y evs = .ok y' →
    RecInv y' := by
  intro evs
  induction evs with
  | nil =>
    intro y y' _ hr h
    simp only [run, Except.ok.injEq] at h
    subst h; exact hr
  | cons ev rest ih =>
    intro y y' hi hr h
    unfold run at h
    split at h
    · exact absurd h (by simp)
    · rename_i y1 hstep
      exact ih (sysStep_preservesR ev hi hstep) (sysStep_recInv ev hi hr hstep) h

end Infretis.Repex
