import Infretis.Lemmas.RepexC03RLocked
import Infretis.Lemmas.RepexC03Load
/-!
# C03 across restarts — a restart from the image of a reachable state is an `InitR` state

`restore (persist s) …` rebuilds the slots in the same order (`load_paths` puts `active[i]` into
slot `i`), leaves every ensemble slot idle, and takes `locked0` from the recorded `locked`; since
`locked` lists exactly the jobs in flight at the stop (RepexC03RLocked) and each of those held its
path in its slot (`CoreR`), the recorded slots are distinct and each recorded path sits in its
recorded slot; `add_traj` asserts the non-zero own-ensemble weight while loading.
Load success is a hypothesis (C05 `restore_loads` proves it from the weight family).
-/
namespace Infretis.Repex
open Infretis.Perm

theorem loadOne_okG {s s' : St} {ens : Int} {pn : Nat} {valid fr : List Rat}
    (h : loadOne s ens pn valid fr = .ok s') :
    ∃ v : List Rat, v.getD (ens + 1).toNat 0 ≠ 0 ∧ s.locks[(ens + 1).toNat]? = some true ∧
      s'.n = s.n ∧ s'.W = s.W.set (ens + 1).toNat v ∧
      s'.trajs = s.trajs.set (ens + 1).toNat (some pn) ∧
      s'.locks = s.locks.set (ens + 1).toNat false ∧ s'.locked0 = s.locked0 ∧
      s'.locked = s.locked ∧ s'.toinitiate = s.toinitiate ∧ s'.workers = s.workers ∧
      s'.trajNum = s.trajNum := by
  unfold loadOne at h
  split at h
  · exact absurd h (by simp)
  rename_i s1 hadd
  simp only [Except.ok.injEq] at h
  subst h
  obtain ⟨v, hv, hs⟩ := addTraj_ok hadd
  have hl := (addTraj_ok' hadd).1
  subst hs
  exact ⟨v, hv, hl, rfl, rfl, rfl, rfl, rfl, rfl, rfl, rfl, rfl⟩

/-- a freshly constructed `REPEX_state`: all slots locked -/
structure Blank (n : Nat) (s : St) : Prop where
  hn : s.n = n
  lenW : s.W.length = n
  lenT : s.trajs.length = n
  lenL : s.locks.length = n
  locks : ∀ e, e < n → s.locks[e]? = some true

structure LoadedG (n : Nat) (pns : List Nat) (s0 s : St) (i : Nat) : Prop where
  hn : s.n = n
  lenW : s.W.length = n
  lenT : s.trajs.length = n
  lenL : s.locks.length = n
  l0 : s.locked0 = s0.locked0
  lk : s.locked = s0.locked
  toinit : s.toinitiate = s0.toinitiate
  wk : s.workers = s0.workers
  htn : s.trajNum = s0.trajNum
  locks : ∀ e, e < n → s.locks[e]? = some (decide (e = 0 ∨ i < e))
  trajs : ∀ e pn, e < i → pns[e]? = some pn → s.trajs[e + 1]? = some (some pn)
  diag : ∀ e, e < i → entryM s.W (e + 1) (e + 1) ≠ 0

theorem loadedG_blank {n : Nat} {s0 : St} (h : Blank n s0) (pns : List Nat) : LoadedG n pns s0 s0 0 := by
  refine ⟨h.hn, h.lenW, h.lenT, h.lenL, rfl, rfl, rfl, rfl, rfl, ?_, ?_, ?_⟩
  · intro e he
    rw [h.locks e he]
    simp only [Option.some.injEq]
    symm
    simp only [decide_eq_true_eq]
    omega
  · intro e pn he; omega
  · intro e he; omega

theorem entryM_set_self (W : Mat) (e : Nat) (v : List Rat) (he : e < W.length) :
    entryM (W.set e v) e e = v.getD e 0 := by
  unfold entryM
  rw [List.getD_eq_getElem?_getD (l := W.set e v), List.getElem?_set_self he]
  rfl

theorem loadedG_step {n : Nat} {pns : List Nat} {s0 s s' : St} {i pn : Nat} {w fr : List Rat}
    (h : LoadedG n pns s0 s i) (hpn : pns[i]? = some pn)
    (hl : loadOne s (i : Int) pn w fr = .ok s') : LoadedG n pns s0 s' (i + 1) := by
  obtain ⟨v, hv, hlock, h1, h2, h3, h4, h5, h5', h6, h7, h8⟩ := loadOne_okG hl
  have hslot : ((i : Int) + 1).toNat = i + 1 := by omega
  rw [hslot] at hv hlock h2 h3 h4
  have hlt : i + 1 < n := by
    have := getElem?_lt_of_some _ _ _ hlock
    rw [h.lenL] at this; exact this
  constructor
  · rw [h1]; exact h.hn
  · rw [h2, List.length_set]; exact h.lenW
  · rw [h3, List.length_set]; exact h.lenT
  · rw [h4, List.length_set]; exact h.lenL
  · rw [h5]; exact h.l0
  · rw [h5']; exact h.lk
  · rw [h6]; exact h.toinit
  · rw [h7]; exact h.wk
  · rw [h8]; exact h.htn
  · intro e he
    rw [h4]
    by_cases hei : e = i + 1
    · subst hei
      rw [List.getElem?_set_self (by rw [h.lenL]; exact hlt)]
      simp
    · rw [List.getElem?_set_ne (fun h => hei h.symm), h.locks e he]
      simp only [Option.some.injEq, decide_eq_decide]
      omega
  · intro e q he hq
    rw [h3]
    by_cases hei : e = i
    · subst hei
      rw [List.getElem?_set_self (by rw [h.lenT]; exact hlt)]
      rw [hpn] at hq
      simp only [Option.some.injEq] at hq
      rw [hq]
    · rw [List.getElem?_set_ne (by omega)]
      exact h.trajs e q (by omega) hq
  · intro e he
    rw [h2]
    by_cases hei : e = i
    · subst hei
      rw [entryM_set_self _ _ _ (by rw [h.lenW]; exact hlt)]
      exact hv
    · rw [entryM_congr _ _ _ _ (List.getElem?_set_ne (by omega))]
      exact h.diag e (by omega)

theorem plus_loadedG {n : Nat} {pns : List Nat} {s0 : St} :
    ∀ (rest : List (Nat × List Rat × List Rat)) (s s' : St) (i : Nat),
    LoadedG n pns s0 s i → (∀ j, (rest.map (·.1))[j]? = pns[i + j]?) →
    loadPaths.plus s i rest = .ok s' → LoadedG n pns s0 s' (i + rest.length) := by
  intro rest
  induction rest with
  | nil =>
    intro s s' i h _ hp
    simp only [loadPaths.plus, Except.ok.injEq] at hp
    subst hp
    simpa using h
  | cons x rest ih =>
    intro s s' i h hidx hp
    obtain ⟨pn, w, fr⟩ := x
    simp only [loadPaths.plus] at hp
    split at hp
    · exact absurd hp (by simp)
    rename_i s1 hl
    have hpn : pns[i]? = some pn := by
      have := hidx 0
      simpa using this.symm
    have h1 := loadedG_step h hpn hl
    have := ih s1 s' (i + 1) h1
      (fun j => by
        have := hidx (j + 1)
        simp only [List.map_cons, List.getElem?_cons_succ] at this
        rw [this]
        congr 1
        omega)
      hp
    simp only [List.length_cons]
    rw [show i + (rest.length + 1) = i + 1 + rest.length from by omega]
    exact this

/-- **what `load_paths` leaves behind** on a blank state of `n ≥ 2` slots given `n − 1` paths -/
theorem loadPaths_specG {n : Nat} {s0 s : St} (hb : Blank n s0)
    (paths : List (Nat × List Rat × List Rat)) (hn : 2 ≤ n) (hlen : paths.length = n - 1)
    (h : loadPaths s0 paths = .ok s) :
    s.n = n ∧ s.W.length = n ∧ s.trajs.length = n ∧
      s.locks = List.replicate (n - 1) false ++ [true] ∧
      (∀ e pn, e < n - 1 → (paths.map (·.1))[e]? = some pn → s.trajs[e]? = some (some pn)) ∧
      (∀ e, e < n - 1 → entryM s.W e e ≠ 0) ∧
      s.locked0 = s0.locked0 ∧ s.locked = s0.locked ∧ s.toinitiate = s0.toinitiate ∧
      s.workers = s0.workers ∧ s.trajNum = s0.trajNum := by
  unfold loadPaths at h
  split at h
  · exact absurd h (by simp)
  rename_i pn0 w0 fr0 rest
  split at h
  · exact absurd h (by simp)
  rename_i s1 hplus
  have hL := plus_loadedG (n := n) (pns := rest.map (·.1)) (s0 := s0) rest _ s1 0
    (loadedG_blank hb _) (fun j => by simp) hplus
  simp only [Nat.zero_add] at hL
  obtain ⟨v, hv, _, h1, h2, h3, h4, h5, h5', h6, h7, h8⟩ := loadOne_okG h
  have hslot : ((-1 : Int) + 1).toNat = 0 := by decide
  rw [hslot] at hv h2 h3 h4
  simp only [List.length_cons] at hlen
  have hrl : rest.length = n - 2 := by omega
  refine ⟨by rw [h1]; exact hL.hn, by rw [h2, List.length_set]; exact hL.lenW,
    by rw [h3, List.length_set]; exact hL.lenT, ?_, ?_, ?_, by rw [h5]; exact hL.l0,
    by rw [h5']; exact hL.lk, by rw [h6]; exact hL.toinit, by rw [h7]; exact hL.wk,
    by rw [h8]; exact hL.htn⟩
  · rw [h4]
    apply List.ext_getElem?
    intro e
    by_cases he0 : e = 0
    · subst he0
      rw [List.getElem?_set_self (by rw [hL.lenL]; omega),
        List.getElem?_append_left (by simp; omega), List.getElem?_replicate,
        if_pos (by omega)]
    · rw [List.getElem?_set_ne (fun h => he0 h.symm)]
      by_cases hen : e < n
      · rw [hL.locks e hen]
        by_cases he1 : e < n - 1
        · rw [List.getElem?_append_left (by simpa using he1)]
          simp only [List.getElem?_replicate, he1, ↓reduceIte, Option.some.injEq,
            decide_eq_false_iff_not]
          omega
        · have : e = n - 1 := by omega
          rw [List.getElem?_append_right (by simp; omega)]
          simp only [List.length_replicate, this, Nat.sub_self, List.getElem?_cons_zero,
            Option.some.injEq, decide_eq_true_eq]
          omega
      · rw [List.getElem?_eq_none (by rw [hL.lenL]; omega),
          List.getElem?_eq_none (by simp; omega)]
  · intro e pn he hpn
    rw [h3]
    cases e with
    | zero =>
      simp only [List.map_cons, List.getElem?_cons_zero, Option.some.injEq] at hpn
      subst hpn
      exact List.getElem?_set_self (by rw [hL.lenT]; omega)
    | succ e =>
      simp only [List.map_cons, List.getElem?_cons_succ] at hpn
      rw [List.getElem?_set_ne (by omega)]
      exact hL.trajs e pn (by omega) hpn
  · intro e he
    rw [h2]
    cases e with
    | zero =>
      rw [entryM_set_self _ _ _ (by rw [hL.lenW]; omega)]
      exact hv
    | succ e =>
      rw [entryM_congr _ _ _ _ (List.getElem?_set_ne (by omega))]
      exact hL.diag e (by omega)

/-! ### the image of a reachable state -/

theorem filterMap_all_some {β : Type} (g : Nat → β) : ∀ (l : List (Option Nat)),
    (∀ x ∈ l, ∃ pn, x = some pn) →
    (l.filterMap (fun o => o.map g)).length = l.length ∧
    ∀ (e pn : Nat), l[e]? = some (some pn) → (l.filterMap (fun o => o.map g))[e]? = some (g pn) := by
  intro l
  induction l with
  | nil => intro _; simp
  | cons x l ih =>
    intro h
    obtain ⟨pn0, rfl⟩ := h x (List.mem_cons_self ..)
    obtain ⟨ih1, ih2⟩ := ih (fun y hy => h y (List.mem_cons_of_mem _ hy))
    simp only [List.filterMap_cons, Option.map_some, List.length_cons, ih1, true_and]
    intro e pn he
    cases e with
    | zero =>
      simp only [List.getElem?_cons_zero, Option.some.injEq] at he
      subst he
      simp
    | succ e =>
      simp only [List.getElem?_cons_succ] at he ⊢
      exact ih2 e pn he

theorem zip_map_map {α β γ : Type} (f : α → β) (g : α → γ) (l : List α) :
    (l.map f).zip (l.map g) = l.map (fun x => (f x, g x)) := by
  induction l with
  | nil => rfl
  | cons x l ih => simp [ih]

/-- the slots/paths recorded for a job in the restart file are what the job holds -/
theorem held0_persist (jobs : List Job) :
    held0 ((jobs.map recOf).map (fun x => (x.1.map (fun e => (e + (off : Int)).toNat), x.2)))
      = held jobs := by
  unfold held0 held
  rw [List.map_map, List.flatMap_map]
  congr 1
  funext j
  simp only [Function.comp_apply, recOf, List.map_map]
  rw [zip_map_map]
  unfold heldJob
  apply List.map_congr_left
  intro p _
  simp [slotOf, off]

/-- any state that has the slot fields of a freshly constructed `REPEX_state` is `Blank`, whatever
    its bookkeeping fields (`locked0Ord`, `spawned`, …) are -/
theorem isBlank_of_fields (n : Nat) (s0 : St) (h1 : s0.n = n) (h2 : s0.W.length = n)
    (h3 : s0.trajs.length = n) (h4 : s0.locks = List.replicate n true) : Blank n s0 := by
  refine ⟨h1, h2, h3, by rw [h4]; simp, ?_⟩
  intro e he
  rw [h4]
  simp [he]

/-- **A restart from the restart file of a reachable state is an `InitR` state.**
    `y` any state with the scheduler invariant and an exact `locked` record (every state reachable
    from a fresh start or from a restart, see `reach_invR`, `run_recInv`), the image written there,
    restored with the same number of slots (any workers / steps / engine table / recomputed
    weights) — if `load_paths` does not raise, the restored state with nothing in flight is `InitR`. -/
theorem restore_is_initR {y : Sys} (hi : InvR y) (hr : RecInv y) (workers tsteps : Nat)
    (occ : List (List Int)) (ensEng : List (List Nat)) (weightOf : Nat → List Rat) (s' : St)
    (h : restore (persist y.s) y.s.n workers tsteps occ ensEng weightOf = .ok s') :
    InitR { s := s', jobs := [] } := by
  have hc := hi.core
  unfold restore at h
  simp only [] at h
  have hlive : ∀ x ∈ livePaths y.s, ∃ pn, x = some pn := by
    intro x hx
    obtain ⟨e, he, hxe⟩ := List.getElem_of_mem hx
    unfold livePaths at he hxe
    rw [List.length_dropLast, hc.lenT] at he
    obtain ⟨pn, hpn, _⟩ := hc.live e he
    refine ⟨pn, ?_⟩
    have : y.s.trajs.dropLast[e]? = some (some pn) := by
      rw [List.getElem?_dropLast, if_pos (by rw [hc.lenT]; exact he)]; exact hpn
    rw [List.getElem?_eq_getElem (by rw [List.length_dropLast, hc.lenT]; exact he), hxe] at this
    simpa using this
  obtain ⟨hflen, hfget⟩ := filterMap_all_some
    (fun pn => (pn, weightOf pn, ((persist y.s).frac.lookup pn).getD (List.replicate y.s.n 0)))
    (livePaths y.s) hlive
  have hplen : ((persist y.s).active.filterMap (fun o => o.map (fun pn =>
      (pn, weightOf pn, ((persist y.s).frac.lookup pn).getD (List.replicate y.s.n 0))))).length
      = y.s.n - 1 := by
    show ((livePaths y.s).filterMap _).length = _
    rw [hflen]
    unfold livePaths
    rw [List.length_dropLast, hc.lenT]
  have key := fun hb => loadPaths_specG (n := y.s.n) hb _ hc.n2 hplen h
  obtain ⟨h1, h2, h3, h4, h5, h6, h7, h8, h9, h10, h11⟩ :=
    key (isBlank_of_fields y.s.n _ rfl (by simp [blank]) (by simp [blank]) rfl)
  -- slot `e` holds after the restart what it held at the stop
  have hsame : ∀ e pn, e < y.s.n - 1 → y.s.trajs[e]? = some (some pn) → s'.trajs[e]? = some (some pn) := by
    intro e pn he hpn
    apply h5 e pn he
    rw [List.getElem?_map]
    have : (livePaths y.s)[e]? = some (some pn) := by
      unfold livePaths
      rw [List.getElem?_dropLast, if_pos (by rw [hc.lenT]; exact he)]; exact hpn
    show (((livePaths y.s).filterMap _)[e]?).map _ = _
    rw [hfget e pn this]
    rfl
  have hl0 : s'.locked0 = (y.s.locked.map
      (fun (x : List Int × List Nat) => (x.1.map (fun e => (e + (off : Int)).toNat), x.2))) := by
    rw [h7]; rfl
  -- the recorded (slot, path) pairs are, up to order, what the jobs in flight held
  have hperm : (held0 s'.locked0).Perm (held y.jobs) := by
    rw [hl0, ← held0_persist y.jobs]
    unfold held0
    exact (hr.map _).flatMap_right _
  constructor
  · rfl
  · show 2 ≤ s'.n; rw [h1]; exact hc.n2
  · show s'.W.length = s'.n; rw [h1]; exact h2
  · show s'.trajs.length = s'.n; rw [h1]; exact h3
  · show s'.locks = _; rw [h1]; exact h4
  · show ∀ e, e < s'.n - 1 → ∃ pn, s'.trajs[e]? = some (some pn) ∧ pn < s'.trajNum
    rw [h1, h11]
    intro e he
    obtain ⟨pn, hpn, hlt⟩ := hc.live e he
    exact ⟨pn, hsame e pn he hpn, hlt⟩
  · show ∀ a b pn, a < s'.n - 1 → b < s'.n - 1 → s'.trajs[a]? = some (some pn) →
      s'.trajs[b]? = some (some pn) → a = b
    rw [h1]
    intro a b pn ha hb h1a h1b
    obtain ⟨pa, hpa, _⟩ := hc.live a ha
    obtain ⟨pb, hpb, _⟩ := hc.live b hb
    have e1 := hsame a pa ha hpa
    have e2 := hsame b pb hb hpb
    rw [e1] at h1a
    rw [e2] at h1b
    simp only [Option.some.injEq] at h1a h1b
    rw [h1a] at hpa
    rw [h1b] at hpb
    exact hc.inj a b pn ha hb hpa hpb
  · -- Resv
    constructor
    · intro en hen
      show en.1.length = en.2.length ∧ (en.1.length = 1 ∨ en.1 = [0, 1])
      have hen' : en ∈ (y.s.locked.map
          (fun (x : List Int × List Nat) => (x.1.map (fun e => (e + (off : Int)).toNat), x.2))) := by
        rw [← hl0]; exact hen
      obtain ⟨r, hrm, rfl⟩ := List.mem_map.mp hen'
      have hrj := hr.mem_iff.mp hrm
      obtain ⟨j, hj, rfl⟩ := List.mem_map.mp hrj
      simp only [recOf, List.length_map, true_and]
      rcases (hi.jobs j hj).shape with hs | hs
      · exact Or.inl hs
      · right
        rw [show j.picked.map (·.ens) = [-1, 0] from hs]
        simp [off]
    · show ((held0 s'.locked0).map Prod.fst).Nodup
      rw [(hperm.map Prod.fst).nodup_iff]
      exact hc.nodup
    · intro e pn hm
      have hm' := hperm.mem_iff.mp hm
      obtain ⟨he, htr, _⟩ := hc.heldOk e pn hm'
      refine ⟨?_, hsame e pn he htr, h6 e he⟩
      show s'.locks[e]? = some false
      rw [h4, List.getElem?_append_left (by simpa using he)]
      simp [he]
  · show s'.locked = []
    rw [h8]; rfl
  · show s'.toinitiate = (s'.workers : Int)
    rw [h9, h10]; rfl

/-- the same for states reached from a start state with an empty `locked` record -/
theorem restore_of_reachable_is_initR (y0 y : Sys) (evs : List Ev) (h0 : Start y0)
    (hl : y0.s.locked = []) (hj : y0.jobs = []) (hr : run y0 evs = .ok y) (workers tsteps : Nat)
    (occ : List (List Int)) (ensEng : List (List Nat)) (weightOf : Nat → List Rat) (s' : St)
    (h : restore (persist y.s) y.s.n workers tsteps occ ensEng weightOf = .ok s') :
    InitR { s := s', jobs := [] } := by
  have hrec0 : RecInv y0 := by
    unfold RecInv
    rw [hl, hj]
    exact List.Perm.refl _
  exact restore_is_initR (reach_invR h0 hr) (run_recInv evs h0.inv hrec0 hr) workers tsteps occ ensEng
    weightOf s' h

end Infretis.Repex
