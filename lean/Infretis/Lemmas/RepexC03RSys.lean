import Infretis.Lemmas.RepexC03RTreat
/-!
# C03 across restarts — the scheduler invariant `InvR` (= `Inv` with `CoreR` in place of `Core`)
and its preservation by every event, including the re-issue of recorded jobs
-/
namespace Infretis.Repex
open Infretis.Perm

/-- `CoreR` survives a change of `toinitiate` that can only switch the re-issue obligation off -/
theorem CoreR.congrTo {s s' : St} {H : List (Nat × Nat)} {tn : Nat} (h : CoreR s H tn)
    (h1 : s'.n = s.n) (h2 : s'.W = s.W) (h3 : s'.trajs = s.trajs) (h4 : s'.locks = s.locks)
    (h5 : s'.locked0 = s.locked0) (hto : 0 ≤ s'.toinitiate → 0 ≤ s.toinitiate) : CoreR s' H tn := by
  constructor
  · rw [h1]; exact h.n2
  · rw [h1, h2]; exact h.lenW
  · rw [h1, h3]; exact h.lenT
  · rw [h1, h4]; exact h.lenL
  · rw [h1, h4]; exact h.ghost
  · rw [h1, h4]; exact h.busy
  · exact h.nodup
  · rw [h1, h2, h3]; exact h.heldOk
  · rw [h1, h3]; exact h.live
  · rw [h1, h3]; exact h.inj
  · intro h0; exact (h.resv (hto h0)).congr h5 h4 h3 h2

structure InvR (y : Sys) : Prop where
  core : CoreR y.s (held y.jobs) y.s.trajNum
  jobs : ∀ j ∈ y.jobs, JobOk j
  pins : (y.jobs.map (·.pin)).Nodup
  tole : y.s.toinitiate ≤ (y.s.workers : Int)
  pinBound : 0 ≤ y.s.toinitiate → ∀ j ∈ y.jobs, (j.pin : Int) < (y.s.workers : Int) - y.s.toinitiate
  eng : ∀ j ∈ y.jobs, ∀ p ∈ j.picked, ∀ ki ∈ p.engIdx, cell y.s.occ ki.1 ki.2 = some (j.pin : Int)

theorem prep_specR {s s' : St} {H : List (Nat × Nat)} (prev : Option Nat) (o : PickOutcome) (saved : Nat)
    (job : Job) (ds : List Draw) (hc : CoreR s H s.trajNum)
    (h : prep s prev o saved = .ok (s', job, ds)) :
    CoreR s' (heldJob job ++ H) s'.trajNum ∧ JobOk job ∧ PickShape s.locks job.picked ∧
      some job.pin = (if s.toinitiate ≥ 0 then some s.cworker else prev) ∧
      s'.toinitiate = s.toinitiate ∧ s'.workers = s.workers ∧
      (∀ k i x, cell s.occ k i = some x → x ≠ -1 → x ≠ (job.pin : Int) → cell s'.occ k i = some x) ∧
      (∀ p ∈ job.picked, ∀ ki ∈ p.engIdx, cell s'.occ ki.1 ki.2 = some (job.pin : Int)) ∧
      s'.locked = s.locked ++ [(job.picked.map (·.ens), job.picked.map (·.pn))] ∧
      (s'.locked0 = s.locked0 ∨ ∃ hd, s.locked0 = hd :: s'.locked0) := by
  unfold prep at h
  simp only [] at h
  generalize hpin : (if s.toinitiate ≥ 0 then some s.cworker else prev) = pin? at h
  split at h
  · exact absurd h (by simp)
  rename_i s1 ps ds1 hr
  have hpick : CoreR s1 (heldPicked ps ++ H) s.trajNum ∧ AuxEq s s1 ∧ (∀ p ∈ ps, p.engIdx = []) ∧
      PickShape s.locks ps ∧ (∀ p ∈ ps, -1 ≤ p.ens) ∧
      s1.locked = s.locked ++ [(ps.map (·.ens), ps.map (·.pn))] ∧
      (s1.locked0 = s.locked0 ∨ ∃ hd, s.locked0 = hd :: s1.locked0) := by
    split at hr
    · rename_i hge0
      exact pickLock_coreR hc hge0 o saved ps ds1 hr
    · rename_i hlt0
      obtain ⟨h1, h2, h3, h4, h5, h6⟩ := pick_coreR hc o ps ds1 hr (Or.inl (by omega))
      exact ⟨h1, h2.toAux, h3, h4, h5, h6, Or.inl h2.locked0⟩
  obtain ⟨hc1, ha1, _, hshape, hge, hlk1, hl01⟩ := hpick
  split at h
  · exact absurd h (by simp)
  rename_i pin
  split at h
  · exact absurd h (by simp)
  rename_i occ' idx hass
  split at h
  · exact absurd h (by simp)
  rename_i hmiss
  simp only [Except.ok.injEq, Prod.mk.injEq] at h
  obtain ⟨rfl, rfl, _⟩ := h
  obtain ⟨he1, he2⟩ := assignEngines_spec hass
  have hshape' := (pickShape_map_engIdx s.locks ps
    (fun p => (s1.ensEng.getD (p.ens + 1).toNat []).map (fun k => (k, (idx.lookup k).getD 0)))).mpr hshape
  refine ⟨?_, ⟨?_, ?_, rfl⟩, hshape', rfl, ha1.toinitiate, ha1.workers, ?_, ?_, ?_, hl01⟩
  · show CoreR _ (heldPicked (ps.map _) ++ H) _
    rw [heldPicked_map_engIdx]
    have := hc1.congr (s' := { s1 with occ := occ' }) ⟨rfl, rfl, rfl, rfl, rfl, rfl⟩
    rw [← ha1.trajNum] at this
    exact this
  · rcases hshape' with h1 | h2
    · exact Or.inl h1
    · exact Or.inr h2.1
  · intro p' hp'
    simp only [List.mem_map] at hp'
    obtain ⟨p, hp, rfl⟩ := hp'
    exact hge p hp
  · intro k i x hx hne hpn
    rw [← ha1.occ] at hx
    exact he1 k i x hx hne hpn
  · intro p' hp' ki hki
    simp only [List.mem_map] at hp'
    obtain ⟨p, hp, rfl⟩ := hp'
    simp only [List.mem_map] at hki
    obtain ⟨k, hk, rfl⟩ := hki
    have hsome : (idx.lookup k).isNone = false := by
      cases hn : (idx.lookup k).isNone with
      | false => rfl
      | true =>
        exfalso
        apply hmiss
        rw [List.any_eq_true]
        refine ⟨p, hp, ?_⟩
        rw [List.any_eq_true]
        exact ⟨k, hk, hn⟩
    cases hl : idx.lookup k with
    | none => rw [hl] at hsome; exact absurd hsome (by simp)
    | some i =>
      simp only [Option.getD_some]
      exact he2 (k, i) (lookup_mem idx k i hl)
  · show s1.locked = _
    rw [hlk1]
    simp [List.map_map, Function.comp_def]

theorem loop_coreEqR (s : St) : CoreEqR s (loop s).1 ∧ (loop s).1.trajNum = s.trajNum ∧
    (loop s).1.toinitiate = s.toinitiate ∧ (loop s).1.workers = s.workers ∧ (loop s).1.occ = s.occ := by
  unfold loop
  split
  · exact ⟨CoreEqR.refl s, rfl, rfl, rfl, rfl⟩
  · exact ⟨⟨rfl, rfl, rfl, rfl, rfl, rfl⟩, rfl, rfl, rfl, rfl⟩

theorem start_preservesR {y y' : Sys} (o : PickOutcome) (saved : Nat) (hi : InvR y)
    (h : sysStep y (.start o saved) = .ok y') : InvR y' := by
  unfold sysStep at h
  rcases initiate_cases y.s with ⟨hin, _⟩ | ⟨ti, hti, hin⟩
  · rw [hin] at h
    simp at h
  rw [hin] at h
  simp only [] at h
  split at h
  · exact absurd h (by simp)
  rename_i hgo
  have hgo : ti - 1 ≥ 0 := by simpa using hgo
  have hti : ti = y.s.toinitiate := by
    rcases hti with h1 | h1
    · exact h1
    · omega
  subst hti
  split at h
  · exact absurd h (by simp)
  rename_i s2 job ds hprep
  simp only [Except.ok.injEq] at h
  subst h
  have hc1 := hi.core.congrTo
    (s' := { y.s with cworker := (y.s.workers - y.s.toinitiate).toNat, toinitiate := y.s.toinitiate - 1 })
    rfl rfl rfl rfl rfl (by show 0 ≤ y.s.toinitiate - 1 → 0 ≤ y.s.toinitiate; omega)
  obtain ⟨hc2, hjob, _, hpin, hto, hwo, hocc1, hocc2, _, _⟩ := prep_specR none o saved job ds hc1 hprep
  simp only [ge_iff_le, hgo, ↓reduceIte, Option.some.injEq] at hpin
  have htole := hi.tole
  have hpinI : (job.pin : Int) = (y.s.workers : Int) - y.s.toinitiate := by
    rw [hpin]; omega
  have hold : ∀ j ∈ y.jobs, (j.pin : Int) < (y.s.workers : Int) - y.s.toinitiate :=
    hi.pinBound (by omega)
  constructor
  · exact hc2.perm (held_append_perm y.jobs job)
  · intro j hj
    rcases List.mem_append.mp hj with hj | hj
    · exact hi.jobs j hj
    · simp only [List.mem_singleton] at hj
      subst hj; exact hjob
  · rw [List.map_append, List.nodup_append]
    refine ⟨hi.pins, by simp, ?_⟩
    intro a ha b hb
    simp only [List.map_cons, List.map_nil, List.mem_singleton] at hb
    obtain ⟨j, hj, rfl⟩ := List.mem_map.mp ha
    have := hold j hj
    intro heq
    rw [hb] at heq
    rw [heq] at this
    omega
  · show s2.toinitiate ≤ (s2.workers : Int)
    rw [hto, hwo]
    show y.s.toinitiate - 1 ≤ (y.s.workers : Int)
    omega
  · show 0 ≤ s2.toinitiate → ∀ j ∈ y.jobs ++ [job], (j.pin : Int) < (s2.workers : Int) - s2.toinitiate
    rw [hto, hwo]
    show 0 ≤ y.s.toinitiate - 1 → ∀ j ∈ y.jobs ++ [job],
      (j.pin : Int) < (y.s.workers : Int) - (y.s.toinitiate - 1)
    intro _ j hj
    rcases List.mem_append.mp hj with hj | hj
    · have := hold j hj
      omega
    · simp only [List.mem_singleton] at hj
      subst hj
      omega
  · intro j hj p hp ki hki
    rcases List.mem_append.mp hj with hj | hj
    · have hcell := hi.eng j hj p hp ki hki
      have := hold j hj
      exact hocc1 ki.1 ki.2 _ hcell (by omega) (by omega)
    · simp only [List.mem_singleton] at hj
      subst hj
      exact hocc2 p hp ki hki

theorem initDone_preservesR {y y' : Sys} (hi : InvR y) (h : sysStep y .initDone = .ok y') : InvR y' := by
  unfold sysStep at h
  rcases initiate_cases y.s with ⟨hin, _⟩ | ⟨ti, hti, hin⟩
  · rw [hin] at h
    simp only [Bool.false_eq_true, ↓reduceIte, Except.ok.injEq] at h
    subst h
    exact hi
  rw [hin] at h
  simp only [] at h
  split at h
  · exact absurd h (by simp)
  rename_i hgo
  have hgo : ¬ (ti - 1 ≥ 0) := by simpa using hgo
  simp only [Except.ok.injEq] at h
  subst h
  have htole := hi.tole
  constructor
  · exact hi.core.congrTo rfl rfl rfl rfl rfl (by show 0 ≤ ti - 1 → 0 ≤ y.s.toinitiate; omega)
  · exact hi.jobs
  · exact hi.pins
  · show ti - 1 ≤ (y.s.workers : Int)
    omega
  · show 0 ≤ ti - 1 → _
    intro h0
    omega
  · exact hi.eng

theorem step_preservesR {y y' : Sys} (k : Nat) (status : Status) (newW : List (List Rat))
    (o : PickOutcome) (hi : InvR y) (h : sysStep y (.step k status newW o) = .ok y') : InvR y' := by
  unfold sysStep at h
  obtain ⟨hle, hltn, hlto, hlwo, hlocc⟩ := loop_coreEqR y.s
  generalize hloop : loop y.s = r at h hle hltn hlto hlwo hlocc
  obtain ⟨s1, go⟩ := r
  simp only [] at h hle hltn hlto hlwo hlocc
  split at h
  · exact absurd h (by simp)
  split at h
  · exact absurd h (by simp)
  rename_i job hjob
  split at h
  · exact absurd h (by simp)
  rename_i s2 pns it htreat
  have hperm := held_perm_erase y.jobs k job hjob
  have hc1 : CoreR s1 (heldJob job ++ held (y.jobs.eraseIdx k)) s1.trajNum := by
    rw [hltn]
    exact (hi.core.congr hle).perm hperm
  obtain ⟨hc2, hcw, hto, hwo, hocc, _, _, _, _, _⟩ := treatOutput_coreR job status newW _ pns it hc1 htreat
  have hjmem : job ∈ y.jobs := List.mem_of_getElem? hjob
  have hrest : ∀ j ∈ y.jobs.eraseIdx k, j ∈ y.jobs := fun j hj => List.mem_of_mem_eraseIdx hj
  have hpinsP : (job.pin :: (y.jobs.eraseIdx k).map (·.pin)).Nodup := by
    have := ((perm_cons_eraseIdx y.jobs k job hjob).map (·.pin)).nodup_iff.mp hi.pins
    simpa using this
  rw [List.nodup_cons] at hpinsP
  split at h
  · -- a new job for the same worker
    split at h
    · exact absurd h (by simp)
    rename_i s3 job' ds hprep
    simp only [Except.ok.injEq] at h
    subst h
    obtain ⟨hc3, hjob', _, hpin, hto3, hwo3, hocc1, hocc2, _, _⟩ := prep_specR (some job.pin) o 0 job' ds hc2 hprep
    have hpin' : job'.pin = job.pin := by
      rw [hcw] at hpin
      split at hpin <;> simpa using hpin
    constructor
    · exact hc3.perm (held_append_perm _ job')
    · intro j hj
      rcases List.mem_append.mp hj with hj | hj
      · exact hi.jobs j (hrest j hj)
      · simp only [List.mem_singleton] at hj
        subst hj; exact hjob'
    · rw [List.map_append, List.nodup_append]
      refine ⟨hpinsP.2, by simp, ?_⟩
      intro a ha b hb
      simp only [List.map_cons, List.map_nil, List.mem_singleton] at hb
      intro heq
      rw [hb, hpin'] at heq
      rw [heq] at ha
      exact hpinsP.1 ha
    · show s3.toinitiate ≤ (s3.workers : Int)
      rw [hto3, hwo3, hto, hwo, hlto, hlwo]
      exact hi.tole
    · show 0 ≤ s3.toinitiate → ∀ j ∈ y.jobs.eraseIdx k ++ [job'],
        (j.pin : Int) < (s3.workers : Int) - s3.toinitiate
      rw [hto3, hwo3, hto, hwo, hlto, hlwo]
      intro h0 j hj
      rcases List.mem_append.mp hj with hj | hj
      · exact hi.pinBound h0 j (hrest j hj)
      · simp only [List.mem_singleton] at hj
        subst hj
        rw [hpin']
        exact hi.pinBound h0 job hjmem
    · intro j hj p hp ki hki
      rcases List.mem_append.mp hj with hj | hj
      · have hcell := hi.eng j (hrest j hj) p hp ki hki
        rw [← hlocc, ← hocc] at hcell
        have hne : j.pin ≠ job.pin := by
          intro heq
          exact hpinsP.1 (List.mem_map.mpr ⟨j, hj, heq⟩)
        exact hocc1 ki.1 ki.2 _ hcell (by omega) (by rw [hpin']; omega)
      · simp only [List.mem_singleton] at hj
        subst hj
        exact hocc2 p hp ki hki
  · simp only [Except.ok.injEq] at h
    subst h
    constructor
    · exact hc2
    · exact fun j hj => hi.jobs j (hrest j hj)
    · exact hpinsP.2
    · show s2.toinitiate ≤ (s2.workers : Int)
      rw [hto, hwo, hlto, hlwo]
      exact hi.tole
    · show 0 ≤ s2.toinitiate → ∀ j ∈ y.jobs.eraseIdx k, (j.pin : Int) < (s2.workers : Int) - s2.toinitiate
      rw [hto, hwo, hlto, hlwo]
      exact fun h0 j hj => hi.pinBound h0 j (hrest j hj)
    · intro j hj p hp ki hki
      show cell s2.occ ki.1 ki.2 = _
      rw [hocc, hlocc]
      exact hi.eng j (hrest j hj) p hp ki hki

/-- **one iteration of the scheduler loops preserves the invariant** -/
theorem sysStep_preservesR {y y' : Sys} (ev : Ev) (hi : InvR y) (h : sysStep y ev = .ok y') : InvR y' := by
  cases ev with
  | start o saved => exact start_preservesR o saved hi h
  | step k status newW o => exact step_preservesR k status newW o hi h
  | initDone => exact initDone_preservesR hi h

theorem run_preservesR : ∀ (evs : List Ev) {y y' : Sys}, InvR y → run y evs = .ok y' → InvR y' := by
  intro evs
  induction evs with
  | nil =>
    intro y y' hi h
    simp only [run, Except.ok.injEq] at h
    subst h; exact hi
  | cons ev rest ih =>
    intro y y' hi h
    unfold run at h
    split at h
    · exact absurd h (by simp)
    · rename_i y1 hstep
      exact ih (sysStep_preservesR ev hi hstep) h


end Infretis.Repex
