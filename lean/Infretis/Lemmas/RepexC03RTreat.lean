import Infretis.Lemmas.RepexC03RCore
/-!
# C03 across restarts — `add_traj`, `sort_trajstate`, `treat_output` preserve `CoreR`
(the proofs of RepexC03Treat re-run for `CoreR`; reserved slots are idle, so releasing held slots
does not touch them, and sorting only happens once `toinitiate = -1`)
-/
namespace Infretis.Repex
open Infretis.Perm

theorem CoreEqR.of {s s' : St} (c : CoreEq s s') (a : AuxEq s s') : CoreEqR s s' :=
  ⟨c.n, c.W, c.trajs, c.locks, c.locked0, a.toinitiate⟩

theorem AuxEqR.of {s s' : St} (c : CoreEq s s') (a : AuxEq s s') : AuxEqR s s' :=
  ⟨a.n, a.toinitiate, a.workers, a.cworker, a.occ, a.ensEng, a.trajNum, a.cstep, a.tsteps, c.locked0⟩

theorem recordFrac_frameR {s s' : St} (h : recordFrac s = .ok s') : CoreEqR s s' ∧ AuxEqR s s' :=
  ⟨CoreEqR.of (recordFrac_frame h).1 (recordFrac_frame h).2, AuxEqR.of (recordFrac_frame h).1 (recordFrac_frame h).2⟩

theorem writeRows_frameR (l : List Nat) {s s' : St} (h : writeRows s l = .ok s') :
    CoreEqR s s' ∧ AuxEqR s s' :=
  ⟨CoreEqR.of (writeRows_frame l h).1 (writeRows_frame l h).2, AuxEqR.of (writeRows_frame l h).1 (writeRows_frame l h).2⟩

theorem addTraj_coreR {s s' : St} {H : List (Nat × Nat)} {tn tn' : Nat} (e pnOld pn : Nat)
    (ens : Int) (valid : List Rat)
    (h : CoreR s ((e, pnOld) :: H) tn) (ha : addTraj s ens pn valid = .ok s')
    (he : (ens + 1).toNat = e)
    (hfresh : ∀ b, b < s.n - 1 → b ≠ e → s.trajs[b]? ≠ some (some pn))
    (hpn : pn < tn') (hle : tn ≤ tn') :
    CoreR s' H tn' ∧ AuxEqR s s' := by
  obtain ⟨v, hv, hs⟩ := addTraj_ok ha
  rw [he] at hv hs
  subst hs
  exact ⟨unlock_coreR e pnOld pn v h hv hfresh hpn hle rfl rfl rfl rfl rfl rfl,
    ⟨rfl, rfl, rfl, rfl, rfl, rfl, rfl, rfl, rfl, rfl⟩⟩


theorem mem_lockedPathsR {s : St} {H : List (Nat × Nat)} {tn : Nat} (h : CoreR s H tn) (i : Nat)
    (hi : i < s.n - 1) (hl : s.locks[i]? = some true) : s.trajs.getD i none ∈ lockedPaths s := by
  unfold lockedPaths
  rw [List.mem_filterMap]
  have hiT : i < s.trajs.length := by rw [h.lenT]; omega
  refine ⟨(s.trajs.getD i none, true), ?_, by simp⟩
  apply List.mem_of_getElem? (i := i)
  rw [List.getElem?_zip_eq_some]
  constructor
  · rw [List.getElem?_dropLast, if_pos (by rw [h.lenT]; exact hi), List.getD_eq_getElem?_getD,
      List.getElem?_eq_getElem hiT]
    rfl
  · rw [List.getElem?_dropLast, if_pos (by rw [h.lenL]; exact hi)]
    exact hl

theorem sortStep_coreR {s s' : St} {H : List (Nat × Nat)} {tn : Nat} (h : CoreR s H tn)
    (hs : sortStep s = .ok (some s')) : CoreR s' H tn ∧ AuxEqR s s' := by
  unfold sortStep at hs
  simp only [] at hs
  split at hs
  · exact absurd hs (by simp)
  rename_i hcond
  have hcond := Classical.not_not.mp hcond
  split at hs
  · exact absurd hs (by simp)
  split at hs
  · exact absurd hs (by simp)
  rename_i htj
  simp only [Except.ok.injEq, Option.some.injEq] at hs
  subst hs
  -- the slot with a zero diagonal is idle
  have hex : ∃ x, x ∈ needsToMove s ∧ (x == true) = true := by
    have := hcond.1
    rw [List.contains_iff_mem] at this
    exact ⟨true, this, rfl⟩
  have h1 : (needsToMove s).findIdx (· == true) < (needsToMove s).length :=
    List.findIdx_lt_length_of_exists hex
  have h1v := List.findIdx_getElem (w := h1)
  have hlen1 : (needsToMove s).length = s.n - 1 := by simp [needsToMove]
  have h1' : (needsToMove s).findIdx (· == true) < s.n - 1 := by rw [← hlen1]; exact h1
  have hz : entryM s.W ((needsToMove s).findIdx (· == true)) ((needsToMove s).findIdx (· == true)) = 0 := by
    simp only [needsToMove, List.getElem_map, List.getElem_range, beq_iff_eq] at h1v
    exact h1v
  have htjlt := Nat.lt_of_not_ge htj
  have hav : _ := List.findIdx_getElem (w := htjlt)
  simp only [List.length_map, List.length_range] at htjlt
  simp only [List.getElem_map, List.getElem_range, Bool.and_eq_true, Bool.not_eq_true',
    beq_iff_eq] at hav
  refine ⟨swap_coreR h _ _ ?_ ?_ (Or.inl (by have := hcond.2; omega)), AuxEqR.swap s _ _⟩
  · -- the slot with a zero diagonal is idle
    apply unlocked_of_not_locked _ _ (by rw [h.lenL]; omega)
    intro hl
    have := (h.busy _ h1').mp hl
    obtain ⟨⟨e, pn⟩, hm, he⟩ := List.mem_map.mp this
    have he : e = _ := he
    have hne := (h.heldOk e pn hm).2.2
    rw [he] at hne
    exact hne hz
  · -- the chosen path is not a locked one, so its slot is idle
    apply unlocked_of_not_locked _ _ (by rw [h.lenL]; omega)
    intro hl
    have hm := mem_lockedPathsR h _ htjlt hl
    rw [← List.contains_iff_mem] at hm
    rw [hm] at hav
    exact absurd hav.2 (by simp)

theorem sortTrajstate_coreR : ∀ (fuel : Nat) {s s' : St} {H : List (Nat × Nat)} {tn k : Nat},
    CoreR s H tn → sortTrajstate fuel s = .ok (s', k) → CoreR s' H tn ∧ AuxEqR s s' := by
  intro fuel
  induction fuel with
  | zero => intro s s' H tn k _ hs; simp [sortTrajstate] at hs
  | succ fuel ih =>
    intro s s' H tn k h hs
    unfold sortTrajstate at hs
    split at hs
    · exact absurd hs (by simp)
    · simp only [Except.ok.injEq, Prod.mk.injEq] at hs
      obtain ⟨rfl, _⟩ := hs
      exact ⟨h, AuxEqR.refl s⟩
    · rename_i s1 hstep
      obtain ⟨hc1, ha1⟩ := sortStep_coreR h hstep
      split at hs
      · exact absurd hs (by simp)
      · rename_i s2 k2 hrec
        simp only [Except.ok.injEq, Prod.mk.injEq] at hs
        obtain ⟨rfl, _⟩ := hs
        obtain ⟨hc2, ha2⟩ := ih hc1 hrec
        exact ⟨hc2, ha1.trans ha2⟩

/-! ### treat_output -/

theorem perEns_coreR (status : Status) : ∀ (l : List (Picked × List Rat)) {s s' : St}
    {H : List (Nat × Nat)} {tn tn' : Nat} {pns : List Nat},
    CoreR s (heldPicked (l.map Prod.fst) ++ H) tn →
    treatOutput.perEns status s tn l = .ok (s', tn', pns) →
    CoreR s' H tn' ∧ AuxEqR s s' := by
  intro l
  induction l with
  | nil =>
    intro s s' H tn tn' pns h hp
    simp only [treatOutput.perEns, Except.ok.injEq, Prod.mk.injEq] at hp
    obtain ⟨rfl, rfl, _⟩ := hp
    exact ⟨by simpa [heldPicked] using h, AuxEqR.refl s⟩
  | cons pw rest ih =>
    intro s s' H tn tn' pns h hp
    obtain ⟨p, w⟩ := pw
    have h : CoreR s ((slotOf p, p.pn) :: (heldPicked (rest.map Prod.fst) ++ H)) tn := by
      simpa [heldPicked] using h
    obtain ⟨hlt, htr, _⟩ := h.heldOk (slotOf p) p.pn (List.mem_cons_self ..)
    unfold treatOutput.perEns at hp
    simp only [] at hp
    split at hp
    · -- accepted: a fresh path number
      split at hp
      · exact absurd hp (by simp)
      rename_i s3 hadd
      split at hp
      · exact absurd hp (by simp)
      rename_i s4 tn4 pns4 hrec
      simp only [Except.ok.injEq, Prod.mk.injEq] at hp
      obtain ⟨rfl, rfl, _⟩ := hp
      have hc2 := h.congr (s' := { { s with locked := popLocked p.pn s.locked.length 0 s.locked, lockedOrd := popLockedOrd p.pn s.locked.length 0 s.locked s.lockedOrd } with
          frac := s.frac ++ [(tn, List.replicate s.n 0)], wts := s.wts ++ [(tn, w)] })
        ⟨rfl, rfl, rfl, rfl, rfl, rfl⟩
      obtain ⟨hc3, ha3⟩ := addTraj_coreR (tn' := tn + 1) (slotOf p) p.pn tn p.ens w hc2 hadd rfl
        (by
          intro b hb _ hcontra
          obtain ⟨q, hq, hqlt⟩ := h.live b hb
          change s.trajs[b]? = some (some tn) at hcontra
          rw [hq] at hcontra
          simp only [Option.some.injEq] at hcontra
          omega)
        (by omega) (by omega)
      obtain ⟨hc4, ha4⟩ := ih hc3 hrec
      refine ⟨hc4, (AuxEqR.trans ?_ ha3).trans ha4⟩
      exact ⟨rfl, rfl, rfl, rfl, rfl, rfl, rfl, rfl, rfl, rfl⟩
    · -- rejected: the old path goes back
      split at hp
      · exact absurd hp (by simp)
      rename_i wOld _
      split at hp
      · exact absurd hp (by simp)
      rename_i s3 hadd
      split at hp
      · exact absurd hp (by simp)
      rename_i s4 tn4 pns4 hrec
      simp only [Except.ok.injEq, Prod.mk.injEq] at hp
      obtain ⟨rfl, rfl, _⟩ := hp
      have hc2 := h.congr (s' := { s with locked := popLocked p.pn s.locked.length 0 s.locked, lockedOrd := popLockedOrd p.pn s.locked.length 0 s.locked s.lockedOrd })
        ⟨rfl, rfl, rfl, rfl, rfl, rfl⟩
      obtain ⟨q, hq, hqlt⟩ := h.live (slotOf p) hlt
      have hqp : q = p.pn := by
        rw [htr] at hq
        simpa using hq.symm
      obtain ⟨hc3, ha3⟩ := addTraj_coreR (tn' := tn) (slotOf p) p.pn p.pn p.ens wOld hc2 hadd rfl
        (by
          intro b hb hne hcontra
          exact hne (h.inj b (slotOf p) p.pn hb hlt hcontra htr))
        (by omega) (Nat.le_refl _)
      obtain ⟨hc4, ha4⟩ := ih hc3 hrec
      refine ⟨hc4, (AuxEqR.trans ?_ ha3).trans ha4⟩
      exact ⟨rfl, rfl, rfl, rfl, rfl, rfl, rfl, rfl, rfl, rfl⟩

/-- **`treat_output`** releases exactly what the completed job held. -/
theorem treatOutput_coreR {s s' : St} {H : List (Nat × Nat)} (job : Job) (status : Status)
    (newW : List (List Rat)) (fuel : Nat) (pns : List Nat) (it : Nat)
    (h : CoreR s (heldJob job ++ H) s.trajNum)
    (ht : treatOutput s job status newW fuel = .ok (s', pns, it)) :
    CoreR s' H s'.trajNum ∧ s'.cworker = job.pin ∧ s'.toinitiate = s.toinitiate ∧
      s'.workers = s.workers ∧ s'.occ = s.occ ∧ s'.ensEng = s.ensEng ∧ s'.n = s.n ∧
      s'.cstep = s.cstep ∧ s'.tsteps = s.tsteps ∧ s'.locked0 = s.locked0 := by
  unfold treatOutput at ht
  simp only [] at ht
  generalize hws : (if status = Status.acc then newW else job.picked.map (fun _ => [])) = ws at ht
  split at ht
  · exact absurd ht (by simp)
  rename_i hlen
  have hlen := Classical.not_not.mp hlen
  split at ht
  · exact absurd ht (by simp)
  rename_i s1 tn pnNews hper
  split at ht
  · exact absurd ht (by simp)
  rename_i s2 hrec
  split at ht
  · exact absurd ht (by simp)
  rename_i s3 hwr
  split at ht
  · exact absurd ht (by simp)
  rename_i s4 iters hsort
  simp only [Except.ok.injEq, Prod.mk.injEq] at ht
  obtain ⟨rfl, _, _⟩ := ht
  have hfst : (job.picked.zip ws).map Prod.fst = job.picked := List.map_fst_zip (by omega)
  have h0 : CoreR s (heldPicked ((job.picked.zip ws).map Prod.fst) ++ H) s.trajNum := by
    rw [hfst]; exact h
  obtain ⟨hc1, ha1⟩ := perEns_coreR status _ h0 hper
  obtain ⟨hce2, ha2⟩ := recordFrac_frameR hrec
  have hc2 := hc1.congr hce2
  have h3 : CoreEqR s2 s3 ∧ AuxEqR s2 s3 := by
    split at hwr
    · exact writeRows_frameR _ hwr
    · simp only [Except.ok.injEq] at hwr
      subst hwr
      exact ⟨CoreEqR.refl _, AuxEqR.refl _⟩
  have hc3 := hc2.congr h3.1
  obtain ⟨hc4, ha4⟩ := sortTrajstate_coreR fuel hc3 hsort
  have ha := ((ha1.trans ha2).trans h3.2).trans ha4
  refine ⟨hc4.congr ⟨rfl, rfl, rfl, rfl, rfl, rfl⟩, rfl, ha.toinitiate, ha.workers, ha.occ, ha.ensEng,
    ha.n, ha.cstep, ha.tsteps, ha.locked0⟩


end Infretis.Repex
