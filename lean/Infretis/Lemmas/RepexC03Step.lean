import Infretis.Lemmas.RepexC03Init
/-!
# C03 — anatomy of a `step` event, and the zero-swap precondition at the scheduler level
-/
namespace Infretis.Repex
open Infretis.Perm

/-- what a successful `step` event consists of -/
theorem step_decompose {y y' : Sys} (k : Nat) (status : Status) (newW : List (List Rat)) (o : PickOutcome)
    (h : sysStep y (.step k status newW o) = .ok y') :
    ∃ job s1 s2 pns it, y.jobs[k]? = some job ∧ loop y.s = (s1, true) ∧
      treatOutput s1 job status newW (sortFuel s1) = .ok (s2, pns, it) ∧
      ((s2.cstep + s2.workers ≤ s2.tsteps ∧ ∃ s3 job' ds,
          prep s2 (some job.pin) o = .ok (s3, job', ds) ∧
          y' = { s := s3, jobs := y.jobs.eraseIdx k ++ [job'] }) ∨
       (¬ (s2.cstep + s2.workers ≤ s2.tsteps) ∧ y' = { s := s2, jobs := y.jobs.eraseIdx k })) := by
  unfold sysStep at h
  generalize hloop : loop y.s = r at h
  obtain ⟨s1, go⟩ := r
  simp only [] at h
  split at h
  · exact absurd h (by simp)
  rename_i hgo
  have hgo : go = true := by simpa using hgo
  subst hgo
  split at h
  · exact absurd h (by simp)
  rename_i job hjob
  split at h
  · exact absurd h (by simp)
  rename_i s2 pns it htreat
  refine ⟨job, s1, s2, pns, it, hjob, rfl, htreat, ?_⟩
  split at h
  · rename_i hre
    split at h
    · exact absurd h (by simp)
    rename_i s3 job' ds hprep
    simp only [Except.ok.injEq] at h
    exact Or.inl ⟨hre, s3, job', ds, hprep, h.symm⟩
  · rename_i hre
    simp only [Except.ok.injEq] at h
    exact Or.inr ⟨hre, h.symm⟩

/-- **zero swap at the scheduler level, main loop**: if the job submitted by a `step` event holds
    two ensembles, then each of the slots 0 and 1 was, before the event, either idle or held by the
    job that has just completed (and was released by `treat_output`). -/
theorem step_two_idle {y y' : Sys} (hi : Inv y) (k : Nat) (status : Status) (newW : List (List Rat))
    (o : PickOutcome) (h : sysStep y (.step k status newW o) = .ok y') (job' : Job)
    (hnew : y'.jobs = y.jobs.eraseIdx k ++ [job']) (h2 : job'.picked.length = 2) :
    ∃ job, y.jobs[k]? = some job ∧ ∀ e, e = 0 ∨ e = 1 →
      (y.s.locks[e]? = some false ∨ ∃ p ∈ job.picked, slotOf p = e) := by
  obtain ⟨job, s1, s2, pns, it, hjob, hloop, htreat, hcase⟩ := step_decompose k status newW o h
  refine ⟨job, hjob, ?_⟩
  obtain ⟨hle, hltn, _, _, _⟩ := loop_coreEq y.s
  rw [hloop] at hle hltn
  simp only [] at hle hltn
  have hperm := held_perm_erase y.jobs k job hjob
  have hc1 : Core s1 (heldJob job ++ held (y.jobs.eraseIdx k)) s1.trajNum := by
    rw [hltn]
    exact (hi.core.congr hle).perm hperm
  obtain ⟨hc2, _, _, _, _, _, hn2, _, _⟩ := treatOutput_core job status newW _ pns it hc1 htreat
  rcases hcase with ⟨_, s3, job'', ds, hprep, rfl⟩ | ⟨_, rfl⟩
  · simp only [List.append_cancel_left_eq, List.cons.injEq, and_true] at hnew
    subst hnew
    have hidle := prep_two_idle (some job.pin) o 0 job'' ds
      (by rw [hc2.lenW, hc2.lenL]) hc2.l0 hprep h2
    intro e he
    have he2 : s2.locks[e]? = some false := by
      rcases he with rfl | rfl
      · exact hidle.1
      · exact hidle.2
    have hlt : e < y.s.n - 1 := by
      have := hc2.unlocked_lt e he2
      rw [hn2, hle.n] at this
      exact this
    have hnot : e ∉ (held (y.jobs.eraseIdx k)).map Prod.fst := by
      intro hm
      have := (hc2.busy e (by rw [hn2, hle.n]; exact hlt)).mpr hm
      rw [he2] at this
      exact absurd this (by simp)
    rcases bool_getElem?_cases y.s.locks e (by rw [hi.core.lenL]; omega) with hl | hl
    · right
      have hm := (hi.core.busy e hlt).mp hl
      have hm' : e ∈ (heldJob job ++ held (y.jobs.eraseIdx k)).map Prod.fst :=
        (hperm.map Prod.fst).mem_iff.mp hm
      rw [List.map_append, List.mem_append] at hm'
      rcases hm' with h1 | h1
      · simp only [heldJob, List.map_map, List.mem_map, Function.comp_apply] at h1
        exact h1
      · exact absurd h1 hnot
    · exact Or.inl hl
  · exfalso
    have := congrArg List.length hnew
    simp at this

end Infretis.Repex
