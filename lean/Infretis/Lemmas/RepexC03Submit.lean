import Infretis.Model.RepexSubmit
/-!
# C03 — submitted references vs received values (`Model/RepexSubmit.lean`)

`Coherent q`: every queued reference still points at an object that holds the value it held at `submit_work`, and every
unit taken so far was received as submitted.  It is kept by every operation as long as `prep_md_items` is never run on
an object whose reference is queued (`Fresh`); a program that uses a NEW object per submission (`freshProg`) is of that
kind whatever the workers do in between.
-/
namespace Infretis.Repex.Submit
open Infretis.Repex

def Coherent (q : Q) : Prop :=
  (∀ e ∈ q.queue, q.heap[e.addr]? = some e.sub) ∧ (∀ r ∈ q.recv, r.got = r.sub)

/-- `prep_md_items` is not run on an object whose reference sits in the queue -/
def Fresh (q : Q) : Op → Prop
  | .prepBegin a => ∀ e ∈ q.queue, e.addr ≠ a
  | .prepEnd a _ => ∀ e ∈ q.queue, e.addr ≠ a
  | _ => True

def FreshRun : Q → List Op → Prop
  | _, [] => True
  | q, op :: rest => Fresh q op ∧ (∀ q', step q op = .ok q' → FreshRun q' rest)

theorem coherent_empty : Coherent {} := ⟨by simp, by simp⟩

/-- `Fresh`, decided -/
def freshB (q : Q) : Op → Bool
  | .prepBegin a => q.queue.all (fun e => e.addr != a)
  | .prepEnd a _ => q.queue.all (fun e => e.addr != a)
  | _ => true

/-- `FreshRun`, decided along the run -/
def freshRunB : Q → List Op → Bool
  | _, [] => true
  | q, op :: rest =>
    freshB q op && (match step q op with
                    | .ok q' => freshRunB q' rest
                    | .error _ => true)

theorem freshB_sound {q : Q} {op : Op} (h : freshB q op = true) : Fresh q op := by
  cases op with
  | prepBegin a =>
    simp only [freshB, List.all_eq_true, bne_iff_ne] at h
    exact h
  | prepEnd a j =>
    simp only [freshB, List.all_eq_true, bne_iff_ne] at h
    exact h
  | alloc => trivial
  | submit a => trivial
  | take => trivial

theorem freshRunB_sound : ∀ (ops : List Op) (q : Q), freshRunB q ops = true → FreshRun q ops
  | [], _, _ => trivial
  | op :: rest, q, h => by
    simp only [freshRunB, Bool.and_eq_true] at h
    refine ⟨freshB_sound h.1, ?_⟩
    intro q' hq'
    have h2 := h.2
    rw [hq'] at h2
    exact freshRunB_sound rest q' h2

theorem coherent_below {q : Q} (hc : Coherent q) : ∀ e ∈ q.queue, e.addr < q.heap.length := by
  intro e he
  have := hc.1 e he
  rcases Nat.lt_or_ge e.addr q.heap.length with hlt | hlen
  · exact hlt
  · rw [List.getElem?_eq_none hlen] at this
    exact absurd this (by simp)

theorem takeQ_spec {q q' : Q} {r : Recv} (h : takeQ q = .ok (q', r)) :
    ∃ e rest, q.queue = e :: rest ∧ q.heap[e.addr]? = some r.got ∧ r.addr = e.addr ∧ r.sub = e.sub ∧
      q' = { q with queue := rest, recv := q.recv ++ [r] } := by
  unfold takeQ at h
  split at h
  · exact absurd h (by simp)
  rename_i e rest hq
  split at h
  · exact absurd h (by simp)
  rename_i v hv
  simp only [Except.ok.injEq, Prod.mk.injEq] at h
  obtain ⟨h1, h2⟩ := h
  subst h2
  exact ⟨e, rest, hq, hv, rfl, rfl, h1.symm⟩

theorem takeQ_coherent {q q' : Q} {r : Recv} (hc : Coherent q) (h : takeQ q = .ok (q', r)) :
    Coherent q' ∧ r.got = r.sub ∧ q'.heap = q.heap ∧ submittedVals q' = submittedVals q ∧
      (∀ e ∈ q'.queue, e ∈ q.queue) ∧ r.sub :: q'.queue.map (·.sub) = q.queue.map (·.sub) := by
  obtain ⟨e, rest, hq, hv, _, hs, rfl⟩ := takeQ_spec h
  have he : q.heap[e.addr]? = some e.sub := hc.1 e (by rw [hq]; simp)
  have hgot : r.got = r.sub := by
    rw [he] at hv
    rw [hs]
    exact (Option.some.inj hv).symm
  refine ⟨⟨?_, ?_⟩, hgot, rfl, ?_, ?_, ?_⟩
  · intro e' he'
    exact hc.1 e' (by rw [hq]; exact List.mem_cons_of_mem _ he')
  · intro r' hr'
    rcases List.mem_append.mp hr' with hr' | hr'
    · exact hc.2 r' hr'
    · simp only [List.mem_singleton] at hr'
      subst hr'
      exact hgot
  · simp only [submittedVals, hq, List.map_append, List.map_cons, List.map_nil, List.append_assoc,
      List.cons_append, List.nil_append, hs]
  · intro e' he'
    rw [hq]
    exact List.mem_cons_of_mem _ he'
  · simp only [hq, List.map_cons, hs]

/-- every operation keeps `Coherent`, provided `prep_md_items` does not touch a queued object -/
theorem step_coherent {q q' : Q} {op : Op} (hc : Coherent q) (hf : Fresh q op) (h : step q op = .ok q') :
    Coherent q' := by
  cases op with
  | alloc =>
    simp only [step, Except.ok.injEq] at h
    subst h
    refine ⟨?_, hc.2⟩
    intro e he
    have hlt := coherent_below hc e he
    show (q.heap ++ [none])[e.addr]? = some e.sub
    rw [List.getElem?_append_left hlt]
    exact hc.1 e he
  | prepBegin a =>
    simp only [step] at h
    split at h
    · simp only [Except.ok.injEq] at h
      subst h
      refine ⟨?_, hc.2⟩
      intro e he
      show (q.heap.set a none)[e.addr]? = some e.sub
      rw [List.getElem?_set_ne (fun hh => hf e he hh.symm)]
      exact hc.1 e he
    · exact absurd h (by simp)
  | prepEnd a j =>
    simp only [step] at h
    split at h
    · simp only [Except.ok.injEq] at h
      subst h
      refine ⟨?_, hc.2⟩
      intro e he
      show (q.heap.set a (some j))[e.addr]? = some e.sub
      rw [List.getElem?_set_ne (fun hh => hf e he hh.symm)]
      exact hc.1 e he
    · exact absurd h (by simp)
  | submit a =>
    simp only [step] at h
    split at h
    · exact absurd h (by simp)
    rename_i v hv
    simp only [Except.ok.injEq] at h
    subst h
    refine ⟨?_, hc.2⟩
    intro e he
    rcases List.mem_append.mp he with he | he
    · exact hc.1 e he
    · simp only [List.mem_singleton] at he
      subst he
      exact hv
  | take =>
    simp only [step] at h
    split at h
    · exact absurd h (by simp)
    rename_i q1 r ht
    simp only [Except.ok.injEq] at h
    subst h
    exact (takeQ_coherent hc ht).1

theorem run_coherent : ∀ (ops : List Op) {q q' : Q}, Coherent q → FreshRun q ops → run q ops = .ok q' → Coherent q'
  | [], q, q', hc, _, h => by
    simp only [run, Except.ok.injEq] at h
    subst h; exact hc
  | op :: rest, q, q', hc, hf, h => by
    simp only [run] at h
    split at h
    · exact absurd h (by simp)
    rename_i q1 h1
    exact run_coherent rest (step_coherent hc hf.1 h1) (hf.2 q1 h1) h

/-! ### programs -/

theorem run_cons_ok {q q' : Q} {op : Op} {l : List Op} (h : run q (op :: l) = .ok q') :
    ∃ q1, step q op = .ok q1 ∧ run q1 l = .ok q' := by
  simp only [run] at h
  split at h
  · exact absurd h (by simp)
  rename_i q1 h1
  exact ⟨q1, h1, h⟩

theorem run_append_ok : ∀ (l1 : List Op) {l2 : List Op} {q q' : Q}, run q (l1 ++ l2) = .ok q' →
    ∃ q1, run q l1 = .ok q1 ∧ run q1 l2 = .ok q'
  | [], _, q, _, h => ⟨q, rfl, h⟩
  | op :: l1, l2, q, q', h => by
    obtain ⟨q1, h1, h2⟩ := run_cons_ok (l := l1 ++ l2) h
    obtain ⟨q2, h3, h4⟩ := run_append_ok l1 h2
    refine ⟨q2, ?_, h4⟩
    simp only [run, h1]
    exact h3

/-- between two statements of the scheduler the workers take `k` units -/
theorem run_takes : ∀ (k : Nat) {q q' : Q}, Coherent q → run q (takes k) = .ok q' →
    Coherent q' ∧ q'.heap = q.heap ∧ submittedVals q' = submittedVals q ∧ (∀ e ∈ q'.queue, e ∈ q.queue)
  | 0, q, q', hc, h => by
    simp only [takes, List.replicate, run, Except.ok.injEq] at h
    subst h
    exact ⟨hc, rfl, rfl, fun _ he => he⟩
  | k + 1, q, q', hc, h => by
    have : takes (k + 1) = .take :: takes k := rfl
    rw [this] at h
    obtain ⟨q1, h1, h2⟩ := run_cons_ok h
    simp only [step] at h1
    split at h1
    · exact absurd h1 (by simp)
    rename_i q1' r ht
    simp only [Except.ok.injEq] at h1
    subst h1
    obtain ⟨hc1, _, hh, hv, hsub, _⟩ := takeQ_coherent hc ht
    obtain ⟨hc2, hh2, hv2, hsub2⟩ := run_takes k hc1 h2
    exact ⟨hc2, hh2.trans hh, hv2.trans hv, fun e he => hsub e (hsub2 e he)⟩

/-- state of the hand-over inside one submission: object `H` is new, no queued reference points at it -/
structure Mid (q0 q : Q) (H : Nat) : Prop where
  coh : Coherent q
  len : q.heap.length = H + 1
  below : ∀ e ∈ q.queue, e.addr < H
  vals : submittedVals q = submittedVals q0

theorem Mid.takes {q0 q q' : Q} {H k : Nat} (m : Mid q0 q H) (h : run q (takes k) = .ok q') :
    Mid q0 q' H ∧ q'.heap = q.heap := by
  obtain ⟨hc, hh, hv, hsub⟩ := run_takes k m.coh h
  exact ⟨⟨hc, by rw [hh]; exact m.len, fun e he => m.below e (hsub e he), hv.trans m.vals⟩, hh⟩

theorem Mid.set {q0 q : Q} {H : Nat} (m : Mid q0 q H) (v : Option Job) :
    Mid q0 { q with heap := q.heap.set H v } H ∧ ({ q with heap := q.heap.set H v } : Q).heap[H]? = some v := by
  refine ⟨⟨⟨?_, m.coh.2⟩, ?_, m.below, m.vals⟩, ?_⟩
  · intro e he
    have hlt := m.below e he
    show (q.heap.set H v)[e.addr]? = some e.sub
    rw [List.getElem?_set_ne (by omega)]
    exact m.coh.1 e he
  · show (q.heap.set H v).length = H + 1
    rw [List.length_set]; exact m.len
  · show (q.heap.set H v)[H]? = some v
    rw [List.getElem?_set_self (by rw [m.len]; omega)]

/-- **one submission on a new object, with any takes in between, keeps `Coherent` and appends exactly the job** -/
theorem freshBlock_spec {q q' : Q} {b : Slot} (hc : Coherent q) (h : run q (freshBlock q.heap.length b) = .ok q') :
    Coherent q' ∧ q'.heap.length = q.heap.length + 1 ∧ submittedVals q' = submittedVals q ++ [some b.job] := by
  unfold freshBlock at h
  obtain ⟨qa, h1, h⟩ := run_cons_ok h
  simp only [step, Except.ok.injEq] at h1
  subst h1
  have m0 : Mid q { q with heap := q.heap ++ [none] } q.heap.length := by
    refine ⟨?_, by simp, coherent_below hc, rfl⟩
    exact step_coherent (op := .alloc) hc trivial rfl
  obtain ⟨qb, h2, h⟩ := run_append_ok (takes b.k0) h
  obtain ⟨m1, _⟩ := m0.takes h2
  obtain ⟨qc, h3, h⟩ := run_cons_ok h
  simp only [step] at h3
  split at h3
  case isFalse => exact absurd h3 (by simp)
  simp only [Except.ok.injEq] at h3
  subst h3
  obtain ⟨m2, _⟩ := m1.set none
  obtain ⟨qd, h4, h⟩ := run_append_ok (takes b.k1) h
  obtain ⟨m3, _⟩ := m2.takes h4
  obtain ⟨qe, h5, h⟩ := run_cons_ok h
  simp only [step] at h5
  split at h5
  case isFalse => exact absurd h5 (by simp)
  simp only [Except.ok.injEq] at h5
  subst h5
  obtain ⟨m4, hH⟩ := m3.set (some b.job)
  obtain ⟨qf, h6, h⟩ := run_append_ok (takes b.k2) h
  obtain ⟨m5, hheap⟩ := m4.takes h6
  obtain ⟨qg, h7, h⟩ := run_cons_ok h
  have hH' : qf.heap[q.heap.length]? = some (some b.job) := by rw [hheap]; exact hH
  simp only [step] at h7
  rw [hH'] at h7
  simp only [Except.ok.injEq] at h7
  subst h7
  have hcg : Coherent { qf with queue := qf.queue ++ [{ addr := q.heap.length, sub := some b.job }] } := by
    refine ⟨?_, m5.coh.2⟩
    intro e he
    rcases List.mem_append.mp he with he | he
    · exact m5.coh.1 e he
    · simp only [List.mem_singleton] at he
      subst he
      exact hH'
  obtain ⟨hc', hh', hv', _⟩ := run_takes b.k3 hcg h
  refine ⟨hc', ?_, ?_⟩
  · rw [hh']; exact m5.len
  · rw [hv']
    have := m5.vals
    simp only [submittedVals, List.map_append, List.map_cons, List.map_nil] at this ⊢
    rw [← List.append_assoc, this]

/-- **a new object per submission: whatever the workers do in between, every unit is received as submitted, in
    submission order** -/
theorem freshProg_spec : ∀ (slots : List Slot) {q q' : Q}, Coherent q →
    run q (freshProg q.heap.length slots) = .ok q' →
    Coherent q' ∧ submittedVals q' = submittedVals q ++ slots.map (fun b => some b.job)
  | [], q, q', hc, h => by
    simp only [freshProg, run, Except.ok.injEq] at h
    subst h
    exact ⟨hc, by simp⟩
  | b :: rest, q, q', hc, h => by
    simp only [freshProg] at h
    obtain ⟨q1, h1, h2⟩ := run_append_ok _ h
    obtain ⟨hc1, hl1, hv1⟩ := freshBlock_spec hc h1
    rw [← hl1] at h2
    obtain ⟨hc2, hv2⟩ := freshProg_spec rest hc1 h2
    refine ⟨hc2, ?_⟩
    rw [hv2, hv1]
    simp

/-! ### composed with the scheduler -/

/-- the jobs of the scheduler model after one event -/
theorem sysStep_jobs {y y' : Sys} {ev : Ev} (h : sysStep y ev = .ok y') :
    match ev with
    | .start _ _ => ∃ j, y'.jobs = y.jobs ++ [j]
    | .initDone => y'.jobs = y.jobs
    | .step k _ _ _ => k < y.jobs.length ∧
        (y'.jobs = y.jobs.eraseIdx k ∨ ∃ j, y'.jobs = y.jobs.eraseIdx k ++ [j]) := by
  cases ev with
  | start o saved =>
    simp only [sysStep] at h
    split at h
    · exact absurd h (by simp)
    split at h
    · exact absurd h (by simp)
    rename_i s2 job ds _
    simp only [Except.ok.injEq] at h
    subst h
    exact ⟨job, rfl⟩
  | initDone =>
    simp only [sysStep] at h
    split at h
    · exact absurd h (by simp)
    simp only [Except.ok.injEq] at h
    subst h
    rfl
  | step k status newW o =>
    simp only [sysStep] at h
    split at h
    · exact absurd h (by simp)
    split at h
    · exact absurd h (by simp)
    rename_i job hjob
    have hk : k < y.jobs.length := by
      rcases Nat.lt_or_ge k y.jobs.length with hlt | hge
      · exact hlt
      · rw [List.getElem?_eq_none hge] at hjob
        exact absurd hjob (by simp)
    split at h
    · exact absurd h (by simp)
    split at h
    · split at h
      · exact absurd h (by simp)
      rename_i s3 job' ds _
      simp only [Except.ok.injEq] at h
      subst h
      exact ⟨hk, Or.inr ⟨job', rfl⟩⟩
    · simp only [Except.ok.injEq] at h
      subst h
      exact ⟨hk, Or.inl rfl⟩

def LInv (L : LSys) : Prop :=
  Coherent L.q ∧ L.got ++ L.q.queue.map (·.sub) = L.y.jobs.map some

def schedEvs : List LEv → List Ev
  | [] => []
  | .sched ev :: rest => ev :: schedEvs rest
  | .take :: rest => schedEvs rest

/-- the scheduler's own part of the lazy system is the scheduler model, untouched by the takes -/
theorem lazyStep_proj {shared : Bool} {L L' : LSys} {ev : LEv} (h : lazyStep shared L ev = .ok L') :
    match ev with
    | .sched e => sysStep L.y e = .ok L'.y
    | .take => L'.y = L.y := by
  cases ev with
  | take =>
    simp only [lazyStep] at h
    split at h
    · exact absurd h (by simp)
    simp only [Except.ok.injEq] at h
    subst h
    rfl
  | sched e =>
    simp only [lazyStep] at h
    split at h
    · exact absurd h (by simp)
    split at h
    · exact absurd h (by simp)
    rename_i y' hy
    show sysStep L.y e = .ok L'.y
    rw [hy]
    split at h
    · simp only [Except.ok.injEq] at h
      subst h; rfl
    · split at h
      · exact absurd h (by simp)
      simp only [Except.ok.injEq] at h
      subst h; rfl

theorem lazyRun_proj {shared : Bool} : ∀ (evs : List LEv) {L L' : LSys}, lazyRun shared L evs = .ok L' →
    Repex.run L.y (schedEvs evs) = .ok L'.y
  | [], L, L', h => by
    simp only [lazyRun, Except.ok.injEq] at h
    subst h; rfl
  | ev :: rest, L, L', h => by
    simp only [lazyRun] at h
    split at h
    · exact absurd h (by simp)
    rename_i L1 h1
    have hp := lazyStep_proj h1
    have ih := lazyRun_proj rest h
    cases ev with
    | take =>
      simp only at hp
      simp only [schedEvs]
      rw [← hp]; exact ih
    | sched e =>
      simp only at hp
      simp only [schedEvs, Repex.run, hp]
      exact ih

theorem map_eraseIdx' {α β : Type} (f : α → β) : ∀ (l : List α) (k : Nat), (l.eraseIdx k).map f = (l.map f).eraseIdx k
  | [], _ => rfl
  | _ :: _, 0 => rfl
  | a :: t, k + 1 => by
    simp only [List.eraseIdx_cons_succ, List.map_cons]
    rw [map_eraseIdx' f t k]

theorem eraseIdx_append_lt {α : Type} : ∀ (l1 l2 : List α) (k : Nat), k < l1.length →
    (l1 ++ l2).eraseIdx k = l1.eraseIdx k ++ l2 := by
  intro l1 l2 k hk
  exact List.eraseIdx_append_of_lt_length hk l2

/-- the three statements a submitting event runs on a NEW object -/
theorem submit_fresh {q q2 : Q} {j : Job} (hc : Coherent q)
    (h : run { q with heap := q.heap ++ [none] } [.prepBegin q.heap.length, .prepEnd q.heap.length j, .submit q.heap.length]
          = .ok q2) :
    Coherent q2 ∧ q2.queue = q.queue ++ [{ addr := q.heap.length, sub := some j }] ∧ q2.recv = q.recv := by
  have hb : freshBlock q.heap.length { job := j } =
      [.alloc, .prepBegin q.heap.length, .prepEnd q.heap.length j, .submit q.heap.length] := rfl
  have hrun : run q (freshBlock q.heap.length { job := j }) = .ok q2 := by
    rw [hb]
    simp only [run, step]
    exact h
  refine ⟨(freshBlock_spec hc hrun).1, ?_, ?_⟩
  all_goals
    simp only [run, step, List.length_append, List.length_cons, List.length_nil, Nat.zero_add,
      Nat.lt_add_one, ↓reduceIte, List.length_set] at h
    rw [List.getElem?_set_self (by simp)] at h
    simp only [Except.ok.injEq] at h
    subst h
    rfl

/-- **the code as it is (`shared = false`): at every instant the units the workers hold followed by the queued ones
    are exactly the jobs in flight of the scheduler model, value for value** -/
theorem lazyStep_fresh_inv {L L' : LSys} {ev : LEv} (hi : LInv L) (h : lazyStep false L ev = .ok L') : LInv L' := by
  obtain ⟨hc, hj⟩ := hi
  cases ev with
  | take =>
    simp only [lazyStep] at h
    split at h
    · exact absurd h (by simp)
    rename_i q1 r ht
    simp only [Except.ok.injEq] at h
    subst h
    obtain ⟨hc1, hgot, _, _, _, hq⟩ := takeQ_coherent hc ht
    refine ⟨hc1, ?_⟩
    show (L.got ++ [r.got]) ++ q1.queue.map (·.sub) = L.y.jobs.map some
    rw [List.append_assoc, List.singleton_append, hgot, hq]
    exact hj
  | sched e =>
    simp only [lazyStep] at h
    split at h
    · exact absurd h (by simp)
    rename_i hdone
    split at h
    · exact absurd h (by simp)
    rename_i y' hy
    have hjobs := sysStep_jobs hy
    cases e with
    | start o saved =>
      simp only at hjobs
      obtain ⟨j, hjj⟩ := hjobs
      simp only [keepLen, gotAfter, hjj, List.drop_left', target] at h
      split at h
      · exact absurd h (by simp)
      rename_i q2 hq2
      simp only [Except.ok.injEq] at h
      subst h
      obtain ⟨hc2, hqq, _⟩ := submit_fresh hc hq2
      refine ⟨hc2, ?_⟩
      show L.got ++ q2.queue.map (·.sub) = y'.jobs.map some
      rw [hqq, hjj, List.map_append, List.map_append, ← List.append_assoc, hj]
      rfl
    | initDone =>
      simp only at hjobs
      simp only [keepLen, gotAfter, hjobs, List.drop_length] at h
      simp only [Except.ok.injEq] at h
      subst h
      exact ⟨hc, by rw [hjobs]; exact hj⟩
    | step k status newW o =>
      simp only at hjobs
      obtain ⟨hk, hcase⟩ := hjobs
      simp only [blocked, decide_eq_true_eq, Nat.not_le] at hdone
      have hgl : L.got.length ≤ L.y.jobs.length := by
        have := congrArg List.length hj
        simp only [List.length_append, List.length_map] at this
        omega
      have herase : L.got.eraseIdx k ++ L.q.queue.map (·.sub) = (L.y.jobs.eraseIdx k).map some := by
        rw [← eraseIdx_append_lt _ _ _ hdone, hj, map_eraseIdx']
      have hlen : (L.y.jobs.eraseIdx k).length = L.y.jobs.length - 1 := by
        rw [List.length_eraseIdx]; simp [hk]
      rcases hcase with hcase | ⟨j, hcase⟩
      · simp only [keepLen, gotAfter, hcase] at h
        rw [← hlen, List.drop_length] at h
        simp only [Except.ok.injEq] at h
        subst h
        exact ⟨hc, by rw [hcase]; exact herase⟩
      · simp only [keepLen, gotAfter, hcase] at h
        rw [← hlen, List.drop_left' rfl] at h
        simp only [target] at h
        split at h
        · exact absurd h (by simp)
        rename_i q2 hq2
        simp only [Except.ok.injEq] at h
        subst h
        obtain ⟨hc2, hqq, _⟩ := submit_fresh hc hq2
        refine ⟨hc2, ?_⟩
        show L.got.eraseIdx k ++ q2.queue.map (·.sub) = y'.jobs.map some
        rw [hqq, hcase, List.map_append, List.map_append, ← List.append_assoc, herase]
        rfl

theorem lazyRun_fresh_inv : ∀ (evs : List LEv) {L L' : LSys}, LInv L → lazyRun false L evs = .ok L' → LInv L'
  | [], L, L', hi, h => by
    simp only [lazyRun, Except.ok.injEq] at h
    subst h; exact hi
  | ev :: rest, L, L', hi, h => by
    simp only [lazyRun] at h
    split at h
    · exact absurd h (by simp)
    rename_i L1 h1
    exact lazyRun_fresh_inv rest (lazyStep_fresh_inv hi h1) h

theorem linv_start (y0 : Sys) (h : y0.jobs = []) : LInv { y := y0 } :=
  ⟨coherent_empty, by simp [h]⟩

/-- what the running workers hold is a prefix of the scheduler's jobs in flight -/
theorem got_prefix {L : LSys} (hi : LInv L) : L.got = (L.y.jobs.take L.got.length).map some := by
  have := congrArg (List.take L.got.length) hi.2
  rw [List.take_left' rfl] at this
  rw [List.map_take]
  exact this

end Infretis.Repex.Submit
