import Infretis.Lemmas.RepexC03Core
/-!
# C03 — `add_traj`, `sort_trajstate`, `treat_output` preserve the slot / lock invariant
-/
namespace Infretis.Repex
open Infretis.Perm

/-! ### add_traj -/

theorem addTraj_ok {s s' : St} {ens : Int} {pn : Nat} {valid : List Rat}
    (h : addTraj s ens pn valid = .ok s') :
    ∃ v : List Rat, v.getD (ens + 1).toNat 0 ≠ 0 ∧
      s' = { s with trajs := s.trajs.set (ens + 1).toNat (some pn),
                    W := s.W.set (ens + 1).toNat v,
                    locks := s.locks.set (ens + 1).toNat false } := by
  unfold addTraj at h
  simp only [] at h
  have hoff : (ens + (off : Int)).toNat = (ens + 1).toNat := by simp [off]
  rw [hoff] at h
  split at h
  · exact absurd h (by simp)
  rename_i x hx
  split at h
  · exact absurd h (by simp)
  rename_i hx0
  split at h
  · exact absurd h (by simp)
  split at h
  · exact absurd h (by simp)
  obtain ⟨_, hs⟩ := unlock_ok h
  refine ⟨padValid s ens valid, ?_, hs⟩
  rw [List.getD_eq_getElem?_getD, hx]
  exact hx0

theorem addTraj_core {s s' : St} {H : List (Nat × Nat)} {tn tn' : Nat} (e pnOld pn : Nat)
    (ens : Int) (valid : List Rat)
    (h : Core s ((e, pnOld) :: H) tn) (ha : addTraj s ens pn valid = .ok s')
    (he : (ens + 1).toNat = e)
    (hfresh : ∀ b, b < s.n - 1 → b ≠ e → s.trajs[b]? ≠ some (some pn))
    (hpn : pn < tn') (hle : tn ≤ tn') :
    Core s' H tn' ∧ AuxEq s s' := by
  obtain ⟨v, hv, hs⟩ := addTraj_ok ha
  rw [he] at hv hs
  subst hs
  exact ⟨unlock_core e pnOld pn v h hv hfresh hpn hle rfl rfl rfl rfl rfl,
    ⟨rfl, rfl, rfl, rfl, rfl, rfl, rfl, rfl, rfl⟩⟩

/-! ### sort_trajstate -/

theorem mem_lockedPaths {s : St} {H : List (Nat × Nat)} {tn : Nat} (h : Core s H tn) (i : Nat)
    (hi : i < s.n - 1) (hl : s.locks[i]? = some true) : s.trajs.getD i none ∈ lockedPaths s := by
  unfold lockedPaths
  rw [List.mem_filterMap]
  have hiT : i < s.trajs.length := by rw [h.lenT]; omega
  refine ⟨(s.trajs.getD i none, true), ?_, by simp⟩
  apply List.mem_of_getElem? (i := i)
  rw [List.getElem?_zip_eq_some]
  constructor
  · rw [List.getElem?_dropLast, if_pos (by rw [h.lenT]; exact hi), List.getD_eq_getElem?_getD,
      List.getElem?_eq_getElem hiT]
    rfl
  · rw [List.getElem?_dropLast, if_pos (by rw [h.lenL]; exact hi)]
    exact hl

theorem bool_getElem?_cases (l : List Bool) (i : Nat) (hi : i < l.length) :
    l[i]? = some true ∨ l[i]? = some false := by
  rw [List.getElem?_eq_getElem hi]
  cases l[i] <;> simp

theorem unlocked_of_not_locked (l : List Bool) (i : Nat) (hi : i < l.length)
    (h : l[i]? ≠ some true) : l[i]? = some false := by
  rcases bool_getElem?_cases l i hi with h' | h'
  · exact absurd h' h
  · exact h'

theorem sortStep_core {s s' : St} {H : List (Nat × Nat)} {tn : Nat} (h : Core s H tn)
    (hs : sortStep s = .ok (some s')) : Core s' H tn ∧ AuxEq s s' := by
  unfold sortStep at hs
  simp only [] at hs
  split at hs
  · exact absurd hs (by simp)
  rename_i hcond
  have hcond := Classical.not_not.mp hcond
  split at hs
  · exact absurd hs (by simp)
  split at hs
  · exact absurd hs (by simp)
  rename_i htj
  simp only [Except.ok.injEq, Option.some.injEq] at hs
  subst hs
  -- the slot with a zero diagonal is idle
  have hex : ∃ x, x ∈ needsToMove s ∧ (x == true) = true := by
    have := hcond.1
    rw [List.contains_iff_mem] at this
    exact ⟨true, this, rfl⟩
  have h1 : (needsToMove s).findIdx (· == true) < (needsToMove s).length :=
    List.findIdx_lt_length_of_exists hex
  have h1v := List.findIdx_getElem (w := h1)
  have hlen1 : (needsToMove s).length = s.n - 1 := by simp [needsToMove]
  have h1' : (needsToMove s).findIdx (· == true) < s.n - 1 := by rw [← hlen1]; exact h1
  have hz : entryM s.W ((needsToMove s).findIdx (· == true)) ((needsToMove s).findIdx (· == true)) = 0 := by
    simp only [needsToMove, List.getElem_map, List.getElem_range, beq_iff_eq] at h1v
    exact h1v
  have htjlt := Nat.lt_of_not_ge htj
  have hav : _ := List.findIdx_getElem (w := htjlt)
  simp only [List.length_map, List.length_range] at htjlt
  simp only [List.getElem_map, List.getElem_range, Bool.and_eq_true, Bool.not_eq_true',
    beq_iff_eq] at hav
  refine ⟨swap_core h _ _ ?_ ?_, AuxEq.swap s _ _⟩
  · -- the slot with a zero diagonal is idle
    apply unlocked_of_not_locked _ _ (by rw [h.lenL]; omega)
    intro hl
    have := (h.busy _ h1').mp hl
    obtain ⟨⟨e, pn⟩, hm, he⟩ := List.mem_map.mp this
    have he : e = _ := he
    have hne := (h.heldOk e pn hm).2.2
    rw [he] at hne
    exact hne hz
  · -- the chosen path is not a locked one, so its slot is idle
    apply unlocked_of_not_locked _ _ (by rw [h.lenL]; omega)
    intro hl
    have hm := mem_lockedPaths h _ htjlt hl
    rw [← List.contains_iff_mem] at hm
    rw [hm] at hav
    exact absurd hav.2 (by simp)

theorem sortTrajstate_core : ∀ (fuel : Nat) {s s' : St} {H : List (Nat × Nat)} {tn k : Nat},
    Core s H tn → sortTrajstate fuel s = .ok (s', k) → Core s' H tn ∧ AuxEq s s' := by
  intro fuel
  induction fuel with
  | zero => intro s s' H tn k _ hs; simp [sortTrajstate] at hs
  | succ fuel ih =>
    intro s s' H tn k h hs
    unfold sortTrajstate at hs
    split at hs
    · exact absurd hs (by simp)
    · simp only [Except.ok.injEq, Prod.mk.injEq] at hs
      obtain ⟨rfl, _⟩ := hs
      exact ⟨h, AuxEq.refl s⟩
    · rename_i s1 hstep
      obtain ⟨hc1, ha1⟩ := sortStep_core h hstep
      split at hs
      · exact absurd hs (by simp)
      · rename_i s2 k2 hrec
        simp only [Except.ok.injEq, Prod.mk.injEq] at hs
        obtain ⟨rfl, _⟩ := hs
        obtain ⟨hc2, ha2⟩ := ih hc1 hrec
        exact ⟨hc2, ha1.trans ha2⟩

/-! ### recording fractions and data rows touch neither slots nor locks -/

theorem recordFrac_frame {s s' : St} (h : recordFrac s = .ok s') : CoreEq s s' ∧ AuxEq s s' := by
  unfold recordFrac at h
  simp only [] at h
  split at h
  · exact absurd h (by simp)
  · simp only [Except.ok.injEq] at h
    subst h
    exact ⟨⟨rfl, rfl, rfl, rfl, rfl⟩, ⟨rfl, rfl, rfl, rfl, rfl, rfl, rfl, rfl, rfl⟩⟩

theorem writeRows_frame : ∀ (l : List Nat) {s s' : St}, writeRows s l = .ok s' →
    CoreEq s s' ∧ AuxEq s s' := by
  intro l
  induction l with
  | nil =>
    intro s s' h
    simp only [writeRows, Except.ok.injEq] at h
    subst h
    exact ⟨CoreEq.refl s, AuxEq.refl s⟩
  | cons pn rest ih =>
    intro s s' h
    unfold writeRows at h
    split at h
    · obtain ⟨h1, h2⟩ := ih h
      refine ⟨CoreEq.trans ?_ h1, AuxEq.trans ?_ h2⟩
      · exact ⟨rfl, rfl, rfl, rfl, rfl⟩
      · exact ⟨rfl, rfl, rfl, rfl, rfl, rfl, rfl, rfl, rfl⟩
    · exact absurd h (by simp)

/-! ### treat_output -/

theorem perEns_core (status : Status) : ∀ (l : List (Picked × List Rat)) {s s' : St}
    {H : List (Nat × Nat)} {tn tn' : Nat} {pns : List Nat},
    Core s (heldPicked (l.map Prod.fst) ++ H) tn →
    treatOutput.perEns status s tn l = .ok (s', tn', pns) →
    Core s' H tn' ∧ AuxEq s s' := by
  intro l
  induction l with
  | nil =>
    intro s s' H tn tn' pns h hp
    simp only [treatOutput.perEns, Except.ok.injEq, Prod.mk.injEq] at hp
    obtain ⟨rfl, rfl, _⟩ := hp
    exact ⟨by simpa [heldPicked] using h, AuxEq.refl s⟩
  | cons pw rest ih =>
    intro s s' H tn tn' pns h hp
    obtain ⟨p, w⟩ := pw
    have h : Core s ((slotOf p, p.pn) :: (heldPicked (rest.map Prod.fst) ++ H)) tn := by
      simpa [heldPicked] using h
    obtain ⟨hlt, htr, _⟩ := h.heldOk (slotOf p) p.pn (List.mem_cons_self ..)
    unfold treatOutput.perEns at hp
    simp only [] at hp
    split at hp
    · -- accepted: a fresh path number
      split at hp
      · exact absurd hp (by simp)
      rename_i s3 hadd
      split at hp
      · exact absurd hp (by simp)
      rename_i s4 tn4 pns4 hrec
      simp only [Except.ok.injEq, Prod.mk.injEq] at hp
      obtain ⟨rfl, rfl, _⟩ := hp
      have hc2 := h.congr (s' := { { s with locked := popLocked p.pn s.locked.length 0 s.locked, lockedOrd := popLockedOrd p.pn s.locked.length 0 s.locked s.lockedOrd } with
          frac := s.frac ++ [(tn, List.replicate s.n 0)], wts := s.wts ++ [(tn, w)] })
        ⟨rfl, rfl, rfl, rfl, rfl⟩
      obtain ⟨hc3, ha3⟩ := addTraj_core (tn' := tn + 1) (slotOf p) p.pn tn p.ens w hc2 hadd rfl
        (by
          intro b hb _ hcontra
          obtain ⟨q, hq, hqlt⟩ := h.live b hb
          change s.trajs[b]? = some (some tn) at hcontra
          rw [hq] at hcontra
          simp only [Option.some.injEq] at hcontra
          omega)
        (by omega) (by omega)
      obtain ⟨hc4, ha4⟩ := ih hc3 hrec
      refine ⟨hc4, (AuxEq.trans ?_ ha3).trans ha4⟩
      exact ⟨rfl, rfl, rfl, rfl, rfl, rfl, rfl, rfl, rfl⟩
    · -- rejected: the old path goes back
      split at hp
      · exact absurd hp (by simp)
      rename_i wOld _
      split at hp
      · exact absurd hp (by simp)
      rename_i s3 hadd
      split at hp
      · exact absurd hp (by simp)
      rename_i s4 tn4 pns4 hrec
      simp only [Except.ok.injEq, Prod.mk.injEq] at hp
      obtain ⟨rfl, rfl, _⟩ := hp
      have hc2 := h.congr (s' := { s with locked := popLocked p.pn s.locked.length 0 s.locked, lockedOrd := popLockedOrd p.pn s.locked.length 0 s.locked s.lockedOrd })
        ⟨rfl, rfl, rfl, rfl, rfl⟩
      obtain ⟨q, hq, hqlt⟩ := h.live (slotOf p) hlt
      have hqp : q = p.pn := by
        rw [htr] at hq
        simpa using hq.symm
      obtain ⟨hc3, ha3⟩ := addTraj_core (tn' := tn) (slotOf p) p.pn p.pn p.ens wOld hc2 hadd rfl
        (by
          intro b hb hne hcontra
          exact hne (h.inj b (slotOf p) p.pn hb hlt hcontra htr))
        (by omega) (Nat.le_refl _)
      obtain ⟨hc4, ha4⟩ := ih hc3 hrec
      refine ⟨hc4, (AuxEq.trans ?_ ha3).trans ha4⟩
      exact ⟨rfl, rfl, rfl, rfl, rfl, rfl, rfl, rfl, rfl⟩

/-- **`treat_output`** releases exactly what the completed job held. -/
theorem treatOutput_core {s s' : St} {H : List (Nat × Nat)} (job : Job) (status : Status)
    (newW : List (List Rat)) (fuel : Nat) (pns : List Nat) (it : Nat)
    (h : Core s (heldJob job ++ H) s.trajNum)
    (ht : treatOutput s job status newW fuel = .ok (s', pns, it)) :
    Core s' H s'.trajNum ∧ s'.cworker = job.pin ∧ s'.toinitiate = s.toinitiate ∧
      s'.workers = s.workers ∧ s'.occ = s.occ ∧ s'.ensEng = s.ensEng ∧ s'.n = s.n ∧
      s'.cstep = s.cstep ∧ s'.tsteps = s.tsteps := by
  unfold treatOutput at ht
  simp only [] at ht
  generalize hws : (if status = Status.acc then newW else job.picked.map (fun _ => [])) = ws at ht
  split at ht
  · exact absurd ht (by simp)
  rename_i hlen
  have hlen := Classical.not_not.mp hlen
  split at ht
  · exact absurd ht (by simp)
  rename_i s1 tn pnNews hper
  split at ht
  · exact absurd ht (by simp)
  rename_i s2 hrec
  split at ht
  · exact absurd ht (by simp)
  rename_i s3 hwr
  split at ht
  · exact absurd ht (by simp)
  rename_i s4 iters hsort
  simp only [Except.ok.injEq, Prod.mk.injEq] at ht
  obtain ⟨rfl, _, _⟩ := ht
  have hfst : (job.picked.zip ws).map Prod.fst = job.picked := List.map_fst_zip (by omega)
  have h0 : Core s (heldPicked ((job.picked.zip ws).map Prod.fst) ++ H) s.trajNum := by
    rw [hfst]; exact h
  obtain ⟨hc1, ha1⟩ := perEns_core status _ h0 hper
  obtain ⟨hce2, ha2⟩ := recordFrac_frame hrec
  have hc2 := hc1.congr hce2
  have h3 : CoreEq s2 s3 ∧ AuxEq s2 s3 := by
    split at hwr
    · exact writeRows_frame _ hwr
    · simp only [Except.ok.injEq] at hwr
      subst hwr
      exact ⟨CoreEq.refl _, AuxEq.refl _⟩
  have hc3 := hc2.congr h3.1
  obtain ⟨hc4, ha4⟩ := sortTrajstate_core fuel hc3 hsort
  have ha := ((ha1.trans ha2).trans h3.2).trans ha4
  refine ⟨hc4.congr ⟨rfl, rfl, rfl, rfl, rfl⟩, rfl, ha.toinitiate, ha.workers, ha.occ, ha.ensEng,
    ha.n, ha.cstep, ha.tsteps⟩

end Infretis.Repex
