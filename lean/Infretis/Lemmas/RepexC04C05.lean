import Infretis.Lemmas.RepexC04Restart
import Infretis.Lemmas.RepexC05Load
/-!
# C04 × C05 — the matchability hypothesis of the conservation theorems is discharged

C05's invariant `Inv5` (`Fam`: family rows + positive permanent of the idle block) holds in every
state reachable from an `Init5` start through a history whose accepted outcomes are in C02's weight
family (`HistOk`).  `perEns_fam` carries `Fam` to the *recording state* inside `treat_output`
(after the per-ensemble loop, before "record weights"), which is exactly where C04 needs
`Matchable`.  Hence `HistOk` implies `MatchableAlong`.
-/
namespace Infretis.Repex.Frac
open Infretis.Perm

theorem zip_fst_prefix {α β : Type} : ∀ (ps : List α) (ws : List β),
    ∃ rest, ps = (ps.zip ws).map Prod.fst ++ rest := by
  intro ps
  induction ps with
  | nil => intro ws; exact ⟨[], by simp⟩
  | cons p t ih =>
    intro ws
    cases ws with
    | nil => exact ⟨p :: t, by simp⟩
    | cons w ws =>
      obtain ⟨rest, hr⟩ := ih ws
      exact ⟨rest, by simp only [List.zip_cons_cons, List.map_cons, List.cons_append]; rw [← hr]⟩

/-- C05's family invariant (in particular the positive permanent of the idle block) at the
    recording state of a completed step -/
theorem recState_fam {y : Sys} {k : Nat} {status : Status} {newW : List (List Rat)} {o : PickOutcome}
    (hi : Inv5 y) (hev : EvOk y (.step k status newW o)) {job : Job} {s1 : St} {tn : Nat}
    {pns : List Nat} (hjob : y.jobs[k]? = some job)
    (hrec : recState (loop y.s).1 job status newW = .ok (s1, tn, pns)) : Fam s1 tn := by
  obtain ⟨hle, hfe, _⟩ := loop_frame y.s
  obtain ⟨_, hltn, _⟩ := loop_coreEq y.s
  have hc1 : CoreR (loop y.s).1 (heldJob job ++ held (y.jobs.eraseIdx k)) (loop y.s).1.trajNum := by
    rw [hltn]
    exact (hi.inv.core.congr hle).perm (held_perm_erase y.jobs k job hjob)
  have hf1 : Fam (loop y.s).1 (loop y.s).1.trajNum := by
    rw [hltn]; exact hi.fam.congr hfe
  have hjm : job ∈ y.jobs := List.mem_of_getElem? hjob
  unfold recState at hrec
  obtain ⟨rest, hrest⟩ := zip_fst_prefix job.picked (jobWs job status newW)
  have h0 : CoreR (loop y.s).1 (heldPicked ((job.picked.zip (jobWs job status newW)).map Prod.fst)
      ++ (heldPicked rest ++ held (y.jobs.eraseIdx k))) (loop y.s).1.trajNum := by
    have : heldJob job = heldPicked ((job.picked.zip (jobWs job status newW)).map Prod.fst)
        ++ heldPicked rest := by
      show heldPicked job.picked = _
      conv_lhs => rw [hrest]
      simp [heldPicked]
    rw [← List.append_assoc, ← this]
    exact hc1
  refine (perEns_fam status _ h0 hf1 ?_ ?_ hrec).1
  · intro pw hpw
    exact (hi.inv.jobs job hjm).ensGe pw.1 (List.of_mem_zip (a := pw.1) (b := pw.2) hpw).1
  · intro hacc pw hpw
    have hn : (loop y.s).1.n = y.s.n := hle.n
    rw [hn]
    have hw : jobWs job status newW = newW := by unfold jobWs; rw [if_pos hacc]
    rw [hw] at hpw
    exact hev hacc job hjob pw hpw

theorem matchableAt_of_inv5 {y : Sys} {ev : Ev} (hi : Inv5 y) (hev : EvOk y ev) : matchableAt y ev := by
  cases ev with
  | start o saved => trivial
  | initDone => trivial
  | step k status newW o =>
    intro job s1 tn pns hjob hrec
    exact ne_of_gt (recState_fam hi hev hjob hrec).perm

/-- **`HistOk` (outcomes in the weight family) implies matchability at every recording.** -/
theorem matchableAlong_of_histOk : ∀ (evs : List Ev) (y : Sys), Inv5 y → HistOk y evs →
    MatchableAlong y evs := by
  intro evs
  induction evs with
  | nil => intro y _ _; trivial
  | cons ev rest ih =>
    intro y hi hh
    unfold MatchableAlong
    refine ⟨matchableAt_of_inv5 hi hh.1, ?_⟩
    split
    · rename_i y' hs
      exact ih y' (sysStep_preserves5 ev hi hh.1 hs).1 (hh.2 y' hs)
    · trivial

/-- everything about the recording of one completed step from a state satisfying both
    packages' invariants -/
theorem step_record {y y' : Sys} {k : Nat} {status : Status} {newW : List (List Rat)} {o : PickOutcome}
    (hi : HInv y) (h5 : Inv5 y) (hev : EvOk y (.step k status newW o))
    (h : sysStep y (.step k status newW o) = .ok y') :
    ∃ job sR tn pns s2, y.jobs[k]? = some job ∧
      recState (loop y.s).1 job status newW = .ok (sR, tn, pns) ∧ recordFrac sR = .ok s2 ∧
      SlotWF sR ∧ Matchable sR ∧ (sR.frac.map Prod.fst).Nodup ∧ (∀ kv ∈ sR.frac, kv.2.length = sR.n) ∧
      sR.n = y.s.n ∧ (∀ c, colTotal sR.frac c = colTotal y.s.frac c) ∧ sR.rows = y.s.rows ∧
      (∀ c, total y'.s c = total y.s c + (if sR.locks[c]? = some false then 1 else 0)) := by
  obtain ⟨_, job, s2, pns, it, hjob, htreat, _⟩ := step_ok h
  obtain ⟨hld, _⟩ := loop_data y.s
  obtain ⟨hle, hltn, _⟩ := loop_coreEq y.s
  have hc1 : Core (loop y.s).1 (heldJob job ++ held (y.jobs.eraseIdx k)) (loop y.s).1.trajNum := by
    rw [hltn]
    exact (hi.inv.core.congr hle).perm (held_perm_erase y.jobs k job hjob)
  have fw1 : FracWF (loop y.s).1 := hi.fw.congr hld.frac hld.n hld.trajNum
  obtain ⟨sR, tn, sRec, s3, s4, hrec, hlen, hrf, _, _, _⟩ := treatOutput_ok htreat
  have hrec' := hrec
  unfold recState at hrec'
  obtain ⟨p1, p2, _, _, p5, _, _⟩ := perEns_data status _ hrec'
  have hcR : Core sR (held (y.jobs.eraseIdx k)) tn := by
    have hfst : (job.picked.zip (jobWs job status newW)).map Prod.fst = job.picked :=
      List.map_fst_zip (by omega)
    have h0 : Core (loop y.s).1 (heldPicked ((job.picked.zip (jobWs job status newW)).map Prod.fst)
        ++ held (y.jobs.eraseIdx k)) (loop y.s).1.trajNum := by rw [hfst]; exact hc1
    exact (perEns_core status _ h0 hrec').1
  obtain ⟨k1, k2, _⟩ := fracWF_append_zero fw1
    (if status = .acc then (job.picked.zip (jobWs job status newW)).length else 0)
  rw [← p5] at k1 k2
  rw [← p2] at k2
  have hM : Matchable sR := ne_of_gt (recState_fam h5 hev hjob hrec).perm
  refine ⟨job, sR, tn, pns, sRec, hjob, hrec, hrf, slotWF_of_core hcR, hM, k1, k2,
    p2.trans hld.n, ?_, p1.trans hld.rows, ?_⟩
  · intro c
    rw [p5, colTotal_append, colTotal_zeroFracs, add_zero, hld.frac]
  · intro c
    have ht := (step_total hi h).2.1 (matchableAt_of_inv5 h5 hev) c
    rw [ht]
    congr 1
    simp only [idleAt, hjob, hrec]
    split <;> simp

/-! ### executable forms of `VecOk`, `EvOk`, `HistOk` (for the examples) -/

def minusRowB (m : Nat) (r : Row) : Bool :=
  r.length == m && decide (0 < r.getD 0 0) &&
  (List.range m).all (fun c => decide (c < 1) || r.getD c 0 == 0)

def plusRowB (m cnt : Nat) (r : Row) : Bool :=
  r.length == m && decide (1 + cnt ≤ m) &&
  (List.range m).all (fun c =>
    if c < 1 then r.getD c 0 == 0 else if c < 1 + cnt then decide (0 < r.getD c 0) else r.getD c 0 == 0)

theorem isMinusRow_of_B {m : Nat} {r : Row} (h : minusRowB m r = true) : IsMinusRow m r := by
  unfold minusRowB at h
  simp only [Bool.and_eq_true, beq_iff_eq, decide_eq_true_eq, List.all_eq_true, List.mem_range,
    Bool.or_eq_true] at h
  obtain ⟨⟨h1, h2⟩, h3⟩ := h
  refine ⟨h1, h2, fun c hc1 hcm => ?_⟩
  rcases h3 c hcm with h | h
  · omega
  · exact h

theorem isPlusRow_of_B {m cnt : Nat} {r : Row} (h : plusRowB m cnt r = true) : IsPlusRow 1 m cnt r := by
  unfold plusRowB at h
  simp only [Bool.and_eq_true, beq_iff_eq, decide_eq_true_eq, List.all_eq_true, List.mem_range] at h
  obtain ⟨⟨h1, h2⟩, h3⟩ := h
  refine ⟨h1, h2, fun c hc => ?_, fun c hc1 hc2 => ?_, fun c hc1 hc2 => ?_⟩
  · have := h3 c (by omega)
    rw [if_pos hc] at this
    simpa using this
  · have := h3 c (by omega)
    rw [if_neg (by omega), if_pos hc2] at this
    simpa using this
  · have := h3 c hc2
    rw [if_neg (by omega), if_neg (by omega)] at this
    simpa using this

def vecOkB (n : Nat) (ens : Int) (w : List Rat) : Bool :=
  let r := padN n ens w
  if (ens + 1).toNat = 0 then minusRowB n r
  else (List.range (n + 1)).any (fun cnt => plusRowB n cnt r && decide (1 + cnt ≤ n - 1))

theorem vecOk_of_B {n : Nat} {ens : Int} {w : List Rat} (h : vecOkB n ens w = true) : VecOk n ens w := by
  unfold vecOkB at h
  simp only [] at h
  unfold VecOk RowOk
  split at h
  · rename_i h0
    exact ⟨fun _ => isMinusRow_of_B h, fun h1 => by omega⟩
  · rename_i h0
    refine ⟨fun h1 => absurd h1 h0, fun _ => ?_⟩
    simp only [List.any_eq_true, List.mem_range, Bool.and_eq_true, decide_eq_true_eq] at h
    obtain ⟨cnt, _, hp, hc⟩ := h
    exact ⟨cnt, isPlusRow_of_B hp, hc⟩

def evOkB (y : Sys) (ev : Ev) : Bool :=
  match ev with
  | .step k status newW _ =>
    status != .acc ||
    match y.jobs[k]? with
    | some job => (job.picked.zip newW).all (fun pw => vecOkB y.s.n pw.1.ens pw.2)
    | none => true
  | _ => true

theorem evOk_of_B {y : Sys} {ev : Ev} (h : evOkB y ev = true) : EvOk y ev := by
  cases ev with
  | start o saved => trivial
  | initDone => trivial
  | step k status newW o =>
    intro hacc job hjob pw hpw
    simp only [evOkB, hjob, hacc, bne_self_eq_false, Bool.false_or, List.all_eq_true] at h
    exact vecOk_of_B (h pw hpw)

def histOkB : Sys → List Ev → Bool
  | _, [] => true
  | y, ev :: rest =>
    evOkB y ev &&
    match sysStep y ev with
    | .ok y' => histOkB y' rest
    | .error _ => true

theorem histOk_of_B : ∀ (evs : List Ev) (y : Sys), histOkB y evs = true → HistOk y evs := by
  intro evs
  induction evs with
  | nil => intro y _; trivial
  | cons ev rest ih =>
    intro y h
    unfold histOkB at h
    rw [Bool.and_eq_true] at h
    refine ⟨evOk_of_B h.1, fun y' hs => ?_⟩
    have h2 := h.2
    rw [hs] at h2
    exact ih y' h2

end Infretis.Repex.Frac
