import Infretis.Lemmas.RepexC04Start
/-!
# C04 — a quiescent restart is a start state for ALL invariants of the package (chains of restarts)

`restore (persist y.s)` of a reachable quiescent state (nothing recorded as in flight), with the weights the stored
paths have, satisfies again everything the conservation theorems need (`Reach4`: C03 `Inv` + table invariant,
"written once" invariant, C05's family invariant, C06's tidy tables, the support invariant; and `JInv`), with the
same column totals in the table and an empty model row list.  So every theorem stated "from a `Reach4` state"
applies again after the restart, to any depth.
-/
namespace Infretis.Repex.Data
open Infretis.Repex.Frac Infretis.Perm

/-! ### `load_paths` and the fields it leaves alone / appends to -/

theorem loadOne_more {s s' : St} {ens : Int} {pn : Nat} {valid fr : List Rat}
    (h : loadOne s ens pn valid fr = .ok s') :
    s'.locked = s.locked ∧ s'.wts = s.wts ++ [(pn, valid)] ∧ s'.n = s.n := by
  obtain ⟨_, _, e1⟩ := loadOne_ok5 h
  rw [e1]
  exact ⟨rfl, rfl, rfl⟩

theorem plus_more : ∀ (l : List (Nat × List Rat × List Rat)) (s s' : St) (i : Nat),
    loadPaths.plus s i l = .ok s' →
    s'.locked = s.locked ∧ s'.wts = s.wts ++ l.map (fun p => (p.1, p.2.1)) := by
  intro l
  induction l with
  | nil =>
    intro s s' i h
    simp only [loadPaths.plus, Except.ok.injEq] at h
    subst h; simp
  | cons p rest ih =>
    intro s s' i h
    obtain ⟨pn, w, fr⟩ := p
    unfold loadPaths.plus at h
    split at h
    · exact absurd h (by simp)
    rename_i s1 h1
    obtain ⟨a1, a2, _⟩ := loadOne_more h1
    obtain ⟨b1, b2⟩ := ih s1 s' (i + 1) h
    exact ⟨b1.trans a1, by rw [b2, a2]; simp⟩

theorem loadPaths_more {s s' : St} {paths : List (Nat × List Rat × List Rat)}
    (h : loadPaths s paths = .ok s') :
    s'.locked = s.locked ∧
    ∃ hd tl, paths = hd :: tl ∧ s'.wts = s.wts ++ (tl ++ [hd]).map (fun p => (p.1, p.2.1)) := by
  unfold loadPaths at h
  split at h
  · exact absurd h (by simp)
  rename_i pn0 w0 fr0 rest
  split at h
  · exact absurd h (by simp)
  rename_i s1 hplus
  obtain ⟨a1, a2⟩ := plus_more rest s s1 0 hplus
  obtain ⟨b1, b2, _⟩ := loadOne_more h
  exact ⟨b1.trans a1, (pn0, w0, fr0), rest, rfl, by rw [b2, a2]; simp⟩

/-- the ghost row survives `load_paths` from any state with `n − 1` paths to load -/
theorem loadPaths_ghostW' {s0 s : St} {paths : List (Nat × List Rat × List Rat)} (hn : 2 ≤ s0.n)
    (hlen : paths.length = s0.n - 1) (h : loadPaths s0 paths = .ok s) :
    s.W[s0.n - 1]? = s0.W[s0.n - 1]? ∧ s.n = s0.n := by
  unfold loadPaths at h
  split at h
  · exact absurd h (by simp)
  rename_i pn0 w0 fr0 rest
  split at h
  · exact absurd h (by simp)
  rename_i s1 hplus
  simp only [List.length_cons] at hlen
  obtain ⟨a1, a2⟩ := plus_ghostW rest _ s1 0 (by omega) hplus
  obtain ⟨_, _, e1⟩ := loadOne_ok5 h
  have hW : s.W = s1.W.set 0 (padValid s1 (-1) w0) := by rw [e1]; simp
  have hns : s.n = s1.n := by rw [e1]
  refine ⟨?_, hns.trans a2⟩
  rw [hW, List.getElem?_set_ne (by omega), a1]

/-! ### tidy tables from the facts `load_paths` establishes -/

theorem tidy_core {s : St} (hinit : Init ⟨s, []⟩) (hL : LiveOK s) (hklen : (s.frac.map Prod.fst).length = s.n - 1)
    (hsame : s.frac.map Prod.fst = s.wts.map Prod.fst) (hgW : s.W[s.n - 1]? = some (List.replicate s.n 0)) :
    Tidy s := by
  have hn := hinit.n2
  have hsub : ∀ q ∈ s.trajs.filterMap id, q ∈ s.frac.map Prod.fst := fun q hq => hL.1 q (mem_fm.mp hq)
  have hsp : (s.trajs.filterMap id).Subperm (s.frac.map Prod.fst) := List.subperm_of_subset hL.2 hsub
  have hT : s.trajs.length = s.n := hinit.lenT
  have hnone : none ∈ s.trajs := by
    by_contra hno
    have := filterMap_id_length s.trajs hno
    have hle := hsp.length_le
    rw [this, hT, hklen] at hle
    simp only at hn
    omega
  have hlive : ((livePaths s).filterMap id).length = s.n - 1 := by
    have hall : ∀ o ∈ livePaths s, ∃ a, o = some a := livePaths_all_some hinit.inv.core
    have := filterMap_map_length (livePaths s) (fun a : Nat => a) hall
    have hid : (fun o : Option Nat => o.map (fun a : Nat => a)) = id := by funext o; cases o <;> rfl
    rw [hid] at this
    rw [this]
    unfold livePaths
    rw [List.length_dropLast, hT]
  have hsp2 : ((livePaths s).filterMap id).Subperm (s.frac.map Prod.fst) :=
    List.subperm_of_subset (hL.2.sublist ((List.dropLast_sublist _).filterMap id))
      (fun q hq => hL.1 q ((List.dropLast_sublist _).subset (mem_fm.mp hq)))
  have hperm : ((livePaths s).filterMap id).Perm (s.frac.map Prod.fst) :=
    hsp2.perm_of_length_le (by rw [hlive, hklen])
  refine ⟨hnone, List.mem_of_getElem? hgW, hsame, ?_⟩
  intro q
  rw [← hsame]
  constructor
  · intro hq
    have := hperm.mem_iff.mpr hq
    exact (List.dropLast_sublist _).subset (mem_fm.mp this)
  · intro hq; exact hL.1 q hq

/-! ### the restored quiescent state -/

theorem liveOK_restoreBlank (s : St) (n workers tsteps : Nat) (occ : List (List Int)) (ensEng : List (List Nat)) :
    LiveOK (restoreBlank s n workers tsteps occ ensEng) := by
  constructor
  · intro pn hm
    simp [restoreBlank, blank] at hm
  · have : (List.replicate n (none : Option Nat)).filterMap id = [] := by
      rw [List.filterMap_eq_nil_iff]
      intro a ha
      rw [(List.mem_replicate.mp ha).2]; rfl
    show ((List.replicate n (none : Option Nat)).filterMap id).Nodup
    rw [this]; exact List.nodup_nil

/-- **the state rebuilt from the image of a reachable quiescent state satisfies every invariant again** and has
    the same column totals -/
theorem restore_reach4 {y1 : Sys} {s2 : St} {workers tsteps : Nat} {occ : List (List Int)}
    {ensEng : List (List Nat)} (hr : Reach4 y1) (hlk : y1.s.locked = [])
    (h : restore (persist y1.s) y1.s.n workers tsteps occ ensEng (fun pn => (y1.s.wts.lookup pn).getD []) = .ok s2) :
    Reach4 ⟨s2, []⟩ ∧ JInv ⟨s2, []⟩ ∧ Init ⟨s2, []⟩ ∧ (∀ c, colTotal s2.frac c = colTotal y1.s.frac c) ∧
      s2.rows = [] ∧ s2.n = y1.s.n := by
  have hc := hr.hinv.inv.core
  obtain ⟨hinit, fw2⟩ := restore_init hr.hinv hr.rinv hlk h
  obtain ⟨hk, hv, hrows, hn2, ht2⟩ := restore_frac h
  have hlnd : ((livePaths y1.s).filterMap id).Nodup :=
    hr.rinv.liveNodup.sublist ((List.dropLast_sublist _).filterMap id)
  have hio := imgOk_persistD hc.toR hr.tidy.tidy hr.hinv.fw.keys hr.rinv.liveNodup
  have htab : (y1.s.frac.map Prod.fst).Perm ((livePaths y1.s).filterMap id) := hio.act.symm
  have h' := h
  rw [restore_eq] at h'
  -- slots and tables
  have hL : LiveOK s2 := by
    unfold loadPaths at h'
    split at h'
    · exact absurd h' (by simp)
    rename_i pn0 w0 fr0 rest hp
    split at h'
    · exact absurd h' (by simp)
    rename_i s1 hplus
    have hnd : ((imgPaths y1.s y1.s.n (fun pn => (y1.s.wts.lookup pn).getD [])).map (·.1)).Nodup := by
      rw [imgPaths_keys]; exact hlnd
    rw [hp] at hnd
    simp only [List.map_cons, List.nodup_cons] at hnd
    have h1 := plus_live rest _ s1 0 (liveOK_restoreBlank y1.s y1.s.n workers tsteps occ ensEng)
      (by simpa [restoreBlank, blank] using hnd.2) hplus
    obtain ⟨hf1, _⟩ := plus_data rest _ s1 0 hplus
    refine loadOne_live h1 ?_ h'
    rw [hf1]
    simpa [restoreBlank, blank, List.map_map, Function.comp_def] using hnd.1
  obtain ⟨hlocked, hd, tl, hpaths, hwts⟩ := loadPaths_more h'
  have hlen : (imgPaths y1.s y1.s.n (fun pn => (y1.s.wts.lookup pn).getD [])).length = y1.s.n - 1 := by
    unfold imgPaths
    rw [filterMap_map_length _ _ (livePaths_all_some hc)]
    simp [livePaths, hc.lenT]
  have hklen : (s2.frac.map Prod.fst).length = s2.n - 1 := by
    rw [hk.length_eq, hn2, ← imgPaths_keys y1.s y1.s.n (fun pn => (y1.s.wts.lookup pn).getD []), List.length_map, hlen]
  have hsame : s2.frac.map Prod.fst = s2.wts.map Prod.fst := loadPaths_sameKeys h' rfl
  have hgW : s2.W[s2.n - 1]? = some (List.replicate s2.n 0) := by
    have hb : (restoreBlank y1.s y1.s.n workers tsteps occ ensEng).n = y1.s.n := rfl
    obtain ⟨g1, g2⟩ := loadPaths_ghostW' (s0 := restoreBlank y1.s y1.s.n workers tsteps occ ensEng)
      (by rw [hb]; exact hc.n2) (by rw [hb]; exact hlen) h'
    rw [hb] at g1
    rw [hn2, g1]
    show (List.replicate y1.s.n (List.replicate y1.s.n (0 : Rat)))[y1.s.n - 1]? = _
    have := hc.n2
    rw [List.getElem?_replicate, if_pos (by omega)]
  have htidy : Tidy s2 := tidy_core hinit hL hklen hsame hgW
  -- C05
  have hs2locked : s2.locked = [] := by rw [hlocked]; rfl
  have hinitR : InitR ⟨s2, []⟩ :=
    ⟨hinit.jobs, hinit.n2, hinit.lenW, hinit.lenT, hinit.locks, hinit.live, hinit.inj,
     Resv.ofNil hinit.locked0, hs2locked, hinit.toinit⟩
  have h5 : Init5R ⟨s2, []⟩ := restore_init5R hr.inv5.inv.core hr.inv5.fam workers tsteps occ ensEng h hinitR
  -- support
  have hsup : SupInv s2 := by
    constructor
    · intro pn w hw
      rw [hn2]
      -- the weight record of `pn` in the restored state is the one of `y1`
      have hm : (pn, w) ∈ s2.wts := Frac.lookup_mem hw
      rw [hwts] at hm
      have hm' : (pn, w) ∈ (tl ++ [hd]).map (fun p : Nat × List Rat × List Rat => (p.1, p.2.1)) := by
        simpa [restoreBlank, blank] using hm
      simp only [List.mem_map] at hm'
      obtain ⟨p, hpm, hpe⟩ := hm'
      have hpin : p ∈ imgPaths y1.s y1.s.n (fun pn => (y1.s.wts.lookup pn).getD []) := by
        rw [hpaths]
        rcases List.mem_append.mp hpm with h1 | h1
        · exact List.mem_cons_of_mem _ h1
        · simp only [List.mem_singleton] at h1; subst h1; exact List.mem_cons_self
      unfold imgPaths at hpin
      rw [List.mem_filterMap] at hpin
      obtain ⟨o, ho, hoe⟩ := hpin
      cases o with
      | none => simp at hoe
      | some q =>
        simp only [Option.map_some, Option.some.injEq] at hoe
        subst hoe
        simp only [Prod.mk.injEq] at hpe
        obtain ⟨rfl, rfl⟩ := hpe
        -- `q` is live in `y1`, so it has a weight record there
        have hqk : q ∈ y1.s.frac.map Prod.fst := htab.mem_iff.mpr (mem_fm.mpr ho)
        have hqw : q ∈ y1.s.wts.map Prod.fst := by rw [← hr.tidy.tidy.sameKeys]; exact hqk
        obtain ⟨w1, hw1⟩ := lookup_isSome_of_mem hqw
        have hfa : ∀ c, fracAt s2.frac q c = fracAt y1.s.frac q c := by
          intro c
          unfold fracAt
          rw [restore_lookup h q ho]
          obtain ⟨f1, hf1⟩ := lookup_isSome_of_mem hqk
          rw [hf1]; rfl
        obtain ⟨t1, t2⟩ := hr.sup.tab q w1 hw1
        simp only [hw1, Option.getD_some]
        exact ⟨fun c hc hsh => by rw [hfa c]; exact t1 c hc hsh, by rw [hfa]; exact t2⟩
    · rw [hrows]; intro r hr'; simp at hr'
  have hrinv : RInv ⟨s2, []⟩ := by
    constructor
    · show (s2.rows.map (·.1)).Nodup; rw [hrows]; exact List.nodup_nil
    · show ∀ pn ∈ s2.rows.map (·.1), _; rw [hrows]; intro pn hpn; simp at hpn
    · show ∀ pn ∈ s2.rows.map (·.1), _; rw [hrows]; intro pn hpn; simp at hpn
    · exact hL.1
    · exact hL.2
    · intro j hj; simp at hj
  exact ⟨⟨⟨hinit.inv, fw2⟩, hrinv, h5.inv5, ⟨htidy, by intro j hj; simp at hj⟩, hsup⟩, jinv_of_init hinit, hinit,
    fun c => restore_colTotal h hr.hinv.fw.keys htab c, hrows, hn2⟩

/-- **conservation from any state satisfying the invariants** (a fresh start, a restored state, any state reached
    from them): the totals grow by the idle recordings, and the invariants hold again at the end -/
theorem run_from_reach4 {y y' : Sys} (evs : List Ev) (hr : Reach4 y) (hj : JInv y) (hh : HistOk y evs)
    (hrun : run y evs = .ok y') :
    Reach4 y' ∧ JInv y' ∧ (∀ c, total y'.s c = total y.s c + idleSteps y evs c) ∧ y'.s.n = y.s.n := by
  have hm := matchableAlong_of_histOk evs y hr.inv5 hh
  obtain ⟨_, hj', ht, hn, _⟩ := run_total evs hr.hinv hj hrun hm
  exact ⟨run_reach4 evs hr hh hrun, hj', ht, hn⟩

end Infretis.Repex.Data
