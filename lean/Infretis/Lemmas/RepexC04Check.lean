import Infretis.Lemmas.RepexC04Treat
/-!
# C04 — executable well-formedness checks (used by the non-vacuity examples)

`slotOk s = true → SlotWF s`, `fracOk s = true → FracWF s`: the hypotheses of the C04 theorems
can be discharged on concrete states by kernel evaluation.
-/
namespace Infretis.Repex.Frac
open Infretis.Perm

def slotOk (s : St) : Bool :=
  s.W.length == s.n && s.trajs.length == s.n && s.locks.length == s.n &&
  s.locks[s.n - 1]? == some true &&
  (List.range (s.n - 1)).all (fun i => s.locks[i]? != some false || (s.trajs[i]?.bind id).isSome) &&
  (List.range (s.n - 1)).all (fun a => (List.range (s.n - 1)).all (fun b =>
    a == b || s.trajs[a]? != s.trajs[b]? || (s.trajs[a]?.bind id).isNone))

theorem slotWF_of_slotOk {s : St} (h : slotOk s = true) : SlotWF s := by
  unfold slotOk at h
  simp only [Bool.and_eq_true, beq_iff_eq, List.all_eq_true, List.mem_range, Bool.or_eq_true,
    bne_iff_ne, ne_eq] at h
  obtain ⟨⟨⟨⟨⟨h1, h2⟩, h3⟩, h4⟩, h5⟩, h6⟩ := h
  refine ⟨h1, h2, h3, h4, ?_, ?_⟩
  · intro i hi hl
    rcases h5 i hi with h | h
    · exact absurd hl h
    · cases ht : s.trajs[i]? with
      | none => rw [ht] at h; simp at h
      | some o =>
        cases o with
        | none => rw [ht] at h; simp at h
        | some pn => exact ⟨pn, rfl⟩
  · intro a b pn ha hb hta htb
    rcases h6 a ha b hb with (h | h) | h
    · exact h
    · exact absurd (hta.trans htb.symm) h
    · rw [hta] at h; simp at h

def fracOk (s : St) : Bool :=
  decide ((s.frac.map Prod.fst).Nodup) && s.frac.all (fun kv => kv.2.length == s.n) &&
  (s.frac.map Prod.fst).all (fun k => decide (k < s.trajNum))

theorem fracWF_of_fracOk {s : St} (h : fracOk s = true) : FracWF s := by
  unfold fracOk at h
  simp only [Bool.and_eq_true, decide_eq_true_eq, List.all_eq_true, beq_iff_eq] at h
  obtain ⟨⟨h1, h2⟩, h3⟩ := h
  exact ⟨h1, h2, h3⟩

instance (s : St) : Decidable (Matchable s) := by unfold Matchable; infer_instance

end Infretis.Repex.Frac
