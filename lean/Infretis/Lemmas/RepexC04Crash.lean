import Infretis.Lemmas.RepexC04Restart
/-!
# C04 — a stop inside `treat_output`, then a restart: no weight is lost or counted twice

Weight-relevant disk effects of one `treat_output`, in the code's order:
  1. `write_to_pathens`: the rows of the replaced paths are appended to the data file
     (a stop may leave any number `j` of whole rows; a torn last row is dropped by the restart);
  2. `write_toml`: `restart.toml` is replaced atomically (temp file + `os.replace`) by the image of
     the new state.
(The path-store / deletion effects do not carry weights; they are C08's `Fs` model.)
At the restart `clean_data_file` drops the rows of paths that are active in the restart file.
-/
namespace Infretis.Repex.Frac
open Infretis.Perm

/-- what is on disk as far as the weights are concerned -/
structure WDisk where
  rows : List (Nat × List Rat × List Rat)
  img : Image

/-- the disk a stop inside `treat_output` (`s` ⟶ `s'`) leaves: before the replace of
    `restart.toml` the old image with `j` whole new rows already appended, afterwards the new
    image with all rows -/
def crashDisk (s s' : St) (j : Nat) (renamed : Bool) : WDisk :=
  if renamed then ⟨s'.rows, persist s'⟩
  else ⟨s.rows ++ (s'.rows.drop s.rows.length).take j, persist s⟩

/-- `clean_data_file`: rows of paths that are active in the restart file are dropped -/
def cleanRows (rows : List (Nat × List Rat × List Rat)) (active : List (Option Nat)) :
    List (Nat × List Rat × List Rat) :=
  rows.filter (fun r => !active.contains (some r.1))

theorem writeRows_rows_append : ∀ (l : List Nat) (s s' : St), writeRows s l = .ok s' →
    ∃ news, s'.rows = s.rows ++ news ∧ news.map (·.1) = l := by
  intro l
  induction l with
  | nil =>
    intro s s' h
    simp only [writeRows, Except.ok.injEq] at h
    subst h
    exact ⟨[], by simp, rfl⟩
  | cons pn rest ih =>
    intro s s' h
    unfold writeRows at h
    split at h
    · rename_i f w _ _
      obtain ⟨news, h1, h2⟩ := ih _ s' h
      exact ⟨(pn, f, w) :: news, by rw [h1]; simp, by simp [h2]⟩
    · exact absurd h (by simp)

theorem treatOutput_rows_append {s s' : St} {job : Job} {status : Status} {newW : List (List Rat)}
    {fuel : Nat} {pns : List Nat} {it : Nat}
    (h : treatOutput s job status newW fuel = .ok (s', pns, it)) :
    ∃ news, s'.rows = s.rows ++ news ∧ news.map (·.1) = written job status := by
  obtain ⟨sR, tn, s2, s3, s4, hper, _, hrec, hwr, hsort, rfl⟩ := treatOutput_ok h
  unfold recState at hper
  obtain ⟨p1, _⟩ := perEns_data status _ hper
  obtain ⟨f, _, hs2⟩ := recordFrac_ok hrec
  have hr2 : s2.rows = sR.rows := by rw [hs2]
  obtain ⟨hd4, _⟩ := sortTrajstate_dataEq fuel hsort
  unfold written
  split at hwr
  · rename_i hacc
    obtain ⟨news, h1, h2⟩ := writeRows_rows_append _ _ _ hwr
    refine ⟨news, ?_, by rw [if_pos hacc]; exact h2⟩
    show s4.rows = _
    rw [hd4.rows, h1, hr2, p1]
  · rename_i hacc
    simp only [Except.ok.injEq] at hwr
    subst hwr
    refine ⟨[], ?_, by rw [if_neg hacc]; rfl⟩
    show s4.rows = _
    rw [hd4.rows, hr2, p1]; simp

theorem filter_eq_self_of {α : Type} (l : List α) (p : α → Bool) (h : ∀ x ∈ l, p x = true) :
    l.filter p = l := List.filter_eq_self.mpr h

theorem filter_eq_nil_of {α : Type} (l : List α) (p : α → Bool) (h : ∀ x ∈ l, p x = false) :
    l.filter p = [] := by
  rw [List.filter_eq_nil_iff]
  intro x hx
  rw [h x hx]; simp

/-- a held path is one of the live paths (not in the ghost slot) -/
theorem held_mem_livePaths {s : St} {H : List (Nat × Nat)} {tn : Nat} (hc : Core s H tn) (e pn : Nat)
    (h : (e, pn) ∈ H) : some pn ∈ livePaths s := by
  obtain ⟨hlt, htr, _⟩ := hc.heldOk e pn h
  unfold livePaths
  apply List.mem_of_getElem? (i := e)
  rw [List.getElem?_dropLast, if_pos (by rw [hc.lenT]; exact hlt)]
  exact htr

/-- **Stop inside one `treat_output`, restart.**  `s` the state the step starts from (its job held,
    table and rows well formed), `s'` the state after the step.  For EVERY stop — before the replace of
    the restart file with any number `j` of the new rows already in the data file, or after it — the
    restart (`clean_data_file` + `load_paths` on the image) sees: the data rows of `s` resp. `s'`
    exactly (a row that ran ahead of the restart file is dropped, no row is missing), and
    rows + restored table = the total of `s` resp. `s'` in every column.  No weight is lost and none
    is counted twice, whichever effect the stop falls between. -/
theorem crash_restart_total {s s' : St} {jobs : List Job} {job : Job} {status : Status}
    {newW : List (List Rat)} {fuel : Nat} {pns : List Nat} {it : Nat} {H : List (Nat × Nat)}
    (hc : Core s (heldJob job ++ H) s.trajNum) (fw : FracWF s) (r : RInv ⟨s, jobs⟩)
    (hold : job.pnumOld = job.picked.map (·.pn))
    (s0 : St) (e1 : s0.rows = s.rows) (e2 : s0.frac = s.frac) (e3 : s0.trajs = s.trajs)
    (htab : (s.frac.map Prod.fst).Perm ((livePaths s).filterMap id))
    (htab' : (s'.frac.map Prod.fst).Perm ((livePaths s').filterMap id))
    (h : treatOutput s job status newW fuel = .ok (s', pns, it))
    (j : Nat) (renamed : Bool) (n workers tsteps : Nat) (occ : List (List Int))
    (ensEng : List (List Nat)) (weightOf : Nat → List Rat) (sR : St)
    (hres : restore (crashDisk s0 s' j renamed).img n workers tsteps occ ensEng weightOf = .ok sR) :
    cleanRows (crashDisk s0 s' j renamed).rows (crashDisk s0 s' j renamed).img.active
      = (if renamed then s'.rows else s.rows) ∧
    (crashDisk s0 s' j renamed).img.cstep = (if renamed then s'.cstep else s0.cstep) ∧
    ∀ c, rowsTotal (cleanRows (crashDisk s0 s' j renamed).rows (crashDisk s0 s' j renamed).img.active) c
        + colTotal sR.frac c = if renamed then total s' c else total s c := by
  obtain ⟨r', hrows, _⟩ := treat_rinv hc fw r hold h
  obtain ⟨news, hnews, hnk⟩ := treatOutput_rows_append h
  cases renamed with
  | true =>
    simp only [crashDisk, if_true] at hres ⊢
    -- none of the rows of `s'` belongs to a live path of `s'`
    have hclean : cleanRows s'.rows (persist s').active = s'.rows := by
      apply filter_eq_self_of
      intro x hx
      have hm : x.1 ∈ s'.rows.map (·.1) := List.mem_map_of_mem hx
      have hnl : some x.1 ∉ s'.trajs := fun hm' => r'.rowsFrac x.1 hm (r'.liveFrac x.1 hm')
      have : some x.1 ∉ (persist s').active := fun hm' => hnl ((List.dropLast_sublist _).subset hm')
      simpa using this
    have fw' : (s'.frac.map Prod.fst).Nodup := by
      have hl := r'.liveNodup
      exact htab'.nodup_iff.mpr (hl.sublist ((List.dropLast_sublist _).filterMap id))
    refine ⟨hclean, rfl, fun c => ?_⟩
    rw [hclean, restore_colTotal hres fw' htab' c]
    rfl
  | false =>
    simp only [crashDisk, Bool.false_eq_true, if_false] at hres ⊢
    have hlp : livePaths s0 = livePaths s := by unfold livePaths; rw [e3]
    have hact : (persist s0).active = (persist s).active := hlp
    rw [e1, hact]
    have hdrop : s'.rows.drop s.rows.length = news := by rw [hnews]; simp
    rw [hdrop]
    have hclean : cleanRows (s.rows ++ news.take j) (persist s).active = s.rows := by
      unfold cleanRows
      rw [List.filter_append]
      have h1 : s.rows.filter (fun r => !(persist s).active.contains (some r.1)) = s.rows := by
        apply filter_eq_self_of
        intro x hx
        have hm : x.1 ∈ s.rows.map (·.1) := List.mem_map_of_mem hx
        have hnl : some x.1 ∉ s.trajs := fun hm' => r.rowsFrac x.1 hm (r.liveFrac x.1 hm')
        have : some x.1 ∉ (persist s).active := fun hm' => hnl ((List.dropLast_sublist _).subset hm')
        simpa using this
      have h2 : (news.take j).filter (fun r => !(persist s).active.contains (some r.1)) = [] := by
        apply filter_eq_nil_of
        intro x hx
        have hxn : x ∈ news := List.mem_of_mem_take hx
        have hw : x.1 ∈ written job status := by rw [← hnk]; exact List.mem_map_of_mem hxn
        have hp : x.1 ∈ job.picked.map (·.pn) := by
          unfold written at hw
          split at hw
          · rw [hold] at hw; exact hw
          · exact absurd hw (by simp)
        simp only [List.mem_map] at hp
        obtain ⟨p, hp, hpe⟩ := hp
        have hl : some x.1 ∈ livePaths s := by
          rw [← hpe]
          exact held_mem_livePaths hc (slotOf p) p.pn
            (List.mem_append_left _ (List.mem_map.mpr ⟨p, hp, rfl⟩))
        have : some x.1 ∈ (persist s).active := hl
        simpa using this
      rw [h1, h2, List.append_nil]
    refine ⟨hclean, rfl, fun c => ?_⟩
    rw [hclean, restore_colTotal hres (by rw [e2]; exact fw.keys) (by rw [e2, hlp]; exact htab) c, e2]
    rfl

/-- the same for a completed step of a history: the totals seen by the restart are the totals of the
    system before (`renamed = false`) resp. after (`renamed = true`) the step's `treat_output` -/
theorem crash_step_total {y y' : Sys} {k : Nat} {status : Status} {newW : List (List Rat)}
    {o : PickOutcome} (hi : HInv y) (r : RInv y)
    (h : sysStep y (.step k status newW o) = .ok y') (hm : matchableAt y (.step k status newW o)) :
    ∃ job s' pns it, y.jobs[k]? = some job ∧
      treatOutput (loop y.s).1 job status newW (sortFuel (loop y.s).1) = .ok (s', pns, it) ∧
      ((y.s.frac.map Prod.fst).Perm ((livePaths y.s).filterMap id) →
       (s'.frac.map Prod.fst).Perm ((livePaths s').filterMap id) →
       ∀ (j : Nat) (renamed : Bool) (n workers tsteps : Nat) (occ : List (List Int))
         (ensEng : List (List Nat)) (weightOf : Nat → List Rat) (sR : St),
         restore (crashDisk y.s s' j renamed).img n workers tsteps occ ensEng weightOf = .ok sR →
         (crashDisk y.s s' j renamed).img.cstep = (if renamed then y.s.cstep + 1 else y.s.cstep) ∧
         ∀ c, rowsTotal (cleanRows (crashDisk y.s s' j renamed).rows
                (crashDisk y.s s' j renamed).img.active) c + colTotal sR.frac c
              = total y.s c + (if renamed then (idleAt y (.step k status newW o) c : Rat) else 0)) := by
  obtain ⟨hgo, job, s2, pns, it, hjob, htreat, _⟩ := step_ok h
  obtain ⟨hld, _, _, _, hlc⟩ := loop_data y.s
  obtain ⟨hle, hltn, _⟩ := loop_coreEq y.s
  have hc1 : Core (loop y.s).1 (heldJob job ++ held (y.jobs.eraseIdx k)) (loop y.s).1.trajNum := by
    rw [hltn]
    exact (hi.inv.core.congr hle).perm (held_perm_erase y.jobs k job hjob)
  have fw1 : FracWF (loop y.s).1 := hi.fw.congr hld.frac hld.n hld.trajNum
  have r1 : RInv ⟨(loop y.s).1, y.jobs.eraseIdx k⟩ :=
    r.transfer hld.rows hld.frac hld.trajNum (by rw [loop_trajs])
      (fun j hj => r.jobsOld j (List.mem_of_mem_eraseIdx hj))
  have hold := r.jobsOld job (List.mem_of_getElem? hjob)
  refine ⟨job, s2, pns, it, hjob, htreat, ?_⟩
  intro htab htab' j renamed n workers tsteps occ ensEng weightOf sR hres
  have htab1 : ((loop y.s).1.frac.map Prod.fst).Perm ((livePaths (loop y.s).1).filterMap id) := by
    have : livePaths (loop y.s).1 = livePaths y.s := by unfold livePaths; rw [loop_trajs]
    rw [hld.frac, this]; exact htab
  obtain ⟨_, hcs, htot⟩ := crash_restart_total hc1 fw1 r1 hold y.s hld.rows.symm hld.frac.symm
    (loop_trajs y.s).symm htab1 htab' htreat j renamed n workers tsteps occ ensEng weightOf sR hres
  -- the step's own balance
  obtain ⟨sRec, tn, hrec, _, hlk, _, _, _, hmain⟩ := treatOutput_total fw1 htreat
  have hzl : (jobWs job status newW).length = job.picked.length := by
    obtain ⟨_, _, _, _, _, _, hl, _⟩ := treatOutput_ok htreat
    exact hl
  have hcR : Core sRec (held (y.jobs.eraseIdx k)) tn := by
    have hfst : (job.picked.zip (jobWs job status newW)).map Prod.fst = job.picked :=
      List.map_fst_zip (by omega)
    have h0 : Core (loop y.s).1 (heldPicked ((job.picked.zip (jobWs job status newW)).map Prod.fst)
        ++ held (y.jobs.eraseIdx k)) (loop y.s).1.trajNum := by rw [hfst]; exact hc1
    have hrec' := hrec
    unfold recState at hrec'
    exact (perEns_core status _ h0 hrec').1
  obtain ⟨_, hbal⟩ := hmain (slotWF_of_core hcR)
  have hbal := hbal (hm job sRec tn pns hjob hrec)
  have hcs2 : s2.cstep = (loop y.s).1.cstep :=
    (treatOutput_core job status newW _ pns it hc1 htreat).2.2.2.2.2.2.2.1
  constructor
  · rw [hcs]
    cases renamed with
    | true => simp only [if_true]; rw [hcs2, hlc hgo]
    | false => simp only [Bool.false_eq_true, if_false]
  · intro c
    rw [htot c]
    cases renamed with
    | true =>
      simp only [if_true]
      unfold total
      rw [hbal c, hld.rows, hld.frac]
      congr 1
      simp only [idleAt, hjob, hrec, hlk]
      split <;> simp
    | false =>
      simp only [Bool.false_eq_true, if_false, add_zero]
      exact total_congr hld.frac hld.rows c

end Infretis.Repex.Frac
