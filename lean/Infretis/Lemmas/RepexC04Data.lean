import Infretis.Lemmas.RepexC04Crash
import Infretis.Model.DataFile
/-!
# C04 — the written row, the cleaned data file, the `[current.frac]` section: basic facts

`fmtCols` (`write_to_pathens`), `cleanLines` (`clean_data_file`), `fracSection` / `persistD` (`write_toml`),
`restore` on an arbitrary image (`load_paths`).
-/
namespace Infretis.Repex.Data
open Infretis.Repex.Frac

/-! ### cells -/

theorem readCell_cellOf_self (f : Rat) : readCell (cellOf f f) = f := by
  unfold cellOf
  split
  · rename_i h; rw [h]; rfl
  · rfl

theorem cellOf_dash_iff (f x : Rat) : cellOf f x = .dash ↔ f = 0 := by
  unfold cellOf
  split <;> simp_all

theorem cellOf_eq (f x : Rat) : cellOf f x = if f = 0 then .dash else .num x := rfl

/-- which ensemble columns a row shows at all: a minus path (one weight) column 0, a plus path the columns `≥ 1` -/
def shown (w : List Rat) (c : Nat) : Bool := if w.length = 1 then c == 0 else decide (1 ≤ c)

/-- the weight vector as `add_traj` pads it (`valid`): `[w, 0, …, 0]` for the minus path, `[0, w₀, w₁, …]` else -/
def padW (size : Nat) (w : List Rat) : List Rat :=
  if w.length = 1 then w ++ List.replicate (size - 1) 0 else 0 :: w

theorem getD_map_readCell (l : List Cell) (c : Nat) :
    (l.map readCell).getD c 0 = readCell (l.getD c .dash) := by
  rw [List.getD_eq_getElem?_getD, List.getD_eq_getElem?_getD, List.getElem?_map]
  cases l[c]? <;> rfl

theorem getD_replicate_dash (k c : Nat) : (List.replicate k Cell.dash).getD c .dash = .dash := by
  rw [List.getD_eq_getElem?_getD, List.getElem?_replicate]
  split <;> rfl

/-! ### `fmtCols` -/

/-- `fmtCols` succeeds unless it is the minus branch on an empty fraction vector -/
theorem fmtCols_ok_of_ne_nil (size : Nat) (f w : List Rat) (hf : f ≠ []) :
    ∃ fc wc, fmtCols size f w = .ok (fc, wc) := by
  unfold fmtCols
  split
  · rename_i hw
    cases f with
    | nil => exact absurd rfl hf
    | cons f0 ft =>
      cases w with
      | nil => simp at hw
      | cons w0 wt => exact ⟨_, _, rfl⟩
  · exact ⟨_, _, rfl⟩

/-- **the weight column is masked exactly where the fraction column is** (all inputs) -/
theorem fmtCols_mask_eq (size : Nat) (f w : List Rat) (fc wc : List Cell)
    (h : fmtCols size f w = .ok (fc, wc)) :
    fc.length = wc.length ∧ ∀ c, fc.getD c .dash = .dash ↔ wc.getD c .dash = .dash := by
  unfold fmtCols at h
  split at h
  · split at h
    · rename_i f0 w0 _ _
      simp only [Except.ok.injEq, Prod.mk.injEq] at h
      obtain ⟨rfl, rfl⟩ := h
      refine ⟨by simp, ?_⟩
      intro c
      cases c with
      | zero => simp [cellOf_dash_iff]
      | succ c => simp [getD_replicate_dash]
    · exact absurd h (by simp)
  · simp only [Except.ok.injEq, Prod.mk.injEq] at h
    obtain ⟨rfl, rfl⟩ := h
    refine ⟨by simp, ?_⟩
    intro c
    cases c with
    | zero => simp
    | succ c =>
      simp only [List.getD_cons_succ]
      rw [List.getD_eq_getElem?_getD, List.getD_eq_getElem?_getD, List.getElem?_map, List.getElem?_map]
      cases (List.zip w.dropLast (List.drop 1 f).dropLast)[c]? with
      | none => simp
      | some wf => simp [cellOf_dash_iff]

/-- the reader's split of the column tokens in the middle gives the two lists back -/
theorem splitCols_append (fc wc : List Cell) (h : fc.length = wc.length) : splitCols (fc ++ wc) = (fc, wc) := by
  unfold splitCols
  have : (fc ++ wc).length / 2 = fc.length := by
    rw [List.length_append, ← h]; omega
  rw [this]
  simp

/-- a row's shape as the sampler produces it: `n` fractions, and either one weight (minus path) or `n − 1`
    weights (plus path) -/
structure Shape (size : Nat) (f w : List Rat) : Prop where
  n2 : 2 ≤ size
  flen : f.length = size
  wlen : w.length = 1 ∨ w.length = size - 1

theorem zip_getElem? {α β : Type} (a : List α) (b : List β) (i : Nat) :
    (List.zip a b)[i]? = match a[i]?, b[i]? with
      | some x, some y => some (x, y)
      | _, _ => none := by
  rw [List.getElem?_zip_eq_some_iff_or_none]
  where
    List.getElem?_zip_eq_some_iff_or_none : (List.zip a b)[i]? = match a[i]?, b[i]? with
      | some x, some y => some (x, y)
      | _, _ => none := by
      induction a generalizing b i with
      | nil => simp
      | cons x xs ih =>
        cases b with
        | nil => cases i <;> simp <;> (cases xs[_]? <;> rfl)
        | cons y ys =>
          cases i with
          | zero => simp
          | succ i => simpa using ih ys i

/-- **every column of a well-shaped row, fractions**: column `c` of the written fractions reads as `f[c]` when the
    row shows that column and as 0 when it does not -/
theorem fmtCols_read (size : Nat) (f w : List Rat) (fc wc : List Cell) (sh : Shape size f w)
    (h : fmtCols size f w = .ok (fc, wc)) :
    fc.length = size - 1 ∧ wc.length = size - 1 ∧
    ∀ c, c < size - 1 →
      fc.getD c .dash = (if shown w c = true ∧ f.getD c 0 ≠ 0 then .num (f.getD c 0) else .dash) ∧
      wc.getD c .dash = (if shown w c = true ∧ f.getD c 0 ≠ 0 then .num ((padW size w).getD c 0) else .dash) := by
  have hn := sh.n2
  unfold fmtCols at h
  split at h
  · rename_i hw
    split at h
    · rename_i f0 w0 hf0 hw0
      simp only [Except.ok.injEq, Prod.mk.injEq] at h
      obtain ⟨rfl, rfl⟩ := h
      refine ⟨by simp; omega, by simp; omega, ?_⟩
      intro c hc
      have hf0' : f.getD 0 0 = f0 := by rw [List.getD_eq_getElem?_getD, hf0]; rfl
      have hw0' : (padW size w).getD 0 0 = w0 := by
        unfold padW
        rw [if_pos hw, List.getD_eq_getElem?_getD, List.getElem?_append_left (by omega), hw0]; rfl
      cases c with
      | zero =>
        simp only [List.getD_cons_zero, shown, if_pos hw, beq_self_eq_true, true_and, hf0', hw0', cellOf_eq]
        constructor <;> (split <;> simp_all)
      | succ c =>
        simp only [List.getD_cons_succ, getD_replicate_dash, shown, if_pos hw]
        simp
    · exact absurd h (by simp)
  · rename_i hw
    simp only [Except.ok.injEq, Prod.mk.injEq] at h
    obtain ⟨rfl, rfl⟩ := h
    have hwl : w.length = size - 1 := by
      rcases sh.wlen with h1 | h1
      · exact absurd h1 hw
      · exact h1
    have hfl := sh.flen
    refine ⟨by simp; omega, by simp; omega, ?_⟩
    intro c hc
    cases c with
    | zero => simp [shown, if_neg hw]
    | succ c =>
      have hwc : c < w.length - 1 := by omega
      have hfc : c < (List.drop 1 f).length - 1 := by simp; omega
      have e1 : w.dropLast[c]? = some (w.getD c 0) := by
        rw [List.getElem?_dropLast, if_pos hwc, List.getD_eq_getElem?_getD,
          List.getElem?_eq_getElem (by omega)]
        rfl
      have e2 : (List.drop 1 f).dropLast[c]? = some (f.getD (c + 1) 0) := by
        have hlt : 1 + c < f.length := by omega
        rw [List.getElem?_dropLast, if_pos hfc, List.getElem?_drop, List.getElem?_eq_getElem hlt,
          List.getD_eq_getElem?_getD, show c + 1 = 1 + c from by omega, List.getElem?_eq_getElem hlt]
        rfl
      have ez : (List.zip w.dropLast (List.drop 1 f).dropLast)[c]? = some (w.getD c 0, f.getD (c + 1) 0) := by
        rw [zip_getElem?, e1, e2]
      have hp : (padW size w).getD (c + 1) 0 = w.getD c 0 := by
        unfold padW
        rw [if_neg hw]
        simp
      have hA : ∀ g : Rat × Rat → Cell,
          (List.map g (List.zip w.dropLast (List.drop 1 f).dropLast)).getD c .dash = g (w.getD c 0, f.getD (c + 1) 0) := by
        intro g
        rw [List.getD_eq_getElem?_getD, List.getElem?_map, ez]
        rfl
      have hs : shown w (c + 1) = true := by simp [shown, if_neg hw]
      rw [List.getD_cons_succ, List.getD_cons_succ, hA, hA, hp, hs]
      simp only [cellOf_eq, true_and]
      constructor <;> (split <;> simp_all)

/-- the support condition of a table entry / a row: no fraction outside the columns the row shows, none in the
    ghost column -/
structure RowSup (size : Nat) (f w : List Rat) : Prop where
  shape : Shape size f w
  off : ∀ c, c < size - 1 → shown w c = false → f.getD c 0 = 0
  ghost : f.getD (size - 1) 0 = 0

/-- **reading the written row gives the path's fractions** in every ensemble column -/
theorem fmtCols_readback (size : Nat) (f w : List Rat) (fc wc : List Cell) (rs : RowSup size f w)
    (h : fmtCols size f w = .ok (fc, wc)) (c : Nat) (hc : c < size - 1) :
    (fc.map readCell).getD c 0 = f.getD c 0 := by
  obtain ⟨_, _, hcell⟩ := fmtCols_read size f w fc wc rs.shape h
  rw [getD_map_readCell, (hcell c hc).1]
  by_cases hs : shown w c = true
  · by_cases hz : f.getD c 0 = 0
    · rw [if_neg (fun h => h.2 hz), hz]; rfl
    · rw [if_pos ⟨hs, hz⟩]; rfl
  · rw [if_neg (by simp [hs])]
    have : shown w c = false := by simpa using hs
    rw [rs.off c hc this]; rfl

/-! ### rows as lines -/

theorem fmtRow_ok {size : Nat} {r : Nat × List Rat × List Rat} {l : DLine} (h : fmtRow size r = .ok l) :
    ∃ fc wc, fmtCols size r.2.1 r.2.2 = .ok (fc, wc) ∧
      l = { hash := false, term := true, key := some r.1, frac := fc, wts := wc } := by
  unfold fmtRow at h
  split at h
  · exact absurd h (by simp)
  · rename_i fc wc hc
    simp only [Except.ok.injEq] at h
    exact ⟨fc, wc, hc, h.symm⟩

theorem fmtRows_cons {size : Nat} {r : Nat × List Rat × List Rat} {rest : List (Nat × List Rat × List Rat)}
    {ls : List DLine} (h : fmtRows size (r :: rest) = .ok ls) :
    ∃ l ls', fmtRow size r = .ok l ∧ fmtRows size rest = .ok ls' ∧ ls = l :: ls' := by
  unfold fmtRows at h
  split at h
  · exact absurd h (by simp)
  · rename_i l hl
    split at h
    · exact absurd h (by simp)
    · rename_i ls' hls
      simp only [Except.ok.injEq] at h
      exact ⟨l, ls', hl, hls, h.symm⟩

theorem fmtRows_append {size : Nat} : ∀ (a b : List (Nat × List Rat × List Rat)) (ls : List DLine),
    fmtRows size (a ++ b) = .ok ls ↔
      ∃ la lb, fmtRows size a = .ok la ∧ fmtRows size b = .ok lb ∧ ls = la ++ lb := by
  intro a
  induction a with
  | nil =>
    intro b ls
    simp only [List.nil_append, fmtRows]
    constructor
    · intro h; exact ⟨[], ls, rfl, h, rfl⟩
    · rintro ⟨la, lb, h1, h2, rfl⟩
      simp only [Except.ok.injEq] at h1
      subst h1; exact h2
  | cons r rest ih =>
    intro b ls
    constructor
    · intro h
      obtain ⟨l, ls', h1, h2, rfl⟩ := fmtRows_cons (by simpa using h)
      obtain ⟨la, lb, h3, h4, rfl⟩ := (ih b ls').mp h2
      refine ⟨l :: la, lb, ?_, h4, rfl⟩
      unfold fmtRows; rw [h1, h3]
    · rintro ⟨la, lb, h1, h2, rfl⟩
      obtain ⟨l, la', h3, h4, rfl⟩ := fmtRows_cons h1
      have := (ih b (la' ++ lb)).mpr ⟨la', lb, h4, h2, rfl⟩
      show fmtRows size (r :: (rest ++ b)) = _
      unfold fmtRows; rw [h3, this]; rfl

theorem dataRows_cons_row (k : Nat) (fc wc : List Cell) (ls : List DLine) :
    dataRows ({ hash := false, term := true, key := some k, frac := fc, wts := wc } :: ls)
      = (k, fc, wc) :: dataRows ls := rfl

/-- the lines `fmtRows` produces are complete rows, one per table entry, keyed by the path numbers in order -/
theorem fmtRows_rows {size : Nat} : ∀ (rows : List (Nat × List Rat × List Rat)) (ls : List DLine),
    fmtRows size rows = .ok ls →
    (dataRows ls).map (·.1) = rows.map (·.1) ∧ (∀ l ∈ ls, l.hash = false ∧ l.term = true) ∧
    ls.length = rows.length ∧
    ∀ (i : Nat) (l : DLine), ls[i]? = some l → ∃ (r : Nat × List Rat × List Rat) (fc wc : List Cell),
      rows[i]? = some r ∧ fmtCols size r.2.1 r.2.2 = .ok (fc, wc) ∧
      l = { hash := false, term := true, key := some r.1, frac := fc, wts := wc } := by
  intro rows
  induction rows with
  | nil =>
    intro ls h
    simp only [fmtRows, Except.ok.injEq] at h
    subst h
    simp [dataRows]
  | cons r rest ih =>
    intro ls h
    obtain ⟨l, ls', h1, h2, rfl⟩ := fmtRows_cons h
    obtain ⟨fc, wc, hc, rfl⟩ := fmtRow_ok h1
    obtain ⟨i1, i2, i3, i4⟩ := ih ls' h2
    refine ⟨?_, ?_, by simp [i3], ?_⟩
    · rw [dataRows_cons_row]
      simp [i1]
    · intro l hl
      rcases List.mem_cons.mp hl with rfl | hl
      · exact ⟨rfl, rfl⟩
      · exact i2 l hl
    · intro i l hl
      cases i with
      | zero =>
        simp only [List.getElem?_cons_zero, Option.some.injEq] at hl
        exact ⟨r, fc, wc, by simp, hc, hl.symm⟩
      | succ i =>
        simp only [List.getElem?_cons_succ] at hl ⊢
        exact i4 i l hl

/-- **the fractions the written rows show add up to the fractions of the table entries**, column by column,
    when every row satisfies the support condition -/
theorem lineTotal_fmtRows {size : Nat} : ∀ (rows : List (Nat × List Rat × List Rat)) (ls : List DLine),
    fmtRows size rows = .ok ls → (∀ r ∈ rows, RowSup size r.2.1 r.2.2) → ∀ c, c < size - 1 →
    lineTotal ls c = rowsTotal rows c := by
  intro rows
  induction rows with
  | nil =>
    intro ls h _ c _
    simp only [fmtRows, Except.ok.injEq] at h
    subst h
    simp [lineTotal, dataRows]
  | cons r rest ih =>
    intro ls h hs c hc
    obtain ⟨l, ls', h1, h2, rfl⟩ := fmtRows_cons h
    obtain ⟨fc, wc, hfc, rfl⟩ := fmtRow_ok h1
    have := ih ls' h2 (fun r' hr' => hs r' (List.mem_cons_of_mem _ hr')) c hc
    have hb := fmtCols_readback size r.2.1 r.2.2 fc wc (hs r List.mem_cons_self) hfc c hc
    unfold lineTotal at this ⊢
    simp only [dataRows, List.filterMap_cons, Bool.not_false, Bool.and_self, if_true, Option.map_some,
      List.map_cons, List.sum_cons] at this ⊢
    rw [this, hb]
    simp [rowsTotal]

theorem dataRows_append (a b : List DLine) : dataRows (a ++ b) = dataRows a ++ dataRows b := by
  simp [dataRows, List.filterMap_append]

theorem lineTotal_append (a b : List DLine) (c : Nat) : lineTotal (a ++ b) c = lineTotal a c + lineTotal b c := by
  simp [lineTotal, dataRows_append]

theorem dataRows_header : dataRows headerLines = [] := by
  simp [dataRows, headerLines]

theorem lineTotal_header (c : Nat) : lineTotal headerLines c = 0 := by
  simp [lineTotal, dataRows_header]

/-! ### `clean_data_file` -/

/-- what `clean_data_file` does to the rows a reader finds: exactly the rows of active paths go -/
theorem dataRows_cleanLines (active : List Nat) (lines : List DLine) :
    dataRows (cleanLines active lines) = (dataRows lines).filter (fun r => !active.contains r.1) := by
  induction lines with
  | nil => simp [cleanLines, dataRows]
  | cons l rest ih =>
    unfold cleanLines at ih ⊢
    obtain ⟨hash, term, key, fr, ws⟩ := l
    cases hash <;> cases term <;> cases key <;>
      simp [List.filter_cons, keepLine, dataRows, List.filterMap_cons] at ih ⊢ <;>
      (try (split <;> simp_all [dataRows])) <;> (try exact ih)

/-- no unterminated non-comment line survives, comment lines always do -/
theorem cleanLines_spec (active : List Nat) (lines : List DLine) (l : DLine) :
    l ∈ cleanLines active lines ↔
      l ∈ lines ∧ (l.hash = true ∨ (l.term = true ∧ ∀ k, l.key = some k → k ∉ active)) := by
  unfold cleanLines
  rw [List.mem_filter]
  obtain ⟨hash, term, key, fr, ws⟩ := l
  cases hash <;> cases term <;> cases key <;> simp [keepLine]

theorem cleanLines_idem (active : List Nat) (lines : List DLine) :
    cleanLines active (cleanLines active lines) = cleanLines active lines := by
  simp [cleanLines, List.filter_filter]

theorem cleanLines_append (active : List Nat) (a b : List DLine) :
    cleanLines active (a ++ b) = cleanLines active a ++ cleanLines active b := by
  simp [cleanLines]

theorem cleanLines_torn (active : List Nat) (k : Option Nat) : cleanLines active [tornLine k] = [] := by
  simp [cleanLines, keepLine, tornLine]

theorem cleanLines_header (active : List Nat) : cleanLines active headerLines = headerLines := by
  simp [cleanLines, keepLine, headerLines]

/-- complete lines none of whose keys is active are all kept -/
theorem cleanLines_keep_all (active : List Nat) (ls : List DLine)
    (h : ∀ l ∈ ls, l.hash = true ∨ (l.term = true ∧ ∀ k, l.key = some k → k ∉ active)) :
    cleanLines active ls = ls := by
  unfold cleanLines
  rw [List.filter_eq_self]
  intro l hl
  obtain ⟨hash, term, key, fr, ws⟩ := l
  have := h _ hl
  cases hash <;> cases term <;> cases key <;> simp_all [keepLine]

/-- row lines all of whose keys are active are all dropped -/
theorem cleanLines_drop_all (active : List Nat) (ls : List DLine)
    (h : ∀ l ∈ ls, l.hash = false ∧ ∃ k, l.key = some k ∧ k ∈ active) :
    cleanLines active ls = [] := by
  unfold cleanLines
  rw [List.filter_eq_nil_iff]
  intro l hl
  obtain ⟨hash, term, key, fr, ws⟩ := l
  obtain ⟨h1, k, h2, h3⟩ := h _ hl
  simp only at h1 h2
  subst h1 h2
  cases term <;> simp [keepLine, h3]

/-! ### `write_toml`'s fraction section -/

theorem lookup_insertKey {α : Type} (kv : Nat × α) (l : List (Nat × α)) (k : Nat) :
    (insertKey kv l).lookup k = if k = kv.1 then some kv.2 else l.lookup k := by
  obtain ⟨a, v⟩ := kv
  induction l with
  | nil =>
    simp only [insertKey, List.lookup_cons, List.lookup_nil]
    by_cases h : k = a
    · simp [h]
    · have : (k == a) = false := by simpa using h
      simp [h, this]
  | cons x rest ih =>
    obtain ⟨b, u⟩ := x
    unfold insertKey
    split
    · simp only [List.lookup_cons]
      by_cases h : k = a
      · simp [h]
      · have : (k == a) = false := by simpa using h
        simp [h, this]
    · rename_i hle
      simp only [List.lookup_cons]
      by_cases hx : k = b
      · have hne : k ≠ a := by simp only at hle; omega
        have : (k == b) = true := by simpa using hx
        simp [this, hne]
      · have : (k == b) = false := by simpa using hx
        simp only [this]
        exact ih

/-- the section holds the same vector for every key, whatever the order it is written in -/
theorem lookup_fracSection {α : Type} (l : List (Nat × α)) (k : Nat) :
    (fracSection l).lookup k = l.lookup k := by
  induction l with
  | nil => rfl
  | cons kv rest ih =>
    obtain ⟨a, v⟩ := kv
    show (insertKey (a, v) (fracSection rest)).lookup k = _
    rw [lookup_insertKey, ih]
    simp only [List.lookup_cons]
    by_cases h : k = a
    · simp [h]
    · have : (k == a) = false := by simpa using h
      simp [h, this]

theorem insertKey_perm {α : Type} (kv : Nat × α) (l : List (Nat × α)) : (insertKey kv l).Perm (kv :: l) := by
  induction l with
  | nil => exact List.Perm.refl _
  | cons x rest ih =>
    unfold insertKey
    split
    · exact List.Perm.refl _
    · exact (List.Perm.cons x ih).trans (List.Perm.swap kv x rest)

theorem fracSection_perm {α : Type} (l : List (Nat × α)) : (fracSection l).Perm l := by
  induction l with
  | nil => exact List.Perm.refl _
  | cons kv rest ih => exact (insertKey_perm kv _).trans (List.Perm.cons kv ih)

theorem insertKey_sorted {α : Type} (kv : Nat × α) (l : List (Nat × α))
    (h : (l.map Prod.fst).Pairwise (· ≤ ·)) : ((insertKey kv l).map Prod.fst).Pairwise (· ≤ ·) := by
  induction l with
  | nil => simp [insertKey]
  | cons x rest ih =>
    simp only [List.map_cons, List.pairwise_cons] at h
    unfold insertKey
    split
    · rename_i hle
      simp only [List.map_cons, List.pairwise_cons]
      refine ⟨?_, h.1, h.2⟩
      intro a ha
      rcases List.mem_cons.mp ha with rfl | ha
      · exact hle
      · exact Nat.le_trans hle (h.1 a ha)
    · rename_i hle
      simp only [List.map_cons, List.pairwise_cons]
      refine ⟨?_, ih h.2⟩
      intro a ha
      have hp := (insertKey_perm kv rest).map Prod.fst
      rcases List.mem_cons.mp (hp.mem_iff.mp ha) with rfl | ha
      · omega
      · exact h.1 a ha

/-- the keys are written in ascending order (`sorted(traj_data.keys())`) -/
theorem fracSection_sorted {α : Type} (l : List (Nat × α)) :
    ((fracSection l).map Prod.fst).Pairwise (· ≤ ·) := by
  induction l with
  | nil => simp [fracSection]
  | cons kv rest ih => exact insertKey_sorted kv _ ih

/-! ### `load_paths` on an arbitrary image -/

/-- the path list `restore` hands to `load_paths` -/
def imgPathsOf (im : Image) (n : Nat) (weightOf : Nat → List Rat) : List (Nat × List Rat × List Rat) :=
  im.active.filterMap (fun o => o.map (fun pn =>
    (pn, weightOf pn, (im.frac.lookup pn).getD (List.replicate n 0))))

theorem imgPathsOf_eq (im : Image) (n : Nat) (weightOf : Nat → List Rat) :
    imgPathsOf im n weightOf = (activeKeys im).map (fun pn =>
      (pn, weightOf pn, (im.frac.lookup pn).getD (List.replicate n 0))) := by
  unfold imgPathsOf activeKeys
  rw [List.map_filterMap]
  apply List.filterMap_congr
  intro o _
  cases o <;> rfl

/-- **`load_paths` on any restart image**: the restored table holds exactly the active paths (plus paths first,
    then the minus path), each with the vector the image stores for it (zeros if it stores none); its column
    totals are the live weights of the image; the model's row list starts empty; the path counter is the image's -/
theorem restore_image {im : Image} {s' : St} {n workers tsteps : Nat} {occ : List (List Int)}
    {ensEng : List (List Nat)} {weightOf : Nat → List Rat}
    (h : restore im n workers tsteps occ ensEng weightOf = .ok s') :
    (s'.frac.map Prod.fst).Perm (activeKeys im) ∧
    (∀ kv ∈ s'.frac, kv.2 = (im.frac.lookup kv.1).getD (List.replicate n 0)) ∧
    (∀ c, colTotal s'.frac c = liveTotal im c) ∧
    s'.rows = [] ∧ s'.n = n ∧ s'.trajNum = im.trajNum := by
  have h' : loadPaths { blank n workers tsteps im.cstep im.trajNum im.seed occ ensEng true im.locked with
              locked0Ord := im.lockedOrd.map some,
              spawned := im.spawnedRec.getD (im.cstep + im.locked.length) } (imgPathsOf im n weightOf) = .ok s' := h
  obtain ⟨hd, tl, hp, hf, hr, hn, ht⟩ := loadPaths_data h'
  have hf' : s'.frac = (tl ++ [hd]).map (fun p => (p.1, p.2.2)) := by rw [hf]; rfl
  have hperm : (tl ++ [hd]).Perm (imgPathsOf im n weightOf) := by
    rw [hp]; exact List.perm_append_comm
  have hkeys : (s'.frac.map Prod.fst).Perm (activeKeys im) := by
    rw [hf', List.map_map]
    have := hperm.map (fun p : Nat × List Rat × List Rat => p.1)
    rw [imgPathsOf_eq, List.map_map] at this
    simpa [Function.comp_def] using this
  refine ⟨hkeys, ?_, ?_, hr, hn, ht⟩
  · intro kv hkv
    rw [hf'] at hkv
    simp only [List.mem_map] at hkv
    obtain ⟨p, hpm, rfl⟩ := hkv
    have hpm' : p ∈ imgPathsOf im n weightOf := hperm.mem_iff.mp hpm
    rw [imgPathsOf_eq] at hpm'
    simp only [List.mem_map] at hpm'
    obtain ⟨pn, _, rfl⟩ := hpm'
    rfl
  · intro c
    have e : colTotal s'.frac c = (((tl ++ [hd]).map (fun p : Nat × List Rat × List Rat => p.2.2.getD c 0))).sum := by
      rw [hf']; unfold colTotal; rw [List.map_map]; rfl
    rw [e, (hperm.map _).sum_eq, imgPathsOf_eq, List.map_map]
    unfold liveTotal
    congr 1
    apply List.map_congr_left
    intro pn _
    simp only [Function.comp_def]
    cases im.frac.lookup pn with
    | none =>
      show (List.replicate n (0 : Rat)).getD c 0 = ([] : List Rat).getD c 0
      rw [getD_replicate_zero]; rfl
    | some v => rfl

theorem restore_persistD (s : St) (n workers tsteps : Nat) (occ : List (List Int)) (ensEng : List (List Nat))
    (weightOf : Nat → List Rat) :
    restore (persistD s) n workers tsteps occ ensEng weightOf = restore (persist s) n workers tsteps occ ensEng weightOf := by
  have hp : (persistD s).active.filterMap (fun o => o.map (fun pn =>
        (pn, weightOf pn, ((persistD s).frac.lookup pn).getD (List.replicate n 0))))
      = (persist s).active.filterMap (fun o => o.map (fun pn =>
        (pn, weightOf pn, ((persist s).frac.lookup pn).getD (List.replicate n 0)))) := by
    show (persist s).active.filterMap _ = _
    apply List.filterMap_congr
    intro o _
    cases o with
    | none => rfl
    | some pn =>
      show some (pn, weightOf pn, ((fracSection s.frac).lookup pn).getD _) = _
      rw [lookup_fracSection]
      rfl
  unfold restore
  simp only []
  rw [hp]
  rfl

theorem liveTotal_persistD (s : St) (c : Nat) : liveTotal (persistD s) c = liveTotal (persist s) c := by
  unfold liveTotal activeKeys persistD
  simp only [lookup_fracSection]
  rfl

/-- when the image's active paths are exactly the keys of a table with distinct keys and the image stores the
    table's vectors, the live weights of the image are the column totals of the table -/
theorem liveTotal_eq_colTotal (im : Image) (frac : List (Nat × List Rat))
    (hk : (frac.map Prod.fst).Nodup) (hact : (activeKeys im).Perm (frac.map Prod.fst))
    (hl : ∀ k, im.frac.lookup k = frac.lookup k) (c : Nat) : liveTotal im c = colTotal frac c := by
  unfold liveTotal
  rw [(hact.map _).sum_eq, List.map_map]
  unfold colTotal
  apply congrArg
  apply List.map_congr_left
  intro kv hkv
  simp only [Function.comp_def]
  rw [hl kv.1, lookup_of_mem_nodup frac hk kv hkv]
  rfl

end Infretis.Repex.Data
