import Infretis.Lemmas.RepexC04Sup
import Infretis.Lemmas.RepexC06Tidy
/-!
# C04 — the law on the files: data file + restart file along a history, and after a stop inside `treat_output`

`DSys` (Model/DataFile.lean) = sampler + the two files + the per-column count of idle recordings.
Invariant `DiskInv`: the data file is the header followed by the formatted rows of the model's row list; the
restart file, once written, lists exactly the keys of the fraction table as active paths, stores the table's
vectors and the step / path counters of the state (they do not change between two `treat_output`s).
Uses C03 (`Core`), C05 (`Fam`, for the support invariant), C06's `Tidy` (tables keyed exactly by the live paths,
ghost slot empty) and this package's `HInv`, `RInv`, `SupInv`.
-/
namespace Infretis.Repex.Data
open Infretis.Repex.Frac Infretis.Perm

/-! ### everything carried along a history -/

structure Reach4 (y : Sys) : Prop where
  hinv : HInv y
  rinv : RInv y
  inv5 : Inv5 y
  tidy : TidyY y
  sup : SupInv y.s

theorem sysStep_reach4 {y y' : Sys} (ev : Ev) (hr : Reach4 y) (hev : EvOk y ev) (h : sysStep y ev = .ok y') :
    Reach4 y' :=
  ⟨sysStep_hinv ev hr.hinv h, (sysStep_rinv ev hr.hinv hr.rinv h).1, (sysStep_preserves5 ev hr.inv5 hev h).1,
   sysStep_tidy ev hr.inv5.inv hr.tidy h, sysStep_sup ev hr.hinv hr.inv5 hev hr.sup h⟩

theorem run_reach4 : ∀ (evs : List Ev) {y y' : Sys}, Reach4 y → HistOk y evs → run y evs = .ok y' → Reach4 y' := by
  intro evs
  induction evs with
  | nil => intro y y' hr _ h; simp only [run, Except.ok.injEq] at h; subst h; exact hr
  | cons ev rest ih =>
    intro y y' hr hh h
    unfold run at h
    split at h
    · exact absurd h (by simp)
    · rename_i y1 h1
      exact ih (sysStep_reach4 ev hr hh.1 h1) (hh.2 y1 h1) h

/-- a fresh start for the law on the files: `RowInit` (C04), `Init5` (C05) and tidy tables (C06) -/
structure DiskStart (y : Sys) : Prop where
  ri : RowInit y
  i5 : Init5 y
  tidy : Tidy y.s

theorem DiskStart.reach4 {y : Sys} (h : DiskStart y) : Reach4 y :=
  ⟨h.ri.fi.hinv, h.ri.rinv, h.i5.inv5, ⟨h.tidy, by rw [h.ri.fi.init.jobs]; intro j hj; simp at hj⟩,
   supInv_of_fracInit h.ri.fi⟩

/-! ### the restart file describes the table -/

structure ImgOk (s : St) (im : Image) : Prop where
  act : (activeKeys im).Perm (s.frac.map Prod.fst)
  look : ∀ k, im.frac.lookup k = s.frac.lookup k
  cstep : im.cstep = s.cstep
  tn : im.trajNum = s.trajNum

theorem ImgOk.congr {s s' : St} {im : Image} (h : ImgOk s im) (hf : s'.frac = s.frac) (hc : s'.cstep = s.cstep)
    (ht : s'.trajNum = s.trajNum) : ImgOk s' im :=
  ⟨by rw [hf]; exact h.act, by rw [hf]; exact h.look, by rw [hc]; exact h.cstep, by rw [ht]; exact h.tn⟩

theorem dropLast_append_getLast {α : Type} (l : List α) (n : Nat) (x : α) (hl : l.length = n) (hn : 1 ≤ n)
    (hx : l[n - 1]? = some x) : l = l.dropLast ++ [x] := by
  have hne : l ≠ [] := by intro h; rw [h] at hl; simp at hl; omega
  have h1 := List.dropLast_append_getLast hne
  have h2 : l.getLast hne = x := by
    rw [List.getLast_eq_getElem]
    have : l.length - 1 = n - 1 := by omega
    have hlt : n - 1 < l.length := by omega
    rw [List.getElem?_eq_getElem hlt] at hx
    simp only [Option.some.injEq] at hx
    simp only [this]
    exact hx
  rw [← h2]; exact h1.symm

/-- with the ghost slot empty the live paths are all the paths in the slots -/
theorem mem_livePaths_iff {s : St} {H : List (Nat × Nat)} {tn : Nat} (hc : CoreR s H tn) (hn : none ∈ s.trajs)
    (q : Nat) : some q ∈ livePaths s ↔ some q ∈ s.trajs := by
  have hg := ghost_none_of hc hn
  have hsplit := dropLast_append_getLast s.trajs s.n none hc.lenT (by have := hc.n2; omega) hg
  unfold livePaths
  constructor
  · intro h; exact (List.dropLast_sublist _).subset h
  · intro h
    rw [hsplit] at h
    rcases List.mem_append.mp h with h | h
    · exact h
    · simp at h

/-- **`write_toml` right after `treat_output`**: the active list of the image is, as a set, the key set of the
    fraction table, and the image stores the table's vectors -/
theorem imgOk_persistD {s : St} {H : List (Nat × Nat)} {tn : Nat} (hc : CoreR s H tn) (ht : Tidy s)
    (hk : (s.frac.map Prod.fst).Nodup) (hl : (s.trajs.filterMap id).Nodup) : ImgOk s (persistD s) := by
  refine ⟨?_, fun k => lookup_fracSection s.frac k, rfl, rfl⟩
  show ((livePaths s).filterMap id).Perm _
  apply (List.perm_ext_iff_of_nodup (hl.sublist ((List.dropLast_sublist _).filterMap id)) hk).mpr
  intro q
  rw [mem_fm]
  have := mem_livePaths_iff hc ht.hasNone q
  unfold livePaths at this
  rw [this, ← ht.keysLive q, ht.sameKeys]

/-! ### the invariant of the disk -/

structure DiskInv (z : DSys) : Prop where
  lines : ∃ ls, fmtRows z.y.s.n z.y.s.rows = .ok ls ∧ z.d.lines = headerLines ++ ls
  img : ∀ im, z.d.img = some im → ImgOk z.y.s im
  cntLen : z.cnt.length = z.y.s.n

theorem freshSys_inv {y : Sys} (h : RowInit y) : DiskInv (freshSys y) := by
  refine ⟨⟨[], ?_, by simp [freshSys, freshDisk]⟩, ?_, by simp [freshSys]⟩
  · show fmtRows y.s.n y.s.rows = .ok []
    rw [h.fi.rows]; rfl
  · intro im him
    simp [freshSys, freshDisk] at him

/-! ### the treat half of a completed step -/

theorem treatPart_ok {y y' : Sys} {k : Nat} {status : Status} {newW : List (List Rat)} {o : PickOutcome}
    (h : sysStep y (.step k status newW o) = .ok y') :
    ∃ job s2 pns it, y.jobs[k]? = some job ∧
      treatOutput (loop y.s).1 job status newW (sortFuel (loop y.s).1) = .ok (s2, pns, it) ∧
      treatPart y k status newW = .ok ((loop y.s).1, s2) ∧ (loop y.s).2 = true ∧
      ((∃ s3 job' ds, prep s2 (some job.pin) o = .ok (s3, job', ds) ∧
          y' = { s := s3, jobs := y.jobs.eraseIdx k ++ [job'] }) ∨
       y' = { s := s2, jobs := y.jobs.eraseIdx k }) := by
  obtain ⟨hgo, job, s2, pns, it, hjob, htreat, hrest⟩ := step_ok h
  refine ⟨job, s2, pns, it, hjob, htreat, ?_, hgo, hrest⟩
  unfold treatPart
  generalize hl : loop y.s = r at hgo htreat ⊢
  obtain ⟨s1, go⟩ := r
  simp only [] at hgo htreat ⊢
  subst hgo
  simp only [not_true_eq_false, if_false, hjob, htreat]

/-- the state `treat_output` leaves and the state the event leaves agree on tables, data rows, counters -/
theorem step_keep {y y' : Sys} {k : Nat} {job : Job} {s2 : St} {o : PickOutcome}
    (hrest : (∃ s3 job' ds, prep s2 (some job.pin) o = .ok (s3, job', ds) ∧
          y' = { s := s3, jobs := y.jobs.eraseIdx k ++ [job'] }) ∨
       y' = { s := s2, jobs := y.jobs.eraseIdx k }) : Keep s2 y'.s := by
  rcases hrest with ⟨s3, job', ds, hp, rfl⟩ | rfl
  · exact (prep_keep hp).1
  · exact Keep.refl _

theorem getD_idleInc (locks : List Bool) (c : Nat) :
    (idleInc locks).getD c 0 = if locks[c]? = some false then 1 else 0 := by
  unfold idleInc
  rw [List.getD_eq_getElem?_getD, List.getElem?_map]
  cases h : locks[c]? with
  | none => simp
  | some b => cases b <;> simp

theorem tidy_loop {s : St} (t : Tidy s) : Tidy (loop s).1 := by
  obtain ⟨hle, _⟩ := loop_coreEq s
  obtain ⟨hld, _⟩ := loop_data s
  exact ⟨by rw [hle.trajs]; exact t.hasNone, by rw [hle.n, hle.W]; exact t.hasZero,
    by rw [hld.frac, hld.wts]; exact t.sameKeys, by rw [hld.wts, hle.trajs]; exact t.keysLive⟩

/-- everything the disk argument needs about the `treat_output` of a completed step -/
structure StepFacts (y y' : Sys) (k : Nat) (status : Status) (newW : List (List Rat)) (o : PickOutcome)
    (job : Job) (s2 : St) : Prop where
  hjob : y.jobs[k]? = some job
  htp : treatPart y k status newW = .ok ((loop y.s).1, s2)
  keep : Keep s2 y'.s
  img : ImgOk s2 (persistD s2)
  cstep : s2.cstep = y.s.cstep + 1
  n : s2.n = y.s.n
  rows : ∃ news, s2.rows = y.s.rows ++ news ∧ newRows (loop y.s).1 s2 = news ∧
    ∀ r ∈ news, r.1 ∈ y.s.frac.map Prod.fst
  locksLen : s2.locks.length = y.s.n
  idle : ∀ c, idleAt y (.step k status newW o) c = (idleInc s2.locks).getD c 0

theorem step_facts {y y' : Sys} {k : Nat} {status : Status} {newW : List (List Rat)} {o : PickOutcome}
    (hr : Reach4 y) (h : sysStep y (.step k status newW o) = .ok y') :
    ∃ job s2, StepFacts y y' k status newW o job s2 := by
  obtain ⟨job, s2, pns, it, hjob, htreat, htp, hgo, hrest⟩ := treatPart_ok h
  have hi := hr.hinv
  obtain ⟨hld, _, _, _, hlc⟩ := loop_data y.s
  obtain ⟨hle, hltn, _⟩ := loop_coreEq y.s
  have hc1 : Core (loop y.s).1 (heldJob job ++ held (y.jobs.eraseIdx k)) (loop y.s).1.trajNum := by
    rw [hltn]
    exact (hi.inv.core.congr hle).perm (held_perm_erase y.jobs k job hjob)
  have fw1 : FracWF (loop y.s).1 := hi.fw.congr hld.frac hld.n hld.trajNum
  have r1 : RInv ⟨(loop y.s).1, y.jobs.eraseIdx k⟩ :=
    hr.rinv.transfer hld.rows hld.frac hld.trajNum (by rw [loop_trajs])
      (fun j hj => hr.rinv.jobsOld j (List.mem_of_mem_eraseIdx hj))
  have hold := hr.rinv.jobsOld job (List.mem_of_getElem? hjob)
  obtain ⟨hc2, _, _, _, _, _, hn2, hcs2, _⟩ := treatOutput_core job status newW _ pns it hc1 htreat
  have ht2 : Tidy s2 := treatOutput_tidy job status newW _ pns it (tidy_loop hr.tidy.tidy) hc1.toR hold htreat
  obtain ⟨r2, hrows2, hlive2⟩ := treat_rinv hc1 fw1 r1 hold htreat
  have hk := step_keep (k := k) hrest
  have hi' := sysStep_hinv _ hi h
  have hk2 : (s2.frac.map Prod.fst).Nodup := by rw [← hk.frac]; exact hi'.fw.keys
  obtain ⟨news, hnews, hnk⟩ := treatOutput_rows_append htreat
  obtain ⟨sRec, tn, hrec, _, hlk, _⟩ := treatOutput_total fw1 htreat
  refine ⟨job, s2, hjob, htp, hk, imgOk_persistD hc2.toR ht2 hk2 r2.liveNodup, ?_, hn2.trans hld.n, ?_, ?_, ?_⟩
  · rw [hcs2, hlc hgo]
  · refine ⟨news, by rw [hnews, hld.rows], ?_, ?_⟩
    · unfold newRows
      rw [hnews]; simp
    · intro r hrn
      have hw : r.1 ∈ written job status := by rw [← hnk]; exact List.mem_map_of_mem hrn
      obtain ⟨hl1, _⟩ := hlive2 r.1 hw
      rw [loop_trajs] at hl1
      exact hr.rinv.liveFrac r.1 hl1
  · rw [hc2.lenL, hn2, hld.n]
  · intro c
    simp only [idleAt, hjob, hrec]
    rw [getD_idleInc, hlk]

/-! ### the invariant is kept; the counts are the idle recordings -/

theorem getD_addCnt (a b : List Nat) (h : a.length = b.length) (c : Nat) :
    (addCnt a b).getD c 0 = a.getD c 0 + b.getD c 0 := by
  unfold addCnt
  rw [List.getD_eq_getElem?_getD, List.getD_eq_getElem?_getD, List.getD_eq_getElem?_getD, List.getElem?_zipWith]
  rcases Nat.lt_or_ge c a.length with hc | hc
  · rw [List.getElem?_eq_getElem hc, List.getElem?_eq_getElem (by omega)]
    rfl
  · rw [List.getElem?_eq_none hc, List.getElem?_eq_none (by omega)]
    rfl

theorem length_addCnt (a b : List Nat) (h : a.length = b.length) : (addCnt a b).length = a.length := by
  unfold addCnt
  rw [List.length_zipWith, h, Nat.min_self]

theorem length_idleInc (locks : List Bool) : (idleInc locks).length = locks.length := by
  simp [idleInc]

/-- events other than a completed step touch neither file, nor tables, rows, counters -/
theorem quiet_event {y y' : Sys} {ev : Ev} (hne : ∀ k status newW o, ev ≠ .step k status newW o)
    (h : sysStep y ev = .ok y') :
    y'.s.frac = y.s.frac ∧ y'.s.rows = y.s.rows ∧ y'.s.n = y.s.n ∧ y'.s.cstep = y.s.cstep ∧
      y'.s.trajNum = y.s.trajNum := by
  cases ev with
  | start o saved =>
    obtain ⟨_, s2, job, ds, hp, rfl⟩ := start_ok h
    obtain ⟨hd, hcs, _⟩ := initiate_data y.s
    obtain ⟨hk, _⟩ := prep_keep hp
    exact ⟨hk.frac.trans hd.frac, hk.rows.trans hd.rows, hk.n.trans hd.n, hk.cstep.trans hcs,
      hk.trajNum.trans hd.trajNum⟩
  | initDone =>
    obtain ⟨_, rfl⟩ := initDone_ok h
    obtain ⟨hd, hcs, _⟩ := initiate_data y.s
    exact ⟨hd.frac, hd.rows, hd.n, hcs, hd.trajNum⟩
  | step k status newW o => exact absurd rfl (hne k status newW o)

theorem dStep_sys {z z' : DSys} {ev : Ev} (h : dStep z ev = .ok z') : sysStep z.y ev = .ok z'.y := by
  unfold dStep at h
  split at h
  · exact absurd h (by simp)
  rename_i y' hs
  cases ev with
  | start o saved => simp only [Except.ok.injEq] at h; rw [← h]; exact hs
  | initDone => simp only [Except.ok.injEq] at h; rw [← h]; exact hs
  | step k status newW o =>
    simp only [] at h
    split at h
    · exact absurd h (by simp)
    split at h
    · exact absurd h (by simp)
    simp only [Except.ok.injEq] at h
    rw [← h]; exact hs

/-- a completed step on the disk, taken apart -/
theorem dStep_step {z z' : DSys} {k : Nat} {status : Status} {newW : List (List Rat)} {o : PickOutcome}
    {s1 s2 : St} (h : dStep z (.step k status newW o) = .ok z')
    (htp : treatPart z.y k status newW = .ok (s1, s2)) :
    ∃ ls', fmtRows s2.n (newRows s1 s2) = .ok ls' ∧
      z'.d = { lines := z.d.lines ++ ls', img := some (persistD s2) } ∧
      z'.cnt = addCnt z.cnt (idleInc s2.locks) := by
  unfold dStep at h
  split at h
  · exact absurd h (by simp)
  simp only [htp] at h
  unfold treatDisk at h
  split at h
  · exact absurd h (by simp)
  rename_i d' hd
  split at hd
  · exact absurd hd (by simp)
  rename_i ls' hls
  simp only [Except.ok.injEq] at hd h
  subst hd
  rw [← h]
  exact ⟨ls', hls, rfl, rfl⟩

theorem dStep_inv {z z' : DSys} (ev : Ev) (hr : Reach4 z.y) (di : DiskInv z) (h : dStep z ev = .ok z') :
    DiskInv z' ∧ ∀ c, z'.cnt.getD c 0 = z.cnt.getD c 0 + idleAt z.y ev c := by
  have hs := dStep_sys h
  by_cases hst : ∃ k status newW o, ev = .step k status newW o
  · obtain ⟨k, status, newW, o, rfl⟩ := hst
    obtain ⟨job, s2, sf⟩ := step_facts hr hs
    obtain ⟨ls', hls, hd, hcnt⟩ := dStep_step h sf.htp
    obtain ⟨ls, hl1, hl2⟩ := di.lines
    obtain ⟨news, hn1, hn2, _⟩ := sf.rows
    have hlen : z.cnt.length = (idleInc s2.locks).length := by
      rw [length_idleInc, sf.locksLen]; exact di.cntLen
    refine ⟨⟨⟨ls ++ ls', ?_, ?_⟩, ?_, ?_⟩, ?_⟩
    · rw [sf.keep.n, sf.keep.rows, sf.n, hn1]
      rw [hn2, sf.n] at hls
      exact (fmtRows_append _ _ _).mpr ⟨ls, ls', hl1, hls, rfl⟩
    · rw [hd, hl2]; simp
    · intro im him
      rw [hd] at him
      simp only [Option.some.injEq] at him
      subst him
      exact sf.img.congr sf.keep.frac sf.keep.cstep sf.keep.trajNum
    · rw [hcnt, length_addCnt _ _ hlen, di.cntLen, sf.keep.n, sf.n]
    · intro c
      rw [hcnt, getD_addCnt _ _ hlen, sf.idle c]
  · have hne : ∀ k status newW o, ev ≠ .step k status newW o := fun k status newW o he => hst ⟨k, status, newW, o, he⟩
    obtain ⟨q1, q2, q3, q4, q5⟩ := quiet_event hne hs
    have hz : z'.d = z.d ∧ z'.cnt = z.cnt := by
      unfold dStep at h
      split at h
      · exact absurd h (by simp)
      cases ev with
      | start o saved => simp only [Except.ok.injEq] at h; rw [← h]; exact ⟨rfl, rfl⟩
      | initDone => simp only [Except.ok.injEq] at h; rw [← h]; exact ⟨rfl, rfl⟩
      | step k status newW o => exact absurd rfl (hne k status newW o)
    have hidle : ∀ c, idleAt z.y ev c = 0 := by
      intro c
      cases ev with
      | start o saved => rfl
      | initDone => rfl
      | step k status newW o => exact absurd rfl (hne k status newW o)
    refine ⟨⟨?_, ?_, ?_⟩, ?_⟩
    · rw [q2, q3, hz.1]; exact di.lines
    · intro im him
      rw [hz.1] at him
      exact (di.img im him).congr q1 q4 q5
    · rw [hz.2, q3]; exact di.cntLen
    · intro c; rw [hz.2, hidle c]; rfl

/-- **along a history on the disk**: the sampler part is `run`; all invariants are kept; the count of column `c`
    grows by the number of idle recordings of that column -/
theorem dRun_spec : ∀ (evs : List Ev) {z z' : DSys}, Reach4 z.y → DiskInv z → HistOk z.y evs →
    dRun z evs = .ok z' →
    run z.y evs = .ok z'.y ∧ Reach4 z'.y ∧ DiskInv z' ∧
      ∀ c, z'.cnt.getD c 0 = z.cnt.getD c 0 + idleSteps z.y evs c := by
  intro evs
  induction evs with
  | nil =>
    intro z z' hr di _ h
    simp only [dRun, Except.ok.injEq] at h
    subst h
    exact ⟨rfl, hr, di, fun c => by simp [idleSteps]⟩
  | cons ev rest ih =>
    intro z z' hr di hh h
    unfold dRun at h
    split at h
    · exact absurd h (by simp)
    rename_i z1 h1
    have hs := dStep_sys h1
    obtain ⟨di1, hc1⟩ := dStep_inv ev hr di h1
    obtain ⟨a1, a2, a3, a4⟩ := ih (sysStep_reach4 ev hr hh.1 hs) di1 (hh.2 z1.y hs) h
    refine ⟨by unfold run; rw [hs]; exact a1, a2, a3, ?_⟩
    intro c
    rw [a4 c, hc1 c]
    simp only [idleSteps, hs]
    omega

/-! ### the law on the files -/

/-- **what the two files show is what the model's row list and table hold** -/
theorem disk_totals {z : DSys} (hr : Reach4 z.y) (di : DiskInv z) :
    (∀ c, c < z.y.s.n - 1 → lineTotal z.d.lines c = rowsTotal z.y.s.rows c) ∧
    (∀ im, z.d.img = some im → ∀ c, liveTotal im c = colTotal z.y.s.frac c) := by
  obtain ⟨ls, hl1, hl2⟩ := di.lines
  constructor
  · intro c hc
    rw [hl2, lineTotal_append, lineTotal_header, zero_add]
    exact lineTotal_fmtRows _ _ hl1 hr.sup.rows c hc
  · intro im him c
    have io := di.img im him
    exact liveTotal_eq_colTotal im _ hr.hinv.fw.keys io.act io.look c

/-- the rows the data file shows are the rows of the model's list, in order -/
theorem disk_rows {z : DSys} (di : DiskInv z) :
    (dataRows z.d.lines).map (·.1) = z.y.s.rows.map (·.1) := by
  obtain ⟨ls, hl1, hl2⟩ := di.lines
  rw [hl2, dataRows_append, dataRows_header, List.nil_append]
  exact (fmtRows_rows _ _ hl1).1

/-! ### `clean_data_file` on the disk of a reachable state, and on what a stop leaves -/

/-- every line of the data file of a reachable state is a comment line or a complete row of a path that is not
    in the fraction table (so not active in the restart file): `clean_data_file` changes nothing -/
theorem clean_noop {z : DSys} (hr : Reach4 z.y) (di : DiskInv z) (im : Image) (him : z.d.img = some im) :
    cleanLines (activeKeys im) z.d.lines = z.d.lines := by
  obtain ⟨ls, hl1, hl2⟩ := di.lines
  have io := di.img im him
  apply cleanLines_keep_all
  intro l hl
  rw [hl2] at hl
  rcases List.mem_append.mp hl with hl | hl
  · left
    unfold headerLines at hl
    rw [List.eq_of_mem_replicate hl]
  · right
    obtain ⟨i, hi⟩ := List.mem_iff_getElem?.mp hl
    obtain ⟨r, fc, wc, hri, _, rfl⟩ := (fmtRows_rows _ _ hl1).2.2.2 i l hi
    refine ⟨rfl, ?_⟩
    intro k hk
    simp only [Option.some.injEq] at hk
    subst hk
    intro hact
    have hfk : r.1 ∈ z.y.s.frac.map Prod.fst := io.act.mem_iff.mp hact
    exact hr.rinv.rowsFrac r.1 (List.mem_map_of_mem (List.mem_of_getElem? hri)) hfk

/-- **a stop anywhere inside the two weight-relevant effects of a completed step, then the restart's
    `clean_data_file`**: after the `os.replace` the restart finds the disk of the state after the step, untouched;
    before it, it finds the restart file of the state before the step and removes exactly what the step had
    already appended (whole rows: their paths are still active in that file; a torn piece: unterminated) -/
theorem stop_restart {z z' : DSys} {k : Nat} {status : Status} {newW : List (List Rat)} {o : PickOutcome}
    (hr : Reach4 z.y) (di : DiskInv z) (hev : EvOk z.y (.step k status newW o))
    (h : dStep z (.step k status newW o) = .ok z') (p : Stop) :
    ∃ s1 s2 ls', treatPart z.y k status newW = .ok (s1, s2) ∧ fmtRows s2.n (newRows s1 s2) = .ok ls' ∧
      z'.d = { lines := z.d.lines ++ ls', img := some (persistD s2) } ∧
      s2.cstep = z.y.s.cstep + 1 ∧
      (p.renamed = true →
        restartClean (stopDisk z.d ls' (persistD s2) p) = some (z'.d.lines, persistD s2)) ∧
      (p.renamed = false → ∀ im, z.d.img = some im →
        restartClean (stopDisk z.d ls' (persistD s2) p) = some (z.d.lines, im)) := by
  have hs := dStep_sys h
  obtain ⟨job, s2, sf⟩ := step_facts hr hs
  obtain ⟨ls', hls, hd, _⟩ := dStep_step h sf.htp
  have hr' := sysStep_reach4 _ hr hev hs
  obtain ⟨di', _⟩ := dStep_inv _ hr di h
  refine ⟨(loop z.y.s).1, s2, ls', sf.htp, hls, hd, sf.cstep, ?_, ?_⟩
  · intro hren
    unfold stopDisk restartClean
    rw [if_pos hren]
    simp only [Option.map_some]
    have himg : z'.d.img = some (persistD s2) := by rw [hd]
    have := clean_noop hr' di' (persistD s2) himg
    rw [hd] at this ⊢
    simp only at this ⊢
    rw [this]
  · intro hren im him
    unfold stopDisk restartClean
    rw [if_neg (by simp [hren]), him]
    simp only [Option.map_some, Option.some.injEq, Prod.mk.injEq, and_true]
    have io := di.img im him
    obtain ⟨news, _, hn2, hn3⟩ := sf.rows
    rw [cleanLines_append, cleanLines_append, clean_noop hr di im him]
    have h2 : cleanLines (activeKeys im) (ls'.take p.j) = [] := by
      apply cleanLines_drop_all
      intro l hl
      have hl' : l ∈ ls' := List.mem_of_mem_take hl
      obtain ⟨i, hi⟩ := List.mem_iff_getElem?.mp hl'
      obtain ⟨r, fc, wc, hri, _, rfl⟩ := (fmtRows_rows _ _ hls).2.2.2 i l hi
      refine ⟨rfl, r.1, rfl, ?_⟩
      rw [hn2] at hri
      exact io.act.mem_iff.mpr (hn3 r (List.mem_of_getElem? hri))
    rw [h2]
    cases p.torn with
    | none => simp [cleanLines]
    | some k => simp [cleanLines_torn]

/-- the totals the restart finds after such a stop: those of the state after the step resp. before it -/
theorem stop_restart_totals {z z' : DSys} {k : Nat} {status : Status} {newW : List (List Rat)} {o : PickOutcome}
    (hr : Reach4 z.y) (di : DiskInv z) (hev : EvOk z.y (.step k status newW o))
    (h : dStep z (.step k status newW o) = .ok z') (p : Stop)
    (himg : p.renamed = false → ∃ im, z.d.img = some im) :
    ∃ lines im, (∃ ls' s2, restartClean (stopDisk z.d ls' (persistD s2) p) = some (lines, im) ∧
        z'.d = { lines := z.d.lines ++ ls', img := some (persistD s2) }) ∧
      im.cstep = (if p.renamed then z.y.s.cstep + 1 else z.y.s.cstep) ∧
      (∀ c, c < z.y.s.n - 1 → diskTotal lines im c
          = if p.renamed then total z'.y.s c else total z.y.s c) ∧
      ((dataRows lines).map (·.1)).Nodup ∧ (∀ pn ∈ (dataRows lines).map (·.1), pn ∉ activeKeys im) := by
  have hs := dStep_sys h
  have hr' := sysStep_reach4 _ hr hev hs
  obtain ⟨di', _⟩ := dStep_inv _ hr di h
  obtain ⟨s1, s2, ls', _, _, hd, hcs, hA, hB⟩ := stop_restart hr di hev h p
  have hn' : z'.y.s.n = z.y.s.n := by
    obtain ⟨job, s2', sf⟩ := step_facts hr hs
    rw [sf.keep.n, sf.n]
  cases hren : p.renamed with
  | true =>
    have himg' : z'.d.img = some (persistD s2) := by rw [hd]
    have io := di'.img _ himg'
    obtain ⟨t1, t2⟩ := disk_totals hr' di'
    refine ⟨z'.d.lines, persistD s2, ⟨ls', s2, hA hren, hd⟩, ?_, ?_, ?_, ?_⟩
    · simp only [if_true]; exact hcs
    · intro c hc
      simp only [if_true]
      unfold diskTotal total
      rw [t1 c (by rw [hn']; exact hc), t2 _ himg' c]
    · rw [disk_rows di']; exact hr'.rinv.rowsNodup
    · intro pn hpn hact
      rw [disk_rows di'] at hpn
      exact hr'.rinv.rowsFrac pn hpn (io.act.mem_iff.mp hact)
  | false =>
    obtain ⟨im, him⟩ := himg hren
    have io := di.img _ him
    obtain ⟨t1, t2⟩ := disk_totals hr di
    refine ⟨z.d.lines, im, ⟨ls', s2, hB hren im him, hd⟩, ?_, ?_, ?_, ?_⟩
    · simp only [Bool.false_eq_true, if_false]; exact io.cstep
    · intro c hc
      simp only [Bool.false_eq_true, if_false]
      unfold diskTotal total
      rw [t1 c hc, t2 _ him c]
    · rw [disk_rows di]; exact hr.rinv.rowsNodup
    · intro pn hpn hact
      rw [disk_rows di] at hpn
      exact hr.rinv.rowsFrac pn hpn (io.act.mem_iff.mp hact)

end Infretis.Repex.Data
