import Infretis.Lemmas.RepexC04Mid
/-!
# C04 — the law on the files from ANY good disk state: histories, stops and restarts to any depth

`DiskInvG` generalises `DiskInv` (fresh start) to a data file that already holds lines from earlier runs (`pre`)
and makes the law itself part of the invariant: fractions shown by the data file + fraction table = the count.
`Good z` = all sampler invariants (`Reach4`, `JInv`) + `DiskInvG`.  Kept by every event (`dStep_good`); established
again by the restart of what a stop leaves when the restart file records nothing as in flight (`restartSys_good`).
-/
namespace Infretis.Repex.Data
open Infretis.Repex.Frac Infretis.Perm

/-- path numbers of the rows a data file shows -/
def lineKeys (lines : List DLine) : List Nat := (dataRows lines).map (·.1)

theorem lineKeys_append (a b : List DLine) : lineKeys (a ++ b) = lineKeys a ++ lineKeys b := by
  simp [lineKeys, dataRows_append]

/-- lines from earlier runs: comment lines, or complete lines whose path (if any) was numbered before and is not in
    the fraction table -/
def PreOk (y : Sys) (pre : List DLine) : Prop :=
  ∀ l ∈ pre, l.hash = true ∨
    (l.term = true ∧ ∀ k, l.key = some k → k < y.s.trajNum ∧ k ∉ y.s.frac.map Prod.fst)

/-- the restart file on disk, seen from the sampler: it lists the keys of the table as active, its live weights
    are the table's column totals, its counters are the sampler's; and it is the image of a state `sP` that
    satisfies all invariants and records the same weights for the active paths -/
structure ImgG (y : Sys) (im : Image) : Prop where
  act : (activeKeys im).Perm (y.s.frac.map Prod.fst)
  tot : ∀ c, liveTotal im c = colTotal y.s.frac c
  cstep : im.cstep = y.s.cstep
  tn : im.trajNum = y.s.trajNum
  src : ∃ sP jobsP, im = persistD sP ∧ Reach4 ⟨sP, jobsP⟩ ∧ sP.n = y.s.n ∧
    ∀ pn ∈ activeKeys im, sP.wts.lookup pn = y.s.wts.lookup pn

structure DiskInvG (z : DSys) : Prop where
  lines : ∃ pre ls, fmtRows z.y.s.n z.y.s.rows = .ok ls ∧ z.d.lines = pre ++ ls ∧ PreOk z.y pre ∧
    (lineKeys pre ++ z.y.s.rows.map (·.1)).Nodup
  img : ∀ im, z.d.img = some im → ImgG z.y im
  cntLen : z.cnt.length = z.y.s.n
  law : ∀ c, c < z.y.s.n - 1 → lineTotal z.d.lines c + colTotal z.y.s.frac c = (z.cnt.getD c 0 : Rat)

structure Good (z : DSys) : Prop where
  r4 : Reach4 z.y
  j : JInv z.y
  d : DiskInvG z

/-! ### fresh start -/

theorem freshSys_good {y : Sys} (h : DiskStart y) : Good (freshSys y) := by
  refine ⟨h.reach4, h.ri.fi.jinv, ⟨⟨headerLines, [], ?_, by simp [freshSys, freshDisk], ?_, ?_⟩, ?_, by simp [freshSys], ?_⟩⟩
  · show fmtRows y.s.n y.s.rows = .ok []
    rw [h.ri.fi.rows]; rfl
  · intro l hl
    left
    unfold headerLines at hl
    rw [List.eq_of_mem_replicate hl]
  · show (lineKeys headerLines ++ y.s.rows.map (·.1)).Nodup
    rw [h.ri.fi.rows]
    simp [lineKeys, dataRows_header]
  · intro im him
    simp [freshSys, freshDisk] at him
  · intro c _
    show lineTotal headerLines c + colTotal y.s.frac c = ((List.replicate y.s.n 0).getD c 0 : Nat)
    rw [lineTotal_header, getD_replicate_zero_nat]
    have := h.ri.fi.total_zero c
    unfold total at this
    rw [h.ri.fi.rows] at this
    simpa using this

/-! ### the keys of the fraction table after a completed step -/

theorem step_frac_keys {y y' : Sys} {k : Nat} {status : Status} {newW : List (List Rat)} {o : PickOutcome}
    (h : sysStep y (.step k status newW o) = .ok y') :
    ∀ q ∈ y'.s.frac.map Prod.fst, q ∈ y.s.frac.map Prod.fst ∨ y.s.trajNum ≤ q := by
  obtain ⟨job, s2, pns, it, hjob, htreat, _, _, hrest⟩ := treatPart_ok h
  have hk := step_keep (k := k) hrest
  obtain ⟨hld, _⟩ := loop_data y.s
  obtain ⟨sR, tn, s2', s3, s4, hrec, _, hrf, hwr, hsort, rfl⟩ := treatOutput_ok htreat
  unfold recState at hrec
  obtain ⟨_, _, _, _, p5, _, _⟩ := perEns_data status _ hrec
  have hk2 : s2'.frac.map Prod.fst = sR.frac.map Prod.fst := by
    obtain ⟨f, ef, hf⟩ := recordFrac_keys6 hrf
    rw [ef]; exact hf
  obtain ⟨hd4, _⟩ := sortTrajstate_dataEq _ hsort
  have hsub3 : ∀ q ∈ s3.frac.map Prod.fst, q ∈ s2'.frac.map Prod.fst := by
    split at hwr
    · obtain ⟨_, _, _, _, _, _, hfr, _⟩ := Infretis.Repex.writeRows_spec job.pnumOld hwr
      exact hfr
    · simp only [Except.ok.injEq] at hwr
      subst hwr; exact fun q hq => hq
  intro q hq
  rw [hk.frac] at hq
  have hq4 : q ∈ s4.frac.map Prod.fst := hq
  rw [hd4.frac] at hq4
  have hq2 := hsub3 q hq4
  rw [hk2, p5, List.map_append, zeroFracs_keys] at hq2
  rcases List.mem_append.mp hq2 with h1 | h1
  · left; rw [hld.frac] at h1; exact h1
  · right
    have := (List.mem_range'_1.mp h1).1
    rw [hld.trajNum] at this
    exact this

/-! ### events keep the invariant -/

theorem quiet_event' {y y' : Sys} {ev : Ev} (hne : ∀ k status newW o, ev ≠ .step k status newW o)
    (h : sysStep y ev = .ok y') :
    y'.s.frac = y.s.frac ∧ y'.s.rows = y.s.rows ∧ y'.s.n = y.s.n ∧ y'.s.cstep = y.s.cstep ∧
      y'.s.trajNum = y.s.trajNum ∧ y'.s.wts = y.s.wts := by
  cases ev with
  | start o saved =>
    obtain ⟨_, s2, job, ds, hp, rfl⟩ := start_ok h
    obtain ⟨hd, hcs, _⟩ := initiate_data y.s
    obtain ⟨hk, _⟩ := prep_keep hp
    exact ⟨hk.frac.trans hd.frac, hk.rows.trans hd.rows, hk.n.trans hd.n, hk.cstep.trans hcs,
      hk.trajNum.trans hd.trajNum, hk.wts.trans hd.wts⟩
  | initDone =>
    obtain ⟨_, rfl⟩ := initDone_ok h
    obtain ⟨hd, hcs, _⟩ := initiate_data y.s
    exact ⟨hd.frac, hd.rows, hd.n, hcs, hd.trajNum, hd.wts⟩
  | step k status newW o => exact absurd rfl (hne k status newW o)

theorem dStep_good {z z' : DSys} (ev : Ev) (hg : Good z) (hev : EvOk z.y ev) (h : dStep z ev = .ok z') :
    Good z' ∧ ∀ c, z'.cnt.getD c 0 = z.cnt.getD c 0 + idleAt z.y ev c := by
  have hs := dStep_sys h
  have hr := hg.r4
  have hr' := sysStep_reach4 ev hr hev hs
  obtain ⟨_, hj', htot, _⟩ := sysStep_total ev hr.hinv hg.j hs (matchableAt_of_inv5 hr.inv5 hev)
  obtain ⟨pre, ls, hl1, hl2, hpre, hnd⟩ := hg.d.lines
  by_cases hst : ∃ k status newW o, ev = .step k status newW o
  · obtain ⟨k, status, newW, o, rfl⟩ := hst
    obtain ⟨job, s2, sf⟩ := step_facts hr hs
    obtain ⟨job', s2', pns, it, _, _, htp', hmid, hkeep⟩ := mid_reach4 hr hev hs
    have e22 : s2' = s2 := by
      have := sf.htp
      rw [htp'] at this
      simp only [Except.ok.injEq, Prod.mk.injEq] at this
      exact this.2
    subst e22
    obtain ⟨ls', hls, hd, hcnt⟩ := dStep_step h sf.htp
    obtain ⟨news, hn1, hn2, hn3⟩ := sf.rows
    have hlen : z.cnt.length = (idleInc s2'.locks).length := by
      rw [length_idleInc, sf.locksLen]; exact hg.d.cntLen
    have hcnt' : ∀ c, z'.cnt.getD c 0 = z.cnt.getD c 0 + idleAt z.y (.step k status newW o) c := by
      intro c; rw [hcnt, getD_addCnt _ _ hlen, sf.idle c]
    have hrows' : z'.y.s.rows = z.y.s.rows ++ news := by rw [sf.keep.rows, hn1]
    have hn' : z'.y.s.n = z.y.s.n := by rw [sf.keep.n, sf.n]
    have hls' : fmtRows z.y.s.n news = .ok ls' := by rw [← hn2, ← sf.n]; exact hls
    have htn := (sysStep_preserves5 _ hr.inv5 hev hs).2
    refine ⟨⟨hr', hj', ⟨⟨pre, ls ++ ls', ?_, ?_, ?_, ?_⟩, ?_, ?_, ?_⟩⟩, hcnt'⟩
    · rw [hn', hrows']
      exact (fmtRows_append _ _ _).mpr ⟨ls, ls', hl1, hls', rfl⟩
    · rw [hd, hl2]; simp
    · intro l hl
      rcases hpre l hl with h1 | ⟨h1, h2⟩
      · exact Or.inl h1
      · right
        refine ⟨h1, fun q hq => ?_⟩
        obtain ⟨a1, a2⟩ := h2 q hq
        refine ⟨by omega, fun hin => ?_⟩
        rcases step_frac_keys hs q hin with h3 | h3
        · exact a2 h3
        · omega
    · rw [hrows', List.map_append, ← List.append_assoc]
      rw [List.nodup_append]
      refine ⟨hnd, ?_, ?_⟩
      · have := hr'.rinv.rowsNodup
        rw [hrows', List.map_append, List.nodup_append] at this
        exact this.2.1
      · intro a ha b hb hab
        subst hab
        simp only [List.mem_map] at hb
        obtain ⟨r, hrn, rfl⟩ := hb
        have hfk := hn3 r hrn
        rcases List.mem_append.mp ha with ha | ha
        · -- a key of an earlier run is not in the table
          unfold lineKeys at ha
          simp only [List.mem_map] at ha
          obtain ⟨x, hx, hx1⟩ := ha
          unfold dataRows at hx
          rw [List.mem_filterMap] at hx
          obtain ⟨l, hlm, hle⟩ := hx
          split at hle
          · rename_i hcond
            cases hkey : l.key with
            | none => rw [hkey] at hle; simp at hle
            | some q =>
              rw [hkey] at hle
              simp only [Option.map_some, Option.some.injEq] at hle
              subst hle
              simp only at hx1
              subst hx1
              rcases hpre l hlm with h1 | ⟨_, h2⟩
              · simp [h1] at hcond
              · exact (h2 _ hkey).2 hfk
          · exact absurd hle (by simp)
        · exact hr.rinv.rowsFrac r.1 ha hfk
    · intro im him
      rw [hd] at him
      simp only [Option.some.injEq] at him
      subst him
      have io := sf.img
      have hkeys : (s2'.frac.map Prod.fst).Nodup := by rw [← sf.keep.frac]; exact hr'.hinv.fw.keys
      refine ⟨by rw [sf.keep.frac]; exact io.act, ?_, by rw [sf.keep.cstep]; rfl, by rw [sf.keep.trajNum]; rfl,
        ⟨s2', z.y.jobs.eraseIdx k, rfl, hmid, sf.keep.n.symm, fun pn _ => by rw [sf.keep.wts]⟩⟩
      intro c
      rw [sf.keep.frac]
      exact liveTotal_eq_colTotal _ _ hkeys io.act io.look c
    · rw [hcnt, length_addCnt _ _ hlen, hg.d.cntLen, hn']
    · intro c hc
      rw [hn'] at hc
      rw [hd]
      simp only
      have hlaw := hg.d.law c hc
      have hsup : ∀ r ∈ news, RowSup z.y.s.n r.2.1 r.2.2 := by
        intro r hrn
        rw [← hn']
        exact hr'.sup.rows r (by rw [hrows']; exact List.mem_append_right _ hrn)
      rw [lineTotal_append]
      rw [lineTotal_fmtRows news ls' hls' hsup c hc, hcnt' c]
      have ht := htot c
      unfold total at ht
      rw [hrows', rowsTotal_append] at ht
      push_cast
      linarith
  · have hne : ∀ k status newW o, ev ≠ .step k status newW o := fun k status newW o he => hst ⟨k, status, newW, o, he⟩
    obtain ⟨q1, q2, q3, q4, q5, q6⟩ := quiet_event' hne hs
    have hz : z'.d = z.d ∧ z'.cnt = z.cnt := by
      unfold dStep at h
      split at h
      · exact absurd h (by simp)
      cases ev with
      | start o saved => simp only [Except.ok.injEq] at h; rw [← h]; exact ⟨rfl, rfl⟩
      | initDone => simp only [Except.ok.injEq] at h; rw [← h]; exact ⟨rfl, rfl⟩
      | step k status newW o => exact absurd rfl (hne k status newW o)
    have hidle : ∀ c, idleAt z.y ev c = 0 := by
      intro c
      cases ev with
      | start o saved => rfl
      | initDone => rfl
      | step k status newW o => exact absurd rfl (hne k status newW o)
    refine ⟨⟨hr', hj', ⟨⟨pre, ls, by rw [q3, q2]; exact hl1, by rw [hz.1]; exact hl2, ?_, by rw [q2]; exact hnd⟩,
      ?_, by rw [hz.2, q3]; exact hg.d.cntLen, ?_⟩⟩, fun c => by rw [hz.2, hidle c]; rfl⟩
    · intro l hl
      rcases hpre l hl with h1 | ⟨h1, h2⟩
      · exact Or.inl h1
      · exact Or.inr ⟨h1, fun q hq => by rw [q5, q1]; exact h2 q hq⟩
    · intro im him
      rw [hz.1] at him
      have ig := hg.d.img im him
      obtain ⟨sP, jP, e1, e2, e3, e4⟩ := ig.src
      exact ⟨by rw [q1]; exact ig.act, by rw [q1]; exact ig.tot, by rw [q4]; exact ig.cstep,
        by rw [q5]; exact ig.tn, ⟨sP, jP, e1, e2, by rw [q3]; exact e3, fun pn hp => by rw [q6]; exact e4 pn hp⟩⟩
    · intro c hc
      rw [hz.1, hz.2, q1]
      rw [q3] at hc
      exact hg.d.law c hc

theorem dRun_good : ∀ (evs : List Ev) {z z' : DSys}, Good z → HistOk z.y evs → dRun z evs = .ok z' →
    Good z' ∧ run z.y evs = .ok z'.y ∧ ∀ c, z'.cnt.getD c 0 = z.cnt.getD c 0 + idleSteps z.y evs c := by
  intro evs
  induction evs with
  | nil =>
    intro z z' hg _ h
    simp only [dRun, Except.ok.injEq] at h
    subst h
    exact ⟨hg, rfl, fun c => by simp [idleSteps]⟩
  | cons ev rest ih =>
    intro z z' hg hh h
    unfold dRun at h
    split at h
    · exact absurd h (by simp)
    rename_i z1 h1
    have hs := dStep_sys h1
    obtain ⟨g1, c1⟩ := dStep_good ev hg hh.1 h1
    obtain ⟨g2, r2, c2⟩ := ih g1 (hh.2 z1.y hs) h
    refine ⟨g2, by unfold run; rw [hs]; exact r2, fun c => ?_⟩
    rw [c2 c, c1 c]
    simp only [idleSteps, hs]
    omega

end Infretis.Repex.Data
