import Infretis.Lemmas.RepexC04Resume
/-!
# C04 — the end-of-run `write_toml` (`loop()` when the step target is reached) and "rewrite only if changed"

`finishDisk d s` replaces the restart file by the image of the CURRENT sampler state when `cstep ≥ tsteps`
(otherwise `loop()` writes nothing).  For a good disk state the result is a good disk state again: the image of
the current state lists the table's keys as active and carries the table's vectors, so all the facts of
`good_disk_facts` (law on the two files, no row of an active path) hold for the file a user continues from.
`cleanRewrites`: `clean_data_file` rewrites the data file iff it drops a line; on the disk of a good state it
drops none.
-/
namespace Infretis.Repex.Data
open Infretis.Repex.Frac Infretis.Perm

theorem finishDisk_lines (d : Disk) (s : St) : (finishDisk d s).lines = d.lines := by
  unfold finishDisk; split <;> rfl

theorem finishDisk_img_of_done (d : Disk) (s : St) (h : s.cstep ≥ s.tsteps) :
    (finishDisk d s).img = some (persistD s) := by
  unfold finishDisk; rw [if_pos h]

theorem finishDisk_of_not_done (d : Disk) (s : St) (h : ¬ s.cstep ≥ s.tsteps) : finishDisk d s = d := by
  unfold finishDisk; rw [if_neg h]

/-- the image of the current state of a `Reach4` system, as `ImgG` wants it -/
theorem imgG_persistD {y : Sys} (hr : Reach4 y) : ImgG y (persistD y.s) := by
  have io := imgOk_persistD hr.hinv.inv.core.toR hr.tidy.tidy hr.hinv.fw.keys hr.rinv.liveNodup
  exact ⟨io.act, fun c => liveTotal_eq_colTotal _ _ hr.hinv.fw.keys io.act io.look c, io.cstep, io.tn,
    ⟨y.s, y.jobs, rfl, hr, rfl, fun _ _ => rfl⟩⟩

/-- **the end-of-run `write_toml` keeps a good disk state good** -/
theorem finish_good {z : DSys} (hg : Good z) : Good { z with d := finishDisk z.d z.y.s } := by
  refine ⟨hg.r4, hg.j, ⟨?_, ?_, hg.d.cntLen, ?_⟩⟩
  · show ∃ pre ls, fmtRows z.y.s.n z.y.s.rows = .ok ls ∧ (finishDisk z.d z.y.s).lines = pre ++ ls ∧ _
    rw [finishDisk_lines]
    exact hg.d.lines
  · intro im him
    show ImgG z.y im
    by_cases hd : z.y.s.cstep ≥ z.y.s.tsteps
    · have : (finishDisk z.d z.y.s).img = some im := him
      rw [finishDisk_img_of_done _ _ hd] at this
      simp only [Option.some.injEq] at this
      subst this
      exact imgG_persistD hg.r4
    · have : (finishDisk z.d z.y.s).img = some im := him
      rw [finishDisk_of_not_done _ _ hd] at this
      exact hg.d.img im this
  · intro c hc
    show lineTotal (finishDisk z.d z.y.s).lines c + _ = _
    rw [finishDisk_lines]
    exact hg.d.law c hc

theorem cleanRewrites_iff (active : List Nat) (lines : List DLine) :
    cleanRewrites active lines = true ↔ cleanLines active lines ≠ lines := by
  unfold cleanRewrites
  simp

theorem cleanRewrites_false_iff (active : List Nat) (lines : List DLine) :
    cleanRewrites active lines = false ↔ cleanLines active lines = lines := by
  unfold cleanRewrites
  simp

end Infretis.Repex.Data
