import Infretis.Lemmas.RepexC04Treat
/-!
# C04 — what `pick`, `pick_lock`, `prep_md_items`, `initiate`, `loop` leave alone

`Keep s s'`: the fraction table, the weights table, the data file, `n`, the path counter, the step
counters and the worker count are the same.  Plus the decomposition of the three scheduler events.
-/
namespace Infretis.Repex.Frac
open Infretis.Perm

structure Keep (s s' : St) : Prop where
  frac : s'.frac = s.frac
  wts : s'.wts = s.wts
  rows : s'.rows = s.rows
  n : s'.n = s.n
  trajNum : s'.trajNum = s.trajNum
  cstep : s'.cstep = s.cstep
  tsteps : s'.tsteps = s.tsteps
  workers : s'.workers = s.workers
  toinitiate : s'.toinitiate = s.toinitiate
  trajsPerm : s'.trajs.Perm s.trajs

theorem Keep.refl (s : St) : Keep s s := ⟨rfl, rfl, rfl, rfl, rfl, rfl, rfl, rfl, rfl, List.Perm.refl _⟩

theorem Keep.trans {a b c : St} (h1 : Keep a b) (h2 : Keep b c) : Keep a c :=
  ⟨h2.frac.trans h1.frac, h2.wts.trans h1.wts, h2.rows.trans h1.rows, h2.n.trans h1.n,
   h2.trajNum.trans h1.trajNum, h2.cstep.trans h1.cstep, h2.tsteps.trans h1.tsteps,
   h2.workers.trans h1.workers, h2.toinitiate.trans h1.toinitiate, h2.trajsPerm.trans h1.trajsPerm⟩

theorem swapList_perm {α : Type} (l : List α) (i j : Nat) : (swapList l i j).Perm l := by
  unfold swapList
  split
  · rename_i a b hi hj
    have hil : i < l.length := by
      rcases Nat.lt_or_ge i l.length with h | h
      · exact h
      · rw [List.getElem?_eq_none h] at hi; exact absurd hi (by simp)
    have hjl : j < l.length := by
      rcases Nat.lt_or_ge j l.length with h | h
      · exact h
      · rw [List.getElem?_eq_none h] at hj; exact absurd hj (by simp)
    rw [List.getElem?_eq_getElem hil, Option.some.injEq] at hi
    rw [List.getElem?_eq_getElem hjl, Option.some.injEq] at hj
    rw [← hi, ← hj]
    exact List.set_set_perm hil hjl
  · exact List.Perm.refl _

theorem keep_swap (s : St) (a b : Nat) : Keep s (swap s a b) :=
  ⟨rfl, rfl, rfl, rfl, rfl, rfl, rfl, rfl, rfl, swapList_perm _ _ _⟩

theorem keep_lock {s s' : St} {e : Nat} (h : lock s e = .ok s') : Keep s s' := by
  unfold lock at h
  split at h
  · simp only [Except.ok.injEq] at h; subst h; exact ⟨rfl, rfl, rfl, rfl, rfl, rfl, rfl, rfl, rfl, List.Perm.refl _⟩
  · exact absurd h (by simp)
  · exact absurd h (by simp)

theorem pickCore_keep {s s' : St} {o : PickOutcome} {pairs : List (Int × Option Nat)}
    {ds : List Draw} (h : pickCore s o = .ok (s', pairs, ds)) : Keep s s' := by
  unfold pickCore at h
  simp only [] at h
  split at h
  · exact absurd h (by simp)
  split at h
  · exact absurd h (by simp)
  rename_i s2 hl2
  have k2 : Keep s s2 := (keep_swap s o.t o.e).trans (keep_lock hl2)
  split at h
  · by_cases he1 : (o.e == off) = true
    · simp only [he1, ↓reduceIte] at h
      split at h
      · exact absurd h (by simp)
      split at h
      · exact absurd h (by simp)
      rename_i s4 hl4
      simp only [Except.ok.injEq, Prod.mk.injEq] at h
      obtain ⟨rfl, _, _⟩ := h
      exact k2.trans ((keep_swap s2 _ _).trans (keep_lock hl4))
    · have he1f : (o.e == off) = false := by simpa using he1
      simp only [he1f, Bool.false_eq_true, ↓reduceIte] at h
      split at h
      · exact absurd h (by simp)
      split at h
      · exact absurd h (by simp)
      rename_i s4 hl4
      simp only [Except.ok.injEq, Prod.mk.injEq] at h
      obtain ⟨rfl, _, _⟩ := h
      exact k2.trans ((keep_swap s2 _ _).trans (keep_lock hl4))
  · simp only [Except.ok.injEq, Prod.mk.injEq] at h
    obtain ⟨rfl, _, _⟩ := h
    exact k2

theorem pick_keep {s s' : St} {o : PickOutcome} {ps : List Picked} {ds : List Draw}
    (h : pick s o = .ok (s', ps, ds)) : Keep s s' := by
  unfold pick at h
  split at h
  · exact absurd h (by simp)
  rename_i s1 pairs ds1 hc
  split at h
  · exact absurd h (by simp)
  simp only [Except.ok.injEq, Prod.mk.injEq] at h
  obtain ⟨rfl, _, _⟩ := h
  exact (pickCore_keep hc).trans ⟨rfl, rfl, rfl, rfl, rfl, rfl, rfl, rfl, rfl, List.Perm.refl _⟩

theorem reissueGo_keep : ∀ (l : List (Nat × Nat)) {s s' : St} {ps : List (Int × Option Nat)},
    reissue.go s l = .ok (s', ps) → Keep s s' := by
  intro l
  induction l with
  | nil =>
    intro s s' ps h
    simp only [reissue.go, Except.ok.injEq, Prod.mk.injEq] at h
    obtain ⟨rfl, _⟩ := h
    exact Keep.refl _
  | cons et rest ih =>
    intro s s' ps h
    obtain ⟨e, tr⟩ := et
    unfold reissue.go at h
    split at h
    · exact absurd h (by simp)
    rename_i ti _
    simp only [] at h
    split at h
    · exact absurd h (by simp)
    rename_i s2 hl
    split at h
    · exact absurd h (by simp)
    rename_i s3 ps3 hrec
    simp only [Except.ok.injEq, Prod.mk.injEq] at h
    obtain ⟨rfl, _⟩ := h
    exact ((keep_swap s ti e).trans (keep_lock hl)).trans (ih hrec)

theorem restoreStreamOnce_keep (s : St) (d : Nat) : Keep s (restoreStreamOnce s d) := by
  unfold restoreStreamOnce
  split <;> exact ⟨rfl, rfl, rfl, rfl, rfl, rfl, rfl, rfl, rfl, List.Perm.refl _⟩

theorem pickLock_keep {s s' : St} {o : PickOutcome} {saved : Nat} {ps : List Picked} {ds : List Draw}
    (h : pickLock s o saved = .ok (s', ps, ds)) : Keep s s' := by
  unfold pickLock at h
  split at h
  · exact (restoreStreamOnce_keep s saved).trans (pick_keep h)
  · rename_i enss0 trajs0 rest _
    split at h
    · exact absurd h (by simp)
    rename_i s1 pairs hre
    split at h
    · exact absurd h (by simp)
    simp only [Except.ok.injEq, Prod.mk.injEq] at h
    obtain ⟨rfl, _, _⟩ := h
    unfold reissue at hre
    have k1 := reissueGo_keep _ hre
    unfold reissued
    exact ⟨k1.frac, k1.wts, k1.rows, k1.n, k1.trajNum, k1.cstep, k1.tsteps, k1.workers, k1.toinitiate, k1.trajsPerm⟩

/-- **`prep_md_items`** leaves tables, data file and counters alone, and lists the path numbers it
    handed out as `pnum_old`. -/
theorem prep_keep {s s' : St} {prev : Option Nat} {o : PickOutcome} {saved : Nat} {job : Job}
    {ds : List Draw} (h : prep s prev o saved = .ok (s', job, ds)) :
    Keep s s' ∧ job.pnumOld = job.picked.map (·.pn) := by
  unfold prep at h
  simp only [] at h
  split at h
  · exact absurd h (by simp)
  rename_i s1 ps ds1 hr
  have k1 : Keep s s1 := by
    split at hr
    · exact pickLock_keep hr
    · exact pick_keep hr
  split at h
  · exact absurd h (by simp)
  split at h
  · exact absurd h (by simp)
  rename_i occ' idx _
  split at h
  · exact absurd h (by simp)
  simp only [Except.ok.injEq, Prod.mk.injEq] at h
  obtain ⟨rfl, rfl, _⟩ := h
  exact ⟨k1.trans ⟨rfl, rfl, rfl, rfl, rfl, rfl, rfl, rfl, rfl, List.Perm.refl _⟩, rfl⟩

/-! ### counters -/

/-- `initiate()` touches only `cworker` and `toinitiate` -/
theorem initiate_data (s : St) : DataEq s (initiate s).1 ∧ (initiate s).1.cstep = s.cstep ∧
    (initiate s).1.workers = s.workers ∧ (initiate s).1.tsteps = s.tsteps := by
  unfold initiate
  split
  · exact ⟨DataEq.refl _, rfl, rfl, rfl⟩
  · exact ⟨⟨rfl, rfl, rfl, rfl, rfl⟩, rfl, rfl, rfl⟩

/-- `initiate()`: when it answers `True` exactly one more worker is initiated -/
theorem initiate_toinit (s : St) :
    ((initiate s).2 = true → (initiate s).1.toinitiate = s.toinitiate - 1 ∧ 0 ≤ (initiate s).1.toinitiate) ∧
    (0 ≤ (initiate s).1.toinitiate → (initiate s).1.toinitiate ≤ s.toinitiate) := by
  unfold initiate
  split
  · simp
  · simp only []
    split
    · simp
    · refine ⟨fun h => ⟨rfl, ?_⟩, fun _ => ?_⟩
      · simpa using h
      · omega

/-- `loop()` touches only `cstep`, which it advances by one when it answers `True` -/
theorem loop_data (s : St) : DataEq s (loop s).1 ∧ (loop s).1.workers = s.workers ∧
    (loop s).1.toinitiate = s.toinitiate ∧ (loop s).1.tsteps = s.tsteps ∧
    ((loop s).2 = true → (loop s).1.cstep = s.cstep + 1) := by
  unfold loop
  split
  · exact ⟨DataEq.refl _, rfl, rfl, rfl, by simp⟩
  · exact ⟨⟨rfl, rfl, rfl, rfl, rfl⟩, rfl, rfl, rfl, fun _ => rfl⟩

/-! ### the three scheduler events, taken apart -/

theorem start_ok {y y' : Sys} {o : PickOutcome} {saved : Nat}
    (h : sysStep y (.start o saved) = .ok y') :
    (initiate y.s).2 = true ∧ ∃ s2 job ds, prep (initiate y.s).1 none o saved = .ok (s2, job, ds) ∧
      y' = { s := s2, jobs := y.jobs ++ [job] } := by
  unfold sysStep at h
  generalize initiate y.s = r at h ⊢
  obtain ⟨s1, go⟩ := r
  simp only [] at h ⊢
  split at h
  · exact absurd h (by simp)
  rename_i hgo
  split at h
  · exact absurd h (by simp)
  rename_i s2 job ds hp
  simp only [Except.ok.injEq] at h
  exact ⟨by simpa using hgo, s2, job, ds, hp, h.symm⟩

theorem initDone_ok {y y' : Sys} (h : sysStep y .initDone = .ok y') :
    (initiate y.s).2 = false ∧ y' = { y with s := (initiate y.s).1 } := by
  unfold sysStep at h
  generalize initiate y.s = r at h ⊢
  obtain ⟨s1, go⟩ := r
  simp only [] at h ⊢
  split at h
  · exact absurd h (by simp)
  rename_i hgo
  simp only [Except.ok.injEq] at h
  exact ⟨by simpa using hgo, h.symm⟩

theorem step_ok {y y' : Sys} {k : Nat} {status : Status} {newW : List (List Rat)} {o : PickOutcome}
    (h : sysStep y (.step k status newW o) = .ok y') :
    (loop y.s).2 = true ∧ ∃ job s2 pns it, y.jobs[k]? = some job ∧
      treatOutput (loop y.s).1 job status newW (sortFuel (loop y.s).1) = .ok (s2, pns, it) ∧
      ((∃ s3 job' ds, prep s2 (some job.pin) o = .ok (s3, job', ds) ∧
          y' = { s := s3, jobs := y.jobs.eraseIdx k ++ [job'] }) ∨
       y' = { s := s2, jobs := y.jobs.eraseIdx k }) := by
  unfold sysStep at h
  generalize loop y.s = r at h ⊢
  obtain ⟨s1, go⟩ := r
  simp only [] at h ⊢
  split at h
  · exact absurd h (by simp)
  rename_i hgo
  split at h
  · exact absurd h (by simp)
  rename_i job hjob
  split at h
  · exact absurd h (by simp)
  rename_i s2 pns it htreat
  refine ⟨by simpa using hgo, job, s2, pns, it, hjob, htreat, ?_⟩
  split at h
  · split at h
    · exact absurd h (by simp)
    rename_i s3 job' ds hp
    simp only [Except.ok.injEq] at h
    exact Or.inl ⟨s3, job', ds, hp, h.symm⟩
  · simp only [Except.ok.injEq] at h
    exact Or.inr h.symm

end Infretis.Repex.Frac
