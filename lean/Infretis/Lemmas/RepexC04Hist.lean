import Infretis.Lemmas.RepexC03Load
import Infretis.Lemmas.RepexC04Frame
import Infretis.Lemmas.RepexC04Check
/-!
# C04 — conservation over whole histories of the scheduler

Uses C03's scheduler invariant `Inv` (`Core` for the jobs in flight) for the slot/lock facts at
every recording, and the table invariant `FracWF` of this package.
-/
namespace Infretis.Repex.Frac
open Infretis.Perm

theorem slotWF_of_core {s : St} {H : List (Nat × Nat)} {tn : Nat} (h : Core s H tn) : SlotWF s :=
  ⟨h.lenW, h.lenT, h.lenL, h.ghost,
   fun i hi _ => by obtain ⟨pn, h1, _⟩ := h.live i hi; exact ⟨pn, h1⟩, h.inj⟩

/-- `total(rows) + total(frac)` of column `c` -/
def total (s : St) (c : Nat) : Rat := rowsTotal s.rows c + colTotal s.frac c

theorem total_congr {s s' : St} (hf : s'.frac = s.frac) (hr : s'.rows = s.rows) (c : Nat) :
    total s' c = total s c := by
  unfold total; rw [hf, hr]

theorem FracWF.congr {s s' : St} (fw : FracWF s) (hf : s'.frac = s.frac) (hn : s'.n = s.n)
    (ht : s'.trajNum = s.trajNum) : FracWF s' := by
  constructor
  · rw [hf]; exact fw.keys
  · rw [hf, hn]; exact fw.flen
  · rw [hf, ht]; exact fw.bound

/-! ### counting the idle recordings along a history -/

/-- 1 if event `ev`, applied in `y`, is a completed step at whose recording column `c` is idle -/
def idleAt (y : Sys) (ev : Ev) (c : Nat) : Nat :=
  match ev with
  | .step k status newW _ =>
    match y.jobs[k]? with
    | some job =>
      match recState (loop y.s).1 job status newW with
      | .ok (s1, _, _) => if s1.locks[c]? = some false then 1 else 0
      | .error _ => 0
    | none => 0
  | _ => 0

/-- the recording state of event `ev` (if it is a completed step) is matchable -/
def matchableAt (y : Sys) (ev : Ev) : Prop :=
  match ev with
  | .step k status newW _ =>
    ∀ job s1 tn pns, y.jobs[k]? = some job →
      recState (loop y.s).1 job status newW = .ok (s1, tn, pns) → Matchable s1
  | _ => True

/-- **number of completed steps of the history at whose recording column `c` was idle**
    (recursion alongside `run`) -/
def idleSteps : Sys → List Ev → Nat → Nat
  | _, [], _ => 0
  | y, ev :: rest, c =>
    match sysStep y ev with
    | .ok y' => idleAt y ev c + idleSteps y' rest c
    | .error _ => 0

/-- every recording of the history happens in a matchable state -/
def MatchableAlong : Sys → List Ev → Prop
  | _, [] => True
  | y, ev :: rest =>
    matchableAt y ev ∧
    match sysStep y ev with
    | .ok y' => MatchableAlong y' rest
    | .error _ => True

/-- number of `.step` events -/
def stepCount : List Ev → Nat
  | [] => 0
  | .step _ _ _ _ :: rest => stepCount rest + 1
  | _ :: rest => stepCount rest

/-! ### the invariant -/

structure HInv (y : Sys) : Prop where
  inv : Inv y
  fw : FracWF y.s

/-- what a completed step does, with the slot invariant of C03 plugged into
    `treatOutput_total` -/
theorem step_total {y y' : Sys} {k : Nat} {status : Status} {newW : List (List Rat)} {o : PickOutcome}
    (hi : HInv y) (h : sysStep y (.step k status newW o) = .ok y') :
    FracWF y'.s ∧ (matchableAt y (.step k status newW o) →
      ∀ c, total y'.s c = total y.s c + idleAt y (.step k status newW o) c) ∧
    y'.s.cstep = y.s.cstep + 1 ∧ y'.s.n = y.s.n ∧ y'.s.workers = y.s.workers ∧
    y'.s.toinitiate = y.s.toinitiate ∧ y'.jobs.length ≤ y.jobs.length ∧
    (y.jobs.length ≤ 1 → ∀ c, c < y.s.n - 1 → idleAt y (.step k status newW o) c = 1) := by
  obtain ⟨hgo, job, s2, pns, it, hjob, htreat, hrest⟩ := step_ok h
  obtain ⟨hld, hlw, hlt, _, hlc⟩ := loop_data y.s
  obtain ⟨hle, hltn, _, _, _⟩ := loop_coreEq y.s
  have hlc := hlc hgo
  -- C03: the slot invariant before and at the recording
  have hperm := held_perm_erase y.jobs k job hjob
  have hc1 : Core (loop y.s).1 (heldJob job ++ held (y.jobs.eraseIdx k)) (loop y.s).1.trajNum := by
    rw [hltn]
    exact (hi.inv.core.congr hle).perm hperm
  obtain ⟨_, _, hto2, hwo2, _, _, _, hcs2, _⟩ := treatOutput_core job status newW _ pns it hc1 htreat
  have fw1 : FracWF (loop y.s).1 := hi.fw.congr hld.frac hld.n hld.trajNum
  obtain ⟨sR, tn, hrec, _, hlk, hn2, _, _, hmain⟩ := treatOutput_total fw1 htreat
  have hzl : (jobWs job status newW).length = job.picked.length := by
    obtain ⟨_, _, _, _, _, _, hl, _⟩ := treatOutput_ok htreat
    exact hl
  have hcR : Core sR (held (y.jobs.eraseIdx k)) tn := by
    have hfst : (job.picked.zip (jobWs job status newW)).map Prod.fst = job.picked :=
      List.map_fst_zip (by omega)
    have h0 : Core (loop y.s).1 (heldPicked ((job.picked.zip (jobWs job status newW)).map Prod.fst)
        ++ held (y.jobs.eraseIdx k)) (loop y.s).1.trajNum := by
      rw [hfst]; exact hc1
    exact (perEns_core status _ h0 hrec).1
  obtain ⟨fw2, htot⟩ := hmain (slotWF_of_core hcR)
  have hidle : ∀ c, idleAt y (.step k status newW o) c = if s2.locks[c]? = some false then 1 else 0 := by
    intro c
    simp only [idleAt, hjob, hrec, hlk]
  have htot2 : matchableAt y (.step k status newW o) →
      ∀ c, total s2 c = total y.s c + idleAt y (.step k status newW o) c := by
    intro hm c
    rw [hidle c]
    unfold total
    rw [htot (hm job sR tn pns hjob hrec) c, hld.frac, hld.rows]
    split <;> simp
  have hlen : (y.jobs.eraseIdx k).length + 1 = y.jobs.length := by
    have hk : k < y.jobs.length := by
      rcases Nat.lt_or_ge k y.jobs.length with h' | h'
      · exact h'
      · rw [List.getElem?_eq_none h'] at hjob; exact absurd hjob (by simp)
    rw [List.length_eraseIdx, if_pos hk]; omega
  have hone : y.jobs.length ≤ 1 → ∀ c, c < y.s.n - 1 → idleAt y (.step k status newW o) c = 1 := by
    intro h1 c hc
    rw [hidle c, hlk]
    have hnil : y.jobs.eraseIdx k = [] := List.eq_nil_of_length_eq_zero (by omega)
    rw [hnil] at hcR
    have hnR : sR.n = y.s.n := by
      have := hcR.lenL
      rw [← hlk, (slotWF_of_core (treatOutput_core job status newW _ pns it hc1 htreat).1).lenL, hn2,
        hld.n] at this
      exact this.symm
    have hcn : c < sR.n - 1 := by rw [hnR]; exact hc
    have hnb : sR.locks[c]? ≠ some true := by
      intro hb
      have := (hcR.busy c hcn).mp hb
      simp [held] at this
    rw [if_pos (unlocked_of_not_locked sR.locks c (by rw [hcR.lenL]; omega) hnb)]
  rcases hrest with ⟨s3, job', ds, hp, rfl⟩ | rfl
  · obtain ⟨kp, _⟩ := prep_keep hp
    refine ⟨fw2.congr kp.frac kp.n kp.trajNum, ?_, ?_, ?_, ?_, ?_, ?_, hone⟩
    · intro hm c; rw [total_congr kp.frac kp.rows c, htot2 hm c]
    · show s3.cstep = _; rw [kp.cstep, hcs2, hlc]
    · show s3.n = _; rw [kp.n, hn2, hld.n]
    · show s3.workers = _; rw [kp.workers, hwo2, hlw]
    · show s3.toinitiate = _; rw [kp.toinitiate, hto2, hlt]
    · simp only [List.length_append, List.length_cons, List.length_nil]; omega
  · refine ⟨fw2, htot2, ?_, ?_, ?_, ?_, ?_, hone⟩
    · show s2.cstep = _; rw [hcs2, hlc]
    · show s2.n = _; rw [hn2, hld.n]
    · show s2.workers = _; rw [hwo2, hlw]
    · show s2.toinitiate = _; rw [hto2, hlt]
    · show (y.jobs.eraseIdx k).length ≤ _; omega

theorem start_total {y y' : Sys} {o : PickOutcome} {saved : Nat} (hi : HInv y)
    (h : sysStep y (.start o saved) = .ok y') :
    FracWF y'.s ∧ (∀ c, total y'.s c = total y.s c) ∧ y'.s.cstep = y.s.cstep ∧ y'.s.n = y.s.n ∧
    y'.s.workers = y.s.workers ∧ y'.s.toinitiate = y.s.toinitiate - 1 ∧ 0 ≤ y'.s.toinitiate ∧
    y'.jobs.length = y.jobs.length + 1 := by
  obtain ⟨hgo, s2, job, ds, hp, rfl⟩ := start_ok h
  obtain ⟨hd, hc, hw, _⟩ := initiate_data y.s
  obtain ⟨ht, _⟩ := initiate_toinit y.s
  obtain ⟨ht1, ht2⟩ := ht hgo
  obtain ⟨kp, _⟩ := prep_keep hp
  refine ⟨(hi.fw.congr hd.frac hd.n hd.trajNum).congr kp.frac kp.n kp.trajNum, ?_, ?_, ?_, ?_, ?_, ?_, ?_⟩
  · intro c; rw [total_congr kp.frac kp.rows c, total_congr hd.frac hd.rows c]
  · show s2.cstep = _; rw [kp.cstep, hc]
  · show s2.n = _; rw [kp.n, hd.n]
  · show s2.workers = _; rw [kp.workers, hw]
  · show s2.toinitiate = _; rw [kp.toinitiate, ht1]
  · show 0 ≤ s2.toinitiate; rw [kp.toinitiate]; exact ht2
  · simp

theorem initDone_total {y y' : Sys} (hi : HInv y) (h : sysStep y .initDone = .ok y') :
    FracWF y'.s ∧ (∀ c, total y'.s c = total y.s c) ∧ y'.s.cstep = y.s.cstep ∧ y'.s.n = y.s.n ∧
    y'.s.workers = y.s.workers ∧ (0 ≤ y'.s.toinitiate → y'.s.toinitiate ≤ y.s.toinitiate) ∧
    y'.jobs = y.jobs := by
  obtain ⟨_, rfl⟩ := initDone_ok h
  obtain ⟨hd, hc, hw, _⟩ := initiate_data y.s
  obtain ⟨_, ht⟩ := initiate_toinit y.s
  exact ⟨hi.fw.congr hd.frac hd.n hd.trajNum, fun c => total_congr hd.frac hd.rows c, hc, hd.n, hw, ht, rfl⟩

/-- no more jobs in flight than workers (with the bookkeeping of `initiate`) -/
structure JInv (y : Sys) : Prop where
  le : (y.jobs.length : Int) ≤ (y.s.workers : Int)
  init : 0 ≤ y.s.toinitiate → (y.jobs.length : Int) + y.s.toinitiate ≤ (y.s.workers : Int)

/-- **one scheduler event**: invariants, the total of every column grows by `idleAt`, and with one
    worker so does the step counter for every ensemble column -/
theorem sysStep_total {y y' : Sys} (ev : Ev) (hi : HInv y) (hj : JInv y)
    (h : sysStep y ev = .ok y') (hm : matchableAt y ev) :
    HInv y' ∧ JInv y' ∧ (∀ c, total y'.s c = total y.s c + idleAt y ev c) ∧
    y'.s.n = y.s.n ∧ y'.s.workers = y.s.workers ∧
    (y.s.workers = 1 → ∀ c, c < y.s.n - 1 → y'.s.cstep = y.s.cstep + idleAt y ev c) := by
  have hinv' : Inv y' := sysStep_preserves ev hi.inv h
  cases ev with
  | start o saved =>
    obtain ⟨fw, ht, hc, hn, hw, hto, hto0, hl⟩ := start_total hi h
    refine ⟨⟨hinv', fw⟩, ⟨?_, ?_⟩, ?_, hn, hw, ?_⟩
    · have := hj.init (by omega); rw [hl, hw]; push_cast; omega
    · intro _; have := hj.init (by omega); rw [hl, hw, hto]; push_cast; omega
    · intro c; rw [ht c]; simp [idleAt]
    · intro _ c _; rw [hc]; simp [idleAt]
  | initDone =>
    obtain ⟨fw, ht, hc, hn, hw, hto, hl⟩ := initDone_total hi h
    refine ⟨⟨hinv', fw⟩, ⟨?_, ?_⟩, ?_, hn, hw, ?_⟩
    · rw [hl, hw]; exact hj.le
    · intro h0
      have h1 := hto h0
      have := hj.init (by omega)
      rw [hl, hw]; omega
    · intro c; rw [ht c]; simp [idleAt]
    · intro _ c _; rw [hc]; simp [idleAt]
  | step k status newW o =>
    obtain ⟨fw, ht, hc, hn, hw, hto, hl, hone⟩ := step_total hi h
    refine ⟨⟨hinv', fw⟩, ⟨?_, ?_⟩, ht hm, hn, hw, ?_⟩
    · rw [hw]; have := hj.le; omega
    · intro h0; rw [hw, hto]; rw [hto] at h0; have := hj.init h0; omega
    · intro hw1 c hcn
      have : y.jobs.length ≤ 1 := by have := hj.le; rw [hw1] at this; omega
      rw [hc, hone this c hcn]

/-- **conservation over a history, from any invariant state** -/
theorem run_total : ∀ (evs : List Ev) {y0 y : Sys}, HInv y0 → JInv y0 → run y0 evs = .ok y →
    MatchableAlong y0 evs →
    HInv y ∧ JInv y ∧ (∀ c, total y.s c = total y0.s c + idleSteps y0 evs c) ∧ y.s.n = y0.s.n ∧
    y.s.workers = y0.s.workers ∧
    (y0.s.workers = 1 → ∀ c, c < y0.s.n - 1 → y.s.cstep = y0.s.cstep + idleSteps y0 evs c) := by
  intro evs
  induction evs with
  | nil =>
    intro y0 y hi hj h _
    simp only [run, Except.ok.injEq] at h
    subst h
    exact ⟨hi, hj, fun c => by simp [idleSteps], rfl, rfl, fun _ c _ => by simp [idleSteps]⟩
  | cons ev rest ih =>
    intro y0 y hi hj h hm
    unfold run at h
    unfold MatchableAlong at hm
    obtain ⟨hm1, hm2⟩ := hm
    split at h
    · exact absurd h (by simp)
    rename_i y1 hstep
    rw [hstep] at hm2
    simp only [] at hm2
    obtain ⟨hi1, hj1, ht1, hn1, hw1, hc1⟩ := sysStep_total ev hi hj hstep hm1
    obtain ⟨hi2, hj2, ht2, hn2, hw2, hc2⟩ := ih hi1 hj1 h hm2
    refine ⟨hi2, hj2, ?_, hn2.trans hn1, hw2.trans hw1, ?_⟩
    · intro c
      rw [ht2 c, ht1 c]
      simp only [idleSteps, hstep]
      push_cast
      ring
    · intro hw c hc
      rw [hc2 (hw1.trans hw) c (by rw [hn1]; exact hc), hc1 hw c hc]
      simp only [idleSteps, hstep]
      omega

/-! ### fresh starts -/

/-- a fresh start for the weight accounting: an `Init` state of C03 whose table is well formed and
    all zero, with an empty data file -/
structure FracInit (y : Sys) : Prop where
  init : Init y
  fw : FracWF y.s
  zero : ∀ kv ∈ y.s.frac, ∀ x ∈ kv.2, x = 0
  rows : y.s.rows = []

theorem getD_of_all_zero (v : List Rat) (h : ∀ x ∈ v, x = 0) (c : Nat) : v.getD c 0 = 0 := by
  rw [List.getD_eq_getElem?_getD]
  cases hc : v[c]? with
  | none => rfl
  | some x => exact h x (List.mem_of_getElem? hc)

theorem colTotal_of_all_zero (l : List (Nat × List Rat)) (h : ∀ kv ∈ l, ∀ x ∈ kv.2, x = 0) (c : Nat) :
    colTotal l c = 0 := by
  induction l with
  | nil => rfl
  | cons kv t ih =>
    rw [colTotal_cons, getD_of_all_zero kv.2 (h kv List.mem_cons_self) c,
      ih (fun kv hkv => h kv (List.mem_cons_of_mem _ hkv))]
    ring

theorem FracInit.total_zero {y : Sys} (h : FracInit y) (c : Nat) : total y.s c = 0 := by
  unfold total
  rw [h.rows, colTotal_of_all_zero _ h.zero c]
  simp

theorem FracInit.hinv {y : Sys} (h : FracInit y) : HInv y := ⟨h.init.inv, h.fw⟩

theorem FracInit.jinv {y : Sys} (h : FracInit y) : JInv y := by
  constructor
  · rw [h.init.jobs]; simp
  · intro _; rw [h.init.jobs, h.init.toinit]; simp

/-! ### executable form of `MatchableAlong` (for the examples) -/

def matchableAtB (y : Sys) (ev : Ev) : Bool :=
  match ev with
  | .step k status newW _ =>
    match y.jobs[k]? with
    | some job =>
      match recState (loop y.s).1 job status newW with
      | .ok (s1, _, _) => decide (Matchable s1)
      | .error _ => true
    | none => true
  | _ => true

theorem matchableAt_of_B {y : Sys} {ev : Ev} (h : matchableAtB y ev = true) : matchableAt y ev := by
  cases ev with
  | start o saved => trivial
  | initDone => trivial
  | step k status newW o =>
    intro job s1 tn pns hjob hrec
    simp only [matchableAtB, hjob, hrec, decide_eq_true_eq] at h
    exact h

def matchableAlongB : Sys → List Ev → Bool
  | _, [] => true
  | y, ev :: rest =>
    matchableAtB y ev &&
    match sysStep y ev with
    | .ok y' => matchableAlongB y' rest
    | .error _ => true

theorem matchableAlong_of_B : ∀ (evs : List Ev) (y : Sys), matchableAlongB y evs = true →
    MatchableAlong y evs := by
  intro evs
  induction evs with
  | nil => intro y _; trivial
  | cons ev rest ih =>
    intro y h
    unfold matchableAlongB at h
    rw [Bool.and_eq_true] at h
    unfold MatchableAlong
    refine ⟨matchableAt_of_B h.1, ?_⟩
    have h2 := h.2
    split
    · rename_i y' hs
      rw [hs] at h2
      exact ih y' h2
    · trivial

end Infretis.Repex.Frac
