import Infretis.Lemmas.RepexC04Chain
/-!
# C04 — the state `treat_output` leaves (the state whose image `write_toml` stores) satisfies every invariant

`sysStep (.step …)` = `loop`, `treat_output`, then (if steps remain) `prep_md_items` for the freed worker.  The
restart file is written at the end of `treat_output`, BEFORE that `prep_md_items`: it is the image of the
mid-state `⟨s2, jobs without the completed one⟩`.  This file shows that the mid-state satisfies `Reach4`, so that
`restore_reach4` (the restored state is a start state for all invariants) applies to what really is on disk.
-/
namespace Infretis.Repex.Data
open Infretis.Repex.Frac Infretis.Perm

theorem Inv.toInvR {y : Sys} (hi : Inv y) : InvR y :=
  ⟨hi.core.toR, hi.jobs, hi.pins, hi.tole, hi.pinBound, hi.eng⟩

/-- **the mid-state of a completed step satisfies all invariants** -/
theorem mid_reach4 {y y' : Sys} {k : Nat} {status : Status} {newW : List (List Rat)} {o : PickOutcome}
    (hr : Reach4 y) (hev : EvOk y (.step k status newW o)) (h : sysStep y (.step k status newW o) = .ok y') :
    ∃ job s2 pns it, y.jobs[k]? = some job ∧
      treatOutput (loop y.s).1 job status newW (sortFuel (loop y.s).1) = .ok (s2, pns, it) ∧
      treatPart y k status newW = .ok ((loop y.s).1, s2) ∧
      Reach4 ⟨s2, y.jobs.eraseIdx k⟩ ∧ Keep s2 y'.s := by
  obtain ⟨job, s2, pns, it, hjob, htreat, htp, hgo, hrest⟩ := treatPart_ok h
  have hi := hr.hinv
  have h5 := hr.inv5
  obtain ⟨hld, _⟩ := loop_data y.s
  obtain ⟨hle, hltn, hlto, hlwo, hlocc⟩ := loop_coreEq y.s
  obtain ⟨hce, hfe, _, _⟩ := loop_frame y.s
  have hc1 : Core (loop y.s).1 (heldJob job ++ held (y.jobs.eraseIdx k)) (loop y.s).1.trajNum := by
    rw [hltn]
    exact (hi.inv.core.congr hle).perm (held_perm_erase y.jobs k job hjob)
  have fw1 : FracWF (loop y.s).1 := hi.fw.congr hld.frac hld.n hld.trajNum
  have r1 : RInv ⟨(loop y.s).1, y.jobs.eraseIdx k⟩ :=
    hr.rinv.transfer hld.rows hld.frac hld.trajNum (by rw [loop_trajs])
      (fun j hj => hr.rinv.jobsOld j (List.mem_of_mem_eraseIdx hj))
  have hjmem : job ∈ y.jobs := List.mem_of_getElem? hjob
  have hold := hr.rinv.jobsOld job hjmem
  have hsub : ∀ j ∈ y.jobs.eraseIdx k, j ∈ y.jobs := fun j hj => List.mem_of_mem_eraseIdx hj
  obtain ⟨hc2, _, hto, hwo, hocc, _, _, _, _⟩ := treatOutput_core job status newW _ pns it hc1 htreat
  have hpinsP : (job.pin :: (y.jobs.eraseIdx k).map (·.pin)).Nodup := by
    have := ((perm_cons_eraseIdx y.jobs k job hjob).map (·.pin)).nodup_iff.mp hi.inv.pins
    simpa using this
  rw [List.nodup_cons] at hpinsP
  -- C03
  have hinv : Inv ⟨s2, y.jobs.eraseIdx k⟩ := by
    constructor
    · exact hc2
    · exact fun j hj => hi.inv.jobs j (hsub j hj)
    · exact hpinsP.2
    · show s2.toinitiate ≤ (s2.workers : Int)
      rw [hto, hwo, hlto, hlwo]
      exact hi.inv.tole
    · show 0 ≤ s2.toinitiate → ∀ j ∈ y.jobs.eraseIdx k, (j.pin : Int) < (s2.workers : Int) - s2.toinitiate
      rw [hto, hwo, hlto, hlwo]
      exact fun h0 j hj => hi.inv.pinBound h0 j (hsub j hj)
    · intro j hj p hp ki hki
      show cell s2.occ ki.1 ki.2 = _
      rw [hocc, hlocc]
      exact hi.inv.eng j (hsub j hj) p hp ki hki
  have hk := step_keep (k := k) hrest
  have hi' := sysStep_hinv _ hi h
  have fw2 : FracWF s2 := hi'.fw.congr hk.frac.symm hk.n.symm hk.trajNum.symm
  -- C04 written once
  obtain ⟨r2, _, _⟩ := treat_rinv hc1 fw1 r1 hold htreat
  -- C05
  have hf1 : Fam (loop y.s).1 (loop y.s).1.trajNum := by
    rw [hltn]; exact h5.fam.congr hfe
  have hd1 : DiagR (loop y.s).1 :=
    h5.diagR.congr hce.W hce.locks hce.locked0 (by rw [hce.toinitiate]; exact fun h => h)
  have hvec : status = .acc → ∀ pw ∈ job.picked.zip newW, VecOk (loop y.s).1.n pw.1.ens pw.2 := by
    intro ha
    rw [hce.n]
    exact hev ha job hjob
  obtain ⟨hf2, _, _, _, hd2⟩ := treatOutput_inv job status newW _ pns it hc1.toR hf1 hd1
    (h5.inv.jobs job hjmem).ensGe (h5.pnum job hjmem) hvec htreat
  have h52 : Inv5 ⟨s2, y.jobs.eraseIdx k⟩ :=
    ⟨Inv.toInvR hinv, hf2, hd2, fun j hj => h5.pnum j (hsub j hj)⟩
  -- C06
  have ht2 : Tidy s2 := treatOutput_tidy job status newW _ pns it (tidy_loop hr.tidy.tidy) hc1.toR hold htreat
  -- support
  have hs1 : SupInv (loop y.s).1 := hr.sup.congr hld.frac hld.wts hld.rows hld.n
  have hs2 : SupInv s2 :=
    treatOutput_sup hc1 hf1 fw1 (h5.pnum job hjmem)
      (fun sR tn pns' hrec => recState_fam h5 hev hjob hrec) hs1 htreat
  exact ⟨job, s2, pns, it, hjob, htreat, htp,
    ⟨⟨hinv, fw2⟩, r2, h52, ⟨ht2, fun j hj => hr.tidy.pnum j (hsub j hj)⟩, hs2⟩, hk⟩

end Infretis.Repex.Data
