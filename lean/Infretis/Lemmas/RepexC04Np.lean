import Infretis.Model.DataFileNp
import Infretis.Lemmas.RepexC04Hist
/-!
# C04 — the checked "record weights" loop (`Model/DataFileNp.lean`) against `Repex.recordFrac` / `treatOutput`

* whenever the checked loop does not raise, `recordFrac` returns the same state (`recordFracChecked_none`);
* on a table whose vectors all have `n` entries (and a slot-well-formed state) the checked loop raises exactly
  when `recordFrac` does, with the same result (`recordFracChecked_wf`);
* hence `treatOutputChecked … .toExcept = treatOutput …` on every state whose recording state is well formed
  (`treatOutputChecked_eq`), in particular in every reachable state;
* a vector of another length in an idle live slot makes the checked loop raise `ValueError`
  (`recGoChecked_value`), whereas `recordFrac` goes on.
-/
namespace Infretis.Repex.Data
open Infretis.Repex.Frac Infretis.Perm

theorem updFracChecked_ok {frac f : List (Nat × List Rat)} {pn : Nat} {row : List Rat}
    (h : updFracChecked frac pn row = .ok f) : updFrac frac pn row = .ok f := by
  unfold updFracChecked at h
  split at h
  · exact absurd h (by simp)
  · split at h
    · exact h
    · exact absurd h (by simp)

theorem lookup_none_iff_any (frac : List (Nat × List Rat)) (pn : Nat) :
    frac.lookup pn = none ↔ frac.any (·.1 == pn) = false := by
  induction frac with
  | nil => simp
  | cons kv t ih =>
    obtain ⟨k, v⟩ := kv
    simp only [List.lookup_cons, List.any_cons, Bool.or_eq_false_iff]
    by_cases hk : pn = k
    · subst hk; simp
    · have h1 : (pn == k) = false := by simpa using hk
      have h2 : (k == pn) = false := by simpa using (fun h => hk h.symm)
      rw [h1, h2]
      simpa using ih

/-- on vectors of the row's length the check never fires -/
theorem updFracChecked_eq (frac : List (Nat × List Rat)) (pn : Nat) (row : List Rat)
    (hl : ∀ kv ∈ frac, kv.2.length = row.length) : updFracChecked frac pn row = updFrac frac pn row := by
  unfold updFracChecked
  cases hlk : frac.lookup pn with
  | none =>
    simp only []
    unfold updFrac
    rw [(lookup_none_iff_any frac pn).mp hlk]
    simp
  | some v =>
    simp only []
    rw [if_pos (hl (pn, v) (Frac.lookup_mem hlk))]

theorem updFrac_lengths {frac f : List (Nat × List Rat)} {pn : Nat} {row : List Rat} {n : Nat}
    (hl : ∀ kv ∈ frac, kv.2.length = n) (hr : row.length = n) (h : updFrac frac pn row = .ok f) :
    ∀ kv ∈ f, kv.2.length = n := by
  unfold updFrac at h
  split at h
  · simp only [Except.ok.injEq] at h
    subst h
    intro kv hkv
    simp only [List.mem_map] at hkv
    obtain ⟨⟨k, v⟩, hm, rfl⟩ := hkv
    split
    · simp only [addVec, List.length_zipWith]
      rw [hl (k, v) hm, hr]; simp
    · exact hl (k, v) hm
  · exact absurd h (by simp)

/-- **no raise ⇒ same result as the unchecked loop** -/
theorem recGoChecked_none (L : List (Option Nat)) (P : Mat) :
    ∀ (l : List (Nat × Option Nat)) (frac f : List (Nat × List Rat)),
      recGoChecked L P frac l = (f, none) → recordFrac.go L P frac l = .ok f := by
  intro l
  induction l with
  | nil =>
    intro frac f h
    simp only [recGoChecked, Prod.mk.injEq, and_true] at h
    subst h; rfl
  | cons il rest ih =>
    intro frac f h
    obtain ⟨idx, live⟩ := il
    unfold recGoChecked at h
    unfold recordFrac.go
    split at h
    · rename_i hc; rw [if_pos hc]; exact ih _ _ h
    · rename_i hc; rw [if_neg hc]
      cases live with
      | none => simp at h
      | some pn =>
        simp only [] at h ⊢
        split at h
        · simp at h
        · rename_i f' hu
          rw [updFracChecked_ok hu]
          exact ih _ _ h

theorem recordFracChecked_none {s s' : St} (h : recordFracChecked s = (s', none)) : recordFrac s = .ok s' := by
  unfold recordFracChecked at h
  simp only [Prod.mk.injEq] at h
  obtain ⟨h1, h2⟩ := h
  have := recGoChecked_none (lockedPaths s) (prob s) _ s.frac
    (recGoChecked (lockedPaths s) (prob s) s.frac ((List.range (livePaths s).length).zip (livePaths s))).1
    (by rw [← h2])
  unfold recordFrac
  simp only []
  rw [this]
  simp only []
  rw [h1]

/-- **on a table with vectors of length `n` (and rows of `P` of length `n`) the two loops agree** -/
theorem recGoChecked_wf (L : List (Option Nat)) (P : Mat) (n : Nat) :
    ∀ (l : List (Nat × Option Nat)) (frac : List (Nat × List Rat)),
      (∀ kv ∈ frac, kv.2.length = n) → (∀ il ∈ l, (P.getD il.1 []).length = n) →
      (match recordFrac.go L P frac l with
       | .ok f => recGoChecked L P frac l = (f, none)
       | .error e => (recGoChecked L P frac l).2 = some e) := by
  intro l
  induction l with
  | nil => intro frac _ _; simp [recordFrac.go, recGoChecked]
  | cons il rest ih =>
    intro frac hl hP
    obtain ⟨idx, live⟩ := il
    have hPr : ∀ il ∈ rest, (P.getD il.1 []).length = n := fun il h => hP il (List.mem_cons_of_mem _ h)
    have hrow : (P.getD idx []).length = n := hP (idx, live) List.mem_cons_self
    unfold recordFrac.go recGoChecked
    by_cases hc : L.contains live
    · rw [if_pos hc, if_pos hc]; exact ih frac hl hPr
    · rw [if_neg hc, if_neg hc]
      cases live with
      | none => simp
      | some pn =>
        simp only []
        rw [updFracChecked_eq frac pn _ (fun kv hkv => by rw [hl kv hkv, hrow])]
        cases hu : updFrac frac pn (P.getD idx []) with
        | error e => simp
        | ok f' =>
          simp only []
          exact ih f' (updFrac_lengths hl hrow hu) hPr

theorem recordFracChecked_wf {s : St} (wf : SlotWF s) (hl : ∀ kv ∈ s.frac, kv.2.length = s.n) :
    (match recordFrac s with
     | .ok s' => recordFracChecked s = (s', none)
     | .error e => (recordFracChecked s).2 = some e) := by
  have hP : ∀ il ∈ (List.range (livePaths s).length).zip (livePaths s), ((prob s).getD il.1 []).length = s.n := by
    intro il hil
    have h1 := (List.of_mem_zip hil).1
    rw [List.mem_range] at h1
    have : (livePaths s).length = s.n - 1 := by simp [livePaths, wf.lenT]
    exact prob_row_length wf il.1 (by omega)
  have := recGoChecked_wf (lockedPaths s) (prob s) s.n _ s.frac hl hP
  unfold recordFrac recordFracChecked
  simp only []
  split at this
  · rename_i f hf
    rw [hf, this]
  · rename_i e hf
    rw [hf]
    exact this

/-- **`treat_output` with the checked loop = `Repex.treatOutput`** whenever the recording state (the job's
    ensembles released) is slot-well-formed and its table has vectors of length `n` — every reachable state. -/
theorem treatOutputChecked_eq (s : St) (job : Job) (status : Status) (newW : List (List Rat)) (fuel : Nat)
    (h : ∀ s1 tn pns, recState s job status newW = .ok (s1, tn, pns) →
      SlotWF s1 ∧ ∀ kv ∈ s1.frac, kv.2.length = s1.n) :
    (treatOutputChecked s job status newW fuel).toExcept = treatOutput s job status newW fuel := by
  unfold treatOutputChecked treatOutput
  simp only []
  have hws : (if status = Status.acc then newW else job.picked.map (fun _ => []))
      = jobWs job status newW := rfl
  rw [hws]
  unfold recState at h
  by_cases hlen : (jobWs job status newW).length ≠ job.picked.length
  · rw [if_pos hlen, if_pos hlen]; rfl
  · rw [if_neg hlen, if_neg hlen]
    cases hper : treatOutput.perEns status s s.trajNum (job.picked.zip (jobWs job status newW)) with
    | error e => rfl
    | ok r =>
      obtain ⟨s1, tn, pnNews⟩ := r
      simp only []
      rw [hper] at h
      obtain ⟨wf, hl⟩ := h s1 tn pnNews rfl
      have hw := recordFracChecked_wf wf hl
      cases hrec : recordFrac s1 with
      | error e =>
        rw [hrec] at hw
        simp only [] at hw ⊢
        cases hc : recordFracChecked s1 with
        | mk sP oe =>
          rw [hc] at hw
          simp only [] at hw
          subst hw
          rfl
      | ok s2 =>
        rw [hrec] at hw
        simp only [] at hw ⊢
        rw [hw]
        simp only []
        cases (if status = Status.acc then writeRows s2 job.pnumOld else Except.ok s2) with
        | error e => rfl
        | ok s3 =>
          simp only []
          cases sortTrajstate fuel s3 with
          | error e => rfl
          | ok r => rfl

/-- a vector of the wrong length in the table entry of the first idle live slot: the checked loop raises
    `ValueError` at once (nothing credited), the unchecked one does not look at lengths -/
theorem recGoChecked_value (L : List (Option Nat)) (P : Mat) (frac : List (Nat × List Rat)) (idx pn : Nat)
    (rest : List (Nat × Option Nat)) (v : List Rat) (hL : L.contains (some pn) = false)
    (hv : frac.lookup pn = some v) (hne : v.length ≠ (P.getD idx []).length) :
    recGoChecked L P frac ((idx, some pn) :: rest) = (frac, some .value) := by
  unfold recGoChecked
  rw [if_neg (by rw [hL]; simp)]
  simp only []
  unfold updFracChecked
  rw [hv]
  simp only []
  rw [if_neg hne]

end Infretis.Repex.Data
