import Infretis.Lemmas.RepexC04Hist
/-!
# C04 — a path's row is written exactly once, when it is replaced, never while it is live
-/
namespace Infretis.Repex.Frac
open Infretis.Perm

/-! ### list helpers -/

theorem mem_fm {l : List (Option Nat)} {p : Nat} : p ∈ l.filterMap id ↔ some p ∈ l := by
  simp [List.mem_filterMap]

theorem set_same {α : Type} (l : List α) (e : Nat) (v : α) (h : l[e]? = some v) : l.set e v = l := by
  apply List.ext_getElem?
  intro k
  rw [List.getElem?_set]
  split
  · rename_i hek
    subst hek
    split
    · exact h.symm
    · rename_i hlt
      rw [List.getElem?_eq_none (by omega)] at h
      exact absurd h (by simp)
  · rfl

theorem split_at {α : Type} : ∀ (l : List α) (e : Nat) (v : α), l[e]? = some v →
    ∃ A B, l = A ++ v :: B ∧ A.length = e := by
  intro l
  induction l with
  | nil => intro e v h; simp at h
  | cons x t ih =>
    intro e v h
    cases e with
    | zero =>
      simp only [List.getElem?_cons_zero, Option.some.injEq] at h
      subst h
      exact ⟨[], t, rfl, rfl⟩
    | succ e =>
      simp only [List.getElem?_cons_succ] at h
      obtain ⟨A, B, rfl, hA⟩ := ih e v h
      exact ⟨x :: A, B, rfl, by simp [hA]⟩

theorem set_mid {α : Type} (A B : List α) (v w : α) : (A ++ v :: B).set A.length w = A ++ w :: B := by
  induction A with
  | nil => rfl
  | cons x t ih => simp [ih]

theorem fm_mid (A B : List (Option Nat)) (p : Nat) :
    (A ++ some p :: B).filterMap id = A.filterMap id ++ p :: B.filterMap id := by
  simp [List.filterMap_append, List.filterMap_cons]

/-- overwriting a slot with a fresh number keeps the numbers distinct -/
theorem set_fresh_nodup (l : List (Option Nat)) (e p t : Nat) (h : l[e]? = some (some p))
    (hnd : (l.filterMap id).Nodup) (hf : some t ∉ l) : ((l.set e (some t)).filterMap id).Nodup := by
  obtain ⟨A, B, rfl, rfl⟩ := split_at l e _ h
  rw [set_mid, fm_mid]
  rw [fm_mid] at hnd
  rw [List.perm_middle.nodup_iff, List.nodup_cons] at hnd ⊢
  refine ⟨?_, hnd.2⟩
  rw [List.mem_append, mem_fm, mem_fm]
  intro hm
  apply hf
  rcases hm with hm | hm
  · exact List.mem_append_left _ hm
  · exact List.mem_append_right _ (List.mem_cons_of_mem _ hm)

/-- … and the overwritten number is gone -/
theorem set_removes (l : List (Option Nat)) (e p t : Nat) (h : l[e]? = some (some p))
    (hnd : (l.filterMap id).Nodup) (hne : t ≠ p) : some p ∉ l.set e (some t) := by
  obtain ⟨A, B, rfl, rfl⟩ := split_at l e _ h
  rw [set_mid]
  rw [fm_mid, List.perm_middle.nodup_iff, List.nodup_cons, List.mem_append, mem_fm, mem_fm] at hnd
  intro hm
  rcases List.mem_append.mp hm with hm | hm
  · exact hnd.1 (Or.inl hm)
  · rcases List.mem_cons.mp hm with hm | hm
    · simp only [Option.some.injEq] at hm
      exact hne hm.symm
    · exact hnd.1 (Or.inr hm)

/-! ### where the path numbers go in `perEns` -/

theorem perEns_trajs (status : Status) : ∀ (l : List (Picked × List Rat)) {s s' : St}
    {tn tn' : Nat} {pns : List Nat},
    (∀ pw ∈ l, s.trajs[slotOf pw.1]? = some (some pw.1.pn)) →
    (l.map (fun pw => slotOf pw.1)).Nodup →
    (s.trajs.filterMap id).Nodup → (∀ pn, some pn ∈ s.trajs → pn < tn) →
    treatOutput.perEns status s tn l = .ok (s', tn', pns) →
    (s'.trajs.filterMap id).Nodup ∧ (∀ pn, some pn ∈ s'.trajs → pn < tn') ∧
    (∀ pn, some pn ∈ s'.trajs → some pn ∈ s.trajs ∨ (tn ≤ pn ∧ pn < tn')) ∧
    (status = .acc → ∀ pw ∈ l, some pw.1.pn ∉ s'.trajs) ∧ tn ≤ tn' := by
  intro l
  induction l with
  | nil =>
    intro s s' tn tn' pns _ _ hnd hb h
    simp only [treatOutput.perEns, Except.ok.injEq, Prod.mk.injEq] at h
    obtain ⟨rfl, rfl, _⟩ := h
    exact ⟨hnd, hb, fun pn hm => Or.inl hm, fun _ pw hpw => absurd hpw (by simp), Nat.le_refl _⟩
  | cons pw rest ih =>
    intro s s' tn tn' pns hheld hslots hnd hb h
    obtain ⟨p, w⟩ := pw
    have hp : s.trajs[slotOf p]? = some (some p.pn) := hheld (p, w) List.mem_cons_self
    simp only [List.map_cons, List.nodup_cons] at hslots
    have hrestne : ∀ pw ∈ rest, slotOf pw.1 ≠ slotOf p := by
      intro pw hpw e
      exact hslots.1 (e ▸ List.mem_map_of_mem (f := fun pw : Picked × List Rat => slotOf pw.1) hpw)
    unfold treatOutput.perEns at h
    simp only [] at h
    split at h
    · -- accepted
      split at h
      · exact absurd h (by simp)
      rename_i s3 hadd
      split at h
      · exact absurd h (by simp)
      rename_i s4 tn4 pns4 hrec
      simp only [Except.ok.injEq, Prod.mk.injEq] at h
      obtain ⟨rfl, rfl, _⟩ := h
      obtain ⟨v, _, hs3⟩ := addTraj_ok hadd
      have htr3 : s3.trajs = s.trajs.set (slotOf p) (some tn) := by rw [hs3]; rfl
      have hfresh : some tn ∉ s.trajs := fun hm => Nat.lt_irrefl _ (hb tn hm)
      have hpb : p.pn < tn := hb p.pn (List.mem_of_getElem? hp)
      have h1 : ∀ pw ∈ rest, s3.trajs[slotOf pw.1]? = some (some pw.1.pn) := by
        intro pw hpw
        rw [htr3, List.getElem?_set_ne (fun e => hrestne pw hpw e.symm)]
        exact hheld pw (List.mem_cons_of_mem _ hpw)
      have h2 : (s3.trajs.filterMap id).Nodup := by
        rw [htr3]; exact set_fresh_nodup _ _ _ _ hp hnd hfresh
      have hmem3 : ∀ pn, some pn ∈ s3.trajs → pn = tn ∨ some pn ∈ s.trajs := by
        intro pn hm
        rw [htr3] at hm
        rcases List.mem_or_eq_of_mem_set hm with hm | hm
        · exact Or.inr hm
        · exact Or.inl (by simpa using hm)
      have h3 : ∀ pn, some pn ∈ s3.trajs → pn < tn + 1 := by
        intro pn hm
        rcases hmem3 pn hm with rfl | hm
        · omega
        · have := hb pn hm; omega
      obtain ⟨r1, r2, r3, r4, r5⟩ := ih h1 hslots.2 h2 h3 hrec
      refine ⟨r1, r2, ?_, ?_, by omega⟩
      · intro pn hm
        rcases r3 pn hm with hm | hm
        · rcases hmem3 pn hm with rfl | hm
          · exact Or.inr ⟨Nat.le_refl _, by omega⟩
          · exact Or.inl hm
        · exact Or.inr ⟨by omega, hm.2⟩
      · intro hacc pw hpw
        rcases List.mem_cons.mp hpw with rfl | hpw
        · intro hm
          rcases r3 p.pn hm with hm | hm
          · rw [htr3] at hm
            exact set_removes _ _ _ _ hp hnd (by omega) hm
          · omega
        · exact r4 hacc pw hpw
    · -- rejected
      rename_i hacc
      split at h
      · exact absurd h (by simp)
      rename_i wOld _
      split at h
      · exact absurd h (by simp)
      rename_i s3 hadd
      split at h
      · exact absurd h (by simp)
      rename_i s4 tn4 pns4 hrec
      simp only [Except.ok.injEq, Prod.mk.injEq] at h
      obtain ⟨rfl, rfl, _⟩ := h
      obtain ⟨v, _, hs3⟩ := addTraj_ok hadd
      have htr3 : s3.trajs = s.trajs := by
        rw [hs3]
        exact set_same _ _ _ hp
      obtain ⟨r1, r2, r3, _, r5⟩ := ih (s := s3)
        (by rw [htr3]; exact fun pw hpw => hheld pw (List.mem_cons_of_mem _ hpw)) hslots.2
        (by rw [htr3]; exact hnd) (by rw [htr3]; exact hb) hrec
      rw [htr3] at r3
      exact ⟨r1, r2, r3, fun h => absurd h hacc, r5⟩

/-! ### `sort_trajstate` permutes the slots -/

theorem sortStep_trajsPerm {s s' : St} (h : sortStep s = .ok (some s')) : s'.trajs.Perm s.trajs := by
  unfold sortStep at h
  simp only [] at h
  split at h
  · exact absurd h (by simp)
  split at h
  · exact absurd h (by simp)
  split at h
  · exact absurd h (by simp)
  simp only [Except.ok.injEq, Option.some.injEq] at h
  subst h
  exact swapList_perm _ _ _

theorem sortTrajstate_trajsPerm : ∀ (fuel : Nat) {s s' : St} {k : Nat},
    sortTrajstate fuel s = .ok (s', k) → s'.trajs.Perm s.trajs := by
  intro fuel
  induction fuel with
  | zero => intro s s' k h; exact absurd h (by simp [sortTrajstate])
  | succ fuel ih =>
    intro s s' k h
    unfold sortTrajstate at h
    split at h
    · exact absurd h (by simp)
    · simp only [Except.ok.injEq, Prod.mk.injEq] at h
      obtain ⟨rfl, _⟩ := h
      exact List.Perm.refl _
    · rename_i s1 hstep
      split at h
      · exact absurd h (by simp)
      · rename_i s2 k2 hrec
        simp only [Except.ok.injEq, Prod.mk.injEq] at h
        obtain ⟨rfl, _⟩ := h
        exact (ih hrec).trans (sortStep_trajsPerm hstep)

theorem loop_trajs (s : St) : (loop s).1.trajs = s.trajs := by
  unfold loop; split <;> rfl

theorem initiate_trajs (s : St) : (initiate s).1.trajs = s.trajs := by
  unfold initiate; split <;> rfl

/-! ### the data file across one `treat_output` -/

/-- the path numbers whose rows a completed job writes -/
def written (job : Job) (status : Status) : List Nat := if status = .acc then job.pnumOld else []

theorem keys_filter (l : List (Nat × List Rat)) (L : List Nat) :
    (l.filter (fun kv => !L.contains kv.1)).map Prod.fst
      = (l.map Prod.fst).filter (fun k => !L.contains k) := by
  rw [List.filter_map]
  rfl

theorem treatOutput_rows {s s' : St} {job : Job} {status : Status} {newW : List (List Rat)}
    {fuel : Nat} {pns : List Nat} {it : Nat} (fw : FracWF s)
    (h : treatOutput s job status newW fuel = .ok (s', pns, it)) :
    ∃ sR tn, recState s job status newW = .ok (sR, tn, pns) ∧ s'.trajNum = tn ∧
      s.trajNum ≤ tn ∧
      (∀ k ∈ sR.frac.map Prod.fst, k ∈ s.frac.map Prod.fst ∨ (s.trajNum ≤ k ∧ k < tn)) ∧
      (∀ k ∈ s.frac.map Prod.fst, k ∈ sR.frac.map Prod.fst) ∧
      (∀ k, s.trajNum ≤ k → k < tn → k ∈ sR.frac.map Prod.fst) ∧
      (SlotWF sR →
        s'.trajs.Perm sR.trajs ∧
        s'.rows.map (·.1) = s.rows.map (·.1) ++ written job status ∧
        s'.frac.map Prod.fst
          = (sR.frac.map Prod.fst).filter (fun k => !(written job status).contains k) ∧
        (written job status).Nodup ∧ ∀ pn ∈ written job status, pn ∈ sR.frac.map Prod.fst) := by
  obtain ⟨sR, tn, s2, s3, s4, hper, hlen, hrec, hwr, hsort, rfl⟩ := treatOutput_ok h
  have hper' := hper
  unfold recState at hper'
  obtain ⟨p1, p2, p3, p4, p5, _, _⟩ := perEns_data status _ hper'
  have hkeysR : sR.frac.map Prod.fst = s.frac.map Prod.fst ++ List.range' s.trajNum
      (if status = .acc then (job.picked.zip (jobWs job status newW)).length else 0) := by
    rw [p5, List.map_append, zeroFracs_keys]
  refine ⟨sR, tn, hper, rfl, by omega, ?_, ?_, ?_, ?_⟩
  · intro k hk
    rw [hkeysR] at hk
    rcases List.mem_append.mp hk with hk | hk
    · exact Or.inl hk
    · have := List.mem_range'_1.mp hk
      exact Or.inr ⟨this.1, by omega⟩
  · intro k hk
    rw [hkeysR]; exact List.mem_append_left _ hk
  · intro k h1 h2
    rw [hkeysR]
    exact List.mem_append_right _ (List.mem_range'_1.mpr ⟨h1, by omega⟩)
  intro wf
  obtain ⟨k1, k2, _⟩ := fracWF_append_zero fw
    (if status = .acc then (job.picked.zip (jobWs job status newW)).length else 0)
  rw [← p5] at k1 k2
  rw [← p2] at k2
  obtain ⟨hs2, r2, _, _, _, _⟩ := recordFrac_spec wf k1 k2 hrec
  have k1' : (s2.frac.map Prod.fst).Nodup := by rw [r2]; exact k1
  have htr2 : s2.trajs = sR.trajs := by rw [hs2]
  have hrows2 : s2.rows = sR.rows := by rw [hs2]
  have htr4 := sortTrajstate_trajsPerm fuel hsort
  obtain ⟨hd4, _⟩ := sortTrajstate_dataEq fuel hsort
  unfold written
  split at hwr
  · rename_i hacc
    rw [if_pos hacc]
    obtain ⟨⟨news, hr, hn, hlook⟩, hf3, _, _, hnod, _⟩ := writeRows_spec _ _ _ k1' hwr
    obtain ⟨_, _, _, htr3, _, _⟩ := writeRows_other _ _ _ hwr
    refine ⟨?_, ?_, ?_, hnod, ?_⟩
    · show s4.trajs.Perm sR.trajs
      rw [← htr2, ← htr3]; exact htr4
    · show s4.rows.map (·.1) = _
      rw [hd4.rows, hr, List.map_append, hn, hrows2, p1]
    · show s4.frac.map Prod.fst = _
      rw [hd4.frac, hf3, keys_filter, r2]
    · intro pn hpn
      rw [← hn] at hpn
      simp only [List.mem_map] at hpn
      obtain ⟨r, hr', rfl⟩ := hpn
      rw [← r2]
      exact List.mem_map_of_mem (f := Prod.fst) (lookup_mem (hlook r hr').1)
  · rename_i hacc
    rw [if_neg hacc]
    simp only [Except.ok.injEq] at hwr
    subst hwr
    refine ⟨?_, ?_, ?_, List.nodup_nil, fun _ h => absurd h (by simp)⟩
    · show s4.trajs.Perm sR.trajs
      rw [← htr2]; exact htr4
    · show s4.rows.map (·.1) = _
      rw [hd4.rows, hrows2, p1]; simp
    · show s4.frac.map Prod.fst = _
      rw [hd4.frac, r2]
      simp

/-! ### the invariant "written once" -/

structure RInv (y : Sys) : Prop where
  rowsNodup : (y.s.rows.map (·.1)).Nodup
  rowsFrac : ∀ pn ∈ y.s.rows.map (·.1), pn ∉ y.s.frac.map Prod.fst
  rowsBound : ∀ pn ∈ y.s.rows.map (·.1), pn < y.s.trajNum
  liveFrac : ∀ pn, some pn ∈ y.s.trajs → pn ∈ y.s.frac.map Prod.fst
  liveNodup : (y.s.trajs.filterMap id).Nodup
  jobsOld : ∀ j ∈ y.jobs, j.pnumOld = j.picked.map (·.pn)

theorem RInv.transfer {s s' : St} {jobs jobs' : List Job} (r : RInv ⟨s, jobs⟩)
    (hrows : s'.rows = s.rows) (hfrac : s'.frac = s.frac) (htn : s'.trajNum = s.trajNum)
    (htr : s'.trajs.Perm s.trajs) (hj : ∀ j ∈ jobs', j.pnumOld = j.picked.map (·.pn)) :
    RInv ⟨s', jobs'⟩ := by
  constructor
  · show (s'.rows.map (·.1)).Nodup; rw [hrows]; exact r.rowsNodup
  · show ∀ pn ∈ s'.rows.map (·.1), pn ∉ s'.frac.map Prod.fst; rw [hrows, hfrac]; exact r.rowsFrac
  · show ∀ pn ∈ s'.rows.map (·.1), pn < s'.trajNum; rw [hrows, htn]; exact r.rowsBound
  · show ∀ pn, some pn ∈ s'.trajs → pn ∈ s'.frac.map Prod.fst
    intro pn hm
    rw [hfrac]
    exact r.liveFrac pn (htr.mem_iff.mp hm)
  · show (s'.trajs.filterMap id).Nodup
    exact (htr.filterMap id).nodup_iff.mpr r.liveNodup
  · exact hj

/-- **one `treat_output`**: rows are appended exactly for `written job status` (the job's old path
    numbers on ACC, nothing on REJ); these paths were live before and are not live afterwards; the
    "written once" invariant is kept. -/
theorem treat_rinv {s s2 : St} {jobs : List Job} {job : Job} {status : Status}
    {newW : List (List Rat)} {fuel : Nat} {pns : List Nat} {it : Nat} {H : List (Nat × Nat)}
    (hc : Core s (heldJob job ++ H) s.trajNum) (fw : FracWF s) (r : RInv ⟨s, jobs⟩)
    (hold : job.pnumOld = job.picked.map (·.pn))
    (h : treatOutput s job status newW fuel = .ok (s2, pns, it)) :
    RInv ⟨s2, jobs⟩ ∧ s2.rows.map (·.1) = s.rows.map (·.1) ++ written job status ∧
    (∀ pn ∈ written job status, some pn ∈ s.trajs ∧ some pn ∉ s2.trajs) := by
  obtain ⟨sR, tn, hrec, htn, hle, kR1, kR2, kR3, hmain⟩ := treatOutput_rows fw h
  have hzl : (jobWs job status newW).length = job.picked.length := by
    obtain ⟨_, _, _, _, _, _, hl, _⟩ := treatOutput_ok h
    exact hl
  have hfst : (job.picked.zip (jobWs job status newW)).map Prod.fst = job.picked :=
    List.map_fst_zip (by omega)
  have hrec' := hrec
  unfold recState at hrec'
  have hcR : Core sR H tn := by
    have h0 : Core s (heldPicked ((job.picked.zip (jobWs job status newW)).map Prod.fst) ++ H)
        s.trajNum := by rw [hfst]; exact hc
    exact (perEns_core status _ h0 hrec').1
  obtain ⟨hperm, hrows, hkeys, hwnd, hwk⟩ := hmain (slotWF_of_core hcR)
  -- where the path numbers went
  have hheldP : ∀ p ∈ job.picked, s.trajs[slotOf p]? = some (some p.pn) := by
    intro p hp
    have : (slotOf p, p.pn) ∈ heldJob job ++ H :=
      List.mem_append_left _ (List.mem_map.mpr ⟨p, hp, rfl⟩)
    exact (hc.heldOk _ _ this).2.1
  have hheld : ∀ pw ∈ job.picked.zip (jobWs job status newW),
      s.trajs[slotOf pw.1]? = some (some pw.1.pn) :=
    fun pw hpw => hheldP pw.1 (List.of_mem_zip (a := pw.1) (b := pw.2) hpw).1
  have hslots : ((job.picked.zip (jobWs job status newW)).map (fun pw => slotOf pw.1)).Nodup := by
    have h1 : (job.picked.zip (jobWs job status newW)).map (fun pw => slotOf pw.1)
        = ((job.picked.zip (jobWs job status newW)).map Prod.fst).map slotOf := by
      rw [List.map_map]; rfl
    rw [h1, hfst]
    have h2 := hc.nodup
    rw [List.map_append, List.nodup_append] at h2
    have h3 : (heldJob job).map Prod.fst = job.picked.map slotOf := by
      simp [heldJob, List.map_map, Function.comp_def]
    rw [← h3]; exact h2.1
  have hb : ∀ pn, some pn ∈ s.trajs → pn < s.trajNum :=
    fun pn hm => fw.bound pn (r.liveFrac pn hm)
  obtain ⟨t1, _, t3, t4, _⟩ := perEns_trajs status _ hheld hslots r.liveNodup hb hrec'
  have t4' : status = .acc → ∀ pn ∈ job.picked.map (·.pn), some pn ∉ sR.trajs := by
    intro hacc pn hpn
    rw [← hfst, List.map_map] at hpn
    simp only [List.mem_map, Function.comp_apply] at hpn
    obtain ⟨pw, hpw, rfl⟩ := hpn
    exact t4 hacc pw hpw
  have hwacc : ∀ pn ∈ written job status, status = .acc ∧ pn ∈ job.picked.map (·.pn) := by
    intro pn hpn
    unfold written at hpn
    split at hpn
    · rename_i hacc; rw [hold] at hpn; exact ⟨hacc, hpn⟩
    · exact absurd hpn (by simp)
  have hrowsR : ∀ pn ∈ s.rows.map (·.1), pn ∉ sR.frac.map Prod.fst := by
    intro pn hpn hk
    rcases kR1 pn hk with hk | hk
    · exact r.rowsFrac pn hpn hk
    · have : pn < s.trajNum := r.rowsBound pn hpn
      omega
  refine ⟨?_, hrows, ?_⟩
  · constructor
    · show (s2.rows.map (·.1)).Nodup
      rw [hrows, List.nodup_append]
      refine ⟨r.rowsNodup, hwnd, ?_⟩
      intro a ha b hb' hab
      subst hab
      exact hrowsR a ha (hwk a hb')
    · show ∀ pn ∈ s2.rows.map (·.1), pn ∉ s2.frac.map Prod.fst
      intro pn hpn hk
      rw [hkeys, List.mem_filter] at hk
      rw [hrows] at hpn
      rcases List.mem_append.mp hpn with hpn | hpn
      · exact hrowsR pn hpn hk.1
      · have : pn ∉ written job status := by simpa using hk.2
        exact this hpn
    · show ∀ pn ∈ s2.rows.map (·.1), pn < s2.trajNum
      intro pn hpn
      rw [htn]
      rw [hrows] at hpn
      rcases List.mem_append.mp hpn with hpn | hpn
      · have : pn < s.trajNum := r.rowsBound pn hpn
        omega
      · rcases kR1 pn (hwk pn hpn) with hk | hk
        · have := fw.bound pn hk; omega
        · exact hk.2
    · show ∀ pn, some pn ∈ s2.trajs → pn ∈ s2.frac.map Prod.fst
      intro pn hm
      have hmR : some pn ∈ sR.trajs := hperm.mem_iff.mp hm
      rw [hkeys, List.mem_filter]
      constructor
      · rcases t3 pn hmR with h' | h'
        · exact kR2 pn (r.liveFrac pn h')
        · exact kR3 pn h'.1 h'.2
      · have : pn ∉ written job status := by
          intro hw
          obtain ⟨hacc, hp⟩ := hwacc pn hw
          exact t4' hacc pn hp hmR
        simpa using this
    · show (s2.trajs.filterMap id).Nodup
      exact (hperm.filterMap id).nodup_iff.mpr t1
    · exact r.jobsOld
  · intro pn hpn
    obtain ⟨hacc, hp⟩ := hwacc pn hpn
    constructor
    · simp only [List.mem_map] at hp
      obtain ⟨p, hp, rfl⟩ := hp
      exact List.mem_of_getElem? (hheldP p hp)
    · intro hm
      exact t4' hacc pn hp (hperm.mem_iff.mp hm)

/-! ### events and histories -/

/-- the path numbers whose rows event `ev` writes when applied in `y`: the old path numbers of the
    completing job if its move was accepted, nothing otherwise -/
def writtenAt (y : Sys) (ev : Ev) : List Nat :=
  match ev with
  | .step k status _ _ =>
    match y.jobs[k]? with
    | some job => written job status
    | none => []
  | _ => []

/-- all path numbers written along a history, in order (recursion alongside `run`) -/
def writtenAlong : Sys → List Ev → List Nat
  | _, [] => []
  | y, ev :: rest =>
    match sysStep y ev with
    | .ok y' => writtenAt y ev ++ writtenAlong y' rest
    | .error _ => []

theorem sysStep_hinv {y y' : Sys} (ev : Ev) (hi : HInv y) (h : sysStep y ev = .ok y') : HInv y' := by
  refine ⟨sysStep_preserves ev hi.inv h, ?_⟩
  cases ev with
  | start o saved => exact (start_total hi h).1
  | initDone => exact (initDone_total hi h).1
  | step k status newW o => exact (step_total hi h).1

theorem sysStep_rinv {y y' : Sys} (ev : Ev) (hi : HInv y) (r : RInv y) (h : sysStep y ev = .ok y') :
    RInv y' ∧ y'.s.rows.map (·.1) = y.s.rows.map (·.1) ++ writtenAt y ev ∧
    (∀ pn ∈ writtenAt y ev, some pn ∈ y.s.trajs ∧ some pn ∉ y'.s.trajs) := by
  cases ev with
  | start o saved =>
    obtain ⟨_, s2, job, ds, hp, rfl⟩ := start_ok h
    obtain ⟨hd, _⟩ := initiate_data y.s
    obtain ⟨kp, hjob⟩ := prep_keep hp
    have r1 : RInv ⟨(initiate y.s).1, y.jobs ++ [job]⟩ :=
      r.transfer hd.rows hd.frac hd.trajNum (by rw [initiate_trajs]) (by
        intro j hj
        rcases List.mem_append.mp hj with hj | hj
        · exact r.jobsOld j hj
        · simp only [List.mem_singleton] at hj; subst hj; exact hjob)
    refine ⟨r1.transfer kp.rows kp.frac kp.trajNum kp.trajsPerm r1.jobsOld, ?_, ?_⟩
    · show s2.rows.map (·.1) = _
      rw [kp.rows, hd.rows]; simp [writtenAt]
    · intro pn hpn; simp [writtenAt] at hpn
  | initDone =>
    obtain ⟨_, rfl⟩ := initDone_ok h
    obtain ⟨hd, _⟩ := initiate_data y.s
    refine ⟨r.transfer hd.rows hd.frac hd.trajNum (by rw [initiate_trajs]) r.jobsOld, ?_, ?_⟩
    · show (initiate y.s).1.rows.map (·.1) = _
      rw [hd.rows]; simp [writtenAt]
    · intro pn hpn; simp [writtenAt] at hpn
  | step k status newW o =>
    obtain ⟨_, job, s2, pns, it, hjob, htreat, hrest⟩ := step_ok h
    obtain ⟨hld, _⟩ := loop_data y.s
    obtain ⟨hle, hltn, _⟩ := loop_coreEq y.s
    have hc1 : Core (loop y.s).1 (heldJob job ++ held (y.jobs.eraseIdx k)) (loop y.s).1.trajNum := by
      rw [hltn]
      exact (hi.inv.core.congr hle).perm (held_perm_erase y.jobs k job hjob)
    have fw1 : FracWF (loop y.s).1 := hi.fw.congr hld.frac hld.n hld.trajNum
    have r1 : RInv ⟨(loop y.s).1, y.jobs.eraseIdx k⟩ :=
      r.transfer hld.rows hld.frac hld.trajNum (by rw [loop_trajs])
        (fun j hj => r.jobsOld j (List.mem_of_mem_eraseIdx hj))
    have hold := r.jobsOld job (List.mem_of_getElem? hjob)
    obtain ⟨r2, hrows2, hw2⟩ := treat_rinv hc1 fw1 r1 hold htreat
    have hwa : writtenAt y (.step k status newW o) = written job status := by
      simp only [writtenAt, hjob]
    rw [hwa]
    rcases hrest with ⟨s3, job', ds, hp, rfl⟩ | rfl
    · obtain ⟨kp, hjob'⟩ := prep_keep hp
      refine ⟨r2.transfer kp.rows kp.frac kp.trajNum kp.trajsPerm ?_, ?_, ?_⟩
      · intro j hj
        rcases List.mem_append.mp hj with hj | hj
        · exact r2.jobsOld j hj
        · simp only [List.mem_singleton] at hj; subst hj; exact hjob'
      · show s3.rows.map (·.1) = _
        rw [kp.rows, hrows2, hld.rows]
      · intro pn hpn
        obtain ⟨h1, h2⟩ := hw2 pn hpn
        rw [loop_trajs] at h1
        exact ⟨h1, fun hm => h2 (kp.trajsPerm.mem_iff.mp hm)⟩
    · refine ⟨r2, ?_, ?_⟩
      · show s2.rows.map (·.1) = _
        rw [hrows2, hld.rows]
      · intro pn hpn
        obtain ⟨h1, h2⟩ := hw2 pn hpn
        rw [loop_trajs] at h1
        exact ⟨h1, h2⟩

theorem run_rinv : ∀ (evs : List Ev) {y0 y : Sys}, HInv y0 → RInv y0 → run y0 evs = .ok y →
    HInv y ∧ RInv y ∧ y.s.rows.map (·.1) = y0.s.rows.map (·.1) ++ writtenAlong y0 evs := by
  intro evs
  induction evs with
  | nil =>
    intro y0 y hi r h
    simp only [run, Except.ok.injEq] at h
    subst h
    exact ⟨hi, r, by simp [writtenAlong]⟩
  | cons ev rest ih =>
    intro y0 y hi r h
    unfold run at h
    split at h
    · exact absurd h (by simp)
    rename_i y1 hstep
    obtain ⟨r1, hrows1, _⟩ := sysStep_rinv ev hi r hstep
    obtain ⟨hi2, r2, hrows2⟩ := ih (sysStep_hinv ev hi hstep) r1 h
    refine ⟨hi2, r2, ?_⟩
    rw [hrows2, hrows1]
    simp only [writtenAlong, hstep, List.append_assoc]

/-- fresh start for the "written once" law: additionally every slot's path has a table entry and
    the path numbers in the slots are pairwise distinct -/
structure RowInit (y : Sys) : Prop where
  fi : FracInit y
  liveFrac : ∀ pn, some pn ∈ y.s.trajs → pn ∈ y.s.frac.map Prod.fst
  liveNodup : (y.s.trajs.filterMap id).Nodup

theorem RowInit.rinv {y : Sys} (h : RowInit y) : RInv y := by
  constructor
  · rw [h.fi.rows]; exact List.nodup_nil
  · rw [h.fi.rows]; intro pn hpn; simp at hpn
  · rw [h.fi.rows]; intro pn hpn; simp at hpn
  · exact h.liveFrac
  · exact h.liveNodup
  · rw [h.fi.init.jobs]; intro j hj; simp at hj

/-- executable form of the two extra clauses of `RowInit` -/
def liveOk (s : St) : Bool :=
  s.trajs.all (fun o => match o with
    | none => true
    | some pn => (s.frac.map Prod.fst).contains pn) &&
  decide ((s.trajs.filterMap id).Nodup)

theorem rowInit_of_liveOk {y : Sys} (fi : FracInit y) (h : liveOk y.s = true) : RowInit y := by
  unfold liveOk at h
  rw [Bool.and_eq_true, List.all_eq_true, decide_eq_true_eq] at h
  refine ⟨fi, ?_, h.2⟩
  intro pn hm
  have := h.1 (some pn) hm
  simpa using this

end Infretis.Repex.Frac
