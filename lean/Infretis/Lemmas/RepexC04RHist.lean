import Infretis.Lemmas.RepexC04Resume
import Infretis.Lemmas.RepexC03RRestore
/-!
# C04 — conservation after a restart WITH jobs in flight (`locked0 ≠ []`)

`RepexC04Hist` proves the conservation law along histories from states with C03's `Inv`, which demands
`locked0 = []`: after a stop in mid-run with several workers the restart file records the other workers' jobs
and `pick_lock` re-issues them, a phase `Inv` does not cover.  C03's `InvR` (RepexC03R*) does; C05's `Inv5`
and its `restore_init5R` already live on `InvR`.  This file re-runs the history argument of `RepexC04Hist` on
`InvR` + the table invariant `FracWF` (`run_totalR`) and shows that the state rebuilt from the restart image of
ANY state satisfying the C04 invariants — jobs in flight or not — is such a state again, with the same column
totals (`restore_inflight`).  What it does not re-establish for the restored state are the disk invariants
(`DiskInvG`), "written once" (`RInv`) and C06's `Tidy`, whose proofs go through `Init`; hence ONE in-flight
restart deep at theorem level, on the model's row list rather than on the file lines.
-/
namespace Infretis.Repex.Data
open Infretis.Repex.Frac Infretis.Perm

theorem slotWF_of_coreR {s : St} {H : List (Nat × Nat)} {tn : Nat} (h : CoreR s H tn) : SlotWF s :=
  ⟨h.lenW, h.lenT, h.lenL, h.ghost,
   fun i hi _ => by obtain ⟨pn, h1, _⟩ := h.live i hi; exact ⟨pn, h1⟩, h.inj⟩

/-- `step_total` of RepexC04Hist with `InvR` in place of `Inv` -/
theorem step_totalR {y y' : Sys} {k : Nat} {status : Status} {newW : List (List Rat)} {o : PickOutcome}
    (hi : InvR y) (fw : FracWF y.s) (h : sysStep y (.step k status newW o) = .ok y') :
    FracWF y'.s ∧ (matchableAt y (.step k status newW o) →
      ∀ c, total y'.s c = total y.s c + idleAt y (.step k status newW o) c) ∧
    y'.s.cstep = y.s.cstep + 1 ∧ y'.s.n = y.s.n ∧ y'.s.workers = y.s.workers ∧
    y'.s.toinitiate = y.s.toinitiate ∧ y'.jobs.length ≤ y.jobs.length ∧
    (y.jobs.length ≤ 1 → ∀ c, c < y.s.n - 1 → idleAt y (.step k status newW o) c = 1) := by
  obtain ⟨hgo, job, s2, pns, it, hjob, htreat, hrest⟩ := step_ok h
  obtain ⟨hld, hlw, hlt, _, hlc⟩ := loop_data y.s
  obtain ⟨hle, hltn, _, _, _⟩ := loop_coreEqR y.s
  have hlc := hlc hgo
  have hperm := held_perm_erase y.jobs k job hjob
  have hc1 : CoreR (loop y.s).1 (heldJob job ++ held (y.jobs.eraseIdx k)) (loop y.s).1.trajNum := by
    rw [hltn]
    exact (hi.core.congr hle).perm hperm
  obtain ⟨hc2, _, hto2, hwo2, _, _, _, hcs2, _, _⟩ := treatOutput_coreR job status newW _ pns it hc1 htreat
  have fw1 : FracWF (loop y.s).1 := fw.congr hld.frac hld.n hld.trajNum
  obtain ⟨sR, tn, hrec, _, hlk, hn2, _, _, hmain⟩ := treatOutput_total fw1 htreat
  have hzl : (jobWs job status newW).length = job.picked.length := by
    obtain ⟨_, _, _, _, _, _, hl, _⟩ := treatOutput_ok htreat
    exact hl
  have hcR : CoreR sR (held (y.jobs.eraseIdx k)) tn := by
    have hfst : (job.picked.zip (jobWs job status newW)).map Prod.fst = job.picked :=
      List.map_fst_zip (by omega)
    have h0 : CoreR (loop y.s).1 (heldPicked ((job.picked.zip (jobWs job status newW)).map Prod.fst)
        ++ held (y.jobs.eraseIdx k)) (loop y.s).1.trajNum := by
      rw [hfst]; exact hc1
    exact (perEns_coreR status _ h0 hrec).1
  obtain ⟨fw2, htot⟩ := hmain (slotWF_of_coreR hcR)
  have hidle : ∀ c, idleAt y (.step k status newW o) c = if s2.locks[c]? = some false then 1 else 0 := by
    intro c
    simp only [idleAt, hjob, hrec, hlk]
  have htot2 : matchableAt y (.step k status newW o) →
      ∀ c, total s2 c = total y.s c + idleAt y (.step k status newW o) c := by
    intro hm c
    rw [hidle c]
    unfold total
    rw [htot (hm job sR tn pns hjob hrec) c, hld.frac, hld.rows]
    split <;> simp
  have hlen : (y.jobs.eraseIdx k).length + 1 = y.jobs.length := by
    have hk : k < y.jobs.length := by
      rcases Nat.lt_or_ge k y.jobs.length with h' | h'
      · exact h'
      · rw [List.getElem?_eq_none h'] at hjob; exact absurd hjob (by simp)
    rw [List.length_eraseIdx, if_pos hk]; omega
  have hone : y.jobs.length ≤ 1 → ∀ c, c < y.s.n - 1 → idleAt y (.step k status newW o) c = 1 := by
    intro h1 c hc
    rw [hidle c, hlk]
    have hnil : y.jobs.eraseIdx k = [] := List.eq_nil_of_length_eq_zero (by omega)
    rw [hnil] at hcR
    have hnR : sR.n = y.s.n := by
      have := hcR.lenL
      rw [← hlk, (slotWF_of_coreR hc2).lenL, hn2, hld.n] at this
      exact this.symm
    have hcn : c < sR.n - 1 := by rw [hnR]; exact hc
    have hnb : sR.locks[c]? ≠ some true := by
      intro hb
      have := (hcR.busy c hcn).mp hb
      simp [held] at this
    rw [if_pos (unlocked_of_not_locked sR.locks c (by rw [hcR.lenL]; omega) hnb)]
  rcases hrest with ⟨s3, job', ds, hp, rfl⟩ | rfl
  · obtain ⟨kp, _⟩ := prep_keep hp
    refine ⟨fw2.congr kp.frac kp.n kp.trajNum, ?_, ?_, ?_, ?_, ?_, ?_, hone⟩
    · intro hm c; rw [total_congr kp.frac kp.rows c, htot2 hm c]
    · show s3.cstep = _; rw [kp.cstep, hcs2, hlc]
    · show s3.n = _; rw [kp.n, hn2, hld.n]
    · show s3.workers = _; rw [kp.workers, hwo2, hlw]
    · show s3.toinitiate = _; rw [kp.toinitiate, hto2, hlt]
    · simp only [List.length_append, List.length_cons, List.length_nil]; omega
  · refine ⟨fw2, htot2, ?_, ?_, ?_, ?_, ?_, hone⟩
    · show s2.cstep = _; rw [hcs2, hlc]
    · show s2.n = _; rw [hn2, hld.n]
    · show s2.workers = _; rw [hwo2, hlw]
    · show s2.toinitiate = _; rw [hto2, hlt]
    · show (y.jobs.eraseIdx k).length ≤ _; omega

theorem start_totalR {y y' : Sys} {o : PickOutcome} {saved : Nat} (fw : FracWF y.s)
    (h : sysStep y (.start o saved) = .ok y') :
    FracWF y'.s ∧ (∀ c, total y'.s c = total y.s c) ∧ y'.s.cstep = y.s.cstep ∧ y'.s.n = y.s.n ∧
    y'.s.workers = y.s.workers ∧ y'.s.toinitiate = y.s.toinitiate - 1 ∧ 0 ≤ y'.s.toinitiate ∧
    y'.jobs.length = y.jobs.length + 1 := by
  obtain ⟨hgo, s2, job, ds, hp, rfl⟩ := start_ok h
  obtain ⟨hd, hc, hw, _⟩ := initiate_data y.s
  obtain ⟨ht, _⟩ := initiate_toinit y.s
  obtain ⟨ht1, ht2⟩ := ht hgo
  obtain ⟨kp, _⟩ := prep_keep hp
  refine ⟨(fw.congr hd.frac hd.n hd.trajNum).congr kp.frac kp.n kp.trajNum, ?_, ?_, ?_, ?_, ?_, ?_, ?_⟩
  · intro c; rw [total_congr kp.frac kp.rows c, total_congr hd.frac hd.rows c]
  · show s2.cstep = _; rw [kp.cstep, hc]
  · show s2.n = _; rw [kp.n, hd.n]
  · show s2.workers = _; rw [kp.workers, hw]
  · show s2.toinitiate = _; rw [kp.toinitiate, ht1]
  · show 0 ≤ s2.toinitiate; rw [kp.toinitiate]; exact ht2
  · simp

theorem initDone_totalR {y y' : Sys} (fw : FracWF y.s) (h : sysStep y .initDone = .ok y') :
    FracWF y'.s ∧ (∀ c, total y'.s c = total y.s c) ∧ y'.s.cstep = y.s.cstep ∧ y'.s.n = y.s.n ∧
    y'.s.workers = y.s.workers ∧ (0 ≤ y'.s.toinitiate → y'.s.toinitiate ≤ y.s.toinitiate) ∧
    y'.jobs = y.jobs := by
  obtain ⟨_, rfl⟩ := initDone_ok h
  obtain ⟨hd, hc, hw, _⟩ := initiate_data y.s
  obtain ⟨_, ht⟩ := initiate_toinit y.s
  exact ⟨fw.congr hd.frac hd.n hd.trajNum, fun c => total_congr hd.frac hd.rows c, hc, hd.n, hw, ht, rfl⟩

/-- **one scheduler event from an `InvR` state** (re-issue of recorded jobs included) -/
theorem sysStep_totalR {y y' : Sys} (ev : Ev) (hi : InvR y) (fw : FracWF y.s) (hj : JInv y)
    (h : sysStep y ev = .ok y') (hm : matchableAt y ev) :
    InvR y' ∧ FracWF y'.s ∧ JInv y' ∧ (∀ c, total y'.s c = total y.s c + idleAt y ev c) ∧
    y'.s.n = y.s.n ∧ y'.s.workers = y.s.workers ∧
    (y.s.workers = 1 → ∀ c, c < y.s.n - 1 → y'.s.cstep = y.s.cstep + idleAt y ev c) := by
  have hinv' : InvR y' := sysStep_preservesR ev hi h
  cases ev with
  | start o saved =>
    obtain ⟨fw', ht, hc, hn, hw, hto, hto0, hl⟩ := start_totalR fw h
    refine ⟨hinv', fw', ⟨?_, ?_⟩, ?_, hn, hw, ?_⟩
    · have := hj.init (by omega); rw [hl, hw]; push_cast; omega
    · intro _; have := hj.init (by omega); rw [hl, hw, hto]; push_cast; omega
    · intro c; rw [ht c]; simp [idleAt]
    · intro _ c _; rw [hc]; simp [idleAt]
  | initDone =>
    obtain ⟨fw', ht, hc, hn, hw, hto, hl⟩ := initDone_totalR fw h
    refine ⟨hinv', fw', ⟨?_, ?_⟩, ?_, hn, hw, ?_⟩
    · rw [hl, hw]; exact hj.le
    · intro h0
      have h1 := hto h0
      have := hj.init (by omega)
      rw [hl, hw]; omega
    · intro c; rw [ht c]; simp [idleAt]
    · intro _ c _; rw [hc]; simp [idleAt]
  | step k status newW o =>
    obtain ⟨fw', ht, hc, hn, hw, hto, hl, hone⟩ := step_totalR hi fw h
    refine ⟨hinv', fw', ⟨?_, ?_⟩, ht hm, hn, hw, ?_⟩
    · rw [hw]; have := hj.le; omega
    · intro h0; rw [hw, hto]; rw [hto] at h0; have := hj.init h0; omega
    · intro hw1 c hcn
      have : y.jobs.length ≤ 1 := by have := hj.le; rw [hw1] at this; omega
      rw [hc, hone this c hcn]

/-- **conservation over a history from any `InvR` state** -/
theorem run_totalR : ∀ (evs : List Ev) {y0 y : Sys}, InvR y0 → FracWF y0.s → JInv y0 → run y0 evs = .ok y →
    MatchableAlong y0 evs →
    InvR y ∧ FracWF y.s ∧ JInv y ∧ (∀ c, total y.s c = total y0.s c + idleSteps y0 evs c) ∧ y.s.n = y0.s.n ∧
    y.s.workers = y0.s.workers ∧
    (y0.s.workers = 1 → ∀ c, c < y0.s.n - 1 → y.s.cstep = y0.s.cstep + idleSteps y0 evs c) := by
  intro evs
  induction evs with
  | nil =>
    intro y0 y hi fw hj h _
    simp only [run, Except.ok.injEq] at h
    subst h
    exact ⟨hi, fw, hj, fun c => by simp [idleSteps], rfl, rfl, fun _ c _ => by simp [idleSteps]⟩
  | cons ev rest ih =>
    intro y0 y hi fw hj h hm
    unfold run at h
    unfold MatchableAlong at hm
    obtain ⟨hm1, hm2⟩ := hm
    split at h
    · exact absurd h (by simp)
    rename_i y1 hstep
    rw [hstep] at hm2
    simp only [] at hm2
    obtain ⟨hi1, fw1, hj1, ht1, hn1, hw1, hc1⟩ := sysStep_totalR ev hi fw hj hstep hm1
    obtain ⟨hi2, fw2, hj2, ht2, hn2, hw2, hc2⟩ := ih hi1 fw1 hj1 h hm2
    refine ⟨hi2, fw2, hj2, ?_, hn2.trans hn1, hw2.trans hw1, ?_⟩
    · intro c
      rw [ht2 c, ht1 c]
      simp only [idleSteps, hstep]
      push_cast
      ring
    · intro hw c hc
      rw [hc2 (hw1.trans hw) c (by rw [hn1]; exact hc), hc1 hw c hc]
      simp only [idleSteps, hstep]
      omega

/-- the table invariant of the restored state (no hypothesis on `locked`) -/
theorem restore_fracWF {y1 : Sys} {s2 : St} {workers tsteps : Nat} {occ : List (List Int)}
    {ensEng : List (List Nat)} {weightOf : Nat → List Rat} (hi : HInv y1) (r : RInv y1)
    (h : restore (persist y1.s) y1.s.n workers tsteps occ ensEng weightOf = .ok s2) : FracWF s2 := by
  obtain ⟨hk, hv, _, hn, ht⟩ := restore_frac h
  have hsub : ∀ pn, some pn ∈ livePaths y1.s → some pn ∈ y1.s.trajs :=
    fun pn hm => (List.dropLast_sublist _).subset hm
  have hlnd : ((livePaths y1.s).filterMap id).Nodup :=
    r.liveNodup.sublist ((List.dropLast_sublist _).filterMap id)
  have hbound : ∀ pn, some pn ∈ livePaths y1.s → pn < y1.s.trajNum :=
    fun pn hm => hi.fw.bound pn (r.liveFrac pn (hsub pn hm))
  constructor
  · exact hk.nodup_iff.mpr hlnd
  · intro kv hkv
    rw [hv kv hkv, hn]
    cases hl : y1.s.frac.lookup kv.1 with
    | none => simp
    | some v => exact hi.fw.flen _ (Frac.lookup_mem hl)
  · intro k hkm
    rw [ht]
    exact hbound k (mem_fm.mp (hk.mem_iff.mp hkm))

/-- **The state rebuilt from the restart image of any state with the C04 invariants — whatever is recorded as in
    flight — is a start state for the conservation argument again**: C03's `InitR` (recorded jobs reserved for
    re-issue), C05's family invariant, the table invariant, nothing in flight, the column totals of the table
    unchanged, an empty model row list. -/
theorem restore_inflight {y1 : Sys} {s2 : St} {workers tsteps : Nat} {occ : List (List Int)}
    {ensEng : List (List Nat)} (hr : Reach4 y1) (hrec : RecInv y1)
    (h : restore (persist y1.s) y1.s.n workers tsteps occ ensEng (fun pn => (y1.s.wts.lookup pn).getD []) = .ok s2) :
    InitR ⟨s2, []⟩ ∧ Inv5 ⟨s2, []⟩ ∧ FracWF s2 ∧ JInv ⟨s2, []⟩ ∧
      (∀ c, colTotal s2.frac c = colTotal y1.s.frac c) ∧ s2.rows = [] ∧ s2.n = y1.s.n ∧ s2.workers = workers := by
  have hc := hr.hinv.inv.core
  have hinitR : InitR ⟨s2, []⟩ := restore_is_initR (Inv.toInvR hr.hinv.inv) hrec workers tsteps occ ensEng _ s2 h
  have h5 : Init5R ⟨s2, []⟩ := restore_init5R hr.inv5.inv.core hr.inv5.fam workers tsteps occ ensEng h hinitR
  have fw2 := restore_fracWF hr.hinv hr.rinv h
  obtain ⟨_, _, hrows, hn2, _⟩ := restore_frac h
  have hio := imgOk_persistD hc.toR hr.tidy.tidy hr.hinv.fw.keys hr.rinv.liveNodup
  have htab : (y1.s.frac.map Prod.fst).Perm ((livePaths y1.s).filterMap id) := hio.act.symm
  have hw : s2.workers = workers := by
    have h' := h
    rw [restore_eq] at h'
    rw [loadPaths_workers h']; rfl
  refine ⟨hinitR, h5.inv5, fw2, ⟨?_, ?_⟩, fun c => restore_colTotal h hr.hinv.fw.keys htab c, hrows, hn2, hw⟩
  · show ((([] : List Job).length : Nat) : Int) ≤ (s2.workers : Int)
    simp
  · intro _
    show ((([] : List Job).length : Nat) : Int) + s2.toinitiate ≤ (s2.workers : Int)
    have := hinitR.toinit
    simp only [] at this
    rw [this]; simp

/-- the `locked` record of the mid-state of a completed step (the state whose image `write_toml` stores) lists
    exactly the jobs still in flight -/
theorem mid_recInv {y y' : Sys} {k : Nat} {status : Status} {newW : List (List Rat)} {o : PickOutcome}
    (hi : InvR y) (hr : RecInv y) (_h : sysStep y (.step k status newW o) = .ok y') :
    ∀ job s2 pns it, y.jobs[k]? = some job →
      treatOutput (loop y.s).1 job status newW (sortFuel (loop y.s).1) = .ok (s2, pns, it) →
      RecInv ⟨s2, y.jobs.eraseIdx k⟩ := by
  intro job s2 pns it hjob htreat
  obtain ⟨hle, hltn, _, _, _⟩ := loop_coreEqR y.s
  have hlk1 : (loop y.s).1.locked = y.s.locked := by
    unfold loop; split <;> rfl
  have hperm := held_perm_erase y.jobs k job hjob
  have hc1 : CoreR (loop y.s).1 (heldJob job ++ held (y.jobs.eraseIdx k)) (loop y.s).1.trajNum := by
    rw [hltn]
    exact (hi.core.congr hle).perm hperm
  have hjperm := perm_cons_eraseIdx y.jobs k job hjob
  have hd : DisjRecs (loop y.s).1.locked := by rw [hlk1]; exact hr.disj hi
  have hl2 := treatOutput_locked job status newW _ pns it hd htreat
  have hne : job.picked ≠ [] := by
    rcases (hi.jobs job (List.mem_of_getElem? hjob)).shape with h1 | h1
    · intro h0; rw [h0] at h1; simp at h1
    · intro h0; rw [h0] at h1; simp at h1
  have hnd : ((recOf job :: (y.jobs.eraseIdx k).map recOf).flatMap (·.2)).Nodup := by
    have hp : ((y.jobs.map recOf).flatMap (·.2)).Perm
        ((recOf job :: (y.jobs.eraseIdx k).map recOf).flatMap (·.2)) :=
      (by simpa using hjperm.map recOf : (y.jobs.map recOf).Perm _).flatMap_right _
    rw [← hp.nodup_iff, recs_flat]
    exact inflight_pns_nodupR hi.core
  show s2.locked.Perm ((y.jobs.eraseIdx k).map recOf)
  rw [hl2, hlk1]
  exact keepRecs_perm job _ _ hne (hr.trans (by simpa using hjperm.map recOf)) hnd

/-- `RecInv` along a history from a fresh start -/
theorem reach_recInv {y0 y : Sys} {evs : List Ev} (h0 : Init y0) (hl : y0.s.locked = [])
    (hr : run y0 evs = .ok y) : RecInv y := by
  have hrec0 : RecInv y0 := by
    unfold RecInv
    rw [hl, h0.jobs]
    exact List.Perm.refl _
  exact run_recInv evs h0.invR hrec0 hr

end Infretis.Repex.Data
