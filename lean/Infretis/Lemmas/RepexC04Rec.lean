import Infretis.Lemmas.RepexC03Perm
import Mathlib.Algebra.BigOperators.Group.List.Basic
import Mathlib.Algebra.Order.Field.Rat
import Mathlib.Tactic.Ring
import Mathlib.Tactic.Linarith
/-!
# C04 — the weight-recording step `recordFrac` and the data-file step `writeRows`

* `colTotal l c`     : column total `Σ_key l[key][c]` of an association list of fraction vectors
* `rowsTotal rows c` : the same for the `frac` part of the data-file rows
* `probMatrix_col_sum` : a column of `probMatrix` sums to 1 over all rows if the column is idle
                         (and the idle block has a non-zero permanent), to 0 otherwise
* `recordFrac_*`     : one recording adds the rows of `probMatrix` of the idle live paths
* `writeRows_*`      : the data-file step moves vectors from `frac` to `rows`

Only `PermSpec`/`PermEmbed` (C02) and the `probMatrix` shape lemmas of `RepexC03Perm` are used.
-/
namespace Infretis.Repex.Frac
open Infretis.Perm

/-! ### column totals -/

/-- `Σ_key l[key][c]` -/
def colTotal (l : List (Nat × List Rat)) (c : Nat) : Rat := (l.map (fun kv => kv.2.getD c 0)).sum

/-- column total of the `frac` part of the data-file rows -/
def rowsTotal (rows : List (Nat × List Rat × List Rat)) (c : Nat) : Rat :=
  (rows.map (fun r => r.2.1.getD c 0)).sum

/-- entry `c` of the vector stored under key `k` (0 when there is none) -/
def fracAt (l : List (Nat × List Rat)) (k c : Nat) : Rat := ((l.lookup k).getD []).getD c 0

@[simp] theorem colTotal_nil (c : Nat) : colTotal [] c = 0 := rfl

@[simp] theorem colTotal_cons (kv : Nat × List Rat) (l : List (Nat × List Rat)) (c : Nat) :
    colTotal (kv :: l) c = kv.2.getD c 0 + colTotal l c := by
  simp [colTotal]

@[simp] theorem colTotal_append (l₁ l₂ : List (Nat × List Rat)) (c : Nat) :
    colTotal (l₁ ++ l₂) c = colTotal l₁ c + colTotal l₂ c := by
  simp [colTotal]

@[simp] theorem rowsTotal_nil (c : Nat) : rowsTotal [] c = 0 := rfl

@[simp] theorem rowsTotal_append (l₁ l₂ : List (Nat × List Rat × List Rat)) (c : Nat) :
    rowsTotal (l₁ ++ l₂) c = rowsTotal l₁ c + rowsTotal l₂ c := by
  simp [rowsTotal]

theorem getD_replicate_zero (n c : Nat) : (List.replicate n (0 : Rat)).getD c 0 = 0 := by
  rw [List.getD_eq_getElem?_getD, List.getElem?_replicate]
  split <;> rfl

/-! ### `addVec`, `updFrac` -/

theorem length_addVec (a b : List Rat) (h : a.length = b.length) : (addVec a b).length = a.length := by
  simp [addVec, h]

theorem getD_addVec (a b : List Rat) (h : a.length = b.length) (c : Nat) :
    (addVec a b).getD c 0 = a.getD c 0 + b.getD c 0 := by
  simp only [addVec, List.getD_eq_getElem?_getD, List.getElem?_zipWith]
  rcases Nat.lt_or_ge c a.length with hc | hc
  · rw [List.getElem?_eq_getElem hc, List.getElem?_eq_getElem (h ▸ hc)]
    rfl
  · rw [List.getElem?_eq_none hc, List.getElem?_eq_none (h ▸ hc)]
    simp

/-- the update of `updFrac` as a function on key/vector pairs -/
def bump (pn : Nat) (row : List Rat) (kv : Nat × List Rat) : Nat × List Rat :=
  if kv.1 == pn then (kv.1, addVec kv.2 row) else kv

theorem updFrac_ok {frac f' : List (Nat × List Rat)} {pn : Nat} {row : List Rat}
    (h : updFrac frac pn row = .ok f') : pn ∈ frac.map Prod.fst ∧ f' = frac.map (bump pn row) := by
  unfold updFrac at h
  split at h
  · rename_i hany
    simp only [Except.ok.injEq] at h
    subst h
    constructor
    · simp only [List.any_eq_true, beq_iff_eq] at hany
      obtain ⟨x, hx, rfl⟩ := hany
      exact List.mem_map_of_mem hx
    · apply List.map_congr_left
      intro kv _
      obtain ⟨k, v⟩ := kv
      simp only [bump]
  · exact absurd h (by simp)

theorem bump_fst (pn : Nat) (row : List Rat) (kv : Nat × List Rat) : (bump pn row kv).1 = kv.1 := by
  unfold bump; split <;> rfl

theorem map_bump_keys (pn : Nat) (row : List Rat) (l : List (Nat × List Rat)) :
    (l.map (bump pn row)).map Prod.fst = l.map Prod.fst := by
  simp [List.map_map, Function.comp_def, bump_fst]

theorem map_bump_of_not_mem (pn : Nat) (row : List Rat) (l : List (Nat × List Rat))
    (h : pn ∉ l.map Prod.fst) : l.map (bump pn row) = l := by
  induction l with
  | nil => rfl
  | cons kv t ih =>
    simp only [List.map_cons, List.mem_cons, not_or] at h
    rw [List.map_cons, ih h.2]
    congr 1
    unfold bump
    rw [if_neg]
    simpa using fun e => h.1 e.symm

theorem map_bump_len (pn n : Nat) (row : List Rat) (l : List (Nat × List Rat)) (hr : row.length = n)
    (hl : ∀ kv ∈ l, kv.2.length = n) : ∀ kv ∈ l.map (bump pn row), kv.2.length = n := by
  intro kv hkv
  simp only [List.mem_map] at hkv
  obtain ⟨kv0, h0, rfl⟩ := hkv
  unfold bump
  split
  · simp only
    rw [length_addVec _ _ (by rw [hl kv0 h0, hr])]
    exact hl kv0 h0
  · exact hl kv0 h0

theorem colTotal_map_bump (pn n : Nat) (row : List Rat) (l : List (Nat × List Rat)) (c : Nat)
    (hr : row.length = n) (hl : ∀ kv ∈ l, kv.2.length = n) (hnd : (l.map Prod.fst).Nodup)
    (hm : pn ∈ l.map Prod.fst) : colTotal (l.map (bump pn row)) c = colTotal l c + row.getD c 0 := by
  induction l with
  | nil => simp at hm
  | cons kv t ih =>
    simp only [List.map_cons, List.nodup_cons] at hnd
    simp only [List.map_cons, colTotal_cons]
    by_cases hk : kv.1 = pn
    · have hnot : pn ∉ t.map Prod.fst := hk ▸ hnd.1
      rw [map_bump_of_not_mem pn row t hnot]
      have : (bump pn row kv).2 = addVec kv.2 row := by simp [bump, hk]
      rw [this, getD_addVec _ _ (by rw [hl kv List.mem_cons_self, hr])]
      ring
    · have hm' : pn ∈ t.map Prod.fst := by
        simp only [List.map_cons, List.mem_cons] at hm
        rcases hm with hm | hm
        · exact absurd hm.symm hk
        · exact hm
      rw [ih (fun kv h => hl kv (List.mem_cons_of_mem _ h)) hnd.2 hm']
      have : bump pn row kv = kv := by simp [bump, hk]
      rw [this]
      ring

theorem lookup_map_bump (pn : Nat) (row : List Rat) (l : List (Nat × List Rat)) (k : Nat) :
    (l.map (bump pn row)).lookup k = (l.lookup k).map (fun v => if k = pn then addVec v row else v) := by
  induction l with
  | nil => rfl
  | cons kv t ih =>
    obtain ⟨a, v⟩ := kv
    simp only [List.map_cons, List.lookup_cons]
    have h1 : (bump pn row (a, v)).1 = a := bump_fst _ _ _
    rw [show (bump pn row (a, v)) = ((bump pn row (a, v)).1, (bump pn row (a, v)).2) from rfl, h1]
    simp only [List.lookup_cons]
    by_cases hka : k = a
    · subst hka
      simp only [beq_self_eq_true, Option.map_some]
      congr 1
      unfold bump
      by_cases hkp : k = pn
      · simp [hkp]
      · simp [hkp]
    · have : (k == a) = false := by simpa using hka
      simp only [this]
      exact ih

theorem lookup_mem {l : List (Nat × List Rat)} {k : Nat} {v : List Rat} (h : l.lookup k = some v) :
    (k, v) ∈ l := by
  induction l with
  | nil => simp at h
  | cons kv t ih =>
    obtain ⟨a, w⟩ := kv
    simp only [List.lookup_cons] at h
    by_cases hka : k = a
    · subst hka
      simp only [beq_self_eq_true, Option.some.injEq] at h
      subst h
      exact List.mem_cons_self
    · have : (k == a) = false := by simpa using hka
      simp only [this] at h
      exact List.mem_cons_of_mem _ (ih h)

theorem lookup_isSome_of_mem {l : List (Nat × List Rat)} {k : Nat} (h : k ∈ l.map Prod.fst) :
    ∃ v, l.lookup k = some v := by
  induction l with
  | nil => simp at h
  | cons kv t ih =>
    obtain ⟨a, w⟩ := kv
    simp only [List.lookup_cons]
    by_cases hka : k = a
    · subst hka; exact ⟨w, by simp⟩
    · have : (k == a) = false := by simpa using hka
      simp only [this]
      simp only [List.map_cons, List.mem_cons] at h
      exact ih (h.resolve_left hka)

theorem lookup_none_of_not_mem {l : List (Nat × List Rat)} {k : Nat} (h : k ∉ l.map Prod.fst) :
    l.lookup k = none := by
  cases hl : l.lookup k with
  | none => rfl
  | some v => exact absurd (List.mem_map_of_mem (f := Prod.fst) (lookup_mem hl)) h

theorem fracAt_map_bump (pn n : Nat) (row : List Rat) (l : List (Nat × List Rat)) (k c : Nat)
    (hr : row.length = n) (hl : ∀ kv ∈ l, kv.2.length = n) :
    fracAt (l.map (bump pn row)) k c
      = fracAt l k c + (if k = pn ∧ k ∈ l.map Prod.fst then row.getD c 0 else 0) := by
  unfold fracAt
  rw [lookup_map_bump]
  cases hlk : l.lookup k with
  | none =>
    have : k ∉ l.map Prod.fst := by
      intro hm
      obtain ⟨v, hv⟩ := lookup_isSome_of_mem hm
      rw [hv] at hlk; exact absurd hlk (by simp)
    simp [this]
  | some v =>
    have hm : k ∈ l.map Prod.fst := List.mem_map_of_mem (f := Prod.fst) (lookup_mem hlk)
    simp only [Option.map_some, Option.getD_some]
    by_cases hkp : k = pn
    · rw [if_pos hkp, if_pos ⟨hkp, hm⟩, getD_addVec _ _ (by rw [hl _ (lookup_mem hlk), hr])]
    · rw [if_neg hkp, if_neg (fun h => hkp h.1)]
      ring

/-! ### column sums of `probMatrix` -/

theorem rank_cons_succ (l : Bool) (ls : List Bool) (i : Nat) :
    rank (l :: ls) (i + 1) = (if l then 0 else 1) + rank ls i := by
  cases l <;> simp [rank] <;> omega

theorem nIdle_cons (l : Bool) (ls : List Bool) : nIdle (l :: ls) = (if l then 0 else 1) + nIdle ls := by
  cases l <;> simp [nIdle] <;> omega

/-- re-indexing a sum over the idle slots by their position in the idle block -/
theorem sum_idle_rank (locks : List Bool) (g : Nat → Rat) :
    ((List.range locks.length).map
        (fun i => if locks[i]? = some false then g (rank locks i) else 0)).sum
      = ((List.range (nIdle locks)).map g).sum := by
  induction locks generalizing g with
  | nil => simp [nIdle]
  | cons l ls ih =>
    rw [List.length_cons, List.range_succ_eq_map, List.map_cons, List.sum_cons, List.map_map]
    cases l with
    | true =>
      have h1 : ((fun i => if (true :: ls)[i]? = some false then g (rank (true :: ls) i) else 0) ∘ Nat.succ)
          = (fun i => if ls[i]? = some false then g (rank ls i) else 0) := by
        funext i
        simp [rank_cons_succ]
      rw [h1, ih g]
      simp [nIdle_cons]
    | false =>
      have h1 : ((fun i => if (false :: ls)[i]? = some false then g (rank (false :: ls) i) else 0) ∘ Nat.succ)
          = (fun i => if ls[i]? = some false then (fun a => g (a + 1)) (rank ls i) else 0) := by
        funext i
        simp [rank_cons_succ, Nat.add_comm]
      rw [h1, ih (fun a => g (a + 1))]
      have h2 : nIdle (false :: ls) = nIdle ls + 1 := by simp [nIdle_cons, Nat.add_comm]
      rw [h2, List.range_succ_eq_map, List.map_cons, List.sum_cons, List.map_map]
      simp [rank, Function.comp_def]

theorem probMatrix_getD_row (W : Mat) (locks : List Bool) (hW : W.length = locks.length) (i : Nat) :
    (i < locks.length ∧ ((probMatrix W locks).getD i []).length = locks.length) ∨
      (locks.length ≤ i ∧ (probMatrix W locks).getD i [] = []) := by
  rcases Nat.lt_or_ge i locks.length with h | h
  · left
    refine ⟨h, ?_⟩
    have hl : i < (probMatrix W locks).length := by rw [probMatrix_length W locks hW]; exact h
    rw [List.getD_eq_getElem?_getD, List.getElem?_eq_getElem hl]
    exact probMatrix_row_length W locks hW _ (List.getElem_mem hl)
  · right
    refine ⟨h, ?_⟩
    rw [List.getD_eq_getElem?_getD, List.getElem?_eq_none (by rw [probMatrix_length W locks hW]; exact h)]
    rfl

/-- zero outside the idle block, including outside the matrix -/
theorem probMatrix_zero_of_not_idle (W : Mat) (locks : List Bool) (hW : W.length = locks.length)
    (i c : Nat) (h : locks[i]? ≠ some false ∨ locks[c]? ≠ some false) :
    entry (probMatrix W locks) i c = 0 := by
  rcases probMatrix_getD_row W locks hW i with ⟨hi, hlen⟩ | ⟨hi, hnil⟩
  · rcases Nat.lt_or_ge c locks.length with hc | hc
    · apply probMatrix_busy W locks hW
      rcases h with h | h
      · left
        rcases bool_cases locks i hi with h' | h'
        · exact h'
        · exact absurd h' h
      · right
        rcases bool_cases locks c hc with h' | h'
        · exact h'
        · exact absurd h' h
    · unfold entry
      rw [List.getD_eq_getElem?_getD (l := List.getD _ _ _), List.getElem?_eq_none (by rw [hlen]; exact hc)]
      rfl
  · unfold entry
    rw [hnil]
    rfl
where
  bool_cases (l : List Bool) (i : Nat) (hi : i < l.length) : l[i]? = some true ∨ l[i]? = some false := by
    rw [List.getElem?_eq_getElem hi]
    cases l[i] <;> simp

/-- **Column sums of the swap-probability matrix**: an idle column sums to one over all slots
    (when the idle block has a non-zero permanent), every other column to zero. -/
theorem probMatrix_col_sum (W : Mat) (locks : List Bool) (hW : W.length = locks.length)
    (hM : permC (idle W locks) ≠ 0) (c : Nat) :
    ((List.range locks.length).map (fun i => entry (probMatrix W locks) i c)).sum
      = if locks[c]? = some false then 1 else 0 := by
  by_cases hc : locks[c]? = some false
  · rw [if_pos hc]
    have hterm : ∀ i ∈ List.range locks.length, entry (probMatrix W locks) i c
        = (if locks[i]? = some false
            then (fun a => pSpec (idle W locks) a (rank locks c)) (rank locks i) else 0) := by
      intro i _
      by_cases hi : locks[i]? = some false
      · rw [if_pos hi, probMatrix_idle W locks hW i c hi hc]
      · rw [if_neg hi, probMatrix_zero_of_not_idle W locks hW i c (Or.inl hi)]
    rw [List.map_congr_left hterm, sum_idle_rank locks (fun a => pSpec (idle W locks) a (rank locks c)),
      ← idle_length W locks hW]
    exact spec_col_sum (idle W locks) (rank locks c)
      (by rw [idle_length W locks hW]; exact rank_lt locks c hc) hM
  · rw [if_neg hc]
    have hterm : ∀ i ∈ List.range locks.length, entry (probMatrix W locks) i c = (fun _ => (0 : Rat)) i :=
      fun i _ => probMatrix_zero_of_not_idle W locks hW i c (Or.inr hc)
    rw [List.map_congr_left hterm]
    simp

/-! ### the recording loop -/

/-- what the loop of "record weights" adds to column `c` in total -/
def recContrib (lockedPs : List (Option Nat)) (P : Mat) (c : Nat) (L : List (Nat × Option Nat)) : Rat :=
  (L.map (fun il => if lockedPs.contains il.2 then 0 else entry P il.1 c)).sum

/-- what it adds to entry `c` of the vector of path `k` -/
def recContribAt (lockedPs : List (Option Nat)) (P : Mat) (k c : Nat) (L : List (Nat × Option Nat)) : Rat :=
  (L.map (fun il => if lockedPs.contains il.2 then 0
                    else if il.2 = some k then entry P il.1 c else 0)).sum

theorem go_spec (lockedPs : List (Option Nat)) (P : Mat) (n : Nat) :
    ∀ (L : List (Nat × Option Nat)) (frac f' : List (Nat × List Rat)),
      (frac.map Prod.fst).Nodup → (∀ kv ∈ frac, kv.2.length = n) →
      (∀ il ∈ L, (P.getD il.1 []).length = n) →
      recordFrac.go lockedPs P frac L = .ok f' →
      f'.map Prod.fst = frac.map Prod.fst ∧ (∀ kv ∈ f', kv.2.length = n) ∧
      (∀ c, colTotal f' c = colTotal frac c + recContrib lockedPs P c L) ∧
      (∀ k c, fracAt f' k c = fracAt frac k c + recContribAt lockedPs P k c L) ∧
      (∀ k, (∀ il ∈ L, lockedPs.contains il.2 = false → il.2 ≠ some k) →
        f'.lookup k = frac.lookup k) := by
  intro L
  induction L with
  | nil =>
    intro frac f' hnd hl _ h
    simp only [recordFrac.go, Except.ok.injEq] at h
    subst h
    exact ⟨rfl, hl, fun c => by simp [recContrib], fun k c => by simp [recContribAt], fun _ _ => rfl⟩
  | cons il rest ih =>
    intro frac f' hnd hl hP h
    obtain ⟨idx, live⟩ := il
    have hPr : ∀ il ∈ rest, (P.getD il.1 []).length = n :=
      fun il h => hP il (List.mem_cons_of_mem _ h)
    unfold recordFrac.go at h
    by_cases hc : lockedPs.contains live = true
    · rw [if_pos hc] at h
      obtain ⟨h1, h2, h3, h4, h5⟩ := ih frac f' hnd hl hPr h
      refine ⟨h1, h2, ?_, ?_, ?_⟩
      · intro c; rw [h3 c]; simp only [recContrib, List.map_cons, List.sum_cons, hc, if_true, zero_add]
      · intro k c; rw [h4 k c]; simp only [recContribAt, List.map_cons, List.sum_cons, hc, if_true, zero_add]
      · intro k hk; exact h5 k (fun il h => hk il (List.mem_cons_of_mem _ h))
    · rw [if_neg hc] at h
      cases live with
      | none => exact absurd h (by simp)
      | some pn =>
        simp only at h
        split at h
        · exact absurd h (by simp)
        rename_i f1 hupd
        obtain ⟨hmem, rfl⟩ := updFrac_ok hupd
        have hrow : (P.getD idx []).length = n := hP (idx, some pn) List.mem_cons_self
        have hnd1 : ((frac.map (bump pn (P.getD idx []))).map Prod.fst).Nodup := by
          rw [map_bump_keys]; exact hnd
        have hl1 := map_bump_len pn n _ frac hrow hl
        obtain ⟨h1, h2, h3, h4, h5⟩ := ih _ f' hnd1 hl1 hPr h
        have hcf : lockedPs.contains (some pn) = false := by simpa using hc
        refine ⟨by rw [h1, map_bump_keys], h2, ?_, ?_, ?_⟩
        · intro c
          rw [h3 c, colTotal_map_bump pn n _ frac c hrow hl hnd hmem]
          simp only [recContrib, List.map_cons, List.sum_cons, hcf, entry]
          simp only [Bool.false_eq_true, if_false]
          ring
        · intro k c
          rw [h4 k c, fracAt_map_bump pn n _ frac k c hrow hl]
          simp only [recContribAt, List.map_cons, List.sum_cons, hcf, entry]
          simp only [Bool.false_eq_true, if_false]
          by_cases hkp : k = pn
          · subst hkp
            simp [hmem]
            ring
          · have : ¬ (some pn = some k) := by simpa using fun e => hkp e.symm
            simp [hkp, this]
        · intro k hk
          have hkp : k ≠ pn := by
            intro e
            exact hk (idx, some pn) List.mem_cons_self hcf (by rw [e])
          rw [h5 k (fun il h => hk il (List.mem_cons_of_mem _ h)), lookup_map_bump]
          simp [hkp]

/-! ### `recordFrac` on a well-formed state -/

/-- slot/lock well-formedness at recording time (all of it follows from C03's invariant `Core`) -/
structure SlotWF (s : St) : Prop where
  lenW : s.W.length = s.n
  lenT : s.trajs.length = s.n
  lenL : s.locks.length = s.n
  ghost : s.locks[s.n - 1]? = some true
  live : ∀ i, i < s.n - 1 → s.locks[i]? = some false → ∃ pn, s.trajs[i]? = some (some pn)
  inj : ∀ a b pn, a < s.n - 1 → b < s.n - 1 →
    s.trajs[a]? = some (some pn) → s.trajs[b]? = some (some pn) → a = b

/-- the idle block admits a perfect matching with non-zero weights (its permanent is non-zero);
    invariant of the sampler by C05 -/
def Matchable (s : St) : Prop := permC (idle s.W s.locks) ≠ 0

theorem SlotWF.npos {s : St} (wf : SlotWF s) : s.n - 1 + 1 = s.n := by
  have h := wf.ghost
  have : s.n - 1 < s.locks.length := by
    rcases Nat.lt_or_ge (s.n - 1) s.locks.length with h' | h'
    · exact h'
    · rw [List.getElem?_eq_none h'] at h; exact absurd h (by simp)
  rw [wf.lenL] at this
  omega

theorem recordFrac_ok {s s' : St} (h : recordFrac s = .ok s') :
    ∃ f, recordFrac.go (lockedPaths s) (prob s) s.frac
        ((List.range (livePaths s).length).zip (livePaths s)) = .ok f ∧ s' = { s with frac := f } := by
  unfold recordFrac at h
  simp only [] at h
  split at h
  · exact absurd h (by simp)
  · rename_i f hf
    simp only [Except.ok.injEq] at h
    exact ⟨f, hf, h.symm⟩

theorem range_zip_eq_map {α : Type} (l : List α) (d : α) :
    (List.range l.length).zip l = (List.range l.length).map (fun i => (i, l.getD i d)) := by
  apply List.ext_getElem
  · simp
  · intro i h1 h2
    have hi : i < l.length := by simpa using h1
    simp [List.getD_eq_getElem?_getD, List.getElem?_eq_getElem hi]

theorem exists_of_mem_lockedPaths {s : St} {x : Option Nat} (h : x ∈ lockedPaths s) :
    ∃ j, j < s.trajs.length - 1 ∧ j < s.locks.length - 1 ∧ s.trajs[j]? = some x ∧
      s.locks[j]? = some true := by
  unfold lockedPaths at h
  rw [List.mem_filterMap] at h
  obtain ⟨⟨t, l⟩, hm, hx⟩ := h
  obtain ⟨j, hj⟩ := List.getElem?_of_mem hm
  rw [List.getElem?_zip_eq_some] at hj
  obtain ⟨h1, h2⟩ := hj
  rw [List.getElem?_dropLast] at h1 h2
  split at h1
  · split at h2
    · rename_i hj1 hj2
      cases l with
      | false => simp at hx
      | true =>
        simp only [if_true, Option.some.injEq] at hx
        subst hx
        exact ⟨j, hj1, hj2, h1, h2⟩
    · exact absurd h2 (by simp)
  · exact absurd h1 (by simp)

theorem livePaths_getD {s : St} (wf : SlotWF s) (i : Nat) (hi : i < s.n - 1) :
    (livePaths s).getD i none = s.trajs.getD i none := by
  unfold livePaths
  rw [List.getD_eq_getElem?_getD, List.getD_eq_getElem?_getD, List.getElem?_dropLast,
    if_pos (by rw [wf.lenT]; exact hi)]

/-- an idle slot's path is not reported busy by `locked_paths()` -/
theorem not_locked_of_idle {s : St} (wf : SlotWF s) (i : Nat) (hi : i < s.n - 1)
    (hl : s.locks[i]? = some false) : (lockedPaths s).contains (s.trajs.getD i none) = false := by
  obtain ⟨pn, hpn⟩ := wf.live i hi hl
  rw [List.getD_eq_getElem?_getD, hpn]
  simp only [Option.getD_some]
  rw [Bool.eq_false_iff]
  intro hc
  rw [List.contains_iff_mem] at hc
  obtain ⟨j, hj1, _, hj3, hj4⟩ := exists_of_mem_lockedPaths hc
  rw [wf.lenT] at hj1
  have := wf.inj j i pn hj1 hi hj3 hpn
  subst this
  rw [hl] at hj4
  exact absurd hj4 (by simp)

theorem prob_row_length {s : St} (wf : SlotWF s) (i : Nat) (hi : i < s.n - 1) :
    ((prob s).getD i []).length = s.n := by
  unfold prob
  rcases probMatrix_getD_row s.W s.locks (by rw [wf.lenW, wf.lenL]) i with ⟨_, h⟩ | ⟨h, _⟩
  · rw [h, wf.lenL]
  · rw [wf.lenL] at h; omega

/-- the (index, path) list the recording loop runs over -/
theorem recList_eq {s : St} (wf : SlotWF s) :
    (List.range (livePaths s).length).zip (livePaths s)
      = (List.range (s.n - 1)).map (fun i => (i, (livePaths s).getD i none)) := by
  rw [range_zip_eq_map _ none]
  have : (livePaths s).length = s.n - 1 := by simp [livePaths, wf.lenT]
  rw [this]

theorem recContrib_eq {s : St} (wf : SlotWF s) (c : Nat) :
    recContrib (lockedPaths s) (prob s) c
        ((List.range (s.n - 1)).map (fun i => (i, (livePaths s).getD i none)))
      = ((List.range s.locks.length).map (fun i => entry (prob s) i c)).sum := by
  have hW : s.W.length = s.locks.length := by rw [wf.lenW, wf.lenL]
  unfold recContrib
  rw [List.map_map, wf.lenL, ← wf.npos, List.range_succ, List.map_append, List.sum_append]
  have hlast : entry (prob s) (s.n - 1) c = 0 :=
    probMatrix_zero_of_not_idle s.W s.locks hW _ _ (Or.inl (by rw [wf.ghost]; simp))
  simp only [List.map_cons, List.map_nil, List.sum_cons, List.sum_nil, hlast, add_zero]
  congr 1
  apply List.map_congr_left
  intro i hi
  have hi : i < s.n - 1 := List.mem_range.mp hi
  simp only [Function.comp_def]
  rw [livePaths_getD wf i hi]
  by_cases hl : s.locks[i]? = some false
  · rw [not_locked_of_idle wf i hi hl]
    simp
  · rw [show entry (prob s) i c = 0 from probMatrix_zero_of_not_idle s.W s.locks hW _ _ (Or.inl hl)]
    simp

theorem sum_range_single (m i : Nat) (f : Nat → Rat) (hi : i < m)
    (h : ∀ j, j < m → j ≠ i → f j = 0) : ((List.range m).map f).sum = f i := by
  induction m with
  | zero => omega
  | succ m ih =>
    rw [List.range_succ, List.map_append, List.sum_append]
    simp only [List.map_cons, List.map_nil, List.sum_cons, List.sum_nil, add_zero]
    by_cases him : i = m
    · subst him
      have hz : ∀ j ∈ List.range i, f j = (fun _ => (0 : Rat)) j := by
        intro j hj
        have := List.mem_range.mp hj
        exact h j (by omega) (by omega)
      rw [List.map_congr_left hz]
      simp
    · rw [ih (by omega) (fun j hj hne => h j (by omega) hne), h m (by omega) (fun e => him e.symm)]
      ring

theorem mem_lockedPaths_of_locked {s : St} (wf : SlotWF s) (i : Nat) (hi : i < s.n - 1)
    (hl : s.locks[i]? = some true) : s.trajs.getD i none ∈ lockedPaths s := by
  unfold lockedPaths
  rw [List.mem_filterMap]
  have hiT : i < s.trajs.length := by rw [wf.lenT]; omega
  refine ⟨(s.trajs.getD i none, true), ?_, by simp⟩
  apply List.mem_of_getElem? (i := i)
  rw [List.getElem?_zip_eq_some]
  constructor
  · rw [List.getElem?_dropLast, if_pos (by rw [wf.lenT]; exact hi), List.getD_eq_getElem?_getD,
      List.getElem?_eq_getElem hiT]
    rfl
  · rw [List.getElem?_dropLast, if_pos (by rw [wf.lenL]; exact hi)]
    exact hl

theorem getD_eq_some_iff {l : List (Option Nat)} {j pn : Nat} :
    l.getD j none = some pn ↔ l[j]? = some (some pn) := by
  rw [List.getD_eq_getElem?_getD]
  cases l[j]? with
  | none => simp
  | some x => simp

/-- **Everything `recordFrac` does** on a well-formed state whose fraction table has distinct keys
    and vectors of length `n`. -/
theorem recordFrac_spec {s s' : St} (wf : SlotWF s) (hk : (s.frac.map Prod.fst).Nodup)
    (hl : ∀ kv ∈ s.frac, kv.2.length = s.n) (h : recordFrac s = .ok s') :
    s' = { s with frac := s'.frac } ∧ s'.frac.map Prod.fst = s.frac.map Prod.fst ∧
    (∀ kv ∈ s'.frac, kv.2.length = s.n) ∧
    (∀ c, colTotal s'.frac c = colTotal s.frac c
        + ((List.range s.locks.length).map (fun i => entry (prob s) i c)).sum) ∧
    (∀ i pn, i < s.n - 1 → s.locks[i]? = some false → s.trajs[i]? = some (some pn) →
        ∀ c, fracAt s'.frac pn c = fracAt s.frac pn c + entry (prob s) i c) ∧
    (∀ k, (∀ i, i < s.n - 1 → s.locks[i]? = some false → s.trajs[i]? ≠ some (some k)) →
        s'.frac.lookup k = s.frac.lookup k) := by
  obtain ⟨f, hgo, rfl⟩ := recordFrac_ok h
  rw [recList_eq wf] at hgo
  have hP : ∀ il ∈ (List.range (s.n - 1)).map (fun i => (i, (livePaths s).getD i none)),
      ((prob s).getD il.1 []).length = s.n := by
    intro il hil
    simp only [List.mem_map, List.mem_range] at hil
    obtain ⟨i, hi, rfl⟩ := hil
    exact prob_row_length wf i hi
  obtain ⟨h1, h2, h3, h4, h5⟩ := go_spec (lockedPaths s) (prob s) s.n _ s.frac f hk hl hP hgo
  refine ⟨rfl, h1, h2, ?_, ?_, ?_⟩
  · intro c
    rw [h3 c, recContrib_eq wf c]
  · intro i pn hi hli htr c
    rw [h4 pn c]
    congr 1
    unfold recContribAt
    rw [List.map_map]
    rw [sum_range_single (s.n - 1) i _ hi]
    · simp only [Function.comp_def]
      rw [livePaths_getD wf i hi, not_locked_of_idle wf i hi hli]
      rw [if_neg (by simp), if_pos (getD_eq_some_iff.mpr htr)]
    · intro j hj hne
      simp only [Function.comp_def]
      rw [livePaths_getD wf j hj]
      split
      · rfl
      · rw [if_neg]
        intro he
        exact hne (wf.inj j i pn hj hi (getD_eq_some_iff.mp he) htr)
  · intro k hkk
    apply h5 k
    intro il hil hnc
    simp only [List.mem_map, List.mem_range] at hil
    obtain ⟨j, hj, rfl⟩ := hil
    simp only at hnc ⊢
    rw [livePaths_getD wf j hj] at hnc ⊢
    intro he
    have htr := getD_eq_some_iff.mp he
    have hlj : s.locks[j]? = some true := by
      have hjl : j < s.locks.length := by rw [wf.lenL]; omega
      rcases probMatrix_zero_of_not_idle.bool_cases s.locks j hjl with h' | h'
      · exact h'
      · exact absurd htr (hkk j hj h')
    have := mem_lockedPaths_of_locked wf j hj hlj
    rw [← List.contains_iff_mem, hnc] at this
    exact absurd this (by simp)

/-- **One recording adds exactly one unit to every idle column and nothing to the others.** -/
theorem recordFrac_col {s s' : St} (wf : SlotWF s) (hM : Matchable s)
    (hk : (s.frac.map Prod.fst).Nodup) (hl : ∀ kv ∈ s.frac, kv.2.length = s.n)
    (h : recordFrac s = .ok s') (c : Nat) :
    colTotal s'.frac c = colTotal s.frac c + (if s.locks[c]? = some false then 1 else 0) := by
  obtain ⟨_, _, _, h4, _, _⟩ := recordFrac_spec wf hk hl h
  rw [h4 c]
  unfold prob
  rw [probMatrix_col_sum s.W s.locks (by rw [wf.lenW, wf.lenL]) hM c]

/-! ### non-negativity -/

theorem sumPick_nonneg' {α : Type} (f : α → List α → Rat) (l : List α)
    (h : ∀ x xs, (x :: xs).Perm l → 0 ≤ f x xs) : 0 ≤ sumPick f l := by
  induction l generalizing f with
  | nil => simp [sumPick]
  | cons a t ih =>
    simp only [sumPick]
    have h1 := h a t (List.Perm.refl _)
    have h2 := ih (fun y ys => f y (a :: ys))
      (fun y ys hy => h y (a :: ys) ((List.Perm.swap a y ys).trans (List.Perm.cons a hy)))
    linarith

theorem getD_nonneg (r : List Rat) (h : ∀ x ∈ r, 0 ≤ x) (j : Nat) : 0 ≤ r.getD j 0 := by
  rw [List.getD_eq_getElem?_getD]
  cases hj : r[j]? with
  | none => simp
  | some x => exact h x (List.mem_of_getElem? hj)

theorem permN_nonneg' (m : Nat) (rows : Mat) (h : ∀ r ∈ rows, ∀ x ∈ r, 0 ≤ x) : 0 ≤ permN m rows := by
  induction m generalizing rows with
  | zero => simp [permN]
  | succ m ih =>
    rw [permN]
    apply sumPick_nonneg'
    intro x xs hp
    have hx : x ∈ rows := hp.subset List.mem_cons_self
    exact mul_nonneg (getD_nonneg x (h x hx) m)
      (ih xs (fun r hr => h r (hp.subset (List.mem_cons_of_mem _ hr))))

theorem pSpec_nonneg (M : Mat) (h : ∀ r ∈ M, ∀ x ∈ r, 0 ≤ x) (i j : Nat) : 0 ≤ pSpec M i j := by
  unfold pSpec permC
  apply div_nonneg
  · apply mul_nonneg
    · unfold entry
      apply getD_nonneg
      rw [List.getD_eq_getElem?_getD]
      cases hi : M[i]? with
      | none => simp
      | some r => exact h r (List.mem_of_getElem? hi)
    · apply permN_nonneg'
      intro r hr x hx
      simp only [minor, List.mem_map] at hr
      obtain ⟨r0, hr0, rfl⟩ := hr
      exact h r0 (List.mem_of_mem_eraseIdx hr0) x (List.mem_of_mem_eraseIdx hx)
  · exact permN_nonneg' _ _ h

theorem mem_keep {α : Type} (locks : List Bool) (xs : List α) (x : α) (h : x ∈ keep locks xs) :
    x ∈ xs := by
  induction locks generalizing xs with
  | nil => cases xs <;> simp [keep] at h
  | cons l ls ih =>
    cases xs with
    | nil => simp [keep] at h
    | cons y ys =>
      cases l with
      | true =>
        simp only [keep, if_true] at h
        exact List.mem_cons_of_mem _ (ih ys h)
      | false =>
        simp only [keep, Bool.false_eq_true, if_false, List.mem_cons] at h
        rcases h with h | h
        · exact h ▸ List.mem_cons_self
        · exact List.mem_cons_of_mem _ (ih ys h)

/-- with non-negative weights every swap probability is non-negative -/
theorem probMatrix_nonneg (W : Mat) (locks : List Bool) (hW : W.length = locks.length)
    (h : ∀ r ∈ W, ∀ x ∈ r, 0 ≤ x) (i c : Nat) : 0 ≤ entry (probMatrix W locks) i c := by
  by_cases hi : locks[i]? = some false
  · by_cases hc : locks[c]? = some false
    · rw [probMatrix_idle W locks hW i c hi hc]
      apply pSpec_nonneg
      intro r hr x hx
      simp only [idle, List.mem_map] at hr
      obtain ⟨r0, hr0, rfl⟩ := hr
      exact h r0 (mem_keep locks W r0 hr0) x (mem_keep locks r0 x hx)
    · rw [probMatrix_zero_of_not_idle W locks hW i c (Or.inr hc)]
  · rw [probMatrix_zero_of_not_idle W locks hW i c (Or.inl hi)]

/-- a zero weight gives a zero swap probability -/
theorem probMatrix_zero_of_weight_zero (W : Mat) (locks : List Bool) (hW : W.length = locks.length)
    (i c : Nat) (h : entry W i c = 0) : entry (probMatrix W locks) i c = 0 := by
  by_cases hi : locks[i]? = some false
  · by_cases hc : locks[c]? = some false
    · rw [probMatrix_idle W locks hW i c hi hc]
      exact spec_zero_of_zero _ _ _ (by rw [idle_entry W locks i c hW hi hc]; exact h)
    · exact probMatrix_zero_of_not_idle W locks hW i c (Or.inr hc)
  · exact probMatrix_zero_of_not_idle W locks hW i c (Or.inl hi)

end Infretis.Repex.Frac
