import Infretis.Lemmas.RepexC04Once
/-!
# C04 — the restart image keeps the fractions of the live paths

`persist` stores `traj_data[pn]['frac']` for the table, `restore` (= `load_paths` on the image) gives
every live path the stored vector back.  With the table holding exactly the live paths (a quiescent
state) the column totals survive, and the conservation law extends over run – persist – restore – run.
-/
namespace Infretis.Repex.Frac
open Infretis.Perm

/-! ### `load_paths` and the tables -/

theorem loadOne_data {s s' : St} {ens : Int} {pn : Nat} {valid fr : List Rat}
    (h : loadOne s ens pn valid fr = .ok s') :
    s'.frac = s.frac ++ [(pn, fr)] ∧ s'.rows = s.rows ∧ s'.n = s.n ∧ s'.trajNum = s.trajNum := by
  unfold loadOne at h
  split at h
  · exact absurd h (by simp)
  rename_i s1 hadd
  simp only [Except.ok.injEq] at h
  subst h
  obtain ⟨hd, _⟩ := addTraj_dataEq hadd
  exact ⟨by show s1.frac ++ _ = _; rw [hd.frac], hd.rows, hd.n, hd.trajNum⟩

theorem plus_data : ∀ (l : List (Nat × List Rat × List Rat)) (s s' : St) (i : Nat),
    loadPaths.plus s i l = .ok s' →
    s'.frac = s.frac ++ l.map (fun p => (p.1, p.2.2)) ∧ s'.rows = s.rows ∧ s'.n = s.n ∧
      s'.trajNum = s.trajNum := by
  intro l
  induction l with
  | nil =>
    intro s s' i h
    simp only [loadPaths.plus, Except.ok.injEq] at h
    subst h
    simp
  | cons p rest ih =>
    intro s s' i h
    obtain ⟨pn, w, fr⟩ := p
    unfold loadPaths.plus at h
    split at h
    · exact absurd h (by simp)
    rename_i s1 h1
    obtain ⟨a1, a2, a3, a4⟩ := loadOne_data h1
    obtain ⟨b1, b2, b3, b4⟩ := ih s1 s' (i + 1) h
    exact ⟨by rw [b1, a1]; simp, b2.trans a2, b3.trans a3, b4.trans a4⟩

theorem loadPaths_data {s s' : St} {paths : List (Nat × List Rat × List Rat)}
    (h : loadPaths s paths = .ok s') :
    ∃ hd tl, paths = hd :: tl ∧ s'.frac = s.frac ++ (tl ++ [hd]).map (fun p => (p.1, p.2.2)) ∧
      s'.rows = s.rows ∧ s'.n = s.n ∧ s'.trajNum = s.trajNum := by
  unfold loadPaths at h
  split at h
  · exact absurd h (by simp)
  rename_i pn0 w0 fr0 rest
  split at h
  · exact absurd h (by simp)
  rename_i s1 hplus
  obtain ⟨a1, a2, a3, a4⟩ := plus_data rest s s1 0 hplus
  obtain ⟨b1, b2, b3, b4⟩ := loadOne_data h
  exact ⟨(pn0, w0, fr0), rest, rfl, by rw [b1, a1]; simp, b2.trans a2, b3.trans a3, b4.trans a4⟩

/-! ### `restore ∘ persist` -/

/-- the path list `restore` hands to `load_paths` -/
def imgPaths (s : St) (n : Nat) (weightOf : Nat → List Rat) : List (Nat × List Rat × List Rat) :=
  (livePaths s).filterMap (fun o => o.map (fun pn =>
    (pn, weightOf pn, (s.frac.lookup pn).getD (List.replicate n 0))))

theorem imgPaths_keys (s : St) (n : Nat) (weightOf : Nat → List Rat) :
    (imgPaths s n weightOf).map (·.1) = (livePaths s).filterMap id := by
  unfold imgPaths
  rw [List.map_filterMap]
  congr 1
  funext o
  cases o <;> rfl

theorem restore_eq (s : St) (n workers tsteps : Nat) (occ : List (List Int)) (ensEng : List (List Nat))
    (weightOf : Nat → List Rat) :
    restore (persist s) n workers tsteps occ ensEng weightOf
      = loadPaths (blank n workers tsteps s.cstep s.trajNum s.seed occ ensEng true (persist s).locked)
          (imgPaths s n weightOf) := rfl

/-- **`restore (persist s)`**: the restored table has exactly the live paths of `s` as keys (in
    `load_paths` order), each with the vector it had in `s` (zeros if it had none); the data-file
    list of the new run starts empty. -/
theorem restore_frac {s s' : St} {n workers tsteps : Nat} {occ : List (List Int)}
    {ensEng : List (List Nat)} {weightOf : Nat → List Rat}
    (h : restore (persist s) n workers tsteps occ ensEng weightOf = .ok s') :
    (s'.frac.map Prod.fst).Perm ((livePaths s).filterMap id) ∧
    (∀ kv ∈ s'.frac, kv.2 = (s.frac.lookup kv.1).getD (List.replicate n 0)) ∧
    s'.rows = [] ∧ s'.n = n ∧ s'.trajNum = s.trajNum := by
  rw [restore_eq] at h
  obtain ⟨hd, tl, hp, hf, hr, hn, ht⟩ := loadPaths_data h
  have hf' : s'.frac = (tl ++ [hd]).map (fun p => (p.1, p.2.2)) := by rw [hf]; rfl
  refine ⟨?_, ?_, hr, hn, ht⟩
  · rw [hf', List.map_map, ← imgPaths_keys s n weightOf, hp]
    have : (tl ++ [hd]).Perm (hd :: tl) := List.perm_append_comm
    exact this.map _
  · intro kv hkv
    rw [hf'] at hkv
    simp only [List.mem_map] at hkv
    obtain ⟨p, hpm, rfl⟩ := hkv
    have hpm' : p ∈ imgPaths s n weightOf := by
      rw [hp]
      rcases List.mem_append.mp hpm with h1 | h1
      · exact List.mem_cons_of_mem _ h1
      · simp only [List.mem_singleton] at h1; subst h1; exact List.mem_cons_self
    unfold imgPaths at hpm'
    rw [List.mem_filterMap] at hpm'
    obtain ⟨o, _, ho⟩ := hpm'
    cases o with
    | none => simp at ho
    | some pn =>
      simp only [Option.map_some, Option.some.injEq] at ho
      subst ho
      rfl

/-- every live path of `s` gets its own vector back -/
theorem restore_lookup {s s' : St} {n workers tsteps : Nat} {occ : List (List Int)}
    {ensEng : List (List Nat)} {weightOf : Nat → List Rat}
    (h : restore (persist s) n workers tsteps occ ensEng weightOf = .ok s') (pn : Nat)
    (hl : some pn ∈ livePaths s) :
    s'.frac.lookup pn = some ((s.frac.lookup pn).getD (List.replicate n 0)) := by
  obtain ⟨hk, hv, _⟩ := restore_frac h
  have hm : pn ∈ s'.frac.map Prod.fst := hk.mem_iff.mpr (mem_fm.mpr hl)
  obtain ⟨v, hv'⟩ := lookup_isSome_of_mem hm
  rw [hv']
  exact congrArg some (hv (pn, v) (lookup_mem hv'))

/-! ### column totals survive when the table holds exactly the live paths -/

theorem lookup_of_mem_nodup : ∀ (l : List (Nat × List Rat)), (l.map Prod.fst).Nodup →
    ∀ kv ∈ l, l.lookup kv.1 = some kv.2 := by
  intro l
  induction l with
  | nil => intro _ kv h; simp at h
  | cons x t ih =>
    intro hnd kv hkv
    obtain ⟨a, v⟩ := x
    simp only [List.map_cons, List.nodup_cons] at hnd
    simp only [List.lookup_cons]
    rcases List.mem_cons.mp hkv with rfl | hkv
    · simp
    · have hne : kv.1 ≠ a := by
        intro e
        exact hnd.1 (e ▸ List.mem_map_of_mem (f := Prod.fst) hkv)
      have : (kv.1 == a) = false := by simpa using hne
      simp only [this]
      exact ih hnd.2 kv hkv

theorem eq_map_keys (l : List (Nat × List Rat)) (g : Nat → List Rat) (h : ∀ kv ∈ l, kv.2 = g kv.1) :
    l = (l.map Prod.fst).map (fun k => (k, g k)) := by
  rw [List.map_map]
  conv_lhs => rw [← List.map_id l]
  apply List.map_congr_left
  intro kv hkv
  simp only [id, Function.comp_apply]
  rw [← h kv hkv]

theorem restore_colTotal {s s' : St} {n workers tsteps : Nat} {occ : List (List Int)}
    {ensEng : List (List Nat)} {weightOf : Nat → List Rat}
    (h : restore (persist s) n workers tsteps occ ensEng weightOf = .ok s')
    (hk : (s.frac.map Prod.fst).Nodup)
    (htab : (s.frac.map Prod.fst).Perm ((livePaths s).filterMap id)) (c : Nat) :
    colTotal s'.frac c = colTotal s.frac c := by
  obtain ⟨hp, hv, _⟩ := restore_frac h
  let g : Nat → List Rat := fun k => (s.frac.lookup k).getD (List.replicate n 0)
  have e1 := eq_map_keys s'.frac g hv
  have e2 := eq_map_keys s.frac g (by
    intro kv hkv
    show kv.2 = (s.frac.lookup kv.1).getD _
    rw [lookup_of_mem_nodup s.frac hk kv hkv]; rfl)
  have h1 : colTotal s'.frac c = ((s'.frac.map Prod.fst).map (fun k => (g k).getD c 0)).sum := by
    conv_lhs => rw [e1]
    unfold colTotal
    rw [List.map_map]
    rfl
  have h2 : colTotal s.frac c = ((s.frac.map Prod.fst).map (fun k => (g k).getD c 0)).sum := by
    conv_lhs => rw [e2]
    unfold colTotal
    rw [List.map_map]
    rfl
  rw [h1, h2]
  exact List.Perm.sum_eq (M := Rat) ((hp.trans htab.symm).map _)

end Infretis.Repex.Frac
