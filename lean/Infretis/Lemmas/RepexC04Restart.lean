import Infretis.Lemmas.RepexC04Once
/-!
# C04 — the restart image keeps the fractions of the live paths

`persist` stores `traj_data[pn]['frac']` for the table, `restore` (= `load_paths` on the image) gives
every live path the stored vector back.  With the table holding exactly the live paths (a quiescent
state) the column totals survive, and the conservation law extends over run – persist – restore – run.
-/
namespace Infretis.Repex.Frac
open Infretis.Perm

/-! ### `load_paths` and the tables -/

theorem loadOne_data {s s' : St} {ens : Int} {pn : Nat} {valid fr : List Rat}
    (h : loadOne s ens pn valid fr = .ok s') :
    s'.frac = s.frac ++ [(pn, fr)] ∧ s'.rows = s.rows ∧ s'.n = s.n ∧ s'.trajNum = s.trajNum := by
  unfold loadOne at h
  split at h
  · exact absurd h (by simp)
  rename_i s1 hadd
  simp only [Except.ok.injEq] at h
  subst h
  obtain ⟨hd, _⟩ := addTraj_dataEq hadd
  exact ⟨by show s1.frac ++ _ = _; rw [hd.frac], hd.rows, hd.n, hd.trajNum⟩

theorem plus_data : ∀ (l : List (Nat × List Rat × List Rat)) (s s' : St) (i : Nat),
    loadPaths.plus s i l = .ok s' →
    s'.frac = s.frac ++ l.map (fun p => (p.1, p.2.2)) ∧ s'.rows = s.rows ∧ s'.n = s.n ∧
      s'.trajNum = s.trajNum := by
  intro l
  induction l with
  | nil =>
    intro s s' i h
    simp only [loadPaths.plus, Except.ok.injEq] at h
    subst h
    simp
  | cons p rest ih =>
    intro s s' i h
    obtain ⟨pn, w, fr⟩ := p
    unfold loadPaths.plus at h
    split at h
    · exact absurd h (by simp)
    rename_i s1 h1
    obtain ⟨a1, a2, a3, a4⟩ := loadOne_data h1
    obtain ⟨b1, b2, b3, b4⟩ := ih s1 s' (i + 1) h
    exact ⟨by rw [b1, a1]; simp, b2.trans a2, b3.trans a3, b4.trans a4⟩

theorem loadPaths_data {s s' : St} {paths : List (Nat × List Rat × List Rat)}
    (h : loadPaths s paths = .ok s') :
    ∃ hd tl, paths = hd :: tl ∧ s'.frac = s.frac ++ (tl ++ [hd]).map (fun p => (p.1, p.2.2)) ∧
      s'.rows = s.rows ∧ s'.n = s.n ∧ s'.trajNum = s.trajNum := by
  unfold loadPaths at h
  split at h
  · exact absurd h (by simp)
  rename_i pn0 w0 fr0 rest
  split at h
  · exact absurd h (by simp)
  rename_i s1 hplus
  obtain ⟨a1, a2, a3, a4⟩ := plus_data rest s s1 0 hplus
  obtain ⟨b1, b2, b3, b4⟩ := loadOne_data h
  exact ⟨(pn0, w0, fr0), rest, rfl, by rw [b1, a1]; simp, b2.trans a2, b3.trans a3, b4.trans a4⟩

/-! ### `restore ∘ persist` -/

/-- the path list `restore` hands to `load_paths` -/
def imgPaths (s : St) (n : Nat) (weightOf : Nat → List Rat) : List (Nat × List Rat × List Rat) :=
  (livePaths s).filterMap (fun o => o.map (fun pn =>
    (pn, weightOf pn, (s.frac.lookup pn).getD (List.replicate n 0))))

theorem imgPaths_keys (s : St) (n : Nat) (weightOf : Nat → List Rat) :
    (imgPaths s n weightOf).map (·.1) = (livePaths s).filterMap id := by
  unfold imgPaths
  rw [List.map_filterMap]
  congr 1
  funext o
  cases o <;> rfl

/-- the blank state `restore` starts from -/
def restoreBlank (s : St) (n workers tsteps : Nat) (occ : List (List Int)) (ensEng : List (List Nat)) : St :=
  { blank n workers tsteps s.cstep s.trajNum s.seed occ ensEng true (persist s).locked with
    locked0Ord := (persist s).lockedOrd.map some,
    spawned := (persist s).spawnedRec.getD ((persist s).cstep + (persist s).locked.length) }

theorem restore_eq (s : St) (n workers tsteps : Nat) (occ : List (List Int)) (ensEng : List (List Nat))
    (weightOf : Nat → List Rat) :
    restore (persist s) n workers tsteps occ ensEng weightOf
      = loadPaths (restoreBlank s n workers tsteps occ ensEng) (imgPaths s n weightOf) := rfl

/-! `load_paths` never reads the recorded ordinals nor the spawn counter -/

theorem unlock_ord {s s' : St} {e : Nat} (X : List (Option Nat)) (k : Nat) (h : unlock s e = .ok s') :
    unlock { s with locked0Ord := X, spawned := k } e = .ok { s' with locked0Ord := X, spawned := k } := by
  unfold unlock at h ⊢
  simp only []
  split at h
  · rename_i hl
    simp only [Except.ok.injEq] at h
    subst h
    first | rfl | (rw [hl])
  · exact absurd h (by simp)
  · exact absurd h (by simp)

theorem addTraj_ord {s s' : St} {ens : Int} {pn : Nat} {valid : List Rat} (X : List (Option Nat))
    (k : Nat) (h : addTraj s ens pn valid = .ok s') :
    addTraj { s with locked0Ord := X, spawned := k } ens pn valid
      = .ok { s' with locked0Ord := X, spawned := k } := by
  unfold addTraj at h ⊢
  simp only [] at h ⊢
  have hp : padValid { s with locked0Ord := X, spawned := k } ens valid = padValid s ens valid := rfl
  rw [hp]
  split at h
  · exact absurd h (by simp)
  rename_i x hx
  split at h
  · exact absurd h (by simp)
  rename_i hx0
  rw [if_neg hx0]
  split at h
  · exact absurd h (by simp)
  rename_i hlen
  rw [if_neg hlen]
  split at h
  · exact absurd h (by simp)
  rename_i hge
  rw [if_neg hge]
  exact unlock_ord X k h

theorem loadOne_ord {s s' : St} {ens : Int} {pn : Nat} {valid fr : List Rat} (X : List (Option Nat))
    (k : Nat) (h : loadOne s ens pn valid fr = .ok s') :
    loadOne { s with locked0Ord := X, spawned := k } ens pn valid fr
      = .ok { s' with locked0Ord := X, spawned := k } := by
  unfold loadOne at h ⊢
  split at h
  · exact absurd h (by simp)
  rename_i s1 hadd
  rw [addTraj_ord X k hadd]
  simp only [Except.ok.injEq] at h ⊢
  subst h
  rfl

theorem plus_ord (X : List (Option Nat)) (k : Nat) :
    ∀ (l : List (Nat × List Rat × List Rat)) (s s' : St) (i : Nat),
    loadPaths.plus s i l = .ok s' →
    loadPaths.plus { s with locked0Ord := X, spawned := k } i l
      = .ok { s' with locked0Ord := X, spawned := k } := by
  intro l
  induction l with
  | nil =>
    intro s s' i h
    simp only [loadPaths.plus, Except.ok.injEq] at h ⊢
    subst h; rfl
  | cons p rest ih =>
    intro s s' i h
    obtain ⟨pn, w, fr⟩ := p
    unfold loadPaths.plus at h ⊢
    split at h
    · exact absurd h (by simp)
    rename_i s1 h1
    rw [loadOne_ord X k h1]
    exact ih s1 s' (i + 1) h

theorem loadPaths_ord {s s' : St} {paths : List (Nat × List Rat × List Rat)} (X : List (Option Nat))
    (k : Nat) (h : loadPaths s paths = .ok s') :
    loadPaths { s with locked0Ord := X, spawned := k } paths
      = .ok { s' with locked0Ord := X, spawned := k } := by
  unfold loadPaths at h ⊢
  split at h
  · exact absurd h (by simp)
  rename_i pn0 w0 fr0 rest
  split at h
  · exact absurd h (by simp)
  rename_i s1 hplus
  rw [plus_ord X k rest s s1 0 hplus]
  exact loadOne_ord X k h

/-- **`restore (persist s)`**: the restored table has exactly the live paths of `s` as keys (in
    `load_paths` order), each with the vector it had in `s` (zeros if it had none); the data-file
    list of the new run starts empty. -/
theorem restore_frac {s s' : St} {n workers tsteps : Nat} {occ : List (List Int)}
    {ensEng : List (List Nat)} {weightOf : Nat → List Rat}
    (h : restore (persist s) n workers tsteps occ ensEng weightOf = .ok s') :
    (s'.frac.map Prod.fst).Perm ((livePaths s).filterMap id) ∧
    (∀ kv ∈ s'.frac, kv.2 = (s.frac.lookup kv.1).getD (List.replicate n 0)) ∧
    s'.rows = [] ∧ s'.n = n ∧ s'.trajNum = s.trajNum := by
  rw [restore_eq] at h
  obtain ⟨hd, tl, hp, hf, hr, hn, ht⟩ := loadPaths_data h
  have hf' : s'.frac = (tl ++ [hd]).map (fun p => (p.1, p.2.2)) := by rw [hf]; rfl
  refine ⟨?_, ?_, hr, hn, ht⟩
  · rw [hf', List.map_map, ← imgPaths_keys s n weightOf, hp]
    have : (tl ++ [hd]).Perm (hd :: tl) := List.perm_append_comm
    exact this.map _
  · intro kv hkv
    rw [hf'] at hkv
    simp only [List.mem_map] at hkv
    obtain ⟨p, hpm, rfl⟩ := hkv
    have hpm' : p ∈ imgPaths s n weightOf := by
      rw [hp]
      rcases List.mem_append.mp hpm with h1 | h1
      · exact List.mem_cons_of_mem _ h1
      · simp only [List.mem_singleton] at h1; subst h1; exact List.mem_cons_self
    unfold imgPaths at hpm'
    rw [List.mem_filterMap] at hpm'
    obtain ⟨o, _, ho⟩ := hpm'
    cases o with
    | none => simp at ho
    | some pn =>
      simp only [Option.map_some, Option.some.injEq] at ho
      subst ho
      rfl

/-- every live path of `s` gets its own vector back -/
theorem restore_lookup {s s' : St} {n workers tsteps : Nat} {occ : List (List Int)}
    {ensEng : List (List Nat)} {weightOf : Nat → List Rat}
    (h : restore (persist s) n workers tsteps occ ensEng weightOf = .ok s') (pn : Nat)
    (hl : some pn ∈ livePaths s) :
    s'.frac.lookup pn = some ((s.frac.lookup pn).getD (List.replicate n 0)) := by
  obtain ⟨hk, hv, _⟩ := restore_frac h
  have hm : pn ∈ s'.frac.map Prod.fst := hk.mem_iff.mpr (mem_fm.mpr hl)
  obtain ⟨v, hv'⟩ := lookup_isSome_of_mem hm
  rw [hv']
  exact congrArg some (hv (pn, v) (lookup_mem hv'))

/-! ### column totals survive when the table holds exactly the live paths -/

theorem lookup_of_mem_nodup : ∀ (l : List (Nat × List Rat)), (l.map Prod.fst).Nodup →
    ∀ kv ∈ l, l.lookup kv.1 = some kv.2 := by
  intro l
  induction l with
  | nil => intro _ kv h; simp at h
  | cons x t ih =>
    intro hnd kv hkv
    obtain ⟨a, v⟩ := x
    simp only [List.map_cons, List.nodup_cons] at hnd
    simp only [List.lookup_cons]
    rcases List.mem_cons.mp hkv with rfl | hkv
    · simp
    · have hne : kv.1 ≠ a := by
        intro e
        exact hnd.1 (e ▸ List.mem_map_of_mem (f := Prod.fst) hkv)
      have : (kv.1 == a) = false := by simpa using hne
      simp only [this]
      exact ih hnd.2 kv hkv

theorem eq_map_keys (l : List (Nat × List Rat)) (g : Nat → List Rat) (h : ∀ kv ∈ l, kv.2 = g kv.1) :
    l = (l.map Prod.fst).map (fun k => (k, g k)) := by
  rw [List.map_map]
  conv_lhs => rw [← List.map_id l]
  apply List.map_congr_left
  intro kv hkv
  simp only [id, Function.comp_apply]
  rw [← h kv hkv]

theorem restore_colTotal {s s' : St} {n workers tsteps : Nat} {occ : List (List Int)}
    {ensEng : List (List Nat)} {weightOf : Nat → List Rat}
    (h : restore (persist s) n workers tsteps occ ensEng weightOf = .ok s')
    (hk : (s.frac.map Prod.fst).Nodup)
    (htab : (s.frac.map Prod.fst).Perm ((livePaths s).filterMap id)) (c : Nat) :
    colTotal s'.frac c = colTotal s.frac c := by
  obtain ⟨hp, hv, _⟩ := restore_frac h
  let g : Nat → List Rat := fun k => (s.frac.lookup k).getD (List.replicate n 0)
  have e1 := eq_map_keys s'.frac g hv
  have e2 := eq_map_keys s.frac g (by
    intro kv hkv
    show kv.2 = (s.frac.lookup kv.1).getD _
    rw [lookup_of_mem_nodup s.frac hk kv hkv]; rfl)
  have h1 : colTotal s'.frac c = ((s'.frac.map Prod.fst).map (fun k => (g k).getD c 0)).sum := by
    conv_lhs => rw [e1]
    unfold colTotal
    rw [List.map_map]
    rfl
  have h2 : colTotal s.frac c = ((s.frac.map Prod.fst).map (fun k => (g k).getD c 0)).sum := by
    conv_lhs => rw [e2]
    unfold colTotal
    rw [List.map_map]
    rfl
  rw [h1, h2]
  exact List.Perm.sum_eq (M := Rat) ((hp.trans htab.symm).map _)

/-! ### the restored state is a start state again -/

theorem filterMap_map_length {α β : Type} (l : List (Option α)) (f : α → β)
    (h : ∀ o ∈ l, ∃ a, o = some a) : (l.filterMap (fun o => o.map f)).length = l.length := by
  induction l with
  | nil => rfl
  | cons o t ih =>
    obtain ⟨a, rfl⟩ := h o List.mem_cons_self
    simp only [List.filterMap_cons, Option.map_some, List.length_cons]
    rw [ih (fun o ho => h o (List.mem_cons_of_mem _ ho))]

theorem livePaths_all_some {s : St} {H : List (Nat × Nat)} {tn : Nat} (hc : Core s H tn) :
    ∀ o ∈ livePaths s, ∃ pn, o = some pn := by
  intro o ho
  unfold livePaths at ho
  obtain ⟨e, he⟩ := List.getElem?_of_mem ho
  rw [List.getElem?_dropLast] at he
  split at he
  · rename_i hlt
    rw [hc.lenT] at hlt
    obtain ⟨pn, hpn, _⟩ := hc.live e hlt
    rw [hpn] at he
    exact ⟨pn, by simpa using he.symm⟩
  · exact absurd he (by simp)

/-- **A quiescent state restored from its image is a start state again**: C03's `Init` (so all
    scheduler invariants restart) and the table invariant. -/
theorem restore_init {y1 : Sys} {s2 : St} {workers tsteps : Nat} {occ : List (List Int)}
    {ensEng : List (List Nat)} {weightOf : Nat → List Rat} (hi : HInv y1) (r : RInv y1)
    (hlk : y1.s.locked = [])
    (h : restore (persist y1.s) y1.s.n workers tsteps occ ensEng weightOf = .ok s2) :
    Init ⟨s2, []⟩ ∧ FracWF s2 := by
  have hc := hi.inv.core
  obtain ⟨hk, hv, _, hn, ht⟩ := restore_frac h
  have hsub : ∀ pn, some pn ∈ livePaths y1.s → some pn ∈ y1.s.trajs :=
    fun pn hm => (List.dropLast_sublist _).subset hm
  have hlnd : ((livePaths y1.s).filterMap id).Nodup :=
    r.liveNodup.sublist ((List.dropLast_sublist _).filterMap id)
  have hbound : ∀ pn, some pn ∈ livePaths y1.s → pn < y1.s.trajNum :=
    fun pn hm => hi.fw.bound pn (r.liveFrac pn (hsub pn hm))
  constructor
  · rw [restore_eq] at h
    have hl0 : (persist y1.s).locked = [] := by simp [persist, hlk]
    have h' := loadPaths_ord [] (y1.s.cstep + 0) h
    have hb : ({ restoreBlank y1.s y1.s.n workers tsteps occ ensEng with
                  locked0Ord := [], spawned := y1.s.cstep + 0 } : St)
        = blank y1.s.n workers tsteps y1.s.cstep y1.s.trajNum y1.s.seed occ ensEng true [] := by
      unfold restoreBlank
      rw [hl0]
      rfl
    rw [hb] at h'
    have hI : Init ⟨{ s2 with locked0Ord := [], spawned := y1.s.cstep + 0 }, []⟩ := by
      refine init_of_loadPaths y1.s.n workers tsteps y1.s.cstep y1.s.trajNum y1.s.seed occ ensEng true
        (imgPaths y1.s y1.s.n weightOf) _ hc.n2 ?_ ?_ ?_ h'
      · unfold imgPaths
        rw [filterMap_map_length _ _ (livePaths_all_some hc)]
        simp [livePaths, hc.lenT]
      · rw [imgPaths_keys]; exact hlnd
      · intro p hp
        have : p.1 ∈ (imgPaths y1.s y1.s.n weightOf).map (·.1) := List.mem_map_of_mem hp
        rw [imgPaths_keys] at this
        exact hbound p.1 (mem_fm.mp this)
    exact ⟨hI.jobs, hI.n2, hI.lenW, hI.lenT, hI.locks, hI.live, hI.inj, hI.locked0, hI.toinit⟩
  · constructor
    · exact hk.nodup_iff.mpr hlnd
    · intro kv hkv
      rw [hv kv hkv, hn]
      cases hl : y1.s.frac.lookup kv.1 with
      | none => simp
      | some v => exact hi.fw.flen _ (lookup_mem hl)
    · intro k hkm
      rw [ht]
      exact hbound k (mem_fm.mp (hk.mem_iff.mp hkm))

theorem jinv_of_init {y : Sys} (h : Init y) : JInv y := by
  constructor
  · rw [h.jobs]; simp
  · intro _; rw [h.jobs, h.toinit]; simp

/-! ### every fresh `load_paths` gives a `RowInit` state -/

/-- writing a fresh number into any slot keeps the slot numbers distinct -/
theorem set_fresh_nodup' (l : List (Option Nat)) (e t : Nat) (hnd : (l.filterMap id).Nodup)
    (hf : some t ∉ l) : ((l.set e (some t)).filterMap id).Nodup := by
  rcases Nat.lt_or_ge e l.length with he | he
  · generalize hv : l[e] = v
    have hv' : l[e]? = some v := by rw [List.getElem?_eq_getElem he, hv]
    obtain ⟨A, B, rfl, rfl⟩ := split_at l e v hv'
    rw [set_mid, fm_mid]
    have hsub : (A.filterMap id ++ B.filterMap id).Nodup := by
      refine hnd.sublist ?_
      rw [List.filterMap_append]
      exact List.Sublist.append (List.Sublist.refl _) ((List.sublist_cons_self _ _).filterMap id)
    rw [List.perm_middle.nodup_iff, List.nodup_cons]
    refine ⟨?_, hsub⟩
    rw [List.mem_append, mem_fm, mem_fm]
    intro hm
    apply hf
    rcases hm with hm | hm
    · exact List.mem_append_left _ hm
    · exact List.mem_append_right _ (List.mem_cons_of_mem _ hm)
  · rw [List.set_eq_of_length_le he]; exact hnd

/-- the two slot clauses of `RowInit` -/
def LiveOK (s : St) : Prop :=
  (∀ pn, some pn ∈ s.trajs → pn ∈ s.frac.map Prod.fst) ∧ (s.trajs.filterMap id).Nodup

theorem loadOne_live {s s' : St} {ens : Int} {pn : Nat} {valid fr : List Rat} (hL : LiveOK s)
    (hnew : pn ∉ s.frac.map Prod.fst) (h : loadOne s ens pn valid fr = .ok s') : LiveOK s' := by
  obtain ⟨hf, _⟩ := loadOne_data h
  obtain ⟨_, _, _, htr, _⟩ := loadOne_ok h
  have hfresh : some pn ∉ s.trajs := fun hm => hnew (hL.1 pn hm)
  constructor
  · intro q hq
    rw [htr] at hq
    rw [hf, List.map_append, List.mem_append]
    rcases List.mem_or_eq_of_mem_set hq with hq | hq
    · exact Or.inl (hL.1 q hq)
    · right; simp only [Option.some.injEq] at hq; simp [hq]
  · rw [htr]
    exact set_fresh_nodup' _ _ _ hL.2 hfresh

theorem plus_live : ∀ (l : List (Nat × List Rat × List Rat)) (s s' : St) (i : Nat), LiveOK s →
    (s.frac.map Prod.fst ++ l.map (·.1)).Nodup → loadPaths.plus s i l = .ok s' → LiveOK s' := by
  intro l
  induction l with
  | nil =>
    intro s s' i hL _ h
    simp only [loadPaths.plus, Except.ok.injEq] at h
    subst h; exact hL
  | cons p rest ih =>
    intro s s' i hL hnd h
    obtain ⟨pn, w, fr⟩ := p
    unfold loadPaths.plus at h
    split at h
    · exact absurd h (by simp)
    rename_i s1 h1
    have hnew : pn ∉ s.frac.map Prod.fst := by
      intro hm
      rw [List.nodup_append] at hnd
      exact hnd.2.2 pn hm pn (by simp) rfl
    obtain ⟨hf1, _⟩ := loadOne_data h1
    refine ih s1 s' (i + 1) (loadOne_live hL hnew h1) ?_ h
    rw [hf1]
    simpa [List.append_assoc] using hnd

/-- **Every fresh start is a `RowInit` state**: `load_paths` on `n − 1` initial paths with pairwise
    distinct numbers below `trajNum` and all-zero fraction vectors of length `n`, into a blank state
    of `n ≥ 2` slots without restart jobs. -/
theorem rowInit_of_loadPaths (n workers tsteps cstep trajNum seed : Nat) (occ : List (List Int))
    (ensEng : List (List Nat)) (restarted : Bool) (paths : List (Nat × List Rat × List Rat)) (s : St)
    (hn : 2 ≤ n) (hlen : paths.length = n - 1) (hnd : (paths.map (·.1)).Nodup)
    (hlt : ∀ p ∈ paths, p.1 < trajNum) (hz : ∀ p ∈ paths, p.2.2 = List.replicate n 0)
    (h : loadPaths (blank n workers tsteps cstep trajNum seed occ ensEng restarted []) paths = .ok s) :
    RowInit ⟨s, []⟩ := by
  have hinit := init_of_loadPaths n workers tsteps cstep trajNum seed occ ensEng restarted paths s
    hn hlen hnd hlt h
  obtain ⟨hd, tl, hp, hf, hr, hn', ht⟩ := loadPaths_data h
  have hf' : s.frac = (tl ++ [hd]).map (fun p => (p.1, p.2.2)) := by rw [hf]; rfl
  have hperm : (tl ++ [hd]).Perm paths := by rw [hp]; exact List.perm_append_comm
  have hkeys : s.frac.map Prod.fst = (tl ++ [hd]).map (·.1) := by
    rw [hf', List.map_map]; rfl
  have hL : LiveOK s := by
    have h0 : LiveOK (blank n workers tsteps cstep trajNum seed occ ensEng restarted []) := by
      constructor
      · intro pn hm
        simp [blank] at hm
      · have : (List.replicate n (none : Option Nat)).filterMap id = [] := by
          rw [List.filterMap_eq_nil_iff]
          intro a ha
          rw [(List.mem_replicate.mp ha).2]; rfl
        show ((List.replicate n (none : Option Nat)).filterMap id).Nodup
        rw [this]; exact List.nodup_nil
    unfold loadPaths at h
    split at h
    · exact absurd h (by simp)
    rename_i pn0 w0 fr0 rest
    split at h
    · exact absurd h (by simp)
    rename_i s1 hplus
    simp only [List.map_cons, List.nodup_cons] at hnd
    have h1 := plus_live rest _ s1 0 h0 (by simpa [blank] using hnd.2) hplus
    obtain ⟨hf1, _⟩ := plus_data rest _ s1 0 hplus
    refine loadOne_live h1 ?_ h
    rw [hf1]
    simpa [blank, List.map_map, Function.comp_def] using hnd.1
  refine ⟨⟨hinit, ⟨?_, ?_, ?_⟩, ?_, hr⟩, hL.1, hL.2⟩
  · show (s.frac.map Prod.fst).Nodup
    rw [hkeys]; exact (hperm.map _).nodup_iff.mpr hnd
  · intro kv hkv
    rw [hf'] at hkv
    simp only [List.mem_map] at hkv
    obtain ⟨p, hpm, rfl⟩ := hkv
    show p.2.2.length = s.n
    rw [hz p (hperm.subset hpm), hn']
    simp [blank]
  · intro k hk
    show k < s.trajNum
    rw [hkeys] at hk
    simp only [List.mem_map] at hk
    obtain ⟨p, hpm, rfl⟩ := hk
    rw [ht]
    exact hlt p (hperm.subset hpm)
  · intro kv hkv x hx
    rw [hf'] at hkv
    simp only [List.mem_map] at hkv
    obtain ⟨p, hpm, rfl⟩ := hkv
    simp only at hx
    rw [hz p (hperm.subset hpm)] at hx
    exact (List.mem_replicate.mp hx).2

end Infretis.Repex.Frac
