import Infretis.Lemmas.RepexC04DiskG
/-!
# C04 — stop inside `treat_output`, restart from the two files, go on: the good disk states are closed under it

For a good disk state (`Good`: all sampler invariants + `DiskInvG`, which contains the law on the files):
`clean_data_file` changes nothing on its disk; a stop inside the next completed step leaves, after the restart's
clean-up, the disk of the state before resp. after the step (`stop_restartG`); and if the restart file records no
job in flight, `restartSys` (= `clean_data_file` + `__init__` + `load_paths`) yields a good disk state again
(`restart_good`).  With `dStep_good` this closes the set of good states under events, stops and restarts.
-/
namespace Infretis.Repex.Data
open Infretis.Repex.Frac Infretis.Perm

/-! ### what the disk of a good state looks like to a restart -/

theorem good_disk_facts {Z : DSys} (hg : Good Z) (im : Image) (him : Z.d.img = some im) :
    (∀ l ∈ Z.d.lines, l.hash = true ∨
      (l.term = true ∧ ∀ k, l.key = some k → k < im.trajNum ∧ k ∉ activeKeys im)) ∧
    (lineKeys Z.d.lines).Nodup ∧
    (∀ c, c < Z.y.s.n - 1 → diskTotal Z.d.lines im c = (Z.cnt.getD c 0 : Rat)) := by
  obtain ⟨pre, ls, hl1, hl2, hpre, hnd⟩ := hg.d.lines
  have ig := hg.d.img im him
  refine ⟨?_, ?_, ?_⟩
  · intro l hl
    rw [hl2] at hl
    rcases List.mem_append.mp hl with hl | hl
    · rcases hpre l hl with h1 | ⟨h1, h2⟩
      · exact Or.inl h1
      · right
        refine ⟨h1, fun k hk => ?_⟩
        obtain ⟨a1, a2⟩ := h2 k hk
        exact ⟨by rw [ig.tn]; exact a1, fun hact => a2 (ig.act.mem_iff.mp hact)⟩
    · right
      obtain ⟨i, hi⟩ := List.mem_iff_getElem?.mp hl
      obtain ⟨r, fc, wc, hri, _, rfl⟩ := (fmtRows_rows _ _ hl1).2.2.2 i l hi
      refine ⟨rfl, ?_⟩
      intro k hk
      simp only [Option.some.injEq] at hk
      subst hk
      have hm : r.1 ∈ Z.y.s.rows.map (·.1) := List.mem_map_of_mem (List.mem_of_getElem? hri)
      exact ⟨by rw [ig.tn]; exact hg.r4.rinv.rowsBound r.1 hm,
        fun hact => hg.r4.rinv.rowsFrac r.1 hm (ig.act.mem_iff.mp hact)⟩
  · rw [hl2, lineKeys_append]
    have : lineKeys ls = Z.y.s.rows.map (·.1) := (fmtRows_rows _ _ hl1).1
    rw [this]; exact hnd
  · intro c hc
    unfold diskTotal
    rw [ig.tot c]
    exact hg.d.law c hc

/-- `clean_data_file` changes nothing on the disk of a good state -/
theorem clean_noopG {Z : DSys} (hg : Good Z) (im : Image) (him : Z.d.img = some im) :
    cleanLines (activeKeys im) Z.d.lines = Z.d.lines := by
  obtain ⟨h1, _, _⟩ := good_disk_facts hg im him
  apply cleanLines_keep_all
  intro l hl
  rcases h1 l hl with h | ⟨h, h'⟩
  · exact Or.inl h
  · exact Or.inr ⟨h, fun k hk => (h' k hk).2⟩

/-- a stop inside the two weight-relevant effects of a completed step from a good state, then `clean_data_file` -/
theorem stop_restartG {z z' : DSys} {k : Nat} {status : Status} {newW : List (List Rat)} {o : PickOutcome}
    (hg : Good z) (hev : EvOk z.y (.step k status newW o))
    (h : dStep z (.step k status newW o) = .ok z') (p : Stop) :
    ∃ s2 ls', z'.d = { lines := z.d.lines ++ ls', img := some (persistD s2) } ∧
      (p.renamed = true →
        restartClean (stopDisk z.d ls' (persistD s2) p) = some (z'.d.lines, persistD s2)) ∧
      (p.renamed = false → ∀ im, z.d.img = some im →
        restartClean (stopDisk z.d ls' (persistD s2) p) = some (z.d.lines, im)) := by
  have hs := dStep_sys h
  have hr := hg.r4
  obtain ⟨job, s2, sf⟩ := step_facts hr hs
  obtain ⟨ls', hls, hd, _⟩ := dStep_step h sf.htp
  obtain ⟨hg', _⟩ := dStep_good _ hg hev h
  refine ⟨s2, ls', hd, ?_, ?_⟩
  · intro hren
    unfold stopDisk restartClean
    rw [if_pos hren]
    simp only [Option.map_some]
    have himg : z'.d.img = some (persistD s2) := by rw [hd]
    have := clean_noopG hg' (persistD s2) himg
    rw [hd] at this ⊢
    simp only at this ⊢
    rw [this]
  · intro hren im him
    unfold stopDisk restartClean
    rw [if_neg (by simp [hren]), him]
    simp only [Option.map_some, Option.some.injEq, Prod.mk.injEq, and_true]
    have ig := hg.d.img im him
    obtain ⟨news, _, hn2, hn3⟩ := sf.rows
    rw [cleanLines_append, cleanLines_append, clean_noopG hg im him]
    have h2 : cleanLines (activeKeys im) (ls'.take p.j) = [] := by
      apply cleanLines_drop_all
      intro l hl
      have hl' : l ∈ ls' := List.mem_of_mem_take hl
      obtain ⟨i, hi⟩ := List.mem_iff_getElem?.mp hl'
      obtain ⟨r, fc, wc, hri, _, rfl⟩ := (fmtRows_rows _ _ hls).2.2.2 i l hi
      refine ⟨rfl, r.1, rfl, ?_⟩
      rw [hn2] at hri
      exact ig.act.mem_iff.mpr (hn3 r (List.mem_of_getElem? hri))
    rw [h2]
    cases p.torn with
    | none => simp [cleanLines]
    | some k => simp [cleanLines_torn]

/-! ### `load_paths`: the step counter, the weight records, the weights handed in -/

theorem loadOne_cstep {s s' : St} {ens : Int} {pn : Nat} {valid fr : List Rat}
    (h : loadOne s ens pn valid fr = .ok s') : s'.cstep = s.cstep := by
  obtain ⟨_, _, e1⟩ := loadOne_ok5 h
  rw [e1]

theorem plus_cstep : ∀ (l : List (Nat × List Rat × List Rat)) (s s' : St) (i : Nat),
    loadPaths.plus s i l = .ok s' → s'.cstep = s.cstep := by
  intro l
  induction l with
  | nil =>
    intro s s' i h
    simp only [loadPaths.plus, Except.ok.injEq] at h
    subst h; rfl
  | cons p rest ih =>
    intro s s' i h
    obtain ⟨pn, w, fr⟩ := p
    unfold loadPaths.plus at h
    split at h
    · exact absurd h (by simp)
    rename_i s1 h1
    exact (ih s1 s' (i + 1) h).trans (loadOne_cstep h1)

theorem loadPaths_cstep {s s' : St} {paths : List (Nat × List Rat × List Rat)}
    (h : loadPaths s paths = .ok s') : s'.cstep = s.cstep := by
  unfold loadPaths at h
  split at h
  · exact absurd h (by simp)
  split at h
  · exact absurd h (by simp)
  rename_i s1 hplus
  exact (loadOne_cstep h).trans (plus_cstep _ _ s1 0 hplus)

theorem restore_cstep {im : Image} {s' : St} {n workers tsteps : Nat} {occ : List (List Int)}
    {ensEng : List (List Nat)} {weightOf : Nat → List Rat}
    (h : restore im n workers tsteps occ ensEng weightOf = .ok s') : s'.cstep = im.cstep := by
  unfold restore at h
  exact loadPaths_cstep h

/-- `restore` asks for the weights of the active paths only -/
theorem restore_congr (im : Image) (n workers tsteps : Nat) (occ : List (List Int)) (ensEng : List (List Nat))
    (w1 w2 : Nat → List Rat) (hw : ∀ pn ∈ activeKeys im, w1 pn = w2 pn) :
    restore im n workers tsteps occ ensEng w1 = restore im n workers tsteps occ ensEng w2 := by
  have hp : im.active.filterMap (fun o => o.map (fun pn =>
        (pn, w1 pn, (im.frac.lookup pn).getD (List.replicate n 0))))
      = im.active.filterMap (fun o => o.map (fun pn =>
        (pn, w2 pn, (im.frac.lookup pn).getD (List.replicate n 0)))) := by
    apply List.filterMap_congr
    intro o ho
    cases o with
    | none => rfl
    | some pn =>
      have : pn ∈ activeKeys im := by
        unfold activeKeys
        exact mem_fm.mpr ho
      simp only [Option.map_some]
      rw [hw pn this]
  unfold restore
  simp only []
  rw [hp]

theorem lookup_pairs (P : List (Nat × List Rat × List Rat)) (g : Nat → List Rat)
    (hP : ∀ p ∈ P, p.2.1 = g p.1) (pn : Nat) (hm : pn ∈ P.map (·.1)) :
    (P.map (fun p => (p.1, p.2.1))).lookup pn = some (g pn) := by
  induction P with
  | nil => simp at hm
  | cons p rest ih =>
    simp only [List.map_cons, List.lookup_cons]
    cases hb : (pn == p.1) with
    | true =>
      have : pn = p.1 := by simpa using hb
      simp only []
      rw [hP p List.mem_cons_self, this]
    | false =>
      simp only []
      have hne : pn ≠ p.1 := by simpa using hb
      simp only [List.map_cons, List.mem_cons] at hm
      rcases hm with hm | hm
      · exact absurd hm hne
      · exact ih (fun q hq => hP q (List.mem_cons_of_mem _ hq)) hm

/-- the weight record of an active path in the restored state is the weight vector handed in -/
theorem restore_wts_lookup {im : Image} {s' : St} {n workers tsteps : Nat} {occ : List (List Int)}
    {ensEng : List (List Nat)} {weightOf : Nat → List Rat}
    (h : restore im n workers tsteps occ ensEng weightOf = .ok s') (pn : Nat) (hp : pn ∈ activeKeys im) :
    s'.wts.lookup pn = some (weightOf pn) := by
  have h' : loadPaths { blank n workers tsteps im.cstep im.trajNum im.seed occ ensEng true im.locked with
              locked0Ord := im.lockedOrd.map some,
              spawned := im.spawnedRec.getD (im.cstep + im.locked.length) } (imgPathsOf im n weightOf) = .ok s' := h
  obtain ⟨_, hd, tl, hpaths, hwts⟩ := loadPaths_more h'
  have hw' : s'.wts = (tl ++ [hd]).map (fun p => (p.1, p.2.1)) := by rw [hwts]; rfl
  have hperm : (tl ++ [hd]).Perm (imgPathsOf im n weightOf) := by rw [hpaths]; exact List.perm_append_comm
  rw [hw']
  apply lookup_pairs
  · intro p hpm
    have := hperm.mem_iff.mp hpm
    rw [imgPathsOf_eq] at this
    simp only [List.mem_map] at this
    obtain ⟨q, _, rfl⟩ := this
    rfl
  · have : (imgPathsOf im n weightOf).map (·.1) = activeKeys im := by
      rw [imgPathsOf_eq, List.map_map]
      simp [Function.comp_def]
    rw [(hperm.map (·.1)).mem_iff, this]
    exact hp

/-! ### the restart of a good disk whose restart file records nothing in flight -/

/-- **`restartSys` on the cleaned disk of a good state gives a good state again**: `Z` good with restart file
    `im` (nothing recorded as in flight), `d` any disk that `clean_data_file` turns into `Z`'s (what a stop left),
    the stored paths carrying the weights on record.  The restored system is good, its disk is `Z`'s, its counts
    are `Z`'s, nothing is in flight. -/
theorem restart_good {Z : DSys} (hg : Good Z) {im : Image} (him : Z.d.img = some im) (hq : im.locked = [])
    {d : Disk} (hclean : restartClean d = some (Z.d.lines, im)) {workers tsteps : Nat}
    {occ : List (List Int)} {ensEng : List (List Nat)} {zr : DSys}
    (h : restartSys d Z.cnt Z.y.s.n workers tsteps occ ensEng
      (fun pn => (Z.y.s.wts.lookup pn).getD []) = .ok zr) :
    Good zr ∧ zr.d = { lines := Z.d.lines, img := some im } ∧ zr.cnt = Z.cnt ∧ zr.y.jobs = [] ∧
      zr.y.s.n = Z.y.s.n ∧ zr.y.s.cstep = im.cstep := by
  unfold restartSys at h
  rw [hclean] at h
  simp only [] at h
  split at h
  · exact absurd h (by simp)
  rename_i sR hres
  simp only [Except.ok.injEq] at h
  subst h
  have ig := hg.d.img im him
  obtain ⟨sP, jP, e1, hrP, enP, ewP⟩ := ig.src
  obtain ⟨f1, _, _⟩ := good_disk_facts hg im him
  obtain ⟨_, f2, f3⟩ := good_disk_facts hg im him
  -- the restore of the file is the restore of the image of `sP` with `sP`'s weights
  have hres' : restore (persist sP) sP.n workers tsteps occ ensEng (fun pn => (sP.wts.lookup pn).getD []) = .ok sR := by
    rw [← restore_persistD, ← e1, enP,
      restore_congr im Z.y.s.n workers tsteps occ ensEng (fun pn => (sP.wts.lookup pn).getD [])
        (fun pn => (Z.y.s.wts.lookup pn).getD []) (fun pn hp => by simp only [ewP pn hp])]
    exact hres
  have hlk : sP.locked = [] := by
    rw [e1] at hq
    have : (persist sP).locked = [] := hq
    unfold persist at this
    simpa using this
  obtain ⟨b1, b2, _, _, b5, b6⟩ := restore_reach4 (y1 := ⟨sP, jP⟩) hrP hlk hres'
  obtain ⟨c1, _, c3, _, _, c6⟩ := restore_image hres
  have hcs := restore_cstep hres
  have hn : sR.n = Z.y.s.n := b6.trans enP
  refine ⟨⟨b1, b2, ⟨⟨Z.d.lines, [], ?_, by simp, ?_, ?_⟩, ?_, ?_, ?_⟩⟩, rfl, rfl, rfl, hn, hcs⟩
  · show fmtRows sR.n sR.rows = .ok []
    rw [b5]; rfl
  · intro l hl
    rcases f1 l hl with h1 | ⟨h1, h2⟩
    · exact Or.inl h1
    · right
      refine ⟨h1, fun k hk => ?_⟩
      obtain ⟨a1, a2⟩ := h2 k hk
      exact ⟨by show k < sR.trajNum; rw [c6]; exact a1, fun hin => a2 (c1.mem_iff.mp hin)⟩
  · show (lineKeys Z.d.lines ++ sR.rows.map (·.1)).Nodup
    rw [b5]; simpa using f2
  · intro im' him'
    simp only [Option.some.injEq] at him'
    subst him'
    refine ⟨c1.symm, fun c => (c3 c).symm, hcs.symm, c6.symm, ⟨sP, jP, e1, hrP, b6.symm, ?_⟩⟩
    intro pn hp
    show sP.wts.lookup pn = sR.wts.lookup pn
    rw [restore_wts_lookup hres pn hp]
    -- an active path has a weight record in `sP`
    have hio := imgOk_persistD hrP.hinv.inv.core.toR hrP.tidy.tidy hrP.hinv.fw.keys hrP.rinv.liveNodup
    have hpk : pn ∈ sP.frac.map Prod.fst := by
      rw [e1] at hp
      exact hio.act.mem_iff.mp hp
    have hpw : pn ∈ sP.wts.map Prod.fst := by rw [← hrP.tidy.tidy.sameKeys]; exact hpk
    obtain ⟨w, hw⟩ := lookup_isSome_of_mem hpw
    rw [← ewP pn hp, hw]
    rfl
  · show Z.cnt.length = sR.n
    rw [hn]; exact hg.d.cntLen
  · intro c hc
    show lineTotal Z.d.lines c + colTotal sR.frac c = _
    have hc' : c < Z.y.s.n - 1 := by
      have : (⟨⟨sR, []⟩, ⟨Z.d.lines, some im⟩, Z.cnt⟩ : DSys).y.s.n = sR.n := rfl
      rw [this, hn] at hc
      exact hc
    rw [c3 c]
    exact f3 c hc'

/-! ### the disk states a sampler can reach: events, stops, restarts -/

theorem loadOne_workers {s s' : St} {ens : Int} {pn : Nat} {valid fr : List Rat}
    (h : loadOne s ens pn valid fr = .ok s') : s'.workers = s.workers := by
  obtain ⟨_, _, e1⟩ := loadOne_ok5 h
  rw [e1]

theorem plus_workers : ∀ (l : List (Nat × List Rat × List Rat)) (s s' : St) (i : Nat),
    loadPaths.plus s i l = .ok s' → s'.workers = s.workers := by
  intro l
  induction l with
  | nil =>
    intro s s' i h
    simp only [loadPaths.plus, Except.ok.injEq] at h
    subst h; rfl
  | cons p rest ih =>
    intro s s' i h
    obtain ⟨pn, w, fr⟩ := p
    unfold loadPaths.plus at h
    split at h
    · exact absurd h (by simp)
    rename_i s1 h1
    exact (ih s1 s' (i + 1) h).trans (loadOne_workers h1)

theorem loadPaths_workers {s s' : St} {paths : List (Nat × List Rat × List Rat)}
    (h : loadPaths s paths = .ok s') : s'.workers = s.workers := by
  unfold loadPaths at h
  split at h
  · exact absurd h (by simp)
  split at h
  · exact absurd h (by simp)
  rename_i s1 hplus
  exact (loadOne_workers h).trans (plus_workers _ _ s1 0 hplus)

theorem restore_workers {im : Image} {s' : St} {n workers tsteps : Nat} {occ : List (List Int)}
    {ensEng : List (List Nat)} {weightOf : Nat → List Rat}
    (h : restore im n workers tsteps occ ensEng weightOf = .ok s') : s'.workers = workers := by
  unfold restore at h
  exact loadPaths_workers h

/-- **The disk states of the sampler.**  `one = true`: one worker throughout, step counter 0 at the fresh start.
    * `fresh`: a fresh start (`DiskStart`) on a fresh disk;
    * `event`: one scheduler event (outcome in the weight family) with its disk effects (`dStep`);
    * `restart`: the next completed step is stopped anywhere inside its two weight-relevant disk effects (`p`),
      the restart file the restart finds records no job in flight (`hq`; with one worker: always), and
      `restartSys` (`clean_data_file`, `__init__`, `load_paths`; the stored paths carry the weights on record; any
      worker count / step target / engine table) rebuilds the sampler; the counts go on from the number of
      recordings the restart file accounts for. -/
inductive Reachable (one : Bool) : DSys → Prop
  | fresh {y0 : Sys} (h0 : DiskStart y0) (h1 : one = true → y0.s.workers = 1 ∧ y0.s.cstep = 0) :
      Reachable one (freshSys y0)
  | event {z z' : DSys} {ev : Ev} (hz : Reachable one z) (hev : EvOk z.y ev) (h : dStep z ev = .ok z') :
      Reachable one z'
  | restart {z z' zr : DSys} {k : Nat} {status : Status} {newW : List (List Rat)} {o : PickOutcome} {p : Stop}
      {s2 : St} {ls' lines : List DLine} {im : Image} {workers tsteps : Nat} {occ : List (List Int)}
      {ensEng : List (List Nat)}
      (hz : Reachable one z) (hev : EvOk z.y (.step k status newW o))
      (h : dStep z (.step k status newW o) = .ok z')
      (hd : z'.d = { lines := z.d.lines ++ ls', img := some (persistD s2) })
      (hclean : restartClean (stopDisk z.d ls' (persistD s2) p) = some (lines, im))
      (hq : im.locked = []) (h1 : one = true → workers = 1)
      (hr : restartSys (stopDisk z.d ls' (persistD s2) p) (if p.renamed then z'.cnt else z.cnt) z.y.s.n
        workers tsteps occ ensEng
        (fun pn => ((if p.renamed then z'.y else z.y).s.wts.lookup pn).getD []) = .ok zr) :
      Reachable one zr

/-- what the one-worker flag adds -/
def OneOk (one : Bool) (z : DSys) : Prop :=
  one = true → z.y.s.workers = 1 ∧ ∀ c, c < z.y.s.n - 1 → z.cnt.getD c 0 = z.y.s.cstep

theorem reachable_good {one : Bool} {z : DSys} (hz : Reachable one z) : Good z ∧ OneOk one z := by
  induction hz with
  | @fresh y0 h0 h1 =>
    refine ⟨freshSys_good h0, fun ho => ?_⟩
    obtain ⟨a1, a2⟩ := h1 ho
    refine ⟨a1, fun c _ => ?_⟩
    show (List.replicate _ 0).getD c 0 = y0.s.cstep
    rw [getD_replicate_zero_nat, a2]
  | event hz hev h ih =>
    obtain ⟨hg, h1⟩ := ih
    obtain ⟨hg', hc⟩ := dStep_good _ hg hev h
    refine ⟨hg', fun ho => ?_⟩
    obtain ⟨w1, c1⟩ := h1 ho
    obtain ⟨_, _, _, hn, hw, hone⟩ :=
      sysStep_total _ hg.r4.hinv hg.j (dStep_sys h) (matchableAt_of_inv5 hg.r4.inv5 hev)
    refine ⟨hw.trans w1, fun c hcn => ?_⟩
    rw [hn] at hcn
    rw [hc c, c1 c hcn, hone w1 c hcn]
  | @restart z z' zr k status newW o p s2 ls' lines im workers tsteps occ ensEng hz hev h hd hclean hq h1 hr ih =>
    obtain ⟨hg, ho1⟩ := ih
    obtain ⟨hg', hc⟩ := dStep_good _ hg hev h
    obtain ⟨s2', ls'', hd', hA, hB⟩ := stop_restartG hg hev h p
    have hs := dStep_sys h
    obtain ⟨job, s2x, sf⟩ := step_facts hg.r4 hs
    have hn' : z'.y.s.n = z.y.s.n := by rw [sf.keep.n, sf.n]
    -- the two descriptions of `z'.d` agree
    have hdd := hd.symm.trans hd'
    simp only [Disk.mk.injEq, List.append_cancel_left_eq, Option.some.injEq] at hdd
    obtain ⟨e1, e2⟩ := hdd
    subst e1
    rw [e2] at hclean hr
    cases hren : p.renamed with
    | true =>
      rw [hA hren] at hclean
      simp only [Option.some.injEq, Prod.mk.injEq] at hclean
      obtain ⟨el, ei⟩ := hclean
      subst ei
      simp only [hren, if_true] at hr
      have himg : z'.d.img = some (persistD s2') := by rw [hd']
      rw [← hn'] at hr
      obtain ⟨g, _, gc, _, gn, gcs⟩ := restart_good hg' himg hq (hA hren) hr
      refine ⟨g, fun ho => ?_⟩
      have hw : zr.y.s.workers = 1 := by
        unfold restartSys at hr
        rw [hA hren] at hr
        simp only [] at hr
        split at hr
        · exact absurd hr (by simp)
        rename_i sR hres
        simp only [Except.ok.injEq] at hr
        rw [← hr]
        exact (restore_workers hres).trans (h1 ho)
      refine ⟨hw, fun c hcn => ?_⟩
      rw [gn] at hcn
      rw [gc, gcs]
      -- the counts of `z'` are its step counter, which is the restart file's
      obtain ⟨w1, c1⟩ := ho1 ho
      obtain ⟨_, _, _, hn, hww, hone⟩ :=
        sysStep_total _ hg.r4.hinv hg.j hs (matchableAt_of_inv5 hg.r4.inv5 hev)
      have ig := hg'.d.img _ himg
      rw [ig.cstep, hc c, c1 c (by rw [← hn]; exact hcn), hone w1 c (by rw [← hn]; exact hcn)]
    | false =>
      -- a restart file must have been there
      have hex : ∃ im0, z.d.img = some im0 := by
        unfold restartClean stopDisk at hclean
        rw [if_neg (by simp [hren])] at hclean
        simp only at hclean
        cases hi : z.d.img with
        | none => rw [hi] at hclean; simp at hclean
        | some im0 => exact ⟨im0, rfl⟩
      obtain ⟨im0, him0⟩ := hex
      rw [hB hren im0 him0] at hclean
      simp only [Option.some.injEq, Prod.mk.injEq] at hclean
      obtain ⟨el, ei⟩ := hclean
      subst ei
      simp only [hren, Bool.false_eq_true, if_false] at hr
      obtain ⟨g, _, gc, _, gn, gcs⟩ := restart_good hg him0 hq (hB hren im0 him0) hr
      refine ⟨g, fun ho => ?_⟩
      have hw : zr.y.s.workers = 1 := by
        unfold restartSys at hr
        rw [hB hren im0 him0] at hr
        simp only [] at hr
        split at hr
        · exact absurd hr (by simp)
        rename_i sR hres
        simp only [Except.ok.injEq] at hr
        rw [← hr]
        exact (restore_workers hres).trans (h1 ho)
      refine ⟨hw, fun c hcn => ?_⟩
      rw [gn] at hcn
      obtain ⟨_, c1⟩ := ho1 ho
      have ig := hg.d.img _ him0
      rw [gc, gcs, ig.cstep, c1 c hcn]

theorem reachable_of_dRun {one : Bool} : ∀ (evs : List Ev) {z z' : DSys}, Reachable one z → HistOk z.y evs →
    dRun z evs = .ok z' → Reachable one z' := by
  intro evs
  induction evs with
  | nil =>
    intro z z' hz _ h
    simp only [dRun, Except.ok.injEq] at h
    subst h; exact hz
  | cons ev rest ih =>
    intro z z' hz hh h
    unfold dRun at h
    split at h
    · exact absurd h (by simp)
    rename_i z1 h1
    exact ih (Reachable.event hz hh.1 h1) (hh.2 z1.y (dStep_sys h1)) h

end Infretis.Repex.Data
