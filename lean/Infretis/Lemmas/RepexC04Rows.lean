import Infretis.Lemmas.RepexC04Rec
/-!
# C04 — `writeRows` (`write_to_pathens`): vectors move from `traj_data` to the data file
-/
namespace Infretis.Repex.Frac
open Infretis.Perm

/-! ### association-list helpers -/

theorem filter_ne_of_not_mem (l : List (Nat × List Rat)) (pn : Nat) (h : pn ∉ l.map Prod.fst) :
    l.filter (fun kv => kv.1 != pn) = l := by
  rw [List.filter_eq_self]
  intro kv hkv
  simp only [bne_iff_ne, ne_eq]
  intro e
  exact h (e ▸ List.mem_map_of_mem (f := Prod.fst) hkv)

theorem keys_filter_nodup (l : List (Nat × List Rat)) (p : Nat × List Rat → Bool)
    (h : (l.map Prod.fst).Nodup) : ((l.filter p).map Prod.fst).Nodup :=
  h.sublist (List.Sublist.map _ List.filter_sublist)

theorem lookup_filter_ne (l : List (Nat × List Rat)) (pn k : Nat) :
    (l.filter (fun kv => kv.1 != pn)).lookup k = if k = pn then none else l.lookup k := by
  induction l with
  | nil => simp
  | cons kv t ih =>
    obtain ⟨a, v⟩ := kv
    by_cases hap : a = pn
    · subst hap
      rw [List.filter_cons_of_neg (by simp), ih]
      by_cases hka : k = a
      · simp [hka]
      · have : (k == a) = false := by simpa using hka
        simp [List.lookup_cons, hka, this]
    · rw [List.filter_cons_of_pos (by simpa using hap)]
      simp only [List.lookup_cons]
      by_cases hka : k = a
      · subst hka
        simp [hap]
      · have : (k == a) = false := by simpa using hka
        simp only [this]
        exact ih

/-- removing the entry of key `pn` removes exactly its vector from every column total -/
theorem colTotal_filter_ne (l : List (Nat × List Rat)) (pn : Nat) (f : List Rat)
    (hnd : (l.map Prod.fst).Nodup) (hl : l.lookup pn = some f) (c : Nat) :
    colTotal (l.filter (fun kv => kv.1 != pn)) c + f.getD c 0 = colTotal l c := by
  induction l with
  | nil => simp at hl
  | cons kv t ih =>
    obtain ⟨a, v⟩ := kv
    simp only [List.map_cons, List.nodup_cons] at hnd
    simp only [List.lookup_cons] at hl
    by_cases hap : a = pn
    · subst hap
      simp only [beq_self_eq_true, Option.some.injEq] at hl
      subst hl
      rw [List.filter_cons_of_neg (by simp), filter_ne_of_not_mem t a hnd.1]
      simp only [colTotal_cons]
      ring
    · have : (pn == a) = false := by simpa using fun e => hap e.symm
      simp only [this] at hl
      rw [List.filter_cons_of_pos (by simpa using hap)]
      simp only [colTotal_cons]
      rw [← ih hnd.2 hl]
      ring

theorem filter_filter_contains (l : List (Nat × List Rat)) (pn : Nat) (rest : List Nat) :
    (l.filter (fun kv => kv.1 != pn)).filter (fun kv => !rest.contains kv.1)
      = l.filter (fun kv => !(pn :: rest).contains kv.1) := by
  rw [List.filter_filter]
  apply List.filter_congr
  intro kv _
  simp only [List.contains_cons, Bool.not_or, bne, Bool.and_comm]

/-! ### `writeRows` -/

/-- **`write_to_pathens`.** On success for the path numbers `l`:
    the data file gets exactly one new row per number, in order, carrying the `frac` and `weights`
    vectors the path had; exactly the listed keys leave `frac` and `wts`; nothing else changes;
    the listed numbers are pairwise distinct; and for every column the total over
    (data rows + fraction table) is unchanged. -/
theorem writeRows_spec : ∀ (l : List Nat) (s s' : St), (s.frac.map Prod.fst).Nodup →
    writeRows s l = .ok s' →
    (∃ news : List (Nat × List Rat × List Rat), s'.rows = s.rows ++ news ∧ news.map (·.1) = l ∧
        ∀ r ∈ news, s.frac.lookup r.1 = some r.2.1 ∧ s.wts.lookup r.1 = some r.2.2) ∧
    s'.frac = s.frac.filter (fun kv => !l.contains kv.1) ∧
    s'.wts = s.wts.filter (fun kv => !l.contains kv.1) ∧
    s' = { s with rows := s'.rows, frac := s'.frac, wts := s'.wts } ∧
    l.Nodup ∧
    (∀ c, rowsTotal s'.rows c + colTotal s'.frac c = rowsTotal s.rows c + colTotal s.frac c) := by
  intro l
  induction l with
  | nil =>
    intro s s' _ h
    simp only [writeRows, Except.ok.injEq] at h
    subst h
    exact ⟨⟨[], by simp, rfl, by simp⟩, by simp, by simp, rfl, List.nodup_nil, fun _ => rfl⟩
  | cons pn rest ih =>
    intro s s' hnd h
    unfold writeRows at h
    split at h
    · rename_i f w hf hw
      have hnd1 : ((s.frac.filter (fun kv => kv.1 != pn)).map Prod.fst).Nodup :=
        keys_filter_nodup _ _ hnd
      obtain ⟨⟨news, hr, hn, hlook⟩, hfr, hwt, hframe, hnod, htot⟩ := ih _ s' hnd1 h
      simp only at hr hlook hfr hwt htot
      have hne : ∀ r ∈ news, r.1 ≠ pn := by
        intro r hr' e
        have := (hlook r hr').1
        rw [lookup_filter_ne, if_pos e] at this
        exact absurd this (by simp)
      refine ⟨⟨(pn, f, w) :: news, ?_, ?_, ?_⟩, ?_, ?_, ?_, ?_, ?_⟩
      · rw [hr]; simp
      · simp [hn]
      · intro r hr'
        simp only [List.mem_cons] at hr'
        rcases hr' with rfl | hr'
        · exact ⟨hf, hw⟩
        · have h1 := hlook r hr'
          rw [lookup_filter_ne, if_neg (hne r hr'), lookup_filter_ne, if_neg (hne r hr')] at h1
          exact h1
      · rw [hfr, filter_filter_contains]
      · rw [hwt, filter_filter_contains]
      · rw [hframe]
      · rw [List.nodup_cons]
        refine ⟨?_, hnod⟩
        intro hm
        rw [← hn] at hm
        simp only [List.mem_map] at hm
        obtain ⟨r, hr', e⟩ := hm
        exact hne r hr' e
      · intro c
        rw [htot c, rowsTotal_append, ← colTotal_filter_ne s.frac pn f hnd hf c]
        simp only [rowsTotal, List.map_cons, List.map_nil, List.sum_cons, List.sum_nil]
        ring
    · exact absurd h (by simp)

/-- `writeRows` touches only `rows`, `frac`, `wts` (no well-formedness needed) -/
theorem writeRows_other : ∀ (l : List Nat) (s s' : St), writeRows s l = .ok s' →
    s'.locks = s.locks ∧ s'.n = s.n ∧ s'.trajNum = s.trajNum ∧ s'.trajs = s.trajs ∧ s'.W = s.W ∧
    s'.cstep = s.cstep := by
  intro l
  induction l with
  | nil =>
    intro s s' h
    simp only [writeRows, Except.ok.injEq] at h
    subst h
    exact ⟨rfl, rfl, rfl, rfl, rfl, rfl⟩
  | cons pn rest ih =>
    intro s s' h
    unfold writeRows at h
    split at h
    · have := ih _ s' h
      exact this
    · exact absurd h (by simp)

end Infretis.Repex.Frac
