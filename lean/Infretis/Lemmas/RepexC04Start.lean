import Infretis.Lemmas.RepexC04Disk
import Infretis.Lemmas.RepexC06Stop
/-!
# C04 — every fresh start satisfies the hypotheses of the law on the files

`load_paths` on `n − 1` initial paths (distinct numbers, zero fractions, weights in C02's family) into a blank
state leaves tidy tables (C06's `Tidy`: ghost slot empty, ghost row zero, both tables keyed exactly by the live
paths), hence `DiskStart`.
-/
namespace Infretis.Repex.Data
open Infretis.Repex.Frac Infretis.Perm

theorem filterMap_id_length {α : Type} (l : List (Option α)) (h : none ∉ l) :
    (l.filterMap id).length = l.length := by
  induction l with
  | nil => rfl
  | cons o t ih =>
    cases o with
    | none => exact absurd List.mem_cons_self h
    | some a =>
      have := ih (fun hm => h (List.mem_cons_of_mem _ hm))
      simp only [List.filterMap_cons, id, List.length_cons] at this ⊢
      omega

/-- the plus loop of `load_paths` never touches the ghost row -/
theorem plus_ghostW : ∀ (rest : List (Nat × List Rat × List Rat)) (s s' : St) (i : Nat),
    i + rest.length + 1 ≤ s.n - 1 → loadPaths.plus s i rest = .ok s' →
    s'.W[s.n - 1]? = s.W[s.n - 1]? ∧ s'.n = s.n := by
  intro rest
  induction rest with
  | nil =>
    intro s s' i _ h
    simp only [loadPaths.plus, Except.ok.injEq] at h
    subst h; exact ⟨rfl, rfl⟩
  | cons p rest ih =>
    intro s s' i hb h
    obtain ⟨pn, w, fr⟩ := p
    unfold loadPaths.plus at h
    split at h
    · exact absurd h (by simp)
    rename_i s1 h1
    obtain ⟨_, _, e1⟩ := loadOne_ok5 h1
    have hn1 : s1.n = s.n := by rw [e1]
    have hW1 : s1.W = s.W.set (i + 1) (padValid s (i : Int) w) := by
      rw [e1]
      simp
    simp only [List.length_cons] at hb
    obtain ⟨a1, a2⟩ := ih s1 s' (i + 1) (by rw [hn1]; omega) h
    rw [hn1] at a1
    refine ⟨?_, a2.trans hn1⟩
    rw [a1, hW1, List.getElem?_set_ne (by omega)]

theorem loadPaths_ghostW (n workers tsteps cstep trajNum seed : Nat) (occ : List (List Int))
    (ensEng : List (List Nat)) (restarted : Bool) (l0 : List (List Nat × List Nat))
    (paths : List (Nat × List Rat × List Rat)) (s : St) (hn : 2 ≤ n) (hlen : paths.length = n - 1)
    (h : loadPaths (blank n workers tsteps cstep trajNum seed occ ensEng restarted l0) paths = .ok s) :
    s.W[n - 1]? = some (List.replicate n 0) ∧ s.n = n := by
  unfold loadPaths at h
  split at h
  · exact absurd h (by simp)
  rename_i pn0 w0 fr0 rest
  split at h
  · exact absurd h (by simp)
  rename_i s1 hplus
  simp only [List.length_cons] at hlen
  have hb : (blank n workers tsteps cstep trajNum seed occ ensEng restarted l0).n = n := rfl
  obtain ⟨a1, a2⟩ := plus_ghostW rest _ s1 0 (by rw [hb]; omega) hplus
  rw [hb] at a1 a2
  obtain ⟨_, _, e1⟩ := loadOne_ok5 h
  have hW : s.W = s1.W.set 0 (padValid s1 (-1) w0) := by
    rw [e1]; simp
  have hns : s.n = s1.n := by rw [e1]
  refine ⟨?_, hns.trans a2⟩
  rw [hW, List.getElem?_set_ne (by omega), a1]
  show (List.replicate n (List.replicate n (0 : Rat)))[n - 1]? = _
  rw [List.getElem?_replicate, if_pos (by omega)]

/-- **`load_paths` on a fresh start leaves tidy tables** -/
theorem tidy_of_loadPaths (n workers tsteps cstep trajNum seed : Nat) (occ : List (List Int))
    (ensEng : List (List Nat)) (restarted : Bool) (paths : List (Nat × List Rat × List Rat)) (s : St)
    (hn : 2 ≤ n) (hlen : paths.length = n - 1) (hnd : (paths.map (·.1)).Nodup)
    (hlt : ∀ p ∈ paths, p.1 < trajNum) (hz : ∀ p ∈ paths, p.2.2 = List.replicate n 0)
    (h : loadPaths (blank n workers tsteps cstep trajNum seed occ ensEng restarted []) paths = .ok s) :
    Tidy s := by
  have ri := rowInit_of_loadPaths n workers tsteps cstep trajNum seed occ ensEng restarted paths s hn hlen hnd hlt hz h
  have hinit := ri.fi.init
  obtain ⟨hgW, hsn⟩ := loadPaths_ghostW n workers tsteps cstep trajNum seed occ ensEng restarted [] paths s hn hlen h
  obtain ⟨hd, tl, hp, hf, _, _, _⟩ := loadPaths_data h
  have hklen : (s.frac.map Prod.fst).length = n - 1 := by
    rw [hf]
    simp only [blank, List.nil_append, List.map_map, List.length_map, List.length_append, List.length_cons,
      List.length_nil]
    rw [hp] at hlen
    simp only [List.length_cons] at hlen
    omega
  have hsame : s.frac.map Prod.fst = s.wts.map Prod.fst := loadPaths_sameKeys h rfl
  -- the paths in the slots, as a list
  have hsub : ∀ q ∈ s.trajs.filterMap id, q ∈ s.frac.map Prod.fst := fun q hq => ri.liveFrac q (mem_fm.mp hq)
  have hsp : (s.trajs.filterMap id).Subperm (s.frac.map Prod.fst) :=
    List.subperm_of_subset ri.liveNodup hsub
  have hT : s.trajs.length = n := by rw [← hsn]; exact hinit.lenT
  have hnone : none ∈ s.trajs := by
    by_contra hno
    have := filterMap_id_length s.trajs hno
    have hle := hsp.length_le
    rw [this, hT, hklen] at hle
    omega
  -- the live paths are exactly the keys
  have hcore : CoreR s (held []) s.trajNum := (hinit.inv.core).toR
  have hlive : ((livePaths s).filterMap id).length = n - 1 := by
    have hall : ∀ o ∈ livePaths s, ∃ a, o = some a := livePaths_all_some hinit.inv.core
    have := filterMap_map_length (livePaths s) (fun a : Nat => a) hall
    have hid : (fun o : Option Nat => o.map (fun a : Nat => a)) = id := by funext o; cases o <;> rfl
    rw [hid] at this
    rw [this]
    unfold livePaths
    rw [List.length_dropLast, hT]
  have hsp2 : ((livePaths s).filterMap id).Subperm (s.frac.map Prod.fst) :=
    List.subperm_of_subset (ri.liveNodup.sublist ((List.dropLast_sublist _).filterMap id))
      (fun q hq => ri.liveFrac q ((List.dropLast_sublist _).subset (mem_fm.mp hq)))
  have hperm : ((livePaths s).filterMap id).Perm (s.frac.map Prod.fst) :=
    hsp2.perm_of_length_le (by rw [hlive, hklen])
  refine ⟨hnone, ?_, hsame, ?_⟩
  · rw [hsn]; exact List.mem_of_getElem? hgW
  · intro q
    rw [← hsame]
    constructor
    · intro hq
      have := hperm.mem_iff.mpr hq
      exact (List.dropLast_sublist _).subset (mem_fm.mp this)
    · intro hq; exact ri.liveFrac q hq

/-- **every fresh start is a `DiskStart`** -/
theorem diskStart_of_loadPaths (n workers tsteps cstep trajNum seed : Nat) (occ : List (List Int))
    (ensEng : List (List Nat)) (restarted : Bool) (paths : List (Nat × List Rat × List Rat)) (s : St)
    (hn : 2 ≤ n) (hlen : paths.length = n - 1) (hnd : (paths.map (·.1)).Nodup)
    (hlt : ∀ p ∈ paths, p.1 < trajNum) (hz : ∀ p ∈ paths, p.2.2 = List.replicate n 0)
    (hfam : ∀ (i : Nat) (hi : i < paths.length), VecOk n ((i : Int) - 1) (paths[i]).2.1)
    (h : loadPaths (blank n workers tsteps cstep trajNum seed occ ensEng restarted []) paths = .ok s) :
    DiskStart ⟨s, []⟩ :=
  ⟨rowInit_of_loadPaths n workers tsteps cstep trajNum seed occ ensEng restarted paths s hn hlen hnd hlt hz h,
   init5_of_loadPaths n workers tsteps cstep trajNum seed occ ensEng restarted paths s hn hlen hnd hlt hfam h,
   tidy_of_loadPaths n workers tsteps cstep trajNum seed occ ensEng restarted paths s hn hlen hnd hlt hz h⟩

/-! ### one more event at the end of a history -/

theorem dRun_snoc : ∀ (evs : List Ev) {z z1 z' : DSys} (ev : Ev), dRun z evs = .ok z1 → dStep z1 ev = .ok z' →
    dRun z (evs ++ [ev]) = .ok z' := by
  intro evs
  induction evs with
  | nil =>
    intro z z1 z' ev h1 h2
    simp only [dRun, Except.ok.injEq] at h1
    subst h1
    simp only [List.nil_append, dRun, h2]
  | cons e rest ih =>
    intro z z1 z' ev h1 h2
    unfold dRun at h1
    split at h1
    · exact absurd h1 (by simp)
    rename_i z2 hz2
    show dRun z (e :: (rest ++ [ev])) = _
    unfold dRun
    rw [hz2]
    exact ih ev h1 h2

theorem histOk_snoc : ∀ (evs : List Ev) {y y1 : Sys} (ev : Ev), HistOk y evs → run y evs = .ok y1 → EvOk y1 ev →
    HistOk y (evs ++ [ev]) := by
  intro evs
  induction evs with
  | nil =>
    intro y y1 ev _ hr he
    simp only [run, Except.ok.injEq] at hr
    subst hr
    exact ⟨he, fun _ _ => trivial⟩
  | cons e rest ih =>
    intro y y1 ev hh hr he
    unfold run at hr
    split at hr
    · exact absurd hr (by simp)
    rename_i y2 hy2
    refine ⟨hh.1, ?_⟩
    intro y' hy'
    rw [hy2] at hy'
    simp only [Except.ok.injEq] at hy'
    subst hy'
    exact ih ev (hh.2 y2 hy2) hr he

theorem getD_replicate_zero_nat (n c : Nat) : (List.replicate n (0 : Nat)).getD c 0 = 0 := by
  rw [List.getD_eq_getElem?_getD, List.getElem?_replicate]
  split <;> rfl

end Infretis.Repex.Data
