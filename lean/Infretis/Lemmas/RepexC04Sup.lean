import Infretis.Lemmas.RepexC04Data
import Infretis.Lemmas.RepexC04C05
/-!
# C04 — the support invariant: a path carries weight only in the columns its data row shows

`write_to_pathens` shows column 0 of a `[0-]` path (one weight) and the columns `1 … n−2` of every other path; the
remaining columns are written as `----`.  So "data rows + live weights = idle recordings" is a statement about
what is WRITTEN only if nothing is ever accumulated in a column that is not shown (nor in the ghost column).
That is an invariant of the sampler: the increment of the path in slot `i` is row `i` of the P matrix, which
vanishes where `W[i]` vanishes and in every busy (so in the ghost) column, and `W[i]` is the padded weight vector
of the path (C05's family invariant `Fam`).
-/
namespace Infretis.Repex.Data
open Infretis.Repex.Frac Infretis.Perm

/-- table entries are supported on the columns their row would show, written rows satisfy `RowSup` -/
structure SupInv (s : St) : Prop where
  tab : ∀ pn w, s.wts.lookup pn = some w →
      (∀ c, c < s.n - 1 → shown w c = false → fracAt s.frac pn c = 0) ∧ fracAt s.frac pn (s.n - 1) = 0
  rows : ∀ r ∈ s.rows, RowSup s.n r.2.1 r.2.2

theorem SupInv.congr {s s' : St} (h : SupInv s) (hf : s'.frac = s.frac) (hw : s'.wts = s.wts)
    (hr : s'.rows = s.rows) (hn : s'.n = s.n) : SupInv s' := by
  constructor
  · rw [hf, hw, hn]; exact h.tab
  · rw [hr, hn]; exact h.rows

/-! ### association lists -/

theorem lookup_append' {β : Type} (a b : List (Nat × β)) (k : Nat) :
    (a ++ b).lookup k = match a.lookup k with | some v => some v | none => b.lookup k := by
  induction a with
  | nil => simp
  | cons x rest ih =>
    obtain ⟨a0, v0⟩ := x
    simp only [List.cons_append, List.lookup_cons]
    cases h : (k == a0) with
    | true => simp
    | false => simpa using ih

theorem lookup_filter_key {β : Type} (l : List (Nat × β)) (p : Nat → Bool) (k : Nat) :
    (l.filter (fun kv => p kv.1)).lookup k = if p k then l.lookup k else none := by
  induction l with
  | nil => simp
  | cons x rest ih =>
    obtain ⟨a, v⟩ := x
    by_cases hpa : p a = true
    · rw [List.filter_cons_of_pos (by simpa using hpa)]
      simp only [List.lookup_cons]
      cases h : (k == a) with
      | true =>
        have : k = a := by simpa using h
        subst this
        simp [hpa]
      | false => simpa using ih
    · rw [List.filter_cons_of_neg (by simpa using hpa)]
      simp only [List.lookup_cons]
      cases h : (k == a) with
      | true =>
        have : k = a := by simpa using h
        subst this
        rw [ih]
        simp [hpa]
      | false => simpa using ih

theorem lookup_zeroFracs (n tn k pn : Nat) :
    (zeroFracs n tn k).lookup pn = none ∨ (zeroFracs n tn k).lookup pn = some (List.replicate n 0) := by
  cases h : (zeroFracs n tn k).lookup pn with
  | none => exact Or.inl rfl
  | some v =>
    right
    have hm := Frac.lookup_mem h
    simp only [zeroFracs, List.mem_map] at hm
    obtain ⟨t, _, ht⟩ := hm
    simp only [Prod.mk.injEq] at ht
    rw [← ht.2]

/-- appending zero vectors for fresh keys changes no entry of any path -/
theorem fracAt_append_zero (frac : List (Nat × List Rat)) (n tn k pn c : Nat) :
    fracAt (frac ++ zeroFracs n tn k) pn c = fracAt frac pn c := by
  unfold fracAt
  rw [lookup_append']
  cases h : frac.lookup pn with
  | some v => rfl
  | none =>
    simp only []
    rcases lookup_zeroFracs n tn k pn with h' | h'
    · rw [h']
    · rw [h']
      show (List.replicate n (0 : Rat)).getD c 0 = ([] : List Rat).getD c 0
      rw [getD_replicate_zero]; rfl

/-! ### the per-ensemble loop only appends weight records for fresh path numbers -/

theorem perEns_wts (status : Status) : ∀ (l : List (Picked × List Rat)) {s s' : St}
    {tn tn' : Nat} {pns : List Nat},
    treatOutput.perEns status s tn l = .ok (s', tn', pns) →
    ∃ extra, s'.wts = s.wts ++ extra ∧
      extra.map Prod.fst = List.range' tn (if status = .acc then l.length else 0) := by
  intro l
  induction l with
  | nil =>
    intro s s' tn tn' pns h
    simp only [treatOutput.perEns, Except.ok.injEq, Prod.mk.injEq] at h
    obtain ⟨rfl, _, _⟩ := h
    exact ⟨[], by simp, by simp⟩
  | cons pw rest ih =>
    intro s s' tn tn' pns h
    obtain ⟨p, w⟩ := pw
    unfold treatOutput.perEns at h
    simp only [] at h
    split at h
    · rename_i hacc
      split at h
      · exact absurd h (by simp)
      rename_i s3 hadd
      split at h
      · exact absurd h (by simp)
      rename_i s4 tn4 pns4 hrec
      simp only [Except.ok.injEq, Prod.mk.injEq] at h
      obtain ⟨rfl, _, _⟩ := h
      obtain ⟨hd, _⟩ := addTraj_dataEq hadd
      obtain ⟨extra, h1, h2⟩ := ih hrec
      have hdw := hd.wts
      simp only at hdw
      refine ⟨(tn, w) :: extra, by rw [h1, hdw]; simp, ?_⟩
      simp only [hacc, if_true] at h2 ⊢
      simp [h2, List.range'_succ]
    · rename_i hacc
      split at h
      · exact absurd h (by simp)
      rename_i wOld _
      split at h
      · exact absurd h (by simp)
      rename_i s3 hadd
      split at h
      · exact absurd h (by simp)
      rename_i s4 tn4 pns4 hrec
      simp only [Except.ok.injEq, Prod.mk.injEq] at h
      obtain ⟨rfl, _, _⟩ := h
      obtain ⟨hd, _⟩ := addTraj_dataEq hadd
      obtain ⟨extra, h1, h2⟩ := ih hrec
      have hdw := hd.wts
      simp only at hdw
      refine ⟨extra, by rw [h1, hdw], ?_⟩
      simp only [hacc, if_false] at h2 ⊢
      exact h2

/-- weight records present before the loop are found unchanged after it -/
theorem perEns_wts_lookup (status : Status) {l : List (Picked × List Rat)} {s s' : St}
    {tn tn' : Nat} {pns : List Nat} (h : treatOutput.perEns status s tn l = .ok (s', tn', pns))
    (pn : Nat) (w : List Rat) (hw : s.wts.lookup pn = some w) : s'.wts.lookup pn = some w := by
  obtain ⟨extra, h1, _⟩ := perEns_wts status l h
  rw [h1, lookup_append', hw]

/-! ### the shape of a weight vector whose padded form is a family row -/

theorem shape_of_rowOk {n i : Nat} {w : List Rat} (hi : i < n - 1)
    (hr : RowOk n i (padN n ((i : Int) - 1) w)) :
    (i = 0 → w.length = 1) ∧ (1 ≤ i → w.length = n - 1 ∧ w.length ≠ 1) := by
  constructor
  · intro h0
    subst h0
    obtain ⟨hlen, _, _⟩ := hr.1 rfl
    unfold padN at hlen
    rw [if_neg (by simp)] at hlen
    simp only [List.length_append, List.length_replicate, off] at hlen
    omega
  · intro h1
    obtain ⟨cnt, ⟨hlen, _⟩, _⟩ := hr.2 h1
    unfold padN at hlen
    rw [if_pos (by omega)] at hlen
    simp only [List.length_append, List.length_replicate, off] at hlen
    omega

/-- where the row of a path does not show a column, the padded weight vector is zero -/
theorem padN_zero_of_not_shown {n i : Nat} {w : List Rat} (hi : i < n - 1)
    (hr : RowOk n i (padN n ((i : Int) - 1) w)) (c : Nat) (hs : shown w c = false) :
    (padN n ((i : Int) - 1) w).getD c 0 = 0 := by
  obtain ⟨s0, s1⟩ := shape_of_rowOk hi hr
  rcases Nat.eq_zero_or_pos i with h0 | h1
  · have hw := s0 h0
    subst h0
    unfold shown at hs
    rw [if_pos hw] at hs
    have hc : 1 ≤ c := by
      rcases Nat.eq_zero_or_pos c with h | h
      · subst h; simp at hs
      · exact h
    unfold padN
    rw [if_neg (by simp)]
    rw [List.getD_eq_getElem?_getD, List.getElem?_append_right (by omega), List.getElem?_replicate]
    split <;> rfl
  · obtain ⟨_, hne⟩ := s1 h1
    unfold shown at hs
    rw [if_neg hne] at hs
    have hc : c = 0 := by
      have : ¬ (1 ≤ c) := by simpa using hs
      omega
    subst hc
    unfold padN
    rw [if_pos (by omega)]
    simp [off]

/-! ### "record weights" keeps the support -/

theorem recordFrac_sup {s s' : St} {tn : Nat} (wf : SlotWF s) (hf : Fam s tn)
    (hk : (s.frac.map Prod.fst).Nodup) (hl : ∀ kv ∈ s.frac, kv.2.length = s.n)
    (hs : SupInv s) (h : recordFrac s = .ok s') : SupInv s' := by
  obtain ⟨h1, _, _, _, h5, h6⟩ := recordFrac_spec wf hk hl h
  have hW : s.W.length = s.locks.length := by rw [wf.lenW, wf.lenL]
  have ew : s'.wts = s.wts := by rw [h1]
  have en : s'.n = s.n := by rw [h1]
  have er : s'.rows = s.rows := by rw [h1]
  constructor
  · intro pn w hw
    rw [ew] at hw
    rw [en]
    obtain ⟨t1, t2⟩ := hs.tab pn w hw
    by_cases hslot : ∃ i, i < s.n - 1 ∧ s.locks[i]? = some false ∧ s.trajs[i]? = some (some pn)
    · obtain ⟨i, hi, hli, htr⟩ := hslot
      obtain ⟨w', hw', hpad⟩ := hf.wts i pn hi htr
      rw [hw] at hw'
      simp only [Option.some.injEq] at hw'
      subst hw'
      have hrow := hf.rows i hi
      rw [← hpad, padValid_eq_padN] at hrow
      have hent : ∀ c, entry s.W i c = (padN s.n ((i : Int) - 1) w).getD c 0 := by
        intro c
        unfold entry
        rw [← hpad, padValid_eq_padN]
      constructor
      · intro c hc hsh
        rw [h5 i pn hi hli htr c, t1 c hc hsh, zero_add]
        apply probMatrix_zero_of_weight_zero s.W s.locks hW
        rw [hent c]
        exact padN_zero_of_not_shown hi hrow c hsh
      · rw [h5 i pn hi hli htr (s.n - 1), t2, zero_add]
        apply probMatrix_zero_of_not_idle s.W s.locks hW
        right
        rw [wf.ghost]
        simp
    · have hlk : s'.frac.lookup pn = s.frac.lookup pn := by
        apply h6
        intro i hi hli htr
        exact hslot ⟨i, hi, hli, htr⟩
      have : ∀ c, fracAt s'.frac pn c = fracAt s.frac pn c := by
        intro c; unfold fracAt; rw [hlk]
      exact ⟨fun c hc hsh => by rw [this c]; exact t1 c hc hsh, by rw [this]; exact t2⟩
  · rw [er, en]; exact hs.rows

/-! ### `write_to_pathens` keeps the support and writes supported rows -/

theorem writeRows_sup : ∀ (l : List Nat) (s s' : St), (s.frac.map Prod.fst).Nodup →
    2 ≤ s.n → (∀ kv ∈ s.frac, kv.2.length = s.n) →
    (∀ pn ∈ l, ∀ w, s.wts.lookup pn = some w → w.length = 1 ∨ w.length = s.n - 1) →
    SupInv s → writeRows s l = .ok s' → SupInv s' := by
  intro l s s' hk hn hl hshape hs h
  obtain ⟨⟨news, hrows, hkeys, hnews⟩, hfrac, hwts, heq, _, _⟩ := Frac.writeRows_spec l s s' hk h
  have en : s'.n = s.n := by rw [heq]
  constructor
  · intro pn w hw
    rw [en]
    rw [hwts] at hw
    have hw' : (if (!l.contains pn) = true then s.wts.lookup pn else none) = some w :=
      (lookup_filter_key s.wts (fun k => !l.contains k) pn).symm.trans hw
    split at hw'
    · rename_i hp
      obtain ⟨t1, t2⟩ := hs.tab pn w hw'
      have : ∀ c, fracAt s'.frac pn c = fracAt s.frac pn c := by
        intro c
        unfold fracAt
        rw [hfrac]
        have := lookup_filter_key s.frac (fun k => !l.contains k) pn
        rw [if_pos hp] at this
        rw [← this]
      exact ⟨fun c hc hsh => by rw [this c]; exact t1 c hc hsh, by rw [this]; exact t2⟩
    · exact absurd hw' (by simp)
  · intro r hr
    rw [en]
    rw [hrows] at hr
    rcases List.mem_append.mp hr with hr | hr
    · exact hs.rows r hr
    · obtain ⟨hfl, hwl⟩ := hnews r hr
      have hmem : r.1 ∈ l := by rw [← hkeys]; exact List.mem_map_of_mem hr
      obtain ⟨t1, t2⟩ := hs.tab r.1 r.2.2 hwl
      have hfa : ∀ c, fracAt s.frac r.1 c = r.2.1.getD c 0 := by
        intro c; unfold fracAt; rw [hfl]; rfl
      refine ⟨⟨hn, hl (r.1, r.2.1) (Frac.lookup_mem hfl), hshape r.1 hmem r.2.2 hwl⟩, ?_, ?_⟩
      · intro c hc hsh
        rw [← hfa c]; exact t1 c hc hsh
      · rw [← hfa]; exact t2

/-! ### one `treat_output` -/

/-- **`treat_output` keeps the support invariant** when it starts from a state satisfying C03's `Core` (the job
    held), C05's family invariant and the table invariant, and the outcome is in the weight family
    (`hfamR`: the family invariant at the recording state, `recState_fam`) -/
theorem treatOutput_sup {s s' : St} {job : Job} {status : Status} {newW : List (List Rat)}
    {fuel : Nat} {pns : List Nat} {it : Nat} {H : List (Nat × Nat)}
    (hc : Core s (heldJob job ++ H) s.trajNum) (hf : Fam s s.trajNum) (fw : FracWF s)
    (hold : job.pnumOld = job.picked.map (·.pn))
    (hfamR : ∀ sR tn pns', recState s job status newW = .ok (sR, tn, pns') → Fam sR tn)
    (hs : SupInv s) (h : treatOutput s job status newW fuel = .ok (s', pns, it)) : SupInv s' := by
  obtain ⟨sR, tn, s2, s3, s4, hrec, hlen, hrf, hwr, hsort, rfl⟩ := treatOutput_ok h
  have hfR := hfamR sR tn pns hrec
  have hrec' := hrec
  unfold recState at hrec'
  obtain ⟨p1, p2, p3, p4, p5, p6, _⟩ := perEns_data status _ hrec'
  obtain ⟨extra, q1, q2⟩ := perEns_wts status _ hrec'
  have hfst : (job.picked.zip (jobWs job status newW)).map Prod.fst = job.picked :=
    List.map_fst_zip (by omega)
  have hcR : Core sR H tn := by
    have h0 : Core s (heldPicked ((job.picked.zip (jobWs job status newW)).map Prod.fst) ++ H) s.trajNum := by
      rw [hfst]; exact hc
    exact (perEns_core status _ h0 hrec').1
  obtain ⟨k1, k2, _⟩ := fracWF_append_zero fw
    (if status = .acc then (job.picked.zip (jobWs job status newW)).length else 0)
  rw [← p5] at k1 k2
  rw [← p2] at k2
  -- the recording state
  have hsR : SupInv sR := by
    constructor
    · intro pn w hw
      rw [p2]
      have hfa : ∀ c, fracAt sR.frac pn c = fracAt s.frac pn c := by
        intro c; rw [p5]; exact fracAt_append_zero _ _ _ _ _ _
      rw [q1, lookup_append'] at hw
      cases hlk : s.wts.lookup pn with
      | some w0 =>
        rw [hlk] at hw
        simp only [Option.some.injEq] at hw
        subst hw
        obtain ⟨t1, t2⟩ := hs.tab pn w0 hlk
        exact ⟨fun c hc hsh => by rw [hfa c]; exact t1 c hc hsh, by rw [hfa]; exact t2⟩
      | none =>
        rw [hlk] at hw
        simp only [] at hw
        have hm : pn ∈ extra.map Prod.fst := List.mem_map_of_mem (f := Prod.fst) (Frac.lookup_mem hw)
        rw [q2] at hm
        have hge : s.trajNum ≤ pn := (List.mem_range'_1.mp hm).1
        have hnk : pn ∉ s.frac.map Prod.fst := fun hin => by have := fw.bound pn hin; omega
        have hz : ∀ c, fracAt s.frac pn c = 0 := by
          intro c; unfold fracAt; rw [lookup_none_of_not_mem hnk]; rfl
        exact ⟨fun c _ _ => by rw [hfa c]; exact hz c, by rw [hfa]; exact hz _⟩
    · rw [p1, p2]; exact hs.rows
  have hs2 : SupInv s2 := recordFrac_sup (slotWF_of_core hcR) hfR k1 k2 hsR hrf
  obtain ⟨f2, _, e2⟩ := recordFrac_ok hrf
  have k1' : (s2.frac.map Prod.fst).Nodup := by
    obtain ⟨_, hkk, _⟩ := recordFrac_spec (slotWF_of_core hcR) k1 k2 hrf
    rw [hkk]; exact k1
  have k2' : ∀ kv ∈ s2.frac, kv.2.length = s2.n := by
    obtain ⟨_, _, hll, _⟩ := recordFrac_spec (slotWF_of_core hcR) k1 k2 hrf
    have : s2.n = sR.n := by rw [e2]
    rw [this]; exact hll
  have hn2 : s2.n = s.n := by rw [e2]; exact p2
  have hs3 : SupInv s3 := by
    split at hwr
    · refine writeRows_sup job.pnumOld s2 s3 k1' (by rw [hn2]; exact hc.n2) k2' ?_ hs2 hwr
      intro pn hpn w hw
      rw [hold] at hpn
      simp only [List.mem_map] at hpn
      obtain ⟨p, hp, rfl⟩ := hpn
      obtain ⟨hlt, htr, _⟩ := hc.heldOk (slotOf p) p.pn
        (List.mem_append_left _ (List.mem_map.mpr ⟨p, hp, rfl⟩))
      obtain ⟨w1, hw1, hpad⟩ := hf.wts (slotOf p) p.pn hlt htr
      have hw2 : s2.wts.lookup p.pn = some w1 := by
        have : s2.wts = sR.wts := by rw [e2]
        rw [this]; exact perEns_wts_lookup status hrec' p.pn w1 hw1
      rw [hw] at hw2
      simp only [Option.some.injEq] at hw2
      subst hw2
      have hrow := hf.rows (slotOf p) hlt
      rw [← hpad, padValid_eq_padN] at hrow
      obtain ⟨a0, a1⟩ := shape_of_rowOk hlt hrow
      rw [hn2]
      rcases Nat.eq_zero_or_pos (slotOf p) with h0 | h1
      · exact Or.inl (a0 h0)
      · exact Or.inr (a1 h1).1
    · simp only [Except.ok.injEq] at hwr
      subst hwr; exact hs2
  obtain ⟨hd4, _⟩ := sortTrajstate_dataEq fuel hsort
  exact (hs3.congr hd4.frac hd4.wts hd4.rows hd4.n).congr rfl rfl rfl rfl

/-! ### along a history -/

theorem sysStep_sup {y y' : Sys} (ev : Ev) (hi : HInv y) (h5 : Inv5 y) (hev : EvOk y ev)
    (hs : SupInv y.s) (h : sysStep y ev = .ok y') : SupInv y'.s := by
  cases ev with
  | start o saved =>
    obtain ⟨_, s2, job, ds, hp, rfl⟩ := start_ok h
    obtain ⟨hd, _⟩ := initiate_data y.s
    obtain ⟨hk, _⟩ := prep_keep hp
    exact (hs.congr hd.frac hd.wts hd.rows hd.n).congr hk.frac hk.wts hk.rows hk.n
  | initDone =>
    obtain ⟨_, rfl⟩ := initDone_ok h
    obtain ⟨hd, _⟩ := initiate_data y.s
    exact hs.congr hd.frac hd.wts hd.rows hd.n
  | step k status newW o =>
    obtain ⟨_, job, s2, pns, it, hjob, htreat, hrest⟩ := step_ok h
    obtain ⟨hld, _⟩ := loop_data y.s
    obtain ⟨hle, hltn, _⟩ := loop_coreEq y.s
    obtain ⟨_, hfe, _⟩ := loop_frame y.s
    have hc1 : Core (loop y.s).1 (heldJob job ++ held (y.jobs.eraseIdx k)) (loop y.s).1.trajNum := by
      rw [hltn]
      exact (hi.inv.core.congr hle).perm (held_perm_erase y.jobs k job hjob)
    have hf1 : Fam (loop y.s).1 (loop y.s).1.trajNum := by
      rw [hltn]; exact h5.fam.congr hfe
    have fw1 : FracWF (loop y.s).1 := hi.fw.congr hld.frac hld.n hld.trajNum
    have hs1 : SupInv (loop y.s).1 := hs.congr hld.frac hld.wts hld.rows hld.n
    have hs2 : SupInv s2 :=
      treatOutput_sup hc1 hf1 fw1 (h5.pnum job (List.mem_of_getElem? hjob))
        (fun sR tn pns' hrec => recState_fam h5 hev hjob hrec) hs1 htreat
    rcases hrest with ⟨s3, job', ds, hp, rfl⟩ | rfl
    · obtain ⟨hk, _⟩ := prep_keep hp
      exact hs2.congr hk.frac hk.wts hk.rows hk.n
    · exact hs2

theorem run_sup : ∀ (evs : List Ev) {y y' : Sys}, HInv y → Inv5 y → HistOk y evs → SupInv y.s →
    run y evs = .ok y' → SupInv y'.s := by
  intro evs
  induction evs with
  | nil =>
    intro y y' _ _ _ hs h
    simp only [run, Except.ok.injEq] at h
    subst h; exact hs
  | cons ev rest ih =>
    intro y y' hi h5 hh hs h
    unfold run at h
    split at h
    · exact absurd h (by simp)
    · rename_i y1 h1
      exact ih (sysStep_hinv ev hi h1) (sysStep_preserves5 ev h5 hh.1 h1).1 (hh.2 y1 h1)
        (sysStep_sup ev hi h5 hh.1 hs h1) h

/-- a fresh start (all fractions zero, empty data file) satisfies the support invariant -/
theorem supInv_of_fracInit {y : Sys} (h0 : FracInit y) : SupInv y.s := by
  constructor
  · intro pn w _
    have hz : ∀ c, fracAt y.s.frac pn c = 0 := by
      intro c
      unfold fracAt
      cases hl : y.s.frac.lookup pn with
      | none => rfl
      | some v => exact getD_of_all_zero v (h0.zero (pn, v) (Frac.lookup_mem hl)) c
    exact ⟨fun c _ _ => hz c, hz _⟩
  · rw [h0.rows]; intro r hr; simp at hr

/-- **in every reachable state** (fresh start, outcomes in the weight family): no table entry carries weight in
    a column its data row would not show, nor in the ghost column; every row written so far has the sampler's shape
    and satisfies the same support condition -/
theorem reachable_sup {y0 y : Sys} {evs : List Ev} (h0 : FracInit y0) (h5 : Init5 y0) (hh : HistOk y0 evs)
    (hr : run y0 evs = .ok y) : SupInv y.s :=
  run_sup evs h0.hinv h5.inv5 hh (supInv_of_fracInit h0) hr

end Infretis.Repex.Data
