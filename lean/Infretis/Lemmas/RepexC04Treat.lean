import Infretis.Lemmas.RepexC04Rows
/-!
# C04 — conservation of the fractional weights across one `treat_output`

`treatOutput` = per-ensemble bookkeeping (`perEns`: new paths enter `traj_data` with a zero
`frac`) → `recordFrac` → `writeRows` on ACC → `sort_trajstate` (only swaps) → counters.
-/
namespace Infretis.Repex.Frac
open Infretis.Perm

/-- the fields the weight accounting reads that most operations leave alone -/
structure DataEq (s s' : St) : Prop where
  frac : s'.frac = s.frac
  wts : s'.wts = s.wts
  rows : s'.rows = s.rows
  n : s'.n = s.n
  trajNum : s'.trajNum = s.trajNum

theorem DataEq.refl (s : St) : DataEq s s := ⟨rfl, rfl, rfl, rfl, rfl⟩

theorem DataEq.trans {a b c : St} (h1 : DataEq a b) (h2 : DataEq b c) : DataEq a c :=
  ⟨h2.frac.trans h1.frac, h2.wts.trans h1.wts, h2.rows.trans h1.rows, h2.n.trans h1.n,
   h2.trajNum.trans h1.trajNum⟩

theorem DataEq.swap (s : St) (a b : Nat) : DataEq s (swap s a b) := ⟨rfl, rfl, rfl, rfl, rfl⟩

theorem lock_dataEq {s s' : St} {e : Nat} (h : lock s e = .ok s') : DataEq s s' := by
  unfold lock at h
  split at h
  · simp only [Except.ok.injEq] at h; subst h; exact ⟨rfl, rfl, rfl, rfl, rfl⟩
  · exact absurd h (by simp)
  · exact absurd h (by simp)

theorem unlock_dataEq {s s' : St} {e : Nat} (h : unlock s e = .ok s') :
    DataEq s s' ∧ s'.locks = s.locks.set e false := by
  unfold unlock at h
  split at h
  · simp only [Except.ok.injEq] at h; subst h; exact ⟨⟨rfl, rfl, rfl, rfl, rfl⟩, rfl⟩
  · exact absurd h (by simp)
  · exact absurd h (by simp)

theorem addTraj_dataEq {s s' : St} {ens : Int} {pn : Nat} {valid : List Rat}
    (h : addTraj s ens pn valid = .ok s') :
    DataEq s s' ∧ s'.locks = s.locks.set (ens + 1).toNat false := by
  unfold addTraj at h
  simp only [] at h
  have hoff : (ens + (off : Int)).toNat = (ens + 1).toNat := by simp [off]
  rw [hoff] at h
  split at h
  · exact absurd h (by simp)
  split at h
  · exact absurd h (by simp)
  split at h
  · exact absurd h (by simp)
  split at h
  · exact absurd h (by simp)
  obtain ⟨h1, h2⟩ := unlock_dataEq h
  exact ⟨⟨h1.frac, h1.wts, h1.rows, h1.n, h1.trajNum⟩, h2⟩

/-! ### `sort_trajstate` only swaps -/

theorem sortStep_dataEq {s s' : St} (h : sortStep s = .ok (some s')) :
    DataEq s s' ∧ s'.locks = s.locks := by
  unfold sortStep at h
  simp only [] at h
  split at h
  · exact absurd h (by simp)
  split at h
  · exact absurd h (by simp)
  split at h
  · exact absurd h (by simp)
  simp only [Except.ok.injEq, Option.some.injEq] at h
  subst h
  exact ⟨DataEq.swap _ _ _, rfl⟩

theorem sortTrajstate_dataEq : ∀ (fuel : Nat) {s s' : St} {k : Nat},
    sortTrajstate fuel s = .ok (s', k) → DataEq s s' ∧ s'.locks = s.locks := by
  intro fuel
  induction fuel with
  | zero => intro s s' k h; exact absurd h (by simp [sortTrajstate])
  | succ fuel ih =>
    intro s s' k h
    unfold sortTrajstate at h
    split at h
    · exact absurd h (by simp)
    · simp only [Except.ok.injEq, Prod.mk.injEq] at h
      obtain ⟨rfl, _⟩ := h
      exact ⟨DataEq.refl _, rfl⟩
    · rename_i s1 hstep
      split at h
      · exact absurd h (by simp)
      · rename_i s2 k2 hrec
        simp only [Except.ok.injEq, Prod.mk.injEq] at h
        obtain ⟨rfl, _⟩ := h
        obtain ⟨h1, h2⟩ := sortStep_dataEq hstep
        obtain ⟨h3, h4⟩ := ih hrec
        exact ⟨h1.trans h3, h4.trans h2⟩

/-! ### the per-ensemble bookkeeping -/

/-- the zero `frac` entries of the new paths `tn, tn+1, …, tn+k-1` -/
def zeroFracs (n tn k : Nat) : List (Nat × List Rat) :=
  (List.range' tn k).map (fun t => (t, List.replicate n 0))

theorem colTotal_zeroFracs (n tn k c : Nat) : colTotal (zeroFracs n tn k) c = 0 := by
  unfold zeroFracs colTotal
  rw [List.map_map]
  have : ∀ t ∈ List.range' tn k,
      ((fun kv : Nat × List Rat => kv.2.getD c 0) ∘ fun t => (t, List.replicate n (0 : Rat))) t
        = (fun _ => (0 : Rat)) t := by
    intro t _
    simp only [Function.comp_def]
    exact getD_replicate_zero n c
  rw [List.map_congr_left this]
  simp

/-- slots released by the job, in order -/
def unlockAll (locks : List Bool) (slots : List Nat) : List Bool :=
  slots.foldl (fun lk e => lk.set e false) locks

/-- **`perEns`**: the data file is untouched; `frac` only grows by zero vectors for the fresh
    path numbers `tn, tn+1, …` (one per ensemble on ACC, none on REJ); the job's slots are unlocked. -/
theorem perEns_data (status : Status) : ∀ (l : List (Picked × List Rat)) {s s' : St}
    {tn tn' : Nat} {pns : List Nat},
    treatOutput.perEns status s tn l = .ok (s', tn', pns) →
    s'.rows = s.rows ∧ s'.n = s.n ∧ s'.trajNum = s.trajNum ∧
    tn' = tn + (if status = .acc then l.length else 0) ∧
    s'.frac = s.frac ++ zeroFracs s.n tn (if status = .acc then l.length else 0) ∧
    s'.wts.map Prod.fst
      = s.wts.map Prod.fst ++ List.range' tn (if status = .acc then l.length else 0) ∧
    s'.locks = unlockAll s.locks (l.map (fun pw => (pw.1.ens + 1).toNat)) := by
  intro l
  induction l with
  | nil =>
    intro s s' tn tn' pns h
    simp only [treatOutput.perEns, Except.ok.injEq, Prod.mk.injEq] at h
    obtain ⟨rfl, rfl, _⟩ := h
    simp [zeroFracs, unlockAll]
  | cons pw rest ih =>
    intro s s' tn tn' pns h
    obtain ⟨p, w⟩ := pw
    unfold treatOutput.perEns at h
    simp only [] at h
    split at h
    · rename_i hacc
      split at h
      · exact absurd h (by simp)
      rename_i s3 hadd
      split at h
      · exact absurd h (by simp)
      rename_i s4 tn4 pns4 hrec
      simp only [Except.ok.injEq, Prod.mk.injEq] at h
      obtain ⟨rfl, rfl, _⟩ := h
      obtain ⟨hd, hlk⟩ := addTraj_dataEq hadd
      obtain ⟨h1, h2, h3, h4, h5, h6, h7⟩ := ih hrec
      have hd_frac := hd.frac
      have hd_wts := hd.wts
      have hd_rows := hd.rows
      have hd_n := hd.n
      have hd_tn := hd.trajNum
      simp only at hd_frac hd_wts hd_rows hd_n hd_tn hlk
      simp only [hacc, if_true] at h4 h5 h6 ⊢
      refine ⟨by rw [h1, hd_rows], by rw [h2, hd_n], by rw [h3, hd_tn], by rw [h4]; simp; omega,
        ?_, ?_, ?_⟩
      · rw [h5, hd_frac, hd_n]
        simp [zeroFracs, List.range'_succ]
      · rw [h6, hd_wts]
        simp [List.range'_succ]
      · rw [h7, hlk]
        simp [unlockAll]
    · rename_i hacc
      split at h
      · exact absurd h (by simp)
      rename_i wOld _
      split at h
      · exact absurd h (by simp)
      rename_i s3 hadd
      split at h
      · exact absurd h (by simp)
      rename_i s4 tn4 pns4 hrec
      simp only [Except.ok.injEq, Prod.mk.injEq] at h
      obtain ⟨rfl, rfl, _⟩ := h
      obtain ⟨hd, hlk⟩ := addTraj_dataEq hadd
      obtain ⟨h1, h2, h3, h4, h5, h6, h7⟩ := ih hrec
      have hd_frac := hd.frac
      have hd_wts := hd.wts
      have hd_rows := hd.rows
      have hd_n := hd.n
      have hd_tn := hd.trajNum
      simp only at hd_frac hd_wts hd_rows hd_n hd_tn hlk
      simp only [hacc, if_false] at h4 h5 h6 ⊢
      refine ⟨by rw [h1, hd_rows], by rw [h2, hd_n], by rw [h3, hd_tn], h4, ?_, ?_, ?_⟩
      · rw [h5, hd_frac, hd_n]
      · rw [h6, hd_wts]
      · rw [h7, hlk]
        simp [unlockAll]

/-! ### `treat_output` -/

/-- one trial weight vector per picked ensemble (ignored on rejection) -/
def jobWs (job : Job) (status : Status) (newW : List (List Rat)) : List (List Rat) :=
  if status = .acc then newW else job.picked.map (fun _ => [])

/-- **the state in which the weights are recorded**: after the job's ensembles got their (new or
    old) paths back and were unlocked -/
def recState (s : St) (job : Job) (status : Status) (newW : List (List Rat)) :
    Except Err (St × Nat × List Nat) :=
  treatOutput.perEns status s s.trajNum (job.picked.zip (jobWs job status newW))

theorem treatOutput_ok {s s' : St} {job : Job} {status : Status} {newW : List (List Rat)}
    {fuel : Nat} {pns : List Nat} {it : Nat}
    (h : treatOutput s job status newW fuel = .ok (s', pns, it)) :
    ∃ s1 tn s2 s3 s4, recState s job status newW = .ok (s1, tn, pns) ∧
      (jobWs job status newW).length = job.picked.length ∧
      recordFrac s1 = .ok s2 ∧
      (if status = .acc then writeRows s2 job.pnumOld else .ok s2) = .ok s3 ∧
      sortTrajstate fuel s3 = .ok (s4, it) ∧
      s' = { s4 with trajNum := tn, cworker := job.pin } := by
  unfold treatOutput at h
  simp only [] at h
  have hws : (if status = Status.acc then newW else job.picked.map (fun _ => []))
      = jobWs job status newW := rfl
  rw [hws] at h
  unfold recState
  generalize jobWs job status newW = ws at h ⊢
  split at h
  · exact absurd h (by simp)
  rename_i hlen
  have hlen := Classical.not_not.mp hlen
  split at h
  · exact absurd h (by simp)
  rename_i s1 tn pnNews hper
  split at h
  · exact absurd h (by simp)
  rename_i s2 hrec
  split at h
  · exact absurd h (by simp)
  rename_i s3 hwr
  split at h
  · exact absurd h (by simp)
  rename_i s4 iters hsort
  simp only [Except.ok.injEq, Prod.mk.injEq] at h
  obtain ⟨rfl, rfl, rfl⟩ := h
  exact ⟨s1, tn, s2, s3, s4, hper, hlen, hrec, hwr, hsort, rfl⟩

/-- the fraction table is well formed: distinct keys, vectors of length `n`, keys are path
    numbers already handed out -/
structure FracWF (s : St) : Prop where
  keys : (s.frac.map Prod.fst).Nodup
  flen : ∀ kv ∈ s.frac, kv.2.length = s.n
  bound : ∀ k ∈ s.frac.map Prod.fst, k < s.trajNum

theorem zeroFracs_keys (n tn k : Nat) : (zeroFracs n tn k).map Prod.fst = List.range' tn k := by
  simp [zeroFracs, List.map_map, Function.comp_def]

/-- after `perEns` the enlarged table is still well formed (with the new path counter) -/
theorem fracWF_append_zero {s : St} (fw : FracWF s) (k : Nat) :
    ((s.frac ++ zeroFracs s.n s.trajNum k).map Prod.fst).Nodup ∧
    (∀ kv ∈ s.frac ++ zeroFracs s.n s.trajNum k, kv.2.length = s.n) ∧
    (∀ x ∈ (s.frac ++ zeroFracs s.n s.trajNum k).map Prod.fst, x < s.trajNum + k) := by
  refine ⟨?_, ?_, ?_⟩
  · rw [List.map_append, zeroFracs_keys, List.nodup_append]
    refine ⟨fw.keys, List.nodup_range', ?_⟩
    intro a ha b hb
    have := fw.bound a ha
    have := (List.mem_range'_1.mp hb).1
    omega
  · intro kv hkv
    rcases List.mem_append.mp hkv with h | h
    · exact fw.flen kv h
    · simp only [zeroFracs, List.mem_map] at h
      obtain ⟨t, _, rfl⟩ := h
      simp
  · intro x hx
    rw [List.map_append, zeroFracs_keys] at hx
    rcases List.mem_append.mp hx with h | h
    · have := fw.bound x h; omega
    · have := (List.mem_range'_1.mp h).2; omega

/-- **Conservation across one `treat_output`.**  With `s1` the recording state: if `s1` is
    slot-well-formed then the fraction table stays well formed, and if moreover its idle block is
    matchable, then for every column the total of
    (data rows + fraction table) grows by exactly one if the column is idle once the job's slots
    are unlocked (these are also the final locks), by zero otherwise; and the fraction table stays
    well formed. -/
theorem treatOutput_total {s s' : St} {job : Job} {status : Status} {newW : List (List Rat)}
    {fuel : Nat} {pns : List Nat} {it : Nat} (fw : FracWF s)
    (h : treatOutput s job status newW fuel = .ok (s', pns, it)) :
    ∃ s1 tn, recState s job status newW = .ok (s1, tn, pns) ∧
      s1.locks = unlockAll s.locks (job.picked.map (fun p => (p.ens + 1).toNat)) ∧
      s'.locks = s1.locks ∧ s'.n = s.n ∧ s'.trajNum = tn ∧
      tn = s.trajNum + (if status = .acc then job.picked.length else 0) ∧
      (SlotWF s1 →
        FracWF s' ∧
        (Matchable s1 → ∀ c, rowsTotal s'.rows c + colTotal s'.frac c
          = rowsTotal s.rows c + colTotal s.frac c + (if s'.locks[c]? = some false then 1 else 0))) := by
  obtain ⟨s1, tn, s2, s3, s4, hper, hlen, hrec, hwr, hsort, rfl⟩ := treatOutput_ok h
  have hper' := hper
  unfold recState at hper'
  obtain ⟨p1, p2, p3, p4, p5, p6, p7⟩ := perEns_data status _ hper'
  have hzl : (job.picked.zip (jobWs job status newW)).length = job.picked.length := by
    simp [List.length_zip, hlen]
  have hfst : (job.picked.zip (jobWs job status newW)).map (fun pw => (pw.1.ens + 1).toNat)
      = job.picked.map (fun p => (p.ens + 1).toNat) := by
    have hm : (job.picked.zip (jobWs job status newW)).map Prod.fst = job.picked :=
      List.map_fst_zip (by omega)
    calc (job.picked.zip (jobWs job status newW)).map (fun pw => (pw.1.ens + 1).toNat)
        = ((job.picked.zip (jobWs job status newW)).map Prod.fst).map (fun p => (p.ens + 1).toNat) := by
          rw [List.map_map]; rfl
      _ = _ := by rw [hm]
  rw [hzl] at p4 p5 p6
  rw [hfst] at p7
  obtain ⟨hd4, hl4⟩ := sortTrajstate_dataEq fuel hsort
  have hs2 : s2 = { s1 with frac := s2.frac } := by
    unfold recordFrac at hrec
    simp only [] at hrec
    split at hrec
    · exact absurd hrec (by simp)
    · simp only [Except.ok.injEq] at hrec; subst hrec; rfl
  have hl3 : s3.locks = s2.locks ∧ s3.n = s2.n := by
    split at hwr
    · obtain ⟨a, b, _⟩ := writeRows_other _ _ _ hwr
      exact ⟨a, b⟩
    · simp only [Except.ok.injEq] at hwr; subst hwr; exact ⟨rfl, rfl⟩
  have hl2 : s2.locks = s1.locks ∧ s2.n = s1.n := by rw [hs2]; exact ⟨rfl, rfl⟩
  have hlocks : s4.locks = s1.locks := by rw [hl4, hl3.1, hl2.1]
  have hn : s4.n = s.n := by rw [hd4.n, hl3.2, hl2.2, p2]
  refine ⟨s1, tn, hper, p7, hlocks, hn, rfl, p4, ?_⟩
  intro wf
  -- the table at recording time
  obtain ⟨k1, k2, k3⟩ := fracWF_append_zero fw (if status = .acc then job.picked.length else 0)
  rw [← p5] at k1 k2 k3
  rw [← p2] at k2
  rw [← p4] at k3
  have hcol1 : ∀ c, colTotal s1.frac c = colTotal s.frac c := by
    intro c
    rw [p5, colTotal_append, colTotal_zeroFracs, add_zero]
  -- recording
  obtain ⟨_, r2, r3, _, _, _⟩ := recordFrac_spec wf k1 k2 hrec
  have hrows2 : s2.rows = s1.rows := by rw [hs2]
  have k1' : (s2.frac.map Prod.fst).Nodup := by rw [r2]; exact k1
  have k3' : ∀ x ∈ s2.frac.map Prod.fst, x < tn := by rw [r2]; exact k3
  -- the data file
  have h3 : (s3.frac.map Prod.fst).Nodup ∧ (∀ kv ∈ s3.frac, kv.2.length = s1.n) ∧
      (∀ x ∈ s3.frac.map Prod.fst, x < tn) ∧
      ∀ c, rowsTotal s3.rows c + colTotal s3.frac c = rowsTotal s2.rows c + colTotal s2.frac c := by
    split at hwr
    · obtain ⟨_, hf3, _, _, _, htot⟩ := writeRows_spec _ _ _ k1' hwr
      refine ⟨?_, ?_, ?_, htot⟩
      · rw [hf3]; exact keys_filter_nodup _ _ k1'
      · intro kv hkv
        rw [hf3] at hkv
        exact r3 kv (List.mem_of_mem_filter hkv)
      · intro x hx
        rw [hf3] at hx
        exact k3' x ((List.Sublist.map _ List.filter_sublist).subset hx)
    · simp only [Except.ok.injEq] at hwr
      subst hwr
      exact ⟨k1', r3, k3', fun _ => rfl⟩
  obtain ⟨a1, a2, a3, a4⟩ := h3
  constructor
  · constructor
    · change (s4.frac.map Prod.fst).Nodup
      rw [hd4.frac]; exact a1
    · intro kv hkv
      change kv ∈ s4.frac at hkv
      change kv.2.length = s4.n
      rw [hd4.frac] at hkv
      rw [hn, ← p2]
      exact a2 kv hkv
    · intro x hx
      change x ∈ s4.frac.map Prod.fst at hx
      change x < tn
      rw [hd4.frac] at hx
      exact a3 x hx
  · intro hM c
    have hcol2 := recordFrac_col wf hM k1 k2 hrec
    change rowsTotal s4.rows c + colTotal s4.frac c = _ + (if s4.locks[c]? = some false then 1 else 0)
    rw [hd4.rows, hd4.frac, a4 c, hrows2, p1, hcol2 c, hcol1 c, hlocks]
    ring

end Infretis.Repex.Frac
