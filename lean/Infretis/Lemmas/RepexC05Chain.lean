import Infretis.Lemmas.RepexC05Cv
import Infretis.Lemmas.RepexC05Load
import Infretis.Lemmas.RepexC03RRestore
/-!
# C05 — `load_paths` from order sequences, the iteration bound of `sort_trajstate`, slot order across a restart

* `loadPathsCv_eq_loadPaths` : `load_paths` as the code runs it (weights from `calc_cv_vector`, `(1.0,)` for the
  `[0-]` path) is `Repex.loadPaths` on the computed weight vectors; hence `loadPathsCv_loads_iff` (it passes its
  assertions iff every plus path has non-zero weight in its own ensemble) and, through `init5_of_loadPaths`, the
  start-state invariant from ORDER SEQUENCES.
* `sortTrajstate_iters_le` : the `while` loop of `sort_trajstate` runs at most `sortMeasure W ≤ n²` times.
* `restore_slots` : `restore (persist s)` puts every live path back into the slot it was recorded in and keeps
  `traj_num`.
-/
namespace Infretis.Repex.Cv
open Infretis.Perm Infretis.Perm.C05 Infretis.WF Infretis.RepexCv

theorem ratV_eq_ratVec (ws : List Nat) : ratV ws = ratVec ws := rfl

/-! ### the measure -/

theorem measureGo_eq_wsum : ∀ (W : Mat) (k : Nat),
    measureGo k W = wsum (fun i r => i - lastOf r) k W := by
  intro W
  induction W with
  | nil => intro k; rfl
  | cons r t ih => intro k; simp only [measureGo, wsum, ih]; rfl

theorem sortMeasure_eq_mu (s : St) : sortMeasure s.W = mu s := measureGo_eq_wsum s.W 0

/-- **the loop of `sort_trajstate` runs at most `mu s` times** -/
theorem sortTrajstate_iters_le : ∀ (fuel : Nat) {s s' : St} {H : List (Nat × Nat)} {tn tn' k : Nat},
    CoreR s H tn' → Fam s tn → sortTrajstate fuel s = .ok (s', k) → k ≤ mu s := by
  intro fuel
  induction fuel with
  | zero => intro s s' H tn tn' k _ _ h; simp [sortTrajstate] at h
  | succ fuel ih =>
    intro s s' H tn tn' k hc hf h
    rcases sortStep_progress hc hf with hnone | ⟨s1, hsome, hc1, _, hf1, hlt⟩
    · unfold sortTrajstate at h
      rw [hnone] at h
      simp only [Except.ok.injEq, Prod.mk.injEq] at h
      omega
    · unfold sortTrajstate at h
      rw [hsome] at h
      simp only [] at h
      split at h
      · exact absurd h (by simp)
      rename_i s2 k2 hrec
      simp only [Except.ok.injEq, Prod.mk.injEq] at h
      have := ih hc1 hf1 hrec
      omega

/-! ### slot order across a restart -/

/-- **`restore (persist s)` keeps the slot order and the path counter**: every real slot holds after the restart the
    path the restart file records for it — the one it held when `write_toml` ran — `traj_num` is the recorded one,
    and all real slots are idle. -/
theorem restore_slots {s s' : St} {H : List (Nat × Nat)} {tn : Nat} (hc : CoreR s H tn)
    (workers tsteps : Nat) (occ : List (List Int)) (ensEng : List (List Nat)) (weightOf : Nat → List Rat)
    (h : restore (persist s) s.n workers tsteps occ ensEng weightOf = .ok s') :
    s'.n = s.n ∧ (∀ e, e < s.n - 1 → s'.trajs[e]? = s.trajs[e]?) ∧ s'.trajNum = s.trajNum ∧
      s'.locks = List.replicate (s.n - 1) false ++ [true] ∧
      (∀ e, e < s.n - 1 → (persist s).active[e]? = s.trajs[e]?) := by
  unfold restore at h
  simp only [] at h
  have hlive : ∀ x ∈ livePaths s, ∃ pn, x = some pn := by
    intro x hx
    obtain ⟨e, he, hxe⟩ := List.getElem_of_mem hx
    unfold livePaths at he hxe
    rw [List.length_dropLast, hc.lenT] at he
    obtain ⟨pn, hpn, _⟩ := hc.live e he
    refine ⟨pn, ?_⟩
    have : s.trajs.dropLast[e]? = some (some pn) := by
      rw [List.getElem?_dropLast, if_pos (by rw [hc.lenT]; exact he)]; exact hpn
    rw [List.getElem?_eq_getElem (by rw [List.length_dropLast, hc.lenT]; exact he), hxe] at this
    simpa using this
  obtain ⟨hflen, hfget⟩ := filterMap_all_some
    (fun pn => (pn, weightOf pn, ((persist s).frac.lookup pn).getD (List.replicate s.n 0)))
    (livePaths s) hlive
  have hplen : ((persist s).active.filterMap (fun o => o.map (fun pn =>
      (pn, weightOf pn, ((persist s).frac.lookup pn).getD (List.replicate s.n 0))))).length
      = s.n - 1 := by
    show ((livePaths s).filterMap _).length = _
    rw [hflen]
    unfold livePaths
    rw [List.length_dropLast, hc.lenT]
  have key := fun hb => loadPaths_specG (n := s.n) hb _ hc.n2 hplen h
  obtain ⟨h1, _, _, h4, h5, _, _, _, _, _, h11⟩ :=
    key (isBlank_of_fields s.n _ rfl (by simp [blank]) (by simp [blank]) rfl)
  refine ⟨h1, ?_, by rw [h11]; rfl, h4, ?_⟩
  · intro e he
    obtain ⟨pn, hpn, _⟩ := hc.live e he
    rw [hpn]
    apply h5 e pn he
    rw [List.getElem?_map]
    have : (livePaths s)[e]? = some (some pn) := by
      unfold livePaths
      rw [List.getElem?_dropLast, if_pos (by rw [hc.lenT]; exact he)]; exact hpn
    show (((livePaths s).filterMap _)[e]?).map _ = _
    rw [hfget e pn this]
    rfl
  · intro e he
    show (livePaths s)[e]? = _
    unfold livePaths
    rw [List.getElem?_dropLast, if_pos (by rw [hc.lenT]; exact he)]

/-! ### `load_paths` with the weights computed by `calc_cv_vector` -/

/-- the `(number, weights, fractions)` triples `load_paths` works with, given the vectors `f i` that
    `calc_cv_vector` returns for `paths[i+1]`: slot `0` gets `(1.0,)` -/
def withW (f : Nat → List Nat) : Nat → List CvPath → List (Nat × List Rat × List Rat)
  | _, [] => []
  | j, (pn, _, fr) :: t => (pn, (if j = 0 then [1] else ratVec (f (j - 1))), fr) :: withW f (j + 1) t

theorem withW_length (f : Nat → List Nat) : ∀ (paths : List CvPath) (j : Nat), (withW f j paths).length = paths.length := by
  intro paths
  induction paths with
  | nil => intro j; rfl
  | cons p t ih => intro j; obtain ⟨pn, ops, fr⟩ := p; simp [withW, ih]

theorem withW_get (f : Nat → List Nat) : ∀ (paths : List CvPath) (j0 j : Nat) (pn : Nat) (ops : List Int)
    (fr : List Rat), paths[j]? = some (pn, ops, fr) →
    (withW f j0 paths)[j]? = some (pn, (if j0 + j = 0 then [1] else ratVec (f (j0 + j - 1))), fr) := by
  intro paths
  induction paths with
  | nil => intro j0 j pn ops fr h; simp at h
  | cons p t ih =>
    intro j0 j pn ops fr h
    obtain ⟨pn', ops', fr'⟩ := p
    cases j with
    | zero =>
      simp only [List.getElem?_cons_zero, Option.some.injEq, Prod.mk.injEq] at h
      obtain ⟨rfl, rfl, rfl⟩ := h
      simp [withW]
    | succ j =>
      simp only [List.getElem?_cons_succ] at h
      simp only [withW, List.getElem?_cons_succ]
      rw [ih (j0 + 1) j pn ops fr h]
      rw [show j0 + 1 + j = j0 + (j + 1) by omega]

theorem withW_map_fst (f : Nat → List Nat) : ∀ (paths : List CvPath) (j : Nat),
    (withW f j paths).map (·.1) = paths.map (·.1) := by
  intro paths
  induction paths with
  | nil => intro j; rfl
  | cons p t ih => intro j; obtain ⟨pn, ops, fr⟩ := p; simp [withW, ih]

theorem loadPlusCv_eq (c : CvCfg) (paths : List CvPath) (f : Nat → List Nat)
    (hcv : ∀ (i : Nat) (pn : Nat) (ops : List Int) (fr : List Rat), paths[i + 1]? = some (pn, ops, fr) →
      cvVector ops c.intfs c.mv c.cap = .ok (f i)) :
    ∀ (k i : Nat) (s : St), i + 1 + k = paths.length →
      loadPlusCv c paths k i s = loadPaths.plus s i ((withW f 0 paths).drop (i + 1)) := by
  intro k
  induction k with
  | zero =>
    intro i s hlen
    rw [List.drop_eq_nil_of_le (by rw [withW_length]; omega)]
    rfl
  | succ k ih =>
    intro i s hlen
    have hi : i + 1 < paths.length := by omega
    rcases hp : paths[i + 1] with ⟨pn, ops, fr⟩
    have hget : paths[i + 1]? = some (pn, ops, fr) := by rw [List.getElem?_eq_getElem hi, hp]
    have hw := withW_get f paths 0 (i + 1) pn ops fr hget
    simp only [Nat.zero_add, Nat.add_eq_zero_iff, Nat.succ_ne_zero, and_false, ↓reduceIte,
      Nat.add_sub_cancel] at hw
    have hlt : i + 1 < (withW f 0 paths).length := by rw [withW_length]; exact hi
    rw [List.drop_eq_getElem_cons hlt]
    have hel : (withW f 0 paths)[i + 1] = (pn, ratVec (f i), fr) := by
      rw [List.getElem?_eq_getElem hlt] at hw
      simpa using hw
    rw [hel]
    simp only [loadPlusCv, hget, hcv i pn ops fr hget, loadPaths.plus, ratV_eq_ratVec]
    cases hone : loadOne s (i : Int) pn (ratVec (f i)) fr with
    | error er => rfl
    | ok s1 =>
      simp only []
      exact ih (i + 1) s1 (by omega)

/-- **`loadPathsCv_eq_loadPaths`**: when `calc_cv_vector` returns `f i` for `paths[i+1]`, `load_paths` as the code
    runs it is `Repex.loadPaths` on the triples `withW f 0 paths` (`n - 1` paths for `n` slots). -/
theorem loadPathsCv_eq_loadPaths (c : CvCfg) (s : St) (paths : List CvPath) (f : Nat → List Nat)
    (hn : 2 ≤ s.n) (hlen : paths.length = s.n - 1)
    (hcv : ∀ (i : Nat) (pn : Nat) (ops : List Int) (fr : List Rat), paths[i + 1]? = some (pn, ops, fr) →
      cvVector ops c.intfs c.mv c.cap = .ok (f i)) :
    loadPathsCv c s paths = loadPaths s (withW f 0 paths) := by
  cases paths with
  | nil => simp at hlen; omega
  | cons p t =>
    obtain ⟨pn0, ops0, fr0⟩ := p
    have hk : 0 + 1 + (s.n - 2) = ((pn0, ops0, fr0) :: t).length := by simp at hlen ⊢; omega
    unfold loadPathsCv
    rw [loadPlusCv_eq c _ f hcv (s.n - 2) 0 s hk]
    simp only [withW, ↓reduceIte, Nat.zero_add, List.drop_succ_cons, List.drop_zero, loadPaths,
      List.getElem?_cons_zero]
    cases loadPaths.plus s 0 (withW f 1 t) with
    | error er => rfl
    | ok s1 => rfl

/-- the own-ensemble entry of a padded plus vector -/
theorem padN_own (n i : Nat) (ws : List Nat) :
    (padN n (i : Int) (ratVec ws)).getD (i + 1) 0 ≠ 0 ↔ ∃ w, ws[i]? = some w ∧ w ≠ 0 := by
  rw [padN_plus_getD n (i : Int) (by omega)]
  rw [List.getD_eq_getElem?_getD]
  cases h : ws[i]? with
  | none => simp
  | some w =>
    simp only [Option.getD_some, ne_eq, Option.some.injEq, exists_eq_left']
    exact_mod_cast Iff.rfl

/-- **`load_paths` passes its assertions iff every plus path is valid in its own ensemble**: on a blank state of
    `n ≥ 2` slots, `n - 1` paths whose vectors `calc_cv_vector` computes (`f i` for `paths[i+1]`, of length `n - 1`):
    `load_paths` returns iff `f i` is non-zero at its own position `i`, for every plus ensemble `i`. -/
theorem loadPathsCv_loads_iff (c : CvCfg) (n workers tsteps cstep trajNum seed : Nat) (occ : List (List Int))
    (ensEng : List (List Nat)) (restarted : Bool) (l0 : List (List Nat × List Nat)) (paths : List CvPath)
    (f : Nat → List Nat) (hn : 2 ≤ n) (hlen : paths.length = n - 1)
    (hcv : ∀ (i : Nat) (pn : Nat) (ops : List Int) (fr : List Rat), paths[i + 1]? = some (pn, ops, fr) →
      cvVector ops c.intfs c.mv c.cap = .ok (f i))
    (hflen : ∀ i, i + 1 < paths.length → (f i).length + 1 = n) :
    (∃ s', loadPathsCv c (blank n workers tsteps cstep trajNum seed occ ensEng restarted l0) paths = .ok s') ↔
      ∀ i, i + 1 < paths.length → ∃ w, (f i)[i]? = some w ∧ w ≠ 0 := by
  have hbn : (blank n workers tsteps cstep trajNum seed occ ensEng restarted l0).n = n := rfl
  rw [loadPathsCv_eq_loadPaths c _ paths f (by rw [hbn]; exact hn) (by rw [hbn]; exact hlen) hcv]
  constructor
  · rintro ⟨s', hs'⟩ i hi
    -- the diagonal entry the assertion of add_traj looked at
    unfold loadPaths at hs'
    cases hpaths : paths with
    | nil => rw [hpaths] at hi; simp at hi
    | cons p t =>
      obtain ⟨pn0, ops0, fr0⟩ := p
      rw [hpaths] at hs' hi
      simp only [withW, ↓reduceIte, Nat.zero_add] at hs'
      split at hs'
      · exact absurd hs' (by simp)
      rename_i s1 hplus
      -- walk through `plus`
      have key : ∀ (rest : List (Nat × List Rat × List Rat)) (s s1 : St) (i0 : Nat),
          loadPaths.plus s i0 rest = .ok s1 → ∀ j p, rest[j]? = some p →
            (padValid s ((i0 + j : Nat) : Int) p.2.1).getD (i0 + j + 1) 0 ≠ 0 := by
        intro rest
        induction rest with
        | nil => intro s s1 i0 _ j p hj; simp at hj
        | cons x rest ih =>
          intro s s1 i0 hpl j p hj
          obtain ⟨pn, w, fr⟩ := x
          simp only [loadPaths.plus] at hpl
          split at hpl
          · exact absurd hpl (by simp)
          rename_i s2 hone
          obtain ⟨_, h2, h3⟩ := loadOne_ok5 hone
          cases j with
          | zero =>
            simp only [List.getElem?_cons_zero, Option.some.injEq] at hj
            subst hj
            have hslot : ((i0 : Int) + 1).toNat = i0 + 1 := by omega
            rw [hslot] at h2
            simpa using h2
          | succ j =>
            simp only [List.getElem?_cons_succ] at hj
            have := ih s2 s1 (i0 + 1) hpl j p hj
            rw [show i0 + 1 + j = i0 + (j + 1) by omega] at this
            have hn2 : s2.n = s.n := by rw [h3]
            rw [padValid_eq_padN, hn2, ← padValid_eq_padN] at this
            exact this
      have hi' : i < t.length := by simp at hi; omega
      rcases hpi : t[i] with ⟨pn, ops, fr⟩
      have hget : t[i]? = some (pn, ops, fr) := by rw [List.getElem?_eq_getElem hi', hpi]
      have hw := withW_get f t 1 i pn ops fr hget
      have := key _ _ _ 0 hplus i _ hw
      simp only [Nat.zero_add, Nat.add_eq_zero_iff, Nat.succ_ne_zero, false_and, ↓reduceIte,
        Nat.add_sub_cancel_left] at this
      rw [padValid_eq_padN] at this
      exact (padN_own _ i (f i)).1 this
  · intro hvalid
    refine loadPaths_succeeds (n := n) _ _ (rd_blank n workers tsteps cstep trajNum seed occ ensEng restarted l0)
      ?_ ?_
    · intro he
      have := congrArg List.length he
      rw [withW_length, List.length_nil] at this
      omega
    · intro j p hj
      have hjlt : j < paths.length := by
        have := (List.getElem?_eq_some_iff.mp hj).1
        rwa [withW_length] at this
      rcases hpj : paths[j] with ⟨pn, ops, fr⟩
      have hget : paths[j]? = some (pn, ops, fr) := by rw [List.getElem?_eq_getElem hjlt, hpj]
      rw [withW_get f paths 0 j pn ops fr hget] at hj
      simp only [Nat.zero_add, Option.some.injEq] at hj
      subst hj
      refine ⟨by omega, ?_, ?_⟩
      · cases j with
        | zero =>
          simp only [↓reduceIte, Nat.cast_zero, Int.zero_sub]
          unfold padN
          rw [if_neg (by decide)]
          simp [off]; omega
        | succ j =>
          simp only [Nat.succ_ne_zero, ↓reduceIte, Nat.add_sub_cancel]
          rw [show (((j + 1 : Nat) : Int) - 1) = (j : Int) by omega]
          unfold padN ratVec
          rw [if_pos (by omega)]
          have := hflen j hjlt
          simp [off]; omega
      · cases j with
        | zero =>
          simp only [↓reduceIte, Nat.cast_zero, Int.zero_sub]
          unfold padN
          rw [if_neg (by decide)]
          simp
        | succ j =>
          simp only [Nat.succ_ne_zero, ↓reduceIte, Nat.add_sub_cancel]
          rw [show (((j + 1 : Nat) : Int) - 1) = (j : Int) by omega]
          exact (padN_own n j (f j)).2 (hvalid j hjlt)

end Infretis.Repex.Cv
