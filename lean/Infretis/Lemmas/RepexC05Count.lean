import Infretis.Lemmas.RepexC05Pick
import Mathlib.Data.List.Perm.Subperm
import Mathlib.Data.List.Nodup
/-!
# C05 — during the initiation phase an ensemble is idle whenever a worker is started

Counting: with `toinitiate ≥ 1` the jobs in flight have pairwise distinct pins below
`workers − toinitiate ≤ workers − 1`; at most one of them holds two ensembles (`[0-]` and `[0+]`);
so at most `workers ≤ n − 2` of the `n − 1` real slots are held.
-/
namespace Infretis.Repex
open Infretis.Perm Infretis.Perm.C05

/-- a duplicate-free list of naturals below `k` has at most `k` entries -/
theorem nodup_bounded_length (l : List Nat) (k : Nat) (hnd : l.Nodup) (hb : ∀ x ∈ l, x < k) :
    l.length ≤ k := by
  have hsub : l ⊆ List.range k := fun x hx => List.mem_range.mpr (hb x hx)
  have hle := (hnd.subperm hsub).length_le
  rw [List.length_range] at hle
  exact hle

/-- the slots of a two-ensemble job are `0` and `1` -/
theorem heldJob_fst_of_zero_swap (j : Job) (h : j.picked.map (·.ens) = [-1, 0]) :
    (heldJob j).map Prod.fst = [0, 1] := by
  unfold heldJob
  rw [List.map_map]
  generalize j.picked = ps at h
  match ps, h with
  | [], h => simp at h
  | [_], h => simp at h
  | _ :: _ :: _ :: _, h => simp at h
  | [p, q], h =>
    simp only [List.map_cons, List.map_nil, List.cons.injEq, and_true] at h
    simp [slotOf, h.1, h.2]

/-- at most one job in flight holds two slots (it holds slot `0`) -/
theorem held_length_le : ∀ (l : List Job), (∀ j ∈ l, JobOk j) → ((held l).map Prod.fst).Nodup →
    (held l).length ≤ l.length + 1 ∧ (0 ∉ (held l).map Prod.fst → (held l).length ≤ l.length) := by
  intro l
  induction l with
  | nil => intro _ _; simp [held]
  | cons j l ih =>
    intro hok hnd
    have hcons : held (j :: l) = heldJob j ++ held l := by simp [held, List.flatMap_cons]
    rw [hcons] at hnd ⊢
    rw [List.map_append, List.nodup_append] at hnd
    obtain ⟨_, hnd2, hdis⟩ := hnd
    obtain ⟨ih1, ih2⟩ := ih (fun j' hj' => hok j' (List.mem_cons_of_mem _ hj')) hnd2
    rw [List.length_append, List.length_cons, List.map_append]
    rcases (hok j (List.mem_cons_self ..)).shape with h1 | h2
    · have hlen : (heldJob j).length = 1 := by simp [heldJob, h1]
      refine ⟨by omega, ?_⟩
      intro h0
      have := ih2 (fun hm => h0 (List.mem_append.mpr (Or.inr hm)))
      omega
    · have hfst := heldJob_fst_of_zero_swap j h2
      have hlen : (heldJob j).length = 2 := by
        have := congrArg List.length hfst
        simpa using this
      have h0mem : 0 ∈ (heldJob j).map Prod.fst := by rw [hfst]; simp
      have hnot : 0 ∉ (held l).map Prod.fst := fun hm => hdis 0 h0mem 0 hm rfl
      have := ih2 hnot
      refine ⟨by omega, ?_⟩
      intro h0
      exact absurd (List.mem_append.mpr (Or.inl h0mem)) h0

/-- **an idle ensemble exists when a worker is started** (workers ≤ ensembles − 1) -/
theorem start_has_idle_slot {y : Sys} (hi : InvR y) (hw : y.s.workers + 2 ≤ y.s.n)
    (hto : 1 ≤ y.s.toinitiate) : ∃ i : Nat, y.s.locks[i]? = some false := by
  have htole := hi.tole
  -- 1. at most `workers - 1` jobs in flight
  have hjobs : y.jobs.length ≤ y.s.workers - 1 := by
    have := nodup_bounded_length (y.jobs.map (·.pin)) (y.s.workers - 1) hi.pins (by
      intro x hx
      obtain ⟨j, hj, rfl⟩ := List.mem_map.mp hx
      have := hi.pinBound (by omega) j hj
      omega)
    simpa using this
  -- 2. at most one more held slot than jobs
  have hheld := (held_length_le y.jobs hi.jobs hi.core.nodup).1
  -- 3. pigeonhole on the `n - 1` real slots
  have hex : ∃ e, e < y.s.n - 1 ∧ e ∉ (held y.jobs).map Prod.fst := by
    apply Classical.byContradiction
    intro hne
    have hall : List.range (y.s.n - 1) ⊆ (held y.jobs).map Prod.fst := by
      intro e he
      apply Classical.byContradiction
      intro hnm
      exact hne ⟨e, List.mem_range.mp he, hnm⟩
    have hle := (List.nodup_range.subperm hall).length_le
    rw [List.length_range, List.length_map] at hle
    omega
  obtain ⟨e, he, hnm⟩ := hex
  refine ⟨e, unlocked_of_not_locked _ e (by rw [hi.core.lenL]; omega) ?_⟩
  intro hl
  exact hnm ((hi.core.busy e he).mp hl)

end Infretis.Repex
